(* Lemmas.v (C13) — all proofs about the stream transition system of C13/Stream.v.
   Nothing here is bounded: every statement is for all configurations
   (start, end, capacity incl. 0 = unbounded, batch size, fault position) and
   all reachable states, i.e. all schedules. *)
From Coq Require Import List Arith Bool Lia ZifyBool Wf_nat.
Import ListNotations.
From SV Require Import C13.Stream.

(* ------------------------------------------------------------------------ *)
(* lists                                                                      *)

Lemma frames_app : forall a b, frames (a ++ b) = frames a ++ frames b.
Proof. induction a as [|[i p|] a IH]; intros; simpl; rewrite ?IH; reflexivity. Qed.

Lemma sentinels_app : forall a b, sentinels (a ++ b) = sentinels a + sentinels b.
Proof. induction a as [|[i p|] a IH]; intros; simpl; rewrite ?IH; reflexivity. Qed.

Lemma frames_map : forall c l, frames (map (fr c) l) = l.
Proof. induction l; simpl; congruence. Qed.

Lemma sentinels_map : forall c l, sentinels (map (fr c) l) = 0.
Proof. induction l; simpl; congruence. Qed.

Lemma pl_eqb_eq : forall a b, pl_eqb a b = true -> a = b.
Proof.
  intros [[h1 w1] v1] [[h2 w2] v2] H. unfold pl_eqb in H.
  apply andb_prop in H. destruct H as [H H3]. apply andb_prop in H. destruct H as [H1 H2].
  apply Nat.eqb_eq in H1, H2, H3. subst. reflexivity.
Qed.

Lemma pl_eqb_refl : forall a, pl_eqb a a = true.
Proof. intros [[h w] v]. unfold pl_eqb. rewrite !Nat.eqb_refl. reflexivity. Qed.

(* an item that occurs in the specified stream carries the payload of its own index *)
Lemma stream_own : forall c l a i p b,
  a ++ Frame i p :: b = map (fr c) l ++ [Sentinel] -> p = src c i.
Proof.
  intros c l a i p b H.
  assert (Hin : In (Frame i p) (map (fr c) l ++ [Sentinel])) by (rewrite <- H; apply in_elt).
  apply in_app_or in Hin. destruct Hin as [Hin|[E|[]]]; [|discriminate].
  apply in_map_iff in Hin. destruct Hin as (j & E & _). unfold fr in E. injection E as <- <-. reflexivity.
Qed.

Lemma seq_cons_lt : forall i n, i < n -> seq i (n - i) = i :: seq (S i) (n - S i).
Proof. intros. replace (n - i) with (S (n - S i)) by lia. reflexivity. Qed.

Lemma seq_nil_le : forall i n, n <= i -> seq i (n - i) = [].
Proof. intros. replace (n - i) with 0 by lia. reflexivity. Qed.

Lemma map_frame_sent_inj : forall c a b r,
  map (fr c) a ++ Sentinel :: r = map (fr c) b ++ [Sentinel] -> a = b /\ r = [].
Proof.
  intros c. induction a as [|x a IH]; destruct b as [|y b]; simpl; intros r H; inversion H; subst.
  - auto.
  - destruct (IH _ _ H3). subst. auto.
Qed.

Lemma concat_flush : forall acc, concat (flush acc) = acc.
Proof. destruct acc; simpl; rewrite ?app_nil_r; reflexivity. Qed.

Lemma coll_enter_for : forall k acc, coll (enter_for k acc) = acc.
Proof. destruct k; reflexivity. Qed.

(* ------------------------------------------------------------------------ *)
(* the stop index                                                             *)

Lemma stop_le_end : forall c, stop c <= end_ c.
Proof.
  intros c. unfold stop. destruct (fault c) as [f|]; [|lia].
  destruct (start_ c <=? f); lia.
Qed.

Lemma read_ok_lt_stop : forall c i,
  start_ c <= i -> (i = start_ c \/ i <= stop c) -> i < end_ c -> is_fault c i = false ->
  i < stop c.
Proof.
  intros c i Hs Hi He Hf. unfold stop, is_fault in *.
  destruct (fault c) as [f|]; [|lia].
  destruct (Nat.leb_spec (start_ c) f); lia.
Qed.

Lemma read_fail_stop : forall c i,
  start_ c <= i -> i < end_ c -> is_fault c i = true -> stop c = i.
Proof.
  intros c i Hs He Hf. unfold stop, is_fault in *.
  destruct (fault c) as [f|]; [|discriminate].
  assert (f = i) by lia. subst f.
  destruct (Nat.leb_spec (start_ c) i); lia.
Qed.

(* ------------------------------------------------------------------------ *)
(* the invariant                                                              *)

Definition full_chunks (b : nat) (ys : list (list nat)) : Prop :=
  Forall (fun y => length y = b) ys.

(* all batches full, except that the last one may be shorter (never empty) *)
Definition chunks_ok (b : nat) (ys : list (list nat)) : Prop :=
  exists ys' last, ys = ys' ++ flush last /\ full_chunks b ys' /\ length last <= b.

Definition pending_marker (p : ppc) : list item :=
  match p with PDone => [] | _ => [Sentinel] end.

Record Inv (c : cfg) (s : st) : Prop := mkInv {
  inv_pos :
    match pp s with
    | PLoop i => start_ c <= i /\ (i = start_ c \/ i <= stop c)
    | PPut i p => start_ c <= i /\ i < stop c /\ p = src c i
    | _ => True
    end;
  (* everything taken, queued, in flight, unread and the marker not yet put
     is exactly the specified stream, in order *)
  inv_stream :
    taken s ++ q s ++ map (fr c) (in_flight s ++ unread c s) ++ pending_marker (pp s)
    = map (fr c) (delivered c) ++ [Sentinel];
  (* what the consumer took is what it yielded and holds, plus the marker iff done *)
  inv_taken :
    taken s = map (fr c) (concat (yielded s) ++ collecting s)
              ++ (if done_ s then [Sentinel] else []);
  inv_pc :
    match cc s with
    | CStart => pp s = PIdle /\ done_ s = false /\ yielded s = []
    | CCollect k acc =>
        done_ s = false /\ 1 <= k /\ k + length acc = batch c /\ full_chunks (batch c) (yielded s)
    | CProcess acc =>
        length acc <= batch c /\ (done_ s = false -> length acc = batch c) /\
        full_chunks (batch c) (yielded s)
    | CJoin | CFinished => done_ s = true /\ chunks_ok (batch c) (yielded s)
    end;
  inv_idle : pp s = PIdle -> cc s = CStart
}.

Lemma inv_init : forall c, Inv c (init c).
Proof.
  intros c. constructor; simpl; auto.
Qed.

Lemma full_chunks_flush : forall b ys acc,
  full_chunks b ys -> length acc = b -> full_chunks b (ys ++ flush acc).
Proof.
  intros b ys acc H Hl. unfold full_chunks in *. apply Forall_app. split; auto.
  destruct acc; simpl; auto.
Qed.

Lemma inv_pc_enter_for : forall c d ys k acc,
  d = false -> k + length acc = batch c -> full_chunks (batch c) ys ->
  match enter_for k acc with
  | CStart => False
  | CCollect k' acc' =>
      d = false /\ 1 <= k' /\ k' + length acc' = batch c /\ full_chunks (batch c) ys
  | CProcess acc' =>
      length acc' <= batch c /\ (d = false -> length acc' = batch c) /\ full_chunks (batch c) ys
  | CJoin | CFinished => d = true /\ chunks_ok (batch c) ys
  end.
Proof.
  intros c d ys k acc Hd Hk Hy. destruct k; simpl in *.
  - repeat split; auto; lia.
  - repeat split; auto; lia.
Qed.

(* substitute the program counters / queue shape fixed by a rule's premises *)
Ltac sub_pc := repeat match goal with
  | H : ?x = PIdle |- _ => is_var x; subst x
  | H : ?x = PLoop _ |- _ => is_var x; subst x
  | H : ?x = PPut _ _ |- _ => is_var x; subst x
  | H : ?x = PSent |- _ => is_var x; subst x
  | H : ?x = PDone |- _ => is_var x; subst x
  | H : ?x = CStart |- _ => is_var x; subst x
  | H : ?x = CCollect _ _ |- _ => is_var x; subst x
  | H : ?x = CProcess _ |- _ => is_var x; subst x
  | H : ?x = CJoin |- _ => is_var x; subst x
  | H : ?x = CFinished |- _ => is_var x; subst x
  | H : ?x = Frame _ _ :: _ |- _ => is_var x; subst x
  | H : ?x = Sentinel :: _ |- _ => is_var x; subst x
  end.

Lemma step_inv : forall c l s s', lstep c l s s' -> Inv c s -> Inv c s'.
Proof.
  intros c l s s' H [Hpos Hstr Htak Hpc Hidle].
  inversion H; clear H; destruct s as [p0 q0 k0 d ys tk];
    unfold collecting, in_flight, unread in *; simpl in *; sub_pc; subst s'.
  - (* start *)
    constructor; unfold collecting, in_flight, unread; simpl.
    + lia.
    + exact Hstr.
    + rewrite coll_enter_for. exact Htak.
    + destruct Hpc as (_ & Hd & Hy). subst ys.
      pose proof (inv_pc_enter_for c d [] (batch c) [] Hd) as E. simpl in E.
      specialize (E ltac:(lia) ltac:(constructor)).
      destruct (enter_for (batch c) []); auto; contradiction.
    + discriminate.
  - (* read ok *)
    destruct Hpos as [Hs Hi]. pose proof (read_ok_lt_stop c i Hs Hi H1 H2) as Hlt.
    constructor; unfold collecting, in_flight, unread; simpl.
    + repeat split; auto; lia.
    + rewrite <- Hstr. simpl. rewrite (seq_cons_lt i (stop c) Hlt). reflexivity.
    + exact Htak.
    + destruct k0; try exact Hpc. destruct Hpc as [E _]; discriminate.
    + discriminate.
  - (* read fail *)
    destruct Hpos as [Hs Hi]. pose proof (read_fail_stop c i Hs H1 H2) as Hst.
    constructor; unfold collecting, in_flight, unread; simpl.
    + exact I.
    + rewrite <- Hstr. simpl. rewrite (seq_nil_le i (stop c)) by lia. reflexivity.
    + exact Htak.
    + destruct k0; try exact Hpc. destruct Hpc as [E _]; discriminate.
    + discriminate.
  - (* loop end *)
    pose proof (stop_le_end c) as Hle.
    constructor; unfold collecting, in_flight, unread; simpl.
    + exact I.
    + rewrite <- Hstr. simpl. rewrite (seq_nil_le i (stop c)) by lia. reflexivity.
    + exact Htak.
    + destruct k0; try exact Hpc. destruct Hpc as [E _]; discriminate.
    + discriminate.
  - (* put *)
    destruct Hpos as (Hs & Hi & Ep). subst p.
    constructor; unfold collecting, in_flight, unread; simpl.
    + lia.
    + rewrite <- Hstr. simpl. rewrite <- !app_assoc. reflexivity.
    + exact Htak.
    + destruct k0; try exact Hpc. destruct Hpc as [E _]; discriminate.
    + discriminate.
  - (* put sentinel *)
    constructor; unfold collecting, in_flight, unread; simpl.
    + exact I.
    + rewrite <- Hstr. simpl. rewrite <- !app_assoc. simpl. reflexivity.
    + exact Htak.
    + destruct k0; try exact Hpc. destruct Hpc as [E _]; discriminate.
    + discriminate.
  - (* get frame: the item taken is in the specified stream, so it carries its own payload *)
    destruct Hpc as (Hd & Hk & Hlen & Hy). subst d.
    assert (Ep : p = src c i) by (eapply stream_own; exact Hstr). subst p.
    constructor; unfold collecting, in_flight, unread; simpl.
    + exact Hpos.
    + rewrite <- Hstr. simpl. rewrite <- !app_assoc. reflexivity.
    + rewrite coll_enter_for. rewrite Htak. simpl. rewrite !app_nil_r.
      rewrite !map_app. simpl. rewrite <- !app_assoc. reflexivity.
    + pose proof (inv_pc_enter_for c false ys k (acc ++ [i]) eq_refl) as E.
      rewrite app_length in E. simpl in E. specialize (E ltac:(lia) Hy).
      destruct (enter_for k (acc ++ [i])); auto; contradiction.
    + intros E. specialize (Hidle E). discriminate.
  - (* get sentinel *)
    destruct Hpc as (Hd & Hk & Hlen & Hy). subst d.
    constructor; unfold collecting, in_flight, unread; simpl.
    + exact Hpos.
    + rewrite <- Hstr. simpl. rewrite <- !app_assoc. reflexivity.
    + rewrite Htak. simpl. rewrite !app_nil_r. reflexivity.
    + repeat split; auto; try lia.
    + intros E. specialize (Hidle E). discriminate.
  - (* process *)
    destruct Hpc as (Hle & Hfull & Hy).
    constructor; unfold collecting, in_flight, unread; simpl.
    + exact Hpos.
    + exact Hstr.
    + rewrite Htak. simpl. rewrite concat_app, concat_flush.
      assert (Ec : coll (after_process c d) = []).
      { unfold after_process. destruct d; [reflexivity | apply coll_enter_for]. }
      rewrite Ec, app_nil_r. reflexivity.
    + unfold after_process. destruct d.
      * split; auto. exists ys, acc. auto.
      * pose proof (inv_pc_enter_for c false (ys ++ flush acc) (batch c) [] eq_refl) as E.
        simpl in E. specialize (E ltac:(lia) (full_chunks_flush _ _ _ Hy (Hfull eq_refl))).
        destruct (enter_for (batch c) []); auto; contradiction.
    + intros E. specialize (Hidle E). discriminate.
  - (* join *)
    constructor; unfold collecting, in_flight, unread; simpl.
    + exact I.
    + exact Hstr.
    + exact Htak.
    + exact Hpc.
    + discriminate.
Qed.

Lemma reach_inv : forall c s, reach c s -> Inv c s.
Proof.
  intros c s H. induction H as [|s s' _ IH [l Hs]].
  - apply inv_init.
  - eapply step_inv; eauto.
Qed.

(* ------------------------------------------------------------------------ *)
(* (a) no loss, duplication or reordering; at most one marker                 *)

Lemma inv_frames : forall c s, Inv c s ->
  concat (yielded s) ++ collecting s ++ frames (q s) ++ in_flight s ++ unread c s = delivered c.
Proof.
  intros c s [_ Hstr Htak _ _].
  apply (f_equal frames) in Hstr. rewrite Htak in Hstr.
  rewrite !frames_app, !frames_map in Hstr.
  assert (E1 : frames (if done_ s then [Sentinel] else []) = []) by (destruct (done_ s); reflexivity).
  assert (E2 : frames (pending_marker (pp s)) = []) by (destruct (pp s); reflexivity).
  rewrite E1, E2 in Hstr. simpl in Hstr. rewrite !app_nil_r in Hstr.
  rewrite <- Hstr. rewrite <- !app_assoc. reflexivity.
Qed.

Lemma inv_sentinels : forall c s, Inv c s ->
  sentinel_count s + length (pending_marker (pp s)) = 1.
Proof.
  intros c s [_ Hstr Htak _ _].
  apply (f_equal sentinels) in Hstr. rewrite Htak in Hstr.
  rewrite !sentinels_app, !sentinels_map in Hstr. unfold sentinel_count.
  assert (E1 : sentinels (if done_ s then [Sentinel] else []) = if done_ s then 1 else 0)
    by (destruct (done_ s); reflexivity).
  assert (E2 : sentinels (pending_marker (pp s)) = length (pending_marker (pp s)))
    by (destruct (pp s); reflexivity).
  rewrite E1, E2 in Hstr. simpl in Hstr. lia.
Qed.

Lemma invariant_reach : forall c s, reach c s ->
  concat (yielded s) ++ collecting s ++ frames (q s) ++ in_flight s ++ unread c s = delivered c
  /\ sentinel_count s <= 1
  /\ (sentinel_count s = 1 <-> pp s = PDone).
Proof.
  intros c s H. apply reach_inv in H. split; [apply inv_frames; auto|].
  pose proof (inv_sentinels c s H) as E.
  split; [lia|]. destruct (pp s); simpl in E; split; intros; try discriminate; try lia; auto.
Qed.

(* "each with its own original size (and video index)": every frame item that the consumer has taken
   or that waits in the queue carries the payload the source gives for ITS index; so does the item
   in flight (inv_pos) *)
Lemma inv_items_own : forall c s i p, Inv c s -> In (Frame i p) (taken s ++ q s) -> p = src c i.
Proof.
  intros c s i p [_ Hstr _ _ _] Hin. apply in_split in Hin. destruct Hin as (l1 & l2 & E).
  rewrite app_assoc, E, <- app_assoc in Hstr. simpl in Hstr. eapply stream_own; exact Hstr.
Qed.

Lemma reach_items_own : forall c s i p, reach c s ->
  (In (Frame i p) (taken s ++ q s) \/ pp s = PPut i p) -> p = src c i.
Proof.
  intros c s i p Hr [Hin|Hp].
  - eapply inv_items_own; eauto. apply reach_inv; auto.
  - pose proof (inv_pos c s (reach_inv c s Hr)) as H. rewrite Hp in H. tauto.
Qed.

(* once the consumer has seen the marker the producer is dead and the queue empty:
   nothing is ever left behind the marker *)
Lemma inv_done_true : forall c s, Inv c s -> done_ s = true -> pp s = PDone /\ q s = [].
Proof.
  intros c s [_ Hstr Htak _ _] Hd. rewrite Hd in Htak. rewrite Htak in Hstr.
  rewrite <- !app_assoc in Hstr. simpl in Hstr.
  apply map_frame_sent_inj in Hstr. destruct Hstr as [_ Hr].
  apply app_eq_nil in Hr. destruct Hr as [Hq Hr]. apply app_eq_nil in Hr. destruct Hr as [_ Hm].
  split; auto. destruct (pp s); simpl in Hm; try discriminate; auto.
Qed.

(* while the consumer has not seen the marker and the producer is dead, the
   marker is in the queue *)
Lemma inv_marker_queued : forall c s, Inv c s -> done_ s = false -> pp s = PDone -> q s <> [].
Proof.
  intros c s Hi Hd Hp Hq. pose proof (inv_sentinels c s Hi) as E.
  unfold sentinel_count in E. rewrite Hd, Hp, Hq in E. simpl in E. lia.
Qed.

(* ------------------------------------------------------------------------ *)
(* chunks                                                                     *)

Lemma firstn_app_len : forall (a b : list nat), firstn (length a) (a ++ b) = a.
Proof. induction a; intros; simpl; f_equal; auto. Qed.

Lemma skipn_app_len : forall (a b : list nat), skipn (length a) (a ++ b) = b.
Proof. induction a; intros; simpl; auto. Qed.

Lemma chunks_fuel_ok : forall b ys last fuel,
  1 <= b -> full_chunks b ys -> length last <= b ->
  length (concat (ys ++ flush last)) <= fuel ->
  chunks_fuel fuel b (concat (ys ++ flush last)) = ys ++ flush last.
Proof.
  intros b ys last fuel Hb Hy Hl. revert fuel. induction Hy as [|y ys Hlen Hy IH]; intros fuel Hf.
  - simpl in *. rewrite concat_flush in *. destruct last as [|x last].
    + destruct fuel; reflexivity.
    + destruct fuel as [|fuel]; [simpl in Hf; lia|].
      cbn [chunks_fuel flush]. rewrite firstn_all2 by lia. rewrite skipn_all2 by lia.
      destruct fuel; reflexivity.
  - cbn [app concat] in *. rewrite app_length in Hf.
    destruct y as [|x y]; [simpl in Hlen; lia|].
    destruct fuel as [|fuel]; [simpl in Hf; lia|].
    remember (concat (ys ++ flush last)) as rest eqn:Er.
    cbn [chunks_fuel app].
    change (x :: y ++ rest) with ((x :: y) ++ rest).
    rewrite <- Hlen. rewrite firstn_app_len, skipn_app_len.
    f_equal. rewrite Hlen. apply IH. simpl in Hf. lia.
Qed.

Lemma chunks_ok_unique : forall b ys, 1 <= b -> chunks_ok b ys -> ys = chunks b (concat ys).
Proof.
  intros b ys Hb (ys' & last & E & Hy & Hl). subst ys. unfold chunks.
  symmetry. apply chunks_fuel_ok; auto.
Qed.

(* ------------------------------------------------------------------------ *)
(* the final state                                                            *)

Lemma final_spec_inv : forall c s, Inv c s -> final s ->
  q s = [] /\ done_ s = true /\
  taken s = map (fr c) (delivered c) ++ [Sentinel] /\
  concat (yielded s) = delivered c /\
  chunks_ok (batch c) (yielded s).
Proof.
  intros c s Hi [Hp Hc]. pose proof Hi as [_ Hstr Htak Hpc _].
  rewrite Hc in Hpc. destruct Hpc as [Hd Hch].
  destruct (inv_done_true c s Hi Hd) as [_ Hq].
  unfold collecting, in_flight, unread in *. rewrite Hp, Hq in Hstr. rewrite Hc, Hd in Htak.
  simpl in *. rewrite !app_nil_r in *.
  repeat split; auto.
  rewrite Htak in Hstr.
  assert (E : map (fr c) (concat (yielded s)) ++ Sentinel :: [] = map (fr c) (delivered c) ++ [Sentinel])
    by exact Hstr.
  apply map_frame_sent_inj in E. tauto.
Qed.

(* ------------------------------------------------------------------------ *)
(* (b) deadlock freedom                                                       *)

Lemma final_dec : forall s, {final s} + {~ final s}.
Proof.
  intros s. unfold final. destruct (pp s); try (right; intros [E _]; discriminate).
  destruct (cc s); try (right; intros [_ E]; discriminate). left; auto.
Qed.

(* the consumer can always move unless it waits on an empty queue, on a live
   producer, or has finished *)
Lemma consumer_enabled : forall c s,
  Inv c s -> pp s <> PIdle -> (q s <> [] \/ exists acc, cc s = CProcess acc) ->
  (cc s = CJoin \/ cc s = CFinished) \/ exists s', step c s s'.
Proof.
  intros c s Hi Hp Hq. pose proof Hi as [_ _ _ Hpc _].
  destruct (cc s) as [|k acc|acc| |] eqn:Ec.
  - destruct Hpc as [E _]. contradiction.
  - right. destruct Hq as [Hq|[a E]]; [|discriminate].
    destruct Hpc as (_ & Hk & _). destruct k as [|k]; [lia|].
    destruct (q s) as [|[i p|] r] eqn:Eq; [contradiction| |].
    + eexists. eexists. eapply l_get_frame; eauto.
    + eexists. eexists. eapply l_get_sentinel; eauto.
  - right. eexists. eexists. eapply l_process; eauto.
  - left; auto.
  - left; auto.
Qed.

Lemma full_nonempty : forall c l, full c l = true -> l <> [].
Proof.
  intros c l H E. subst l. unfold full in H. simpl in H. lia.
Qed.

Lemma deadlock_free_inv : forall c s, Inv c s -> ~ final s -> exists s', step c s s'.
Proof.
  intros c s Hi Hnf. pose proof Hi as [_ _ _ Hpc Hidle].
  destruct (pp s) as [|i|i p| |] eqn:Ep.
  - (* idle: the consumer is at start() *)
    specialize (Hidle eq_refl). eexists. eexists. eapply l_start; eauto.
  - (* loop head: always enabled *)
    destruct (le_lt_dec (end_ c) i) as [Hle|Hlt].
    + eexists. eexists. eapply l_loop_end; eauto.
    + destruct (is_fault c i) eqn:Ef.
      * eexists. eexists. eapply l_read_fail; eauto.
      * eexists. eexists. eapply l_read_ok; eauto.
  - (* put: enabled, or the queue is full and the consumer can move *)
    destruct (full c (q s)) eqn:Ef.
    + destruct (consumer_enabled c s Hi) as [[E|E]|H]; auto.
      * rewrite Ep; discriminate.
      * left. eapply full_nonempty; eauto.
      * rewrite E in Hpc. destruct Hpc as [Hd _].
        destruct (inv_done_true c s Hi Hd) as [E' _]. congruence.
      * rewrite E in Hpc. destruct Hpc as [Hd _].
        destruct (inv_done_true c s Hi Hd) as [E' _]. congruence.
    + eexists. eexists. eapply l_put; eauto.
  - (* put of the marker: the same *)
    destruct (full c (q s)) eqn:Ef.
    + destruct (consumer_enabled c s Hi) as [[E|E]|H]; auto.
      * rewrite Ep; discriminate.
      * left. eapply full_nonempty; eauto.
      * rewrite E in Hpc. destruct Hpc as [Hd _].
        destruct (inv_done_true c s Hi Hd) as [E' _]. congruence.
      * rewrite E in Hpc. destruct Hpc as [Hd _].
        destruct (inv_done_true c s Hi Hd) as [E' _]. congruence.
    + eexists. eexists. eapply l_put_sentinel; eauto.
  - (* producer dead: the marker is in the queue or was seen *)
    destruct (done_ s) eqn:Ed.
    + destruct (cc s) as [|k acc|acc| |] eqn:Ec.
      * destruct Hpc as [E _]. congruence.
      * destruct Hpc as [E _]. congruence.
      * eexists. eexists. eapply l_process; eauto.
      * eexists. eexists. eapply l_join; eauto.
      * exfalso. apply Hnf. split; auto.
    + destruct (consumer_enabled c s Hi) as [[E|E]|H]; auto.
      * rewrite Ep; discriminate.
      * left. eapply inv_marker_queued; eauto.
      * rewrite E in Hpc. destruct Hpc as [Hd _]. congruence.
      * rewrite E in Hpc. destruct Hpc as [Hd _]. congruence.
Qed.

(* ------------------------------------------------------------------------ *)
(* (c) termination                                                            *)

Lemma mc_enter_for : forall k acc, mc (enter_for k acc) <= 2.
Proof. destruct k; simpl; lia. Qed.

Lemma lstep_decreases : forall c l s s', 0 < batch c -> lstep c l s s' ->
  measure c s' < measure c s.
Proof.
  intros c l s s' Hb H.
  inversion H; clear H; destruct s as [p0 q0 k0 d ys tk]; unfold measure; simpl in *; sub_pc; subst s';
    simpl; rewrite ?app_length; simpl.
  - pose proof (mc_enter_for (batch c) []). lia.
  - lia.
  - lia.
  - lia.
  - lia.
  - lia.
  - pose proof (mc_enter_for k (acc ++ [i])). lia.
  - lia.
  - unfold after_process. destruct d; simpl; [lia|].
    destruct (batch c); simpl; lia.
  - lia.
Qed.

Lemma step_decreases : forall c s s', 0 < batch c -> step c s s' -> measure c s' < measure c s.
Proof. intros c s s' Hb [l H]. eapply lstep_decreases; eauto. Qed.

(* no infinite schedule *)
Lemma step_wf : forall c, 0 < batch c -> well_founded (fun s' s => step c s s').
Proof.
  intros c Hb. apply (well_founded_lt_compat _ (measure c)).
  intros s' s H. apply step_decreases; auto.
Qed.

(* n consecutive transitions *)
Inductive stepn (c : cfg) : nat -> st -> st -> Prop :=
| stepn_O : forall s, stepn c 0 s s
| stepn_S : forall n s s1 s2, step c s s1 -> stepn c n s1 s2 -> stepn c (S n) s s2.

Lemma stepn_bound : forall c n s s', 0 < batch c -> stepn c n s s' -> n + measure c s' <= measure c s.
Proof.
  intros c n s s' Hb H. induction H as [|n s s1 s2 Hs _ IH]; [lia|].
  pose proof (step_decreases c s s1 Hb Hs). lia.
Qed.

Lemma stepn_reach : forall c n s s', reach c s -> stepn c n s s' -> reach c s'.
Proof.
  intros c n s s' Hr H. induction H; auto. apply IHstepn. eapply reach_step; eauto.
Qed.

(* on every path, eventually P *)
Inductive inevitably (c : cfg) (P : st -> Prop) : st -> Prop :=
| inev_now : forall s, P s -> inevitably c P s
| inev_later : forall s, (exists s', step c s s') ->
                         (forall s', step c s s' -> inevitably c P s') -> inevitably c P s.

(* what holds in the final state *)
Definition final_ok (c : cfg) (s : st) : Prop :=
  final s /\
  q s = [] /\
  taken s = map (fr c) (delivered c) ++ [Sentinel] /\
  concat (yielded s) = delivered c /\
  yielded s = chunks (batch c) (delivered c).

Lemma final_ok_reach : forall c s, 0 < batch c -> reach c s -> final s -> final_ok c s.
Proof.
  intros c s Hb Hr Hf. apply reach_inv in Hr.
  destruct (final_spec_inv c s Hr Hf) as (Hq & Hd & Ht & Hc & Hch).
  repeat split; auto; try apply Hf.
  rewrite <- Hc. apply chunks_ok_unique; auto.
Qed.

Lemma inevitably_final : forall c, 0 < batch c ->
  forall s, reach c s -> inevitably c (final_ok c) s.
Proof.
  intros c Hb s. induction s as [s IH] using (well_founded_induction (step_wf c Hb)).
  intros Hr. destruct (final_dec s) as [Hf|Hnf].
  - apply inev_now. apply final_ok_reach; auto.
  - apply inev_later.
    + apply deadlock_free_inv; auto. apply reach_inv; auto.
    + intros s' Hs. apply IH; auto. eapply reach_step; eauto.
Qed.

(* every maximal run (a run that cannot be extended) ends in the final state *)
Lemma stuck_is_final : forall c s, reach c s -> (forall s', ~ step c s s') -> final s.
Proof.
  intros c s Hr Hst. destruct (final_dec s) as [Hf|Hnf]; auto.
  destruct (deadlock_free_inv c s (reach_inv c s Hr) Hnf) as [s' Hs]. exfalso. eapply Hst; eauto.
Qed.

(* the final state is absorbing *)
Lemma final_no_step : forall c s s', final s -> ~ step c s s'.
Proof.
  intros c s s' [Hp Hc] [l H]. inversion H; congruence.
Qed.

(* ------------------------------------------------------------------------ *)
(* the trace checker is sound                                                 *)

Lemma tau_p_sound : forall c s, tau_p c s = s \/ lstep c None s (tau_p c s).
Proof.
  intros c s. unfold tau_p. destruct (pp s) eqn:Ep; auto.
  destruct (Nat.leb_spec (end_ c) i); auto.
  right. eapply l_loop_end; eauto.
Qed.

Lemma tau_c_sound : forall c s, tau_c c s = s \/ lstep c None s (tau_c c s).
Proof.
  intros c s. unfold tau_c. destruct (cc s) as [| | [|x acc] | |] eqn:Ec; auto.
  right. apply (l_process c s []). exact Ec.
Qed.

Lemma ltrace_tau_pre : forall c s s1 tr s2,
  (s1 = s \/ lstep c None s s1) -> ltrace c s1 tr s2 -> ltrace c s tr s2.
Proof. intros c s s1 tr s2 [E|H] Ht; [subst; auto | eapply lt_tau; eauto]. Qed.

Lemma list_nat_eqb_eq : forall a b, list_nat_eqb a b = true -> a = b.
Proof.
  induction a as [|x a IH]; destruct b as [|y b]; simpl; intros H; try discriminate; auto.
  apply andb_prop in H. destruct H as [H1 H2]. apply Nat.eqb_eq in H1. f_equal; auto.
Qed.

Lemma exec1_sound : forall c s e s', exec1 c s e = Some s' -> ltrace c s [e] s'.
Proof.
  intros c s e s' H. destruct e; unfold exec1 in H.
  - destruct (pp s) eqn:Ep; try discriminate. destruct (cc s) eqn:Ec; try discriminate.
    inversion H; subst. eapply lt_obs; [eapply l_start; eauto | apply lt_nil].
  - destruct (pp s) as [|j| | |] eqn:Ep; try discriminate.
    destruct ((i =? j) && (i <? end_ c) && negb (is_fault c i)) eqn:Eb; try discriminate.
    inversion H; subst. assert (i = j) by lia. subst j.
    eapply lt_obs; [eapply l_read_ok; eauto; [lia | destruct (is_fault c i); simpl in *; auto; lia] | apply lt_nil].
  - destruct (pp s) as [|j| | |] eqn:Ep; try discriminate.
    destruct ((i =? j) && (i <? end_ c) && is_fault c i) eqn:Eb; try discriminate.
    inversion H; subst. assert (i = j) by lia. subst j.
    eapply lt_obs; [eapply l_read_fail; eauto; [lia | destruct (is_fault c i); simpl in *; auto; lia] | apply lt_nil].
  - destruct (pp s) as [| |j p'| |] eqn:Ep; try discriminate.
    destruct ((i =? j) && pl_eqb p p' && negb (full c (q s))) eqn:Eb; try discriminate.
    inversion H; subst. apply andb_prop in Eb. destruct Eb as [Eb Ef]. apply andb_prop in Eb. destruct Eb as [Ei Epl].
    apply pl_eqb_eq in Epl. subst p'. assert (i = j) by lia. subst j.
    eapply lt_obs; [eapply l_put; eauto; destruct (full c (q s)); simpl in *; auto; discriminate | apply lt_nil].
  - apply (ltrace_tau_pre c s (tau_p c s)).
    { destruct (tau_p_sound c s); auto. }
    destruct (pp (tau_p c s)) eqn:Ep; try discriminate.
    destruct (negb (full c (q (tau_p c s)))) eqn:Eb; try discriminate.
    inversion H; subst.
    eapply lt_obs; [eapply l_put_sentinel; eauto; destruct (full c (q (tau_p c s))); simpl in *; auto; discriminate | apply lt_nil].
  - apply (ltrace_tau_pre c s (tau_c c s)).
    { destruct (tau_c_sound c s); auto. }
    destruct (cc (tau_c c s)) as [|[|k] acc| | |] eqn:Ec; try discriminate.
    destruct (q (tau_c c s)) as [|[j p'|] r] eqn:Eq; try discriminate.
    destruct ((i =? j) && pl_eqb p p') eqn:Eb; try discriminate. inversion H; subst.
    apply andb_prop in Eb. destruct Eb as [Ei Epl]. apply pl_eqb_eq in Epl. subst p'.
    assert (i = j) by lia. subst j.
    eapply lt_obs; [eapply l_get_frame; eauto | apply lt_nil].
  - apply (ltrace_tau_pre c s (tau_c c s)).
    { destruct (tau_c_sound c s); auto. }
    destruct (cc (tau_c c s)) as [|[|k] acc| | |] eqn:Ec; try discriminate.
    destruct (q (tau_c c s)) as [|[j p'|] r] eqn:Eq; try discriminate.
    inversion H; subst.
    eapply lt_obs; [eapply l_get_sentinel; eauto | apply lt_nil].
  - destruct (cc s) as [| |[|x acc]| |] eqn:Ec; try discriminate.
    destruct (list_nat_eqb b (x :: acc)) eqn:Eb; try discriminate.
    apply list_nat_eqb_eq in Eb. subst b. inversion H; subst.
    eapply lt_obs; [apply (l_process c s (x :: acc)); auto | apply lt_nil].
  - apply (ltrace_tau_pre c s (tau_c c s)).
    { destruct (tau_c_sound c s); auto. }
    destruct (cc (tau_c c s)) eqn:Ec; try discriminate.
    destruct (pp (tau_c c s)) eqn:Ep; try discriminate.
    inversion H; subst.
    eapply lt_obs; [eapply l_join; eauto | apply lt_nil].
Qed.

Lemma ltrace_app : forall c s tr1 s1 tr2 s2,
  ltrace c s tr1 s1 -> ltrace c s1 tr2 s2 -> ltrace c s (tr1 ++ tr2) s2.
Proof.
  intros c s tr1 s1 tr2 s2 H1 H2. induction H1; simpl; auto.
  - eapply lt_tau; eauto.
  - eapply lt_obs; eauto.
Qed.

Lemma run_trace_sound : forall c tr s s', run_trace c s tr = Some s' -> ltrace c s tr s'.
Proof.
  intros c tr. induction tr as [|e tr IH]; simpl; intros s s' H.
  - inversion H; subst. apply lt_nil.
  - destruct (exec1 c s e) as [s1|] eqn:E; try discriminate.
    change (e :: tr) with ([e] ++ tr). eapply ltrace_app; [apply exec1_sound; eauto | auto].
Qed.

Lemma ltrace_reach : forall c s tr s', ltrace c s tr s' -> reach c s -> reach c s'.
Proof.
  intros c s tr s' H. induction H; intros Hr; auto.
  - apply IHltrace. eapply reach_step; eauto. eexists; eauto.
  - apply IHltrace. eapply reach_step; eauto. eexists; eauto.
Qed.

Lemma is_final_true : forall s, is_final s = true -> final s.
Proof.
  intros s H. unfold is_final in H. unfold final.
  destruct (pp s); try discriminate. destruct (cc s); try discriminate. auto.
Qed.

Lemma accepts_sound : forall c tr, accepts c tr = true ->
  exists s, ltrace c (init c) tr s /\ reach c s /\ final s.
Proof.
  intros c tr H. unfold accepts in H.
  destruct (run_trace c (init c) tr) as [s|] eqn:E; try discriminate.
  exists s. apply run_trace_sound in E. split; auto. split.
  - eapply ltrace_reach; eauto. apply reach_init.
  - apply is_final_true; auto.
Qed.

(* what a trace shows of the consumer's side *)
Definition yields_of (tr : list event) : list (list nat) :=
  flat_map (fun e => match e with EvYield b => [b] | _ => [] end) tr.
Definition gets_of (tr : list event) : list item :=
  flat_map (fun e => match e with EvGet i p => [Frame i p] | EvGetSent => [Sentinel] | _ => [] end) tr.

Definition obs1 (l : option event) : list event := match l with Some e => [e] | None => [] end.

Lemma lstep_history : forall c l s s', lstep c l s s' ->
  yielded s' = yielded s ++ yields_of (obs1 l) /\ taken s' = taken s ++ gets_of (obs1 l).
Proof.
  intros c l s s' H. inversion H; subst; simpl; rewrite ?app_nil_r; auto.
  destruct acc; simpl; rewrite ?app_nil_r; auto.
Qed.

Lemma ltrace_history : forall c s tr s', ltrace c s tr s' ->
  yielded s' = yielded s ++ yields_of tr /\ taken s' = taken s ++ gets_of tr.
Proof.
  intros c s tr s' H. induction H.
  - simpl. rewrite !app_nil_r. auto.
  - destruct (lstep_history _ _ _ _ H) as [E1 E2]. destruct IHltrace as [E3 E4].
    simpl in *. rewrite app_nil_r in *. rewrite E3, E4, E1, E2. auto.
  - destruct (lstep_history _ _ _ _ H) as [E1 E2]. destruct IHltrace as [E3 E4].
    rewrite E3, E4, E1, E2. unfold yields_of, gets_of in *. simpl.
    rewrite <- !app_assoc. auto.
Qed.

(* an accepted trace shows exactly the specified stream and the specified batches *)
Lemma accepts_spec : forall c tr, 0 < batch c -> accepts c tr = true ->
  yields_of tr = chunks (batch c) (delivered c) /\
  gets_of tr = map (fr c) (delivered c) ++ [Sentinel].
Proof.
  intros c tr Hb H. destruct (accepts_sound c tr H) as (s & Ht & Hr & Hf).
  destruct (final_ok_reach c s Hb Hr Hf) as (_ & _ & Htk & _ & Hy).
  destruct (ltrace_history _ _ _ _ Ht) as [E1 E2]. simpl in E1, E2.
  rewrite <- E1, <- E2. auto.
Qed.

(* ------------------------------------------------------------------------ *)
(* statements in the form used by Props.v                                     *)

Lemma invariant_items : forall c s, reach c s ->
  taken s ++ q s ++ map (fr c) (in_flight s ++ unread c s) ++ (match pp s with PDone => [] | _ => [Sentinel] end)
  = map (fr c) (delivered c) ++ [Sentinel].
Proof. intros c s H. exact (inv_stream c s (reach_inv c s H)). Qed.

Lemma nothing_behind_marker : forall c s, reach c s -> done_ s = true -> pp s = PDone /\ q s = [].
Proof. intros c s H. apply (inv_done_true c). apply reach_inv; auto. Qed.

Lemma deadlock_free : forall c s, reach c s -> ~ final s -> exists s', step c s s'.
Proof. intros c s H. apply deadlock_free_inv. apply reach_inv; auto. Qed.

Lemma run_length_bound : forall c n s, 0 < batch c -> stepn c n (init c) s ->
  n <= 4 * (end_ c - start_ c) + 8.
Proof.
  intros c n s Hb H. pose proof (stepn_bound c n _ _ Hb H) as E.
  unfold measure at 2 in E. simpl in E. lia.
Qed.

Lemma every_schedule_ends_ok : forall c, 0 < batch c -> inevitably c (final_ok c) (init c).
Proof. intros c Hb. apply inevitably_final; auto. apply reach_init. Qed.

Lemma final_ok_unfold : forall c s,
  final_ok c s =
  (final s /\ q s = [] /\
   taken s = map (fr c) (delivered c) ++ [Sentinel] /\
   concat (yielded s) = delivered c /\
   yielded s = chunks (batch c) (delivered c)).
Proof. reflexivity. Qed.

Lemma final_unfold : forall s, final s = (pp s = PDone /\ cc s = CFinished).
Proof. reflexivity. Qed.

Lemma delivered_unfold : forall c,
  delivered c =
  seq (start_ c)
      (match fault c with
       | Some f => if start_ c <=? f then Nat.min f (end_ c) else end_ c
       | None => end_ c
       end - start_ c).
Proof. reflexivity. Qed.

(* the specification in elementary terms: i is delivered iff it is in the range
   and no index of the range up to and including i faults *)
Lemma delivered_in : forall c i,
  In i (delivered c) <->
  (start_ c <= i < end_ c /\ forall f, fault c = Some f -> start_ c <= f -> i < f).
Proof.
  intros c i. unfold delivered, stop. rewrite in_seq.
  destruct (fault c) as [f|].
  - destruct (Nat.leb_spec (start_ c) f).
    + split.
      * intros H'. split; [lia|]. intros f' E _. inversion E; subst. lia.
      * intros [H1 H2]. specialize (H2 f eq_refl H). lia.
    + split.
      * intros H'. split; [lia|]. intros f' E Hf. inversion E; subst. lia.
      * intros [H1 _]. lia.
  - split.
    + intros H'. split; [lia|]. intros f' E. discriminate.
    + intros [H1 _]. lia.
Qed.

Lemma chunks_concat : forall b l, 1 <= b -> concat (chunks b l) = l.
Proof.
  intros b l Hb. unfold chunks. remember (length l) as n eqn:En.
  assert (Hn : length l <= n) by lia. clear En. revert l Hn.
  induction n as [|n IH]; intros l Hn.
  - destruct l; [reflexivity | simpl in Hn; lia].
  - destruct l as [|x l]; [reflexivity|].
    cbn [chunks_fuel concat]. rewrite IH.
    + apply firstn_skipn.
    + rewrite skipn_length. destruct b; [lia|]. simpl in *. lia.
Qed.

Lemma chunks_sizes : forall b l, 1 <= b ->
  Forall (fun y => 1 <= length y <= b) (chunks b l).
Proof.
  intros b l Hb. unfold chunks. remember (length l) as n eqn:En. clear En. revert l.
  induction n as [|n IH]; intros l; [constructor|].
  destruct l as [|x l]; [constructor|].
  cbn [chunks_fuel]. constructor; auto.
  rewrite firstn_length. destruct b; [lia|]. simpl. lia.
Qed.

(* batch size 0 is outside the property: the consumer spins without ever calling get *)
Lemma batch0_livelock :
  exists c s, batch c = 0 /\ reach c s /\ step c s s.
Proof.
  exists (mkCfg 0 1 1 0 None), (mkSt (PLoop 0) [] (CProcess []) false [] []).
  split; [reflexivity|]. split.
  - eapply reach_step; [apply reach_init|]. exists (Some EvStart).
    apply (l_start (mkCfg 0 1 1 0 None) (init (mkCfg 0 1 1 0 None))); reflexivity.
  - exists None.
    apply (l_process (mkCfg 0 1 1 0 None) (mkSt (PLoop 0) [] (CProcess []) false [] []) []). reflexivity.
Qed.

(* --- non-vacuity: concrete accepted / rejected traces ---------------------- *)

Definition ex_cfg := mkCfg 1 4 2 2 (Some 3).   (* frames 1..3 requested, frame 3 cannot be read *)
Definition ex_trace :=
  [EvStart; EvReadOk 1; EvPut 1 pl0; EvReadOk 2; EvGet 1 pl0; EvPut 2 pl0; EvReadFail 3; EvGet 2 pl0;
   EvYield [1;2]; EvPutSent; EvGetSent; EvJoin].

Lemma ex_trace_accepted : accepts ex_cfg ex_trace = true.
Proof. vm_compute. reflexivity. Qed.

Lemma ex_final_reachable : exists s, reach ex_cfg s /\ final s /\ yielded s = [[1;2]].
Proof.
  destruct (accepts_sound _ _ ex_trace_accepted) as (s & Ht & Hr & Hf).
  exists s. repeat split; try apply Hf; auto.
  destruct (ltrace_history _ _ _ _ Ht) as [E _]. exact E.
Qed.

(* a trace that loses frame 2, one that repeats frame 1, one whose reader
   never closes the stream, one whose consumer stops without the marker *)
Lemma ex_bad_traces_rejected :
  accepts ex_cfg [EvStart; EvReadOk 1; EvPut 1 pl0; EvReadOk 2; EvGet 1 pl0; EvReadFail 3; EvPutSent;
                  EvGetSent; EvYield [1]; EvJoin] = false /\
  accepts ex_cfg [EvStart; EvReadOk 1; EvPut 1 pl0; EvGet 1 pl0; EvReadOk 1; EvPut 1 pl0; EvGet 1 pl0] = false /\
  accepts ex_cfg [EvStart; EvReadOk 1; EvPut 1 pl0; EvReadOk 2; EvGet 1 pl0; EvPut 2 pl0; EvReadFail 3; EvGet 2 pl0;
                  EvYield [1;2]] = false /\
  accepts (mkCfg 0 2 1 2 None)
          [EvStart; EvReadOk 0; EvPut 0 pl0; EvGet 0 pl0; EvReadOk 1; EvPut 1 pl0; EvGet 1 pl0; EvYield [0;1]; EvJoin] = false.
Proof. vm_compute. repeat split; reflexivity. Qed.

(* payloads: a source whose frames all differ in size and alternate between two videos *)
Definition ex_pcfg := mkCfgS 1 4 2 2 (Some 3) (fun i => (2 + i, 5, i mod 2)).

Lemma ex_payload_traces :
  (* every item with the size / video of its own frame: accepted *)
  accepts ex_pcfg [EvStart; EvReadOk 1; EvPut 1 (3,5,1); EvReadOk 2; EvGet 1 (3,5,1); EvPut 2 (4,5,0);
                   EvReadFail 3; EvGet 2 (4,5,0); EvYield [1;2]; EvPutSent; EvGetSent; EvJoin] = true /\
  (* frame 2 put with the size of frame 1 (a size computed once, outside the loop): rejected *)
  accepts ex_pcfg [EvStart; EvReadOk 1; EvPut 1 (3,5,1); EvReadOk 2; EvGet 1 (3,5,1); EvPut 2 (3,5,0);
                   EvReadFail 3; EvGet 2 (3,5,0); EvYield [1;2]; EvPutSent; EvGetSent; EvJoin] = false /\
  (* frame 1 attributed to video 0: rejected *)
  accepts ex_pcfg [EvStart; EvReadOk 1; EvPut 1 (3,5,0); EvReadOk 2; EvGet 1 (3,5,0); EvPut 2 (4,5,0);
                   EvReadFail 3; EvGet 2 (4,5,0); EvYield [1;2]; EvPutSent; EvGetSent; EvJoin] = false /\
  (* the item taken differs from the item put (one dictionary re-used and overwritten): rejected *)
  accepts ex_pcfg [EvStart; EvReadOk 1; EvPut 1 (3,5,1); EvReadOk 2; EvPut 2 (4,5,0); EvGet 1 (4,5,0);
                   EvReadFail 3; EvGet 2 (4,5,0); EvYield [1;2]; EvPutSent; EvGetSent; EvJoin] = false.
Proof. vm_compute. repeat split; reflexivity. Qed.

Lemma ex_delivered :
  delivered (mkCfg 3 6 1 1 (Some 1)) = [3;4;5] /\       (* a fault before the range never triggers *)
  delivered (mkCfg 3 6 1 1 (Some 4)) = [3] /\
  delivered (mkCfg 3 6 1 1 (Some 3)) = [] /\
  delivered (mkCfg 3 3 1 1 None) = [] /\
  chunks 2 [0;1;2;3;4] = [[0;1];[2;3];[4]] /\
  chunks 3 [] = [].
Proof. vm_compute. repeat split; reflexivity. Qed.

Lemma ex_skeletons_match_satisfiable :
  skeletons_match (mkSkeletons modelled_video_run modelled_labels_run true modelled_consumer true).
Proof. repeat split; reflexivity. Qed.

Lemma chunks_char : forall b l, 1 <= b ->
  concat (chunks b l) = l /\ Forall (fun y => 1 <= length y <= b) (chunks b l).
Proof. intros b l H. split; [apply chunks_concat | apply chunks_sizes]; exact H. Qed.

(* ------------------------------------------------------------------------ *)
(* the trace checker is complete: the observable trace of every complete run
   is accepted.  The checker takes silent steps lazily (just before the next
   observable step of the same thread), a path may take them earlier; `lag`
   relates the checker state t to the path state s. *)

Definition lag_p (c : cfg) (t s : st) : Prop :=
  pp s = pp t \/ (exists i, pp t = PLoop i /\ end_ c <= i /\ pp s = PSent).
Definition lag_c (c : cfg) (t s : st) : Prop :=
  cc s = cc t \/ (cc t = CProcess [] /\ cc s = after_process c (done_ t)).
Record lag (c : cfg) (t s : st) : Prop := mkLag {
  lag_q : q s = q t;
  lag_d : done_ s = done_ t;
  lag_t : taken s = taken t;
  lag_y : yielded s = yielded t;
  lag_pp : lag_p c t s;
  lag_cc : lag_c c t s
}.

Lemma lag_refl : forall c s, lag c s s.
Proof. intros. constructor; auto; left; auto. Qed.

Lemma after_process_shape : forall c d, 0 < batch c ->
  after_process c d = CJoin \/ exists k, after_process c d = CCollect (S k) [].
Proof.
  intros c d Hb. unfold after_process. destruct d; auto.
  right. destruct (batch c) as [|b]; [lia|]. exists b. reflexivity.
Qed.

(* the lazy silent step of the consumer catches up with the path *)
Lemma tau_c_catch_up : forall c t s, 0 < batch c -> lag_c c t s -> cc s <> CProcess [] ->
  cc (tau_c c t) = cc s /\ pp (tau_c c t) = pp t /\ q (tau_c c t) = q t /\
  done_ (tau_c c t) = done_ t /\ taken (tau_c c t) = taken t /\ yielded (tau_c c t) = yielded t.
Proof.
  intros c t s Hb [E|[E1 E2]] Hn; unfold tau_c.
  - rewrite E in Hn. rewrite E. destruct (cc t) as [| |[|x acc]| |] eqn:Ec; try congruence; repeat split; auto.
  - rewrite E1. simpl. rewrite app_nil_r. repeat split; auto.
Qed.

Lemma tau_p_catch_up : forall c t s, lag_p c t s -> pp s = PSent ->
  pp (tau_p c t) = PSent /\ cc (tau_p c t) = cc t /\ q (tau_p c t) = q t /\
  done_ (tau_p c t) = done_ t /\ taken (tau_p c t) = taken t /\ yielded (tau_p c t) = yielded t.
Proof.
  intros c t s [E|(i & E1 & E2 & E3)] Hs; unfold tau_p.
  - rewrite Hs in E. rewrite <- E. repeat split; auto.
  - rewrite E1. destruct (Nat.leb_spec (end_ c) i); [|lia]. simpl. repeat split; auto.
Qed.

Lemma list_nat_eqb_refl : forall a, list_nat_eqb a a = true.
Proof. induction a; simpl; auto. rewrite Nat.eqb_refl. auto. Qed.

Lemma lag_p_eq : forall c t s t' s', lag_p c t s -> pp t' = pp t -> pp s' = pp s -> lag_p c t' s'.
Proof.
  intros c t s t' s' [E|(i & E1 & E2 & E3)] Ht Hs; [left|right]; try congruence.
  exists i. repeat split; congruence.
Qed.

Lemma lag_c_eq : forall c t s t' s', lag_c c t s ->
  cc t' = cc t -> done_ t' = done_ t -> cc s' = cc s -> lag_c c t' s'.
Proof.
  intros c t s t' s' [E|[E1 E2]] Ht Hd Hs; [left|right]; try congruence.
  split; congruence.
Qed.

Lemma lag_step : forall c l t s s', 0 < batch c -> lag c t s -> lstep c l s s' ->
  match l with
  | None => lag c t s'
  | Some e => exists t', exec1 c t e = Some t' /\ lag c t' s'
  end.
Proof.
  intros c l t s s' Hb [Lq Ld Lt Ly Lp Lc] H.
  inversion H; subst; clear H.
  - (* start *)
    destruct Lp as [Ep|(i & _ & _ & Ep)]; [|congruence].
    destruct Lc as [Ec|[_ Ec]].
    2:{ destruct (after_process_shape c (done_ t) Hb) as [E|[k E]]; congruence. }
    exists (do_start c t). split.
    + unfold exec1. rewrite <- Ep, <- Ec, H0, H1. reflexivity.
    + constructor; simpl; auto; left; auto.
  - (* read ok *)
    destruct Lp as [Ep|(j & _ & _ & Ep)]; [|congruence].
    exists (set_pp t (PPut i (src c i))). split.
    + unfold exec1. rewrite <- Ep, H0, Nat.eqb_refl, H2.
      destruct (Nat.ltb_spec i (end_ c)); [reflexivity|lia].
    + constructor; simpl; auto. left; auto.
  - (* read fail *)
    destruct Lp as [Ep|(j & _ & _ & Ep)]; [|congruence].
    exists (set_pp t PSent). split.
    + unfold exec1. rewrite <- Ep, H0, Nat.eqb_refl, H2.
      destruct (Nat.ltb_spec i (end_ c)); [reflexivity|lia].
    + constructor; simpl; auto. left; auto.
  - (* loop end: silent *)
    destruct Lp as [Ep|(j & _ & _ & Ep)]; [|congruence].
    constructor; simpl; auto. right. exists i. rewrite <- Ep. auto.
  - (* put *)
    destruct Lp as [Ep|(j & _ & _ & Ep)]; [|congruence].
    exists (do_put t (Frame i p) (PLoop (S i))). split.
    + unfold exec1. rewrite <- Ep, H0, Nat.eqb_refl, pl_eqb_refl, <- Lq, H1. reflexivity.
    + constructor; simpl; auto; try congruence. left; auto.
  - (* put sentinel *)
    destruct (tau_p_catch_up c t s Lp H0) as (U1 & U2 & U3 & U4 & U5 & U6).
    exists (do_put (tau_p c t) Sentinel PDone). split.
    + unfold exec1. cbv zeta. rewrite U1, U3, <- Lq, H1. reflexivity.
    + constructor; simpl; try congruence.
      * left; auto.
      * eapply lag_c_eq; eauto.
  - (* get frame *)
    assert (Hn : cc s <> CProcess []) by congruence.
    destruct (tau_c_catch_up c t s Hb Lc Hn) as (U1 & U2 & U3 & U4 & U5 & U6).
    eexists. split.
    + unfold exec1. cbv zeta. rewrite U1, U3, <- Lq, H0, H1, Nat.eqb_refl, pl_eqb_refl. reflexivity.
    + constructor; simpl; try congruence.
      * eapply lag_p_eq; eauto.
      * left. simpl. congruence.
  - (* get sentinel *)
    assert (Hn : cc s <> CProcess []) by congruence.
    destruct (tau_c_catch_up c t s Hb Lc Hn) as (U1 & U2 & U3 & U4 & U5 & U6).
    eexists. split.
    + unfold exec1. cbv zeta. rewrite U1, U3, <- Lq, H0, H1. reflexivity.
    + constructor; simpl; try congruence.
      * eapply lag_p_eq; eauto.
      * left. reflexivity.
  - (* process *)
    destruct acc as [|x acc]; simpl.
    + (* silent *)
      destruct Lc as [Ec|[Ec1 Ec2]].
      * constructor; simpl; try congruence.
        -- rewrite app_nil_r. auto.
        -- eapply lag_p_eq; eauto.
        -- right. simpl. split; congruence.
      * destruct (after_process_shape c (done_ t) Hb) as [E|[k E]]; congruence.
    + destruct Lc as [Ec|[Ec1 Ec2]].
      2:{ destruct (after_process_shape c (done_ t) Hb) as [E|[k E]]; congruence. }
      exists (do_process c t (x :: acc)). split.
      * unfold exec1. rewrite <- Ec, H0. rewrite ?list_nat_eqb_refl, ?Nat.eqb_refl. reflexivity.
      * constructor; simpl; try congruence.
        -- eapply lag_p_eq; eauto.
        -- left. simpl. congruence.
  - (* join *)
    assert (Hn : cc s <> CProcess []) by congruence.
    destruct (tau_c_catch_up c t s Hb Lc Hn) as (U1 & U2 & U3 & U4 & U5 & U6).
    destruct Lp as [Ep|(j & _ & _ & Ep)]; [|congruence].
    eexists. split.
    + unfold exec1. cbv zeta. rewrite U1, U2, <- Ep, H0, H1. reflexivity.
    + constructor; simpl; try congruence.
      * left. simpl. congruence.
      * left. reflexivity.
Qed.

Lemma run_trace_complete : forall c s tr s', 0 < batch c -> ltrace c s tr s' ->
  forall t, lag c t s -> exists t', run_trace c t tr = Some t' /\ lag c t' s'.
Proof.
  intros c s tr s' Hb H. induction H; intros t L.
  - exists t. auto.
  - apply IHltrace. exact (lag_step c None t s s1 Hb L H).
  - destruct (lag_step c (Some e) t s s1 Hb L H) as (t1 & E & L1).
    destruct (IHltrace t1 L1) as (t' & E' & L').
    exists t'. simpl. rewrite E. auto.
Qed.

Lemma lag_final : forall c t s, 0 < batch c -> lag c t s -> final s -> is_final t = true.
Proof.
  intros c t s Hb [_ _ _ _ Lp Lc] [Hp Hc]. unfold is_final.
  destruct Lp as [Ep|(j & _ & _ & Ep)]; [|congruence].
  destruct Lc as [Ec|[_ Ec]].
  - rewrite <- Ep, <- Ec, Hp, Hc. reflexivity.
  - destruct (after_process_shape c (done_ t) Hb) as [E|[k E]]; congruence.
Qed.

Lemma accepts_complete : forall c tr s, 0 < batch c ->
  ltrace c (init c) tr s -> final s -> accepts c tr = true.
Proof.
  intros c tr s Hb Ht Hf.
  destruct (run_trace_complete c _ _ _ Hb Ht (init c) (lag_refl c (init c))) as (t' & E & L).
  unfold accepts. rewrite E. eapply lag_final; eauto.
Qed.

(* exactness: accepted = observable trace of a complete run *)
Lemma accepts_exact : forall c tr, 0 < batch c ->
  (accepts c tr = true <-> exists s, ltrace c (init c) tr s /\ final s).
Proof.
  intros c tr Hb. split.
  - intros H. destruct (accepts_sound c tr H) as (s & Ht & _ & Hf). eauto.
  - intros (s & Ht & Hf). eapply accepts_complete; eauto.
Qed.
