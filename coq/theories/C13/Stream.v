(* Stream.v — C13: executable model of the frame stream between a reader thread
   and the inference loop (definitions only; all proofs are in C13/Lemmas.v).

   Code modelled (sleap_nn; the reader loops are the same in the pinned tree and in the current tree,
   which additionally has fix 061a599 in LabelsReader.run, see Poll.labels_cfg):

     providers.VideoReader.run / LabelsReader.run            (thread "P")
         try:
             for idx in range(start, end):        -- labels: range(len(labels)), start = 0
                 img = self.video[idx]            -- the frame read; may raise
                 ...
                 self.frame_buffer.put({... image, frame_idx=idx, orig_size ...})
         except Exception as e:
             logger.error(...)                    -- swallowed: the loop is abandoned
         finally:
             self.frame_buffer.put({"image": None, ...})     -- the end-of-stream marker

     predictors.Predictor._predict_generator                  (thread "C")
         self.pipeline.start()
         done = False
         while not done:
             imgs = []
             for _ in range(batch_size):
                 frame = self.pipeline.frame_buffer.get()
                 if frame["image"] is None: done = True; break
                 imgs.append(...)
             if imgs: ... outputs = self.inference_model(ex); yield ...
         self.pipeline.join()

     frame_buffer = queue.Queue(maxsize=cap): FIFO; put blocks while full,
     get blocks while empty; maxsize <= 0 means unbounded.

   The model is a labelled transition system over states (producer pc, queue,
   consumer pc, done flag, yielded batches, history of items taken).  Any
   interleaving of the two threads at their queue / read points is a path. *)
From Coq Require Import List Arith Bool.
Import ListNotations.
From SV Require Import Base.Render.
Close Scope string_scope.
Open Scope nat_scope.

(* ------------------------------------------------------------------------ *)
(* states                                                                     *)

(* what a frame item carries besides its index: orig_size = (height, width) and video_idx
   (review round 4, finding 2: until then an item was its index, so "each with its own original
   size" had no counterpart in the model).  The reader computes the payload from the frame it has
   just read (`src c i`: the size of image i and the video it belongs to, a parameter of the
   configuration); the item keeps it through the queue; that every item taken by the consumer
   carries the payload of ITS OWN index is a theorem (Lemmas.inv_stream, c13_final_state). *)
Definition payload := (nat * nat * nat)%type.
Definition pl0 : payload := (0, 0, 0).
Definition pl_eqb (a b : payload) : bool :=
  let '(h1, w1, v1) := a in
  let '(h2, w2, v2) := b in
  (h1 =? h2) && (w1 =? w2) && (v1 =? v2).

Inductive item := Frame (i : nat) (p : payload) | Sentinel.

(* producer program counter *)
Inductive ppc :=
| PIdle                (* thread not started yet *)
| PLoop (i : nat)      (* at the head of the for loop, next index i (range test, then video[i]) *)
| PPut (i : nat) (p : payload)   (* frame i read (payload p computed from it), about to put it *)
| PSent                (* in the finally block, about to put the marker *)
| PDone.               (* run() returned: the thread is dead, join() returns *)

(* consumer program counter *)
Inductive cpc :=
| CStart                               (* before pipeline.start() *)
| CCollect (k : nat) (acc : list nat)  (* in `for _ in range(batch)`: k iterations left, acc collected; at get() *)
| CProcess (acc : list nat)            (* after the for loop: `if imgs:` infer + yield *)
| CJoin                                (* while loop left; at pipeline.join() *)
| CFinished.

Record cfg := mkCfgS {
  start_ : nat;           (* first index *)
  end_   : nat;           (* one past the last index (end < start behaves like an empty range) *)
  cap    : nat;           (* queue maxsize; 0 = unbounded, as in queue.Queue *)
  batch  : nat;           (* preprocess_config["batch_size"] *)
  fault  : option nat;    (* index whose read raises, if any *)
  src    : nat -> payload (* the data source: size of frame i and index of its video *)
}.
(* a configuration whose source gives every frame the same payload (examples; payloads play no role) *)
Notation mkCfg a b c d e := (mkCfgS a b c d e (fun _ => pl0)).

(* the item the reader builds from frame i *)
Definition fr (c : cfg) (i : nat) : item := Frame i (src c i).

Record st := mkSt {
  pp      : ppc;
  q       : list item;           (* head = next item to get *)
  cc      : cpc;
  done_   : bool;
  yielded : list (list nat);     (* batches given to the inference model / yielded, oldest first *)
  taken   : list item            (* ghost: every item the consumer took from the queue, in order *)
}.

Definition is_fault (c : cfg) (i : nat) : bool :=
  match fault c with Some f => f =? i | None => false end.

(* queue.Queue.full(): 0 < maxsize <= qsize *)
Definition full (c : cfg) (l : list item) : bool :=
  (0 <? cap c) && (cap c <=? length l).

(* entering `for _ in range(k)` with k iterations left: zero iterations fall through *)
Definition enter_for (k : nat) (acc : list nat) : cpc :=
  match k with 0 => CProcess acc | S _ => CCollect k acc end.

(* `if imgs:` — an empty batch is not processed and nothing is yielded *)
Definition flush (acc : list nat) : list (list nat) :=
  match acc with [] => [] | _ => [acc] end.

(* `while not done` *)
Definition after_process (c : cfg) (d : bool) : cpc :=
  if d then CJoin else enter_for (batch c) [].

Definition init (c : cfg) : st := mkSt PIdle [] CStart false [] [].

Definition set_pp (s : st) (p : ppc) : st :=
  mkSt p (q s) (cc s) (done_ s) (yielded s) (taken s).
Definition set_cc (s : st) (k : cpc) : st :=
  mkSt (pp s) (q s) k (done_ s) (yielded s) (taken s).
Definition do_start (c : cfg) (s : st) : st :=
  mkSt (PLoop (start_ c)) (q s) (enter_for (batch c) []) (done_ s) (yielded s) (taken s).
Definition do_put (s : st) (x : item) (p : ppc) : st :=
  mkSt p (q s ++ [x]) (cc s) (done_ s) (yielded s) (taken s).
Definition do_get (s : st) (x : item) (rest : list item) (k : cpc) (d : bool) : st :=
  mkSt (pp s) rest k d (yielded s) (taken s ++ [x]).
Definition do_process (c : cfg) (s : st) (acc : list nat) : st :=
  mkSt (pp s) (q s) (after_process c (done_ s)) (done_ s) (yielded s ++ flush acc) (taken s).

(* ------------------------------------------------------------------------ *)
(* observable events and the transition relation                              *)

Inductive event :=
| EvStart
| EvReadOk (i : nat) | EvReadFail (i : nat)   (* see the note on iteration failures below *)
| EvPut (i : nat) (p : payload) | EvPutSent
| EvGet (i : nat) (p : payload) | EvGetSent
| EvYield (b : list nat)
| EvJoin.

(* an empty batch is skipped silently; a non-empty one is seen as a yield *)
Definition yield_label (acc : list nat) : option event :=
  match acc with [] => None | _ => Some (EvYield acc) end.

(* Iteration failures.  `is_fault c i` stands for "iteration i of the loop raises an Exception before
   its put": the read `video[i]` / `labels[i]` / `lf.image` itself (undecodable frame, index past the end
   of the video), or any statement between the read and the put (np.transpose, np.stack of the pinned
   LabelsReader = F130, videos.index).  All of them leave the try block the same way and frame i is not
   put, so the LTS has the single rule l_read_fail (PLoop i -> PSent) and no rule PPut i -> PSent; the
   harness reports a read that is not followed by its put as EvReadFail i (review round 4, finding 7:
   EvReadOk i / EvReadFail i mean "iteration i reached / did not reach its put"). *)
Inductive lstep (c : cfg) : option event -> st -> st -> Prop :=
| l_start : forall s,
    pp s = PIdle -> cc s = CStart ->
    lstep c (Some EvStart) s (do_start c s)
| l_read_ok : forall s i,
    pp s = PLoop i -> i < end_ c -> is_fault c i = false ->
    lstep c (Some (EvReadOk i)) s (set_pp s (PPut i (src c i)))
| l_read_fail : forall s i,             (* except Exception: log; then finally *)
    pp s = PLoop i -> i < end_ c -> is_fault c i = true ->
    lstep c (Some (EvReadFail i)) s (set_pp s PSent)
| l_loop_end : forall s i,              (* range exhausted; then finally *)
    pp s = PLoop i -> end_ c <= i ->
    lstep c None s (set_pp s PSent)
| l_put : forall s i p,                 (* enabled iff the queue is not full *)
    pp s = PPut i p -> full c (q s) = false ->
    lstep c (Some (EvPut i p)) s (do_put s (Frame i p) (PLoop (S i)))
| l_put_sentinel : forall s,
    pp s = PSent -> full c (q s) = false ->
    lstep c (Some EvPutSent) s (do_put s Sentinel PDone)
| l_get_frame : forall s k acc i p r,   (* enabled iff the queue is not empty *)
    cc s = CCollect (S k) acc -> q s = Frame i p :: r ->
    lstep c (Some (EvGet i p)) s (do_get s (Frame i p) r (enter_for k (acc ++ [i])) (done_ s))
| l_get_sentinel : forall s k acc r,    (* done = True; break *)
    cc s = CCollect (S k) acc -> q s = Sentinel :: r ->
    lstep c (Some EvGetSent) s (do_get s Sentinel r (CProcess acc) true)
| l_process : forall s acc,             (* if imgs: infer, yield; then `while not done` *)
    cc s = CProcess acc ->
    lstep c (yield_label acc) s (do_process c s acc)
| l_join : forall s,                    (* Thread.join returns iff run() has returned *)
    cc s = CJoin -> pp s = PDone ->
    lstep c (Some EvJoin) s (set_cc s CFinished).

Definition step (c : cfg) (s s' : st) : Prop := exists l, lstep c l s s'.

Inductive reach (c : cfg) : st -> Prop :=
| reach_init : reach c (init c)
| reach_step : forall s s', reach c s -> step c s s' -> reach c s'.

Definition final (s : st) : Prop := pp s = PDone /\ cc s = CFinished.

(* paths with their observable trace (None-labelled steps are silent) *)
Inductive ltrace (c : cfg) : st -> list event -> st -> Prop :=
| lt_nil : forall s, ltrace c s [] s
| lt_tau : forall s s1 s2 tr, lstep c None s s1 -> ltrace c s1 tr s2 -> ltrace c s tr s2
| lt_obs : forall s s1 s2 e tr, lstep c (Some e) s s1 -> ltrace c s1 tr s2 -> ltrace c s (e :: tr) s2.

(* ------------------------------------------------------------------------ *)
(* the specification                                                          *)

(* reading stops at the first fault inside the range, else at the end *)
Definition stop (c : cfg) : nat :=
  match fault c with
  | Some f => if start_ c <=? f then Nat.min f (end_ c) else end_ c
  | None => end_ c
  end.

(* the frames that must be delivered, in order *)
Definition delivered (c : cfg) : list nat := seq (start_ c) (stop c - start_ c).

(* consecutive batches of size b, the last one possibly shorter (never empty).  Totalised by fuel:
   for b = 0 the value is an artefact (chunks 0 [1;2;3] = [[];[];[]]); every theorem that mentions
   `chunks` has 0 < batch c / 1 <= b, and the harness evaluates it with batch >= 1 only. *)
Fixpoint chunks_fuel (fuel b : nat) (l : list nat) : list (list nat) :=
  match fuel with
  | 0 => []
  | S f => match l with
           | [] => []
           | _ => firstn b l :: chunks_fuel f b (skipn b l)
           end
  end.
Definition chunks (b : nat) (l : list nat) : list (list nat) := chunks_fuel (length l) b l.

(* projections used by the invariant *)
Fixpoint frames (l : list item) : list nat :=
  match l with
  | [] => []
  | Frame i _ :: t => i :: frames t
  | Sentinel :: t => frames t
  end.
Fixpoint sentinels (l : list item) : nat :=
  match l with
  | [] => 0
  | Frame _ _ :: t => sentinels t
  | Sentinel :: t => S (sentinels t)
  end.
Definition coll (k : cpc) : list nat :=
  match k with CCollect _ acc | CProcess acc => acc | _ => [] end.
Definition collecting (s : st) : list nat := coll (cc s).
Definition in_flight (s : st) : list nat :=
  match pp s with PPut i _ => [i] | _ => [] end.
Definition unread (c : cfg) (s : st) : list nat :=
  match pp s with
  | PIdle => delivered c
  | PLoop i => seq i (stop c - i)
  | PPut i _ => seq (S i) (stop c - S i)
  | _ => []
  end.
(* markers in the system: seen by the consumer + in the queue *)
Definition sentinel_count (s : st) : nat :=
  (if done_ s then 1 else 0) + sentinels (q s).

(* termination measure: an upper bound on the number of remaining transitions *)
Definition mp (c : cfg) (p : ppc) : nat :=
  match p with
  | PIdle => 4 * (end_ c - start_ c) + 5
  | PLoop i => 4 * (end_ c - i) + 4
  | PPut i _ => 4 * (end_ c - S i) + 7
  | PSent => 3
  | PDone => 0
  end.
Definition mc (k : cpc) : nat :=
  match k with CStart => 3 | CCollect _ _ => 1 | CProcess _ => 2 | CJoin => 1 | CFinished => 0 end.
Definition measure (c : cfg) (s : st) : nat := mp c (pp s) + 2 * length (q s) + mc (cc s).

(* ------------------------------------------------------------------------ *)
(* executable trace checker (used by the harness on traces of the real code)  *)

Fixpoint list_nat_eqb (a b : list nat) : bool :=
  match a, b with
  | [], [] => true
  | x :: a', y :: b' => (x =? y) && list_nat_eqb a' b'
  | _, _ => false
  end.

(* silent steps taken on behalf of the next observable event of the same thread *)
Definition tau_p (c : cfg) (s : st) : st :=
  match pp s with
  | PLoop i => if end_ c <=? i then set_pp s PSent else s
  | _ => s
  end.
Definition tau_c (c : cfg) (s : st) : st :=
  match cc s with
  | CProcess [] => do_process c s []
  | _ => s
  end.

Definition exec1 (c : cfg) (s : st) (e : event) : option st :=
  match e with
  | EvStart =>
      match pp s, cc s with
      | PIdle, CStart => Some (do_start c s)
      | _, _ => None
      end
  | EvReadOk i =>
      match pp s with
      | PLoop j => if (i =? j) && (i <? end_ c) && negb (is_fault c i)
                   then Some (set_pp s (PPut i (src c i))) else None
      | _ => None
      end
  | EvReadFail i =>
      match pp s with
      | PLoop j => if (i =? j) && (i <? end_ c) && is_fault c i
                   then Some (set_pp s PSent) else None
      | _ => None
      end
  | EvPut i p =>          (* the item put must carry the payload the model computed from frame i *)
      match pp s with
      | PPut j p' => if (i =? j) && pl_eqb p p' && negb (full c (q s))
                     then Some (do_put s (Frame i p) (PLoop (S i))) else None
      | _ => None
      end
  | EvPutSent =>
      let s := tau_p c s in
      match pp s with
      | PSent => if negb (full c (q s)) then Some (do_put s Sentinel PDone) else None
      | _ => None
      end
  | EvGet i p =>
      let s := tau_c c s in
      match cc s, q s with
      | CCollect (S k) acc, Frame j p' :: r =>
          if (i =? j) && pl_eqb p p'
          then Some (do_get s (Frame i p) r (enter_for k (acc ++ [i])) (done_ s)) else None
      | _, _ => None
      end
  | EvGetSent =>
      let s := tau_c c s in
      match cc s, q s with
      | CCollect (S k) acc, Sentinel :: r => Some (do_get s Sentinel r (CProcess acc) true)
      | _, _ => None
      end
  | EvYield b =>
      match cc s with
      | CProcess (x :: acc) =>
          if list_nat_eqb b (x :: acc) then Some (do_process c s (x :: acc)) else None
      | _ => None
      end
  | EvJoin =>
      let s := tau_c c s in
      match cc s, pp s with
      | CJoin, PDone => Some (set_cc s CFinished)
      | _, _ => None
      end
  end.

Fixpoint run_trace (c : cfg) (s : st) (tr : list event) : option st :=
  match tr with
  | [] => Some s
  | e :: t => match exec1 c s e with Some s' => run_trace c s' t | None => None end
  end.

Definition is_final (s : st) : bool :=
  match pp s, cc s with PDone, CFinished => true | _, _ => false end.

Definition accepts (c : cfg) (tr : list event) : bool :=
  match run_trace c (init c) tr with Some s => is_final s | None => false end.

(* ------------------------------------------------------------------------ *)
(* harness interface: diagnostics for a trace, rendered as JSON               *)

(* number of events consumed before the first rejected one, the state reached
   there, and every state passed through (for coverage statistics) *)
Fixpoint run_diag (c : cfg) (s : st) (tr : list event) (n : nat) (seen : list st)
  : nat * st * list st * bool :=
  match tr with
  | [] => (n, s, rev seen, true)
  | e :: t =>
      let sp := match e with
                | EvPutSent => tau_p c s
                | EvGet _ _ | EvGetSent | EvJoin => tau_c c s
                | _ => s
                end in
      match exec1 c s e with
      | Some s' => run_diag c s' t (S n) (s' :: sp :: seen)
      | None => (n, s, rev seen, false)
      end
  end.

(* a state without its history fields, as a list of numbers (for de-duplication and output):
   pp tag [index]; queue length; queue items (0 = marker, i+1 = frame i); cc tag [k; |acc|; acc]; done *)
Definition skey (s : st) : list nat :=
  (match pp s with
   | PIdle => [0] | PLoop i => [1; i] | PPut i _ => [2; i] | PSent => [3] | PDone => [4]
   end)
  ++ length (q s) :: map (fun x => match x with Sentinel => 0 | Frame i _ => S i end) (q s)
  ++ (match cc s with
      | CStart => [0]
      | CCollect k acc => 1 :: k :: length acc :: acc
      | CProcess acc => 2 :: length acc :: acc
      | CJoin => [3]
      | CFinished => [4]
      end)
  ++ [if done_ s then 1 else 0].

Definition add_key (k : list nat) (seen : list (list nat)) : list (list nat) :=
  if existsb (list_nat_eqb k) seen then seen else k :: seen.

(* consecutive distinct states of a path, as one key: |k1| :: k1 ++ k2 *)
Fixpoint trans_keys (l : list (list nat)) : list (list nat) :=
  match l with
  | a :: ((b :: _) as t) => if list_nat_eqb a b then trans_keys t else (length a :: a ++ b) :: trans_keys t
  | _ => []
  end.

Record verdict := mkVerdict {
  v_accepts : bool;              (* accepts c tr *)
  v_consumed : nat;              (* events consumed before the first rejected one *)
  v_yielded : list (list nat)    (* batches yielded in the state reached *)
}.

(* a harness case: one configuration, the traces observed for it under different
   schedules, and whether to report the set of states / transitions passed through *)
Record group_verdict := mkGroup {
  g_spec : list (list nat);      (* chunks (batch c) (delivered c): what a final state must have yielded *)
  g_verdicts : list verdict;
  g_states : list (list nat);    (* distinct abstract states on the validated paths (skey) *)
  g_trans : list (list nat)      (* distinct transitions on the validated paths (trans_keys) *)
}.

Definition check_one (c : cfg) (tr : list event) : verdict * list (list nat) :=
  let '(n, s, seen, _) := run_diag c (init c) tr 0 [init c] in
  (mkVerdict (accepts c tr) n (yielded s), map skey seen).

Definition check_group (k : bool * cfg * list (list event)) : group_verdict :=
  let '(want_states, c, trs) := k in
  let rs := map (check_one c) trs in
  let paths := if want_states then map snd rs else [] in
  mkGroup (chunks (batch c) (delivered c)) (map fst rs)
          (fold_left (fun acc p => fold_left (fun a x => add_key x a) p acc) paths [])
          (fold_left (fun acc p => fold_left (fun a x => add_key x a) (trans_keys p) acc) paths []).

From Coq Require String. Import String.StringSyntax.
Open Scope string_scope.
Definition rverdict (v : verdict) : rdr := fun k =>
  rstr "[" (rbool (v_accepts v) (rstr "," (rnat (v_consumed v) (rstr ","
       (rlist (rlist rnat) (v_yielded v) (rstr "]" k)))))).
Definition rgroup (g : group_verdict) : rdr := fun k =>
  rstr "{""spec"":" (rlist (rlist rnat) (g_spec g)
  (rstr ",""verdicts"":" (rlist rverdict (g_verdicts g)
  (rstr ",""states"":" (rlist (rlist rnat) (g_states g)
  (rstr ",""trans"":" (rlist (rlist rnat) (g_trans g) (rstr "}" k)))))))).
Close Scope string_scope.

(* ------------------------------------------------------------------------ *)
(* control skeleton of the three functions (static tie, see translator/c13_skel2coq.py).
   NOTE: `sk` has no semantics in Coq; `skeletons_match` is syntactic equality with the constants
   `modelled_*`, and the skeleton -> rule table below is documentation, not a theorem (trusted).

   The translator regenerates terms of this type from /repo's source on every
   run (Gen/C13_Skel.v); the per-run obligation is equality with the skeletons
   below, which are the ones the transition system above was written from:

     SkTry body handler fin       l_read_fail (handler swallows Exception, falls into fin),
                                  l_loop_end (body ends normally, falls into fin)
     SkFor RStartEnd / RTotalLen  PLoop i: indices start..end-1 in order, one iteration each
     ARead ; APutFrame            l_read_ok ; l_put
     APutSentinel in fin          l_put_sentinel (exactly once, on every exit)
     AStart                       l_start
     SkWhileNotDone, ASetDone     after_process
     AResetAcc ; SkFor RBatch     enter_for (batch c) []
     AGet ; SkIf CSentinel [ASetDone true; ABreak] ; AAppend
                                  l_get_sentinel / l_get_frame
     SkIf CAcc [AInfer; ... AYield]  l_process (flush)
     AJoin                        l_join *)

Inductive atom :=
| ARead          (* self.video[idx] / self.labels[idx] *)
| APutFrame      (* frame_buffer.put(<dict whose "image" is not None, frame_idx from the loop index>) *)
| APutSentinel   (* frame_buffer.put({"image": None, ...}) *)
| AGet           (* frame = self.pipeline.frame_buffer.get() *)
| ASetDone (b : bool)
| ABreak | AContinue | AReturn | ARaise
| AResetAcc      (* imgs = [] *)
| AAppend        (* imgs.append(...) *)
| AInfer         (* outputs_list = self.inference_model(ex) *)
| AYield
| AStart         (* self.pipeline.start() *)
| AJoin.         (* self.pipeline.join() *)

Inductive range_kind :=
| RStartEnd      (* range(self.start_idx, self.end_idx) *)
| RTotalLen      (* range(self.total_len()) with total_len() = len(self.labels) *)
| RBatch         (* range(batch_size), batch_size = self.preprocess_config["batch_size"] *)
| ROutputs       (* for output in outputs_list *)
| ROther.

Inductive cond_kind :=
| CSentinel      (* frame["image"] is None *)
| CAcc           (* if imgs *)
| COutputs       (* outputs_list is not None *)
| COther.

Inductive sk :=
| SkAtom (a : atom)
| SkTry (body : list sk) (catches_exception : bool) (handler : list sk) (fin : list sk)
| SkFor (r : range_kind) (body : list sk)
| SkWhileNotDone (body : list sk)
| SkWhileOther (body : list sk)
| SkIf (c : cond_kind) (th el : list sk).

Definition modelled_reader (r : range_kind) : list sk :=
  [SkTry [SkFor r [SkAtom ARead; SkAtom APutFrame]]
         true []
         [SkAtom APutSentinel]].

Definition modelled_video_run : list sk := modelled_reader RStartEnd.
Definition modelled_labels_run : list sk := modelled_reader RTotalLen.

Definition modelled_consumer : list sk :=
  [SkAtom AStart;
   SkAtom (ASetDone false);
   SkWhileNotDone
     [SkAtom AResetAcc;
      SkFor RBatch
        [SkAtom AGet;
         SkIf CSentinel [SkAtom (ASetDone true); SkAtom ABreak] [];
         SkAtom AAppend];
      SkIf CAcc
        [SkAtom AInfer;
         SkIf COutputs [SkFor ROutputs [SkAtom AYield]] []]
        []];
   SkAtom AJoin].

(* what the translator emits for one run *)
Record skeletons := mkSkeletons {
  sk_video_run : list sk;
  sk_labels_run : list sk;
  sk_labels_total_len_is_len : bool;       (* LabelsReader.total_len returns len(self.labels) *)
  sk_consumer : list sk;
  sk_sentinel_test_matches_sentinel : bool (* the key tested by the consumer is a None-valued key of the marker
                                              and a non-None key of every frame dict *)
}.

Definition skeletons_match (g : skeletons) : Prop :=
  sk_video_run g = modelled_video_run /\
  sk_labels_run g = modelled_labels_run /\
  sk_labels_total_len_is_len g = true /\
  sk_consumer g = modelled_consumer /\
  sk_sentinel_test_matches_sentinel g = true.
