(* Lemmas.v (C19) — all proofs.  Soundness of the abstract interpreter `ai`
   with respect to the concrete semantics `exec`, for every monitor, every
   environment (flags, opaque conditions, loop counts, fault schedules) and
   every term; then the checkers of C19 as instances. *)
From Coq Require Import List Bool Arith Lia.
From SV Require Import C19.EffectIR.
Import ListNotations.
Open Scope list_scope.

(* ---- monitors on concatenated traces ----------------------------------- *)

Lemma mfinal_app : forall m t1 t2 s, mfinal m s (t1 ++ t2) = mfinal m (mfinal m s t1) t2.
Proof. induction t1; intros; simpl; auto. Qed.

Lemma mok_app : forall m t1 t2 s,
  mok m s (t1 ++ t2) = mok m s t1 && mok m (mfinal m s t1) t2.
Proof.
  induction t1; intros; simpl; auto.
  rewrite IHt1. rewrite andb_assoc. reflexivity.
Qed.

(* if the monitor accepts a trace, every bad atom in it executes in state false *)
Lemma mok_at : forall m s tr pre a suf,
  mok m s tr = true -> tr = pre ++ a :: suf -> bad m a = true -> mfinal m s pre = false.
Proof.
  intros m s tr pre a suf H -> Hb.
  rewrite mok_app in H. apply andb_prop in H as [_ H]. simpl in H.
  apply andb_prop in H as [H _]. rewrite Hb in H.
  destruct (mfinal m s pre); simpl in H; congruence.
Qed.

(* the monitor is in state false only if it started there and nothing generated, or
   a kill happened with nothing generated since *)
Lemma mfinal_false : forall m tr s, mfinal m s tr = false ->
  (s = false /\ Forall (fun b => gen m b = false) tr) \/
  (exists p1 a p2, tr = p1 ++ a :: p2 /\ kill m a = true /\ gen m a = false /\
                   Forall (fun b => gen m b = false) p2).
Proof.
  induction tr as [|a r IH]; intros s H; simpl in H.
  - left. split; auto.
  - destruct (IH _ H) as [[Hs Hr] | (p1 & a' & p2 & -> & Hk & Hg & Hp2)].
    + unfold mstep in Hs. destruct (gen m a) eqn:Hga; [discriminate|].
      destruct (kill m a) eqn:Hka.
      * right. exists [], a, r. repeat split; auto.
      * left. split; auto.
    + right. exists (a :: p1), a', p2. repeat split; auto.
Qed.

Lemma mok_const_true : forall m, (forall a, gen m a = false) -> (forall a, kill m a = false) ->
  forall tr, mok m true tr = true -> Forall (fun a => bad m a = false) tr.
Proof.
  intros m Hg Hk. induction tr as [|a r IH]; intros H; simpl in H; constructor.
  - apply andb_prop in H as [H _]. destruct (bad m a); simpl in H; congruence.
  - apply andb_prop in H as [_ H]. unfold mstep in H. rewrite Hg, Hk in H. auto.
Qed.

(* ---- the order between concrete monitor states and abstract values ------ *)

Definition ble (s k : bool) : Prop := s = true -> k = true.
Definition ale (s : bool) (a : av) : Prop := exists k, a = Some k /\ ble s k.

Lemma ble_refl : forall s, ble s s.
Proof. unfold ble; auto. Qed.

Lemma ale_some : forall s k, ble s k -> ale s (Some k).
Proof. intros. exists k. auto. Qed.

Lemma ale_join_l : forall s a b, ale s a -> ale s (ajoin a b).
Proof.
  intros s a b (k & -> & H). destruct b as [q|]; simpl.
  - exists (k || q). split; auto. intro Hs. rewrite (H Hs). reflexivity.
  - exists k. auto.
Qed.

Lemma ale_join_r : forall s a b, ale s b -> ale s (ajoin a b).
Proof.
  intros s a b (k & -> & H). destruct a as [q|]; simpl.
  - exists (q || k). split; auto. intro Hs. rewrite (H Hs). apply orb_true_r.
  - exists k. auto.
Qed.

Lemma ale_reach : forall s a, ale s a -> reach a = true.
Proof. intros s a (k & -> & _). reflexivity. Qed.

Lemma ale_le_false : forall s a, ale s a -> av_le a false = true -> s = false.
Proof.
  intros s a (k & -> & H) Hle. simpl in Hle. destruct k; simpl in Hle; try discriminate.
  destruct s; auto. specialize (H eq_refl). discriminate.
Qed.

Lemma mstep_mono : forall m s k a, ble s k -> ble (mstep m s a) (mstep m k a).
Proof.
  unfold ble, mstep. intros m s k a H. destruct (gen m a); auto. destruct (kill m a); auto.
Qed.

(* ---- conditions --------------------------------------------------------- *)

Definition agrees (E : env) (F : flag -> bool) : Prop := forall f, fl E f = F f.

Lemma aeval_sound : forall E F, agrees E F -> forall c b, aeval F c = Some b -> ceval E c = b.
Proof.
  intros E F Hag. induction c; intros b H; simpl in *.
  - congruence.
  - congruence.
  - rewrite Hag. congruence.
  - discriminate.
  - destruct (aeval F c) as [x|] eqn:e; simpl in H; [|discriminate].
    rewrite (IHc x eq_refl). congruence.
  - destruct (aeval F c1) as [[|]|] eqn:e1; destruct (aeval F c2) as [[|]|] eqn:e2;
      try discriminate; inversion H; subst;
      try rewrite (IHc1 _ eq_refl); try rewrite (IHc2 _ eq_refl);
      auto using andb_false_r.
  - destruct (aeval F c1) as [[|]|] eqn:e1; destruct (aeval F c2) as [[|]|] eqn:e2;
      try discriminate; inversion H; subst;
      try rewrite (IHc1 _ eq_refl); try rewrite (IHc2 _ eq_refl);
      auto using orb_true_r.
Qed.

(* ---- soundness of the abstract interpreter ------------------------------ *)

Section Sound.
  Variable m : mon.
  Variable F : flag -> bool.
  Variable extf : bool.
  Variable E : env.
  Hypothesis Hag : agrees E F.
  Hypothesis Hnf : extf = false -> forall i, fault E i = NoFault.

  Definition exit_av (o : outcome) (a : ares) : av :=
    match o with
    | Ok => a_nrm a
    | ExnInvalid => a_xi a
    | _ => a_xo a
    end.

  (* what the analysis result `a` (entered in an abstract state above s) promises about a
     concrete execution result entered in monitor state s *)
  Definition post (s : bool) (r : res) (a : ares) : Prop :=
    a_ok a = true ->
    mok m s (fst (fst r)) = true /\ ale (mfinal m s (fst (fst r))) (exit_av (snd r) a).

  Lemma exec_step_ok : forall a s k, ble s k -> negb (k && bad m a) = true ->
    mok m s [a] = true.
  Proof.
    intros a s k Hle H. simpl. rewrite andb_true_r.
    destruct s; simpl; auto. rewrite (Hle eq_refl) in H. exact H.
  Qed.

  Lemma atom_sound : forall a intry n s k, ble s k ->
    post s (do_atom E intry a n) (ai_atom m F extf intry a k).
  Proof.
    intros a intry n s k Hle. unfold do_atom.
    destruct (if intry then fault E n else NoFault) eqn:Hf.
    - (* no fault *)
      destruct a as [ | | f c | f c | pth d | t | t | | id | lk ls ];
        try (unfold ai_atom, post; simpl; intros Hok; split;
             [ eapply exec_step_ok; eauto | apply ale_some, mstep_mono; auto ]).
      + (* ASet *)
        destruct d.
        * unfold ai_atom, post; simpl; intros Hok; split;
            [ eapply exec_step_ok; eauto | apply ale_some, mstep_mono; auto ].
        * unfold ai_atom. rewrite <- Hag. destruct (fl E Structured).
          -- unfold post; simpl. intros _. split; auto. apply ale_some; auto.
          -- unfold post; simpl; intros Hok; split;
               [ eapply exec_step_ok; eauto | apply ale_some, mstep_mono; auto ].
      + (* ARaise *)
        unfold ai_atom, post; simpl. intros _. split; auto. apply ale_some; auto.
    - (* KeyboardInterrupt strikes *)
      assert (Hx : extf && intry = true).
      { destruct intry; [|discriminate]. destruct extf; auto.
        rewrite (Hnf eq_refl) in Hf. discriminate. }
      unfold post; simpl. intros _. split; auto.
      unfold ai_atom. rewrite Hx.
      destruct a as [ | | f c | f c | pth [|] | t | t | | id | lk ls ]; simpl;
        try (apply ale_some; auto).
      destruct (F Structured); simpl; apply ale_some; auto.
    - (* another exception strikes *)
      assert (Hx : extf && intry = true).
      { destruct intry; [|discriminate]. destruct extf; auto.
        rewrite (Hnf eq_refl) in Hf. discriminate. }
      unfold post; simpl. intros _. split; auto.
      unfold ai_atom. rewrite Hx.
      destruct a as [ | | f c | f c | pth [|] | t | t | | id | lk ls ]; simpl;
        try (apply ale_some; auto).
      destruct (F Structured); simpl; apply ale_some; auto.
  Qed.

  (* the loop: `ab` is the analysis of the body at the post-fixpoint k2 *)
  Lemma loop_sound : forall (body : nat -> res) (ab : ares) (k2 : bool),
    (forall n s, ble s k2 -> post s (body n) ab) ->
    a_ok ab = true -> av_le (a_nrm ab) k2 = true ->
    forall cnt n s, ble s k2 ->
      let r := loop_exec body cnt n in
      mok m s (fst (fst r)) = true /\
      ale (mfinal m s (fst (fst r)))
          (exit_av (snd r) {| a_ok := true; a_nrm := Some k2; a_xo := a_xo ab; a_xi := a_xi ab |}).
  Proof.
    intros body ab k2 Hbody Hok Hfix. induction cnt as [|cnt IH]; intros n s Hle; simpl.
    - split; auto. apply ale_some; auto.
    - destruct (body n) as [[t1 n1] o1] eqn:Hb.
      pose proof (Hbody n s Hle Hok) as [Hm1 Ha1]. rewrite Hb in Hm1, Ha1. simpl in Hm1, Ha1.
      destruct o1.
      + (* body completed: state is below a_nrm ab, hence below k2 *)
        simpl in Ha1. destruct Ha1 as (k1 & Hk1 & Hle1).
        assert (Hle2 : ble (mfinal m s t1) k2).
        { rewrite Hk1 in Hfix. simpl in Hfix. intro Hs. specialize (Hle1 Hs). subst k1.
          destruct k2; auto. }
        specialize (IH n1 _ Hle2).
        destruct (loop_exec body cnt n1) as [[t2 n2] o2]. simpl in *.
        destruct IH as [Hm2 Ha2]. split.
        * rewrite mok_app, Hm1, Hm2. reflexivity.
        * rewrite mfinal_app. exact Ha2.
      + simpl. split; auto.
      + simpl. split; auto.
      + simpl. split; auto.
  Qed.

  Theorem ai_sound : forall p intry n s k, ble s k ->
    post s (exec E intry p n) (ai m F extf intry p k).
  Proof.
    induction p as [ | a IHa b IHb | a | c th IHth el IHel | id body IHbody | body IHbody ck fin IHfin ];
      intros intry n s k Hle.
    - (* Skip *)
      unfold post; simpl. intros _. split; auto. apply ale_some; auto.
    - (* Seq *)
      simpl. specialize (IHa intry n s k Hle).
      destruct (exec E intry a n) as [[t1 n1] o1] eqn:Ha.
      remember (ai m F extf intry a k) as r1.
      destruct o1.
      + (* a completed *)
        destruct (a_nrm r1) as [k1|] eqn:Hn1.
        * destruct (exec E intry b n1) as [[t2 n2] o2] eqn:Hb.
          unfold post. simpl. intros Hok. apply andb_prop in Hok as [Hok1 Hok2].
          destruct (IHa Hok1) as [Hm1 Ha1]. simpl in Hm1, Ha1.
          destruct Ha1 as (k1' & Hk1' & Hle1). rewrite Hn1 in Hk1'. inversion Hk1'; subst k1'.
          specialize (IHb intry n1 _ _ Hle1). rewrite Hb in IHb.
          destruct (IHb Hok2) as [Hm2 Ha2]. simpl in Hm2, Ha2. split.
          -- rewrite mok_app, Hm1, Hm2. reflexivity.
          -- rewrite mfinal_app.
             destruct o2; simpl in *; auto using ale_join_r.
        * (* the analysis says a cannot complete: contradiction with soundness for a *)
          unfold post. intros Hok. destruct (IHa Hok) as [_ Ha1]. simpl in Ha1.
          destruct Ha1 as (k1' & Hk1' & _). congruence.
      + destruct (a_nrm r1) as [k1|] eqn:Hn1; [|exact IHa].
        unfold post. simpl. intros Hok. apply andb_prop in Hok as [Hok1 _].
        destruct (IHa Hok1) as [Hm1 Ha1]. simpl in *. split; auto using ale_join_l.
      + destruct (a_nrm r1) as [k1|] eqn:Hn1; [|exact IHa].
        unfold post. simpl. intros Hok. apply andb_prop in Hok as [Hok1 _].
        destruct (IHa Hok1) as [Hm1 Ha1]. simpl in *. split; auto using ale_join_l.
      + destruct (a_nrm r1) as [k1|] eqn:Hn1; [|exact IHa].
        unfold post. simpl. intros Hok. apply andb_prop in Hok as [Hok1 _].
        destruct (IHa Hok1) as [Hm1 Ha1]. simpl in *. split; auto using ale_join_l.
    - (* Do *)
      simpl. apply atom_sound; auto.
    - (* If *)
      simpl. destruct (aeval F c) as [[|]|] eqn:Hc.
      + rewrite (aeval_sound E F Hag c true Hc). apply IHth; auto.
      + rewrite (aeval_sound E F Hag c false Hc). apply IHel; auto.
      + destruct (ceval E c).
        * specialize (IHth intry n s k Hle). unfold post in *. simpl. intros Hok.
          apply andb_prop in Hok as [Hok1 _]. destruct (IHth Hok1) as [Hm Ha]. split; auto.
          destruct (snd (exec E intry th n)); simpl in *; auto using ale_join_l.
        * specialize (IHel intry n s k Hle). unfold post in *. simpl. intros Hok.
          apply andb_prop in Hok as [_ Hok2]. destruct (IHel Hok2) as [Hm Ha]. split; auto.
          destruct (snd (exec E intry el n)); simpl in *; auto using ale_join_r.
    - (* Loop *)
      simpl. unfold post. simpl. intros Hok. apply andb_prop in Hok as [Hok2 Hfix].
      set (k2 := match a_nrm (ai m F extf intry body k) with Some b => k || b | None => k end) in *.
      assert (Hle2 : ble s k2).
      { unfold k2. intro Hs. pose proof (Hle Hs) as Hk.
        destruct (a_nrm (ai m F extf intry body k)); rewrite Hk; reflexivity. }
      pose proof (loop_sound (exec E intry body) (ai m F extf intry body k2) k2
                    (fun n' s' H' => IHbody intry n' s' k2 H') Hok2 Hfix (iters E id) n s Hle2) as H.
      simpl in H. exact H.
    - (* Try *)
      simpl. specialize (IHbody true n s k Hle).
      destruct (exec E true body n) as [[t1 n1] o1] eqn:Hb.
      remember (ai m F extf true body k) as r1.
      destruct (ajoin (a_nrm r1) (ajoin (a_xo r1) (a_xi r1))) as [kj|] eqn:Hj.
      + destruct (exec E intry fin n1) as [[t2 n2] o2] eqn:Hf.
        unfold post. simpl. intros Hok. apply andb_prop in Hok as [Hok1 Hok2].
        destruct (IHbody Hok1) as [Hm1 Ha1]. simpl in Hm1, Ha1.
        assert (Hlej : ble (mfinal m s t1) kj).
        { assert (Hale : ale (mfinal m s t1) (ajoin (a_nrm r1) (ajoin (a_xo r1) (a_xi r1)))).
          { destruct o1; simpl in Ha1; auto using ale_join_l, ale_join_r. }
          destruct Hale as (kk & Hkk & Hlek). rewrite Hj in Hkk. inversion Hkk; subst. exact Hlek. }
        specialize (IHfin intry n1 _ _ Hlej). rewrite Hf in IHfin.
        destruct (IHfin Hok2) as [Hm2 Ha2]. simpl in Hm2, Ha2. split.
        * rewrite mok_app, Hm1, Hm2. reflexivity.
        * rewrite mfinal_app.
          destruct o2; simpl in Ha2; simpl; auto using ale_join_l.
          (* the finally block completed: the outcome is that of the body *)
          destruct o1; simpl in Ha1; simpl; auto.
          -- destruct ck; simpl; auto.
             rewrite (ale_reach _ _ Ha1). auto using ale_join_r.
          -- rewrite (ale_reach _ _ Ha1). auto using ale_join_r.
          -- rewrite (ale_reach _ _ Ha1). auto using ale_join_r.
      + (* the analysis says the body has no exit at all: impossible *)
        unfold post. intros Hok. destruct (IHbody Hok) as [_ Ha1]. simpl in Ha1.
        assert (Hale : ale (mfinal m s t1) (ajoin (a_nrm r1) (ajoin (a_xo r1) (a_xi r1)))).
        { destruct o1; simpl in Ha1; auto using ale_join_l, ale_join_r. }
        destruct Hale as (kk & Hkk & _). congruence.
  Qed.
End Sound.

(* ---- whole runs ---------------------------------------------------------- *)

Definition no_faults (E : env) : Prop := forall i, fault E i = NoFault.

Lemma run_sound : forall m F extf E p,
  agrees E F -> (extf = false -> no_faults E) ->
  a_ok (ai m F extf false p true) = true ->
  mok m true (trace E p) = true /\
  ale (mfinal m true (trace E p)) (exit_av (result E p) (ai m F extf false p true)).
Proof.
  intros m F extf E p Hag Hnf Hok.
  exact (ai_sound m F extf E Hag Hnf p false 0 true true (ble_refl true) Hok).
Qed.

(* ---- the enumeration of flag valuations is complete ---------------------- *)

Lemma flag_eqb_eq : forall a b, flag_eqb a b = true <-> a = b.
Proof. destruct a, b; simpl; split; intro H; try reflexivity; try discriminate. Qed.

Lemma envs_complete : forall fs (G : flag -> bool),
  exists F, In F (envs fs) /\ forall f, In f fs -> F f = G f.
Proof.
  induction fs as [|g r IH]; intros G; simpl.
  - exists (fun _ => false). split; auto. intros f [].
  - destruct (IH G) as (F0 & Hin & Hf).
    exists (upd F0 g (G g)). split.
    + apply in_flat_map. exists F0. split; auto. destruct (G g); simpl; auto.
    + intros f Hfin. unfold upd. destruct (flag_eqb f g) eqn:He.
      * apply flag_eqb_eq in He. subst. reflexivity.
      * destruct Hfin as [->|Hfin].
        -- assert (flag_eqb f f = true) by (apply flag_eqb_eq; reflexivity). congruence.
        -- auto.
Qed.

Lemma all_flags_complete : forall f, In f all_flags.
Proof. destruct f; simpl; auto 14. Qed.

Lemma forall_envs_sound : forall P, forall_envs P = true ->
  forall E, exists F, agrees E F /\ P F = true.
Proof.
  intros P H E. destruct (envs_complete all_flags (fl E)) as (F & Hin & Hf).
  exists F. split.
  - intro f. symmetry. apply Hf, all_flags_complete.
  - unfold forall_envs in H. rewrite forallb_forall in H. apply H. exact Hin.
Qed.

(* ---- (1) the key is never written ---------------------------------------- *)

Definition w_file (w : write) : file := fst (fst w).
Definition w_ctor (w : write) : bool := snd (fst w).

Lemma key_mon_writes : forall allow tr s, mok (key_mon allow) s tr = true ->
  Forall (fun w => w_key w = true -> allow (w_file w) (w_ctor w) = true) (writes_of s tr).
Proof.
  intros allow. induction tr as [|a r IH]; intros s H; simpl in *; [constructor|].
  apply andb_prop in H as [Hb Hr].
  destruct a; simpl in *; unfold mstep in Hr; simpl in Hr; auto.
  - constructor; auto. unfold w_key, w_file, w_ctor. simpl. intro Hs. subst s. simpl in Hb.
    destruct (allow f ctor); simpl in Hb; congruence.
  - constructor; auto. unfold w_key. simpl. discriminate.
Qed.

Lemma prefix_mok : forall m s (pre l : list atom), prefix pre l -> mok m s l = true -> mok m s pre = true.
Proof.
  intros m s pre l [suf ->] H. rewrite mok_app in H. apply andb_prop in H as [H _]. exact H.
Qed.

Theorem key_never_written_sound_lemma : forall p, key_never_written p = true ->
  forall E pre, prefix pre (trace E p) ->
  Forall (fun w => w_key w = false) (writes_of true pre).
Proof.
  intros p H E pre Hpre.
  destruct (forall_envs_sound _ H E) as (F & Hag & HF).
  destruct (run_sound _ F true E p Hag (fun X => False_ind _ (diff_true_false X)) HF) as [Hm _].
  pose proof (key_mon_writes _ _ _ (prefix_mok _ _ _ _ Hpre Hm)) as Hw.
  eapply Forall_impl; [|exact Hw]. intros w Hk. simpl in Hk.
  destruct (w_key w); auto. specialize (Hk eq_refl). discriminate.
Qed.

Theorem key_written_only_under_F14_sound_lemma : forall p, key_written_only_under_F14 p = true ->
  forall E pre, prefix pre (trace E p) ->
  Forall (fun w => w_key w = true -> sel_F14 (fl E) (w_file w) (w_ctor w) = true) (writes_of true pre).
Proof.
  intros p H E pre Hpre.
  destruct (forall_envs_sound _ H E) as (F & Hag & HF).
  destruct (run_sound _ F true E p Hag (fun X => False_ind _ (diff_true_false X)) HF) as [Hm _].
  pose proof (key_mon_writes _ _ _ (prefix_mok _ _ _ _ Hpre Hm)) as Hw.
  eapply Forall_impl; [|exact Hw]. intros w Hk Hkey. simpl in Hk.
  unfold sel_F14 in *. rewrite Hag. auto.
Qed.

(* the converse direction used for refutations: a leaking write in a trace *)
Definition leaks (p : eff) (E : env) : Prop :=
  exists pre, prefix pre (trace E p) /\ Exists (fun w => w_key w = true) (writes_of true pre).

Lemma leaks_of_cell_sound : forall p c fc, In fc (leaks_of_cell p c) -> leaks p (cenv p c None).
Proof.
  intros p c fc Hin. exists (trace (cenv p c None) p). split.
  - exists []. rewrite app_nil_r. reflexivity.
  - unfold leaks_of_cell in Hin. apply in_map_iff in Hin as (w & _ & Hw).
    apply filter_In in Hw as [Hw Hk]. apply Exists_exists. exists w. auto.
Qed.

Lemma first_leaking_cell_sound : forall p c, first_leaking_cell p = Some c -> leaks p (cenv p c None).
Proof.
  intros p c H. unfold first_leaking_cell in H. apply find_some in H as [_ H].
  unfold no_leak in H.
  destruct (leaks_of_cell p c) as [|fc r] eqn:Hl; [discriminate|].
  apply (leaks_of_cell_sound p c fc). rewrite Hl. left. reflexivity.
Qed.

Definition is_some {A} (o : option A) : bool := match o with Some _ => true | None => false end.

Lemma leak_exists : forall p, is_some (first_leaking_cell p) = true -> exists E, leaks p E.
Proof.
  intros p H. destruct (first_leaking_cell p) as [c|] eqn:Hc; [|discriminate].
  exists (cenv p c None). apply first_leaking_cell_sound. exact Hc.
Qed.

(* soundness and refutation are consistent: a term with a leaking cell is rejected *)
Lemma leak_refutes_checker : forall p, is_some (first_leaking_cell p) = true -> key_never_written p = false.
Proof.
  intros p H. destruct (key_never_written p) eqn:Hk; auto.
  destruct (leak_exists p H) as (E & pre & Hpre & Hex).
  pose proof (key_never_written_sound_lemma p Hk _ _ Hpre) as Hall.
  apply Exists_exists in Hex as (w & Hin & Hw). rewrite Forall_forall in Hall.
  rewrite (Hall w Hin) in Hw. discriminate.
Qed.

(* ---- (2) initial_config.yaml --------------------------------------------- *)

(* the configuration has been (re)loaded and not mutated since *)
Definition loaded_unmodified (pre : list atom) : Prop :=
  exists p1 p2, pre = p1 ++ AReload :: p2 /\ Forall (fun b => is_set b = false) p2.

Lemma andb_prop3 : forall a b, a && b = true -> a = true /\ b = true.
Proof. intros. apply andb_prop; auto. Qed.

Theorem initial_before_mutation_lemma : forall p, initial_config_contract p = true ->
  forall E pre a suf, trace E p = pre ++ a :: suf -> is_write_to FInitial a = true ->
  loaded_unmodified pre.
Proof.
  intros p H E pre a suf Htr Hw. unfold initial_config_contract in H.
  apply andb_prop in H as [H _].
  destruct (forall_envs_sound _ H E) as (F & Hag & HF).
  destruct (run_sound _ F true E p Hag (fun X => False_ind _ (diff_true_false X)) HF) as [Hm _].
  pose proof (mok_at init_mon true _ pre a suf Hm Htr Hw) as Hfin.
  destruct (mfinal_false _ _ _ Hfin) as [[Hs _] | (p1 & k & p2 & Hpre & Hk & _ & Hp2)]; [discriminate|].
  simpl in Hk. destruct k; try discriminate. exists p1, p2. split; auto.
Qed.

Lemma ends_clean_sound : forall m F E p, agrees E F -> no_faults E ->
  ends_clean m F p = true -> result E p = Ok -> mfinal m true (trace E p) = false.
Proof.
  intros m F E p Hag Hnf H Hres. unfold ends_clean in H. apply andb_prop in H as [Hok Hle].
  destruct (run_sound m F false E p Hag (fun _ => Hnf) Hok) as [_ Ha].
  rewrite Hres in Ha. simpl in Ha. eapply ale_le_false; eauto.
Qed.

Theorem initial_written_lemma : forall p, initial_config_contract p = true ->
  forall E, fl E RankZero = true -> no_faults E -> result E p = Ok ->
  exists a, In a (trace E p) /\ is_write_to FInitial a = true.
Proof.
  intros p H E Hrz Hnf Hres. unfold initial_config_contract in H.
  apply andb_prop in H as [_ H].
  destruct (forall_envs_sound _ H E) as (F & Hag & HF).
  rewrite <- Hag, Hrz in HF. simpl in HF.
  pose proof (ends_clean_sound _ F E p Hag Hnf HF Hres) as Hfin.
  destruct (mfinal_false _ _ _ Hfin) as [[Hs _] | (p1 & k & p2 & Hpre & Hk & _ & _)]; [discriminate|].
  exists k. split; auto. rewrite Hpre. apply in_or_app. right. left. reflexivity.
Qed.

(* ---- (3) the final training_config.yaml ---------------------------------- *)

(* nothing after the last save changes the configuration: no mutation AND no reload (round 4) *)
Definition unchanged_after (p2 : list atom) : Prop :=
  Forall (fun b => is_set b = false /\ is_reload b = false) p2.

Lemma changes_config_false : forall p2, Forall (fun b => gen final_mon b = false) p2 -> unchanged_after p2.
Proof.
  intros p2 H. unfold unchanged_after. eapply Forall_impl; [|exact H]. intros a Ha. simpl in Ha.
  unfold changes_config in Ha. apply orb_false_iff in Ha. exact Ha.
Qed.

Theorem final_after_mutation_lemma : forall p, final_config_contract p = true ->
  forall E, fl E RankZero = true -> no_faults E -> result E p = Ok ->
  exists p1 a p2, trace E p = p1 ++ a :: p2 /\ is_write_to FTraining a = true /\ unchanged_after p2.
Proof.
  intros p H E Hrz Hnf Hres. unfold final_config_contract in H.
  destruct (forall_envs_sound _ H E) as (F & Hag & HF).
  rewrite <- Hag, Hrz in HF. simpl in HF.
  pose proof (ends_clean_sound _ F E p Hag Hnf HF Hres) as Hfin.
  destruct (mfinal_false _ _ _ Hfin) as [[Hs _] | (p1 & k & p2 & Hpre & Hk & _ & Hp2)]; [discriminate|].
  exists p1, k, p2. repeat split; auto. apply changes_config_false; exact Hp2.
Qed.

(* ---- (4) checkpoints ------------------------------------------------------ *)

Lemma ckpt_req_agrees : forall E F, agrees E F -> ckpt_req F = ckpt_req (fl E).
Proof. intros E F H. unfold ckpt_req, ckpt_saves. rewrite !H. reflexivity. Qed.

Theorem no_ckpt_unless_requested_lemma : forall p, ckpt_contract p = true ->
  forall E, ckpt_req (fl E) = false ->
  Forall (fun a => is_write_to FCkpt a = false) (trace E p).
Proof.
  intros p H E Hsc. unfold ckpt_contract in H. apply andb_prop in H as [H _].
  destruct (forall_envs_sound _ H E) as (F & Hag & HF).
  rewrite (ckpt_req_agrees E F Hag), Hsc in HF. simpl in HF.
  destruct (run_sound _ F true E p Hag (fun X => False_ind _ (diff_true_false X)) HF) as [Hm _].
  exact (mok_const_true no_ckpt_mon (fun _ => eq_refl) (fun _ => eq_refl) _ Hm).
Qed.

(* the old hypothesis (save_ckpt off) is a special case *)
Lemma no_ckpt_when_save_ckpt_off_lemma : forall p, ckpt_contract p = true ->
  forall E, fl E SaveCkpt = false ->
  Forall (fun a => is_write_to FCkpt a = false) (trace E p).
Proof.
  intros p H E Hsc. apply (no_ckpt_unless_requested_lemma p H E). unfold ckpt_req. rewrite Hsc. reflexivity.
Qed.

(* ... and so is "zero checkpoints asked for": save_top_k = 0 and save_last not set *)
Lemma no_ckpt_when_zero_requested_lemma : forall p, ckpt_contract p = true ->
  forall E, fl E SaveTopKZero = true -> fl E SaveLast = false ->
  Forall (fun a => is_write_to FCkpt a = false) (trace E p).
Proof.
  intros p H E Hz Hl. apply (no_ckpt_unless_requested_lemma p H E). unfold ckpt_req, ckpt_saves.
  rewrite Hz, Hl. apply andb_false_r.
Qed.

Theorem ckpt_written_when_requested_lemma : forall p, ckpt_contract p = true ->
  forall E, ckpt_req (fl E) = true -> no_faults E -> result E p = Ok ->
  exists a, In a (trace E p) /\ is_write_to FCkpt a = true.
Proof.
  intros p H E Hsc Hnf Hres. unfold ckpt_contract in H. apply andb_prop in H as [_ H].
  destruct (forall_envs_sound _ H E) as (F & Hag & HF).
  rewrite (ckpt_req_agrees E F Hag), Hsc in HF. simpl in HF.
  pose proof (ends_clean_sound _ F E p Hag Hnf HF Hres) as Hfin.
  destruct (mfinal_false _ _ _ Hfin) as [[Hs _] | (p1 & k & p2 & Hpre & Hk & _ & _)]; [discriminate|].
  exists k. split; auto. rewrite Hpre. apply in_or_app. right. left. reflexivity.
Qed.

(* ---- (5) chunk deletion --------------------------------------------------- *)

Lemma valid_cell_agrees : forall E F, agrees E F -> valid_cell F = valid_cell (fl E).
Proof. intros E F H. unfold valid_cell, one_framework. rewrite !H. reflexivity. Qed.

Lemma rm_requested_agrees : forall E F, agrees E F -> rm_requested F = rm_requested (fl E).
Proof. intros E F H. unfold rm_requested, np_in_use. rewrite !H. reflexivity. Qed.

Lemma chunks_in_use_agrees : forall E F t, agrees E F -> chunks_in_use F t = chunks_in_use (fl E) t.
Proof. intros E F t H. unfold chunks_in_use, np_in_use. rewrite !H. reflexivity. Qed.

Lemma rm_req_agrees : forall E F t, agrees E F -> rm_req F t = rm_req (fl E) t.
Proof. intros E F t H. unfold rm_req. rewrite H, (chunks_in_use_agrees E F t H). reflexivity. Qed.

Lemma rm_req_train : forall F, rm_req F RmTrain = rm_requested F.
Proof. intro F. unfold rm_req, rm_requested, chunks_in_use. apply andb_comm. Qed.

Lemma rm_req_val : forall F, rm_req F RmVal = rm_requested F.
Proof. intro F. unfold rm_req, rm_requested, chunks_in_use. apply andb_comm. Qed.

Lemma in_all_rmt : forall t, In t all_rmt.
Proof. destruct t; simpl; auto. Qed.

(* round-2 widening of the grid: every round-1 cell is still a valid cell *)
Lemma valid_cell_widened : forall F, valid_cell_r1 F = true -> valid_cell F = true.
Proof.
  intro F. unfold valid_cell_r1, valid_cell, one_framework.
  destruct (F RankZero), (F UseExisting), (F FwLitdata), (F FwTorch), (F FwNpChunks); simpl; auto.
Qed.

Lemma sel_F15_agrees : forall E F, agrees E F -> sel_F15 F = sel_F15 (fl E).
Proof. intros E F H. unfold sel_F15. rewrite !H. reflexivity. Qed.

Theorem no_rm_unless_requested_t_lemma : forall t p, chunk_guard_t t p = true ->
  forall E, rm_req (fl E) t = false ->
  Forall (fun a => is_rm t a = false) (trace E p).
Proof.
  intros t p H E Hrq. unfold chunk_guard_t in H.
  destruct (forall_envs_sound _ H E) as (F & Hag & HF).
  rewrite (rm_req_agrees E F t Hag), Hrq in HF. simpl in HF.
  destruct (run_sound _ F true E p Hag (fun X => False_ind _ (diff_true_false X)) HF) as [Hm _].
  exact (mok_const_true (no_rm_mon_t t) (fun _ => eq_refl) (fun _ => eq_refl) _ Hm).
Qed.

Lemma chunk_guard_contract_t : forall p t, chunk_guard_contract p = true -> chunk_guard_t t p = true.
Proof.
  intros p t H. unfold chunk_guard_contract in H. rewrite forallb_forall in H. apply H, in_all_rmt.
Qed.

Theorem no_rm_unless_requested_any_lemma : forall p, chunk_guard_contract p = true ->
  forall E t, rm_req (fl E) t = false -> Forall (fun a => is_rm t a = false) (trace E p).
Proof.
  intros p H E t. apply no_rm_unless_requested_t_lemma, chunk_guard_contract_t, H.
Qed.

Theorem no_rm_unless_requested_lemma : forall p, chunk_guard_contract p = true ->
  forall E, rm_requested (fl E) = false ->
  Forall (fun a => is_rm RmTrain a = false /\ is_rm RmVal a = false) (trace E p).
Proof.
  intros p H E Hrq.
  pose proof (no_rm_unless_requested_any_lemma p H E RmTrain) as H1.
  pose proof (no_rm_unless_requested_any_lemma p H E RmVal) as H2.
  rewrite rm_req_train in H1. rewrite rm_req_val in H2.
  specialize (H1 Hrq). specialize (H2 Hrq).
  rewrite Forall_forall in *. intros a Ha. split; auto.
Qed.

(* on every path that is not an explicit rejection — faults inside try bodies included — the chunk monitor
   ends in state false even when entered in state true (chunks may pre-exist) *)
Lemma rm_all_paths_final : forall excuse t p,
  (forall E F, agrees E F -> excuse F = excuse (fl E)) ->
  rm_all_paths excuse t p = true ->
  forall E, valid_cell (fl E) = true -> rm_req (fl E) t = true -> excuse (fl E) = false ->
  result E p <> ExnInvalid ->
  chunks_present true t (trace E p) = false.
Proof.
  intros excuse t p Hex H E Hv Hrq Hnx Hres. unfold rm_all_paths in H.
  destruct (forall_envs_sound _ H E) as (F & Hag & HF).
  rewrite (valid_cell_agrees E F Hag), (rm_req_agrees E F t Hag), (Hex E F Hag), Hv, Hrq, Hnx in HF.
  simpl in HF. apply andb_prop in HF as [HF Hxo]. apply andb_prop in HF as [Hok Hnrm].
  destruct (run_sound _ F true E p Hag (fun X => False_ind _ (diff_true_false X)) Hok) as [_ Ha].
  unfold chunks_present.
  destruct (result E p); simpl in Ha; try (eapply ale_le_false; eauto; fail); try congruence.
Qed.

(* round 4 (review finding 2): the removal comes AFTER the last creation / use of chunks of that kind *)
Theorem rm_after_last_mk_lemma : forall excuse t p,
  (forall E F, agrees E F -> excuse F = excuse (fl E)) ->
  rm_all_paths excuse t p = true ->
  forall E, valid_cell (fl E) = true -> rm_req (fl E) t = true -> excuse (fl E) = false ->
  result E p <> ExnInvalid ->
  exists p1 a p2, trace E p = p1 ++ a :: p2 /\ is_rm t a = true /\
                  Forall (fun b => is_mk t b = false) p2.
Proof.
  intros excuse t p Hex H E Hv Hrq Hnx Hres.
  pose proof (rm_all_paths_final excuse t p Hex H E Hv Hrq Hnx Hres) as Hfin. unfold chunks_present in Hfin.
  destruct (mfinal_false _ _ _ Hfin) as [[Hs _] | (p1 & k & p2 & Hpre & Hk & _ & Hp2)]; [discriminate|].
  exists p1, k, p2. auto.
Qed.

Theorem rm_on_all_paths_lemma : forall excuse t p,
  (forall E F, agrees E F -> excuse F = excuse (fl E)) ->
  rm_all_paths excuse t p = true ->
  forall E, valid_cell (fl E) = true -> rm_req (fl E) t = true -> excuse (fl E) = false ->
  result E p <> ExnInvalid ->
  exists a, In a (trace E p) /\ is_rm t a = true.
Proof.
  intros excuse t p Hex H E Hv Hrq Hnx Hres.
  destruct (rm_after_last_mk_lemma excuse t p Hex H E Hv Hrq Hnx Hres) as (p1 & k & p2 & Hpre & Hk & _).
  exists k. split; auto. rewrite Hpre. apply in_or_app. right. left. reflexivity.
Qed.

(* chunk files of kind t are created only by a run that uses that kind *)
Theorem no_mk_unless_in_use_lemma : forall p, mk_guard_contract p = true ->
  forall E t, chunks_in_use (fl E) t = false -> Forall (fun a => is_mk t a = false) (trace E p).
Proof.
  intros p H E t Hu. unfold mk_guard_contract in H. rewrite forallb_forall in H.
  specialize (H t (in_all_rmt t)). unfold mk_guard_t in H.
  destruct (forall_envs_sound _ H E) as (F & Hag & HF).
  rewrite (chunks_in_use_agrees E F t Hag), Hu in HF. simpl in HF.
  destruct (run_sound _ F true E p Hag (fun X => False_ind _ (diff_true_false X)) HF) as [Hm _].
  exact (mok_const_true (no_mk_mon_t t) (fun _ => eq_refl) (fun _ => eq_refl) _ Hm).
Qed.

Lemma mfinal_mono : forall m tr s k, ble s k -> ble (mfinal m s tr) (mfinal m k tr).
Proof.
  induction tr as [|a r IH]; intros s k H; simpl; auto. apply IH. apply mstep_mono. exact H.
Qed.

Lemma mfinal_no_gen : forall m tr, Forall (fun a => gen m a = false) tr -> mfinal m false tr = false.
Proof.
  induction tr as [|a r IH]; intros H; simpl; auto. inversion H; subst.
  unfold mstep. rewrite H2. destruct (kill m a); apply IH; auto.
Qed.

(* THE CHUNK CLAUSE: when deletion is requested, a valid run that is not an explicit rejection ends with no
   chunk files of ANY kind — whatever was there before (s0), provided the directories of a kind this run does
   not use were empty to begin with *)
Theorem no_chunks_at_exit_lemma : forall p, chunk_contract p = true ->
  forall E, valid_cell (fl E) = true -> fl E DeleteChunks = true -> result E p <> ExnInvalid ->
  forall t s0, (chunks_in_use (fl E) t = false -> s0 = false) ->
  chunks_present s0 t (trace E p) = false.
Proof.
  intros p H E Hv Hd Hres t s0 Hs0. unfold chunk_contract in H.
  apply andb_prop in H as [H Hrm]. apply andb_prop in H as [_ Hmk].
  destruct (chunks_in_use (fl E) t) eqn:Hu.
  - rewrite forallb_forall in Hrm. specialize (Hrm t (in_all_rmt t)).
    assert (Hrq : rm_req (fl E) t = true) by (unfold rm_req; rewrite Hd, Hu; reflexivity).
    pose proof (rm_all_paths_final no_excuse t p (fun _ _ _ => eq_refl) Hrm E Hv Hrq eq_refl Hres) as Hfin.
    unfold chunks_present in *.
    pose proof (mfinal_mono (chunks_mon t) (trace E p) s0 true (fun _ => eq_refl)) as Hle.
    destruct (mfinal (chunks_mon t) s0 (trace E p)); auto. specialize (Hle eq_refl). congruence.
  - rewrite (Hs0 eq_refl). unfold chunks_present. apply mfinal_no_gen.
    exact (no_mk_unless_in_use_lemma p Hmk E t Hu).
Qed.

(* ---- (6) completion -------------------------------------------------------- *)

Theorem completes_under_lemma : forall excuse p,
  (forall E F, agrees E F -> excuse F = excuse (fl E)) ->
  completes_under excuse p = true ->
  forall E, valid_cell (fl E) = true -> excuse (fl E) = false -> no_faults E ->
  result E p = Ok \/ result E p = ExnInvalid.
Proof.
  intros excuse p Hex H E Hv Hnx Hnf. unfold completes_under in H.
  destruct (forall_envs_sound _ H E) as (F & Hag & HF).
  rewrite (valid_cell_agrees E F Hag), (Hex E F Hag), Hv, Hnx in HF. simpl in HF.
  apply andb_prop in HF as [Hok Hnr].
  destruct (run_sound _ F false E p Hag (fun _ => Hnf) Hok) as [_ Ha].
  destruct (result E p); auto; simpl in Ha; apply ale_reach in Ha; rewrite Ha in Hnr; discriminate.
Qed.

Lemma no_excuse_agrees : forall E F, agrees E F -> no_excuse F = no_excuse (fl E).
Proof. reflexivity. Qed.

(* ---- cells are environments without faults --------------------------------- *)

Lemma cenv_no_faults : forall p c, no_faults (cenv p c None).
Proof. intros p c i. reflexivity. Qed.

Lemma cenv_flags : forall p c fa f, fl (cenv p c fa) f = cell_flags c f.
Proof. reflexivity. Qed.

(* a valid cell that neither completes nor is rejected: refutes completion *)
Definition fails_to_complete (p : eff) (E : env) : Prop :=
  valid_cell (fl E) = true /\ no_faults E /\ result E p <> Ok /\ result E p <> ExnInvalid.

Lemma failing_cell_exists : forall p, is_some (first_failing_cell p) = true ->
  exists E, fails_to_complete p E.
Proof.
  intros p H. destruct (first_failing_cell p) as [c|] eqn:Hc; [|discriminate].
  unfold first_failing_cell in Hc. apply find_some in Hc as [_ Hc].
  apply andb_prop in Hc as [Hv Hn]. exists (cenv p c None).
  split; [|split; [|split]].
  - exact Hv.
  - apply cenv_no_faults.
  - intro Ho. unfold cell_completes in Hn. rewrite Ho in Hn. discriminate.
  - intro Ho. unfold cell_completes in Hn. rewrite Ho in Hn. discriminate.
Qed.

Lemma failing_cell_refutes_checker : forall p, is_some (first_failing_cell p) = true -> completes p = false.
Proof.
  intros p H. destruct (completes p) eqn:Hk; auto.
  destruct (failing_cell_exists p H) as (E & Hv & Hnf & Hn1 & Hn2).
  destruct (completes_under_lemma no_excuse p no_excuse_agrees Hk E Hv eq_refl Hnf); contradiction.
Qed.

(* a valid, non-rejected run in which a requested chunk deletion does not happen *)
Definition chunks_left_behind (p : eff) (E : env) : Prop :=
  valid_cell (fl E) = true /\ result E p <> ExnInvalid /\
  exists t, rm_req (fl E) t = true /\ ~ (exists a, In a (trace E p) /\ is_rm t a = true).

Lemma rm_missing_cell_exists : forall p, is_some (first_rm_missing_cell p) = true ->
  exists E, chunks_left_behind p E.
Proof.
  intros p H. destruct (first_rm_missing_cell p) as [c|] eqn:Hc; [|discriminate].
  unfold first_rm_missing_cell in Hc. apply find_some in Hc as [_ Hc].
  apply andb_prop in Hc as [Hv Hm]. unfold rm_missing in Hm.
  apply existsb_exists in Hm as (t & _ & Hm). unfold rm_missing_t in Hm.
  apply andb_prop in Hm as [Hm Hne]. apply andb_prop in Hm as [Hrq Hnr].
  exists (cenv p c None). split; [|split]; auto.
  - intro Ho. rewrite Ho in Hnr. discriminate.
  - exists t. split; auto. intros (a & Ha & Hra).
    assert (H1 : existsb (is_rm t) (trace (cenv p c None) p) = true)
      by (apply existsb_exists; eauto).
    rewrite H1 in Hne. discriminate.
Qed.

(* ---- the frozen snapshot `reference` (finite facts, recomputed by the kernel) ----
   `reference true true` = the current tree; `reference false _` / `reference _ false` = the pinned tree before
   fix 9c1a762 (F14) / 0a40184 (F15): historic variants, implemented by no code today *)

Lemma reference_checkers_unfixed :
  (key_never_written (reference false false), key_written_only_under_F14 (reference false false),
   initial_config_contract (reference false false), final_config_contract (reference false false),
   ckpt_contract (reference false false),
   chunk_contract (reference false false), chunk_contract_unless_F15 (reference false false),
   completes (reference false false), completes_unless_F15 (reference false false))
  = (false, true, true, true, true, false, true, false, true).
Proof. vm_compute. reflexivity. Qed.

Lemma reference_checkers_fixed :
  (key_never_written (reference true true), initial_config_contract (reference true true),
   final_config_contract (reference true true), ckpt_contract (reference true true),
   chunk_contract (reference true true), completes (reference true true))
  = (true, true, true, true, true, true).
Proof. vm_compute. reflexivity. Qed.

Lemma reference_key_fixed14 : forall b, key_never_written (reference true b) = true.
Proof. destruct b; vm_compute; reflexivity. Qed.

Lemma reference_key_partial : forall b, key_written_only_under_F14 (reference false b) = true.
Proof. destruct b; vm_compute; reflexivity. Qed.

Lemma reference_leaking_cell : forall b, is_some (first_leaking_cell (reference false b)) = true.
Proof. destruct b; vm_compute; reflexivity. Qed.

Lemma reference_completes_fixed15 : forall b, completes (reference b true) = true.
Proof. destruct b; vm_compute; reflexivity. Qed.

Lemma reference_completes_partial : forall b, completes_unless_F15 (reference b false) = true.
Proof. destruct b; vm_compute; reflexivity. Qed.

Lemma reference_failing_cell : forall b, is_some (first_failing_cell (reference b false)) = true.
Proof. destruct b; vm_compute; reflexivity. Qed.

Lemma reference_chunks_fixed15 : forall b, chunk_contract (reference b true) = true.
Proof. destruct b; vm_compute; reflexivity. Qed.

Lemma reference_chunks_partial : forall b, chunk_contract_unless_F15 (reference b false) = true.
Proof. destruct b; vm_compute; reflexivity. Qed.

Lemma reference_rm_missing_cell : forall b, is_some (first_rm_missing_cell (reference b false)) = true.
Proof. destruct b; vm_compute; reflexivity. Qed.

Lemma reference_contracts : forall b14 b15,
  initial_config_contract (reference b14 b15) = true /\
  final_config_contract (reference b14 b15) = true /\
  ckpt_contract (reference b14 b15) = true.
Proof. destruct b14, b15; vm_compute; auto. Qed.

(* the complete leak table of the pinned tree (before fix 9c1a762), cell by cell (1536 cells) *)
Definition expected_leaks (c : cell) : list (file * bool) :=
  [(FInitial, true); (FTraining, true)] ++
  (match c_fw c with KMem => [] | _ => if c_existing c then [] else [(FChunkCfg, true)] end) ++
  (if c_wandb c then []
   else [(FTraining, false)] ++
        (if c_ckpt c && (negb (c_topk0 c) || c_savelast c) then [(FCkpt, false)] else []) ++ [(FTraining, false)]).

Lemma reference_leak_table :
  map (leaks_of_cell (reference false true)) all_cells = map expected_leaks all_cells.
Proof. vm_compute. reflexivity. Qed.

Lemma all_cells_length : length all_cells = 1536.
Proof. vm_compute. reflexivity. Qed.

(* ---- the statements of Props.v, in exactly the form stated there ------------- *)

Lemma chunk_deletion_on_all_paths_lemma : forall t p, rm_all_paths no_excuse t p = true ->
  forall E, valid_cell (fl E) = true -> rm_req (fl E) t = true ->
  result E p <> ExnInvalid ->
  exists a, In a (trace E p) /\ is_rm t a = true.
Proof.
  intros t p H E Hv Hr. apply (rm_on_all_paths_lemma no_excuse t p no_excuse_agrees H E Hv Hr).
  reflexivity.
Qed.

Lemma chunk_deletion_after_last_creation_lemma : forall t p, rm_all_paths no_excuse t p = true ->
  forall E, valid_cell (fl E) = true -> rm_req (fl E) t = true ->
  result E p <> ExnInvalid ->
  exists p1 a p2, trace E p = p1 ++ a :: p2 /\ is_rm t a = true /\ Forall (fun b => is_mk t b = false) p2.
Proof.
  intros t p H E Hv Hr. apply (rm_after_last_mk_lemma no_excuse t p no_excuse_agrees H E Hv Hr).
  reflexivity.
Qed.

Lemma chunk_deletion_after_last_creation_unless_F15_lemma : forall t p, rm_all_paths sel_F15 t p = true ->
  forall E, valid_cell (fl E) = true -> rm_req (fl E) t = true -> sel_F15 (fl E) = false ->
  result E p <> ExnInvalid ->
  exists p1 a p2, trace E p = p1 ++ a :: p2 /\ is_rm t a = true /\ Forall (fun b => is_mk t b = false) p2.
Proof. intros t p. apply (rm_after_last_mk_lemma sel_F15 t p sel_F15_agrees). Qed.

Lemma chunk_deletion_on_all_paths_unless_F15_lemma : forall t p, rm_all_paths sel_F15 t p = true ->
  forall E, valid_cell (fl E) = true -> rm_req (fl E) t = true -> sel_F15 (fl E) = false ->
  result E p <> ExnInvalid ->
  exists a, In a (trace E p) /\ is_rm t a = true.
Proof. intros t p. apply (rm_on_all_paths_lemma sel_F15 t p sel_F15_agrees). Qed.

Lemma run_completes_sound_lemma : forall p, completes p = true ->
  forall E, valid_cell (fl E) = true -> (forall i, fault E i = NoFault) ->
  result E p = Ok \/ result E p = ExnInvalid.
Proof.
  intros p H E Hv Hnf. unfold completes in H.
  apply (completes_under_lemma no_excuse p no_excuse_agrees H E Hv); auto.
Qed.

Lemma run_completes_unless_F15_sound_lemma : forall p, completes_unless_F15 p = true ->
  forall E, valid_cell (fl E) = true -> sel_F15 (fl E) = false -> (forall i, fault E i = NoFault) ->
  result E p = Ok \/ result E p = ExnInvalid.
Proof.
  intros p H. unfold completes_unless_F15 in H.
  apply (completes_under_lemma sel_F15 p sel_F15_agrees H).
Qed.

Lemma ref_key_persisted_refuted : forall b15,
  exists E pre, prefix pre (trace E (reference false b15)) /\
                Exists (fun w => w_key w = true) (writes_of true pre).
Proof. intro b. apply leak_exists. apply reference_leaking_cell. Qed.

Lemma ref_key_persisted_partial : forall b15 E pre, prefix pre (trace E (reference false b15)) ->
  Forall (fun w => w_key w = true -> sel_F14 (fl E) (w_file w) (w_ctor w) = true)
         (writes_of true pre).
Proof. intro b. apply key_written_only_under_F14_sound_lemma. apply reference_key_partial. Qed.

Lemma ref_key_never_persisted_after_fix : forall b15 E pre, prefix pre (trace E (reference true b15)) ->
  Forall (fun w => w_key w = false) (writes_of true pre).
Proof. intro b. apply key_never_written_sound_lemma. apply reference_key_fixed14. Qed.

Lemma ref_completes_refuted : forall b14,
  exists E, valid_cell (fl E) = true /\ (forall i, fault E i = NoFault) /\
            result E (reference b14 false) <> Ok /\ result E (reference b14 false) <> ExnInvalid.
Proof. intro b. apply failing_cell_exists. apply reference_failing_cell. Qed.

Lemma ref_completes_partial : forall b14 E, valid_cell (fl E) = true -> sel_F15 (fl E) = false ->
  (forall i, fault E i = NoFault) ->
  result E (reference b14 false) = Ok \/ result E (reference b14 false) = ExnInvalid.
Proof. intro b. apply run_completes_unless_F15_sound_lemma. apply reference_completes_partial. Qed.

Lemma ref_completes_after_fix : forall b14 E, valid_cell (fl E) = true ->
  (forall i, fault E i = NoFault) ->
  result E (reference b14 true) = Ok \/ result E (reference b14 true) = ExnInvalid.
Proof. intro b. apply run_completes_sound_lemma. apply reference_completes_fixed15. Qed.

Lemma ref_chunks_left_behind : forall b14,
  exists E, valid_cell (fl E) = true /\ result E (reference b14 false) <> ExnInvalid /\
    exists t, rm_req (fl E) t = true /\
              ~ (exists a, In a (trace E (reference b14 false)) /\ is_rm t a = true).
Proof. intro b. apply rm_missing_cell_exists. apply reference_rm_missing_cell. Qed.

Lemma ref_leak_table :
  length all_cells = 1536 /\
  map (leaks_of_cell (reference false true)) all_cells = map expected_leaks all_cells.
Proof. split. apply all_cells_length. apply reference_leak_table. Qed.

(* ---- round 2: tracking-run id, final save under faults ------------------------ *)

(* (3') with tracking on, every completed rank-0 run records the id of its tracking run *)
Theorem run_id_recorded_lemma : forall p, run_id_contract p = true ->
  forall E, fl E RankZero = true -> fl E UseWandb = true -> no_faults E -> result E p = Ok ->
  exists a, In a (trace E p) /\ is_set_path run_id_path a = true.
Proof.
  intros p H E Hrz Hw Hnf Hres. unfold run_id_contract in H.
  destruct (forall_envs_sound _ H E) as (F & Hag & HF).
  rewrite <- !Hag, Hrz, Hw in HF. simpl in HF.
  pose proof (ends_clean_sound _ F E p Hag Hnf HF Hres) as Hfin.
  destruct (mfinal_false _ _ _ Hfin) as [[Hs _] | (p1 & k & p2 & Hpre & Hk & _ & _)]; [discriminate|].
  exists k. split; auto. rewrite Hpre. apply in_or_app. right. left. reflexivity.
Qed.

Lemma is_set_path_is_set : forall n a, is_set_path n a = true -> is_set a = true.
Proof. intros n a H. destruct a; simpl in *; auto; discriminate. Qed.

Lemma write_not_set : forall f a, is_write_to f a = true -> is_set a = false.
Proof. intros f a H. destruct a; simpl in *; auto; destruct f; discriminate. Qed.

(* ... and the final training_config.yaml is written AFTER that id was recorded and after every
   other mutation: the file holds the configuration actually used, run id included *)
Theorem final_config_records_run_id_lemma : forall p,
  final_config_contract p = true -> run_id_contract p = true ->
  forall E, fl E RankZero = true -> fl E UseWandb = true -> no_faults E -> result E p = Ok ->
  exists p1 a p2 b p3, trace E p = p1 ++ a :: p2 ++ b :: p3 /\
    is_set_path run_id_path a = true /\ is_write_to FTraining b = true /\ unchanged_after p3.
Proof.
  intros p Hf Hr E Hrz Hw Hnf Hres.
  destruct (final_after_mutation_lemma p Hf E Hrz Hnf Hres) as (q1 & b & q3 & Htr & Hb & Hq3).
  destruct (run_id_recorded_lemma p Hr E Hrz Hw Hnf Hres) as (a & Hin & Ha).
  rewrite Htr in Hin. apply in_app_or in Hin as [Hin | Hin].
  - apply in_split in Hin as (p1 & p2 & ->).
    exists p1, a, p2, b, q3. repeat split; auto.
    rewrite Htr, <- app_assoc. reflexivity.
  - exfalso. pose proof (is_set_path_is_set _ _ Ha) as Hs.
    destruct Hin as [<- | Hin].
    + rewrite (write_not_set _ _ Hb) in Hs. discriminate.
    + unfold unchanged_after in Hq3. rewrite Forall_forall in Hq3. destruct (Hq3 a Hin) as [Hx _].
      rewrite Hx in Hs. discriminate.
Qed.

(* (3'') the final save survives exceptions: whatever strikes inside a try body, a rank-0 run
   that is not rejected ends with training_config.yaml written after the last mutation *)
Theorem final_config_under_faults_lemma : forall p, final_config_contract_faults p = true ->
  forall E, fl E RankZero = true -> result E p <> ExnInvalid ->
  exists p1 a p2, trace E p = p1 ++ a :: p2 /\ is_write_to FTraining a = true /\ unchanged_after p2.
Proof.
  intros p H E Hrz Hres. unfold final_config_contract_faults in H.
  destruct (forall_envs_sound _ H E) as (F & Hag & HF).
  rewrite <- Hag, Hrz in HF. simpl in HF.
  apply andb_prop in HF as [HF Hxo]. apply andb_prop in HF as [Hok Hnrm].
  destruct (run_sound _ F true E p Hag (fun X => False_ind _ (diff_true_false X)) Hok) as [_ Ha].
  assert (Hfin : mfinal final_mon true (trace E p) = false).
  { destruct (result E p); simpl in Ha; try (eapply ale_le_false; eauto; fail); try congruence. }
  destruct (mfinal_false _ _ _ Hfin) as [[Hs _] | (p1 & k & p2 & Hpre & Hk & _ & Hp2)]; [discriminate|].
  exists p1, k, p2. repeat split; auto. apply changes_config_false; exact Hp2.
Qed.

(* round-2 facts about the frozen snapshot *)
Lemma reference_round2_contracts : forall b14,
  run_id_contract (reference b14 true) = true /\
  final_config_contract_faults (reference b14 true) = true.
Proof. destruct b14; vm_compute; auto. Qed.


(* ---- round 4 ------------------------------------------------------------------ *)

(* (6') review finding 3: for a given term, every valid cell ends Ok under the harness's data valuation *)
Theorem valid_cells_complete_lemma : forall p, valid_cells_complete p = true ->
  forall c, In c all_cells -> valid_cell (cell_flags c) = true ->
  result (cenv p c None) p = Ok /\ valid_cell (fl (cenv p c None)) = true /\ no_faults (cenv p c None).
Proof.
  intros p H c Hin Hv. unfold valid_cells_complete in H. rewrite forallb_forall in H.
  specialize (H c Hin). rewrite Hv in H. simpl in H.
  split; [|split; [exact Hv | apply cenv_no_faults]].
  destruct (result (cenv p c None) p); simpl in H; congruence.
Qed.

Lemma in_bools : forall b, In b bools.
Proof. destruct b; simpl; auto. Qed.

Lemma all_cells_complete : forall c, In c all_cells.
Proof.
  intros [w k fw d s o x m z l]. unfold all_cells.
  apply in_flat_map; exists w; split; [apply in_bools|].
  apply in_flat_map; exists k; split; [apply in_bools|].
  apply in_flat_map; exists fw; split; [destruct fw; simpl; auto|].
  apply in_flat_map; exists d; split; [apply in_bools|].
  apply in_flat_map; exists s; split; [apply in_bools|].
  apply in_flat_map; exists o; split; [apply in_bools|].
  apply in_flat_map; exists x; split; [apply in_bools|].
  apply in_flat_map; exists m; split; [apply in_bools|].
  apply in_flat_map; exists z; split; [apply in_bools|].
  apply in_map. apply in_bools.
Qed.

(* an unconditional rejection passes `completes` (and makes every `result = Ok` premise unsatisfiable) but
   not `valid_cells_complete`: the two checkers are independent *)
Lemma reject_all_checkers : (completes (Do ARaise), valid_cells_complete (Do ARaise)) = (true, false).
Proof. vm_compute. reflexivity. Qed.

(* round-4 facts about the frozen snapshot of the current tree *)
Lemma reference_round4_contracts :
  (valid_cells_complete (reference true true), ckpt_contract (reference true true),
   ckpt_contract_save_ckpt_alone (reference true true), chunk_contract (reference true true),
   mk_guard_contract (reference true true)) = (true, true, false, true, true).
Proof. vm_compute. reflexivity. Qed.

(* a reload after the last save, and a removal moved in front of the creation, are rejected (the review's
   scratch terms): the strengthened monitors are not vacuous *)
Definition ex_reload_after : eff :=
  block [Do AReload; Do AMask; Do (AWrite FInitial true); Do (AWrite FTraining false); Do AReload; Do AMask].
Definition ex_rm_first : eff :=
  block [Do AReload; Do AMask; Do (ARm RmTrain); Do (AMkChunks RmTrain)].
Definition ex_rm_last : eff :=
  block [Do AReload; Do AMask; Do (AMkChunks RmTrain); Do (ARm RmTrain)].

Lemma strengthened_monitors_reject :
  (final_config_contract ex_reload_after, final_config_contract_faults ex_reload_after,
   rm_all_paths no_excuse RmTrain ex_rm_first, rm_all_paths no_excuse RmTrain ex_rm_last)
  = (false, false, false, true).
Proof. vm_compute. reflexivity. Qed.

(* the withdrawn reading of the checkpoint clause is false of the current tree: a completed run with
   save_ckpt on, save_top_k = 0, save_last unset writes no checkpoint *)
Definition zero_ckpt_cell : cell :=
  {| c_wandb := false; c_ckpt := true; c_fw := KMem; c_delete := false; c_structured := false;
     c_offline := true; c_existing := false; c_memfb := false; c_topk0 := true; c_savelast := false |}.

Lemma ref_save_ckpt_alone_refuted :
  exists E, valid_cell (fl E) = true /\ fl E SaveCkpt = true /\ no_faults E /\
            result E (reference true true) = Ok /\
            Forall (fun a => is_write_to FCkpt a = false) (trace E (reference true true)).
Proof.
  exists (cenv (reference true true) zero_ckpt_cell None).
  split; [reflexivity|]. split; [reflexivity|]. split; [apply cenv_no_faults|].
  split; [vm_compute; reflexivity|]. vm_compute. repeat constructor.
Qed.


(* ---- (6') round 5: no empty data loader reaches Trainer.fit ------------------- *)

Definition cfg_steps_valid (cfg : option nat) : Prop := forall c, cfg = Some c -> 1 <= c.

Lemma steps_val_zero : forall s cfg n b, cfg_steps_valid cfg ->
  steps_val s cfg n b = Some 0 -> may_be_zero s = true.
Proof.
  induction s as [| | k | | a IH | a IHa d IHd]; intros cfg n b Hc H; simpl in *.
  - apply Hc in H. inversion H.
  - reflexivity.
  - inversion H. reflexivity.
  - discriminate.
  - destruct (steps_val a cfg n b) as [[|m]|]; discriminate.
  - destruct (steps_val a cfg n b) as [m|] eqn:Ea.
    + rewrite H in Ea. rewrite (IHa cfg n b Hc Ea). reflexivity.
    + rewrite (IHd cfg n b Hc H). apply orb_true_r.
Qed.

Lemma steps_positive_lemma : forall s, may_be_zero s = false ->
  forall cfg n b, cfg_steps_valid cfg -> 1 <= n -> 1 <= b -> 1 <= loader_len (steps_val s cfg n b) n b.
Proof.
  intros s Hs cfg n b Hc Hn Hb.
  destruct (steps_val s cfg n b) as [[|m]|] eqn:Ev; simpl.
  - rewrite (steps_val_zero s cfg n b Hc Ev) in Hs. discriminate.
  - apply le_n_S, Nat.le_0_l.
  - apply Nat.div_le_lower_bound; lia.
Qed.

Lemma loop_exec_Forall : forall (P : atom -> Prop) body k n,
  (forall n, Forall P (fst (fst (body n)))) -> Forall P (fst (fst (loop_exec body k n))).
Proof.
  intros P body k. induction k as [|k IH]; intros n Hb; simpl.
  - constructor.
  - specialize (Hb n) as Hn. destruct (body n) as [[t1 n1] o1]. simpl in Hn.
    destruct o1; simpl; try exact Hn.
    specialize (IH n1 Hb). destruct (loop_exec body k n1) as [[t2 n2] o2]. simpl in *.
    apply Forall_app. split; assumption.
Qed.

Lemma exec_loaders_ok : forall p, loaders_ok p = true ->
  forall E intry n, Forall (fun a => loader_ok a = true) (fst (fst (exec E intry p n))).
Proof.
  induction p as [|a IHa b IHb|a|c th IHt el IHe|id body IH|body IHb ck fin IHf]; intros H E intry n; simpl in *.
  - constructor.
  - apply andb_prop in H as [Ha Hb].
    specialize (IHa Ha E intry n). destruct (exec E intry a n) as [[t1 n1] o1]. simpl in IHa.
    destruct o1; simpl; try exact IHa.
    specialize (IHb Hb E intry n1). destruct (exec E intry b n1) as [[t2 n2] o2]. simpl in *.
    apply Forall_app. split; assumption.
  - unfold do_atom. destruct (if intry then fault E n else NoFault); simpl; try constructor.
    destruct a as [| |f c|f c|pth d|t|t| |i|k s]; simpl;
      try (constructor; [exact H|constructor]); try constructor.
    destruct d; [constructor; [exact H|constructor]|].
    destruct (fl E Structured); simpl; [constructor|constructor; [exact H|constructor]].
  - apply andb_prop in H as [Ht He]. destruct (ceval E c); [apply IHt|apply IHe]; assumption.
  - apply loop_exec_Forall. intro m. apply IH. exact H.
  - apply andb_prop in H as [Hb Hf].
    specialize (IHb Hb E true n). destruct (exec E true body n) as [[t1 n1] o1]. simpl in IHb.
    specialize (IHf Hf E intry n1). destruct (exec E intry fin n1) as [[t2 n2] o2]. simpl in *.
    apply Forall_app. split; assumption.
Qed.

Theorem loaders_never_empty_lemma : forall p, loader_steps_contract p = true ->
  forall E k s, In (ALoader k s) (trace E p) ->
  forall cfg n b, cfg_steps_valid cfg -> 1 <= n -> 1 <= b -> 1 <= loader_len (steps_val s cfg n b) n b.
Proof.
  intros p H E k s Hin cfg n b Hc Hn Hb. unfold loader_steps_contract in H. apply andb_prop in H as [Hok _].
  pose proof (exec_loaders_ok p Hok E false 0) as HF. rewrite Forall_forall in HF.
  specialize (HF _ Hin). simpl in HF. apply negb_true_iff in HF.
  exact (steps_positive_lemma s HF cfg n b Hc Hn Hb).
Qed.

Theorem loaders_built_lemma : forall p, loader_steps_contract p = true ->
  forall c, valid_cell (cell_flags c) = true -> result (cenv p c None) p = Ok ->
  exists st sv, In (ALoader LTrain st) (before_fit (trace (cenv p c None) p)) /\
                In (ALoader LVal sv) (before_fit (trace (cenv p c None) p)).
Proof.
  intros p H c Hv Hr. unfold loader_steps_contract in H. apply andb_prop in H as [_ Hb].
  unfold loaders_built in Hb. rewrite forallb_forall in Hb. specialize (Hb c (all_cells_complete c)).
  rewrite Hv, Hr in Hb. simpl in Hb. apply andb_prop in Hb as [H1 H2].
  apply existsb_exists in H1 as (a1 & Hi1 & Ha1). apply existsb_exists in H2 as (a2 & Hi2 & Ha2).
  destruct a1 as [| | | | | | | | |[|] s1]; try discriminate.
  destruct a2 as [| | | | | | | | |[|] s2]; try discriminate.
  exists s1, s2. split; assumption.
Qed.

(* the completion statement with its presumption discharged: the run ends normally (or is rejected), and every
   loader it built on the way has at least one step per epoch whatever the dataset and batch sizes *)
Theorem run_completes_with_loaders_lemma : forall p, completes p = true -> loader_steps_contract p = true ->
  forall E, valid_cell (fl E) = true -> (forall i, fault E i = NoFault) ->
  (result E p = Ok \/ result E p = ExnInvalid) /\
  (forall k s, In (ALoader k s) (trace E p) ->
   forall cfg n b, cfg_steps_valid cfg -> 1 <= n -> 1 <= b -> 1 <= loader_len (steps_val s cfg n b) n b).
Proof.
  intros p Hc Hl E Hv Hnf. split.
  - exact (run_completes_sound_lemma p Hc E Hv Hnf).
  - intros k s Hin. exact (loaders_never_empty_lemma p Hl E k s Hin).
Qed.

(* non-vacuity: the unguarded floor division is rejected, and it really is an empty loader when the batch size
   exceeds the number of samples; the guarded forms are accepted *)
Lemma unguarded_loader_rejected :
  (loaders_ok (Do (ALoader LVal StFloorDiv)), loader_len (steps_val StFloorDiv None 1 2) 1 2,
   loaders_ok (Do (ALoader LVal (StAtLeast1 StFloorDiv))), loader_len (steps_val (StAtLeast1 StFloorDiv) None 1 2) 1 2,
   loaders_ok (Do (ALoader LTrain (StIfNone StConfig StFloorDiv))),
   loader_len (steps_val (StIfNone StConfig StFloorDiv) None 2 4) 2 4,
   loader_len (steps_val StDefault None 1 2) 1 2)
  = (false, 0, true, 1, false, 0, 1).
Proof. vm_compute. reflexivity. Qed.

Lemma reference_loader_steps : forall b14 b15, loader_steps_contract (reference b14 b15) = true.
Proof. intros [|] [|]; vm_compute; reflexivity. Qed.
