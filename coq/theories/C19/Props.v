(* Props.v (C19) — statements only; proofs live in C19/Lemmas.v.

   C19: "Training runs complete and leave full artifacts that never contain
   the API key."

   Part A (once and for all, for EVERY effect term p): soundness of the boolean
   checkers.  Each is an instance of one abstract interpreter (`ai`) whose
   soundness w.r.t. the concrete semantics (`exec`) is proved for all terms,
   all flag valuations, all values of the data-dependent (opaque) conditions,
   all loop iteration counts and all fault schedules — no size bound anywhere.
   A crash point is a PREFIX of the trace.

   Part B: the same statements about `reference b14 b15`, a frozen hand-written
   snapshot of the trainer (b14/b15 = fixes F14 = 9c1a762 / F15 = 0a40184 applied
   or not).  `reference true true` is the CURRENT tree (/repo HEAD contains both
   fixes) and is tied to the generated term on every run (`same_on_cells`).
   `reference false _` / `reference _ false` are the PINNED tree before fix
   9c1a762 / 0a40184: historic variants that no code implements any more.  The
   full statements are REFUTED for them, the strongest true statements
   (`..._partial`) exclude exactly the selectors sel_F14 / sel_F15; these
   theorems document the two repaired defects (and what a regression would
   look like) and are tied to no code today (review finding 6).

   Fault model (review finding 8): external exceptions strike only INSIDE try
   bodies; the `finally` block of train() itself (`wandb.run.id`,
   `wandb.finish()`, the final `OmegaConf.save`, the removals) is fault-free in
   `exec`.  "On every path" below therefore excludes an exception raised
   inside `finally` before the final save / the removals; elsewhere an
   exception ends the process = a prefix of the trace.

   The term for the CURRENT working tree is generated on every run
   (Gen/C19_TrainerEffects.v); the per-run obligations (checker values
   recomputed by the kernel, and the instantiated consequences or refutations)
   are in the generated file Gen/C19_Obligations.v, not here. *)
From Coq Require Import List Bool.
Import ListNotations.
From SV Require Import C19.EffectIR C19.Lemmas.

(* ======================= Part A: checker soundness ======================= *)

(* the engine: what the analysis of p, entered in abstract state k, promises about any
   concrete execution entered in a monitor state s below k *)
Theorem abstract_interpreter_sound :
  forall m F extf E, agrees E F -> (extf = false -> forall i, fault E i = NoFault) ->
  forall p intry n s k, ble s k ->
  post m s (exec E intry p n) (ai m F extf intry p k).
Proof. exact ai_sound. Qed.
Print Assumptions abstract_interpreter_sound.

(* (a) the key is never persisted: if the checker accepts a term then for every flag
   valuation, every value of the opaque conditions, every loop count, every fault
   schedule and EVERY PREFIX of the trace (= every crash point), no write made so far
   contains the key *)
Theorem key_never_written_sound : forall p, key_never_written p = true ->
  forall E pre, prefix pre (trace E p) ->
  Forall (fun w => w_key w = false) (writes_of true pre).
Proof. exact key_never_written_sound_lemma. Qed.
Print Assumptions key_never_written_sound.

(* (a') the same with the writes selected by finding F14 excused: a write that contains
   the key is a write by the constructor, or happens in a run with tracking off *)
Theorem key_written_only_under_F14_sound : forall p, key_written_only_under_F14 p = true ->
  forall E pre, prefix pre (trace E p) ->
  Forall (fun w => w_key w = true -> sel_F14 (fl E) (w_file w) (w_ctor w) = true)
         (writes_of true pre).
Proof. exact key_written_only_under_F14_sound_lemma. Qed.
Print Assumptions key_written_only_under_F14_sound.

(* refutations computed from a term are real: a leaking cell is a leaking run, and the
   checker rejects the term *)
Theorem leaking_cell_is_a_leak : forall p, is_some (first_leaking_cell p) = true ->
  exists E pre, prefix pre (trace E p) /\ Exists (fun w => w_key w = true) (writes_of true pre).
Proof. exact leak_exists. Qed.
Print Assumptions leaking_cell_is_a_leak.

Theorem leaking_cell_rejected : forall p, is_some (first_leaking_cell p) = true ->
  key_never_written p = false.
Proof. exact leak_refutes_checker. Qed.
Print Assumptions leaking_cell_rejected.

(* (c1) initial_config.yaml is written while the configuration is still the one that was
   loaded (no mutation since the load), and is written on every completed rank-0 run *)
Theorem initial_config_before_any_mutation : forall p, initial_config_contract p = true ->
  forall E pre a suf, trace E p = pre ++ a :: suf -> is_write_to FInitial a = true ->
  exists p1 p2, pre = p1 ++ AReload :: p2 /\ Forall (fun b => is_set b = false) p2.
Proof. exact initial_before_mutation_lemma. Qed.
Print Assumptions initial_config_before_any_mutation.

Theorem initial_config_written : forall p, initial_config_contract p = true ->
  forall E, fl E RankZero = true -> (forall i, fault E i = NoFault) -> result E p = Ok ->
  exists a, In a (trace E p) /\ is_write_to FInitial a = true.
Proof. exact initial_written_lemma. Qed.
Print Assumptions initial_config_written.

(* (c2) on every completed rank-0 run the last write of training_config.yaml comes after
   the last mutation of the configuration (so it equals the configuration actually used).
   Round 4 (review finding 4): ... and after the last RELOAD — a term that re-loads the
   configuration after the final save is rejected too (`ex_final_and_chunk_monitors_reject`) *)
Theorem final_config_after_last_mutation : forall p, final_config_contract p = true ->
  forall E, fl E RankZero = true -> (forall i, fault E i = NoFault) -> result E p = Ok ->
  exists p1 a p2, trace E p = p1 ++ a :: p2 /\ is_write_to FTraining a = true /\
                  Forall (fun b => is_set b = false /\ is_reload b = false) p2.
Proof. exact final_after_mutation_lemma. Qed.
Print Assumptions final_config_after_last_mutation.

(* (c3) checkpoints.  Round 4 (review finding 1): the file is written by Lightning's
   `ModelCheckpoint(save_top_k, save_last)`, constructed when save_ckpt is on; "checkpointing is
   on" = `ckpt_req` = save_ckpt /\ (save_top_k <> 0 \/ save_last).  With save_ckpt on,
   save_top_k = 0 and save_last None / False the user asks for zero checkpoints (ModelCkptConfig:
   "If save_top_k == 0, no models are saved") and none is written: the round-2 theorem
   `ckpt_written_when_requested` (hypothesis `fl E SaveCkpt = true` alone) misrepresented the
   code and is WITHDRAWN; `save_ckpt_alone_refuted` shows it false of the current tree.
   EXACT condition: none unless ckpt_req (any faults); one on every completed run when ckpt_req. *)
Theorem no_ckpt_unless_requested : forall p, ckpt_contract p = true ->
  forall E, ckpt_req (fl E) = false -> Forall (fun a => is_write_to FCkpt a = false) (trace E p).
Proof. exact no_ckpt_unless_requested_lemma. Qed.
Print Assumptions no_ckpt_unless_requested.

(* its two special cases: save_ckpt off (the round-2 statement), and zero checkpoints asked for *)
Theorem no_ckpt_when_save_ckpt_off : forall p, ckpt_contract p = true ->
  forall E, fl E SaveCkpt = false -> Forall (fun a => is_write_to FCkpt a = false) (trace E p).
Proof. exact no_ckpt_when_save_ckpt_off_lemma. Qed.
Print Assumptions no_ckpt_when_save_ckpt_off.

Theorem no_ckpt_when_zero_requested : forall p, ckpt_contract p = true ->
  forall E, fl E SaveTopKZero = true -> fl E SaveLast = false ->
  Forall (fun a => is_write_to FCkpt a = false) (trace E p).
Proof. exact no_ckpt_when_zero_requested_lemma. Qed.
Print Assumptions no_ckpt_when_zero_requested.

Theorem ckpt_written_when_ckpt_req : forall p, ckpt_contract p = true ->
  forall E, ckpt_req (fl E) = true -> (forall i, fault E i = NoFault) -> result E p = Ok ->
  exists a, In a (trace E p) /\ is_write_to FCkpt a = true.
Proof. exact ckpt_written_when_requested_lemma. Qed.
Print Assumptions ckpt_written_when_ckpt_req.

(* the withdrawn reading is false of the current tree: a valid, completed run with save_ckpt on
   (save_top_k = 0, save_last unset) writes no checkpoint *)
Theorem save_ckpt_alone_refuted :
  exists E, valid_cell (fl E) = true /\ fl E SaveCkpt = true /\ (forall i, fault E i = NoFault) /\
            result E (reference true true) = Ok /\
            Forall (fun a => is_write_to FCkpt a = false) (trace E (reference true true)).
Proof. exact ref_save_ckpt_alone_refuted. Qed.
Print Assumptions save_ckpt_alone_refuted.

(* (c4) chunk directories: never removed unless requested (np_chunks framework and the
   delete flag); when requested, removed on EVERY path of a valid cell that is not an
   explicit rejection of the configuration — including every exception that strikes inside
   a try body (the deletion sits in `finally`) *)
Theorem no_chunk_deletion_unless_requested : forall p, chunk_guard_contract p = true ->
  forall E, rm_requested (fl E) = false ->
  Forall (fun a => is_rm RmTrain a = false /\ is_rm RmVal a = false) (trace E p).
Proof. exact no_rm_unless_requested_lemma. Qed.
Print Assumptions no_chunk_deletion_unless_requested.

Theorem no_chunk_deletion_unless_requested_any : forall p, chunk_guard_contract p = true ->
  forall E t, rm_req (fl E) t = false -> Forall (fun a => is_rm t a = false) (trace E p).
Proof. exact no_rm_unless_requested_any_lemma. Qed.
Print Assumptions no_chunk_deletion_unless_requested_any.

(* round 4 (review finding 2): creation of chunks is an atom (`AMkChunks t`: chunk files of kind t are
   created, or — re-use — read, by this step).  The removal comes AFTER the last such step: "no chunk
   files at exit" is a statement about create-before-remove order, not only "some removal occurs".
   A term that removes first and creates afterwards is rejected (`ex_final_and_chunk_monitors_reject`).
   Idealisation: `ARm` = `shutil.rmtree(..., ignore_errors=True)` succeeded (a failing removal is
   silent in the code).  "Every path": see the fault model in the header — not an exception raised
   inside `finally` before the removals (e.g. by `wandb.finish()`). *)
Theorem chunk_deletion_after_last_creation : forall t p, rm_all_paths no_excuse t p = true ->
  forall E, valid_cell (fl E) = true -> rm_req (fl E) t = true ->
  result E p <> ExnInvalid ->
  exists p1 a p2, trace E p = p1 ++ a :: p2 /\ is_rm t a = true /\ Forall (fun b => is_mk t b = false) p2.
Proof. exact chunk_deletion_after_last_creation_lemma. Qed.
Print Assumptions chunk_deletion_after_last_creation.

Theorem chunk_deletion_after_last_creation_unless_F15 : forall t p, rm_all_paths sel_F15 t p = true ->
  forall E, valid_cell (fl E) = true -> rm_req (fl E) t = true -> sel_F15 (fl E) = false ->
  result E p <> ExnInvalid ->
  exists p1 a p2, trace E p = p1 ++ a :: p2 /\ is_rm t a = true /\ Forall (fun b => is_mk t b = false) p2.
Proof. exact chunk_deletion_after_last_creation_unless_F15_lemma. Qed.
Print Assumptions chunk_deletion_after_last_creation_unless_F15.

(* chunk files of kind t are created only by a run that uses that kind (np framework / memory fallback
   for the np directories, litdata for the litdata ones) — any faults *)
Theorem no_chunk_creation_unless_in_use : forall p, mk_guard_contract p = true ->
  forall E t, chunks_in_use (fl E) t = false -> Forall (fun a => is_mk t a = false) (trace E p).
Proof. exact no_mk_unless_in_use_lemma. Qed.
Print Assumptions no_chunk_creation_unless_in_use.

(* THE CHUNK CLAUSE ("no chunk files when their deletion is requested"): on a valid cell with the delete
   flag, every run that is not an explicit rejection — any fault schedule — ends with no chunk files of
   any kind t, whatever was there before the run (s0; re-used chunks: s0 = true), provided the
   directories of a kind the run does not use were empty to begin with *)
Theorem no_chunks_at_exit_when_deletion_requested : forall p, chunk_contract p = true ->
  forall E, valid_cell (fl E) = true -> fl E DeleteChunks = true -> result E p <> ExnInvalid ->
  forall t s0, (chunks_in_use (fl E) t = false -> s0 = false) ->
  chunks_present s0 t (trace E p) = false.
Proof. exact no_chunks_at_exit_lemma. Qed.
Print Assumptions no_chunks_at_exit_when_deletion_requested.

(* corollaries of the two theorems above, in their round-2 form ("some removal of t occurs").
   round 2: t ranges over the np chunk directories AND the litdata ones; "requested" (`rm_req`)
   covers np chunks made by the memory fallback of an in-memory run; valid cells include litdata,
   re-used chunks, every wandb mode *)
Theorem chunk_deletion_on_all_paths : forall t p, rm_all_paths no_excuse t p = true ->
  forall E, valid_cell (fl E) = true -> rm_req (fl E) t = true ->
  result E p <> ExnInvalid ->
  exists a, In a (trace E p) /\ is_rm t a = true.
Proof. exact chunk_deletion_on_all_paths_lemma. Qed.
Print Assumptions chunk_deletion_on_all_paths.

Theorem chunk_deletion_on_all_paths_unless_F15 : forall t p, rm_all_paths sel_F15 t p = true ->
  forall E, valid_cell (fl E) = true -> rm_req (fl E) t = true -> sel_F15 (fl E) = false ->
  result E p <> ExnInvalid ->
  exists a, In a (trace E p) /\ is_rm t a = true.
Proof. exact chunk_deletion_on_all_paths_unless_F15_lemma. Qed.
Print Assumptions chunk_deletion_on_all_paths_unless_F15.

(* (d) completion: on a valid cell, without external faults, the run ends normally or by an
   explicit `raise` of the trainer (rejection) — never by another exception.
   WEAKER than "completes without error" (review finding 3): validity of the data-dependent part of
   a configuration is opaque, so an explicit rejection (ExnInvalid) is accepted here; a term that
   always rejects passes this checker (`ex_reject_all`).  The gap is closed per term by
   `valid_cells_complete` below (every valid cell ends Ok under the data valuation that the harness
   ties to real runs), recomputed on the generated term on every run (`ob_valid_cells_complete`,
   `gen_valid_cells_end_ok`), and by the harness's whitelist of the rejection sites of the source. *)
Theorem run_completes_sound : forall p, completes p = true ->
  forall E, valid_cell (fl E) = true -> (forall i, fault E i = NoFault) ->
  result E p = Ok \/ result E p = ExnInvalid.
Proof. exact run_completes_sound_lemma. Qed.
Print Assumptions run_completes_sound.

Theorem run_completes_unless_F15_sound : forall p, completes_unless_F15 p = true ->
  forall E, valid_cell (fl E) = true -> sel_F15 (fl E) = false -> (forall i, fault E i = NoFault) ->
  result E p = Ok \/ result E p = ExnInvalid.
Proof. exact run_completes_unless_F15_sound_lemma. Qed.
Print Assumptions run_completes_unless_F15_sound.

Theorem failing_cell_is_a_failure : forall p, is_some (first_failing_cell p) = true ->
  exists E, valid_cell (fl E) = true /\ (forall i, fault E i = NoFault) /\
            result E p <> Ok /\ result E p <> ExnInvalid.
Proof. exact failing_cell_exists. Qed.
Print Assumptions failing_cell_is_a_failure.

Theorem chunks_left_cell_is_a_failure : forall p, is_some (first_rm_missing_cell p) = true ->
  exists E, valid_cell (fl E) = true /\ result E p <> ExnInvalid /\
    exists t, rm_req (fl E) t = true /\ ~ (exists a, In a (trace E p) /\ is_rm t a = true).
Proof. exact rm_missing_cell_exists. Qed.
Print Assumptions chunks_left_cell_is_a_failure.

(* round 4 (review finding 3): for a term that passes `valid_cells_complete`, EVERY cell of the grid that is
   valid ends Ok, in a fault-free environment whose flags are a valid cell — the premises `result E p = Ok`,
   `valid_cell (fl E) = true`, `forall i, fault E i = NoFault` of the theorems above are jointly satisfiable
   on every valid cell (`all_cells_enumerates_every_cell`: the enumeration misses no cell) *)
Theorem valid_cells_end_ok : forall p, valid_cells_complete p = true ->
  forall c, In c all_cells -> valid_cell (cell_flags c) = true ->
  result (cenv p c None) p = Ok /\ valid_cell (fl (cenv p c None)) = true /\
  (forall i, fault (cenv p c None) i = NoFault).
Proof. exact valid_cells_complete_lemma. Qed.
Print Assumptions valid_cells_end_ok.

Theorem all_cells_enumerates_every_cell : forall c, In c all_cells.
Proof. exact all_cells_complete. Qed.
Print Assumptions all_cells_enumerates_every_cell.

(* ---- round 2 ---- *)

(* the grid of valid cells was widened, not changed: every round-1 cell (two torch_dataset
   frameworks, chunks created by the run) is a valid cell *)
Theorem valid_cells_widened : forall F, valid_cell_r1 F = true -> valid_cell F = true.
Proof. exact valid_cell_widened. Qed.
Print Assumptions valid_cells_widened.

(* (c2') with tracking on, a completed rank-0 run records the id of its tracking run in the live
   configuration, and the LAST training_config.yaml is written after that and after every other
   mutation: the final file is the configuration actually used, tracking-run id included *)
Theorem final_config_records_run_id : forall p,
  final_config_contract p = true -> run_id_contract p = true ->
  forall E, fl E RankZero = true -> fl E UseWandb = true -> (forall i, fault E i = NoFault) ->
  result E p = Ok ->
  exists p1 a p2 b p3, trace E p = p1 ++ a :: p2 ++ b :: p3 /\
    is_set_path run_id_path a = true /\ is_write_to FTraining b = true /\
    Forall (fun c => is_set c = false /\ is_reload c = false) p3.
Proof. exact final_config_records_run_id_lemma. Qed.
Print Assumptions final_config_records_run_id.

(* (c2'') the final save sits in `finally`: whatever exception strikes inside a try body (ANY
   fault schedule), a rank-0 run that is not an explicit rejection ends with
   training_config.yaml written after the last mutation *)
Theorem final_config_under_faults : forall p, final_config_contract_faults p = true ->
  forall E, fl E RankZero = true -> result E p <> ExnInvalid ->
  exists p1 a p2, trace E p = p1 ++ a :: p2 /\ is_write_to FTraining a = true /\
                  Forall (fun b => is_set b = false /\ is_reload b = false) p2.
Proof. exact final_config_under_faults_lemma. Qed.
Print Assumptions final_config_under_faults.

(* =============== Part B: the frozen snapshot `reference b14 b15` ===============
   b14 = b15 = true: the current tree.  b14 = false / b15 = false: the pinned tree BEFORE fix 9c1a762 (F14) /
   0a40184 (F15) — historic; `..._refuted` / `..._partial` / `key_leak_table_finite` below are about those
   variants, which no code implements any more (kept: they document the defects and keep the check able to
   report a regression through the same selectors). *)

(* F14 (fixed in 9c1a762) — the full statement is false of the pinned tree before the fix: some run writes the key *)
Theorem key_persisted_refuted : forall b15,
  exists E pre, prefix pre (trace E (reference false b15)) /\
                Exists (fun w => w_key w = true) (writes_of true pre).
Proof. exact ref_key_persisted_refuted. Qed.
Print Assumptions key_persisted_refuted.

(* the complete leak table of the pinned tree before fix 9c1a762 (finite domain: the 1536 cells of the grid
   {tracking, checkpointing, framework (3), delete flag, structured, wandb offline, re-used
   chunks, memory fallback, save_top_k = 0, save_last}; bound in the statement):
   initial_config.yaml and the constructor's training_config.yaml always, the chunk
   config.yaml when a chunk framework creates chunks, and — tracking off — both
   training_config.yaml writes of train() and the checkpoints (when ckpt_req) *)
Theorem key_leak_table_finite :
  length all_cells = 1536 /\
  map (leaks_of_cell (reference false true)) all_cells = map expected_leaks all_cells.
Proof. exact ref_leak_table. Qed.
Print Assumptions key_leak_table_finite.

(* strongest true statement for the pinned tree before fix 9c1a762: every leaking write falls under sel_F14 *)
Theorem key_persisted_partial : forall b15 E pre, prefix pre (trace E (reference false b15)) ->
  Forall (fun w => w_key w = true -> sel_F14 (fl E) (w_file w) (w_ctor w) = true)
         (writes_of true pre).
Proof. exact ref_key_persisted_partial. Qed.
Print Assumptions key_persisted_partial.

(* with the key blanked right after loading (fix F14 = 9c1a762, in /repo HEAD) the full statement holds *)
Theorem key_never_persisted_after_fix : forall b15 E pre, prefix pre (trace E (reference true b15)) ->
  Forall (fun w => w_key w = false) (writes_of true pre).
Proof. exact ref_key_never_persisted_after_fix. Qed.
Print Assumptions key_never_persisted_after_fix.

(* F15 (fixed in 0a40184) — completion is false of the pinned tree before the fix: a valid cell (structured,
   tracking on) ends with an exception that is not an explicit rejection *)
Theorem structured_wandb_run_completes_refuted : forall b14,
  exists E, valid_cell (fl E) = true /\ (forall i, fault E i = NoFault) /\
            result E (reference b14 false) <> Ok /\ result E (reference b14 false) <> ExnInvalid.
Proof. exact ref_completes_refuted. Qed.
Print Assumptions structured_wandb_run_completes_refuted.

Theorem run_completes_partial : forall b14 E, valid_cell (fl E) = true -> sel_F15 (fl E) = false ->
  (forall i, fault E i = NoFault) ->
  result E (reference b14 false) = Ok \/ result E (reference b14 false) = ExnInvalid.
Proof. exact ref_completes_partial. Qed.
Print Assumptions run_completes_partial.

Theorem run_completes_after_fix : forall b14 E, valid_cell (fl E) = true ->
  (forall i, fault E i = NoFault) ->
  result E (reference b14 true) = Ok \/ result E (reference b14 true) = ExnInvalid.
Proof. exact ref_completes_after_fix. Qed.
Print Assumptions run_completes_after_fix.

(* F15, second consequence: the same exception strikes inside `finally` before the chunk
   directories are removed *)
Theorem chunks_left_behind_refuted : forall b14,
  exists E, valid_cell (fl E) = true /\ result E (reference b14 false) <> ExnInvalid /\
    exists t, rm_req (fl E) t = true /\
              ~ (exists a, In a (trace E (reference b14 false)) /\ is_rm t a = true).
Proof. exact ref_chunks_left_behind. Qed.
Print Assumptions chunks_left_behind_refuted.

Theorem chunk_contract_partial : forall b14, chunk_contract_unless_F15 (reference b14 false) = true.
Proof. exact reference_chunks_partial. Qed.
Print Assumptions chunk_contract_partial.

Theorem chunk_contract_after_fix : forall b14, chunk_contract (reference b14 true) = true.
Proof. exact reference_chunks_fixed15. Qed.
Print Assumptions chunk_contract_after_fix.

(* the remaining artifact clauses hold of every variant of the snapshot (ckpt_contract: with the exact
   condition ckpt_req, round 4) *)
Theorem artifact_contract_reference : forall b14 b15,
  initial_config_contract (reference b14 b15) = true /\
  final_config_contract (reference b14 b15) = true /\
  ckpt_contract (reference b14 b15) = true.
Proof. exact reference_contracts. Qed.
Print Assumptions artifact_contract_reference.

(* round 2: the tracking-run id and the final save under faults, for the repaired snapshot *)
Theorem round2_contracts_reference : forall b14,
  run_id_contract (reference b14 true) = true /\
  final_config_contract_faults (reference b14 true) = true.
Proof. exact reference_round2_contracts. Qed.
Print Assumptions round2_contracts_reference.

(* round 4: the current tree passes the new / strengthened checkers; the withdrawn checkpoint reading fails *)
Theorem round4_contracts_reference :
  (valid_cells_complete (reference true true), ckpt_contract (reference true true),
   ckpt_contract_save_ckpt_alone (reference true true), chunk_contract (reference true true),
   mk_guard_contract (reference true true)) = (true, true, false, true, true).
Proof. exact reference_round4_contracts. Qed.
Print Assumptions round4_contracts_reference.

(* ============================ non-vacuity ================================ *)

(* the strengthened monitors reject what the review's scratch terms did: a reload after the final save
   (both final-config checkers), a removal placed before the creation; removal after creation passes *)
Example ex_final_and_chunk_monitors_reject :
  (final_config_contract ex_reload_after, final_config_contract_faults ex_reload_after,
   rm_all_paths no_excuse RmTrain ex_rm_first, rm_all_paths no_excuse RmTrain ex_rm_last)
  = (false, false, false, true).
Proof. exact strengthened_monitors_reject. Qed.

(* `completes` alone accepts a term that rejects everything; `valid_cells_complete` does not *)
Example ex_reject_all : (completes (Do ARaise), valid_cells_complete (Do ARaise)) = (true, false).
Proof. exact reject_all_checkers. Qed.

(* ckpt_req is inhabited on both sides: zero checkpoints asked for vs. last.ckpt only *)
Example ex_ckpt_req :
  (ckpt_req (cell_flags zero_ckpt_cell), valid_cell (cell_flags zero_ckpt_cell),
   ckpt_req (upd (cell_flags zero_ckpt_cell) SaveLast true)) = (false, true, true).
Proof. vm_compute. reflexivity. Qed.

(* the widened part of the grid is inhabited: a litdata cell with re-used chunks and the delete
   flag is valid, requests the deletion of the litdata directories and not of the np ones; an
   in-memory cell whose cache does not fit requests the np ones *)
Example ex_widened_cells :
  let lit := cell_flags {| c_wandb := true; c_ckpt := true; c_fw := KLit; c_delete := true;
                           c_structured := false; c_offline := false; c_existing := true; c_memfb := false;
                           c_topk0 := false; c_savelast := false |} in
  let fb := cell_flags {| c_wandb := false; c_ckpt := false; c_fw := KMem; c_delete := true;
                          c_structured := true; c_offline := true; c_existing := false; c_memfb := true;
                          c_topk0 := false; c_savelast := false |} in
  (valid_cell lit, valid_cell_r1 lit, rm_req lit RmLitTrain, rm_req lit RmTrain,
   valid_cell fb, rm_req fb RmTrain, rm_req fb RmLitVal)
  = (true, false, true, false, true, true, false).
Proof. vm_compute. reflexivity. Qed.

(* the checkers are not trivially false / true: values on the two extreme snapshots *)
Example ex_checkers_on_pinned_tree :
  (key_never_written (reference false false), key_written_only_under_F14 (reference false false),
   initial_config_contract (reference false false), final_config_contract (reference false false),
   ckpt_contract (reference false false),
   chunk_contract (reference false false), chunk_contract_unless_F15 (reference false false),
   completes (reference false false), completes_unless_F15 (reference false false))
  = (false, true, true, true, true, false, true, false, true).
Proof. exact reference_checkers_unfixed. Qed.

Example ex_checkers_on_fixed_tree :
  (key_never_written (reference true true), initial_config_contract (reference true true),
   final_config_contract (reference true true), ckpt_contract (reference true true),
   chunk_contract (reference true true), completes (reference true true))
  = (true, true, true, true, true, true).
Proof. exact reference_checkers_fixed. Qed.

(* ---- round 5: the loader-size parameters of the configuration ---------------------------------------------
   `ACall 0` ("Trainer.fit returns") presumes that the loaders handed to fit are not empty: a validation loader of
   explicit length 0 (len(dataset) // batch_size with a batch size LARGER than the number of samples, passed on
   without the `!= 0 else 1` / `max(1, .)` guard) makes Lightning skip validation, `val_loss` is never logged and
   its monitors raise.  The translator reads the steps-per-epoch expression of every loader construction into the
   term (`ALoader k s`); `loader_steps_contract` is recomputed on the generated term on every run and these theorems
   are instantiated on it (`gen_run_completes` carries the loader clause). *)
Theorem loader_steps_positive : forall s, may_be_zero s = false ->
  forall cfg n b, cfg_steps_valid cfg -> 1 <= n -> 1 <= b -> 1 <= loader_len (steps_val s cfg n b) n b.
Proof. exact steps_positive_lemma. Qed.
Print Assumptions loader_steps_positive.

Theorem loaders_never_empty : forall p, loader_steps_contract p = true ->
  forall E k s, In (ALoader k s) (trace E p) ->
  forall cfg n b, cfg_steps_valid cfg -> 1 <= n -> 1 <= b -> 1 <= loader_len (steps_val s cfg n b) n b.
Proof. exact loaders_never_empty_lemma. Qed.
Print Assumptions loaders_never_empty.

Theorem loaders_built_before_fit : forall p, loader_steps_contract p = true ->
  forall c, valid_cell (cell_flags c) = true -> result (cenv p c None) p = Ok ->
  exists st sv, In (ALoader LTrain st) (before_fit (trace (cenv p c None) p)) /\
                In (ALoader LVal sv) (before_fit (trace (cenv p c None) p)).
Proof. exact loaders_built_lemma. Qed.
Print Assumptions loaders_built_before_fit.

Theorem run_completes_with_loaders : forall p, completes p = true -> loader_steps_contract p = true ->
  forall E, valid_cell (fl E) = true -> (forall i, fault E i = NoFault) ->
  (result E p = Ok \/ result E p = ExnInvalid) /\
  (forall k s, In (ALoader k s) (trace E p) ->
   forall cfg n b, cfg_steps_valid cfg -> 1 <= n -> 1 <= b -> 1 <= loader_len (steps_val s cfg n b) n b).
Proof. exact run_completes_with_loaders_lemma. Qed.
Print Assumptions run_completes_with_loaders.

Theorem loader_steps_contract_reference : forall b14 b15, loader_steps_contract (reference b14 b15) = true.
Proof. exact reference_loader_steps. Qed.
Print Assumptions loader_steps_contract_reference.

(* the unguarded floor division is rejected and IS an empty loader for 1 sample in batches of 2 (length 0); the
   guarded form is accepted (length 1); a default that is itself unguarded is rejected (2 samples, batches of 4);
   a loader without explicit length has its own length ceil(1 / 2) = 1 *)
Example ex_unguarded_loader_rejected :
  (loaders_ok (Do (ALoader LVal StFloorDiv)), loader_len (steps_val StFloorDiv None 1 2) 1 2,
   loaders_ok (Do (ALoader LVal (StAtLeast1 StFloorDiv))), loader_len (steps_val (StAtLeast1 StFloorDiv) None 1 2) 1 2,
   loaders_ok (Do (ALoader LTrain (StIfNone StConfig StFloorDiv))),
   loader_len (steps_val (StIfNone StConfig StFloorDiv) None 2 4) 2 4,
   loader_len (steps_val StDefault None 1 2) 1 2)
  = (false, 0, true, 1, false, 0, 1).
Proof. exact unguarded_loader_rejected. Qed.
