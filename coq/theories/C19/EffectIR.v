(* EffectIR.v (C19) — definitions only (executable).

   An effect term describes, in program order, what `ModelTrainer.__init__`
   followed by `ModelTrainer.train` does to (i) the live configuration object
   `self.config` and (ii) the file system, as far as property C19 is concerned.
   The term for the current working tree of the repository is GENERATED on
   every run by translator/c19_effects2coq.py (Gen/C19_TrainerEffects.v); the
   term `reference b14 b15` at the end of this file is a frozen, hand-checked
   snapshot used for the once-and-for-all statements in Props.v:
   `reference true true` = the current tree (/repo HEAD, fixes 9c1a762 and
   0a40184 in), `reference false _` / `reference _ false` = the pinned tree
   before those fixes (historic).

   Semantics (`exec`): a run is determined by an environment `env` = a
   valuation of the named run flags, of the opaque (data-dependent) conditions,
   of loop iteration counts, and a fault schedule (external exceptions that
   may strike before any atomic effect inside a `try` body — elsewhere an
   exception simply ends the process, i.e. is a prefix of the trace; the
   `finally` block of a try is itself fault-free unless it sits inside another
   try body).  The
   result is the list of executed atomic effects (the trace), and the
   outcome.  A crash point ("the process dies between two writes") is a PREFIX
   of the trace.

   Static analysis (`ai`): a path-sensitive (on named flags) abstract
   interpretation of a two-state monitor over the trace, joined over opaque
   conditions, loop iterations and fault points.  All checkers of C19 are
   instances; soundness is proved once in Lemmas.v. *)
From Coq Require Import List Bool Arith String.
From SV Require Import Base.Render.
Import ListNotations.
Open Scope list_scope.

(* ---- vocabulary -------------------------------------------------------- *)

Inductive file :=
| FInitial      (* <save_ckpt_path>/initial_config.yaml *)
| FTraining     (* <save_ckpt_path>/training_config.yaml *)
| FChunkCfg     (* <chunks path>/config.yaml *)
| FWandbRun     (* the run configuration handed to the wandb run (wandb/<run>/files/...) *)
| FCkpt.        (* Lightning checkpoint files — `on_save_checkpoint` stores the config *)

Inductive rmt := RmTrain | RmVal | RmLitTrain | RmLitVal.

Inductive flag :=
| RankZero      (* rank is None or rank == 0 *)
| UseWandb      (* trainer_config.use_wandb *)
| SaveCkpt      (* trainer_config.save_ckpt *)
| FwTorch       (* data_pipeline_fw == "torch_dataset" *)
| FwNpChunks    (* data_pipeline_fw == "torch_dataset_np_chunks" *)
| FwLitdata     (* data_pipeline_fw == "litdata" *)
| UseExisting   (* data_config.use_existing_chunks *)
| DeleteChunks  (* data_config.delete_chunks_after_training *)
| Structured    (* the supplied config is a typed (builder-made) structured config *)
| WandbOffline  (* trainer_config.wandb.wandb_mode == "offline" (else train() logs in with the key) *)
| MemFallback   (* the in-memory cache does not fit: `_create_data_loaders_torch_dataset` switches a
                   torch_dataset run to np_chunks mid-run (chunks under ./train_chunks, ./val_chunks) *)
| SaveTopKZero  (* round 4: trainer_config.model_ckpt.save_top_k == 0 ("no models are saved") *)
| SaveLast.     (* round 4: trainer_config.model_ckpt.save_last is true (None / False = no last.ckpt) *)

Inductive cond :=
| CTrue | CFalse
| CFlag (f : flag)
| COpaque (n : nat)                 (* data-dependent condition, not interpreted *)
| CNot (c : cond) | CAnd (a b : cond) | COr (a b : cond).

(* round 5: the data loaders handed to Trainer.fit.  `steps` = the expression the trainer passes as the loader's
   `steps_per_epoch` (its explicit length): the loader-size parameters of the configuration (batch size smaller than,
   equal to or LARGER than the number of samples) enter the run through it. *)
Inductive lkind := LTrain | LVal.   (* the train loader, the validation loader *)
Inductive steps :=
| StConfig                   (* trainer_config.steps_per_epoch: None or a positive number *)
| StFloorDiv                 (* len(dataset) // batch_size *)
| StConst (k : nat)
| StDefault                  (* no explicit value: the loader's own length, ceil(len(dataset) / batch_size) *)
| StAtLeast1 (s : steps)     (* s if s != 0 else 1   /   max(1, s)   /   if s == 0: s = 1 *)
| StIfNone (a d : steps).    (* if a is None: a = d *)

Inductive atom :=
| AReload                           (* self.config := a configuration that may contain the key *)
| AMask                             (* self.config.trainer_config.wandb.api_key = "" *)
| AWrite (f : file) (ctor : bool)   (* the LIVE configuration is written into f; ctor = inside __init__ *)
| AWriteMasked (f : file) (ctor : bool)   (* a copy with the key blanked is written into f *)
| ASet (path : nat) (declared : bool)     (* mutation of the live config at `path`; declared = the
                                             field exists in the attrs schema of the structured config *)
| ARm (t : rmt)                     (* the chunk directory t is removed (if it exists).  Idealisation: the code
                                       calls `shutil.rmtree(..., ignore_errors=True)`, so a removal that fails is
                                       silent there and "done" here *)
| AMkChunks (t : rmt)               (* round 4: from here on chunk files of kind t exist — they are created by this
                                       step (dataset constructor with np_chunks / the get_bin_files subprocess) or
                                       are read by it (re-used chunks: the step fails if they are absent) *)
| ARaise                            (* explicit `raise` statement (input validation) *)
| ACall (id : nat)                  (* an external call with no modelled effect on files: a point where an
                                       external exception may strike.  id 0 = the return of Trainer.fit,
                                       id 1 = wandb.login(key=<the stashed key>) *)
| ALoader (k : lkind) (s : steps).  (* round 5: a data loader is built with explicit length s; no effect on files *)

Inductive eff :=
| Skip
| Seq (a b : eff)
| Do (a : atom)
| If (c : cond) (th el : eff)
| Loop (id : nat) (body : eff)
| Try (body : eff) (catch_ki : bool) (fin : eff).   (* try: body [except KeyboardInterrupt: pass] finally: fin *)

Definition block (l : list eff) : eff := fold_right Seq Skip l.

(* ---- concrete semantics ------------------------------------------------ *)

Inductive outcome :=
| Ok
| ExnKI          (* KeyboardInterrupt *)
| ExnOther       (* any other exception not raised by an explicit `raise` of the trainer:
                    external fault, or OmegaConf's ConfigAttributeError on an undeclared field *)
| ExnInvalid.    (* explicit `raise` (the trainer rejects the configuration) *)

Inductive xfault := NoFault | FaultKI | FaultOther.

Record env := {
  fl    : flag -> bool;
  opq   : nat -> bool;
  iters : nat -> nat;
  fault : nat -> xfault      (* fault i <> NoFault: an external exception strikes before atomic
                                step i (only inside try bodies) *)
}.

Fixpoint ceval (E : env) (c : cond) : bool :=
  match c with
  | CTrue => true | CFalse => false
  | CFlag f => fl E f
  | COpaque n => opq E n
  | CNot a => negb (ceval E a)
  | CAnd a b => ceval E a && ceval E b
  | COr a b => ceval E a || ceval E b
  end.

Definition res := (list atom * nat * outcome)%type.

Definition do_atom (E : env) (intry : bool) (a : atom) (n : nat) : res :=
  match (if intry then fault E n else NoFault) with
  | FaultKI => ([], S n, ExnKI)
  | FaultOther => ([], S n, ExnOther)
  | NoFault =>
      match a with
      | ASet _ false => if fl E Structured then ([], S n, ExnOther) else ([a], S n, Ok)
      | ARaise => ([], S n, ExnInvalid)
      | _ => ([a], S n, Ok)
      end
  end.

Fixpoint loop_exec (body : nat -> res) (k : nat) (n : nat) : res :=
  match k with
  | O => ([], n, Ok)
  | S k' =>
      let '(t1, n1, o1) := body n in
      match o1 with
      | Ok => let '(t2, n2, o2) := loop_exec body k' n1 in (t1 ++ t2, n2, o2)
      | _ => (t1, n1, o1)
      end
  end.

Fixpoint exec (E : env) (intry : bool) (p : eff) (n : nat) {struct p} : res :=
  match p with
  | Skip => ([], n, Ok)
  | Seq a b =>
      let '(t1, n1, o1) := exec E intry a n in
      match o1 with
      | Ok => let '(t2, n2, o2) := exec E intry b n1 in (t1 ++ t2, n2, o2)
      | _ => (t1, n1, o1)
      end
  | Do a => do_atom E intry a n
  | If c th el => if ceval E c then exec E intry th n else exec E intry el n
  | Loop id body => loop_exec (exec E intry body) (iters E id) n
  | Try body ck fin =>
      let '(t1, n1, o1) := exec E true body n in
      let o1' := match o1 with ExnKI => if ck then Ok else ExnKI | x => x end in
      let '(t2, n2, o2) := exec E intry fin n1 in
      (t1 ++ t2, n2, match o2 with Ok => o1' | _ => o2 end)
  end.

Definition run (E : env) (p : eff) : res := exec E false p 0.
Definition trace (E : env) (p : eff) : list atom := fst (fst (run E p)).
Definition result (E : env) (p : eff) : outcome := snd (run E p).

Definition prefix {A} (pre l : list A) : Prop := exists suf, l = pre ++ suf.

(* the writes of a trace, each with "does the written content contain the key";
   `key` = is the key in the live configuration at the start of the trace *)
Definition write := (file * bool * bool)%type.      (* file, written by __init__?, key present *)
Fixpoint writes_of (key : bool) (tr : list atom) : list write :=
  match tr with
  | [] => []
  | AReload :: r => writes_of true r
  | AMask :: r => writes_of false r
  | AWrite f c :: r => (f, c, key) :: writes_of key r
  | AWriteMasked f c :: r => (f, c, false) :: writes_of key r
  | _ :: r => writes_of key r
  end.

Definition w_key (w : write) : bool := snd w.

(* ---- two-state monitors over traces ------------------------------------ *)

Record mon := { gen : atom -> bool; kill : atom -> bool; bad : atom -> bool }.

Definition mstep (m : mon) (s : bool) (a : atom) : bool :=
  if gen m a then true else if kill m a then false else s.

Fixpoint mfinal (m : mon) (s : bool) (tr : list atom) : bool :=
  match tr with [] => s | a :: r => mfinal m (mstep m s a) r end.

(* no `bad` atom is executed while the monitor is in state `true` *)
Fixpoint mok (m : mon) (s : bool) (tr : list atom) : bool :=
  match tr with [] => true | a :: r => negb (s && bad m a) && mok m (mstep m s a) r end.

(* ---- abstract interpretation ------------------------------------------- *)

Definition av := option bool.       (* None = unreachable; Some b = reachable, monitor state <= b *)

Definition ajoin (a b : av) : av :=
  match a, b with
  | None, x => x
  | x, None => x
  | Some p, Some q => Some (p || q)
  end.

Definition reach (a : av) : bool := match a with Some _ => true | None => false end.

Fixpoint aeval (F : flag -> bool) (c : cond) : option bool :=
  match c with
  | CTrue => Some true | CFalse => Some false
  | CFlag f => Some (F f)
  | COpaque _ => None
  | CNot a => option_map negb (aeval F a)
  | CAnd a b =>
      match aeval F a, aeval F b with
      | Some false, _ => Some false
      | _, Some false => Some false
      | Some true, Some true => Some true
      | _, _ => None
      end
  | COr a b =>
      match aeval F a, aeval F b with
      | Some true, _ => Some true
      | _, Some true => Some true
      | Some false, Some false => Some false
      | _, _ => None
      end
  end.

(* result of the analysis of a term entered in abstract state k:
   ok  : no bad atom can execute in monitor state true
   nrm : state at normal exit
   xo  : state at exit by ExnKI / ExnOther
   xi  : state at exit by ExnInvalid *)
Record ares := { a_ok : bool; a_nrm : av; a_xo : av; a_xi : av }.

Definition ai_atom (m : mon) (F : flag -> bool) (extf intry : bool) (a : atom) (k : bool) : ares :=
  let xf := if extf && intry then Some k else None in
  match a with
  | ASet _ false =>
      if F Structured then {| a_ok := true; a_nrm := None; a_xo := Some k; a_xi := None |}
      else {| a_ok := negb (k && bad m a); a_nrm := Some (mstep m k a); a_xo := xf; a_xi := None |}
  | ARaise => {| a_ok := true; a_nrm := None; a_xo := xf; a_xi := Some k |}
  | _ => {| a_ok := negb (k && bad m a); a_nrm := Some (mstep m k a); a_xo := xf; a_xi := None |}
  end.

Definition ares_join (r1 r2 : ares) : ares :=
  {| a_ok := a_ok r1 && a_ok r2; a_nrm := ajoin (a_nrm r1) (a_nrm r2);
     a_xo := ajoin (a_xo r1) (a_xo r2); a_xi := ajoin (a_xi r1) (a_xi r2) |}.

Definition av_le (a : av) (k : bool) : bool :=
  match a with None => true | Some b => implb b k end.

Fixpoint ai (m : mon) (F : flag -> bool) (extf intry : bool) (p : eff) (k : bool) {struct p} : ares :=
  match p with
  | Skip => {| a_ok := true; a_nrm := Some k; a_xo := None; a_xi := None |}
  | Seq a b =>
      let r1 := ai m F extf intry a k in
      match a_nrm r1 with
      | None => r1
      | Some k1 =>
          let r2 := ai m F extf intry b k1 in
          {| a_ok := a_ok r1 && a_ok r2; a_nrm := a_nrm r2;
             a_xo := ajoin (a_xo r1) (a_xo r2); a_xi := ajoin (a_xi r1) (a_xi r2) |}
      end
  | Do a => ai_atom m F extf intry a k
  | If c th el =>
      match aeval F c with
      | Some true => ai m F extf intry th k
      | Some false => ai m F extf intry el k
      | None => ares_join (ai m F extf intry th k) (ai m F extf intry el k)
      end
  | Loop _ body =>
      let r1 := ai m F extf intry body k in
      let k2 := match a_nrm r1 with Some b => k || b | None => k end in
      let r2 := ai m F extf intry body k2 in
      {| a_ok := a_ok r2 && av_le (a_nrm r2) k2; a_nrm := Some k2; a_xo := a_xo r2; a_xi := a_xi r2 |}
  | Try body ck fin =>
      let r1 := ai m F extf true body k in
      match ajoin (a_nrm r1) (ajoin (a_xo r1) (a_xi r1)) with
      | None => r1
      | Some kj =>
          let r2 := ai m F extf intry fin kj in
          {| a_ok := a_ok r1 && a_ok r2;
             a_nrm := a_nrm r2;
             a_xo := ajoin (a_xo r2) (if reach (a_xo r1) then a_nrm r2 else None);
             a_xi := ajoin (a_xi r2) (if reach (a_xi r1) then a_nrm r2 else None) |}
      end
  end.

(* ---- enumeration of the named-flag valuations --------------------------- *)

Definition flag_eqb (a b : flag) : bool :=
  match a, b with
  | RankZero, RankZero | UseWandb, UseWandb | SaveCkpt, SaveCkpt | FwTorch, FwTorch
  | FwNpChunks, FwNpChunks | FwLitdata, FwLitdata | UseExisting, UseExisting
  | DeleteChunks, DeleteChunks | Structured, Structured | WandbOffline, WandbOffline
  | MemFallback, MemFallback | SaveTopKZero, SaveTopKZero | SaveLast, SaveLast => true
  | _, _ => false
  end.

Definition all_flags : list flag :=
  [RankZero; UseWandb; SaveCkpt; FwTorch; FwNpChunks; FwLitdata; UseExisting; DeleteChunks; Structured;
   WandbOffline; MemFallback; SaveTopKZero; SaveLast].

Definition upd (F : flag -> bool) (g : flag) (b : bool) : flag -> bool :=
  fun f => if flag_eqb f g then b else F f.

Fixpoint envs (fs : list flag) : list (flag -> bool) :=
  match fs with
  | [] => [fun _ => false]
  | g :: r => flat_map (fun F => [upd F g false; upd F g true]) (envs r)
  end.

Definition all_envs : list (flag -> bool) := envs all_flags.   (* 2^13 = 8192 valuations *)

(* a *valid cell* of the property's grid: single process; exactly one of the THREE data
   frameworks (in-memory, np chunks, litdata); chunks created by this run or — chunk frameworks
   only — re-used from an earlier run (`use_existing_chunks`); any wandb mode; the in-memory cache
   fitting or not (round 1: two frameworks, no re-use, no fallback) *)
Definition one_framework (F : flag -> bool) : bool :=
  match F FwTorch, F FwNpChunks, F FwLitdata with
  | true, false, false | false, true, false | false, false, true => true
  | _, _, _ => false
  end.

Definition valid_cell (F : flag -> bool) : bool :=
  F RankZero && one_framework F && implb (F UseExisting) (negb (F FwTorch)).

(* the round-1 grid, kept for comparison: Props.v shows valid_cell_r1 F = true -> valid_cell F = true *)
Definition valid_cell_r1 (F : flag -> bool) : bool :=
  F RankZero && negb (F UseExisting) && negb (F FwLitdata) && xorb (F FwTorch) (F FwNpChunks).

(* ---- monitors and checkers of C19 --------------------------------------- *)

Definition is_write_to (f : file) (a : atom) : bool :=
  match a, f with
  | AWrite FInitial _, FInitial | AWriteMasked FInitial _, FInitial
  | AWrite FTraining _, FTraining | AWriteMasked FTraining _, FTraining
  | AWrite FChunkCfg _, FChunkCfg | AWriteMasked FChunkCfg _, FChunkCfg
  | AWrite FWandbRun _, FWandbRun | AWriteMasked FWandbRun _, FWandbRun
  | AWrite FCkpt _, FCkpt | AWriteMasked FCkpt _, FCkpt => true
  | _, _ => false
  end.

Definition is_set (a : atom) : bool := match a with ASet _ _ => true | _ => false end.
(* the translator gives the mutation `trainer_config.wandb.run_id = ...` the reserved path number 100 *)
Definition run_id_path : nat := 100.
Definition is_set_path (n : nat) (a : atom) : bool :=
  match a with ASet m _ => Nat.eqb m n | _ => false end.
Definition is_reload (a : atom) : bool := match a with AReload => true | _ => false end.
Definition is_mask (a : atom) : bool := match a with AMask => true | _ => false end.
Definition is_rm (t : rmt) (a : atom) : bool :=
  match a, t with
  | ARm RmTrain, RmTrain | ARm RmVal, RmVal | ARm RmLitTrain, RmLitTrain | ARm RmLitVal, RmLitVal => true
  | _, _ => false
  end.
Definition is_mk (t : rmt) (a : atom) : bool :=
  match a, t with
  | AMkChunks RmTrain, RmTrain | AMkChunks RmVal, RmVal | AMkChunks RmLitTrain, RmLitTrain
  | AMkChunks RmLitVal, RmLitVal => true
  | _, _ => false
  end.
Definition never (_ : atom) : bool := false.

(* (1) the key monitor: state = "the live configuration contains the key";
   bad = writing the live configuration, unless the selector `allow` excuses this write *)
Definition key_mon (allow : file -> bool -> bool) : mon :=
  {| gen := is_reload; kill := is_mask;
     bad := fun a => match a with AWrite f c => negb (allow f c) | _ => false end |}.

Definition nothing_allowed (_ : file) (_ : bool) : bool := false.

(* selector of finding F14: a write by the constructor, or any write when tracking is off *)
Definition sel_F14 (F : flag -> bool) (f : file) (ctor : bool) : bool := ctor || negb (F UseWandb).

Definition forall_envs (P : (flag -> bool) -> bool) : bool := forallb P all_envs.

Definition key_never_written (p : eff) : bool :=
  forall_envs (fun F => a_ok (ai (key_mon nothing_allowed) F true false p true)).

Definition key_written_only_under_F14 (p : eff) : bool :=
  forall_envs (fun F => a_ok (ai (key_mon (sel_F14 F)) F true false p true)).

(* (2) initial_config.yaml is written while the configuration is still the supplied one:
   state = "mutated since (re)load, or not loaded yet" *)
Definition init_mon : mon :=
  {| gen := is_set; kill := is_reload; bad := is_write_to FInitial |}.
(* state = "initial_config.yaml not written yet" *)
Definition init_written_mon : mon :=
  {| gen := never; kill := is_write_to FInitial; bad := never |}.

(* "on every completed run (no external fault) the monitor ends in state false" *)
Definition ends_clean (m : mon) (F : flag -> bool) (p : eff) : bool :=
  let r := ai m F false false p true in a_ok r && av_le (a_nrm r) false.

Definition initial_config_contract (p : eff) : bool :=
  forall_envs (fun F => a_ok (ai init_mon F true false p true)) &&
  forall_envs (fun F => implb (F RankZero) (ends_clean init_written_mon F p)).

(* (3) the last training_config.yaml is written after the last mutation:
   state = "mutated since the last write of training_config.yaml (or never written)" *)
(* round 4 (review finding 4): a RELOAD of the configuration after the last save makes the file stale
   just like a mutation does *)
Definition changes_config (a : atom) : bool := is_set a || is_reload a.
Definition final_mon : mon :=
  {| gen := changes_config; kill := is_write_to FTraining; bad := never |}.

Definition final_config_contract (p : eff) : bool :=
  forall_envs (fun F => implb (F RankZero) (ends_clean final_mon F p)).

(* (3') with tracking on, the id of the tracking run is recorded in the live configuration on every
   completed run: state = "run_id not recorded yet" *)
Definition runid_mon : mon := {| gen := never; kill := is_set_path run_id_path; bad := never |}.

Definition run_id_contract (p : eff) : bool :=
  forall_envs (fun F => implb (F RankZero && F UseWandb) (ends_clean runid_mon F p)).

(* (3'') the final save survives every exception that strikes inside a try body: at normal exit
   AND at exit by any exception other than an explicit rejection, `final_mon` is clean *)
Definition final_config_contract_faults (p : eff) : bool :=
  forall_envs (fun F => implb (F RankZero)
     (let r := ai final_mon F true false p true in
      a_ok r && av_le (a_nrm r) false && av_le (a_xo r) false)).

(* (4) checkpoints.  The file is written by Lightning's `ModelCheckpoint(save_top_k, save_last)` callback, which the
   trainer constructs when `save_ckpt` is on: a top-k file unless `save_top_k == 0` ("If save_top_k == 0, no models
   are saved", ModelCkptConfig), a `last.ckpt` when `save_last` is true.  So "checkpointing is on" of the property
   = `ckpt_req`: `save_ckpt` AND the callback's options ask for at least one file.  `save_ckpt` with
   `save_top_k = 0` and `save_last` None / False is the user asking for ZERO checkpoints (documented option values),
   and none is written.  Contract: none unless ckpt_req (any faults); one on every completed run when ckpt_req. *)
Definition ckpt_saves (F : flag -> bool) : bool := negb (F SaveTopKZero) || F SaveLast.
Definition ckpt_req (F : flag -> bool) : bool := F SaveCkpt && ckpt_saves F.

Definition no_ckpt_mon : mon := {| gen := never; kill := never; bad := is_write_to FCkpt |}.
Definition ckpt_written_mon : mon := {| gen := never; kill := is_write_to FCkpt; bad := never |}.

Definition ckpt_contract (p : eff) : bool :=
  forall_envs (fun F => implb (negb (ckpt_req F)) (a_ok (ai no_ckpt_mon F true false p true))) &&
  forall_envs (fun F => implb (ckpt_req F) (ends_clean ckpt_written_mon F p)).

(* the round-2 reading "save_ckpt alone => a checkpoint" (withdrawn: the code does not satisfy it) *)
Definition ckpt_contract_save_ckpt_alone (p : eff) : bool :=
  forall_envs (fun F => implb (F SaveCkpt) (ends_clean ckpt_written_mon F p)).

(* (5) chunk deletion: never unless requested; when requested, on EVERY path that is not an
   explicit rejection of the configuration — normal completion and any exception, external faults
   inside try bodies included.  "Requested" for a directory t: the delete flag is on and the run
   produces / uses chunks of that kind — np chunks under the np_chunks framework or after the
   memory fallback of an in-memory run, litdata chunks under the litdata framework *)
Definition np_in_use (F : flag -> bool) : bool := F FwNpChunks || (F FwTorch && F MemFallback).

(* the run creates or re-uses chunk files of kind t *)
Definition chunks_in_use (F : flag -> bool) (t : rmt) : bool :=
  match t with RmTrain | RmVal => np_in_use F | RmLitTrain | RmLitVal => F FwLitdata end.

Definition rm_req (F : flag -> bool) (t : rmt) : bool := F DeleteChunks && chunks_in_use F t.

Definition rm_requested (F : flag -> bool) : bool := np_in_use F && F DeleteChunks.   (* = rm_req F RmTrain *)

Definition no_rm_mon_t (t : rmt) : mon := {| gen := never; kill := never; bad := is_rm t |}.
Definition no_rm_mon : mon :=
  {| gen := never; kill := never; bad := fun a => is_rm RmTrain a || is_rm RmVal a |}.
Definition rm_done_mon (t : rmt) : mon := {| gen := never; kill := is_rm t; bad := never |}.
(* round 4 (review finding 2): state = "chunk files of kind t may exist": set by every creation / use of
   chunks, cleared by the removal.  Entered in state `true` (chunks may pre-exist: re-use).  Ending in state
   `false` = the trace has a removal of t AFTER the last creation of t — not merely "some removal occurs" *)
Definition chunks_mon (t : rmt) : mon := {| gen := is_mk t; kill := is_rm t; bad := never |}.
Definition no_mk_mon_t (t : rmt) : mon := {| gen := never; kill := never; bad := is_mk t |}.
(* are chunk files of kind t present after the trace, if they were (s0) before it? *)
Definition chunks_present (s0 : bool) (t : rmt) (tr : list atom) : bool := mfinal (chunks_mon t) s0 tr.

Definition all_rmt : list rmt := [RmTrain; RmVal; RmLitTrain; RmLitVal].

(* selector of finding F15: structured config and tracking on *)
Definition sel_F15 (F : flag -> bool) : bool := F Structured && F UseWandb.

Definition rm_all_paths (excuse : (flag -> bool) -> bool) (t : rmt) (p : eff) : bool :=
  forall_envs (fun F => implb (valid_cell F && rm_req F t && negb (excuse F))
     (let r := ai (chunks_mon t) F true false p true in
      a_ok r && av_le (a_nrm r) false && av_le (a_xo r) false)).

Definition no_excuse (_ : flag -> bool) : bool := false.

Definition chunk_guard_t (t : rmt) (p : eff) : bool :=
  forall_envs (fun F => implb (negb (rm_req F t)) (a_ok (ai (no_rm_mon_t t) F true false p true))).

Definition chunk_guard_contract (p : eff) : bool := forallb (fun t => chunk_guard_t t p) all_rmt.

(* round 4: chunk files of kind t are created only by a run that uses that kind *)
Definition mk_guard_t (t : rmt) (p : eff) : bool :=
  forall_envs (fun F => implb (negb (chunks_in_use F t)) (a_ok (ai (no_mk_mon_t t) F true false p true))).

Definition mk_guard_contract (p : eff) : bool := forallb (fun t => mk_guard_t t p) all_rmt.

Definition chunk_contract (p : eff) : bool :=
  chunk_guard_contract p && mk_guard_contract p && forallb (fun t => rm_all_paths no_excuse t p) all_rmt.

Definition chunk_contract_unless_F15 (p : eff) : bool :=
  chunk_guard_contract p && mk_guard_contract p && forallb (fun t => rm_all_paths sel_F15 t p) all_rmt.

(* (6) completion: on a valid cell, without external faults, the run ends normally
   or by an explicit rejection — never by another exception *)
Definition completes_under (excuse : (flag -> bool) -> bool) (p : eff) : bool :=
  forall_envs (fun F => implb (valid_cell F && negb (excuse F))
     (let r := ai (rm_done_mon RmTrain) F false false p true in a_ok r && negb (reach (a_xo r)))).

Definition completes (p : eff) : bool := completes_under no_excuse p.
Definition completes_unless_F15 (p : eff) : bool := completes_under sel_F15 p.

(* (6') round 5: no data loader handed to Trainer.fit is EMPTY.  A loader whose explicit length is 0 makes Lightning
   skip that loop: a validation loader of length 0 never logs `val_loss`, and whatever monitors it (the top-k
   ModelCheckpoint, EarlyStopping, ReduceLROnPlateau) raises inside fit or leaves no best checkpoint — the run
   does not "complete without error".  `ACall 0` (fit returns normally) therefore PRESUMES non-empty loaders; this
   checker discharges the presumption for a term: every loader expression in it is positive for EVERY dataset size
   n >= 1, batch size b >= 1 and configured steps (None or >= 1), and every valid cell that ends Ok built a train and
   a validation loader before fit. *)
Fixpoint steps_val (s : steps) (cfg : option nat) (n b : nat) : option nat :=
  match s with
  | StConfig => cfg
  | StFloorDiv => Some (n / b)
  | StConst k => Some k
  | StDefault => None
  | StAtLeast1 a => match steps_val a cfg n b with Some 0 => Some 1 | x => x end
  | StIfNone a d => match steps_val a cfg n b with None => steps_val d cfg n b | x => x end
  end.

(* length of a loader built with explicit length v over n samples in batches of b (CyclerDataLoader.__len__) *)
Definition loader_len (v : option nat) (n b : nat) : nat :=
  match v with Some k => k | None => (n + b - 1) / b end.

Fixpoint may_be_zero (s : steps) : bool :=
  match s with
  | StFloorDiv => true
  | StConst k => Nat.eqb k 0
  | StConfig | StDefault | StAtLeast1 _ => false
  | StIfNone a d => may_be_zero a || may_be_zero d
  end.

Definition loader_ok (a : atom) : bool :=
  match a with ALoader _ s => negb (may_be_zero s) | _ => true end.

Fixpoint loaders_ok (p : eff) : bool :=
  match p with
  | Skip => true
  | Do a => loader_ok a
  | Seq a b | If _ a b | Try a _ b => loaders_ok a && loaders_ok b
  | Loop _ b => loaders_ok b
  end.

Definition is_loader (k : lkind) (a : atom) : bool :=
  match a, k with
  | ALoader LTrain _, LTrain | ALoader LVal _, LVal => true
  | _, _ => false
  end.

Fixpoint before_fit (tr : list atom) : list atom :=
  match tr with
  | [] => []
  | ACall 0 :: _ => []
  | a :: r => a :: before_fit r
  end.

(* (7) structural sanity check (no theorem attached): the observable part of the trace is a
   function of the named flags, so that the harness can compare it with a real run — every
   atom other than a declared mutation or an explicit rejection sits outside opaque
   conditions and loops *)
Fixpoint cond_named (c : cond) : bool :=
  match c with
  | COpaque _ => false
  | CNot a => cond_named a
  | CAnd a b | COr a b => cond_named a && cond_named b
  | _ => true
  end.

Fixpoint only_declared_sets (p : eff) : bool :=
  match p with
  | Skip => true
  | Seq a b => only_declared_sets a && only_declared_sets b
  | Do (ASet _ true) | Do ARaise => true
  | Do _ => false
  | If _ a b => only_declared_sets a && only_declared_sets b
  | Loop _ b => only_declared_sets b
  | Try _ _ _ => false
  end.

Fixpoint flag_determined (p : eff) : bool :=
  match p with
  | Skip | Do _ => true
  | Seq a b => flag_determined a && flag_determined b
  | If c a b => if cond_named c then flag_determined a && flag_determined b
                else only_declared_sets a && only_declared_sets b
  | Loop _ b => only_declared_sets b
  | Try a _ b => flag_determined a && flag_determined b
  end.

(* ---- cells of the grid, for the harness -------------------------------- *)

Inductive fwk := KMem | KNp | KLit.

Record cell := { c_wandb : bool; c_ckpt : bool; c_fw : fwk; c_delete : bool; c_structured : bool;
                 c_offline : bool; c_existing : bool; c_memfb : bool;
                 c_topk0 : bool; c_savelast : bool }.

Definition cell_flags (c : cell) : flag -> bool := fun f =>
  match f with
  | RankZero => true
  | UseWandb => c_wandb c
  | SaveCkpt => c_ckpt c
  | FwTorch => match c_fw c with KMem => true | _ => false end
  | FwNpChunks => match c_fw c with KNp => true | _ => false end
  | FwLitdata => match c_fw c with KLit => true | _ => false end
  | UseExisting => c_existing c
  | DeleteChunks => c_delete c
  | Structured => c_structured c
  | WandbOffline => c_offline c
  | MemFallback => c_memfb c
  | SaveTopKZero => c_topk0 c
  | SaveLast => c_savelast c
  end.

(* environment of a cell: every opaque condition has the value `ov`, loops run once; an
   optional single fault (the harness injects one at the entry of the try body / when
   Trainer.fit returns, as a RuntimeError or a KeyboardInterrupt) *)
Definition cell_env (c : cell) (ov : bool) (fault_at : option (nat * xfault)) : env :=
  {| fl := cell_flags c; opq := fun _ => ov; iters := fun _ => 1;
     fault := fun i => match fault_at with
                       | Some (j, x) => if Nat.eqb i j then x else NoFault
                       | None => NoFault end |}.

Definition bools : list bool := [false; true].

Definition all_cells : list cell :=
  flat_map (fun w => flat_map (fun k => flat_map (fun fw => flat_map (fun d => flat_map (fun s =>
  flat_map (fun o => flat_map (fun x => flat_map (fun m => flat_map (fun z => map (fun l =>
    {| c_wandb := w; c_ckpt := k; c_fw := fw; c_delete := d; c_structured := s;
       c_offline := o; c_existing := x; c_memfb := m; c_topk0 := z; c_savelast := l |})
    bools) bools) bools) bools) bools) bools) bools) [KMem; KNp; KLit]) bools) bools.

(* observable events of a trace: writes with key bits, chunk removals, the wandb login *)
Inductive obs := OWrite (f : file) (ctor key : bool) | ORm (t : rmt) | OLogin | OMk (t : rmt).

Fixpoint obs_of (key : bool) (tr : list atom) : list obs :=
  match tr with
  | [] => []
  | AReload :: r => obs_of true r
  | AMask :: r => obs_of false r
  | AWrite f c :: r => OWrite f c key :: obs_of key r
  | AWriteMasked f c :: r => OWrite f c false :: obs_of key r
  | ARm t :: r => ORm t :: obs_of key r
  | AMkChunks t :: r => OMk t :: obs_of key r
  | ACall 1 :: r => OLogin :: obs_of key r
  | _ :: r => obs_of key r
  end.

(* index of the step at which Trainer.fit returns (`ACall 0`), and of the first step inside the
   try body (the checkpoint write when checkpointing is on, else the fit call): the harness
   injects faults there; in the model a fault strikes BEFORE the step with that index *)
Fixpoint call_index (tr : list atom) : option nat :=
  match tr with
  | [] => None
  | ACall 0 :: _ => Some 0
  | _ :: r => option_map S (call_index r)
  end.

Fixpoint try_index (tr : list atom) : option nat :=
  match tr with
  | [] => None
  | ACall 0 :: _ | AWrite FCkpt _ :: _ | AWriteMasked FCkpt _ :: _ => Some 0
  | _ :: r => option_map S (try_index r)
  end.

Definition outcome_ok (o : outcome) : bool := match o with Ok => true | _ => false end.
Definition outcome_rejected (o : outcome) : bool := match o with ExnInvalid => true | _ => false end.

(* the data-dependent conditions of a VALID configuration never lead to an explicit
   rejection; the harness evaluates a cell under the uniform valuation (all true, else all
   false) that is not rejected.  (When `flag_determined` holds, opaque conditions guard only
   declared mutations and rejections, so every non-rejected valuation gives the same
   observable trace.) *)
Definition cell_opq (p : eff) (c : cell) : bool :=
  negb (outcome_rejected (snd (exec (cell_env c true None) false p 0))).

Definition cenv (p : eff) (c : cell) (fault_at : option (nat * xfault)) : env :=
  cell_env c (cell_opq p c) fault_at.

(* fault modes of the harness: 0 none; 1 / 2 = RuntimeError / KeyboardInterrupt when Trainer.fit
   returns; 3 / 4 = the same at the entry of the try body *)
Definition fault_of_mode (p : eff) (c : cell) (m : nat) : option (nat * xfault) :=
  let tr := trace (cenv p c None) p in
  match m with
  | 1 => option_map (fun i => (i, FaultOther)) (call_index tr)
  | 2 => option_map (fun i => (i, FaultKI)) (call_index tr)
  | 3 => option_map (fun i => (i, FaultOther)) (try_index tr)
  | 4 => option_map (fun i => (i, FaultKI)) (try_index tr)
  | _ => None
  end.

Definition run_cell (p : eff) (ci : cell * nat) : list obs * outcome :=
  let c := fst ci in
  let E := cenv p c (fault_of_mode p c (snd ci)) in
  (obs_of true (trace E p), result E p).

(* the leaking writes of a cell: (file, ctor) of every write whose content holds the key *)
Definition leaks_of_cell (p : eff) (c : cell) : list (file * bool) :=
  map (fun w => fst w) (filter w_key (writes_of true (trace (cenv p c None) p))).

Definition no_leak (p : eff) (c : cell) : bool :=
  match leaks_of_cell p c with [] => true | _ => false end.

(* first cell (in all_cells order) with a leak / with an outcome that is neither normal
   completion nor an explicit rejection: refutation witnesses *)
Definition first_leaking_cell (p : eff) : option cell := find (fun c => negb (no_leak p c)) all_cells.

Definition cell_completes (p : eff) (c : cell) : bool :=
  let o := result (cenv p c None) p in outcome_ok o || outcome_rejected o.

(* round 4 (review finding 3): `completes` accepts an explicit rejection (ExnInvalid) as an outcome of a valid
   cell, because the data-dependent part of validity is opaque.  This checker closes the gap for a given term:
   every valid cell, under the data valuation the harness ties to real runs (`cenv`), ends Ok — so the
   `result = Ok` premises of the artifact theorems are met on every valid cell and an unconditional or
   flag-guarded `raise` in the program is detected *)
Definition valid_cells_complete (p : eff) : bool :=
  forallb (fun c => implb (valid_cell (cell_flags c)) (outcome_ok (result (cenv p c None) p))) all_cells.

(* round 5: every valid cell that ends Ok has built a train AND a validation loader before Trainer.fit *)
Definition loaders_built (p : eff) : bool :=
  forallb (fun c => implb (valid_cell (cell_flags c) && outcome_ok (result (cenv p c None) p))
     (let pre := before_fit (trace (cenv p c None) p) in
      existsb (is_loader LTrain) pre && existsb (is_loader LVal) pre)) all_cells.

Definition loader_steps_contract (p : eff) : bool := loaders_ok p && loaders_built p.

Definition first_failing_cell (p : eff) : option cell :=
  find (fun c => valid_cell (cell_flags c) && negb (cell_completes p c)) all_cells.

(* a requested chunk deletion that does not happen although the run is not rejected *)
Definition rm_missing_t (p : eff) (c : cell) (t : rmt) : bool :=
  rm_req (cell_flags c) t && negb (outcome_rejected (result (cenv p c None) p)) &&
  negb (existsb (is_rm t) (trace (cenv p c None) p)).

Definition rm_missing (p : eff) (c : cell) : bool := existsb (rm_missing_t p c) all_rmt.

Definition first_rm_missing_cell (p : eff) : option cell :=
  find (fun c => valid_cell (cell_flags c) && rm_missing p c) all_cells.

(* two terms have the same observable behaviour on every cell and fault mode of the harness *)
Definition same_on_cells (p q : eff) : bool :=
  forallb (fun c => forallb (fun m =>
     match run_cell p (c, m), run_cell q (c, m) with
     | (o1, r1), (o2, r2) =>
         Nat.eqb (List.length o1) (List.length o2) &&
         forallb (fun ab => match ab with
                            | (OWrite f1 c1 k1, OWrite f2 c2 k2) =>
                                is_write_to f1 (AWrite f2 true) && Bool.eqb c1 c2 && Bool.eqb k1 k2
                            | (ORm t1, ORm t2) => is_rm t1 (ARm t2)
                            | (OLogin, OLogin) => true
                            | (OMk t1, OMk t2) => is_rm t1 (ARm t2)
                            | _ => false end) (combine o1 o2) &&
         match r1, r2 with Ok, Ok | ExnKI, ExnKI | ExnOther, ExnOther | ExnInvalid, ExnInvalid => true
                         | _, _ => false end
     end) [0; 1; 2; 3; 4]) all_cells.

(* ---- rendering ---------------------------------------------------------- *)
Open Scope string_scope.

Definition file_name (f : file) : string :=
  match f with FInitial => "initial" | FTraining => "training" | FChunkCfg => "chunkcfg"
             | FWandbRun => "wandbrun" | FCkpt => "ckpt" end.
Definition rmt_name (t : rmt) : string :=
  match t with RmTrain => "train_chunks" | RmVal => "val_chunks"
             | RmLitTrain => "lit_train_chunks" | RmLitVal => "lit_val_chunks" end.
Definition outcome_name (o : outcome) : string :=
  match o with Ok => "ok" | ExnKI => "keyboard_interrupt" | ExnOther => "exception" | ExnInvalid => "rejected" end.

Definition robs (o : obs) : rdr :=
  match o with
  | OWrite f c k => fun s => "[""w""," ++ rquoted (file_name f) ("," ++ rbool c ("," ++ rbool k ("]" ++ s)))
  | ORm t => fun s => "[""rm""," ++ rquoted (rmt_name t) ("]" ++ s)
  | OLogin => fun s => "[""login""]" ++ s
  | OMk t => fun s => "[""mk""," ++ rquoted (rmt_name t) ("]" ++ s)
  end.

Definition rrun (r : list obs * outcome) : rdr :=
  rpair (rlist robs) (fun o => rquoted (outcome_name o)) r.

Definition rcell (c : cell) : rdr :=
  rlist rbool [c_wandb c; c_ckpt c; match c_fw c with KNp => true | _ => false end; c_delete c; c_structured c].

(* ---- frozen snapshot of the trainer (hand-checked against the source; the per-run obligations use the
        GENERATED term, not this one; every run also has the kernel check
        `same_on_cells generated (reference true true)`) --------

   `reference true true`   = the CURRENT tree (/repo HEAD: fixes F14 = 9c1a762 and F15 = 0a40184 applied), tied to
                             the code on every run by `same_on_cells`;
   `reference false _` / `reference _ false` = the PINNED tree before fix 9c1a762 / before fix 0a40184: historic
                             variants that no code implements any more; the statements about them in Part B
                             document the two defects and are tied to no code today.

   `fixed14` = the key is blanked right after the configuration is loaded (fix F14);
   `fixed15` = WandBConfig declares `run_id` (fix F15). *)
Definition reference (fixed14 fixed15 : bool) : eff :=
  block [
    (* ---- __init__ ---- *)
    Do AReload;
    (if fixed14 then Do AMask else Skip);
    If (CAnd (COr (CFlag FwTorch) (CFlag FwNpChunks)) (CFlag UseExisting))   (* chunks to re-use must exist *)
       (block [If (CNot (COpaque 10)) (Do ARaise) Skip; If (CNot (COpaque 11)) (Do ARaise) Skip]) Skip;
    If (CFlag RankZero) (Do (AWrite FInitial true)) Skip;
    If (COpaque 0) (Do (ASet 0 true)) Skip;                  (* preprocessing.scale := 1.0 *)
    If (CFlag UseExisting) Skip (block [
      If (COpaque 1) (block [Do (ASet 1 true); Do (ASet 2 true)]) Skip;   (* max_height / max_width *)
      If (COpaque 2) (If (COpaque 3) (Do (ASet 3 true)) Skip) Skip;       (* crop_hw *)
      Do (ASet 4 true);                                                   (* data_config.skeletons := {} *)
      Loop 0 (Do (ASet 5 true))                                           (* skeletons[name] := ... *)
    ]);
    (* part_names / edges filled in from the skeleton: since fix F131 (373d053) also when chunks are re-used
       (before it this loop sat inside the branch above; the placement of these declared mutations is not
       observable and no statement of Part B depends on it) *)
    Loop 1 (block [If (COpaque 4) (If (COpaque 5) (Do (ASet 6 true)) Skip) Skip;
                   If (COpaque 6) (If (COpaque 7) (Do (ASet 7 true)) Skip) Skip]);
    If (CFlag RankZero) (Do (AWrite FTraining true)) Skip;
    If (CAnd (CNot (CFlag UseExisting)) (COr (CFlag FwLitdata) (CFlag FwNpChunks)))
       (If (CFlag RankZero) (Do (AWrite FChunkCfg true)) Skip) Skip;
    (* ---- train ---- *)
    Do (ASet 8 true);                                         (* model_config.total_params *)
    If (CFlag UseWandb) (block [
       If (CFlag WandbOffline) Skip (Do (ACall 1));           (* wandb.login(key=...) unless offline *)
       Do AMask;
       If (CFlag RankZero) (Do (AWrite FWandbRun false)) Skip]) Skip;
    If (CFlag RankZero) (Do (AWrite FTraining false)) Skip;
    (* data loaders: the litdata path runs the get_bin_files subprocess (unless chunks are re-used) and opens
       streaming datasets on the chunk directories; the torch_dataset path constructs datasets that write (or, on
       re-use, read) npz chunks when `self.np_chunks` — np framework, or in-memory framework after the fallback *)
    If (CFlag FwLitdata)
       (block [If (CFlag UseExisting) Skip (block [Do (AMkChunks RmLitTrain); Do (AMkChunks RmLitVal)]);
               Do (AMkChunks RmLitTrain); Do (AMkChunks RmLitVal);
               Do (ALoader LTrain StDefault); Do (ALoader LVal StDefault)])      (* StreamingDataLoader *)
       (If (COr (CFlag FwTorch) (CFlag FwNpChunks))
           (block [If (COr (CFlag FwNpChunks) (CAnd (CFlag FwTorch) (CFlag MemFallback)))
                      (block [Do (AMkChunks RmTrain); Do (AMkChunks RmVal)]) Skip;
                   (* round 5: CyclerDataLoader(steps_per_epoch = configured, or when None len // batch, at least 1) *)
                   Do (ALoader LTrain (StIfNone StConfig (StAtLeast1 StFloorDiv)));
                   Do (ALoader LVal (StAtLeast1 StFloorDiv))])
           (Do ARaise));
    If (COpaque 8) (If (COpaque 9) Skip (Do ARaise)) Skip;    (* unknown profiler name *)
    (* Trainer.fit: the ModelCheckpoint(save_top_k, save_last) callback exists iff save_ckpt; it writes a top-k
       file unless save_top_k == 0 and last.ckpt when save_last *)
    Try (block [If (CAnd (CFlag SaveCkpt) (COr (CNot (CFlag SaveTopKZero)) (CFlag SaveLast)))
                   (Do (AWrite FCkpt false)) Skip; Do (ACall 0)])
        true
        (block [
           If (CFlag UseWandb) (Do (ASet run_id_path fixed15)) Skip;    (* trainer_config.wandb.run_id *)
           Do (AWrite FTraining false);
           (* self.data_pipeline_fw is np_chunks from the start or since the memory fallback *)
           If (CAnd (COr (CFlag FwNpChunks) (CAnd (CFlag FwTorch) (CFlag MemFallback))) (CFlag DeleteChunks))
              (block [Do (ARm RmTrain); Do (ARm RmVal)]) Skip;
           If (CAnd (CFlag FwLitdata) (CFlag DeleteChunks))
              (block [Do (ARm RmLitTrain); Do (ARm RmLitVal)]) Skip])
  ].
