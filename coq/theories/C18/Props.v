(* Props.v (C18) — statements only.  Proofs: C18/Lemmas.v; model: C18/Pipelines.v.

   Reading.  `pipeline t f c fr` is the sample that framework f
   (Mem = torch_dataset, Npc = torch_dataset_np_chunks, Str = *_data_chunks +
   *StreamingDataset.__getitem__) returns for model type t, configuration c and
   labelled frame fr, as the data the network input and the targets are
   functions of: image size / channels / content map / value range, keypoints,
   centroids, bbox corner, and the inputs (points, H, W, sigma, stride, edges)
   of the target generators.  `same_sample a b` = all of these are EQUAL
   (Leibniz; the model normalises every rational) except the count of 8-bit
   round trips; `same_sample_centroid` leaves out sample["instances"], which the
   centroid model's targets are not drawn from.  `domain` is the property's
   domain.  All theorems are unbounded: any frame size, any number of
   instances / nodes, any NaN pattern, any rational scale > 0, any stride,
   both behaviours (c_wt) of generate_centroids' write-through (DESIGN F5). *)
From Coq Require Import List Arith ZArith QArith Qround Bool.
Import ListNotations.
From SV Require Import C01.ConfMaps C18.Pipelines C18.Lemmas.
Open Scope Q_scope.

(* ---- the definitions the statements are about, restated ---- *)
Lemma same_sample_def : forall a b, same_sample a b =
  (img_view (o_img a) = img_view (o_img b) /\ o_pts a = o_pts b /\ o_cents a = o_cents b /\
   o_tl a = o_tl b /\ o_cm a = o_cm b /\ o_paf a = o_paf b).
Proof. reflexivity. Qed.
Print Assumptions same_sample_def.

Lemma domain_def : forall t c fr, domain t c fr =
  (0 < c_scale c /\
   match t with
   | Single => f_maxinst fr = 1%nat
   | BottomUp | Centroid => True
   | Centered k => c_scale c == 1 /\ (k < length (filter nonempty (f_raw fr)))%nat
   end).
Proof. reflexivity. Qed.
Print Assumptions domain_def.

Lemma agree_def : forall t a b, agree t a b =
  match t with Centroid => same_sample_centroid a b | _ => same_sample a b end.
Proof. reflexivity. Qed.
Print Assumptions agree_def.

(* ---- (a) the three frameworks agree ---- *)

(* main theorem: in the property's domain every pair of frameworks returns the
   same sample *)
Theorem c18_frameworks_agree : forall t c fr, domain t c fr ->
  forall f1 f2, agree t (pipeline t f1 c fr) (pipeline t f2 c fr).
Proof. exact frameworks_agree. Qed.
Print Assumptions c18_frameworks_agree.

(* the .npz-cached dataset keeps the dataset's order of operations: it agrees
   with the in-memory dataset for ALL model types at ALL scales *)
Theorem c18_mem_npc_same : forall t c fr, same_sample (pipeline t Mem c fr) (pipeline t Npc c fr).
Proof. exact mem_npc_same. Qed.
Print Assumptions c18_mem_npc_same.

Theorem c18_single_mem_str : forall c fr, f_maxinst fr = 1%nat ->
  same_sample (pipeline Single Mem c fr) (pipeline Single Str c fr).
Proof. exact single_mem_str. Qed.
Print Assumptions c18_single_mem_str.

Theorem c18_bottomup_mem_str : forall c fr,
  same_sample (pipeline BottomUp Mem c fr) (pipeline BottomUp Str c fr).
Proof. exact bottomup_mem_str. Qed.
Print Assumptions c18_bottomup_mem_str.

(* centroids-then-resize (chunk function) = resize-then-centroids (dataset) *)
Theorem c18_centroid_mem_str : forall c fr, 0 < c_scale c ->
  same_sample_centroid (pipeline Centroid Mem c fr) (pipeline Centroid Str c fr).
Proof. exact centroid_mem_str. Qed.
Print Assumptions c18_centroid_mem_str.

Theorem c18_centered_mem_str_scale1 : forall c fr k,
  c_scale c == 1 -> (k < length (filter nonempty (f_raw fr)))%nat ->
  same_sample (pipeline (Centered k) Mem c fr) (pipeline (Centered k) Str c fr).
Proof. exact centered_mem_str. Qed.
Print Assumptions c18_centered_mem_str_scale1.

(* the step behind the centroid theorem: generate_centroids commutes with
   scaling by s > 0 — anchor or bbox midpoint, NaN pattern and write-through
   included *)
Theorem c18_centroid_commutes_with_scaling : forall s a wt inst, 0 < s ->
  generate_centroid a wt (map (kp_scale s) inst) =
  (kp_scale s (fst (generate_centroid a wt inst)), map (kp_scale s) (snd (generate_centroid a wt inst))).
Proof. exact generate_centroid_scale. Qed.
Print Assumptions c18_centroid_commutes_with_scaling.

(* the k-th entry of CenteredInstanceDataset's instance index list is the k-th
   non-empty instance, i.e. the k-th sample centered_instance_data_chunks yields *)
Theorem c18_instance_index_agree : forall raw k, (k < length (filter nonempty raw))%nat ->
  exists j, nth k (nonempty_positions raw O) O = j /\ nth j raw [] = nth k (filter nonempty raw) [].
Proof. exact instance_index_agree. Qed.
Print Assumptions c18_instance_index_agree.

(* hence equal confidence maps (the C01 functions of o_cm) and equal values of
   ANY function of the target inputs (PAFs: C05) *)
Theorem c18_equal_targets : forall a b, same_sample a b ->
  (forall style, confmaps_of style (o_cm a) = confmaps_of style (o_cm b)) /\
  (forall (T : Type) (F : cm_in -> T), F (o_cm a) = F (o_cm b)) /\
  (forall (T : Type) (F : option paf_in -> T), F (o_paf a) = F (o_paf b)).
Proof. exact same_sample_targets. Qed.
Print Assumptions c18_equal_targets.

Theorem c18_equal_targets_centroid : forall a b, same_sample_centroid a b ->
  (forall style, confmaps_of style (o_cm a) = confmaps_of style (o_cm b)) /\
  (forall (T : Type) (F : cm_in -> T), F (o_cm a) = F (o_cm b)).
Proof. exact same_sample_centroid_targets. Qed.
Print Assumptions c18_equal_targets_centroid.

(* ---- (c) the documented exclusion, stated so that it is not silently widened ---- *)

(* witness: centered-instance at scale 1/2 (resize->crop in the dataset,
   crop->resize->re-crop about the unscaled centroid in chunk function +
   streaming class): other size, other keypoints *)
Theorem centered_scale_ne_1_differs :
  let a := pipeline (Centered 0) Mem (wcfg (1 # 2)) wframe in
  let b := pipeline (Centered 0) Str (wcfg (1 # 2)) wframe in
  (gh (o_img a), gw (o_img a)) = (32%Z, 32%Z) /\ (gh (o_img b), gw (o_img b)) = (16%Z, 16%Z) /\
  o_pts a = [[Some (31 # 2, 31 # 2); Some (51 # 2, 51 # 2)]] /\
  o_pts b = [[Some (-7 # 2, -7 # 2); Some (13 # 2, 13 # 2)]] /\
  ~ same_sample a b.
Proof. exact centered_half_differs. Qed.
Print Assumptions centered_scale_ne_1_differs.

(* and in general: without stride padding the two network inputs have
   different sizes whenever int(crop * scale) <> crop — for every frame *)
Theorem c18_centered_scale_ne_1_sizes_differ : forall c fr k,
  (c_ms c <= 1)%Z -> Qfloor (qz (c_croph c) * c_scale c) <> c_croph c ->
  ~ same_sample (pipeline (Centered k) Mem c fr) (pipeline (Centered k) Str c fr).
Proof. exact centered_scale_ne_1_sizes_differ. Qed.
Print Assumptions c18_centered_scale_ne_1_sizes_differ.

(* the same frame at scale 1 agrees, and Mem = Npc also at scale 1/2 *)
Example ex_centered_scale_1_agrees :
  same_sample (pipeline (Centered 0) Mem (wcfg 1) wframe) (pipeline (Centered 0) Str (wcfg 1) wframe).
Proof. exact centered_one_agrees. Qed.

Example ex_centered_half_npc_agrees :
  same_sample (pipeline (Centered 0) Mem (wcfg (1 # 2)) wframe) (pipeline (Centered 0) Npc (wcfg (1 # 2)) wframe).
Proof. exact centered_half_npc_agrees. Qed.

(* non-vacuity of the centroid theorem (missing anchor, empty instance, NaN
   padding, scale 1/2); sample["instances"] is what same_sample_centroid leaves out *)
Example ex_centroid_half :
  let a := pipeline Centroid Mem (wcfg (1 # 2)) wframe2 in
  let b := pipeline Centroid Str (wcfg (1 # 2)) wframe2 in
  o_cents a = [Some (35 # 2, 45 # 2); Some (5, 5); None] /\ o_cents b = o_cents a /\
  o_cm a = o_cm b /\ o_pts a <> o_pts b.
Proof. exact centroid_half_example. Qed.

(* the hypothesis of the single-instance theorem is needed *)
Example ex_single_outside_domain_differs :
  let fr := {| f_h := 100%Z; f_w := 100%Z; f_c := 1%Z; f_raw := [[Some (30, 40); Some (50, 60)]]; f_maxinst := 2%nat |} in
  o_pts (pipeline Single Mem (wcfg 1) fr) <> o_pts (pipeline Single Str (wcfg 1) fr).
Proof. exact single_outside_domain_differs. Qed.

Example ex_smoke_bottomup :
  let a := pipeline BottomUp Str (wcfg (1 # 2)) wframe2 in
  (gh (o_img a), gw (o_img a), gc (o_img a)) = (64%Z, 64%Z, 1%Z) /\
  gx (o_img a) = {| ma := 1 # 2; mb := - (1 # 4) |} /\ o_num a = 2%nat /\ length (o_pts a) = 3%nat.
Proof. exact smoke_bottomup. Qed.

(* ---- (b) each legacy DataPipe block = its functional counterpart ---- *)

Theorem c18_dp_normalizer : forall rgb g, dp_normalizer rgb g = fn_normalizer rgb g.
Proof. exact dp_normalizer_eq. Qed.
Print Assumptions c18_dp_normalizer.

Theorem c18_dp_resizer : forall scale x, dp_resizer scale x = fn_resizer scale x.
Proof. exact dp_resizer_eq. Qed.
Print Assumptions c18_dp_resizer.

Theorem c18_dp_pad_to_stride : forall ms g, dp_pad_to_stride ms g = apply_pad_to_stride ms g.
Proof. reflexivity. Qed.
Print Assumptions c18_dp_pad_to_stride.

Theorem c18_dp_centroid_finder : forall a wt insts, dp_centroid_finder a wt insts = generate_centroids a wt insts.
Proof. reflexivity. Qed.
Print Assumptions c18_dp_centroid_finder.

(* InstanceCropper's loop = generate_crops over the first num_instances (instance, centroid) pairs *)
Theorem c18_dp_cropper : forall g bh bw num insts cents,
  dp_cropper g bh bw num O (combine insts cents) =
  map (fun ic => generate_crops g (fst ic) (snd ic) bh bw) (firstn num (combine insts cents)).
Proof. exact dp_cropper_spec. Qed.
Print Assumptions c18_dp_cropper.

Theorem c18_dp_confmaps : forall pts3 pts4 H W sigma s,
  dp_confmaps_instance pts3 H W sigma s = generate_confmaps3 pts3 H W sigma s /\
  dp_confmaps_instances pts4 H W sigma s = generate_confmaps4 pts4 H W sigma s.
Proof. intros. split; reflexivity. Qed.
Print Assumptions c18_dp_confmaps.

(* MultiConfidenceMapGenerator(centroids=False) does not slice to num_instances;
   generate_multiconfmaps does; equal because the rest is NaN padding *)
Theorem c18_dp_multiconfmaps : forall insts n_nodes H W num sigma s,
  Forall (fun i => i = repeat None n_nodes) (skipn num insts) ->
  dp_multiconfmaps [insts] n_nodes H W sigma s = generate_multiconfmaps [insts] n_nodes H W num sigma s.
Proof. exact dp_multiconfmaps_eq. Qed.
Print Assumptions c18_dp_multiconfmaps.

Theorem c18_process_lf_pads_with_nan : forall M raw,
  let '(kps, num) := process_lf M raw in
  exists n, Forall (fun i => i = repeat None n) (skipn num kps).
Proof. exact process_lf_padding. Qed.
Print Assumptions c18_process_lf_pads_with_nan.

Theorem c18_dp_multiconfmaps_centroids : forall cents H W num sigma s,
  dp_multiconfmaps_centroids cents H W num sigma s = generate_multiconfmaps_centroids cents H W num sigma s.
Proof. reflexivity. Qed.
Print Assumptions c18_dp_multiconfmaps_centroids.

Theorem c18_dp_pafs : forall kps g psigma pstride edges,
  dp_paf_inputs kps g psigma pstride edges = fn_paf_inputs kps g psigma pstride edges.
Proof. reflexivity. Qed.
Print Assumptions c18_dp_pafs.
