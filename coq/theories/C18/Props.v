(* Props.v (C18) — statements only.  Proofs: C18/Lemmas.v, Lemmas2.v, Lemmas3.v; model: C18/Pipelines.v.

   Reading.  `fpipeline t f x c fr` (round 4) is the sample that framework f
   (Mem = torch_dataset, Npc = torch_dataset_np_chunks, Str = *_data_chunks +
   *StreamingDataset.__getitem__) returns for model type t, the USER's configuration (x: both
   sources of max_height / max_width — data_config and the max_hw argument — and the two
   repair flags; c: everything else) and labelled frame fr, as the data the network input and
   the targets are functions of: image size / channels / content map / value range, keypoints,
   centroids, bbox corner, and the inputs (points, H, W, sigma, stride, edges) of the target
   generators.  `pipeline t f c fr` is the same composition once the bounds have been resolved
   (`fw_cfg`: the datasets read only the argument, the chunk functions prefer the config —
   finding F180) and max_instances fixed (`fw_frame`: finding F181).  `fw_samples kd f x c frames`
   is the list of samples of a whole label set, None = the framework raises (finding F182).
   `same_sample a b` = all observables EQUAL (Leibniz; the model normalises every rational) except
   the count of 8-bit round trips (bounded separately: c18_quantisation_count);
   `same_sample_centroid` leaves out sample["instances"], which the centroid model's targets are
   not drawn from.

   The property's clause (a) was FALSE of the tree at afd312c in three ways (c18_F180_refuted,
   c18_F181_refuted, c18_F182_refuted); F180 and F181 are repaired since (3278fb5, 30d1c17: both flags true on
   the CURRENT tree), F182 is still open; the strongest true statements are
   c18_frameworks_agree_partial / c18_samples_agree_partial under the complements of the exact,
   decidable selectors sel_F180 / sel_F181 / sel_F182 (mirrored in the Python oracle), and
   c18_frameworks_agree_repaired for the tree with both repairs (the current one).
   The two bounds are resolved PER DIMENSION (height: config height if set else argument height; width likewise,
   independently): c18_bounds_resolved_per_dimension / c18_frameworks_resolve_same_bounds /
   c18_bound_ignores_other_dimension; c18_joint_resolution_agrees_iff + c18_mixed_bounds_witness say where a rule
   that looks at both config values together would differ (exactly one of the two set).
   `domain` / c18_frameworks_agree / c18_single_mem_str ... below are the COMPONENT theorems about
   `pipeline` (all frameworks handed the same bounds; single-instance with max_instances = 1):
   `domain` is NOT the property's domain (review finding 2) — `agree_domain` is.
   All theorems are unbounded: any frame size, any number of instances / nodes, any NaN pattern,
   any rational scale > 0, any stride, both behaviours (c_wt) of generate_centroids (pinned tree
   before fix 563a1fb: write-through, F5; current tree: no write-through). *)
From Coq Require Import List Arith ZArith QArith Qround Bool.
Import ListNotations.
From SV Require Import C01.ConfMaps C18.Pipelines C18.Lemmas C18.Lemmas2 C18.Lemmas3.
Open Scope Q_scope.

(* ---- the definitions the statements are about, restated ---- *)
Lemma same_sample_def : forall a b, same_sample a b =
  (img_view (o_img a) = img_view (o_img b) /\ o_pts a = o_pts b /\ o_cents a = o_cents b /\
   o_tl a = o_tl b /\ o_cm a = o_cm b /\ o_paf a = o_paf b).
Proof. reflexivity. Qed.
Print Assumptions same_sample_def.

Lemma domain_def : forall t c fr, domain t c fr =
  (0 < c_scale c /\
   match t with
   | Single => f_maxinst fr = 1%nat
   | BottomUp | Centroid => True
   | Centered k => c_scale c == 1 /\ (k < length (filter nonempty (f_raw fr)))%nat
   end).
Proof. reflexivity. Qed.
Print Assumptions domain_def.

Lemma agree_def : forall t a b, agree t a b =
  match t with Centroid => same_sample_centroid a b | _ => same_sample a b end.
Proof. reflexivity. Qed.
Print Assumptions agree_def.

(* ---- (a) the three frameworks agree ---- *)

(* component theorem (all frameworks handed the SAME resolved bounds; `domain` demands
   max_instances = 1 for single-instance): every pair of frameworks returns the same sample.
   The property's clause is c18_frameworks_agree_partial (section (a'), below). *)
Theorem c18_frameworks_agree : forall t c fr, domain t c fr ->
  forall f1 f2, agree t (pipeline t f1 c fr) (pipeline t f2 c fr).
Proof. exact frameworks_agree. Qed.
Print Assumptions c18_frameworks_agree.

(* the .npz-cached dataset keeps the dataset's order of operations: it agrees
   with the in-memory dataset for ALL model types at ALL scales *)
Theorem c18_mem_npc_same : forall t c fr, same_sample (pipeline t Mem c fr) (pipeline t Npc c fr).
Proof. exact mem_npc_same. Qed.
Print Assumptions c18_mem_npc_same.

Theorem c18_single_mem_str : forall c fr, f_maxinst fr = 1%nat ->
  same_sample (pipeline Single Mem c fr) (pipeline Single Str c fr).
Proof. exact single_mem_str. Qed.
Print Assumptions c18_single_mem_str.

Theorem c18_bottomup_mem_str : forall c fr,
  same_sample (pipeline BottomUp Mem c fr) (pipeline BottomUp Str c fr).
Proof. exact bottomup_mem_str. Qed.
Print Assumptions c18_bottomup_mem_str.

(* centroids-then-resize (chunk function) = resize-then-centroids (dataset) *)
Theorem c18_centroid_mem_str : forall c fr, 0 < c_scale c ->
  same_sample_centroid (pipeline Centroid Mem c fr) (pipeline Centroid Str c fr).
Proof. exact centroid_mem_str. Qed.
Print Assumptions c18_centroid_mem_str.

Theorem c18_centered_mem_str_scale1 : forall c fr k,
  c_scale c == 1 -> (k < length (filter nonempty (f_raw fr)))%nat ->
  same_sample (pipeline (Centered k) Mem c fr) (pipeline (Centered k) Str c fr).
Proof. exact centered_mem_str. Qed.
Print Assumptions c18_centered_mem_str_scale1.

(* the step behind the centroid theorem: generate_centroids commutes with
   scaling by s > 0 — anchor or bbox midpoint, NaN pattern and write-through
   included *)
Theorem c18_centroid_commutes_with_scaling : forall s a wt inst, 0 < s ->
  generate_centroid a wt (map (kp_scale s) inst) =
  (kp_scale s (fst (generate_centroid a wt inst)), map (kp_scale s) (snd (generate_centroid a wt inst))).
Proof. exact generate_centroid_scale. Qed.
Print Assumptions c18_centroid_commutes_with_scaling.

(* the k-th entry of CenteredInstanceDataset's instance index list is the k-th
   non-empty instance, i.e. the k-th sample centered_instance_data_chunks yields *)
Theorem c18_instance_index_agree : forall raw k, (k < length (filter nonempty raw))%nat ->
  exists j, nth k (nonempty_positions raw O) O = j /\ nth j raw [] = nth k (filter nonempty raw) [].
Proof. exact instance_index_agree. Qed.
Print Assumptions c18_instance_index_agree.

(* _congr: hence equal confidence maps (the C01 functions of o_cm) and equal values of
   ANY function of the target inputs (PAFs: C05).  Congruence only: that the code's targets ARE
   functions of o_cm / o_paf is a harness obligation (targets regenerated with the repo's generators) *)
Theorem c18_equal_targets : forall a b, same_sample a b ->
  (forall style, confmaps_of style (o_cm a) = confmaps_of style (o_cm b)) /\
  (forall (T : Type) (F : cm_in -> T), F (o_cm a) = F (o_cm b)) /\
  (forall (T : Type) (F : option paf_in -> T), F (o_paf a) = F (o_paf b)).
Proof. exact same_sample_targets. Qed.
Print Assumptions c18_equal_targets.

Theorem c18_equal_targets_centroid : forall a b, same_sample_centroid a b ->
  (forall style, confmaps_of style (o_cm a) = confmaps_of style (o_cm b)) /\
  (forall (T : Type) (F : cm_in -> T), F (o_cm a) = F (o_cm b)).
Proof. exact same_sample_centroid_targets. Qed.
Print Assumptions c18_equal_targets_centroid.

(* ---- (c) the documented exclusion, stated so that it is not silently widened ---- *)

(* witness: centered-instance at scale 1/2 (resize->crop in the dataset,
   crop->resize->re-crop about the unscaled centroid in chunk function +
   streaming class): other size, other keypoints *)
Theorem centered_scale_ne_1_differs :
  let a := pipeline (Centered 0) Mem (wcfg (1 # 2)) wframe in
  let b := pipeline (Centered 0) Str (wcfg (1 # 2)) wframe in
  (gh (o_img a), gw (o_img a)) = (32%Z, 32%Z) /\ (gh (o_img b), gw (o_img b)) = (16%Z, 16%Z) /\
  o_pts a = [[Some (31 # 2, 31 # 2); Some (51 # 2, 51 # 2)]] /\
  o_pts b = [[Some (-7 # 2, -7 # 2); Some (13 # 2, 13 # 2)]] /\
  ~ same_sample a b.
Proof. exact centered_half_differs. Qed.
Print Assumptions centered_scale_ne_1_differs.

(* and in general: without stride padding the two network inputs have
   different sizes whenever int(crop * scale) <> crop — for every frame *)
Theorem c18_centered_scale_ne_1_sizes_differ : forall c fr k,
  (c_ms c <= 1)%Z -> Qfloor (qz (c_croph c) * c_scale c) <> c_croph c ->
  ~ same_sample (pipeline (Centered k) Mem c fr) (pipeline (Centered k) Str c fr).
Proof. exact centered_scale_ne_1_sizes_differ. Qed.
Print Assumptions c18_centered_scale_ne_1_sizes_differ.

(* the same frame at scale 1 agrees, and Mem = Npc also at scale 1/2 *)
Example ex_centered_scale_1_agrees :
  same_sample (pipeline (Centered 0) Mem (wcfg 1) wframe) (pipeline (Centered 0) Str (wcfg 1) wframe).
Proof. exact centered_one_agrees. Qed.

Example ex_centered_half_npc_agrees :
  same_sample (pipeline (Centered 0) Mem (wcfg (1 # 2)) wframe) (pipeline (Centered 0) Npc (wcfg (1 # 2)) wframe).
Proof. exact centered_half_npc_agrees. Qed.

(* non-vacuity of the centroid theorem (missing anchor, empty instance, NaN
   padding, scale 1/2); sample["instances"] is what same_sample_centroid leaves out *)
Example ex_centroid_half :
  let a := pipeline Centroid Mem (wcfg (1 # 2)) wframe2 in
  let b := pipeline Centroid Str (wcfg (1 # 2)) wframe2 in
  o_cents a = [Some (35 # 2, 45 # 2); Some (5, 5); None] /\ o_cents b = o_cents a /\
  o_cm a = o_cm b /\ o_pts a <> o_pts b.
Proof. exact centroid_half_example. Qed.

(* the hypothesis of the single-instance component theorem is needed (= finding F181, see
   c18_F181_refuted: the property has no such hypothesis) *)
Example ex_single_outside_domain_differs :
  let fr := {| f_h := 100%Z; f_w := 100%Z; f_c := 1%Z; f_raw := [[Some (30, 40); Some (50, 60)]]; f_maxinst := 2%nat |} in
  o_pts (pipeline Single Mem (wcfg 1) fr) <> o_pts (pipeline Single Str (wcfg 1) fr).
Proof. exact single_outside_domain_differs. Qed.

Example ex_smoke_bottomup :
  let a := pipeline BottomUp Str (wcfg (1 # 2)) wframe2 in
  (gh (o_img a), gw (o_img a), gc (o_img a)) = (64%Z, 64%Z, 1%Z) /\
  gx (o_img a) = {| ma := 1 # 2; mb := - (1 # 4) |} /\ o_num a = 2%nat /\ length (o_pts a) = 3%nat.
Proof. exact smoke_bottomup. Qed.

(* ---- (b) each legacy DataPipe block = its functional counterpart ---- *)

Theorem c18_dp_normalizer : forall rgb g, dp_normalizer rgb g = fn_normalizer rgb g.
Proof. exact dp_normalizer_eq. Qed.
Print Assumptions c18_dp_normalizer.

Theorem c18_dp_resizer : forall scale x, dp_resizer scale x = fn_resizer scale x.
Proof. exact dp_resizer_eq. Qed.
Print Assumptions c18_dp_resizer.

Theorem c18_dp_pad_to_stride : forall ms g, dp_pad_to_stride ms g = apply_pad_to_stride ms g.
Proof. reflexivity. Qed.
Print Assumptions c18_dp_pad_to_stride.

Theorem c18_dp_centroid_finder : forall a wt insts, dp_centroid_finder a wt insts = generate_centroids a wt insts.
Proof. reflexivity. Qed.
Print Assumptions c18_dp_centroid_finder.

(* InstanceCropper's loop = generate_crops over the first num_instances (instance, centroid) pairs *)
Theorem c18_dp_cropper : forall g bh bw num insts cents,
  dp_cropper g bh bw num O (combine insts cents) =
  map (fun ic => generate_crops g (fst ic) (snd ic) bh bw) (firstn num (combine insts cents)).
Proof. exact dp_cropper_spec. Qed.
Print Assumptions c18_dp_cropper.

(* _def: the cm / mcm / ccm block models are C01's functions by definition; their tie to the
   blocks' code is the oracle (block kinds cm, mcm, ccm) and C01's own tie *)
Theorem c18_dp_confmaps : forall pts3 pts4 H W sigma s,
  dp_confmaps_instance pts3 H W sigma s = generate_confmaps3 pts3 H W sigma s /\
  dp_confmaps_instances pts4 H W sigma s = generate_confmaps4 pts4 H W sigma s.
Proof. intros. split; reflexivity. Qed.
Print Assumptions c18_dp_confmaps.

(* MultiConfidenceMapGenerator(centroids=False) does not slice to num_instances;
   generate_multiconfmaps does; equal because the rest is NaN padding *)
Theorem c18_dp_multiconfmaps : forall insts n_nodes H W num sigma s,
  Forall (fun i => i = repeat None n_nodes) (skipn num insts) ->
  dp_multiconfmaps [insts] n_nodes H W sigma s = generate_multiconfmaps [insts] n_nodes H W num sigma s.
Proof. exact dp_multiconfmaps_eq. Qed.
Print Assumptions c18_dp_multiconfmaps.

Theorem c18_process_lf_pads_with_nan : forall M raw,
  let '(kps, num) := process_lf M raw in
  exists n, Forall (fun i => i = repeat None n) (skipn num kps).
Proof. exact process_lf_padding. Qed.
Print Assumptions c18_process_lf_pads_with_nan.

Theorem c18_dp_multiconfmaps_centroids : forall cents H W num sigma s,
  dp_multiconfmaps_centroids cents H W num sigma s = generate_multiconfmaps_centroids cents H W num sigma s.
Proof. reflexivity. Qed.
Print Assumptions c18_dp_multiconfmaps_centroids.

(* _def: the two are the same term (the inputs of the PAF generator); the block's own inline
   filter is modelled separately: c18_dp_paf_filter below *)
Theorem c18_dp_pafs : forall kps g psigma pstride edges,
  dp_paf_inputs kps g psigma pstride edges = fn_paf_inputs kps g psigma pstride edges.
Proof. reflexivity. Qed.
Print Assumptions c18_dp_pafs.

(* PartAffinityFieldsGenerator's inline copy of the in-image filter + get_edge_points (what its
   make_multi_pafs call receives) = generate_pafs's; both evaluated against the code (block kind paf) *)
Theorem c18_dp_paf_filter : forall g insts edges,
  dp_paf_points g insts edges = fn_paf_points (gh g) (gw g) insts edges.
Proof. exact dp_paf_points_eq. Qed.
Print Assumptions c18_dp_paf_filter.

(* what the filter keeps: the animals with a labelled node in the closed pixel rectangle
   [0, W-1] x [0, H-1] (NaN nodes never count) *)
Theorem c18_paf_keep_spec : forall H W insts i,
  In i (filter (existsb (node_in_img H W)) insts) <->
  In i insts /\ exists x y, In (Some (x, y)) i /\ 0 <= x /\ x <= qz (W - 1) /\ 0 <= y /\ y <= qz (H - 1).
Proof. exact paf_keep_spec. Qed.
Print Assumptions c18_paf_keep_spec.

(* process_lf's NaN padding rows never reach make_multi_pafs *)
Theorem c18_paf_padding_dropped : forall H W l n k edges,
  fn_paf_points H W (l ++ repeat (repeat None n) k) edges = fn_paf_points H W l edges.
Proof. exact paf_padding_dropped. Qed.
Print Assumptions c18_paf_padding_dropped.

Example ex_paf_filter :
  fst (fn_paf_points 10 20 [[Some (19, 5); Some (25, 12)]; [Some (77 # 4, 10); Some (20, 5)]; [None; None]] [(0, 1)%nat])
    = [[Some (19, 5)]] /\
  dp_paf_points (wsrc 10 20) [[Some (19, 5); Some (25, 12)]; [Some (77 # 4, 10); Some (20, 5)]; [None; None]] [(0, 1)%nat]
    = ([[Some (19, 5)]], [[Some (25, 12)]]).
Proof. exact paf_example. Qed.

(* ---- (b', round 2) the blocks the property does not list, and the composed legacy pipelines ---- *)

Lemma sm_pad_only_def : forall c fr, sm_pad_only c fr =
  (exists mh mw, c_maxh c = Some mh /\ c_maxw c = Some mw /\
     (0 < f_h fr <= mh)%Z /\ (0 < f_w fr <= mw)%Z /\ (f_h fr = mh \/ f_w fr = mw)).
Proof. reflexivity. Qed.
Print Assumptions sm_pad_only_def.

Lemma reader_ok_def : forall fr, reader_ok fr =
  (f_maxinst fr <> 1%nat \/ length (filter nonempty (f_raw fr)) = 1%nat).
Proof. reflexivity. Qed.
Print Assumptions reader_ok_def.

(* SizeMatcher (pads, raises on larger images) vs apply_sizematcher (rescales to fit): NOT
   counterparts in general (DESIGN 5/C18) — they coincide exactly where both only pad:
   a source image with the target size in one direction, not larger in the other *)
Theorem c18_dp_sizematcher_pad_only : forall mh mw g, gx g = aid -> gy g = aid ->
  (0 < gh g <= mh)%Z -> (0 < gw g <= mw)%Z -> (gh g = mh \/ gw g = mw) ->
  apply_sizematcher (Some mh) (Some mw) g = (img_pad_to mh mw g, 1) /\
  dp_sizematcher (Some mh) (Some mw) g = Some (img_pad_to mh mw g).
Proof. exact sizematcher_pad_only. Qed.
Print Assumptions c18_dp_sizematcher_pad_only.

Theorem c18_dp_sizematcher_raises : forall mh mw g,
  dp_sizematcher (Some mh) (Some mw) g = None <-> (mh < gh g \/ mw < gw g)%Z.
Proof. exact dp_sizematcher_raises. Qed.
Print Assumptions c18_dp_sizematcher_raises.

(* dp_sizematcher is ONE step of the block from its current state (a None bound = not fixed yet);
   the stateful iteration is dp_sizematcher_run: c18_dp_sizematcher_run_* below *)
Theorem c18_dp_sizematcher_keeps_map : forall mh mw g g', dp_sizematcher mh mw g = Some g' ->
  gx g' = gx g /\ gy g' = gy g.
Proof. exact dp_sizematcher_keeps_map. Qed.
Print Assumptions c18_dp_sizematcher_keeps_map.

(* witness of the difference: 50x50 into 100x100 — block pads (content map unchanged),
   function upscales by 2 (content map x -> 2x + 1/2, eff_scale 2) *)
Theorem c18_dp_sizematcher_differs :
  let f := fst (apply_sizematcher (Some 100%Z) (Some 100%Z) (wsrc 50 50)) in
  exists b, dp_sizematcher (Some 100%Z) (Some 100%Z) (wsrc 50 50) = Some b /\
    (gh b, gw b) = (100%Z, 100%Z) /\ (gh f, gw f) = (100%Z, 100%Z) /\
    gx b = aid /\ gx f = {| ma := 2; mb := 1 # 2 |} /\
    snd (apply_sizematcher (Some 100%Z) (Some 100%Z) (wsrc 50 50)) = 2.
Proof. exact dp_sizematcher_differs. Qed.
Print Assumptions c18_dp_sizematcher_differs.

(* LabelsReaderDP always NaN-pads by |max_instances - num|; process_lf skips that when
   max_instances = 1: equal unless max_instances = 1 and the frame has not exactly one instance *)
Theorem c18_dp_labels_reader : forall M raw,
  M <> 1%nat \/ length (filter nonempty raw) = 1%nat -> dp_labels_reader M raw = process_lf M raw.
Proof. exact dp_labels_reader_eq. Qed.
Print Assumptions c18_dp_labels_reader.

(* the reader keeps a frame iff it has a user instance (or the filter is off); a frame with
   predicted instances only is dropped by the reader and kept, unfiltered, by the functions *)
Theorem c18_dp_reader_keeps : forall uo insts, dp_reader_keeps uo insts = true <->
  (uo = false \/ exists i, In i insts /\ is_user i = true).
Proof. exact dp_reader_keeps_spec. Qed.
Print Assumptions c18_dp_reader_keeps.

Theorem c18_dp_reader_drops_predicted_only : forall insts, existsb is_user insts = false ->
  user_filter true insts = map snd insts /\ dp_reader_keeps true insts = false.
Proof. exact user_filter_predicted_only. Qed.
Print Assumptions c18_dp_reader_drops_predicted_only.

(* the COMPOSED legacy pipelines (pipelines.py, augmentation off) return the in-memory dataset's
   sample wherever the size matchers coincide (sm_pad_only) and the reader's padding is
   process_lf's (reader_ok); keypoints given in lowest terms.  Any scale, stride, anchor, NaN pattern. *)
Theorem c18_dp_single_pipeline : forall c fr, sm_pad_only c fr -> reader_ok fr -> insts_normal (f_raw fr) ->
  dp_pipeline Single c fr = Some (pipeline Single Mem c fr).
Proof. exact dp_single_eq. Qed.
Print Assumptions c18_dp_single_pipeline.

Theorem c18_dp_centroid_pipeline : forall c fr, sm_pad_only c fr -> reader_ok fr -> insts_normal (f_raw fr) ->
  dp_pipeline Centroid c fr = Some (pipeline Centroid Mem c fr).
Proof. exact dp_centroid_eq. Qed.
Print Assumptions c18_dp_centroid_pipeline.

(* bottom-up: same image, keypoints, PAF inputs; the confidence-map generator of the legacy
   pipeline is fed ALL rows (no [:num] slice) ... *)
Theorem c18_dp_bottomup_pipeline : forall c fr, sm_pad_only c fr -> reader_ok fr -> insts_normal (f_raw fr) ->
  exists o, dp_pipeline BottomUp c fr = Some o /\
    let d := pipeline BottomUp Mem c fr in
    o_img o = o_img d /\ o_pts o = o_pts d /\ o_num o = o_num d /\ o_paf o = o_paf d /\
    o_cm o = (o_pts d, gh (o_img d), gw (o_img d), c_sigma c, c_stride c) /\
    o_cm d = (firstn (o_num d) (o_pts d), gh (o_img d), gw (o_img d), c_sigma c, c_stride c).
Proof. exact dp_bottomup_eq. Qed.
Print Assumptions c18_dp_bottomup_pipeline.

(* ... and yet produces the same confidence maps (the C01 function), because the extra rows are NaN padding *)
Theorem c18_dp_bottomup_confmaps : forall c fr, sm_pad_only c fr -> reader_ok fr -> insts_normal (f_raw fr) ->
  (0 < length (filter nonempty (f_raw fr)))%nat ->
  exists o, dp_pipeline BottomUp c fr = Some o /\
    confmaps_of false (o_cm o) = confmaps_of false (o_cm (pipeline BottomUp Mem c fr)).
Proof. exact dp_bottomup_confmaps. Qed.
Print Assumptions c18_dp_bottomup_confmaps.

(* top-down at scale 1: one crop about the centroid = the dataset's sqrt-2 over-crop followed by the
   re-crop (image, keypoints, centroid, confidence-map inputs; "instance_bbox" is expressed in the frame
   by the block and in the over-crop by the dataset, so o_tl is left out — see ex_dp_pipelines) *)
Theorem c18_dp_topdown_pipeline_scale1 : forall c fr k,
  c_scale c == 1 -> (k < length (filter nonempty (f_raw fr)))%nat ->
  sm_pad_only c fr -> insts_normal (f_raw fr) ->
  exists o, dp_pipeline (Centered k) c fr = Some o /\
    let d := pipeline (Centered k) Mem c fr in
    o_img o = o_img d /\ o_pts o = o_pts d /\ o_cents o = o_cents d /\ o_cm o = o_cm d.
Proof. exact dp_topdown_eq. Qed.
Print Assumptions c18_dp_topdown_pipeline_scale1.

Theorem c18_double_crop : forall g inst cent B1 B2 h w,
  let big := generate_crops g inst cent B1 B2 in
  let r2 := generate_crops (cr_img big) (cr_inst big) (cr_cent big) h w in
  let r1 := generate_crops g inst cent h w in
  cr_img r2 = cr_img r1 /\ cr_inst r2 = cr_inst r1 /\ cr_cent r2 = cr_cent r1.
Proof. exact double_crop. Qed.
Print Assumptions c18_double_crop.

(* non-vacuity (hypotheses met: scale 1/2 single, 3/4 centroid on a 100x80 RGB frame padded to 100x100,
   top-down at scale 1), and what lies outside: top-down at scale 1/2 (crop then resize: 16x16 vs the
   dataset's 32x32), a frame smaller in both directions (block pads, function rescales: other keypoints),
   a frame larger than the target (block raises) *)
Example ex_dp_pipelines :
  dp_single (wcfg (1 # 2)) wframe = Some (ds_single (wcfg (1 # 2)) wframe false) /\
  dp_centroid (wcfg (3 # 4)) wframe3 = Some (ds_centroid (wcfg (3 # 4)) wframe3 false) /\
  (exists o, dp_topdown (wcfg 1) wframe3 1 = Some o /\
     o_img o = o_img (ds_centered (wcfg 1) wframe3 false 1) /\
     o_pts o = [[Some (31 # 2, 31 # 2); None; None]] /\
     o_tl o = Some (-11 # 2, -11 # 2) /\ o_tl (ds_centered (wcfg 1) wframe3 false 1) = Some (13 # 2, 13 # 2)) /\
  (exists o, dp_topdown (wcfg (1 # 2)) wframe 0 = Some o /\ (gh (o_img o), gw (o_img o)) = (16%Z, 16%Z) /\
     (gh (o_img (ds_centered (wcfg (1 # 2)) wframe false 0)), gw (o_img (ds_centered (wcfg (1 # 2)) wframe false 0))) = (32%Z, 32%Z)) /\
  (exists o, dp_bottomup (wcfg 1) {| f_h := 50%Z; f_w := 50%Z; f_c := 1%Z; f_raw := [[Some (30, 40); Some (20, 10)]]; f_maxinst := 1%nat |} = Some o /\
     o_pts o = [[Some (30, 40); Some (20, 10)]] /\
     o_pts (ds_bottomup (wcfg 1) {| f_h := 50%Z; f_w := 50%Z; f_c := 1%Z; f_raw := [[Some (30, 40); Some (20, 10)]]; f_maxinst := 1%nat |} false)
       = [[Some (60, 80); Some (40, 20)]]) /\
  dp_single (wcfg 1) {| f_h := 120%Z; f_w := 100%Z; f_c := 1%Z; f_raw := [[Some (30, 40)]]; f_maxinst := 1%nat |} = None.
Proof. exact dp_examples. Qed.

(* ---- (a', round 4) the user's configuration: per-framework resolution, selectors, label sets ---- *)

Lemma agree_domain_def : forall t c fr, agree_domain t c fr =
  (0 < c_scale c /\
   match t with
   | Centered k => c_scale c == 1 /\ (k < length (filter nonempty (f_raw fr)))%nat
   | _ => True
   end).
Proof. reflexivity. Qed.
Print Assumptions agree_domain_def.

Lemma fpipeline_def : forall t f x c fr, fpipeline t f x c fr = pipeline t f (fw_cfg f x c) (fw_frame t f x fr).
Proof. reflexivity. Qed.
Print Assumptions fpipeline_def.

Lemma sel_F180_def : forall x fr, sel_F180 x fr =
  negb ((odef (f_h fr) (ds_maxh x) =? odef (f_h fr) (st_maxh x))%Z && (odef (f_w fr) (ds_maxw x) =? odef (f_w fr) (st_maxw x))%Z).
Proof. reflexivity. Qed.
Print Assumptions sel_F180_def.

Lemma sel_F181_def : forall t x fr, sel_F181 t x fr =
  match t with
  | Single => negb (x_fx181 x) && negb (f_maxinst fr =? 1)%nat && negb (f_maxinst fr =? length (filter nonempty (f_raw fr)))%nat
  | _ => false
  end.
Proof. reflexivity. Qed.
Print Assumptions sel_F181_def.

(* the property's clause (a), strongest true form on a tree WITHOUT the repairs 3278fb5 / 30d1c17 (historic since): outside the two selectors
   every pair of frameworks returns the same sample (all types at scale 1; single, centroid,
   bottom-up at any scale) *)
Theorem c18_frameworks_agree_partial : forall t x c fr,
  agree_domain t c fr -> sel_F180 x fr = false -> sel_F181 t x fr = false ->
  forall f1 f2, agree t (fpipeline t f1 x c fr) (fpipeline t f2 x c fr).
Proof. exact fframeworks_agree_partial. Qed.
Print Assumptions c18_frameworks_agree_partial.

(* with proposed_fixes/C18_F180.diff and C18_F181.diff: no side condition *)
Theorem c18_frameworks_agree_repaired : forall t x c fr,
  x_fx180 x = true -> x_fx181 x = true -> agree_domain t c fr ->
  forall f1 f2, agree t (fpipeline t f1 x c fr) (fpipeline t f2 x c fr).
Proof. exact fframeworks_agree_repaired. Qed.
Print Assumptions c18_frameworks_agree_repaired.

(* Mem = Npc needs no condition at all (same class, same arguments) *)
Theorem c18_fmem_npc_same : forall t x c fr, same_sample (fpipeline t Mem x c fr) (fpipeline t Npc x c fr).
Proof. exact fpipeline_mem_npc. Qed.
Print Assumptions c18_fmem_npc_same.

(* ---- round 6: max_height and max_width are resolved PER DIMENSION (each independently None / set) ---- *)
Lemma resolve_max_def : forall cfgv argv, resolve_max cfgv argv = match cfgv with Some v => Some v | None => argv end.
Proof. reflexivity. Qed.
Print Assumptions resolve_max_def.

(* every framework (chunk functions always; dataset classes on the repaired tree) hands apply_sizematcher
   `config height if set else argument height` and, separately, `config width if set else argument width` *)
Theorem c18_bounds_resolved_per_dimension : forall f x c, x_fx180 x = true ->
  c_maxh (fw_cfg f x c) = resolve_max (x_cfgh x) (x_argh x) /\
  c_maxw (fw_cfg f x c) = resolve_max (x_cfgw x) (x_argw x).
Proof. exact fw_bounds_per_dimension. Qed.
Print Assumptions c18_bounds_resolved_per_dimension.

Theorem c18_chunk_bounds_resolved_per_dimension : forall x c,
  c_maxh (fw_cfg Str x c) = resolve_max (x_cfgh x) (x_argh x) /\
  c_maxw (fw_cfg Str x c) = resolve_max (x_cfgw x) (x_argw x).
Proof. exact str_bounds_per_dimension. Qed.
Print Assumptions c18_chunk_bounds_resolved_per_dimension.

(* all combinations of the four sources (each None or set): the same two bounds in every framework *)
Theorem c18_frameworks_resolve_same_bounds : forall f1 f2 x c, x_fx180 x = true ->
  c_maxh (fw_cfg f1 x c) = c_maxh (fw_cfg f2 x c) /\ c_maxw (fw_cfg f1 x c) = c_maxw (fw_cfg f2 x c).
Proof. exact fw_bounds_same. Qed.
Print Assumptions c18_frameworks_resolve_same_bounds.

(* the height bound does not depend on the width's sources, and vice versa *)
Theorem c18_bound_ignores_other_dimension : forall f x x' c c',
  x_fx180 x = true -> x_fx180 x' = true ->
  (x_cfgh x = x_cfgh x' -> x_argh x = x_argh x' -> c_maxh (fw_cfg f x c) = c_maxh (fw_cfg f x' c')) /\
  (x_cfgw x = x_cfgw x' -> x_argw x = x_argw x' -> c_maxw (fw_cfg f x c) = c_maxw (fw_cfg f x' c')).
Proof. exact fw_bound_ignores_other_dimension. Qed.
Print Assumptions c18_bound_ignores_other_dimension.

(* the all-or-nothing rule `joint_max` (config pair only when BOTH are set, else max_hw; no framework's rule)
   coincides with the per-dimension rule exactly off the mixed configurations *)
Lemma joint_max_def : forall x, joint_max x =
  match x_cfgh x, x_cfgw x with Some h, Some w => (Some h, Some w) | _, _ => (x_argh x, x_argw x) end.
Proof. reflexivity. Qed.
Print Assumptions joint_max_def.

Theorem c18_joint_resolution_agrees_iff : forall x,
  joint_max x = (st_maxh x, st_maxw x) <->
  ((x_cfgh x = None <-> x_cfgw x = None) \/
   (x_cfgw x = None /\ x_cfgh x = x_argh x) \/
   (x_cfgh x = None /\ x_cfgw x = x_argw x)).
Proof. exact joint_max_agrees_iff. Qed.
Print Assumptions c18_joint_resolution_agrees_iff.

(* non-vacuity, exactly ONE config value set (64x64 frame, argument 64x64): max_height 128 / max_width None ->
   every framework pads to 128x64; max_height None / max_width 32 -> every framework scales by 1/2 to 64x32;
   all frameworks agree (all four types); a chunk function with the all-or-nothing rule would not *)
Theorem c18_mixed_bounds_witness :
  let fr := wframe64 [[Some (20, 30); Some (40, 44)]] 1%nat in
  let xa := wxm (Some 128%Z) None in
  let xb := wxm None (Some 32%Z) in
  (forall f, osize (fpipeline Single f xa wcfg0 fr) = (128%Z, 64%Z) /\
             o_pts (fpipeline Single f xa wcfg0 fr) = [[Some (20, 30); Some (40, 44)]]) /\
  (forall f, osize (fpipeline Single f xb wcfg0 fr) = (64%Z, 32%Z) /\
             o_pts (fpipeline Single f xb wcfg0 fr) = [[Some (10, 15); Some (20, 22)]]) /\
  joint_max xa = (Some 64%Z, Some 64%Z) /\ joint_max xb = (Some 64%Z, Some 64%Z) /\
  (forall f x, x = xa \/ x = xb ->
     osize (pipeline Single f (set_max wcfg0 (fst (joint_max x)) (snd (joint_max x))) fr) = (64%Z, 64%Z) /\
     o_pts (pipeline Single f (set_max wcfg0 (fst (joint_max x)) (snd (joint_max x))) fr) = [[Some (20, 30); Some (40, 44)]]) /\
  (forall t, t = Single \/ t = BottomUp \/ t = Centroid \/ t = Centered 0 ->
     forall x, x = xa \/ x = xb ->
     agree_domain t wcfg0 fr /\
     (forall f1 f2, agree t (fpipeline t f1 x wcfg0 fr) (fpipeline t f2 x wcfg0 fr))) /\
  (forall t, t = Single \/ t = BottomUp \/ t = Centroid ->
     ~ agree t (fpipeline t Mem xa wcfg0 fr)
               (pipeline t Str (set_max wcfg0 (fst (joint_max xa)) (snd (joint_max xa))) fr)) /\
  (forall t, t = Single \/ t = BottomUp \/ t = Centroid \/ t = Centered 0 ->
     ~ agree t (fpipeline t Mem xb wcfg0 fr)
               (pipeline t Str (set_max wcfg0 (fst (joint_max xb)) (snd (joint_max xb))) fr)).
Proof. exact mixed_bounds_witness. Qed.
Print Assumptions c18_mixed_bounds_witness.

(* where the F180 selector cannot fire: config bounds unset, or equal to the argument, or repaired *)
Theorem c18_sel_F180_off : forall x fr,
  (x_cfgh x = None /\ x_cfgw x = None) \/ (x_cfgh x = x_argh x /\ x_cfgw x = x_argw x) \/ x_fx180 x = true ->
  sel_F180 x fr = false.
Proof.
  intros x fr [[A B]|[[A B]|A]]; [now apply cfg_none_no_selector|now apply cfg_eq_arg_no_selector|now apply fx180_no_selector].
Qed.
Print Assumptions c18_sel_F180_off.

(* F180 refuted: 64x64 frame, data_config max 128, max_hw argument 64 (what ModelTrainer passes):
   the datasets keep 64x64, the chunk functions scale to 128x128 (keypoints x 2) — every model type *)
Theorem c18_F180_refuted :
  let fr := wframe64 [[Some (20, 30); Some (40, 44)]] 1%nat in
  let x := wx (Some 128%Z) (Some 64%Z) in
  agree_domain Single wcfg0 fr /\ sel_F180 x fr = true /\ sel_F181 Single x fr = false /\
  (gh (o_img (fpipeline Single Mem x wcfg0 fr)), gw (o_img (fpipeline Single Mem x wcfg0 fr))) = (64%Z, 64%Z) /\
  (gh (o_img (fpipeline Single Str x wcfg0 fr)), gw (o_img (fpipeline Single Str x wcfg0 fr))) = (128%Z, 128%Z) /\
  o_pts (fpipeline Single Mem x wcfg0 fr) = [[Some (20, 30); Some (40, 44)]] /\
  o_pts (fpipeline Single Str x wcfg0 fr) = [[Some (40, 60); Some (80, 88)]] /\
  (forall t, t = Single \/ t = BottomUp \/ t = Centroid \/ t = Centered 0 ->
     ~ agree t (fpipeline t Mem x wcfg0 fr) (fpipeline t Str x wcfg0 fr)).
Proof. exact F180_witness. Qed.
Print Assumptions c18_F180_refuted.

(* exactness: whenever the selector fires, the images differ in size right after size matching *)
Theorem c18_sel_F180_sizes_differ : forall x c fr, sel_F180 x fr = true ->
  let a := fst (apply_sizematcher (ds_maxh x) (ds_maxw x) (prep_img c (source_img fr))) in
  let b := fst (apply_sizematcher (st_maxh x) (st_maxw x) (prep_img c (source_img fr))) in
  (gh a, gw a) <> (gh b, gw b).
Proof. exact sel_F180_sizes_differ. Qed.
Print Assumptions c18_sel_F180_sizes_differ.

(* F181 refuted: one user instance + one predicted instance, user_instances_only:
   get_max_instances = 2 -> SingleInstanceDataset returns 2 rows / 4 channels, the chunk path 1 / 2 *)
Theorem c18_F181_refuted :
  let fr := wframe64 [[Some (20, 30); Some (40, 44)]] 2%nat in
  let x := wx None (Some 64%Z) in
  agree_domain Single wcfg0 fr /\ sel_F180 x fr = false /\ sel_F181 Single x fr = true /\
  length (o_pts (fpipeline Single Mem x wcfg0 fr)) = 2%nat /\
  length (o_pts (fpipeline Single Str x wcfg0 fr)) = 1%nat /\
  (let '(p, _, _, _, _) := o_cm (fpipeline Single Mem x wcfg0 fr) in map (@length kp) p) = [4%nat] /\
  (let '(p, _, _, _, _) := o_cm (fpipeline Single Str x wcfg0 fr) in map (@length kp) p) = [2%nat] /\
  ~ agree Single (fpipeline Single Mem x wcfg0 fr) (fpipeline Single Str x wcfg0 fr).
Proof. exact F181_witness. Qed.
Print Assumptions c18_F181_refuted.

Theorem c18_sel_F181_rows_differ : forall x c fr, sel_F181 Single x fr = true ->
  length (o_pts (fpipeline Single Mem x c fr)) <> length (o_pts (fpipeline Single Str x c fr)).
Proof. exact sel_F181_rows_differ. Qed.
Print Assumptions c18_sel_F181_rows_differ.

(* label sets (review finding 3): which frames yield samples, how many, and that they agree *)
Lemma fw_samples_def : forall kd f x c frames, fw_samples kd f x c frames =
  match f with
  | Str => if existsb frame_empty frames then None else Some (flat_map (frame_samples kd Str x c) frames)
  | _ => Some (flat_map (fun fr => if frame_empty fr then [] else frame_samples kd f x c fr) frames)
  end.
Proof. reflexivity. Qed.
Print Assumptions fw_samples_def.

Theorem c18_samples_agree_partial : forall kd x c frames,
  kind_domain kd c -> sel_F182 frames = false ->
  Forall (fun fr => sel_F180 x fr = false /\ kind_sel_F181 kd x fr = false) frames ->
  forall f1 f2, exists l1 l2,
    fw_samples kd f1 x c frames = Some l1 /\ fw_samples kd f2 x c frames = Some l2 /\
    Forall2 (kind_agree kd) l1 l2.
Proof. exact samples_agree_partial. Qed.
Print Assumptions c18_samples_agree_partial.

(* a framework raises iff it is the chunk path and some frame has no non-empty instance *)
Theorem c18_samples_raise_iff : forall kd f x c frames,
  fw_samples kd f x c frames = None <-> (f = Str /\ sel_F182 frames = true).
Proof. exact fw_samples_raises. Qed.
Print Assumptions c18_samples_raise_iff.

Theorem c18_sel_F182_spec : forall frames,
  sel_F182 frames = true <-> exists fr, In fr frames /\ filter nonempty (f_raw fr) = [].
Proof. exact sel_F182_spec. Qed.
Print Assumptions c18_sel_F182_spec.

(* F182 refuted: such a label set is served by the datasets (frame skipped) and makes the chunk path raise *)
Theorem c18_F182_refuted : forall kd x c frames, sel_F182 frames = true ->
  fw_samples kd Str x c frames = None /\
  (exists l, fw_samples kd Mem x c frames = Some l) /\ (exists l, fw_samples kd Npc x c frames = Some l).
Proof. exact empty_frame_differs. Qed.
Print Assumptions c18_F182_refuted.

(* the enumeration the harness evaluates (fw_counts) is the length profile of fw_samples *)
Theorem c18_samples_counts : forall kd f x c frames,
  option_map (@length out) (fw_samples kd f x c frames) = option_map list_sum (fw_counts kd f frames).
Proof. exact fw_samples_counts. Qed.
Print Assumptions c18_samples_counts.

(* centered-instance: sample k of a frame exists iff k < #non-empty instances, in every framework *)
Theorem c18_centered_samples : forall fr t, In t (frame_types KCentered fr) <->
  exists k, t = Centered k /\ (k < length (filter nonempty (f_raw fr)))%nat.
Proof. exact frame_types_centered. Qed.
Print Assumptions c18_centered_samples.

Example ex_F182_counts :
  let frames := [wframe64 [[Some (20, 30); Some (40, 44)]] 1%nat; wframe64 [] 1%nat;
                 wframe64 [[None; None]] 1%nat] in
  sel_F182 frames = true /\
  fw_counts KBottomUp Mem frames = Some [1; 0; 0]%nat /\ fw_counts KBottomUp Npc frames = Some [1; 0; 0]%nat /\
  fw_counts KBottomUp Str frames = None /\ fw_counts KCentered Mem frames = Some [1; 0; 0]%nat.
Proof. exact F182_witness. Qed.

(* ---- "up to 8-bit quantisation": exactly how many round trips (review finding 8) ---- *)
Theorem c18_quantisation_count : forall t f x c fr,
  gq (o_img (fpipeline t f x c fr)) = match f with Mem => 0%nat | _ => 1%nat end.
Proof. exact fquantisation_count. Qed.
Print Assumptions c18_quantisation_count.

(* ---- SizeMatcher as the stateful iteration it is (review finding 5) ---- *)
Theorem c18_dp_sizematcher_run_step : forall mh mw g t,
  dp_sizematcher_run mh mw (g :: t) =
  match dp_sizematcher mh mw g with
  | None => ([], true)
  | Some g' => let r := dp_sizematcher_run (Some (odef (gh g) mh)) (Some (odef (gw g) mw)) t in (g' :: fst r, snd r)
  end.
Proof. exact dp_sizematcher_run_step. Qed.
Print Assumptions c18_dp_sizematcher_run_step.

Theorem c18_dp_sizematcher_run_some : forall mh mw gs,
  Forall (fun g => gh g = mh /\ gw g = mw) (fst (dp_sizematcher_run (Some mh) (Some mw) gs)) /\
  (snd (dp_sizematcher_run (Some mh) (Some mw) gs) = false <->
   Forall (fun g => dp_sizematcher (Some mh) (Some mw) g <> None) gs) /\
  (snd (dp_sizematcher_run (Some mh) (Some mw) gs) = false ->
   map Some (fst (dp_sizematcher_run (Some mh) (Some mw) gs)) = map (dp_sizematcher (Some mh) (Some mw)) gs).
Proof. exact dp_sizematcher_run_some. Qed.
Print Assumptions c18_dp_sizematcher_run_some.

(* a None bound is fixed by the FIRST image: widths 30, 24, 40 with max_width None -> 30, 30, raise *)
Theorem c18_dp_sizematcher_latch :
  let gs := [wsrc 20 30; wsrc 20 24; wsrc 20 40] in
  map (fun g => gw g) (fst (dp_sizematcher_run (Some 20%Z) None gs)) = [30%Z; 30%Z] /\
  snd (dp_sizematcher_run (Some 20%Z) None gs) = true /\
  map (fun g => option_map (fun g' => gw g') (dp_sizematcher (Some 20%Z) None g)) gs = [Some 30%Z; Some 24%Z; Some 40%Z].
Proof. exact dp_sizematcher_latch. Qed.
Print Assumptions c18_dp_sizematcher_latch.
