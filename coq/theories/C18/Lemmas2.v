(* Lemmas2.v (C18, round 2) — proofs about the remaining legacy blocks
   (SizeMatcher, LabelsReaderDP) and the four composed legacy pipelines of
   pipelines.py against the dataset classes.  Statements: C18/Props.v. *)
From Coq Require Import List Arith ZArith QArith Qround Bool Lia.
Import ListNotations.
From SV Require Import C01.ConfMaps C18.Pipelines C18.Lemmas.
Open Scope Q_scope.

Arguments qn : simpl never.
Arguments Qred : simpl never.
Arguments Z.mul : simpl never.
Arguments Z.add : simpl never.
Arguments Z.modulo : simpl never.
Arguments Z.sub : simpl never.

(* ------------------------------------------------------------------ *)
(* small arithmetic                                                    *)

Lemma qn_eq a b : a == b -> qn a = qn b.
Proof. intro H. unfold qn. now apply Qred_complete. Qed.

Lemma qn_one a : a == 1 -> qn a = 1.
Proof. intro H. rewrite (qn_eq a 1 H). reflexivity. Qed.

Lemma qn_zero a : a == 0 -> qn a = 0.
Proof. intro H. rewrite (qn_eq a 0 H). reflexivity. Qed.

Lemma round_half_even_Z q z : q == inject_Z z -> round_half_even q = z.
Proof.
  intro H. unfold round_half_even.
  assert (Hf : Qfloor q = z) by (rewrite H; apply Qfloor_Z).
  rewrite Hf.
  assert (Hc : (q - inject_Z z ?= half) = Lt).
  { apply -> Qlt_alt. rewrite H. unfold half. ring_simplify. reflexivity. }
  now rewrite Hc.
Qed.

Lemma qz_div_self z : (0 < z)%Z -> qz z / qz z == 1.
Proof.
  intro H. unfold qz. apply Qmult_inv_r. intro E.
  assert (inject_Z 0 < inject_Z z) by (rewrite <- Zlt_Qlt; exact H).
  rewrite E in H0. now apply Qlt_irrefl in H0.
Qed.

Lemma qz_div_ge1 a b : (0 < b <= a)%Z -> 1 <= qz a / qz b.
Proof.
  intros [H0 H1]. unfold qz.
  assert (Hb : 0 < inject_Z b) by (change 0 with (inject_Z 0); rewrite <- Zlt_Qlt; exact H0).
  apply Qle_shift_div_l; [exact Hb|]. rewrite Qmult_1_l. now rewrite <- Zle_Qle.
Qed.

(* ------------------------------------------------------------------ *)
(* normal forms: scaling by the size matcher's eff_scale = 1 is the identity *)

Lemma kp_scale_1 p : kp_normal p -> kp_scale 1 p = p.
Proof.
  destruct p as [[x y]|]; [|reflexivity]. intros [Hx Hy]. unfold kp_scale.
  rewrite (qn_eq (1 * x) x), (qn_eq (1 * y) y) by ring. unfold qn. now rewrite Hx, Hy.
Qed.

Lemma map_kp_scale_1 l : Forall kp_normal l -> map (kp_scale 1) l = l.
Proof. induction 1 as [|p l Hp _ IH]; [reflexivity|]. simpl. now rewrite kp_scale_1, IH. Qed.

Lemma scale_insts_1 l : insts_normal l -> scale_insts 1 l = l.
Proof.
  unfold scale_insts. induction 1 as [|i l Hi _ IH]; [reflexivity|]. simpl.
  now rewrite map_kp_scale_1, IH.
Qed.

Lemma Forall_filter {A} (P : A -> Prop) f l : Forall P l -> Forall P (filter f l).
Proof.
  induction 1 as [|x l Hx _ IH]; [constructor|]. simpl. destruct (f x); [constructor|]; assumption.
Qed.

Lemma Forall_repeat {A} (P : A -> Prop) x n : P x -> Forall P (repeat x n).
Proof. intro H. induction n; simpl; constructor; assumption. Qed.

Lemma process_lf_normal M raw : insts_normal raw -> insts_normal (fst (process_lf M raw)).
Proof.
  intro H. unfold process_lf, insts_normal. cbn [fst].
  destruct (M =? 1)%nat; [now apply Forall_filter|].
  apply Forall_app. split; [now apply Forall_filter|].
  apply Forall_repeat, Forall_repeat. exact I.
Qed.

Lemma nth_normal raw j : insts_normal raw -> Forall kp_normal (nth j raw []).
Proof.
  intro H. destruct (Nat.lt_ge_cases j (length raw)) as [Hl|Hl].
  - eapply Forall_forall in H; [exact H|]. now apply nth_In.
  - rewrite nth_overflow by exact Hl. constructor.
Qed.

(* ------------------------------------------------------------------ *)
(* SizeMatcher (block) against apply_sizematcher (function)            *)

Lemma set_size_id g : set_size (gh g) (gw g) g = g.
Proof. destruct g; reflexivity. Qed.

Lemma a_scale_one r : r == 1 -> a_scale r aid = aid.
Proof.
  intro H. unfold a_scale, aid. cbn [ma mb]. f_equal.
  - apply qn_one. rewrite H. ring.
  - apply qn_zero. rewrite H. unfold half. ring.
Qed.

(* where both only pad: source images (identity content map) that already have
   the target size in one direction and are not larger in the other *)
Lemma sizematcher_pad_only mh mw g : gx g = aid -> gy g = aid ->
  (0 < gh g <= mh)%Z -> (0 < gw g <= mw)%Z -> (gh g = mh \/ gw g = mw) ->
  apply_sizematcher (Some mh) (Some mw) g = (img_pad_to mh mw g, 1) /\
  dp_sizematcher (Some mh) (Some mw) g = Some (img_pad_to mh mw g).
Proof.
  intros Hx Hy Hh Hw Hor. split.
  - unfold apply_sizematcher.
    destruct ((gh g =? mh)%Z && (gw g =? mw)%Z)%bool eqn:E.
    + apply andb_prop in E. destruct E as [E1 E2]. apply Z.eqb_eq in E1, E2. subst mh mw.
      unfold img_pad_to. now rewrite set_size_id.
    + set (hr := qz mh / qz (gh g)). set (wr := qz mw / qz (gw g)).
      assert (Hhr : 1 <= hr) by (apply qz_div_ge1; lia).
      assert (Hwr : 1 <= wr) by (apply qz_div_ge1; lia).
      assert (Hone : hr == 1 \/ wr == 1).
      { destruct Hor as [Ho|Ho]; [left; unfold hr|right; unfold wr]; rewrite <- Ho; apply qz_div_self; lia. }
      assert (He : (if Qle_bool hr wr then hr else wr) == 1).
      { destruct (Qle_bool hr wr) eqn:B.
        - apply Qle_bool_iff in B. destruct Hone as [H|H]; [exact H|].
          apply Qle_antisym; [|exact Hhr]. now rewrite <- H.
        - assert (Hlt : wr < hr).
          { apply Qnot_le_lt. intro C. apply Qle_bool_iff in C. congruence. }
          destruct Hone as [H|H]; [|exact H]. exfalso.
          rewrite H in Hlt. apply (Qlt_not_le _ _ Hlt). exact Hwr. }
      set (eff := if Qle_bool hr wr then hr else wr) in *.
      rewrite (round_half_even_Z (qz (gh g) * eff) (gh g)) by (rewrite He; unfold qz; ring).
      rewrite (round_half_even_Z (qz (gw g) * eff) (gw g)) by (rewrite He; unfold qz; ring).
      rewrite (qn_one eff He). f_equal.
      unfold img_pad_to, img_resize_to, set_size. cbn [gh gw gc gx gy gfloat gq].
      rewrite Hx, Hy. rewrite !a_scale_one by (apply qz_div_self; lia).
      reflexivity.
  - unfold dp_sizematcher.
    destruct (mh <? gh g)%Z eqn:E1; [apply Z.ltb_lt in E1; lia|].
    destruct (mw <? gw g)%Z eqn:E2; [apply Z.ltb_lt in E2; lia|]. reflexivity.
Qed.

(* the block raises exactly when the image exceeds a bound; the function never does *)
Lemma dp_sizematcher_raises mh mw g :
  dp_sizematcher (Some mh) (Some mw) g = None <-> (mh < gh g \/ mw < gw g)%Z.
Proof.
  unfold dp_sizematcher. split.
  - destruct (mh <? gh g)%Z eqn:E1; [left; now apply Z.ltb_lt|].
    destruct (mw <? gw g)%Z eqn:E2; [right; now apply Z.ltb_lt|]. discriminate.
  - intros [H|H]; apply Z.ltb_lt in H; rewrite H; [reflexivity|]. now rewrite orb_true_r.
Qed.

(* the block never changes the content map; the function does as soon as it
   resizes: witness 50x50 into 100x100 (block: pad, function: upscale x2) *)
Lemma dp_sizematcher_keeps_map mh mw g g' : dp_sizematcher mh mw g = Some g' ->
  gx g' = gx g /\ gy g' = gy g.
Proof.
  unfold dp_sizematcher. destruct (_ || _)%bool; [discriminate|]. intro H. injection H as <-. now split.
Qed.

Definition wsrc (h w : Z) : geom :=
  {| gh := h; gw := w; gc := 1; gx := aid; gy := aid; gfloat := true; gq := O |}.

Lemma dp_sizematcher_differs :
  let f := fst (apply_sizematcher (Some 100%Z) (Some 100%Z) (wsrc 50 50)) in
  exists b, dp_sizematcher (Some 100%Z) (Some 100%Z) (wsrc 50 50) = Some b /\
    (gh b, gw b) = (100%Z, 100%Z) /\ (gh f, gw f) = (100%Z, 100%Z) /\
    gx b = aid /\ gx f = {| ma := 2; mb := 1 # 2 |} /\
    snd (apply_sizematcher (Some 100%Z) (Some 100%Z) (wsrc 50 50)) = 2.
Proof. eexists. repeat split; vm_compute; reflexivity. Qed.

(* ------------------------------------------------------------------ *)
(* LabelsReaderDP against process_lf                                   *)

Definition reader_ok (fr : frame) : Prop :=
  f_maxinst fr <> 1%nat \/ length (filter nonempty (f_raw fr)) = 1%nat.

Lemma dp_labels_reader_eq M raw :
  M <> 1%nat \/ length (filter nonempty raw) = 1%nat ->
  dp_labels_reader M raw = process_lf M raw.
Proof.
  intro H. unfold dp_labels_reader, process_lf.
  destruct (Nat.eqb_spec M 1) as [->|Hne]; [|reflexivity].
  destruct H as [H|H]; [congruence|]. rewrite H. cbn [absdiff Nat.sub Nat.add repeat].
  now rewrite app_nil_r.
Qed.

(* the reader's and the functions' user-instance filter pick the same instances
   for every frame the reader keeps; it drops frames with predicted instances only *)
Lemma dp_reader_keeps_spec uo insts : dp_reader_keeps uo insts = true <->
  (uo = false \/ exists i, In i insts /\ is_user i = true).
Proof.
  unfold dp_reader_keeps. destruct uo; cbn [negb orb].
  - rewrite existsb_exists. split; [intro H; now right|]. now intros [H|H].
  - split; [now left|reflexivity].
Qed.

Lemma user_filter_predicted_only insts : existsb is_user insts = false ->
  user_filter true insts = map snd insts /\ dp_reader_keeps true insts = false.
Proof.
  intro H. unfold user_filter, dp_reader_keeps. rewrite H. split; [|reflexivity].
  assert (E : filter is_user insts = []).
  { induction insts as [|i t IH]; [reflexivity|]. simpl in *. apply orb_false_elim in H.
    destruct H as [H1 H2]. rewrite H1. now apply IH. }
  now rewrite E.
Qed.

(* ------------------------------------------------------------------ *)
(* the composed legacy pipelines against the dataset classes           *)

Lemma prep_geom c g :
  gh (prep_img c g) = gh g /\ gw (prep_img c g) = gw g /\
  gx (prep_img c g) = gx g /\ gy (prep_img c g) = gy g.
Proof.
  unfold prep_img, apply_normalization, convert_to_rgb, convert_to_grayscale.
  destruct (gfloat g), (c_rgb c); cbn [gh gw gc gx gy gfloat gq];
    match goal with |- context [(?a =? ?b)%Z] => destruct (a =? b)%Z end; repeat split; reflexivity.
Qed.

Lemma dp_front_pad_only c fr : sm_pad_only c fr ->
  exists G, apply_sizematcher (c_maxh c) (c_maxw c) (prep_img c (source_img fr)) = (G, 1) /\
            dp_front c fr = Some (G, dp_labels_reader (f_maxinst fr) (f_raw fr)).
Proof.
  intros (mh & mw & Hmh & Hmw & Hh & Hw & Hor).
  destruct (prep_geom c (source_img fr)) as (P1 & P2 & P3 & P4).
  destruct (sizematcher_pad_only mh mw (prep_img c (source_img fr))) as [HA HD];
    try (rewrite ?P1, ?P2, ?P3, ?P4; cbn [source_img gh gw gx gy]; (reflexivity || assumption)).
  exists (img_pad_to mh mw (prep_img c (source_img fr))). rewrite Hmh, Hmw. split; [exact HA|].
  unfold dp_front. rewrite dp_normalizer_eq, Hmh, Hmw.
  change (fn_normalizer (c_rgb c) (source_img fr)) with (prep_img c (source_img fr)).
  now rewrite HD.
Qed.

Theorem dp_single_eq c fr : sm_pad_only c fr -> reader_ok fr -> insts_normal (f_raw fr) ->
  dp_single c fr = Some (ds_single c fr false).
Proof.
  intros Hs Hr Hn. destruct (dp_front_pad_only c fr Hs) as (G & HA & HF).
  unfold dp_single, ds_single, base_fill_cache. rewrite HF, (dp_labels_reader_eq _ _ Hr), HA.
  pose proof (process_lf_normal (f_maxinst fr) (f_raw fr) Hn) as HN.
  destruct (process_lf (f_maxinst fr) (f_raw fr)) as [kps num]. cbn [fst] in HN.
  cbv beta iota zeta. rewrite (scale_insts_1 kps HN).
  unfold dp_resizer_insts, resizer_insts, resizer_img, through_npz, dp_pad_to_stride.
  destruct (Qeq_bool (c_scale c) 1); reflexivity.
Qed.

Theorem dp_centroid_eq c fr : sm_pad_only c fr -> reader_ok fr -> insts_normal (f_raw fr) ->
  dp_centroid c fr = Some (ds_centroid c fr false).
Proof.
  intros Hs Hr Hn. destruct (dp_front_pad_only c fr Hs) as (G & HA & HF).
  unfold dp_centroid, ds_centroid. rewrite HF, (dp_labels_reader_eq _ _ Hr), HA.
  pose proof (process_lf_normal (f_maxinst fr) (f_raw fr) Hn) as HN.
  destruct (process_lf (f_maxinst fr) (f_raw fr)) as [kps num]. cbn [fst] in HN.
  cbv beta iota zeta. rewrite (scale_insts_1 kps HN).
  unfold dp_resizer_insts, resizer_insts, resizer_img, through_npz, dp_pad_to_stride, dp_centroid_finder.
  destruct (Qeq_bool (c_scale c) 1); cbn [negb fst snd];
    destruct (generate_centroids _ _ _) as [cents kps']; reflexivity.
Qed.

Theorem dp_bottomup_eq c fr : sm_pad_only c fr -> reader_ok fr -> insts_normal (f_raw fr) ->
  exists o, dp_bottomup c fr = Some o /\
    let d := ds_bottomup c fr false in
    o_img o = o_img d /\ o_pts o = o_pts d /\ o_num o = o_num d /\ o_paf o = o_paf d /\
    o_cm o = (o_pts d, gh (o_img d), gw (o_img d), c_sigma c, c_stride c) /\
    o_cm d = (firstn (o_num d) (o_pts d), gh (o_img d), gw (o_img d), c_sigma c, c_stride c).
Proof.
  intros Hs Hr Hn. destruct (dp_front_pad_only c fr Hs) as (G & HA & HF).
  unfold dp_bottomup, ds_bottomup, base_fill_cache. rewrite HF, (dp_labels_reader_eq _ _ Hr), HA.
  pose proof (process_lf_normal (f_maxinst fr) (f_raw fr) Hn) as HN.
  destruct (process_lf (f_maxinst fr) (f_raw fr)) as [kps num]. cbn [fst] in HN.
  cbv beta iota zeta. rewrite (scale_insts_1 kps HN).
  unfold dp_resizer_insts, resizer_insts, resizer_img, through_npz, dp_pad_to_stride.
  eexists. split; [reflexivity|].
  destruct (Qeq_bool (c_scale c) 1); cbn; repeat split; reflexivity.
Qed.

(* ---- the confidence maps of the composed bottom-up pipeline ---- *)

Definition hdlen (l : list (list kp)) : nat := match l with i :: _ => length i | [] => O end.

Lemma confmaps_of_multi pts H W sg s :
  confmaps_of false (pts, H, W, sg, s) =
  dp_multiconfmaps [pts] (hdlen pts) (Z.to_nat H) (Z.to_nat W) sg s.
Proof. reflexivity. Qed.

Lemma process_lf_shape M raw : (0 < length (filter nonempty raw))%nat ->
  let kps := fst (process_lf M raw) in
  let num := snd (process_lf M raw) in
  Forall (fun i => i = repeat None (hdlen kps)) (skipn num kps) /\ (0 < num)%nat /\
  hdlen (firstn num kps) = hdlen kps.
Proof.
  intro H. unfold process_lf. cbn [fst snd]. set (ne := filter nonempty raw) in *.
  destruct ne as [|i0 ne'] eqn:E; [simpl in H; lia|]. rewrite <- E.
  assert (Hl : length ne = S (length ne')) by (rewrite E; reflexivity).
  destruct (M =? 1)%nat.
  - rewrite skipn_all, firstn_all. repeat split; [constructor|lia].
  - rewrite skipn_app, skipn_all, Nat.sub_diag. cbn [app skipn].
    rewrite firstn_app, firstn_all, Nat.sub_diag. cbn [firstn]. rewrite app_nil_r.
    repeat split; [|lia|].
    + apply Forall_forall. intros i Hi. apply repeat_spec in Hi. subst i. rewrite E. reflexivity.
    + rewrite E. reflexivity.
Qed.

Lemma kp_scale_repeat_none s n : map (kp_scale s) (repeat None n) = repeat None n.
Proof. induction n; simpl; [reflexivity|now rewrite IHn]. Qed.

Lemma scaled_shape s kps num :
  Forall (fun i => i = repeat None (hdlen kps)) (skipn num kps) -> (0 < num)%nat ->
  hdlen (firstn num kps) = hdlen kps ->
  Forall (fun i => i = repeat None (hdlen (scale_insts s kps))) (skipn num (scale_insts s kps)) /\
  hdlen (firstn num (scale_insts s kps)) = hdlen (scale_insts s kps).
Proof.
  intros HF Hn Hh.
  assert (Hd : hdlen (scale_insts s kps) = hdlen kps).
  { destruct kps; [reflexivity|]. simpl. apply map_length. }
  split.
  - rewrite Hd. unfold scale_insts. rewrite skipn_map. apply Forall_map.
    eapply Forall_impl; [|exact HF]. intros i ->. apply kp_scale_repeat_none.
  - destruct num; [lia|]. destruct kps; reflexivity.
Qed.

Theorem dp_bottomup_confmaps c fr : sm_pad_only c fr -> reader_ok fr -> insts_normal (f_raw fr) ->
  (0 < length (filter nonempty (f_raw fr)))%nat ->
  exists o, dp_bottomup c fr = Some o /\
    confmaps_of false (o_cm o) = confmaps_of false (o_cm (ds_bottomup c fr false)).
Proof.
  intros Hs Hr Hn Hpos. destruct (dp_bottomup_eq c fr Hs Hr Hn) as (o & Ho & H).
  exists o. split; [exact Ho|]. cbv zeta in H. destruct H as (_ & _ & _ & _ & Hcm & Hcd).
  rewrite Hcm, Hcd, !confmaps_of_multi.
  set (d := ds_bottomup c fr false) in *.
  assert (Hshape : Forall (fun i => i = repeat None (hdlen (o_pts d))) (skipn (o_num d) (o_pts d)) /\
                   hdlen (firstn (o_num d) (o_pts d)) = hdlen (o_pts d)).
  { unfold d, ds_bottomup, base_fill_cache.
    destruct (process_lf_shape (f_maxinst fr) (f_raw fr) Hpos) as (S1 & S2 & S3).
    pose proof (process_lf_normal (f_maxinst fr) (f_raw fr) Hn) as HN.
    destruct (process_lf (f_maxinst fr) (f_raw fr)) as [kps num]. cbn [fst snd] in *.
    destruct (dp_front_pad_only c fr Hs) as (G & HA & _). rewrite HA.
    cbv beta iota zeta. cbn [o_pts o_num]. rewrite (scale_insts_1 kps HN).
    unfold resizer_insts. destruct (Qeq_bool (c_scale c) 1); [now split|].
    now apply scaled_shape. }
  destruct Hshape as [HF Hh]. rewrite Hh.
  rewrite (dp_multiconfmaps_eq (o_pts d) (hdlen (o_pts d)) _ _ (o_num d) _ _ HF).
  reflexivity.
Qed.

(* ---- top-down: one crop about the centroid = over-crop then re-crop ---- *)

Lemma double_crop g inst cent B1 B2 h w :
  let big := generate_crops g inst cent B1 B2 in
  let r2 := generate_crops (cr_img big) (cr_inst big) (cr_cent big) h w in
  let r1 := generate_crops g inst cent h w in
  cr_img r2 = cr_img r1 /\ cr_inst r2 = cr_inst r1 /\ cr_cent r2 = cr_cent r1.
Proof.
  cbv zeta. unfold generate_crops. destruct cent as [[cx cy]|].
  - cbn [cr_img cr_inst cr_cent kp_shift fst snd].
    set (t1 := bbox_tl (cx, cy) B1 B2).
    assert (Ex : qn (qn (cx - fst t1) - fst (bbox_tl (qn (cx - fst t1), qn (cy - snd t1)) h w)) =
                 qn (cx - fst (bbox_tl (cx, cy) h w))).
    { apply qn_eq. unfold bbox_tl, qn. cbn [fst snd]. rewrite !Qred_correct. ring. }
    assert (Ey : qn (qn (cy - snd t1) - snd (bbox_tl (qn (cx - fst t1), qn (cy - snd t1)) h w)) =
                 qn (cy - snd (bbox_tl (cx, cy) h w))).
    { apply qn_eq. unfold bbox_tl, qn. cbn [fst snd]. rewrite !Qred_correct. ring. }
    repeat split.
    + unfold img_crop, a_shift. cbn [gh gw gc gx gy gfloat gq ma mb]. f_equal; f_equal.
      * apply qn_eq. unfold bbox_tl, qn. cbn [fst snd]. rewrite !Qred_correct. unfold t1, bbox_tl, qn. cbn [fst snd].
        rewrite !Qred_correct. ring.
      * apply qn_eq. unfold bbox_tl, qn. cbn [fst snd]. rewrite !Qred_correct. unfold t1, bbox_tl, qn. cbn [fst snd].
        rewrite !Qred_correct. ring.
    + rewrite map_map. apply map_ext. intros [[x y]|]; [|reflexivity]. unfold kp_shift. f_equal. f_equal.
      * apply qn_eq. unfold bbox_tl, qn. cbn [fst snd]. rewrite !Qred_correct. unfold t1, bbox_tl, qn. cbn [fst snd].
        rewrite !Qred_correct. ring.
      * apply qn_eq. unfold bbox_tl, qn. cbn [fst snd]. rewrite !Qred_correct. unfold t1, bbox_tl, qn. cbn [fst snd].
        rewrite !Qred_correct. ring.
    + now rewrite Ex, Ey.
  - cbn [cr_img cr_inst cr_cent]. repeat split. now rewrite map_map.
Qed.

Lemma nth_error_firstn_lt {A} (l : list A) : forall num k, (k < num)%nat ->
  nth_error (firstn num l) k = nth_error l k.
Proof.
  induction l as [|x l IH]; intros [|num] [|k] H; simpl; try reflexivity; try lia.
  apply IH. lia.
Qed.

Lemma nth_error_map_firstn_combine {A B C} (F : A * B -> C) (la : list A) (lb : list B) num k dA dB :
  (k < num)%nat -> (k < length la)%nat -> length la = length lb ->
  nth_error (map F (firstn num (combine la lb))) k = Some (F (nth k la dA, nth k lb dB)).
Proof.
  intros Hk Hla Hl. rewrite nth_error_map, nth_error_firstn_lt by exact Hk.
  rewrite (nth_error_nth' (combine la lb) (dA, dB)) by (rewrite combine_length; lia).
  cbn [option_map]. now rewrite combine_nth.
Qed.

Lemma nth_dp_reader M raw k : (k < length (filter nonempty raw))%nat ->
  nth k (fst (dp_labels_reader M raw)) [] = nth k (filter nonempty raw) [] /\
  (k < length (fst (dp_labels_reader M raw)))%nat /\
  (k < snd (dp_labels_reader M raw))%nat.
Proof.
  intro H. unfold dp_labels_reader. cbn [fst snd]. repeat split; [now apply app_nth1| |exact H].
  rewrite app_length. lia.
Qed.

Theorem dp_topdown_eq c fr k : c_scale c == 1 -> (k < length (filter nonempty (f_raw fr)))%nat ->
  sm_pad_only c fr -> insts_normal (f_raw fr) ->
  exists o, dp_topdown c fr k = Some o /\
    let d := ds_centered c fr false k in
    o_img o = o_img d /\ o_pts o = o_pts d /\ o_cents o = o_cents d /\ o_cm o = o_cm d.
Proof.
  intros Hsc Hk Hs Hn. destruct (dp_front_pad_only c fr Hs) as (G & HA & HF).
  assert (Hb : Qeq_bool (c_scale c) 1 = true) by (apply Qeq_bool_iff; exact Hsc).
  unfold dp_topdown, ds_centered, resizer_pts, resizer_img, dp_resizer, through_npz, dp_pad_to_stride,
    dp_centroid_finder.
  rewrite HF, HA, Hb. cbn [negb].
  destruct (nth_positions (f_raw fr) O k Hk) as (j & Hj & Hnth). simpl in Hj. rewrite Hj.
  destruct (nth_dp_reader (f_maxinst fr) (f_raw fr) k Hk) as (HL & Hlen & Hnum).
  destruct (dp_labels_reader (f_maxinst fr) (f_raw fr)) as [L num]. cbn [fst snd] in HL, Hlen, Hnum.
  destruct (nth_generate_centroids (c_anchor c) (c_wt c) L k Hlen) as [Hc Hi].
  rewrite dp_cropper_spec.
  pose proof (nth_error_map_firstn_combine
                (fun ic : list kp * kp => generate_crops G (fst ic) (snd ic) (c_croph c) (c_cropw c))
                (snd (generate_centroids (c_anchor c) (c_wt c) L))
                (fst (generate_centroids (c_anchor c) (c_wt c) L)) num k [] None Hnum) as HX.
  rewrite HX; clear HX.
  2:{ unfold generate_centroids. cbn [snd]. now rewrite !map_length. }
  2:{ unfold generate_centroids. cbn [fst snd]. now rewrite !map_length. }
  cbn [fst snd]. rewrite Hc, Hi, HL, <- Hnth.
  rewrite (map_kp_scale_1 (nth j (f_raw fr) [])) by (now apply nth_normal).
  destruct (generate_centroid (c_anchor c) (c_wt c) (nth j (f_raw fr) [])) as [cent inst].
  cbv beta iota zeta. cbn [fst snd].
  destruct (double_crop G inst cent (isqrt2 (c_croph c)) (isqrt2 (c_cropw c)) (c_croph c) (c_cropw c))
    as (D1 & D2 & D3).
  cbv zeta in D1, D2, D3. eexists. split; [reflexivity|].
  cbn [o_img o_pts o_cents o_cm]. rewrite D1, D2, D3. repeat split.
Qed.

(* non-vacuity and the things the agreement leaves out *)
Definition wframe3 : frame :=
  {| f_h := 100%Z; f_w := 80%Z; f_c := 3%Z;
     f_raw := [[None; Some (50, 60); Some (20, 30)]; [None; None; None]; [Some (10, 10); None; None]];
     f_maxinst := 3%nat |}.

Lemma dp_examples :
  dp_single (wcfg (1 # 2)) wframe = Some (ds_single (wcfg (1 # 2)) wframe false) /\
  dp_centroid (wcfg (3 # 4)) wframe3 = Some (ds_centroid (wcfg (3 # 4)) wframe3 false) /\
  (exists o, dp_topdown (wcfg 1) wframe3 1 = Some o /\
     o_img o = o_img (ds_centered (wcfg 1) wframe3 false 1) /\
     o_pts o = [[Some (31 # 2, 31 # 2); None; None]] /\
     o_tl o = Some (-11 # 2, -11 # 2) /\ o_tl (ds_centered (wcfg 1) wframe3 false 1) = Some (13 # 2, 13 # 2)) /\
  (* scale 1/2: the composed top-down pipeline scales the 32x32 crop to 16x16, the dataset crops 32x32 out of the scaled frame *)
  (exists o, dp_topdown (wcfg (1 # 2)) wframe 0 = Some o /\ (gh (o_img o), gw (o_img o)) = (16%Z, 16%Z) /\
     (gh (o_img (ds_centered (wcfg (1 # 2)) wframe false 0)), gw (o_img (ds_centered (wcfg (1 # 2)) wframe false 0))) = (32%Z, 32%Z)) /\
  (* a frame smaller than the target in both directions: the block pads, the function rescales *)
  (exists o, dp_bottomup (wcfg 1) {| f_h := 50%Z; f_w := 50%Z; f_c := 1%Z; f_raw := [[Some (30, 40); Some (20, 10)]]; f_maxinst := 1%nat |} = Some o /\
     o_pts o = [[Some (30, 40); Some (20, 10)]] /\
     o_pts (ds_bottomup (wcfg 1) {| f_h := 50%Z; f_w := 50%Z; f_c := 1%Z; f_raw := [[Some (30, 40); Some (20, 10)]]; f_maxinst := 1%nat |} false)
       = [[Some (60, 80); Some (40, 20)]]) /\
  (* a frame larger than the target: SizeMatcher raises *)
  dp_single (wcfg 1) {| f_h := 120%Z; f_w := 100%Z; f_c := 1%Z; f_raw := [[Some (30, 40)]]; f_maxinst := 1%nat |} = None.
Proof.
  repeat split; try (eexists; repeat split); vm_compute; reflexivity.
Qed.
