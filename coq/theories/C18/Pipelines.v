(* Pipelines.v (C18) — executable model of the three user-selectable data
   frameworks of sleap-nn and of the legacy DataPipe blocks (no proofs here).

     Mem  "torch_dataset"            custom_datasets.py, in-memory cache
     Npc  "torch_dataset_np_chunks"  custom_datasets.py, np_chunks branch
     Str  "litdata"                  get_data_chunks.py (the four _data_chunks functions) followed by
                                     streaming_datasets.py (the four StreamingDataset.__getitem__)

   A sample is modelled by what the network input and the training targets
   are *functions of*:
     - the image GEOMETRY: exact integer size (channels, height, width) and,
       per axis, the affine content map  x_out = ma * x_in + mb  from source
       pixel coordinates to current pixel coordinates (half-pixel convention
       of torchvision.resize, pure translation for crops, identity for
       bottom/right padding), a flag "values are float in [0,1]" and the
       number of 8-bit round trips the pixel values went through;
     - the keypoints (`option (Q*Q)`, None = NaN) and centroids;
     - the inputs of the target generators (points, H, W, sigma, stride,
       edge list): the confidence maps / PAFs themselves are the functions of
       these inputs modelled in C01 (C05).

   Every pipeline step is written ONCE below; the three frameworks are three
   COMPOSITIONS in exactly the order in which the code of each framework
   applies the steps (which steps run at cache/chunk-generation time and
   which at __getitem__ time, which tensors a resize scales, where the
   stride padding happens).  Augmentation is off (apply_aug = False).

   Arithmetic is exact and every result is normalised with Qred, so that two
   pipelines computing the same rational by different routes produce the
   same *term* and agreement can be stated with Leibniz equality. *)
From Coq Require Import List Arith ZArith QArith Qround Bool.
Import ListNotations.
From SV Require Import C01.ConfMaps.
Open Scope Q_scope.

(* kp := option (Q*Q) comes from C01.ConfMaps *)

Definition qn (q : Q) : Q := Qred q.
Definition half : Q := 1 # 2.
Definition qz (z : Z) : Q := inject_Z z.

(* Python round(): half to even *)
Definition round_half_even (q : Q) : Z :=
  let f := Qfloor q in
  match Qcompare (q - inject_Z f) half with
  | Lt => f
  | Gt => (f + 1)%Z
  | Eq => if Z.even f then f else (f + 1)%Z
  end.

(* (np.array(c) * np.sqrt(2)).astype(int32) = floor(c*sqrt 2) = isqrt(2 c^2) *)
Definition isqrt2 (c : Z) : Z := Z.sqrt (2 * c * c).

(* ------------------------------------------------------------------ *)
(* keypoints                                                          *)

Definition kp_scale (s : Q) (p : kp) : kp :=
  match p with Some (x, y) => Some (qn (s * x), qn (s * y)) | None => None end.

Definition kp_shift (d : Q * Q) (p : kp) : kp :=
  match p with Some (x, y) => Some (qn (x - fst d), qn (y - snd d)) | None => None end.

Definition visible (p : kp) : bool := match p with Some _ => true | None => false end.
Definition nonempty (inst : list kp) : bool := existsb visible inst.   (* not inst.is_empty *)

Definition scale_insts (s : Q) (l : list (list kp)) := map (map (kp_scale s)) l.

(* ------------------------------------------------------------------ *)
(* image geometry                                                     *)

Record amap := { ma : Q; mb : Q }.
Definition aid : amap := {| ma := 1; mb := 0 |}.

(* resampling by factor s, half-pixel centres: x' = s*(x + 1/2) - 1/2 *)
Definition a_scale (s : Q) (m : amap) : amap :=
  {| ma := qn (s * ma m); mb := qn (s * mb m + (s - 1) * half) |}.
Definition a_shift (d : Q) (m : amap) : amap :=
  {| ma := ma m; mb := qn (mb m - d) |}.

Record geom := {
  gh : Z; gw : Z; gc : Z;       (* height, width, channels *)
  gx : amap; gy : amap;         (* content map per axis *)
  gfloat : bool;                (* float32 in [0,1] (true) or uint8 (false) *)
  gq : nat                      (* number of 8-bit quantisations so far *)
}.

Definition set_size (h w : Z) (g : geom) : geom :=
  {| gh := h; gw := w; gc := gc g; gx := gx g; gy := gy g; gfloat := gfloat g; gq := gq g |}.

(* apply_normalization: uint8 -> float32 / 255; floats pass through *)
Definition apply_normalization (g : geom) : geom :=
  if gfloat g then g else
  {| gh := gh g; gw := gw g; gc := gc g; gx := gx g; gy := gy g; gfloat := true; gq := gq g |}.

(* convert_to_rgb: image.repeat(1,3,1,1) unless already 3 channels *)
Definition convert_to_rgb (g : geom) : geom :=
  if (gc g =? 3)%Z then g else
  {| gh := gh g; gw := gw g; gc := (gc g * 3)%Z; gx := gx g; gy := gy g; gfloat := gfloat g; gq := gq g |}.

(* convert_to_grayscale: rgb_to_grayscale unless already 1 channel *)
Definition convert_to_grayscale (g : geom) : geom :=
  if (gc g =? 1)%Z then g else
  {| gh := gh g; gw := gw g; gc := 1%Z; gx := gx g; gy := gy g; gfloat := gfloat g; gq := gq g |}.

(* tvf.resize(image, size=(nh, nw)) *)
Definition img_resize_to (nh nw : Z) (g : geom) : geom :=
  {| gh := nh; gw := nw; gc := gc g;
     gx := a_scale (qz nw / qz (gw g)) (gx g);
     gy := a_scale (qz nh / qz (gh g)) (gy g);
     gfloat := gfloat g; gq := gq g |}.

(* F.pad(image, (0, pw, 0, ph)): bottom / right only, content stays put *)
Definition img_pad_to (nh nw : Z) (g : geom) : geom := set_size nh nw g.

(* T.ToPILImage() on a float tensor: mul(255).byte() *)
Definition img_to_pil (g : geom) : geom :=
  {| gh := gh g; gw := gw g; gc := gc g; gx := gx g; gy := gy g; gfloat := false; gq := S (gq g) |}.

(* T.ToTensor()(Image.fromarray(..)): uint8 -> float / 255 *)
Definition img_from_npz (g : geom) : geom := apply_normalization g.

(* crop_and_resize with a box of exactly (bw-1, bh-1) extent: translation *)
Definition img_crop (tl : Q * Q) (bh bw : Z) (g : geom) : geom :=
  {| gh := bh; gw := bw; gc := gc g; gx := a_shift (fst tl) (gx g); gy := a_shift (snd tl) (gy g);
     gfloat := gfloat g; gq := gq g |}.

(* apply_sizematcher(image, max_height, max_width) -> (image, eff_scale) *)
Definition apply_sizematcher (mh mw : option Z) (g : geom) : geom * Q :=
  let mh' := match mh with Some v => v | None => gh g end in
  let mw' := match mw with Some v => v | None => gw g end in
  if ((gh g =? mh') && (gw g =? mw'))%Z then (g, 1) else
  let hr := qz mh' / qz (gh g) in
  let wr := qz mw' / qz (gw g) in
  let eff := if Qle_bool hr wr then hr else wr in          (* `if hratio > wratio: wratio else: hratio` *)
  let th := round_half_even (qz (gh g) * eff) in
  let tw := round_half_even (qz (gw g) * eff) in
  (img_pad_to mh' mw' (img_resize_to th tw g), qn eff).

(* resize_image: new_size = [int(h*scale), int(w*scale)] *)
Definition resize_image (scale : Q) (g : geom) : geom :=
  img_resize_to (Qfloor (qz (gh g) * scale)) (Qfloor (qz (gw g) * scale)) g.

(* apply_resizer(image, pts, scale): `if scale != 1.0` guards both halves *)
Definition resizer_img (scale : Q) (g : geom) : geom :=
  if Qeq_bool scale 1 then g else resize_image scale g.
Definition resizer_pts (scale : Q) (l : list kp) : list kp :=
  if Qeq_bool scale 1 then l else map (kp_scale scale) l.
Definition resizer_insts (scale : Q) (l : list (list kp)) : list (list kp) :=
  if Qeq_bool scale 1 then l else scale_insts scale l.

(* find_padding_for_stride / apply_pad_to_stride *)
Definition pad_amount (n ms : Z) : Z := ((ms - n mod ms) mod ms)%Z.
Definition apply_pad_to_stride (ms : Z) (g : geom) : geom :=
  if (1 <? ms)%Z then img_pad_to (gh g + pad_amount (gh g) ms)%Z (gw g + pad_amount (gw g) ms)%Z g
  else g.

(* ------------------------------------------------------------------ *)
(* centroids                                                          *)

Definition qmin (a b : Q) : Q := if Qle_bool a b then a else b.
Definition qmax (a b : Q) : Q := if Qle_bool a b then b else a.

(* (min x, max x, min y, max y) over the visible points *)
Fixpoint bbox (l : list kp) : option (Q * Q * Q * Q) :=
  match l with
  | [] => None
  | None :: t => bbox t
  | Some (x, y) :: t =>
      match bbox t with
      | None => Some (x, x, y, y)
      | Some (a, b, c, d) => Some (qmin x a, qmax x b, qmin y c, qmax y d)
      end
  end.

(* find_points_bbox_midpoint: (max + min) * 0.5; all-NaN -> inf + -inf = NaN *)
Definition bbox_mid (l : list kp) : kp :=
  match bbox l with
  | None => None
  | Some (a, b, c, d) => Some (qn ((b + a) * half), qn ((d + c) * half))
  end.

Fixpoint set_nth {A} (i : nat) (v : A) (l : list A) : list A :=
  match l, i with
  | [], _ => []
  | _ :: t, O => v :: t
  | h :: t, S j => h :: set_nth j v t
  end.

(* generate_centroids on one instance -> (centroid, the instance afterwards).
   `write_through` = true: the pinned tree (before fix 563a1fb, DESIGN F5):
   `centroids = points[..., anchor, :]` is a view and the bbox midpoint is
   written through it into the caller's keypoints; false: the current tree
   (`.clone()`).  The harness detects the variant at run time; the agreement
   theorems hold for both values of the flag. *)
Definition generate_centroid (anchor : option nat) (write_through : bool) (inst : list kp)
  : kp * list kp :=
  let a := match anchor with Some i => nth i inst None | None => None end in
  match a with
  | Some _ => (a, inst)
  | None =>
      let m := bbox_mid inst in
      (m, match anchor with
          | Some i => if write_through then set_nth i m inst else inst
          | None => inst
          end)
  end.

Definition generate_centroids (anchor : option nat) (wt : bool) (insts : list (list kp))
  : list kp * list (list kp) :=
  let r := map (generate_centroid anchor wt) insts in (map fst r, map snd r).

(* ------------------------------------------------------------------ *)
(* crops                                                              *)

(* make_centered_bboxes: top-left corner (x - w/2 + 1/2, y - h/2 + 1/2) *)
Definition bbox_tl (c : Q * Q) (bh bw : Z) : Q * Q :=
  (qn (fst c - qz bw * half + half), qn (snd c - qz bh * half + half)).

Record crop_res := {
  cr_img : geom; cr_inst : list kp; cr_cent : kp; cr_tl : option (Q * Q) }.

(* generate_crops(image, instance, centroid, crop_size) — also the body of the
   re-crop in both __getitem__s (make_centered_bboxes, crop_and_resize, subtract
   the top-left corner from instance and centroid) *)
Definition generate_crops (g : geom) (inst : list kp) (cent : kp) (bh bw : Z) : crop_res :=
  match cent with
  | None =>      (* NaN centroid: outside the domain (a non-empty instance has a centroid) *)
      {| cr_img := set_size bh bw g; cr_inst := map (fun _ => None) inst; cr_cent := None; cr_tl := None |}
  | Some c =>
      let tl := bbox_tl c bh bw in
      {| cr_img := img_crop tl bh bw g; cr_inst := map (kp_shift tl) inst;
         cr_cent := kp_shift tl cent; cr_tl := Some tl |}
  end.

(* ------------------------------------------------------------------ *)
(* labels -> tensors                                                  *)

Definition absdiff (a b : nat) : nat := ((a - b) + (b - a))%nat.

(* providers.process_lf: non-empty instances in order, NaN-padded up to
   max_instances unless max_instances = 1; num_instances = #non-empty *)
Definition process_lf (maxinst : nat) (raw : list (list kp)) : list (list kp) * nat :=
  let ne := filter nonempty raw in
  let num := length ne in
  let nodes := match ne with i :: _ => length i | [] => O end in
  (if (maxinst =? 1)%nat then ne else ne ++ repeat (repeat None nodes) (absdiff maxinst num), num).

(* CenteredInstanceDataset._get_instance_idx_list (one frame): positions of
   the non-empty instances in lf.instances *)
Fixpoint nonempty_positions (raw : list (list kp)) (i : nat) : list nat :=
  match raw with
  | [] => []
  | inst :: t => if nonempty inst then i :: nonempty_positions t (S i) else nonempty_positions t (S i)
  end.

(* ------------------------------------------------------------------ *)
(* configuration, input frame, output sample                          *)

Record cfg := {
  c_rgb : bool;
  c_maxh : option Z; c_maxw : option Z;      (* the bounds ONE framework hands to apply_sizematcher (fw_cfg resolves them per framework) *)
  c_scale : Q;
  c_ms : Z;                                  (* max_stride *)
  c_anchor : option nat;
  c_croph : Z; c_cropw : Z;
  c_sigma : Q; c_stride : nat;               (* confmap head *)
  c_psigma : Q; c_pstride : nat;             (* pafs head *)
  c_edges : list (nat * nat);
  c_wt : bool                                (* generate_centroids writes through (pinned tree: true; current tree, after 563a1fb: false) *)
}.

Record frame := {
  f_h : Z; f_w : Z; f_c : Z;
  f_raw : list (list kp);       (* lf.instances after the user-instance filter *)
  f_maxinst : nat               (* get_max_instances(labels) *)
}.

Definition cm_in := (list (list kp) * Z * Z * Q * nat)%type.
Definition paf_in := (list (list kp) * Z * Z * Q * nat * list (nat * nat))%type.

Record out := {
  o_img : geom;                 (* "image" / "instance_image" *)
  o_pts : list (list kp);       (* "instances" (all model types but centered) / ["instance"] *)
  o_cents : list kp;            (* "centroids" / ["centroid"] / [] *)
  o_num : nat;                  (* "num_instances" *)
  o_tl : option (Q * Q);        (* top-left corner of "instance_bbox" *)
  o_cm : cm_in;                 (* what the confidence maps are a function of *)
  o_paf : option paf_in         (* what the PAFs are a function of *)
}.

Inductive mtype := Single | BottomUp | Centroid | Centered (k : nat).
Inductive fw := Mem | Npc | Str.

Definition source_img (fr : frame) : geom :=
  {| gh := f_h fr; gw := f_w fr; gc := f_c fr; gx := aid; gy := aid; gfloat := false; gq := O |}.

(* normalisation + channel conversion: the same three lines open every path *)
Definition prep_img (c : cfg) (g : geom) : geom :=
  let g := apply_normalization g in
  if c_rgb c then convert_to_rgb g else convert_to_grayscale g.

(* the np_chunks branch: ToPILImage -> savez -> load -> ToTensor *)
Definition through_npz (npc : bool) (g : geom) : geom :=
  if npc then img_from_npz (img_to_pil g) else g.

(* the streaming __getitem__ prologue: PILToTensor -> apply_normalization *)
Definition from_pil (g : geom) : geom := apply_normalization g.

(* target inputs *)
Definition cm_single (kps : list (list kp)) (g : geom) (c : cfg) : cm_in :=
  ([concat kps], gh g, gw g, c_sigma c, c_stride c).            (* view(n_samples, -1, 2) *)
Definition cm_multi (kps : list (list kp)) (num : nat) (g : geom) (c : cfg) : cm_in :=
  (firstn num kps, gh g, gw g, c_sigma c, c_stride c).          (* instances[:, :num] *)
Definition cm_cent (cents : list kp) (num : nat) (g : geom) (c : cfg) : cm_in :=
  (map (fun x => [x]) (firstn num cents), gh g, gw g, c_sigma c, c_stride c).
Definition cm_inst (inst : list kp) (g : geom) (c : cfg) : cm_in :=
  ([inst], gh g, gw g, c_sigma c, c_stride c).
Definition paf_of (kps : list (list kp)) (g : geom) (c : cfg) : option paf_in :=
  Some (kps, gh g, gw g, c_psigma c, c_pstride c, c_edges c).

(* ------------------------------------------------------------------ *)
(* framework 1 / 2: custom_datasets.py                                *)

(* BaseDataset._fill_cache (SingleInstanceDataset, BottomUpDataset) *)
Definition base_fill_cache (c : cfg) (fr : frame) (npc : bool) : geom * list (list kp) * nat :=
  let '(kps, num) := process_lf (f_maxinst fr) (f_raw fr) in
  let g := prep_img c (source_img fr) in
  let '(g, eff) := apply_sizematcher (c_maxh c) (c_maxw c) g in
  let kps := scale_insts eff kps in
  let kps := resizer_insts (c_scale c) kps in
  let g := resizer_img (c_scale c) g in
  let g := apply_pad_to_stride (c_ms c) g in
  (through_npz npc g, kps, num).

Definition ds_single (c : cfg) (fr : frame) (npc : bool) : out :=
  let '(g, kps, num) := base_fill_cache c fr npc in
  {| o_img := g; o_pts := kps; o_cents := []; o_num := num; o_tl := None;
     o_cm := cm_single kps g c; o_paf := None |}.

Definition ds_bottomup (c : cfg) (fr : frame) (npc : bool) : out :=
  let '(g, kps, num) := base_fill_cache c fr npc in
  {| o_img := g; o_pts := kps; o_cents := []; o_num := num; o_tl := None;
     o_cm := cm_multi kps num g c; o_paf := paf_of kps g c |}.

(* CentroidDataset._fill_cache: resize, THEN centroids, then pad *)
Definition ds_centroid (c : cfg) (fr : frame) (npc : bool) : out :=
  let '(kps, num) := process_lf (f_maxinst fr) (f_raw fr) in
  let g := prep_img c (source_img fr) in
  let '(g, eff) := apply_sizematcher (c_maxh c) (c_maxw c) g in
  let kps := scale_insts eff kps in
  let kps := resizer_insts (c_scale c) kps in
  let g := resizer_img (c_scale c) g in
  let '(cents, kps) := generate_centroids (c_anchor c) (c_wt c) kps in
  let g := apply_pad_to_stride (c_ms c) g in
  let g := through_npz npc g in
  {| o_img := g; o_pts := kps; o_cents := cents; o_num := num; o_tl := None;
     o_cm := cm_cent cents num g c; o_paf := None |}.

(* CenteredInstanceDataset: _fill_cache for sample k of this frame
   (= instance number nth k (nonempty_positions raw) of lf.instances): resize
   the whole frame, centroid of the scaled instance, over-crop by sqrt 2;
   __getitem__: re-crop to crop_hw about the centroid, pad, confidence maps *)
Definition ds_centered (c : cfg) (fr : frame) (npc : bool) (k : nat) : out :=
  let idx := nth k (nonempty_positions (f_raw fr) O) O in
  let inst := nth idx (f_raw fr) [] in
  let num := length (f_raw fr) in                      (* instances.shape[1] before selection *)
  let g := prep_img c (source_img fr) in
  let '(g, eff) := apply_sizematcher (c_maxh c) (c_maxw c) g in
  let inst := map (kp_scale eff) inst in
  let inst := resizer_pts (c_scale c) inst in
  let g := resizer_img (c_scale c) g in
  let '(cent, inst) := generate_centroid (c_anchor c) (c_wt c) inst in
  let big := generate_crops g inst cent (isqrt2 (c_croph c)) (isqrt2 (c_cropw c)) in
  let g := through_npz npc (cr_img big) in
  (* __getitem__ *)
  let r := generate_crops g (cr_inst big) (cr_cent big) (c_croph c) (c_cropw c) in
  let g := apply_pad_to_stride (c_ms c) (cr_img r) in
  {| o_img := g; o_pts := [cr_inst r]; o_cents := [cr_cent r]; o_num := num; o_tl := cr_tl r;
     o_cm := cm_inst (cr_inst r) g c; o_paf := None |}.

(* ------------------------------------------------------------------ *)
(* framework 3: get_data_chunks.py + streaming_datasets.py            *)

(* single_instance_data_chunks (max_instances = 1) / bottomup_data_chunks *)
Definition chunk_base (c : cfg) (fr : frame) (maxinst : nat) : geom * list (list kp) * nat :=
  let '(kps, num) := process_lf maxinst (f_raw fr) in
  let g := prep_img c (source_img fr) in
  let '(g, eff) := apply_sizematcher (c_maxh c) (c_maxw c) g in
  let kps := scale_insts eff kps in
  let kps := resizer_insts (c_scale c) kps in
  let g := resizer_img (c_scale c) g in
  (img_to_pil g, kps, num).

Definition st_single (c : cfg) (fr : frame) : out :=
  let '(g, kps, num) := chunk_base c fr 1%nat in
  (* SingleInstanceStreamingDataset.__getitem__ *)
  let g := from_pil g in
  let g := apply_pad_to_stride (c_ms c) g in
  {| o_img := g; o_pts := kps; o_cents := []; o_num := num; o_tl := None;
     o_cm := cm_single kps g c; o_paf := None |}.

Definition st_bottomup (c : cfg) (fr : frame) : out :=
  let '(g, kps, num) := chunk_base c fr (f_maxinst fr) in
  let g := from_pil g in
  let g := apply_pad_to_stride (c_ms c) g in
  {| o_img := g; o_pts := kps; o_cents := []; o_num := num; o_tl := None;
     o_cm := cm_multi kps num g c; o_paf := paf_of kps g c |}.

(* centroid_data_chunks: centroids FIRST, then apply_resizer(image, centroids):
   the centroids are scaled, sample["instances"] is not *)
Definition st_centroid (c : cfg) (fr : frame) : out :=
  let '(kps, num) := process_lf (f_maxinst fr) (f_raw fr) in
  let g := prep_img c (source_img fr) in
  let '(g, eff) := apply_sizematcher (c_maxh c) (c_maxw c) g in
  let kps := scale_insts eff kps in
  let '(cents, kps) := generate_centroids (c_anchor c) (c_wt c) kps in
  let cents := resizer_pts (c_scale c) cents in
  let g := resizer_img (c_scale c) g in
  let g := img_to_pil g in
  (* CentroidStreamingDataset.__getitem__ *)
  let g := from_pil g in
  let g := apply_pad_to_stride (c_ms c) g in
  {| o_img := g; o_pts := kps; o_cents := cents; o_num := num; o_tl := None;
     o_cm := cm_cent cents num g c; o_paf := None |}.

(* centered_instance_data_chunks, k-th yielded sample: centroids on the
   UNSCALED frame, over-crop, then apply_resizer(crop, instance) — the
   centroid is not scaled; CenteredInstanceStreamingDataset: crop_hw :=
   int(crop_hw * input_scale), re-crop about that centroid, pad *)
Definition st_centered (c : cfg) (fr : frame) (k : nat) : out :=
  let '(kps, num) := process_lf (f_maxinst fr) (f_raw fr) in
  let g := prep_img c (source_img fr) in
  let '(g, eff) := apply_sizematcher (c_maxh c) (c_maxw c) g in
  let kps := scale_insts eff kps in
  let '(cents, kps) := generate_centroids (c_anchor c) (c_wt c) kps in
  let inst := nth k kps [] in
  let cent := nth k cents None in
  let big := generate_crops g inst cent (isqrt2 (c_croph c)) (isqrt2 (c_cropw c)) in
  let inst := resizer_pts (c_scale c) (cr_inst big) in
  let g := resizer_img (c_scale c) (cr_img big) in
  let g := img_to_pil g in
  (* __init__ + __getitem__ *)
  let ch := Qfloor (qz (c_croph c) * c_scale c) in
  let cw := Qfloor (qz (c_cropw c) * c_scale c) in
  let g := from_pil g in
  let r := generate_crops g inst (cr_cent big) ch cw in
  let g := apply_pad_to_stride (c_ms c) (cr_img r) in
  {| o_img := g; o_pts := [cr_inst r]; o_cents := [cr_cent r]; o_num := num; o_tl := cr_tl r;
     o_cm := cm_inst (cr_inst r) g c; o_paf := None |}.

(* ------------------------------------------------------------------ *)

Definition pipeline (t : mtype) (f : fw) (c : cfg) (fr : frame) : out :=
  match t, f with
  | Single, Mem => ds_single c fr false
  | Single, Npc => ds_single c fr true
  | Single, Str => st_single c fr
  | BottomUp, Mem => ds_bottomup c fr false
  | BottomUp, Npc => ds_bottomup c fr true
  | BottomUp, Str => st_bottomup c fr
  | Centroid, Mem => ds_centroid c fr false
  | Centroid, Npc => ds_centroid c fr true
  | Centroid, Str => st_centroid c fr
  | Centered k, Mem => ds_centered c fr false k
  | Centered k, Npc => ds_centered c fr true k
  | Centered k, Str => st_centered c fr k
  end.

(* agreement of two samples: everything the network input and the targets are
   functions of, except the count of 8-bit round trips (the property allows
   "up to 8-bit image quantisation") *)
Definition img_view (g : geom) := (gh g, gw g, gc g, gx g, gy g, gfloat g).

Definition same_sample (a b : out) : Prop :=
  img_view (o_img a) = img_view (o_img b) /\ o_pts a = o_pts b /\ o_cents a = o_cents b /\
  o_tl a = o_tl b /\ o_cm a = o_cm b /\ o_paf a = o_paf b.

(* centroid model: the targets are drawn from the centroids; sample["instances"]
   is carried along but is not what the targets are drawn from *)
Definition same_sample_centroid (a b : out) : Prop :=
  img_view (o_img a) = img_view (o_img b) /\ o_cents a = o_cents b /\
  o_tl a = o_tl b /\ o_cm a = o_cm b /\ o_paf a = o_paf b.

(* where the property demands agreement of all three frameworks:
   single-instance (label sets with one instance per frame: get_max_instances
   = 1), bottom-up and centroid at any positive scale; centered-instance at
   scale 1, for each of the samples the frame contributes *)
Definition domain (t : mtype) (c : cfg) (fr : frame) : Prop :=
  0 < c_scale c /\
  match t with
  | Single => f_maxinst fr = 1%nat
  | BottomUp | Centroid => True
  | Centered k => c_scale c == 1 /\ (k < length (filter nonempty (f_raw fr)))%nat
  end.

Definition agree (t : mtype) (a b : out) : Prop :=
  match t with Centroid => same_sample_centroid a b | _ => same_sample a b end.

(* the confidence maps a sample carries, as the C01 function of o_cm *)
Definition confmaps_of (single_style : bool) (x : cm_in) : list (list cmap) :=
  let '(pts, H, W, sigma, s) := x in
  if single_style
  then generate_confmaps3 pts (Z.to_nat H) (Z.to_nat W) sigma s
  else make_multi_confmaps [pts] (match pts with i :: _ => length i | [] => O end)
         (grid (Z.to_nat W) s) (grid (Z.to_nat H) s) (sigma * inject_Z (Z.of_nat s)).

(* ------------------------------------------------------------------ *)
(* legacy DataPipe blocks (the bodies of their __iter__), next to the
   functional counterparts above                                       *)

(* Normalizer: inline `if not is_floating_point: /255`, then the two ifs *)
Definition dp_normalizer (rgb : bool) (g : geom) : geom :=
  let g := if gfloat g then g else apply_normalization g in
  let g := if rgb then convert_to_rgb g else g in
  if negb rgb then convert_to_grayscale g else g.
Definition fn_normalizer (rgb : bool) (g : geom) : geom :=
  let g := apply_normalization g in
  if rgb then convert_to_rgb g else convert_to_grayscale g.

(* Resizer: `if self.scale != 1.0: resize_image; pts * scale` *)
Definition dp_resizer (scale : Q) (x : geom * list kp) : geom * list kp :=
  if negb (Qeq_bool scale 1) then (resize_image scale (fst x), map (kp_scale scale) (snd x)) else x.
Definition fn_resizer (scale : Q) (x : geom * list kp) : geom * list kp :=
  (resizer_img scale (fst x), resizer_pts scale (snd x)).

(* PadToStride calls apply_pad_to_stride *)
Definition dp_pad_to_stride (ms : Z) (g : geom) : geom := apply_pad_to_stride ms g.

(* InstanceCentroidFinder calls generate_centroids *)
Definition dp_centroid_finder anchor wt (insts : list (list kp)) := generate_centroids anchor wt insts.

(* InstanceCropper: its own loop with the cropping code inline *)
Fixpoint dp_cropper (g : geom) (bh bw : Z) (num cnt : nat) (l : list (list kp * kp)) : list crop_res :=
  match l with
  | [] => []
  | (inst, cent) :: t =>
      if (cnt =? num)%nat then [] else
      (match cent with
       | None => {| cr_img := set_size bh bw g; cr_inst := map (fun _ => None) inst;
                    cr_cent := None; cr_tl := None |}
       | Some c0 =>
           let tl := bbox_tl c0 bh bw in
           {| cr_img := img_crop tl bh bw g; cr_inst := map (kp_shift tl) inst;
              cr_cent := kp_shift tl cent; cr_tl := Some tl |}
       end) :: dp_cropper g bh bw num (S cnt) t
  end.
(* the functional form: the loop of centered_instance_data_chunks *)
Fixpoint fn_cropper (g : geom) (bh bw : Z) (num cnt : nat) (l : list (list kp * kp)) : list crop_res :=
  match l with
  | [] => []
  | (inst, cent) :: t =>
      if (cnt =? num)%nat then [] else generate_crops g inst cent bh bw :: fn_cropper g bh bw num (S cnt) t
  end.

(* ConfidenceMapGenerator: view(n, -1, 2) when the key is "instances" *)
Definition dp_confmaps_instances (pts : list (list (list kp))) (H W : nat) (sigma : Q) (s : nat) :=
  make_confmaps (map (@concat kp) pts) (grid W s) (grid H s) (sigma * inject_Z (Z.of_nat s)).
Definition dp_confmaps_instance (pts : list (list kp)) (H W : nat) (sigma : Q) (s : nat) :=
  make_confmaps pts (grid W s) (grid H s) (sigma * inject_Z (Z.of_nat s)).

(* MultiConfidenceMapGenerator: centroids=True slices [:num]; centroids=False
   does NOT slice (generate_multiconfmaps does) *)
Definition dp_multiconfmaps (pts : list (list (list kp))) (n_nodes H W : nat) (sigma : Q) (s : nat) :=
  make_multi_confmaps pts n_nodes (grid W s) (grid H s) (sigma * inject_Z (Z.of_nat s)).
Definition dp_multiconfmaps_centroids (cents : list (list kp)) (H W num : nat) (sigma : Q) (s : nat) :=
  make_multi_confmaps (map (fun l => map (fun c => [c]) (firstn num l)) cents) 1
    (grid W s) (grid H s) (sigma * inject_Z (Z.of_nat s)).

(* PartAffinityFieldsGenerator / generate_pafs: the same statements inline;
   both are the same function of these inputs *)
Definition dp_paf_inputs (kps : list (list kp)) (g : geom) (psigma : Q) (pstride : nat)
  (edges : list (nat * nat)) : paf_in := (kps, gh g, gw g, psigma, pstride, edges).
Definition fn_paf_inputs (kps : list (list kp)) (g : geom) (psigma : Q) (pstride : nat)
  (edges : list (nat * nat)) : paf_in := (kps, gh g, gw g, psigma, pstride, edges).

(* ------------------------------------------------------------------ *)
(* round 2: the remaining legacy blocks (SizeMatcher, LabelsReaderDP), the
   user-instance filter, and the four COMPOSED legacy pipelines of
   pipelines.py (make_training_pipeline, augmentation off)              *)

(* resizing.SizeMatcher.__iter__: pads bottom/right up to (max_height,
   max_width) — it never rescales and `raise`s (None) when the image is larger.
   A None bound is replaced by the image's own size.  apply_sizematcher, the
   function of the same name, rescales to fit: the two are NOT counterparts
   in general (Props: c18_dp_sizematcher_pad_only / _differs / _raises). *)
Definition dp_sizematcher (mh mw : option Z) (g : geom) : option geom :=
  let mh' := match mh with Some v => v | None => gh g end in
  let mw' := match mw with Some v => v | None => gw g end in
  if ((mh' <? gh g) || (mw' <? gw g))%Z then None else Some (img_pad_to mh' mw' g).

(* providers.LabelsReaderDP.__iter__ (instances_key=True): non-empty instances,
   ALWAYS NaN-padded by |max_instances - num| (process_lf skips the padding when
   max_instances = 1) *)
Definition dp_labels_reader (maxinst : nat) (raw : list (list kp)) : list (list kp) * nat :=
  let ne := filter nonempty raw in
  let num := length ne in
  let nodes := match ne with i :: _ => length i | [] => O end in
  (ne ++ repeat (repeat None nodes) (absdiff maxinst num), num).

(* `if user_instances_only: if len(lf.user_instances) > 0: lf.instances = lf.user_instances`
   (process_lf, _get_lf_idx_list, _get_instance_idx_list); an instance is
   (is_predicted, keypoints) *)
Definition is_user (i : bool * list kp) : bool := negb (fst i).
Definition user_filter (user_only : bool) (insts : list (bool * list kp)) : list (list kp) :=
  map snd (if user_only then match filter is_user insts with [] => insts | u => u end else insts).
(* LabelsReaderDP.__init__ keeps, under user_instances_only, only the frames that
   HAVE user instances (the functions keep a frame with predicted instances only) *)
Definition dp_reader_keeps (user_only : bool) (insts : list (bool * list kp)) : bool :=
  negb user_only || existsb is_user insts.

(* Resizer on the "instances" key *)
Definition dp_resizer_insts (scale : Q) (x : geom * list (list kp)) : geom * list (list kp) :=
  if negb (Qeq_bool scale 1) then (resize_image scale (fst x), scale_insts scale (snd x)) else x.

(* provider -> Normalizer -> SizeMatcher: the common head of all four pipelines *)
Definition dp_front (c : cfg) (fr : frame) : option (geom * (list (list kp) * nat)) :=
  match dp_sizematcher (c_maxh c) (c_maxw c) (dp_normalizer (c_rgb c) (source_img fr)) with
  | None => None
  | Some g => Some (g, dp_labels_reader (f_maxinst fr) (f_raw fr))
  end.

(* SingleInstanceConfmapsPipeline: Resizer -> PadToStride -> ConfidenceMapGenerator("instances") *)
Definition dp_single (c : cfg) (fr : frame) : option out :=
  match dp_front c fr with
  | None => None
  | Some (g, (kps, num)) =>
      let r := dp_resizer_insts (c_scale c) (g, kps) in
      let g := dp_pad_to_stride (c_ms c) (fst r) in
      Some {| o_img := g; o_pts := snd r; o_cents := []; o_num := num; o_tl := None;
              o_cm := cm_single (snd r) g c; o_paf := None |}
  end.

(* BottomUpPipeline: Resizer -> PadToStride -> MultiConfidenceMapGenerator(centroids=False:
   NO [:num] slice) -> PartAffinityFieldsGenerator *)
Definition dp_bottomup (c : cfg) (fr : frame) : option out :=
  match dp_front c fr with
  | None => None
  | Some (g, (kps, num)) =>
      let r := dp_resizer_insts (c_scale c) (g, kps) in
      let g := dp_pad_to_stride (c_ms c) (fst r) in
      Some {| o_img := g; o_pts := snd r; o_cents := []; o_num := num; o_tl := None;
              o_cm := (snd r, gh g, gw g, c_sigma c, c_stride c); o_paf := paf_of (snd r) g c |}
  end.

(* CentroidConfmapsPipeline: Resizer -> PadToStride -> InstanceCentroidFinder ->
   MultiConfidenceMapGenerator(centroids=True: slices [:num]) *)
Definition dp_centroid (c : cfg) (fr : frame) : option out :=
  match dp_front c fr with
  | None => None
  | Some (g, (kps, num)) =>
      let r := dp_resizer_insts (c_scale c) (g, kps) in
      let g := dp_pad_to_stride (c_ms c) (fst r) in
      let cs := dp_centroid_finder (c_anchor c) (c_wt c) (snd r) in
      Some {| o_img := g; o_pts := snd cs; o_cents := fst cs; o_num := num; o_tl := None;
              o_cm := cm_cent (fst cs) num g c; o_paf := None |}
  end.

(* TopdownConfmapsPipeline, k-th example of the frame: InstanceCentroidFinder ->
   InstanceCropper(crop_hw: no sqrt-2 over-crop, no re-crop) -> Resizer("instance_image",
   "instance": the centroid is not scaled) -> PadToStride -> ConfidenceMapGenerator("instance") *)
Definition dp_topdown (c : cfg) (fr : frame) (k : nat) : option out :=
  match dp_front c fr with
  | None => None
  | Some (g, (kps, num)) =>
      let cs := dp_centroid_finder (c_anchor c) (c_wt c) kps in
      match nth_error (dp_cropper g (c_croph c) (c_cropw c) num O (combine (snd cs) (fst cs))) k with
      | None => None
      | Some r =>
          let x := dp_resizer (c_scale c) (cr_img r, cr_inst r) in
          let g := dp_pad_to_stride (c_ms c) (fst x) in
          Some {| o_img := g; o_pts := [snd x]; o_cents := [cr_cent r]; o_num := num; o_tl := cr_tl r;
                  o_cm := cm_inst (snd x) g c; o_paf := None |}
      end
  end.

Definition dp_pipeline (t : mtype) (c : cfg) (fr : frame) : option out :=
  match t with
  | Single => dp_single c fr
  | BottomUp => dp_bottomup c fr
  | Centroid => dp_centroid c fr
  | Centered k => dp_topdown c fr k
  end.

(* keypoints given in lowest terms (every rational has such a representative; the
   model's results are Qred-normalised, its inputs need not be) *)
Definition kp_normal (p : kp) : Prop :=
  match p with Some (x, y) => Qred x = x /\ Qred y = y | None => True end.
Definition insts_normal (l : list (list kp)) : Prop := Forall (Forall kp_normal) l.

(* the frame already has the target size in one direction and is not larger in
   the other: both size matchers only pad *)
Definition sm_pad_only (c : cfg) (fr : frame) : Prop :=
  exists mh mw, c_maxh c = Some mh /\ c_maxw c = Some mw /\
    (0 < f_h fr <= mh)%Z /\ (0 < f_w fr <= mw)%Z /\ (f_h fr = mh \/ f_w fr = mw).

(* ------------------------------------------------------------------ *)
(* round 4 (review findings 1-6): the configuration as the USER gives it,
   which frames yield samples, the PAF block's filter, SizeMatcher's state  *)

(* (1) max_height / max_width have TWO sources: data_config.preprocessing.max_height /
   max_width (possibly None) and the `max_hw` argument (ModelTrainer passes the labels'
   maximum).  Every docstring prescribes "config if not None, else max_hw".
     - the four *_data_chunks functions do that (get_data_chunks.py: `max_height if
       max_height is not None else max_hw[0]`);
     - BaseDataset / CenteredInstanceDataset / CentroidDataset._fill_cache read ONLY
       `self.max_hw` (x_fx180 = false: the tree as it is; finding C18/F180);
       x_fx180 = true is proposed_fixes/C18_F180.diff (the datasets apply the documented rule).
   `cfg.c_maxh / c_maxw` above are the bounds one framework hands to apply_sizematcher;
   `fw_cfg` resolves them per framework. *)
Record maxsrc := {
  x_cfgh : option Z; x_cfgw : option Z;      (* data_config.preprocessing.max_height / max_width *)
  x_argh : option Z; x_argw : option Z;      (* the max_hw argument *)
  x_fx180 : bool;
  x_fx181 : bool   (* proposed_fixes/C18_F181.diff: SingleInstanceDataset uses max_instances = 1 *)
}.

Definition resolve_max (cfgv argv : option Z) : option Z :=
  match cfgv with Some v => Some v | None => argv end.
Definition st_maxh (x : maxsrc) := resolve_max (x_cfgh x) (x_argh x).
Definition st_maxw (x : maxsrc) := resolve_max (x_cfgw x) (x_argw x).
Definition ds_maxh (x : maxsrc) := if x_fx180 x then st_maxh x else x_argh x.
Definition ds_maxw (x : maxsrc) := if x_fx180 x then st_maxw x else x_argw x.

Definition set_max (c : cfg) (mh mw : option Z) : cfg :=
  {| c_rgb := c_rgb c; c_maxh := mh; c_maxw := mw; c_scale := c_scale c; c_ms := c_ms c;
     c_anchor := c_anchor c; c_croph := c_croph c; c_cropw := c_cropw c; c_sigma := c_sigma c;
     c_stride := c_stride c; c_psigma := c_psigma c; c_pstride := c_pstride c; c_edges := c_edges c;
     c_wt := c_wt c |}.

Definition fw_cfg (f : fw) (x : maxsrc) (c : cfg) : cfg :=
  match f with
  | Str => set_max c (st_maxh x) (st_maxw x)
  | _ => set_max c (ds_maxh x) (ds_maxw x)
  end.

(* (2) SingleInstanceDataset pads to get_max_instances(labels) — counted BEFORE the
   user-instance filter — while single_instance_data_chunks passes max_instances = 1
   (finding C18/F181; x_fx181 = true: the dataset uses 1 too) *)
Definition set_maxinst (fr : frame) (m : nat) : frame :=
  {| f_h := f_h fr; f_w := f_w fr; f_c := f_c fr; f_raw := f_raw fr; f_maxinst := m |}.

Definition fw_frame (t : mtype) (f : fw) (x : maxsrc) (fr : frame) : frame :=
  match t, f with
  | Single, Str => fr
  | Single, _ => if x_fx181 x then set_maxinst fr 1%nat else fr
  | _, _ => fr
  end.

(* the sample framework f returns, from the user's configuration *)
Definition fpipeline (t : mtype) (f : fw) (x : maxsrc) (c : cfg) (fr : frame) : out :=
  pipeline t f (fw_cfg f x c) (fw_frame t f x fr).

(* selectors (decidable).  F180: the two resolution rules give this frame different
   effective bounds (a None bound is the frame's own size). *)
Definition odef (d : Z) (o : option Z) : Z := match o with Some v => v | None => d end.
Definition eff_bounds (mh mw : option Z) (fr : frame) : Z * Z := (odef (f_h fr) mh, odef (f_w fr) mw).
Definition sel_F180 (x : maxsrc) (fr : frame) : bool :=
  negb ((fst (eff_bounds (ds_maxh x) (ds_maxw x) fr) =? fst (eff_bounds (st_maxh x) (st_maxw x) fr))%Z &&
        (snd (eff_bounds (ds_maxh x) (ds_maxw x) fr) =? snd (eff_bounds (st_maxh x) (st_maxw x) fr))%Z).
(* F181: single-instance, the dataset NaN-pads (max_instances <> 1 and <> #non-empty) *)
Definition sel_F181 (t : mtype) (x : maxsrc) (fr : frame) : bool :=
  match t with
  | Single => negb (x_fx181 x) && negb (f_maxinst fr =? 1)%nat &&
              negb (f_maxinst fr =? length (filter nonempty (f_raw fr)))%nat
  | _ => false
  end.

(* (3) which frames yield samples, and how many.  A frame without a non-empty instance
   (no instance at all, or only all-NaN ones) is SKIPPED by the datasets
   (_get_lf_idx_list / _get_instance_idx_list) and makes every *_data_chunks function raise
   (process_lf: np.stack([]) -> ValueError; get_bin_files feeds ALL labelled frames to
   litdata.optimize): finding C18/F182.  None = the framework raises. *)
Inductive mkind := KSingle | KBottomUp | KCentroid | KCentered.
Definition frame_empty (fr : frame) : bool := negb (existsb nonempty (f_raw fr)).
Definition frame_types (kd : mkind) (fr : frame) : list mtype :=
  match kd with
  | KSingle => [Single] | KBottomUp => [BottomUp] | KCentroid => [Centroid]
  | KCentered => map Centered (seq 0 (length (filter nonempty (f_raw fr))))
  end.
Definition frame_samples (kd : mkind) (f : fw) (x : maxsrc) (c : cfg) (fr : frame) : list out :=
  map (fun t => fpipeline t f x c fr) (frame_types kd fr).
Definition fw_samples (kd : mkind) (f : fw) (x : maxsrc) (c : cfg) (frames : list frame) : option (list out) :=
  match f with
  | Str => if existsb frame_empty frames then None
           else Some (flat_map (frame_samples kd Str x c) frames)
  | _ => Some (flat_map (fun fr => if frame_empty fr then [] else frame_samples kd f x c fr) frames)
  end.
(* the same enumeration without the samples: per frame, how many samples *)
Definition fw_counts (kd : mkind) (f : fw) (frames : list frame) : option (list nat) :=
  match f with
  | Str => if existsb frame_empty frames then None
           else Some (map (fun fr => length (frame_types kd fr)) frames)
  | _ => Some (map (fun fr => if frame_empty fr then O else length (frame_types kd fr)) frames)
  end.
Definition sel_F182 (frames : list frame) : bool := existsb frame_empty frames.

(* (4) PartAffinityFieldsGenerator.__iter__ and generate_pafs each carry their own copy of
   the in-image filter `((inst >= 0) & (inst <= [W-1, H-1])).all(-1).any(1)` (NaN compares
   false) followed by get_edge_points; make_multi_pafs (C05) is applied to the result.
   The block reads H, W from ex["image"].shape; the function takes img_hw. *)
Definition edge_points (insts : list (list kp)) (edges : list (nat * nat)) : list (list kp) * list (list kp) :=
  (map (fun i => map (fun e => nth (fst e) i None) edges) insts,
   map (fun i => map (fun e => nth (snd e) i None) edges) insts).
Definition node_in_img (H W : Z) (p : kp) : bool :=
  match p with
  | Some (x, y) => (Qle_bool 0 x && Qle_bool x (qz (W - 1))) && (Qle_bool 0 y && Qle_bool y (qz (H - 1)))
  | None => false
  end.
Definition fn_paf_points (H W : Z) (insts : list (list kp)) (edges : list (nat * nat)) :=
  edge_points (filter (existsb (node_in_img H W)) insts) edges.
(* the block's inline copy, as written there: comparisons on the whole tensor first
   (`>= 0` on x and y, `<= bound` on x and y), then `&`, then all over the coordinate axis *)
Definition dp_node_in_img (g : geom) (p : kp) : bool :=
  match p with
  | Some (x, y) =>
      let ge := (Qle_bool 0 x, Qle_bool 0 y) in
      let le := (Qle_bool x (qz (gw g - 1)), Qle_bool y (qz (gh g - 1))) in
      (fst ge && fst le) && (snd ge && snd le)
  | None => false
  end.
Definition dp_paf_points (g : geom) (insts : list (list kp)) (edges : list (nat * nat)) :=
  edge_points (filter (fun i => existsb (dp_node_in_img g) i) insts) edges.

(* (5) SizeMatcher.__iter__ as the STATEFUL loop it is: `if self.max_height is None:
   self.max_height = img_height` is an assignment to the object, so a None bound is fixed by
   the FIRST image and stays; the iteration ends at the first image that exceeds a bound.
   -> (images yielded, raised?)   dp_sizematcher above is one step from the current state. *)
Fixpoint dp_sizematcher_run (mh mw : option Z) (imgs : list geom) : list geom * bool :=
  match imgs with
  | [] => ([], false)
  | g :: t =>
      let mh' := odef (gh g) mh in
      let mw' := odef (gw g) mw in
      if ((mh' <? gh g) || (mw' <? gw g))%Z then ([], true)
      else let r := dp_sizematcher_run (Some mh') (Some mw') t in (img_pad_to mh' mw' g :: fst r, snd r)
  end.

(* ------------------------------------------------------------------ *)
(* entry point for the correspondence harness                          *)

Inductive case :=
| CPipe (t : mtype) (f : fw) (c : cfg) (fr : frame)
| CBlockNorm (dp : bool) (rgb : bool) (g : geom)
| CBlockResize (dp : bool) (scale : Q) (g : geom) (pts : list kp)
| CBlockPad (ms : Z) (g : geom)
| CBlockCentroid (anchor : option nat) (wt : bool) (insts : list (list kp))
| CBlockCrop (dp : bool) (g : geom) (bh bw : Z) (num : nat) (insts : list (list kp)) (cents : list kp)
| CDPipe (t : mtype) (c : cfg) (fr : frame)                       (* composed legacy pipeline; [] = raises *)
| CBlockSizeMatcher (dp : bool) (mh mw : option Z) (g : geom)     (* [] = raises *)
| CBlockReader (dp : bool) (user_only : bool) (maxinst : nat) (insts : list (bool * list kp))
| CPipeX (t : mtype) (f : fw) (x : maxsrc) (c : cfg) (fr : frame)   (* round 4: per-framework resolution *)
| CBlockPaf (dp : bool) (g : geom) (insts : list (list kp)) (edges : list (nat * nat))
| CBlockSizeMatcherRun (mh mw : option Z) (gs : list geom).          (* last out with o_num = 1: raised *)

(* a uniform result: image geometry, points, centroids, num, top-left, target sizes *)
Definition block_out (g : geom) (pts : list (list kp)) (cents : list kp) : out :=
  {| o_img := g; o_pts := pts; o_cents := cents; o_num := O; o_tl := None;
     o_cm := ([], 0%Z, 0%Z, 0, O); o_paf := None |}.

Definition run (c : case) : list out :=
  match c with
  | CPipe t f c fr => [pipeline t f c fr]
  | CBlockNorm dp rgb g => [block_out ((if dp then dp_normalizer else fn_normalizer) rgb g) [] []]
  | CBlockResize dp s g pts =>
      let r := (if dp then dp_resizer else fn_resizer) s (g, pts) in [block_out (fst r) [snd r] []]
  | CBlockPad ms g => [block_out (dp_pad_to_stride ms g) [] []]
  | CBlockCentroid a wt insts =>
      let r := generate_centroids a wt insts in [block_out (source_img {| f_h := 0; f_w := 0; f_c := 0; f_raw := []; f_maxinst := O |}) (snd r) (fst r)]
  | CBlockCrop dp g bh bw num insts cents =>
      map (fun r => {| o_img := cr_img r; o_pts := [cr_inst r]; o_cents := [cr_cent r]; o_num := num;
                       o_tl := cr_tl r; o_cm := ([], 0%Z, 0%Z, 0, O); o_paf := None |})
          ((if dp then dp_cropper else fn_cropper) g bh bw num O (combine insts cents))
  | CDPipe t c fr => match dp_pipeline t c fr with Some o => [o] | None => [] end
  | CBlockSizeMatcher dp mh mw g =>
      if dp then match dp_sizematcher mh mw g with Some g' => [block_out g' [] []] | None => [] end
      else let r := apply_sizematcher mh mw g in
           [{| o_img := fst r; o_pts := []; o_cents := [Some (snd r, snd r)]; o_num := O; o_tl := None;
               o_cm := ([], 0%Z, 0%Z, 0, O); o_paf := None |}]
  | CBlockReader dp uo maxinst insts =>
      if dp && negb (dp_reader_keeps uo insts) then [] else
      let r := (if dp then dp_labels_reader else process_lf) maxinst (user_filter uo insts) in
      [{| o_img := source_img {| f_h := 0; f_w := 0; f_c := 0; f_raw := []; f_maxinst := O |};
          o_pts := fst r; o_cents := []; o_num := snd r; o_tl := None; o_cm := ([], 0%Z, 0%Z, 0, O); o_paf := None |}]
  | CPipeX t f x c fr => [fpipeline t f x c fr]
  | CBlockPaf dp g insts edges =>
      let r := if dp then dp_paf_points g insts edges else fn_paf_points (gh g) (gw g) insts edges in
      [{| o_img := g; o_pts := fst r; o_cents := []; o_num := length (fst r); o_tl := None;
          o_cm := (snd r, 0%Z, 0%Z, 0, O); o_paf := None |}]
  | CBlockSizeMatcherRun mh mw gs =>
      let r := dp_sizematcher_run mh mw gs in
      map (fun g => block_out g [] []) (fst r) ++
      (if snd r then [{| o_img := source_img {| f_h := 0; f_w := 0; f_c := 0; f_raw := []; f_maxinst := O |};
                         o_pts := []; o_cents := []; o_num := 1%nat; o_tl := None;
                         o_cm := ([], 0%Z, 0%Z, 0, O); o_paf := None |}] else [])
  end.

(* second entry point: the enumeration (which frames yield how many samples; null = raises) *)
Inductive ecase := ECount (kd : mkind) (f : fw) (frames : list frame).
Definition run_enum (e : ecase) : option (list nat) :=
  match e with ECount kd f frames => fw_counts kd f frames end.

From SV Require Import Base.Render.

Definition rkp : kp -> rdr := ropt (rpair rQ rQ).
Definition ramap (m : amap) : rdr := rpair rQ rQ (ma m, mb m).
Definition rgeom (g : geom) : rdr := fun k =>
  rlist (fun r : rdr => r)
    [rlist rZ [gc g; gh g; gw g]; ramap (gx g); ramap (gy g); rbool (gfloat g); rnat (gq g)] k.
Definition rcm (x : cm_in) : rdr :=
  let '(pts, H, W, sg, s) := x in
  rlist (fun r : rdr => r) [rlist (rlist rkp) pts; rZ H; rZ W; rQ sg; rnat s].
Definition rpaf (x : paf_in) : rdr :=
  let '(pts, H, W, sg, s, e) := x in
  rlist (fun r : rdr => r) [rnat (length pts); rZ H; rZ W; rQ sg; rnat s; rlist (rpair rnat rnat) e].
Definition rout (o : out) : rdr :=
  rlist (fun r : rdr => r)
    [rgeom (o_img o); rlist (rlist rkp) (o_pts o); rlist rkp (o_cents o); rnat (o_num o);
     ropt (rpair rQ rQ) (o_tl o); rcm (o_cm o); ropt rpaf (o_paf o)].
Definition routs : list out -> rdr := rlist rout.
Definition renum : option (list nat) -> rdr := ropt (rlist rnat).
