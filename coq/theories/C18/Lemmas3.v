(* Lemmas3.v (C18, round 4) — proofs for the review findings: per-framework resolution of
   max_height / max_width (F180), SingleInstanceDataset's max_instances (F181), which frames
   yield samples (F182), the PAF block's inline filter, SizeMatcher's latched state, the
   number of 8-bit round trips per framework.  Closed under the global context. *)
From Coq Require Import List Arith ZArith QArith Qround Bool Lia.
Import ListNotations.
From SV Require Import C01.ConfMaps C18.Pipelines C18.Lemmas C18.Lemmas2.
Open Scope Q_scope.

Arguments qn : simpl never.
Arguments Qred : simpl never.
Arguments Z.mul : simpl never.
Arguments Z.add : simpl never.
Arguments Z.modulo : simpl never.
Arguments Z.sub : simpl never.

(* ------------------------------------------------------------------ *)
(* (1) apply_sizematcher sees its bounds only through the effective bounds *)

Lemma sizematcher_eff mh mw g :
  apply_sizematcher mh mw g = apply_sizematcher (Some (odef (gh g) mh)) (Some (odef (gw g) mw)) g.
Proof. destruct mh, mw; reflexivity. Qed.

Lemma sizematcher_size mh mw g :
  gh (fst (apply_sizematcher mh mw g)) = odef (gh g) mh /\
  gw (fst (apply_sizematcher mh mw g)) = odef (gw g) mw.
Proof.
  unfold apply_sizematcher.
  change (match mh with Some v => v | None => gh g end) with (odef (gh g) mh).
  change (match mw with Some v => v | None => gw g end) with (odef (gw g) mw).
  destruct ((gh g =? odef (gh g) mh)%Z && (gw g =? odef (gw g) mw)%Z)%bool eqn:E.
  - apply andb_prop in E. destruct E as [E1 E2]. apply Z.eqb_eq in E1, E2. cbn [fst]. now split.
  - cbn [fst]. split; reflexivity.
Qed.

Lemma prep_h c fr : gh (prep_img c (source_img fr)) = f_h fr.
Proof. destruct (prep_geom c (source_img fr)) as (H & _). exact H. Qed.
Lemma prep_w c fr : gw (prep_img c (source_img fr)) = f_w fr.
Proof. destruct (prep_geom c (source_img fr)) as (_ & H & _). exact H. Qed.

Lemma prep_set_max c mh mw g : prep_img (set_max c mh mw) g = prep_img c g.
Proof. reflexivity. Qed.

(* every pipeline reads c_maxh / c_maxw only in `apply_sizematcher .. (prep_img c (source_img fr))` *)
Lemma pipeline_set_max_eff t f c fr mh mw :
  pipeline t f (set_max c mh mw) fr =
  pipeline t f (set_max c (Some (odef (f_h fr) mh)) (Some (odef (f_w fr) mw))) fr.
Proof.
  destruct t, f; cbn [pipeline];
    unfold ds_single, ds_bottomup, ds_centroid, ds_centered, st_single, st_bottomup, st_centroid, st_centered,
           base_fill_cache, chunk_base;
    cbn [set_max c_rgb c_maxh c_maxw c_scale c_ms c_anchor c_croph c_cropw c_sigma c_stride c_psigma c_pstride
         c_edges c_wt];
    rewrite !prep_set_max;
    rewrite (sizematcher_eff mh mw), prep_h, prep_w; reflexivity.
Qed.

Lemma pipeline_eff_bounds t f c fr mh mw mh2 mw2 :
  eff_bounds mh mw fr = eff_bounds mh2 mw2 fr ->
  pipeline t f (set_max c mh mw) fr = pipeline t f (set_max c mh2 mw2) fr.
Proof.
  unfold eff_bounds. intro H. injection H as H1 H2.
  rewrite (pipeline_set_max_eff t f c fr mh mw), (pipeline_set_max_eff t f c fr mh2 mw2), H1, H2. reflexivity.
Qed.

Lemma sel_F180_false x fr : sel_F180 x fr = false ->
  eff_bounds (ds_maxh x) (ds_maxw x) fr = eff_bounds (st_maxh x) (st_maxw x) fr.
Proof.
  unfold sel_F180. intro H. apply negb_false_iff, andb_prop in H. destruct H as [H1 H2].
  apply Z.eqb_eq in H1, H2.
  destruct (eff_bounds (ds_maxh x) (ds_maxw x) fr), (eff_bounds (st_maxh x) (st_maxw x) fr).
  cbn [fst snd] in *. congruence.
Qed.

(* the repair removes the selector; so does a config that sets no bound, or the same bound *)
Lemma fx180_no_selector x fr : x_fx180 x = true -> sel_F180 x fr = false.
Proof.
  intro H. unfold sel_F180, ds_maxh, ds_maxw. rewrite H. now rewrite !Z.eqb_refl.
Qed.

Lemma cfg_none_no_selector x fr : x_cfgh x = None -> x_cfgw x = None -> sel_F180 x fr = false.
Proof.
  intros H1 H2. unfold sel_F180, ds_maxh, ds_maxw, st_maxh, st_maxw, resolve_max. rewrite H1, H2.
  destruct (x_fx180 x); now rewrite !Z.eqb_refl.
Qed.

Lemma cfg_eq_arg_no_selector x fr : x_cfgh x = x_argh x -> x_cfgw x = x_argw x -> sel_F180 x fr = false.
Proof.
  intros H1 H2. unfold sel_F180, ds_maxh, ds_maxw, st_maxh, st_maxw, resolve_max. rewrite H1, H2.
  destruct (x_fx180 x), (x_argh x), (x_argw x); now rewrite !Z.eqb_refl.
Qed.

(* exactness: under the selector the two frameworks' images differ in size right after size matching *)
Lemma sel_F180_sizes_differ x c fr : sel_F180 x fr = true ->
  let a := fst (apply_sizematcher (ds_maxh x) (ds_maxw x) (prep_img c (source_img fr))) in
  let b := fst (apply_sizematcher (st_maxh x) (st_maxw x) (prep_img c (source_img fr))) in
  (gh a, gw a) <> (gh b, gw b).
Proof.
  intros H a b E. subst a b.
  destruct (sizematcher_size (ds_maxh x) (ds_maxw x) (prep_img c (source_img fr))) as [A1 A2].
  destruct (sizematcher_size (st_maxh x) (st_maxw x) (prep_img c (source_img fr))) as [B1 B2].
  rewrite A1, A2, B1, B2, prep_h, prep_w in E. injection E as E1 E2.
  unfold sel_F180, eff_bounds in H. cbn [fst snd] in H. rewrite E1, E2, !Z.eqb_refl in H. discriminate H.
Qed.

(* ------------------------------------------------------------------ *)
(* (2) single-instance: what the dataset needs is that process_lf does not pad *)

Lemma process_lf_nopad M raw : M = 1%nat \/ M = length (filter nonempty raw) ->
  process_lf M raw = process_lf 1 raw.
Proof.
  intros [->| ->]; [reflexivity|]. unfold process_lf. cbn [Nat.eqb].
  destruct (length (filter nonempty raw) =? 1)%nat; [reflexivity|].
  unfold absdiff. rewrite Nat.sub_diag. cbn [Nat.add repeat]. now rewrite app_nil_r.
Qed.

Lemma single_mem_str_gen c fr fr' :
  f_h fr' = f_h fr -> f_w fr' = f_w fr -> f_c fr' = f_c fr -> f_raw fr' = f_raw fr ->
  process_lf (f_maxinst fr') (f_raw fr) = process_lf 1 (f_raw fr) ->
  same_sample (ds_single c fr' false) (st_single c fr).
Proof.
  intros E1 E2 E3 E4 HP. unfold ds_single, st_single, base_fill_cache, chunk_base.
  assert (Hs : source_img fr' = source_img fr) by (unfold source_img; now rewrite E1, E2, E3).
  rewrite Hs, E4, HP. clear HP.
  destruct (process_lf 1 (f_raw fr)) as [kps num].
  destruct (apply_sizematcher _ _ _) as [g eff] eqn:E.
  pose proof (sizematcher_float _ _ _ _ E) as Hg.
  cbv beta iota zeta.
  set (gr := resizer_img (c_scale c) g).
  assert (Hv : img_view (through_npz false (apply_pad_to_stride (c_ms c) gr)) =
               img_view (apply_pad_to_stride (c_ms c) (from_pil (img_to_pil gr)))).
  { unfold through_npz, from_pil. symmetry. apply view_pad, view_roundtrip. unfold gr. now rewrite gfloat_resizer. }
  destruct (view_hw _ _ Hv) as [Hh Hw].
  unfold same_sample, cm_single; cbn [o_img o_pts o_cents o_tl o_cm o_paf].
  rewrite Hh, Hw. repeat split. exact Hv.
Qed.

Lemma sel_F181_false_single x fr : sel_F181 Single x fr = false ->
  x_fx181 x = true \/ f_maxinst fr = 1%nat \/ f_maxinst fr = length (filter nonempty (f_raw fr)).
Proof.
  unfold sel_F181. intro H.
  destruct (x_fx181 x); [now left|right]. cbn [negb andb] in H.
  destruct (Nat.eqb_spec (f_maxinst fr) 1); [now left|right]. cbn [negb andb] in H.
  destruct (Nat.eqb_spec (f_maxinst fr) (length (filter nonempty (f_raw fr)))); [assumption|discriminate H].
Qed.

(* the user-level domain: scale > 0; centered-instance: scale == 1 and an existing sample *)
Definition agree_domain (t : mtype) (c : cfg) (fr : frame) : Prop :=
  0 < c_scale c /\
  match t with
  | Centered k => c_scale c == 1 /\ (k < length (filter nonempty (f_raw fr)))%nat
  | _ => True
  end.

Lemma fw_cfg_scale f x c : c_scale (fw_cfg f x c) = c_scale c.
Proof. destruct f; reflexivity. Qed.

Lemma fpipeline_mem_npc t x c fr : same_sample (fpipeline t Mem x c fr) (fpipeline t Npc x c fr).
Proof.
  unfold fpipeline. change (fw_cfg Npc x c) with (fw_cfg Mem x c).
  replace (fw_frame t Npc x fr) with (fw_frame t Mem x fr) by (destruct t; reflexivity).
  apply mem_npc_same.
Qed.

Lemma fpipeline_mem_str t x c fr :
  agree_domain t c fr -> sel_F180 x fr = false -> sel_F181 t x fr = false ->
  agree t (fpipeline t Mem x c fr) (fpipeline t Str x c fr).
Proof.
  intros [Hs Hd] H180 H181. unfold fpipeline. cbn [fw_cfg].
  assert (Hb : eff_bounds (ds_maxh x) (ds_maxw x) (fw_frame t Mem x fr) =
               eff_bounds (st_maxh x) (st_maxw x) (fw_frame t Mem x fr)).
  { pose proof (sel_F180_false x fr H180) as H. unfold eff_bounds in *.
    destruct t; cbn [fw_frame]; try exact H. destruct (x_fx181 x); exact H. }
  rewrite (pipeline_eff_bounds t Mem c _ _ _ _ _ Hb).
  set (c' := set_max c (st_maxh x) (st_maxw x)).
  destruct t; cbn [fw_frame agree pipeline].
  - (* single *)
    apply sel_F181_false_single in H181.
    destruct (x_fx181 x) eqn:Efx.
    + apply single_mem_str_gen; reflexivity.
    + destruct H181 as [H|H]; [discriminate H|].
      apply single_mem_str_gen; try reflexivity. now apply process_lf_nopad.
  - apply bottomup_mem_str.
  - apply centroid_mem_str. exact Hs.
  - destruct Hd as [H1 Hk]. apply centered_mem_str; assumption.
Qed.

Theorem fframeworks_agree_partial t x c fr :
  agree_domain t c fr -> sel_F180 x fr = false -> sel_F181 t x fr = false ->
  forall f1 f2, agree t (fpipeline t f1 x c fr) (fpipeline t f2 x c fr).
Proof.
  intros Hd H0 H1 f1 f2.
  assert (HM : forall f, agree t (fpipeline t Mem x c fr) (fpipeline t f x c fr)).
  { intros [| |]; [apply agree_refl| |now apply fpipeline_mem_str].
    pose proof (fpipeline_mem_npc t x c fr) as H. destruct t; cbn [agree]; try exact H.
    apply same_sample_weaken, H. }
  eapply agree_trans; [apply agree_sym, HM|apply HM].
Qed.

(* with both repairs no selector is left *)
Theorem fframeworks_agree_repaired t x c fr :
  x_fx180 x = true -> x_fx181 x = true -> agree_domain t c fr ->
  forall f1 f2, agree t (fpipeline t f1 x c fr) (fpipeline t f2 x c fr).
Proof.
  intros H0 H1 Hd. apply fframeworks_agree_partial; [exact Hd|now apply fx180_no_selector|].
  unfold sel_F181. rewrite H1. destruct t; reflexivity.
Qed.

(* witnesses of the two refutations (the tree as it is: both flags false) *)
Definition wx (cfgm argm : option Z) : maxsrc :=
  {| x_cfgh := cfgm; x_cfgw := cfgm; x_argh := argm; x_argw := argm; x_fx180 := false; x_fx181 := false |}.
Definition wcfg0 : cfg :=
  {| c_rgb := false; c_maxh := None; c_maxw := None; c_scale := 1; c_ms := 1%Z;
     c_anchor := None; c_croph := 32%Z; c_cropw := 32%Z; c_sigma := 3 # 2; c_stride := 2%nat;
     c_psigma := 4; c_pstride := 4%nat; c_edges := [(0, 1)%nat]; c_wt := false |}.
Definition wframe64 (raw : list (list kp)) (m : nat) : frame :=
  {| f_h := 64%Z; f_w := 64%Z; f_c := 1%Z; f_raw := raw; f_maxinst := m |}.

(* F180: 64x64 frame, config max 128, argument (labels' maximum) 64 *)
Lemma F180_witness :
  let fr := wframe64 [[Some (20, 30); Some (40, 44)]] 1%nat in
  let x := wx (Some 128%Z) (Some 64%Z) in
  agree_domain Single wcfg0 fr /\ sel_F180 x fr = true /\ sel_F181 Single x fr = false /\
  (gh (o_img (fpipeline Single Mem x wcfg0 fr)), gw (o_img (fpipeline Single Mem x wcfg0 fr))) = (64%Z, 64%Z) /\
  (gh (o_img (fpipeline Single Str x wcfg0 fr)), gw (o_img (fpipeline Single Str x wcfg0 fr))) = (128%Z, 128%Z) /\
  o_pts (fpipeline Single Mem x wcfg0 fr) = [[Some (20, 30); Some (40, 44)]] /\
  o_pts (fpipeline Single Str x wcfg0 fr) = [[Some (40, 60); Some (80, 88)]] /\
  (forall t, t = Single \/ t = BottomUp \/ t = Centroid \/ t = Centered 0 ->
     ~ agree t (fpipeline t Mem x wcfg0 fr) (fpipeline t Str x wcfg0 fr)).
Proof.
  cbv zeta. split; [split; [reflexivity|exact I]|].
  split; [reflexivity|]. split; [reflexivity|].
  split; [vm_compute; reflexivity|]. split; [vm_compute; reflexivity|].
  split; [vm_compute; reflexivity|]. split; [vm_compute; reflexivity|].
  intros t [->|[->|[->| ->]]]; cbn [agree]; unfold same_sample, same_sample_centroid;
    intros (_ & H); vm_compute in H; decompose [and] H; discriminate.
Qed.

(* F181: a user instance and a predicted instance in the frame, user_instances_only:
   get_max_instances = 2 (counted before the filter), one instance left *)
Lemma F181_witness :
  let fr := wframe64 [[Some (20, 30); Some (40, 44)]] 2%nat in
  let x := wx None (Some 64%Z) in
  agree_domain Single wcfg0 fr /\ sel_F180 x fr = false /\ sel_F181 Single x fr = true /\
  length (o_pts (fpipeline Single Mem x wcfg0 fr)) = 2%nat /\
  length (o_pts (fpipeline Single Str x wcfg0 fr)) = 1%nat /\
  (let '(p, _, _, _, _) := o_cm (fpipeline Single Mem x wcfg0 fr) in map (@length kp) p) = [4%nat] /\
  (let '(p, _, _, _, _) := o_cm (fpipeline Single Str x wcfg0 fr) in map (@length kp) p) = [2%nat] /\
  ~ agree Single (fpipeline Single Mem x wcfg0 fr) (fpipeline Single Str x wcfg0 fr).
Proof.
  cbv zeta. split; [split; [reflexivity|exact I]|].
  repeat (split; [vm_compute; reflexivity|]).
  cbn [agree]. unfold same_sample. intros (_ & H & _). vm_compute in H. discriminate H.
Qed.

(* exactness of F181 in general: under the selector the two `instances` tensors have a
   different number of rows *)
Lemma resizer_insts_length s l : length (resizer_insts s l) = length l.
Proof. unfold resizer_insts, scale_insts. destruct (Qeq_bool s 1); [reflexivity|apply map_length]. Qed.

Lemma sel_F181_rows_differ x c fr : sel_F181 Single x fr = true ->
  length (o_pts (fpipeline Single Mem x c fr)) <> length (o_pts (fpipeline Single Str x c fr)).
Proof.
  unfold sel_F181. intro H. apply andb_prop in H. destruct H as [H H3]. apply andb_prop in H. destruct H as [H1 H2].
  apply negb_true_iff in H1, H2, H3. apply Nat.eqb_neq in H2, H3.
  unfold fpipeline. cbn [fw_frame fw_cfg pipeline]. rewrite H1.
  unfold ds_single, st_single, base_fill_cache, chunk_base.
  cbn [set_max c_rgb c_maxh c_maxw c_scale c_ms].
  unfold process_lf. apply Nat.eqb_neq in H2. rewrite H2. cbn [Nat.eqb].
  destruct (apply_sizematcher (ds_maxh x) _ _) as [g1 e1].
  destruct (apply_sizematcher (st_maxh x) _ _) as [g2 e2].
  cbn [o_pts]. rewrite !resizer_insts_length. unfold scale_insts. rewrite !map_length, app_length, repeat_length.
  unfold absdiff. lia.
Qed.

(* ------------------------------------------------------------------ *)
(* (3) which frames yield samples                                      *)

Lemma frame_empty_false fr : frame_empty fr = false -> (0 < length (filter nonempty (f_raw fr)))%nat.
Proof.
  unfold frame_empty. intro H. apply negb_false_iff in H. apply existsb_exists in H.
  destruct H as (i & Hi & Hn).
  assert (In i (filter nonempty (f_raw fr))) by (apply filter_In; now split).
  destruct (filter nonempty (f_raw fr)); [contradiction|simpl; lia].
Qed.

Lemma fw_samples_raises kd f x c frames :
  fw_samples kd f x c frames = None <-> (f = Str /\ sel_F182 frames = true).
Proof.
  unfold fw_samples, sel_F182. destruct f; try (split; [discriminate|intros [H _]; discriminate H]).
  destruct (existsb frame_empty frames); split; try discriminate; try (intros [_ H]; discriminate H); now split.
Qed.

Lemma fw_counts_raises kd f frames :
  fw_counts kd f frames = None <-> (f = Str /\ sel_F182 frames = true).
Proof.
  unfold fw_counts, sel_F182. destruct f; try (split; [discriminate|intros [H _]; discriminate H]).
  destruct (existsb frame_empty frames); split; try discriminate; try (intros [_ H]; discriminate H); now split.
Qed.

Lemma sel_F182_spec frames : sel_F182 frames = true <-> exists fr, In fr frames /\ filter nonempty (f_raw fr) = [].
Proof.
  unfold sel_F182. rewrite existsb_exists. split; intros (fr & Hin & H); exists fr; (split; [exact Hin|]).
  - unfold frame_empty in H. apply negb_true_iff in H.
    destruct (filter nonempty (f_raw fr)) as [|i l] eqn:E; [reflexivity|].
    assert (Hi : In i (filter nonempty (f_raw fr))) by (rewrite E; now left).
    apply filter_In in Hi. destruct Hi as [Hi Hn].
    assert (existsb nonempty (f_raw fr) = true) by (apply existsb_exists; now exists i). congruence.
  - unfold frame_empty. apply negb_true_iff. destruct (existsb nonempty (f_raw fr)) eqn:E; [|reflexivity].
    apply existsb_exists in E. destruct E as (i & Hi & Hn).
    assert (In i (filter nonempty (f_raw fr))) by (apply filter_In; now split). rewrite H in H0. contradiction.
Qed.

Lemma flat_map_length_sum {A B} (F : A -> list B) l :
  length (flat_map F l) = list_sum (map (fun a => length (F a)) l).
Proof. induction l as [|a l IH]; [reflexivity|]. simpl. now rewrite app_length, IH. Qed.

(* the list of samples has the lengths fw_counts says, frame by frame *)
Lemma fw_samples_counts kd f x c frames :
  option_map (@length out) (fw_samples kd f x c frames) = option_map list_sum (fw_counts kd f frames).
Proof.
  unfold fw_samples, fw_counts.
  destruct f; try (cbn [option_map]; f_equal; rewrite flat_map_length_sum; f_equal; apply map_ext; intro fr;
                   destruct (frame_empty fr); [reflexivity|unfold frame_samples; apply map_length]).
  destruct (existsb frame_empty frames); [reflexivity|]. cbn [option_map]. f_equal.
  rewrite flat_map_length_sum. f_equal. apply map_ext. intro fr. unfold frame_samples. apply map_length.
Qed.

Lemma Forall2_flat_map {A B} (R : B -> B -> Prop) (F G : A -> list B) l :
  Forall (fun a => Forall2 R (F a) (G a)) l -> Forall2 R (flat_map F l) (flat_map G l).
Proof.
  induction 1 as [|a l Ha Hl IH]; [constructor|]. simpl. now apply Forall2_app.
Qed.

Lemma Forall2_map_same {A B} (R : B -> B -> Prop) (F G : A -> B) l :
  Forall (fun a => R (F a) (G a)) l -> Forall2 R (map F l) (map G l).
Proof. induction 1; simpl; constructor; assumption. Qed.

Lemma flat_map_skip {B} (F : frame -> list B) frames :
  (forall fr, In fr frames -> frame_empty fr = false) ->
  flat_map (fun fr => if frame_empty fr then [] else F fr) frames = flat_map F frames.
Proof.
  induction frames as [|fr t IH]; intro H; [reflexivity|]. simpl.
  rewrite (H fr) by now left. f_equal. apply IH. intros; apply H; now right.
Qed.

Definition kind_agree (kd : mkind) (a b : out) : Prop :=
  match kd with KCentroid => same_sample_centroid a b | _ => same_sample a b end.

Definition kind_domain (kd : mkind) (c : cfg) : Prop :=
  0 < c_scale c /\ match kd with KCentered => c_scale c == 1 | _ => True end.

Definition kind_sel_F181 (kd : mkind) (x : maxsrc) (fr : frame) : bool :=
  match kd with KSingle => sel_F181 Single x fr | _ => false end.

Lemma frame_samples_agree kd x c fr f1 f2 :
  kind_domain kd c -> sel_F180 x fr = false -> kind_sel_F181 kd x fr = false ->
  Forall2 (kind_agree kd) (frame_samples kd f1 x c fr) (frame_samples kd f2 x c fr).
Proof.
  intros [Hs Hd] H0 H1. unfold frame_samples. apply Forall2_map_same.
  destruct kd; cbn [frame_types kind_agree].
  - constructor; [|constructor]. apply (fframeworks_agree_partial Single x c fr); try assumption. now split.
  - constructor; [|constructor]. apply (fframeworks_agree_partial BottomUp x c fr); try reflexivity; try assumption. now split.
  - constructor; [|constructor]. apply (fframeworks_agree_partial Centroid x c fr); try reflexivity; try assumption. now split.
  - apply Forall_forall. intros t Ht. apply in_map_iff in Ht. destruct Ht as (k & <- & Hk).
    apply in_seq in Hk.
    apply (fframeworks_agree_partial (Centered k) x c fr); try reflexivity; try assumption.
    split; [exact Hs|]. split; [exact Hd|lia].
Qed.

(* label-set level: no frame without a non-empty instance, no selector on any frame =>
   every framework yields samples, the same number per frame, pairwise agreeing *)
Theorem samples_agree_partial kd x c frames :
  kind_domain kd c -> sel_F182 frames = false ->
  Forall (fun fr => sel_F180 x fr = false /\ kind_sel_F181 kd x fr = false) frames ->
  forall f1 f2, exists l1 l2,
    fw_samples kd f1 x c frames = Some l1 /\ fw_samples kd f2 x c frames = Some l2 /\
    Forall2 (kind_agree kd) l1 l2.
Proof.
  intros Hd H2 Hf f1 f2.
  assert (Hne : forall fr, In fr frames -> frame_empty fr = false).
  { intros fr Hin. unfold sel_F182 in H2. destruct (frame_empty fr) eqn:E; [|reflexivity].
    assert (existsb frame_empty frames = true) by (apply existsb_exists; now exists fr). congruence. }
  assert (Hall : forall f, fw_samples kd f x c frames = Some (flat_map (frame_samples kd f x c) frames)).
  { intro f. unfold fw_samples. unfold sel_F182 in H2.
    destruct f; try (now rewrite H2); f_equal; now apply flat_map_skip. }
  exists (flat_map (frame_samples kd f1 x c) frames), (flat_map (frame_samples kd f2 x c) frames).
  split; [apply Hall|]. split; [apply Hall|].
  apply Forall2_flat_map. eapply Forall_impl; [|exact Hf].
  intros fr [A B]. now apply frame_samples_agree.
Qed.

(* F182: a frame without a non-empty instance: the datasets yield (skipping it), the chunk path raises *)
Theorem empty_frame_differs kd x c frames : sel_F182 frames = true ->
  fw_samples kd Str x c frames = None /\
  (exists l, fw_samples kd Mem x c frames = Some l) /\ (exists l, fw_samples kd Npc x c frames = Some l).
Proof.
  intro H. split; [apply fw_samples_raises; now split|]. split; eexists; reflexivity.
Qed.

Lemma F182_witness :
  let frames := [wframe64 [[Some (20, 30); Some (40, 44)]] 1%nat; wframe64 [] 1%nat;
                 wframe64 [[None; None]] 1%nat] in
  sel_F182 frames = true /\
  fw_counts KBottomUp Mem frames = Some [1; 0; 0]%nat /\ fw_counts KBottomUp Npc frames = Some [1; 0; 0]%nat /\
  fw_counts KBottomUp Str frames = None /\ fw_counts KCentered Mem frames = Some [1; 0; 0]%nat.
Proof. vm_compute. repeat split. Qed.

(* k out of range: Centered k has no sample in ANY framework (frame_types enumerates k < #non-empty) *)
Lemma frame_types_centered fr t : In t (frame_types KCentered fr) <->
  exists k, t = Centered k /\ (k < length (filter nonempty (f_raw fr)))%nat.
Proof.
  cbn [frame_types]. rewrite in_map_iff. split.
  - intros (k & <- & Hk). apply in_seq in Hk. exists k. split; [reflexivity|lia].
  - intros (k & -> & Hk). exists k. split; [reflexivity|]. apply in_seq. lia.
Qed.

(* ------------------------------------------------------------------ *)
(* (4) the PAF block's inline filter                                   *)

Lemma dp_node_in_img_eq g p : dp_node_in_img g p = node_in_img (gh g) (gw g) p.
Proof. destruct p as [[x y]|]; reflexivity. Qed.

Lemma dp_paf_points_eq g insts edges : dp_paf_points g insts edges = fn_paf_points (gh g) (gw g) insts edges.
Proof.
  (* the two spellings of the test (tensor-wise comparisons then `&`, vs per node) are convertible *)
  unfold dp_paf_points, fn_paf_points. f_equal.
Qed.

(* what the filter keeps: the animals with a labelled node in the closed pixel rectangle *)
Lemma node_in_img_spec H W p : node_in_img H W p = true <->
  exists x y, p = Some (x, y) /\ 0 <= x /\ x <= qz (W - 1) /\ 0 <= y /\ y <= qz (H - 1).
Proof.
  destruct p as [[x y]|]; cbn [node_in_img].
  - rewrite !andb_true_iff, !Qle_bool_iff. split.
    + intros [[A B] [C D]]. exists x, y. repeat split; assumption.
    + intros (x' & y' & E & A & B & C & D). injection E as -> ->. repeat split; assumption.
  - split; [discriminate|]. intros (x & y & E & _). discriminate E.
Qed.

Lemma paf_keep_spec H W insts i :
  In i (filter (existsb (node_in_img H W)) insts) <->
  In i insts /\ exists x y, In (Some (x, y)) i /\ 0 <= x /\ x <= qz (W - 1) /\ 0 <= y /\ y <= qz (H - 1).
Proof.
  rewrite filter_In, existsb_exists. split; intros [Hin Hx]; (split; [exact Hin|]).
  - destruct Hx as (p & Hp & Hn). apply node_in_img_spec in Hn. destruct Hn as (x & y & -> & Hr).
    exists x, y. now split.
  - destruct Hx as (x & y & Hp & Hr). exists (Some (x, y)). split; [exact Hp|]. apply node_in_img_spec.
    exists x, y. now split.
Qed.

(* process_lf's NaN padding never reaches make_multi_pafs: bottom-up PAFs are a function of
   the first num_instances rows only, in the block as in the function *)
Lemma existsb_repeat_none H W n : existsb (node_in_img H W) (repeat None n) = false.
Proof. induction n; [reflexivity|exact IHn]. Qed.

Lemma paf_padding_dropped H W l n k edges :
  fn_paf_points H W (l ++ repeat (repeat None n) k) edges = fn_paf_points H W l edges.
Proof.
  unfold fn_paf_points. f_equal. rewrite filter_app.
  match goal with |- context [filter ?f (repeat ?r k)] => assert (E : filter f (repeat r k) = []) end.
  { induction k; [reflexivity|]. simpl. now rewrite existsb_repeat_none. }
  etransitivity; [|apply app_nil_r]. f_equal. exact E.
Qed.

Lemma paf_example :
  (* 20x10 image: a node exactly on the last pixel keeps the animal, one just outside drops it *)
  fst (fn_paf_points 10 20 [[Some (19, 5); Some (25, 12)]; [Some (77 # 4, 10); Some (20, 5)]; [None; None]] [(0, 1)%nat])
    = [[Some (19, 5)]] /\
  dp_paf_points (wsrc 10 20) [[Some (19, 5); Some (25, 12)]; [Some (77 # 4, 10); Some (20, 5)]; [None; None]] [(0, 1)%nat]
    = ([[Some (19, 5)]], [[Some (25, 12)]]).
Proof. vm_compute. split; reflexivity. Qed.

(* ------------------------------------------------------------------ *)
(* (5) SizeMatcher's latched state                                     *)

Lemma dp_sizematcher_run_step mh mw g t :
  dp_sizematcher_run mh mw (g :: t) =
  match dp_sizematcher mh mw g with
  | None => ([], true)
  | Some g' => let r := dp_sizematcher_run (Some (odef (gh g) mh)) (Some (odef (gw g) mw)) t in (g' :: fst r, snd r)
  end.
Proof.
  cbn [dp_sizematcher_run]. unfold dp_sizematcher.
  change (match mh with Some v => v | None => gh g end) with (odef (gh g) mh).
  change (match mw with Some v => v | None => gw g end) with (odef (gw g) mw).
  destruct ((odef (gh g) mh <? gh g)%Z || (odef (gw g) mw <? gw g)%Z)%bool; reflexivity.
Qed.

(* both bounds given: the state never changes; every yielded image has the bounds' size and
   the run is the per-image block up to the first image that exceeds a bound *)
Lemma dp_sizematcher_run_some mh mw gs :
  Forall (fun g => gh g = mh /\ gw g = mw) (fst (dp_sizematcher_run (Some mh) (Some mw) gs)) /\
  (snd (dp_sizematcher_run (Some mh) (Some mw) gs) = false <->
   Forall (fun g => dp_sizematcher (Some mh) (Some mw) g <> None) gs) /\
  (snd (dp_sizematcher_run (Some mh) (Some mw) gs) = false ->
   map Some (fst (dp_sizematcher_run (Some mh) (Some mw) gs)) = map (dp_sizematcher (Some mh) (Some mw)) gs).
Proof.
  induction gs as [|g t (IH1 & IH2 & IH3)].
  - cbn. repeat split; constructor.
  - rewrite dp_sizematcher_run_step. cbn [odef].
    destruct (dp_sizematcher (Some mh) (Some mw) g) as [g'|] eqn:E.
    + cbv zeta. cbn [fst snd]. split; [|split].
      * constructor; [|exact IH1]. unfold dp_sizematcher in E.
        destruct ((mh <? gh g)%Z || (mw <? gw g)%Z)%bool; [discriminate E|]. injection E as <-. now split.
      * rewrite IH2. split; intro H.
        -- constructor; [rewrite E; discriminate|exact H].
        -- now inversion H.
      * intro H. cbn [map]. rewrite E. f_equal. now apply IH3.
    + cbn [fst snd]. split; [constructor|]. split.
      * split; [discriminate|]. intro H. inversion H. contradiction.
      * discriminate.
Qed.

(* a None bound is fixed by the first image (the reviewer's experiment: max_height 20,
   max_width None on widths 30, 24, 40 -> 30, 30 (padded), raise) — per image it would be 30, 24, 40 *)
Lemma dp_sizematcher_latch :
  let gs := [wsrc 20 30; wsrc 20 24; wsrc 20 40] in
  map (fun g => gw g) (fst (dp_sizematcher_run (Some 20%Z) None gs)) = [30%Z; 30%Z] /\
  snd (dp_sizematcher_run (Some 20%Z) None gs) = true /\
  map (fun g => option_map (fun g' => gw g') (dp_sizematcher (Some 20%Z) None g)) gs = [Some 30%Z; Some 24%Z; Some 40%Z].
Proof. vm_compute. repeat split. Qed.

Lemma dp_sizematcher_run_none_first g t :
  dp_sizematcher_run None None (g :: t) =
  (g :: fst (dp_sizematcher_run (Some (gh g)) (Some (gw g)) t), snd (dp_sizematcher_run (Some (gh g)) (Some (gw g)) t)).
Proof.
  cbn [dp_sizematcher_run odef]. rewrite !Z.ltb_irrefl. cbn [orb].
  unfold img_pad_to. now rewrite set_size_id.
Qed.

(* ------------------------------------------------------------------ *)
(* (6) "up to 8-bit quantisation": the number of round trips per framework *)

Lemma gq_normalization g : gq (apply_normalization g) = gq g.
Proof. unfold apply_normalization. destruct (gfloat g); reflexivity. Qed.
Lemma gq_prep c g : gq (prep_img c g) = gq g.
Proof.
  unfold prep_img, convert_to_rgb, convert_to_grayscale.
  destruct (c_rgb c); [destruct (_ =? 3)%Z|destruct (_ =? 1)%Z]; cbn [gq]; apply gq_normalization.
Qed.
Lemma gq_sizematcher mh mw g : gq (fst (apply_sizematcher mh mw g)) = gq g.
Proof. unfold apply_sizematcher. destruct (_ && _)%bool; reflexivity. Qed.
Lemma gq_resizer s g : gq (resizer_img s g) = gq g.
Proof. unfold resizer_img. destruct (Qeq_bool s 1); reflexivity. Qed.
Lemma gq_pad ms g : gq (apply_pad_to_stride ms g) = gq g.
Proof. unfold apply_pad_to_stride. destruct (1 <? ms)%Z; reflexivity. Qed.
Lemma gq_crops g i c h w : gq (cr_img (generate_crops g i c h w)) = gq g.
Proof. unfold generate_crops. destruct c; reflexivity. Qed.
Lemma gq_npz b g : gq (through_npz b g) = ((if b then 1 else 0) + gq g)%nat.
Proof. destruct b; [|reflexivity]. unfold through_npz, img_from_npz. now rewrite gq_normalization. Qed.
Lemma gq_pil g : gq (from_pil (img_to_pil g)) = S (gq g).
Proof. unfold from_pil. now rewrite gq_normalization. Qed.

Lemma gq_front c fr : gq (fst (apply_sizematcher (c_maxh c) (c_maxw c) (prep_img c (source_img fr)))) = O.
Proof. now rewrite gq_sizematcher, gq_prep. Qed.

Definition trips (f : fw) : nat := match f with Mem => 0 | _ => 1 end.

Theorem quantisation_count t f c fr : gq (o_img (pipeline t f c fr)) = trips f.
Proof.
  pose proof (gq_front c fr) as HF.
  destruct t, f; cbn [pipeline trips];
    unfold ds_single, ds_bottomup, ds_centroid, ds_centered, st_single, st_bottomup, st_centroid, st_centered,
           base_fill_cache, chunk_base;
    repeat match goal with |- context [process_lf ?a ?b] => destruct (process_lf a b) end;
    destruct (apply_sizematcher _ _ _) as [g eff]; cbn [fst] in HF;
    repeat match goal with
           | |- context [generate_centroids ?a ?b ?c] => destruct (generate_centroids a b c)
           | |- context [generate_centroid ?a ?b ?c] => destruct (generate_centroid a b c)
           end;
    cbv beta iota zeta; cbn [o_img];
    rewrite ?gq_pad, ?gq_crops, ?gq_npz, ?gq_pil, ?gq_pad, ?gq_crops, ?gq_npz, ?gq_pil, ?gq_resizer, ?gq_crops,
            ?gq_pad, ?gq_resizer, ?gq_crops, ?gq_resizer, HF; reflexivity.
Qed.

Theorem fquantisation_count t f x c fr : gq (o_img (fpipeline t f x c fr)) = trips f.
Proof. apply quantisation_count. Qed.

(* ------------------------------------------------------------------ *)
(* (7) round 6: max_height and max_width are resolved PER DIMENSION, by every framework.
   `resolve_max` is applied to (config height, argument height) and, separately, to (config width,
   argument width): with exactly ONE of the two config values set, the set one is used and the
   other dimension falls back to the max_hw argument.  `joint_max` is the all-or-nothing rule
   ("the config pair only when BOTH are set, else max_hw") — NOT what any framework does; it is
   defined only to state that the two rules differ exactly on the mixed configurations. *)

Lemma resolve_max_table : forall v a, resolve_max (Some v) a = Some v /\ resolve_max None a = a.
Proof. intros; split; reflexivity. Qed.

(* the chunk functions: unconditionally; the dataset classes: on the repaired tree (x_fx180) *)
Lemma str_bounds_per_dimension : forall x c,
  c_maxh (fw_cfg Str x c) = resolve_max (x_cfgh x) (x_argh x) /\
  c_maxw (fw_cfg Str x c) = resolve_max (x_cfgw x) (x_argw x).
Proof. intros; split; reflexivity. Qed.

Lemma fw_bounds_per_dimension : forall f x c, x_fx180 x = true ->
  c_maxh (fw_cfg f x c) = resolve_max (x_cfgh x) (x_argh x) /\
  c_maxw (fw_cfg f x c) = resolve_max (x_cfgw x) (x_argw x).
Proof.
  intros f x c H; destruct f; unfold fw_cfg, set_max, ds_maxh, ds_maxw, st_maxh, st_maxw; rewrite ?H;
    cbn [c_maxh c_maxw]; split; reflexivity.
Qed.

(* all 16 combinations (each of the four sources None / Some): every framework hands the same two
   bounds to apply_sizematcher *)
Lemma fw_bounds_same : forall f1 f2 x c, x_fx180 x = true ->
  c_maxh (fw_cfg f1 x c) = c_maxh (fw_cfg f2 x c) /\ c_maxw (fw_cfg f1 x c) = c_maxw (fw_cfg f2 x c).
Proof.
  intros f1 f2 x c H.
  destruct (fw_bounds_per_dimension f1 x c H) as [A B], (fw_bounds_per_dimension f2 x c H) as [C D].
  rewrite A, B, C, D; split; reflexivity.
Qed.

(* the height bound does not look at the width's sources, and vice versa *)
Lemma fw_bound_ignores_other_dimension : forall f x x' c c',
  x_fx180 x = true -> x_fx180 x' = true ->
  (x_cfgh x = x_cfgh x' -> x_argh x = x_argh x' -> c_maxh (fw_cfg f x c) = c_maxh (fw_cfg f x' c')) /\
  (x_cfgw x = x_cfgw x' -> x_argw x = x_argw x' -> c_maxw (fw_cfg f x c) = c_maxw (fw_cfg f x' c')).
Proof.
  intros f x x' c c' H H'.
  destruct (fw_bounds_per_dimension f x c H) as [A B], (fw_bounds_per_dimension f x' c' H') as [C D].
  rewrite A, B, C, D; split; intros E1 E2; rewrite E1, E2; reflexivity.
Qed.

Definition joint_max (x : maxsrc) : option Z * option Z :=
  match x_cfgh x, x_cfgw x with
  | Some h, Some w => (Some h, Some w)
  | _, _ => (x_argh x, x_argw x)
  end.

(* the all-or-nothing rule coincides with the per-dimension rule exactly when both config values
   are set, or none is, or the only one that is set repeats the argument *)
Lemma joint_max_agrees_iff : forall x,
  joint_max x = (st_maxh x, st_maxw x) <->
  ((x_cfgh x = None <-> x_cfgw x = None) \/
   (x_cfgw x = None /\ x_cfgh x = x_argh x) \/
   (x_cfgh x = None /\ x_cfgw x = x_argw x)).
Proof.
  intros [[h|] [w|] ah aw b1 b2]; unfold joint_max, st_maxh, st_maxw, resolve_max;
    cbn [x_cfgh x_cfgw x_argh x_argw]; split; intros H.
  - left; split; intros E; discriminate E.
  - reflexivity.
  - right; left; split; [reflexivity | congruence].
  - destruct H as [[_ H]|[[_ E]|[E _]]];
      [specialize (H eq_refl); discriminate H | rewrite <- E; reflexivity | discriminate E].
  - right; right; split; [reflexivity | congruence].
  - destruct H as [[H _]|[[E _]|[_ E]]];
      [specialize (H eq_refl); discriminate H | discriminate E | rewrite <- E; reflexivity].
  - left; tauto.
  - reflexivity.
Qed.

(* exactly ONE config value set: 64x64 frame, argument (labels' maximum) 64x64.
   max_height = 128, max_width = None: every framework pads to 128x64 (keypoints unchanged);
   the all-or-nothing rule would keep 64x64.
   max_height = None, max_width = 32: every framework scales by 1/2 and pads to 64x32 (keypoints halved);
   the all-or-nothing rule would keep 64x64 and the keypoints. *)
Definition wxm (ch cw : option Z) : maxsrc :=
  {| x_cfgh := ch; x_cfgw := cw; x_argh := Some 64%Z; x_argw := Some 64%Z; x_fx180 := true; x_fx181 := true |}.
Definition osize (o : out) : Z * Z := (gh (o_img o), gw (o_img o)).

Lemma mixed_bounds_witness :
  let fr := wframe64 [[Some (20, 30); Some (40, 44)]] 1%nat in
  let xa := wxm (Some 128%Z) None in
  let xb := wxm None (Some 32%Z) in
  (forall f, osize (fpipeline Single f xa wcfg0 fr) = (128%Z, 64%Z) /\
             o_pts (fpipeline Single f xa wcfg0 fr) = [[Some (20, 30); Some (40, 44)]]) /\
  (forall f, osize (fpipeline Single f xb wcfg0 fr) = (64%Z, 32%Z) /\
             o_pts (fpipeline Single f xb wcfg0 fr) = [[Some (10, 15); Some (20, 22)]]) /\
  joint_max xa = (Some 64%Z, Some 64%Z) /\ joint_max xb = (Some 64%Z, Some 64%Z) /\
  (forall f x, x = xa \/ x = xb ->
     osize (pipeline Single f (set_max wcfg0 (fst (joint_max x)) (snd (joint_max x))) fr) = (64%Z, 64%Z) /\
     o_pts (pipeline Single f (set_max wcfg0 (fst (joint_max x)) (snd (joint_max x))) fr) = [[Some (20, 30); Some (40, 44)]]) /\
  (forall t, t = Single \/ t = BottomUp \/ t = Centroid \/ t = Centered 0 ->
     forall x, x = xa \/ x = xb ->
     agree_domain t wcfg0 fr /\
     (forall f1 f2, agree t (fpipeline t f1 x wcfg0 fr) (fpipeline t f2 x wcfg0 fr))) /\
  (* a chunk function with the all-or-nothing rule would NOT agree with the datasets (padding only: the
     centered crop is the same, the three full-image types differ; down-scaling: all four differ) *)
  (forall t, t = Single \/ t = BottomUp \/ t = Centroid ->
     ~ agree t (fpipeline t Mem xa wcfg0 fr)
               (pipeline t Str (set_max wcfg0 (fst (joint_max xa)) (snd (joint_max xa))) fr)) /\
  (forall t, t = Single \/ t = BottomUp \/ t = Centroid \/ t = Centered 0 ->
     ~ agree t (fpipeline t Mem xb wcfg0 fr)
               (pipeline t Str (set_max wcfg0 (fst (joint_max xb)) (snd (joint_max xb))) fr)).
Proof.
  cbv zeta.
  split; [intros f; destruct f; split; vm_compute; reflexivity|].
  split; [intros f; destruct f; split; vm_compute; reflexivity|].
  split; [reflexivity|]. split; [reflexivity|].
  split; [intros f x [->| ->]; destruct f; split; vm_compute; reflexivity|].
  split.
  { intros t Ht x Hx.
    assert (D : agree_domain t wcfg0 (wframe64 [[Some (20, 30); Some (40, 44)]] 1%nat)).
    { destruct Ht as [->|[->|[->| ->]]]; (split; [reflexivity|]); try exact I.
      split; [reflexivity|]. vm_compute. apply le_n. }
    split; [exact D|].
    apply fframeworks_agree_repaired; [destruct Hx as [->| ->]; reflexivity ..|exact D]. }
  split.
  - intros t [->|[->| ->]]; cbn [agree]; unfold same_sample, same_sample_centroid;
      intros H; vm_compute in H; decompose [and] H; discriminate.
  - intros t [->|[->|[->| ->]]]; cbn [agree]; unfold same_sample, same_sample_centroid;
      intros H; vm_compute in H; decompose [and] H; discriminate.
Qed.
