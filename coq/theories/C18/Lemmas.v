(* Lemmas.v (C18) — proofs about C18/Pipelines.v.  Statements are collected in
   C18/Props.v.  No real numbers: closed under the global context. *)
From Coq Require Import List Arith ZArith QArith Qround Bool Lia.
Import ListNotations.
From SV Require Import C01.ConfMaps C18.Pipelines.
Open Scope Q_scope.

Arguments qn : simpl never.
Arguments Qred : simpl never.
Arguments Z.mul : simpl never.
Arguments Z.add : simpl never.
Arguments Z.modulo : simpl never.
Arguments Z.sub : simpl never.

(* ------------------------------------------------------------------ *)
(* scaling commutes with min / max / bbox midpoint / centroid          *)

Lemma Qle_bool_scale s a b : 0 < s -> Qle_bool (qn (s * a)) (qn (s * b)) = Qle_bool a b.
Proof.
  intro Hs. apply eq_true_iff_eq. rewrite !Qle_bool_iff. unfold qn. rewrite !Qred_correct.
  apply Qmult_le_l. exact Hs.
Qed.

Lemma qmin_scale s a b : 0 < s -> qmin (qn (s * a)) (qn (s * b)) = qn (s * qmin a b).
Proof. intro Hs. unfold qmin. rewrite Qle_bool_scale by exact Hs. destruct (Qle_bool a b); reflexivity. Qed.

Lemma qmax_scale s a b : 0 < s -> qmax (qn (s * a)) (qn (s * b)) = qn (s * qmax a b).
Proof. intro Hs. unfold qmax. rewrite Qle_bool_scale by exact Hs. destruct (Qle_bool a b); reflexivity. Qed.

Definition box_scale (s : Q) (b : Q * Q * Q * Q) : Q * Q * Q * Q :=
  let '(a, b, c, d) := b in (qn (s * a), qn (s * b), qn (s * c), qn (s * d)).

Lemma bbox_scale s l : 0 < s ->
  bbox (map (kp_scale s) l) = option_map (box_scale s) (bbox l).
Proof.
  intro Hs. induction l as [|p l IH]; [reflexivity|].
  destruct p as [[x y]|]; simpl; [|exact IH].
  rewrite IH. destruct (bbox l) as [[[[a b] c] d]|]; simpl; [|reflexivity].
  rewrite !qmin_scale, !qmax_scale by exact Hs. reflexivity.
Qed.

Lemma bbox_mid_scale s l : 0 < s -> bbox_mid (map (kp_scale s) l) = kp_scale s (bbox_mid l).
Proof.
  intro Hs. unfold bbox_mid. rewrite bbox_scale by exact Hs.
  destruct (bbox l) as [[[[a b] c] d]|]; simpl; [|reflexivity].
  f_equal. f_equal; apply Qred_complete; unfold qn; rewrite !Qred_correct; ring.
Qed.

Lemma nth_map_kp_scale s i l : nth i (map (kp_scale s) l) None = kp_scale s (nth i l None).
Proof. change (@None (Q * Q)) with (kp_scale s None) at 1. apply map_nth. Qed.

Lemma set_nth_map {A B} (f : A -> B) i v l : set_nth i (f v) (map f l) = map f (set_nth i v l).
Proof.
  revert i; induction l as [|h t IH]; intros [|i]; simpl; try reflexivity. now rewrite IH.
Qed.

Lemma generate_centroid_scale s a wt inst : 0 < s ->
  generate_centroid a wt (map (kp_scale s) inst) =
  (kp_scale s (fst (generate_centroid a wt inst)), map (kp_scale s) (snd (generate_centroid a wt inst))).
Proof.
  intro Hs. unfold generate_centroid. destruct a as [i|].
  - rewrite nth_map_kp_scale. destruct (nth i inst None) as [[x y]|]; simpl; [reflexivity|].
    rewrite bbox_mid_scale by exact Hs. destruct wt; simpl; [|reflexivity].
    now rewrite set_nth_map.
  - simpl. now rewrite bbox_mid_scale by exact Hs.
Qed.

Lemma generate_centroids_scale s a wt insts : 0 < s ->
  generate_centroids a wt (scale_insts s insts) =
  (map (kp_scale s) (fst (generate_centroids a wt insts)),
   scale_insts s (snd (generate_centroids a wt insts))).
Proof.
  intro Hs. unfold generate_centroids, scale_insts. simpl. rewrite !map_map.
  f_equal; apply map_ext; intro i; now rewrite generate_centroid_scale by exact Hs.
Qed.

(* ------------------------------------------------------------------ *)
(* the float flag and the 8-bit round trip                             *)

Lemma gfloat_normalization g : gfloat (apply_normalization g) = true.
Proof. unfold apply_normalization. destruct (gfloat g) eqn:E; [exact E|reflexivity]. Qed.

Lemma gfloat_prep c g : gfloat (prep_img c g) = true.
Proof.
  unfold prep_img, convert_to_rgb, convert_to_grayscale.
  destruct (c_rgb c); [destruct (_ =? 3)%Z|destruct (_ =? 1)%Z]; simpl; apply gfloat_normalization.
Qed.

Lemma gfloat_sizematcher mh mw g : gfloat (fst (apply_sizematcher mh mw g)) = gfloat g.
Proof. unfold apply_sizematcher. destruct (_ && _)%bool; reflexivity. Qed.

Lemma gfloat_resizer s g : gfloat (resizer_img s g) = gfloat g.
Proof. unfold resizer_img. destruct (Qeq_bool s 1); reflexivity. Qed.

Lemma gfloat_pad ms g : gfloat (apply_pad_to_stride ms g) = gfloat g.
Proof. unfold apply_pad_to_stride. destruct (1 <? ms)%Z; reflexivity. Qed.

Lemma gfloat_crops g i c h w : gfloat (cr_img (generate_crops g i c h w)) = gfloat g.
Proof. unfold generate_crops. destruct c; reflexivity. Qed.

(* the value of a float image after ToPILImage -> (npz | PIL) -> back to float:
   the same geometry, one more quantisation *)
Lemma view_roundtrip g : gfloat g = true ->
  img_view (apply_normalization (img_to_pil g)) = img_view g.
Proof. intro H. unfold img_view. simpl. now rewrite H. Qed.

Lemma view_through_npz b g : gfloat g = true -> img_view (through_npz b g) = img_view g.
Proof. intro H. destruct b; [apply view_roundtrip; exact H|reflexivity]. Qed.

(* steps respect the view *)
Lemma view_pad ms g g' : img_view g = img_view g' ->
  img_view (apply_pad_to_stride ms g) = img_view (apply_pad_to_stride ms g').
Proof.
  unfold img_view. intro H. injection H as H1 H2 H3 H4 H5 H6.
  unfold apply_pad_to_stride. destruct (1 <? ms)%Z; simpl; congruence.
Qed.

Lemma view_crops g g' i c h w : img_view g = img_view g' ->
  img_view (cr_img (generate_crops g i c h w)) = img_view (cr_img (generate_crops g' i c h w)) /\
  cr_inst (generate_crops g i c h w) = cr_inst (generate_crops g' i c h w) /\
  cr_cent (generate_crops g i c h w) = cr_cent (generate_crops g' i c h w) /\
  cr_tl (generate_crops g i c h w) = cr_tl (generate_crops g' i c h w).
Proof.
  unfold img_view. intro H. injection H as H1 H2 H3 H4 H5 H6.
  unfold generate_crops. destruct c; simpl; repeat split; congruence.
Qed.

Lemma view_hw g g' : img_view g = img_view g' -> gh g = gh g' /\ gw g = gw g'.
Proof. unfold img_view. intro H. injection H as H1 H2 H3 H4 H5 H6. now split. Qed.

(* ------------------------------------------------------------------ *)
(* Mem = Npc (all model types, all scales)                             *)

Lemma base_fill_cache_float c fr b : gfloat (fst (fst (base_fill_cache c fr b))) = true.
Proof.
  unfold base_fill_cache. destruct (process_lf _ _) as [kps num].
  destruct (apply_sizematcher _ _ _) as [g eff] eqn:E. simpl.
  assert (Hg : gfloat g = true).
  { change g with (fst (g, eff)). rewrite <- E. rewrite gfloat_sizematcher. apply gfloat_prep. }
  destruct b; simpl; try reflexivity. now rewrite gfloat_pad, gfloat_resizer.
Qed.

Lemma base_fill_cache_npc c fr :
  img_view (fst (fst (base_fill_cache c fr true))) = img_view (fst (fst (base_fill_cache c fr false))) /\
  snd (fst (base_fill_cache c fr true)) = snd (fst (base_fill_cache c fr false)) /\
  snd (base_fill_cache c fr true) = snd (base_fill_cache c fr false).
Proof.
  unfold base_fill_cache. destruct (process_lf _ _) as [kps num].
  destruct (apply_sizematcher _ _ _) as [g eff] eqn:E. simpl.
  assert (Hg : gfloat g = true).
  { change g with (fst (g, eff)). rewrite <- E. rewrite gfloat_sizematcher. apply gfloat_prep. }
  repeat split. apply view_roundtrip. now rewrite gfloat_pad, gfloat_resizer.
Qed.

Lemma single_mem_npc c fr : same_sample (ds_single c fr false) (ds_single c fr true).
Proof.
  pose proof (base_fill_cache_npc c fr) as (Hv & Hk & Hn).
  unfold ds_single. destruct (base_fill_cache c fr true) as [[g1 k1] n1].
  destruct (base_fill_cache c fr false) as [[g0 k0] n0]. simpl in *. subst.
  destruct (view_hw _ _ Hv) as [Hh Hw].
  unfold same_sample, cm_single; simpl. rewrite Hh, Hw. repeat split. now symmetry.
Qed.

Lemma bottomup_mem_npc c fr : same_sample (ds_bottomup c fr false) (ds_bottomup c fr true).
Proof.
  pose proof (base_fill_cache_npc c fr) as (Hv & Hk & Hn).
  unfold ds_bottomup. destruct (base_fill_cache c fr true) as [[g1 k1] n1].
  destruct (base_fill_cache c fr false) as [[g0 k0] n0]. simpl in *. subst.
  destruct (view_hw _ _ Hv) as [Hh Hw].
  unfold same_sample, cm_multi, paf_of; simpl. rewrite Hh, Hw. repeat split. now symmetry.
Qed.

Lemma centroid_mem_npc c fr : same_sample (ds_centroid c fr false) (ds_centroid c fr true).
Proof.
  unfold ds_centroid. destruct (process_lf _ _) as [kps num].
  destruct (apply_sizematcher _ _ _) as [g eff] eqn:E.
  destruct (generate_centroids _ _ _) as [cents kps'].
  assert (Hg : gfloat g = true).
  { change g with (fst (g, eff)). rewrite <- E. rewrite gfloat_sizematcher. apply gfloat_prep. }
  set (gp := apply_pad_to_stride (c_ms c) (resizer_img (c_scale c) g)).
  assert (Hv : img_view (through_npz true gp) = img_view (through_npz false gp)).
  { rewrite !view_through_npz; [reflexivity| |]; unfold gp; now rewrite gfloat_pad, gfloat_resizer. }
  destruct (view_hw _ _ Hv) as [Hh Hw].
  unfold same_sample, cm_cent; cbn [o_img o_pts o_cents o_tl o_cm o_paf].
  rewrite Hh, Hw. repeat split. now symmetry.
Qed.

Lemma centered_mem_npc c fr k : same_sample (ds_centered c fr false k) (ds_centered c fr true k).
Proof.
  unfold ds_centered.
  destruct (apply_sizematcher _ _ _) as [g eff] eqn:E.
  destruct (generate_centroid _ _ _) as [cent inst].
  assert (Hg : gfloat g = true).
  { change g with (fst (g, eff)). rewrite <- E. rewrite gfloat_sizematcher. apply gfloat_prep. }
  set (big := generate_crops (resizer_img (c_scale c) g) inst cent (isqrt2 (c_croph c)) (isqrt2 (c_cropw c))).
  assert (Hv : img_view (through_npz false (cr_img big)) = img_view (through_npz true (cr_img big))).
  { rewrite !view_through_npz; [reflexivity| |]; unfold big; now rewrite gfloat_crops, gfloat_resizer. }
  destruct (view_crops _ _ (cr_inst big) (cr_cent big) (c_croph c) (c_cropw c) Hv) as (H1 & H2 & H3 & H4).
  pose proof (view_pad (c_ms c) _ _ H1) as Hp.
  destruct (view_hw _ _ Hp) as [Hh Hw].
  unfold same_sample, cm_inst; cbn [o_img o_pts o_cents o_tl o_cm o_paf].
  rewrite Hh, Hw, H2, H3, H4. repeat split. exact Hp.
Qed.

Theorem mem_npc_same t c fr : same_sample (pipeline t Mem c fr) (pipeline t Npc c fr).
Proof.
  destruct t; simpl.
  - apply single_mem_npc.
  - apply bottomup_mem_npc.
  - apply centroid_mem_npc.
  - apply centered_mem_npc.
Qed.

(* ------------------------------------------------------------------ *)
(* Mem = Str                                                           *)

Lemma sizematcher_float c fr g eff :
  apply_sizematcher (c_maxh c) (c_maxw c) (prep_img c (source_img fr)) = (g, eff) -> gfloat g = true.
Proof.
  intro E. change g with (fst (g, eff)). rewrite <- E. rewrite gfloat_sizematcher. apply gfloat_prep.
Qed.

Lemma single_mem_str c fr : f_maxinst fr = 1%nat ->
  same_sample (ds_single c fr false) (st_single c fr).
Proof.
  intro HM. unfold ds_single, st_single, base_fill_cache, chunk_base. rewrite HM.
  destruct (process_lf _ _) as [kps num].
  destruct (apply_sizematcher _ _ _) as [g eff] eqn:E.
  pose proof (sizematcher_float _ _ _ _ E) as Hg.
  cbv beta iota zeta.
  set (gr := resizer_img (c_scale c) g).
  assert (Hv : img_view (through_npz false (apply_pad_to_stride (c_ms c) gr)) =
               img_view (apply_pad_to_stride (c_ms c) (from_pil (img_to_pil gr)))).
  { unfold through_npz, from_pil. symmetry. apply view_pad, view_roundtrip. unfold gr. now rewrite gfloat_resizer. }
  destruct (view_hw _ _ Hv) as [Hh Hw].
  unfold same_sample, cm_single; cbn [o_img o_pts o_cents o_tl o_cm o_paf].
  rewrite Hh, Hw. repeat split. exact Hv.
Qed.

Lemma bottomup_mem_str c fr : same_sample (ds_bottomup c fr false) (st_bottomup c fr).
Proof.
  unfold ds_bottomup, st_bottomup, base_fill_cache, chunk_base.
  destruct (process_lf _ _) as [kps num].
  destruct (apply_sizematcher _ _ _) as [g eff] eqn:E.
  pose proof (sizematcher_float _ _ _ _ E) as Hg.
  cbv beta iota zeta.
  set (gr := resizer_img (c_scale c) g).
  assert (Hv : img_view (through_npz false (apply_pad_to_stride (c_ms c) gr)) =
               img_view (apply_pad_to_stride (c_ms c) (from_pil (img_to_pil gr)))).
  { unfold through_npz, from_pil. symmetry. apply view_pad, view_roundtrip. unfold gr. now rewrite gfloat_resizer. }
  destruct (view_hw _ _ Hv) as [Hh Hw].
  unfold same_sample, cm_multi, paf_of; cbn [o_img o_pts o_cents o_tl o_cm o_paf].
  rewrite Hh, Hw. repeat split. exact Hv.
Qed.

(* the centroid model: centroids-then-resize (chunk function) against
   resize-then-centroids (dataset) *)
Lemma centroid_mem_str c fr : 0 < c_scale c ->
  same_sample_centroid (ds_centroid c fr false) (st_centroid c fr).
Proof.
  intro Hs. unfold ds_centroid, st_centroid.
  destruct (process_lf _ _) as [kps num].
  destruct (apply_sizematcher _ _ _) as [g eff] eqn:E.
  pose proof (sizematcher_float _ _ _ _ E) as Hg.
  set (K := scale_insts eff kps).
  assert (Hc : fst (generate_centroids (c_anchor c) (c_wt c) (resizer_insts (c_scale c) K)) =
               resizer_pts (c_scale c) (fst (generate_centroids (c_anchor c) (c_wt c) K))).
  { unfold resizer_insts, resizer_pts. destruct (Qeq_bool (c_scale c) 1); [reflexivity|].
    now rewrite generate_centroids_scale by exact Hs. }
  destruct (generate_centroids (c_anchor c) (c_wt c) (resizer_insts (c_scale c) K)) as [cents1 kps1].
  destruct (generate_centroids (c_anchor c) (c_wt c) K) as [cents0 kps0].
  cbn [fst] in Hc. subst cents1.
  cbv beta iota zeta.
  set (gr := resizer_img (c_scale c) g).
  assert (Hv : img_view (through_npz false (apply_pad_to_stride (c_ms c) gr)) =
               img_view (apply_pad_to_stride (c_ms c) (from_pil (img_to_pil gr)))).
  { unfold through_npz, from_pil. symmetry. apply view_pad, view_roundtrip. unfold gr. now rewrite gfloat_resizer. }
  destruct (view_hw _ _ Hv) as [Hh Hw].
  unfold same_sample_centroid, cm_cent; cbn [o_img o_pts o_cents o_tl o_cm o_paf].
  rewrite Hh, Hw. repeat split. exact Hv.
Qed.

(* centered-instance at scale 1 *)
Lemma qfloor_scale1 z s : s == 1 -> Qfloor (qz z * s) = z.
Proof. intro H. rewrite H, Qmult_1_r. apply Qfloor_Z. Qed.

Lemma nth_map_lt {A B} (f : A -> B) l k d d' : (k < length l)%nat -> nth k (map f l) d = f (nth k l d').
Proof.
  intro H. rewrite nth_indep with (d' := f d') by (now rewrite map_length). apply map_nth.
Qed.

Lemma nth_generate_centroids a wt insts k : (k < length insts)%nat ->
  nth k (fst (generate_centroids a wt insts)) None = fst (generate_centroid a wt (nth k insts [])) /\
  nth k (snd (generate_centroids a wt insts)) [] = snd (generate_centroid a wt (nth k insts [])).
Proof.
  intro H. unfold generate_centroids. cbn [fst snd]. rewrite !map_map.
  split.
  - apply (nth_map_lt (fun x => fst (generate_centroid a wt x))). exact H.
  - apply (nth_map_lt (fun x => snd (generate_centroid a wt x))). exact H.
Qed.

Lemma nth_scale_insts s L k : nth k (scale_insts s L) [] = map (kp_scale s) (nth k L []).
Proof. unfold scale_insts. change (@nil kp) with (map (kp_scale s) []) at 1. apply map_nth. Qed.

Lemma nth_process_lf M raw k : (k < length (filter nonempty raw))%nat ->
  nth k (fst (process_lf M raw)) [] = nth k (filter nonempty raw) [] /\
  (k < length (fst (process_lf M raw)))%nat.
Proof.
  intro H. unfold process_lf. cbn [fst]. destruct (M =? 1)%nat; [now split|].
  split; [now apply app_nth1|]. rewrite app_length. lia.
Qed.

(* the k-th entry of the dataset's instance index list addresses the k-th
   non-empty instance, i.e. the k-th sample the chunk function yields *)
Lemma nth_positions raw : forall i k, (k < length (filter nonempty raw))%nat ->
  exists j, nth k (nonempty_positions raw i) O = (i + j)%nat /\
            nth j raw [] = nth k (filter nonempty raw) [].
Proof.
  induction raw as [|inst t IH]; intros i k Hk; [simpl in Hk; lia|].
  simpl in *. destruct (nonempty inst).
  - destruct k as [|k].
    + exists O. split; [simpl; lia|reflexivity].
    + simpl in Hk. destruct (IH (S i) k) as (j & Hj & Hn); [lia|].
      exists (S j). split; [simpl; rewrite Hj; lia|exact Hn].
  - destruct (IH (S i) k Hk) as (j & Hj & Hn).
    exists (S j). split; [rewrite Hj; lia|exact Hn].
Qed.

Lemma centered_mem_str c fr k :
  c_scale c == 1 -> (k < length (filter nonempty (f_raw fr)))%nat ->
  same_sample (ds_centered c fr false k) (st_centered c fr k).
Proof.
  intros Hs Hk.
  assert (Hb : Qeq_bool (c_scale c) 1 = true) by (apply Qeq_bool_iff; exact Hs).
  unfold ds_centered, st_centered, resizer_pts, resizer_img. rewrite Hb.
  rewrite !qfloor_scale1 by exact Hs.
  destruct (nth_positions (f_raw fr) O k Hk) as (j & Hj & Hnth). simpl in Hj. rewrite Hj.
  destruct (nth_process_lf (f_maxinst fr) (f_raw fr) k Hk) as [HL Hlen].
  destruct (process_lf (f_maxinst fr) (f_raw fr)) as [L num]. cbn [fst] in HL, Hlen.
  destruct (apply_sizematcher _ _ _) as [g eff] eqn:E.
  pose proof (sizematcher_float _ _ _ _ E) as Hg.
  destruct (nth_generate_centroids (c_anchor c) (c_wt c) (scale_insts eff L) k) as [Hc Hi].
  { unfold scale_insts. now rewrite map_length. }
  destruct (generate_centroids (c_anchor c) (c_wt c) (scale_insts eff L)) as [cents kps'].
  cbn [fst snd] in Hc, Hi. rewrite Hc, Hi, nth_scale_insts, HL, <- Hnth.
  destruct (generate_centroid (c_anchor c) (c_wt c) (map (kp_scale eff) (nth j (f_raw fr) []))) as [cent inst].
  cbv beta iota zeta. cbn [fst snd].
  set (big := generate_crops g inst cent (isqrt2 (c_croph c)) (isqrt2 (c_cropw c))).
  assert (Hv : img_view (through_npz false (cr_img big)) = img_view (from_pil (img_to_pil (cr_img big)))).
  { unfold through_npz, from_pil. symmetry. apply view_roundtrip. unfold big. now rewrite gfloat_crops. }
  destruct (view_crops _ _ (cr_inst big) (cr_cent big) (c_croph c) (c_cropw c) Hv) as (H1 & H2 & H3 & H4).
  pose proof (view_pad (c_ms c) _ _ H1) as Hp.
  destruct (view_hw _ _ Hp) as [Hh Hw].
  unfold same_sample, cm_inst; cbn [o_img o_pts o_cents o_tl o_cm o_paf].
  rewrite Hh, Hw, H2, H3, H4. repeat split. exact Hp.
Qed.

(* ------------------------------------------------------------------ *)
(* DataPipe blocks = functional counterparts                           *)

Lemma dp_normalizer_eq rgb g : dp_normalizer rgb g = fn_normalizer rgb g.
Proof.
  unfold dp_normalizer, fn_normalizer, apply_normalization.
  destruct (gfloat g) eqn:E; destruct rgb; cbn [negb]; try rewrite E; reflexivity.
Qed.

Lemma dp_resizer_eq scale x : dp_resizer scale x = fn_resizer scale x.
Proof.
  unfold dp_resizer, fn_resizer, resizer_img, resizer_pts. destruct x as [g pts].
  destruct (Qeq_bool scale 1); reflexivity.
Qed.

Lemma dp_cropper_eq g bh bw num l : forall cnt, dp_cropper g bh bw num cnt l = fn_cropper g bh bw num cnt l.
Proof.
  induction l as [|[inst cent] t IH]; intro cnt; [reflexivity|]. simpl.
  destruct (cnt =? num)%nat; [reflexivity|]. rewrite IH. unfold generate_crops. destruct cent; reflexivity.
Qed.

(* the loop stops at num_instances: it is generate_crops mapped over the first num pairs *)
Lemma fn_cropper_firstn g bh bw l : forall num cnt, (cnt <= num)%nat ->
  fn_cropper g bh bw num cnt l =
  map (fun ic => generate_crops g (fst ic) (snd ic) bh bw) (firstn (num - cnt) l).
Proof.
  induction l as [|[inst cent] t IH]; intros num cnt H; simpl.
  - now rewrite firstn_nil.
  - destruct (Nat.eqb_spec cnt num) as [->|Hne].
    + now rewrite Nat.sub_diag.
    + replace (num - cnt)%nat with (S (num - S cnt)) by lia. simpl. rewrite IH by lia. reflexivity.
Qed.

Lemma dp_confmaps_instances_eq pts H W sigma s :
  dp_confmaps_instances pts H W sigma s = generate_confmaps4 pts H W sigma s.
Proof. reflexivity. Qed.

Lemma dp_confmaps_instance_eq pts H W sigma s :
  dp_confmaps_instance pts H W sigma s = generate_confmaps3 pts H W sigma s.
Proof. reflexivity. Qed.

Lemma dp_multiconfmaps_centroids_eq cents H W num sigma s :
  dp_multiconfmaps_centroids cents H W num sigma s = generate_multiconfmaps_centroids cents H W num sigma s.
Proof. reflexivity. Qed.

Lemma dp_paf_inputs_eq kps g psigma pstride edges :
  dp_paf_inputs kps g psigma pstride edges = fn_paf_inputs kps g psigma pstride edges.
Proof. reflexivity. Qed.

(* MultiConfidenceMapGenerator(centroids=False) does not slice to num_instances,
   generate_multiconfmaps does: they agree because what lies beyond
   num_instances is process_lf's NaN padding, which contributes nothing. *)
Definition row_le (xv : list Q) (row : list (option Q)) := (length row <= length xv)%nat.
Definition cmap_le (xv yv : list Q) (m : cmap) := (length m <= length yv)%nat /\ Forall (row_le xv) m.

Lemma omax_none_r a : omax a None = a.
Proof. destruct a; reflexivity. Qed.

Lemma map2_omax_none (xv : list Q) : forall row, row_le xv row ->
  map2 omax row (map (fun _ => None) xv) = row.
Proof.
  unfold row_le. induction xv as [|x xv IH]; intros [|a row] H; simpl in *; try reflexivity; try lia.
  rewrite omax_none_r, IH by lia. reflexivity.
Qed.

Lemma cmap_max_none xv : forall (yv : list Q) m, cmap_le xv yv m ->
  cmap_max m (map (fun _ => map (fun _ : Q => @None Q) xv) yv) = m.
Proof.
  unfold cmap_le, cmap_max. induction yv as [|y yv IH]; intros [|r m] [Hl Hf]; simpl in *; try reflexivity; try lia.
  inversion Hf; subst. rewrite map2_omax_none by assumption. rewrite IH; [reflexivity|]. split; [lia|assumption].
Qed.

Lemma chan_none sig xv yv : chan sig xv yv None = map (fun _ => map (fun _ => None) xv) yv.
Proof. reflexivity. Qed.

Lemma step_missing sig xv yv : forall n acc, (length acc <= n)%nat -> Forall (cmap_le xv yv) acc ->
  map2 cmap_max acc (map (chan sig xv yv) (repeat None n)) = acc.
Proof.
  induction n as [|n IH]; intros [|m acc] Hl Hf; simpl in *; try reflexivity; try lia.
  inversion Hf; subst. rewrite chan_none, cmap_max_none by assumption. rewrite IH; [reflexivity|lia|assumption].
Qed.

Lemma map2_length_le {A B C} (f : A -> B -> C) : forall l m, (length (map2 f l m) <= length l)%nat.
Proof. induction l as [|a l IH]; intros [|b m]; simpl; try lia. specialize (IH m). lia. Qed.

Lemma map2_Forall {A B} (P : A -> Prop) (f : A -> B -> A) :
  (forall a b, P a -> P (f a b)) -> forall l m, Forall P l -> Forall P (map2 f l m).
Proof.
  intros Hf. induction l as [|a l IH]; intros [|b m] H; simpl; try constructor.
  - inversion H; subst. now apply Hf.
  - inversion H; subst. now apply IH.
Qed.

Lemma cmap_max_le xv yv a b : cmap_le xv yv a -> cmap_le xv yv (cmap_max a b).
Proof.
  unfold cmap_le, cmap_max. intros [Hl Hf]. split.
  - pose proof (map2_length_le (map2 omax) a b). lia.
  - apply map2_Forall; [|exact Hf]. intros r r' Hr. unfold row_le in *.
    pose proof (map2_length_le omax r r'). lia.
Qed.

Definition acc_ok (xv yv : list Q) (n : nat) (acc : list cmap) :=
  (length acc <= n)%nat /\ Forall (cmap_le xv yv) acc.

Lemma step_ok sig xv yv n acc inst : acc_ok xv yv n acc ->
  acc_ok xv yv n (map2 cmap_max acc (map (chan sig xv yv) inst)).
Proof.
  intros [Hl Hf]. split.
  - pose proof (map2_length_le cmap_max acc (map (chan sig xv yv) inst)). lia.
  - apply map2_Forall; [|exact Hf]. intros a b. apply cmap_max_le.
Qed.

Lemma fold_ok sig xv yv n insts : forall acc, acc_ok xv yv n acc ->
  acc_ok xv yv n (fold_left (fun acc inst => map2 cmap_max acc (map (chan sig xv yv) inst)) insts acc).
Proof. induction insts as [|i t IH]; intros acc H; simpl; [exact H|]. apply IH, step_ok, H. Qed.

Lemma start_ok (xv yv : list Q) n : acc_ok xv yv n (repeat (zero_map (length xv) (length yv)) n).
Proof.
  split; [now rewrite repeat_length|].
  apply Forall_forall. intros m Hm. apply repeat_spec in Hm. subst m. unfold zero_map, cmap_le. split.
  - now rewrite repeat_length.
  - apply Forall_forall. intros r Hr. apply repeat_spec in Hr. subst r. unfold row_le. now rewrite repeat_length.
Qed.

Lemma fold_padding sig xv yv n : forall pad acc, acc_ok xv yv n acc ->
  Forall (fun i => i = repeat None n) pad ->
  fold_left (fun acc inst => map2 cmap_max acc (map (chan sig xv yv) inst)) pad acc = acc.
Proof.
  induction pad as [|i t IH]; intros acc Hok Hp; simpl; [reflexivity|].
  inversion Hp; subst. destruct Hok as [Hl Hf]. rewrite step_missing by assumption.
  apply IH; [split|]; assumption.
Qed.

Theorem dp_multiconfmaps_eq insts n_nodes H W num sigma s :
  Forall (fun i => i = repeat None n_nodes) (skipn num insts) ->
  dp_multiconfmaps [insts] n_nodes H W sigma s = generate_multiconfmaps [insts] n_nodes H W num sigma s.
Proof.
  intro Hp. unfold dp_multiconfmaps, generate_multiconfmaps, make_multi_confmaps.
  cbn [map concat]. rewrite !app_nil_r. f_equal.
  rewrite <- (firstn_skipn num insts) at 1. rewrite fold_left_app.
  apply fold_padding with (n := n_nodes); [|exact Hp]. apply fold_ok, start_ok.
Qed.

(* process_lf produces exactly such padding *)
Lemma process_lf_padding M raw :
  let '(kps, num) := process_lf M raw in
  exists n, Forall (fun i => i = repeat None n) (skipn num kps).
Proof.
  unfold process_lf. set (ne := filter nonempty raw).
  exists (match ne with i :: _ => length i | [] => O end).
  destruct (M =? 1)%nat.
  - rewrite skipn_all. constructor.
  - rewrite skipn_app, skipn_all, Nat.sub_diag. simpl.
    apply Forall_forall. intros i Hi. now apply repeat_spec in Hi.
Qed.

(* ------------------------------------------------------------------ *)
(* equal samples carry equal targets                                   *)

Lemma same_sample_targets a b : same_sample a b ->
  (forall style, confmaps_of style (o_cm a) = confmaps_of style (o_cm b)) /\
  (forall (T : Type) (F : cm_in -> T), F (o_cm a) = F (o_cm b)) /\
  (forall (T : Type) (F : option paf_in -> T), F (o_paf a) = F (o_paf b)).
Proof. intros (_ & _ & _ & _ & Hc & Hp). rewrite Hc, Hp. repeat split. Qed.

Lemma same_sample_centroid_targets a b : same_sample_centroid a b ->
  (forall style, confmaps_of style (o_cm a) = confmaps_of style (o_cm b)) /\
  (forall (T : Type) (F : cm_in -> T), F (o_cm a) = F (o_cm b)).
Proof. intros (_ & _ & _ & Hc & _). rewrite Hc. repeat split. Qed.

(* ------------------------------------------------------------------ *)
(* witnesses                                                           *)

Definition wcfg (s : Q) : cfg :=
  {| c_rgb := false; c_maxh := Some 100%Z; c_maxw := Some 100%Z; c_scale := s; c_ms := 16%Z;
     c_anchor := Some 0%nat; c_croph := 32%Z; c_cropw := 32%Z; c_sigma := 3 # 2; c_stride := 2%nat;
     c_psigma := 4; c_pstride := 4%nat; c_edges := [(0, 1)%nat]; c_wt := true |}.

Definition wframe : frame :=
  {| f_h := 100%Z; f_w := 100%Z; f_c := 1%Z; f_raw := [[Some (30, 40); Some (50, 60)]]; f_maxinst := 1%nat |}.

Definition wframe2 : frame :=
  {| f_h := 100%Z; f_w := 100%Z; f_c := 1%Z;
     f_raw := [[None; Some (50, 60); Some (20, 30)]; [None; None; None]; [Some (10, 10); None; None]];
     f_maxinst := 3%nat |}.

(* the documented exclusion: centered-instance at scale 1/2.  The dataset
   crops 32x32 out of the scaled frame; chunk function + streaming class crop
   45x45 out of the unscaled frame, scale the crop to 22x22 and re-crop
   16x16 about the UNSCALED centroid: another size, another content map, other
   keypoints (the anchor keypoint is not even inside the crop). *)
Lemma centered_half_differs :
  let a := pipeline (Centered 0) Mem (wcfg (1 # 2)) wframe in
  let b := pipeline (Centered 0) Str (wcfg (1 # 2)) wframe in
  (gh (o_img a), gw (o_img a)) = (32%Z, 32%Z) /\ (gh (o_img b), gw (o_img b)) = (16%Z, 16%Z) /\
  o_pts a = [[Some (31 # 2, 31 # 2); Some (51 # 2, 51 # 2)]] /\
  o_pts b = [[Some (-7 # 2, -7 # 2); Some (13 # 2, 13 # 2)]] /\
  ~ same_sample a b.
Proof.
  vm_compute. repeat split. intros (H & _). discriminate H.
Qed.

(* ... while the same frame at scale 1 agrees (instance of centered_mem_str) *)
Lemma centered_one_agrees :
  same_sample (pipeline (Centered 0) Mem (wcfg 1) wframe) (pipeline (Centered 0) Str (wcfg 1) wframe).
Proof. apply centered_mem_str; [reflexivity|simpl; lia]. Qed.

(* np_chunks keeps the dataset's order of operations: Mem = Npc at scale 1/2 too *)
Lemma centered_half_npc_agrees :
  same_sample (pipeline (Centered 0) Mem (wcfg (1 # 2)) wframe) (pipeline (Centered 0) Npc (wcfg (1 # 2)) wframe).
Proof. apply mem_npc_same. Qed.

(* non-vacuity: a frame with a missing anchor, an empty instance and padding;
   the centroid pipelines agree on centroids and targets at scale 1/2, while
   sample["instances"] (not what the targets are drawn from) is scaled by the
   dataset and left unscaled by the chunk function *)
Lemma centroid_half_example :
  let a := pipeline Centroid Mem (wcfg (1 # 2)) wframe2 in
  let b := pipeline Centroid Str (wcfg (1 # 2)) wframe2 in
  o_cents a = [Some (35 # 2, 45 # 2); Some (5, 5); None] /\ o_cents b = o_cents a /\
  o_cm a = o_cm b /\ o_pts a <> o_pts b.
Proof. vm_compute. repeat split. discriminate. Qed.

(* the hypothesis of the single-instance theorem is needed: with
   get_max_instances = 2 the dataset pads to two instances (process_lf with
   max_instances = 2) while single_instance_data_chunks never pads *)
Lemma single_outside_domain_differs :
  let fr := {| f_h := 100%Z; f_w := 100%Z; f_c := 1%Z; f_raw := [[Some (30, 40); Some (50, 60)]]; f_maxinst := 2%nat |} in
  o_pts (pipeline Single Mem (wcfg 1) fr) <> o_pts (pipeline Single Str (wcfg 1) fr).
Proof. vm_compute. discriminate. Qed.

Lemma smoke_bottomup :
  let a := pipeline BottomUp Str (wcfg (1 # 2)) wframe2 in
  (gh (o_img a), gw (o_img a), gc (o_img a)) = (64%Z, 64%Z, 1%Z) /\
  gx (o_img a) = {| ma := 1 # 2; mb := - (1 # 4) |} /\ o_num a = 2%nat /\ length (o_pts a) = 3%nat.
Proof. vm_compute. repeat split. Qed.

(* ------------------------------------------------------------------ *)
(* all pairs of frameworks, in the property's domain                   *)

Lemma same_sample_refl a : same_sample a a.
Proof. unfold same_sample. repeat split. Qed.
Lemma same_sample_sym a b : same_sample a b -> same_sample b a.
Proof. unfold same_sample. intros (H1 & H2 & H3 & H4 & H5 & H6). repeat split; now symmetry. Qed.
Lemma same_sample_trans a b c : same_sample a b -> same_sample b c -> same_sample a c.
Proof.
  unfold same_sample. intros (H1 & H2 & H3 & H4 & H5 & H6) (G1 & G2 & G3 & G4 & G5 & G6).
  repeat split; etransitivity; eassumption.
Qed.
Lemma same_sample_weaken a b : same_sample a b -> same_sample_centroid a b.
Proof. unfold same_sample, same_sample_centroid. intros (H1 & H2 & H3 & H4 & H5 & H6). repeat split; assumption. Qed.
Lemma same_sample_centroid_sym a b : same_sample_centroid a b -> same_sample_centroid b a.
Proof. unfold same_sample_centroid. intros (H1 & H3 & H4 & H5 & H6). repeat split; now symmetry. Qed.
Lemma same_sample_centroid_trans a b c :
  same_sample_centroid a b -> same_sample_centroid b c -> same_sample_centroid a c.
Proof.
  unfold same_sample_centroid. intros (H1 & H3 & H4 & H5 & H6) (G1 & G3 & G4 & G5 & G6).
  repeat split; etransitivity; eassumption.
Qed.

Lemma agree_refl t a : agree t a a.
Proof. destruct t; simpl; try apply same_sample_refl. apply same_sample_weaken, same_sample_refl. Qed.
Lemma agree_sym t a b : agree t a b -> agree t b a.
Proof. destruct t; simpl; try apply same_sample_sym. apply same_sample_centroid_sym. Qed.
Lemma agree_trans t a b c : agree t a b -> agree t b c -> agree t a c.
Proof. destruct t; simpl; try apply same_sample_trans. apply same_sample_centroid_trans. Qed.

Lemma mem_npc_agree t c fr : agree t (pipeline t Mem c fr) (pipeline t Npc c fr).
Proof.
  pose proof (mem_npc_same t c fr) as H. destruct t; simpl in *; try exact H.
  apply same_sample_weaken, H.
Qed.

Lemma mem_str_agree t c fr : domain t c fr -> agree t (pipeline t Mem c fr) (pipeline t Str c fr).
Proof.
  intros [Hs Hd]. destruct t; simpl in *.
  - now apply single_mem_str.
  - apply bottomup_mem_str.
  - now apply centroid_mem_str.
  - destruct Hd. now apply centered_mem_str.
Qed.

Theorem frameworks_agree t c fr : domain t c fr ->
  forall f1 f2, agree t (pipeline t f1 c fr) (pipeline t f2 c fr).
Proof.
  intros Hd f1 f2.
  assert (HM : forall f, agree t (pipeline t Mem c fr) (pipeline t f c fr)).
  { intros [| |]; [apply agree_refl|apply mem_npc_agree|now apply mem_str_agree]. }
  eapply agree_trans; [apply agree_sym, HM|apply HM].
Qed.

(* the exclusion is not an accident of one witness: with no stride padding,
   whenever int(crop * scale) differs from crop the network input of the
   dataset is crop x crop and that of chunk function + streaming class is
   int(crop * scale) x int(crop * scale), for every frame and instance *)
Lemma centered_sizes c fr k :
  (c_ms c <= 1)%Z ->
  gh (o_img (pipeline (Centered k) Mem c fr)) = c_croph c /\
  gh (o_img (pipeline (Centered k) Str c fr)) = Qfloor (qz (c_croph c) * c_scale c).
Proof.
  intro Hms. simpl. unfold ds_centered, st_centered.
  destruct (process_lf _ _) as [L num].
  destruct (apply_sizematcher _ _ _) as [g eff].
  destruct (generate_centroid _ _ _) as [cent inst].
  destruct (generate_centroids _ _ _) as [cents kps'].
  cbv beta iota zeta. cbn [o_img].
  unfold apply_pad_to_stride. destruct (Z.ltb_spec 1 (c_ms c)); [lia|].
  unfold generate_crops.
  split.
  - destruct (cr_cent _); reflexivity.
  - destruct (cr_cent _); reflexivity.
Qed.

Lemma centered_scale_ne_1_sizes_differ c fr k :
  (c_ms c <= 1)%Z -> Qfloor (qz (c_croph c) * c_scale c) <> c_croph c ->
  ~ same_sample (pipeline (Centered k) Mem c fr) (pipeline (Centered k) Str c fr).
Proof.
  intros Hms Hne (Hv & _). destruct (centered_sizes c fr k Hms) as [H1 H2].
  apply view_hw in Hv. destruct Hv as [Hh _]. rewrite H1, H2 in Hh. now apply Hne.
Qed.

Lemma instance_index_agree raw k : (k < length (filter nonempty raw))%nat ->
  exists j, nth k (nonempty_positions raw O) O = j /\ nth j raw [] = nth k (filter nonempty raw) [].
Proof. intro H. destruct (nth_positions raw O k H) as (j & Hj & Hn). exists j. now split. Qed.

Lemma dp_cropper_spec g bh bw num insts cents :
  dp_cropper g bh bw num O (combine insts cents) =
  map (fun ic => generate_crops g (fst ic) (snd ic) bh bw) (firstn num (combine insts cents)).
Proof.
  rewrite dp_cropper_eq, fn_cropper_firstn by apply Nat.le_0_l. now rewrite Nat.sub_0_r.
Qed.
