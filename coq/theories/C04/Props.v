(* Props.v (C04) — statements only; proofs live in C04/Lemmas.v.

   Reading.  Every geometric step is modelled per axis as `astep` = (content map
   `cmap`, keypoint map `kmap`, input size, output size); `ap m x` applies an affine
   map; `err s x = ap (cmap s) x - ap (kmap s) x` is the registration error at input
   position x in OUTPUT pixels (per axis).  Pixel centres are integers, an n-pixel
   axis has extent [-1/2, n-1/2] (`in_extent`).  `then_ f g` is f followed by g.
   All theorems hold for ALL sizes / scales / strides / crop sizes / positions
   (no bound); the refutations are closed witnesses checked by vm_compute.

   Findings (faithful model, full statement false).  KNOWN on the current tree of /repo:
     F11  cumulative resize factor >= 3            -> c04_registration_lt_one_refuted,
                                                      c04_two_x2_steps_refuted
     F11b rounded output size + keypoint in the band (sizes and position only, see Geometry.band)
                                                   -> c04_floor_far_edge_refuted,
                                                      c04_round_far_edge_refuted
     F11c (round 4) pipeline offset < 1 px multiplied by the linear part of the sampled
          augmentation matrix                      -> c04_full_aug_refuted
   FIXED in /repo (historic; the theorems about `warp_content false` / `warp_mech false` describe the
   pinned tree before the fixes and kornia's default, which the harness still measures directly):
     F04k apply_geometric_augmentation, RandomAffine(align_corners=False)   fixed by 6a3da1d
     F04p KorniaAugmenter, the same                                          fixed by c812d23
                                                   -> c04_aug_nonsquare_refuted
   Strongest true statements: c04_registration_partial_full / _centered (no augmentation) and
   c04_registration_partial_full_aug / _centered_aug (with geometric augmentation, error measured
   against the ORIGINAL labels); their hypotheses are the complements of the selectors, which are
   stated in sizes / positions / matrix entries and proved to be exactly the failure sets
   (c04_selector_F11b_exact_*, c04_selector_F11c_exact_full).  Current tree: c04_warp_mech_aligned. *)
From Coq Require Import List ZArith QArith Qround Qabs Bool.
Import ListNotations.
From SV Require Import C04.Geometry C04.Lemmas C04.Lemmas2 C04.Lemmas3 C04.Lemmas4.
Open Scope Q_scope.

(* --- predicates defined in Lemmas.v, restated ---------------------------- *)
Lemma in_extent_def : forall n x, in_extent n x = (- (1 # 2) <= x /\ x <= zq n - (1 # 2)).
Proof. reflexivity. Qed.
Print Assumptions in_extent_def.

Lemma uniform_step_def : forall s k,
  uniform_step s k = ((forall y, err s y == (k - 1) / 2) /\ sl (kmap s) == k).
Proof. reflexivity. Qed.
Print Assumptions uniform_step_def.

Lemma fits_def : forall a b hw, fits a b hw = ((fst hw <= a)%Z /\ (snd hw <= b)%Z).
Proof. reflexivity. Qed.
Print Assumptions fits_def.

Lemma moves_def : forall e, moves e = match e with (OpAffine _, true) => true | _ => false end.
Proof. reflexivity. Qed.
Print Assumptions moves_def.

(* ======================================================================== *)
(* (a) exact output sizes                                                    *)

(* size matcher: output is exactly (max_h, max_w) (the image's own side when None);
   the padding is non-negative on both axes (nothing is cropped); the fit is positive,
   tight on one side, and each fitted side is within half a pixel of n * eff_scale *)
Theorem c04_sizematcher_exact_size : forall H W mh mw r,
  (0 < H)%Z -> (0 < W)%Z -> (0 < dflt H mh)%Z -> (0 < dflt W mw)%Z ->
  sizematcher H W mh mw = Some r ->
  sm_oh r = dflt H mh /\ sm_ow r = dflt W mw /\
  (0 < sm_th r <= sm_oh r)%Z /\ (0 < sm_tw r <= sm_ow r)%Z /\
  (sm_th r = sm_oh r \/ sm_tw r = sm_ow r) /\
  0 < sm_eff r /\
  Qabs (zq (sm_th r) - zq H * sm_eff r) <= 1 # 2 /\
  Qabs (zq (sm_tw r) - zq W * sm_eff r) <= 1 # 2.
Proof. exact sizematcher_spec. Qed.
Print Assumptions c04_sizematcher_exact_size.

(* the returned effective scale IS min(max_h / H, max_w / W), in both branches of the function (the
   early return has eff = 1 = both ratios): never above either ratio, equal to one of them *)
Theorem c04_sizematcher_eff_is_min_ratio : forall H W mh mw r,
  (0 < H)%Z -> (0 < W)%Z -> (0 < dflt H mh)%Z -> (0 < dflt W mw)%Z ->
  sizematcher H W mh mw = Some r ->
  let hr := zq (dflt H mh) / zq H in let wr := zq (dflt W mw) / zq W in
  sm_eff r <= hr /\ sm_eff r <= wr /\ (sm_eff r == hr \/ sm_eff r == wr).
Proof. exact sizematcher_eff_min. Qed.
Print Assumptions c04_sizematcher_eff_is_min_ratio.

(* eff_scale = 1 is returned only when nothing was resized (contrapositive: a resized image never
   comes with scale 1, so the callers' `instances * eff_scale` moves the keypoints with it) *)
Theorem c04_sizematcher_scale_one_not_resized : forall H W mh mw r,
  sizematcher H W mh mw = Some r -> sm_eff r == 1 -> sm_th r = H /\ sm_tw r = W.
Proof. exact sizematcher_eff_one. Qed.
Print Assumptions c04_sizematcher_scale_one_not_resized.

(* TIE max_h / H = max_w / W (the image has exactly the aspect ratio of the target; up- or
   down-scaling): eff is the common ratio, BOTH fitted sides land exactly on their maxima (no padding),
   and eff = 1 exactly when the image already has the requested size *)
Theorem c04_sizematcher_tie : forall H W mh mw r,
  (0 < H)%Z -> (0 < W)%Z -> (0 < dflt H mh)%Z -> (0 < dflt W mw)%Z ->
  sizematcher H W mh mw = Some r ->
  zq (dflt H mh) / zq H == zq (dflt W mw) / zq W ->
  sm_eff r == zq (dflt H mh) / zq H /\ sm_eff r == zq (dflt W mw) / zq W /\
  sm_th r = dflt H mh /\ sm_tw r = dflt W mw /\ sm_oh r = dflt H mh /\ sm_ow r = dflt W mw /\
  (sm_eff r == 1 <-> (H = dflt H mh /\ W = dflt W mw)).
Proof. exact sizematcher_tie. Qed.
Print Assumptions c04_sizematcher_tie.

Theorem c04_sizematcher_tie_resized_not_one : forall H W mh mw r,
  (0 < H)%Z -> (0 < W)%Z -> (0 < dflt H mh)%Z -> (0 < dflt W mw)%Z ->
  sizematcher H W mh mw = Some r ->
  zq (dflt H mh) / zq H == zq (dflt W mw) / zq W ->
  (H <> dflt H mh \/ W <> dflt W mw) -> ~ sm_eff r == 1.
Proof. exact sizematcher_tie_resized_not_one. Qed.
Print Assumptions c04_sizematcher_tie_resized_not_one.

(* registration in the tie: no size rounding at all, content minus keypoint is exactly (eff - 1) / 2
   at every position of both axes (under 1 px iff eff < 3, cf. c04_exact_step_lt_one_iff) *)
Theorem c04_sizematcher_tie_error : forall H W mh mw r x y,
  (0 < H)%Z -> (0 < W)%Z -> (0 < dflt H mh)%Z -> (0 < dflt W mw)%Z ->
  sizematcher H W mh mw = Some r ->
  zq (dflt H mh) / zq H == zq (dflt W mw) / zq W ->
  err (sm_axis W (sm_tw r) (sm_ow r) (sm_eff r)) x == (sm_eff r - 1) / 2 /\
  err (sm_axis H (sm_th r) (sm_oh r) (sm_eff r)) y == (sm_eff r - 1) / 2.
Proof. exact sizematcher_tie_error. Qed.
Print Assumptions c04_sizematcher_tie_error.

Example ex_c04_sizematcher_tie_up :
  exists r, sizematcher 48 64 (Some 96%Z) (Some 128%Z) = Some r /\
    zq 96 / zq 48 == zq 128 / zq 64 /\
    sm_th r = 96%Z /\ sm_tw r = 128%Z /\ sm_oh r = 96%Z /\ sm_ow r = 128%Z /\ sm_eff r == 2.
Proof. exact ex_sizematcher_tie_up_w. Qed.

Example ex_c04_sizematcher_tie_down :
  exists r, sizematcher 120 90 (Some 40%Z) (Some 30%Z) = Some r /\
    zq 40 / zq 120 == zq 30 / zq 90 /\
    sm_th r = 40%Z /\ sm_tw r = 30%Z /\ sm_oh r = 40%Z /\ sm_ow r = 30%Z /\ sm_eff r == 1 # 3.
Proof. exact ex_sizematcher_tie_down_w. Qed.

(* one px off the tie on either side: the other side binds and the loose side is padded *)
Example ex_c04_sizematcher_near_tie :
  (exists r, sizematcher 48 64 (Some 96%Z) (Some 127%Z) = Some r /\
     sm_th r = 95%Z /\ sm_tw r = 127%Z /\ sm_oh r = 96%Z /\ sm_eff r == 127 # 64) /\
  (exists r, sizematcher 48 64 (Some 96%Z) (Some 129%Z) = Some r /\
     sm_th r = 96%Z /\ sm_tw r = 128%Z /\ sm_ow r = 129%Z /\ sm_eff r == 2).
Proof. exact ex_sizematcher_near_tie_w. Qed.

(* Python's round(): within 1/2, never crosses an integer, ties to even (examples) *)
Theorem c04_py_round_nearest : forall q,
  q - (1 # 2) <= zq (py_round q) /\ zq (py_round q) <= q + (1 # 2).
Proof. exact py_round_bounds. Qed.
Print Assumptions c04_py_round_nearest.

Example ex_c04_py_round_half_even :
  py_round (5 # 2) = 2%Z /\ py_round (7 # 2) = 4%Z /\ py_round (-(1 # 2)) = 0%Z.
Proof. exact ex_py_round_w. Qed.

(* resizer: floor sizes *)
Theorem c04_resizer_floor_size : forall n s, ~ s == 1 ->
  resizer_size n s = Qfloor (zq n * s) /\
  zq n * s - 1 < zq (resizer_size n s) /\ zq (resizer_size n s) <= zq n * s.
Proof. exact resizer_size_floor. Qed.
Print Assumptions c04_resizer_floor_size.

(* [_def] *)
Theorem c04_resizer_scale_one_identity : forall n s, s == 1 -> resizer_size n s = n.
Proof. exact resizer_size_one. Qed.
Print Assumptions c04_resizer_scale_one_identity.

(* stride padding: the padded size is the LEAST multiple of max_stride >= the size *)
Theorem c04_stride_pad_least_multiple : forall n s, (0 < s)%Z ->
  let o := (n + stride_pad n s)%Z in
  (0 <= stride_pad n s < s)%Z /\ (o mod s = 0)%Z /\
  forall m, (n <= m)%Z -> (m mod s = 0)%Z -> (o <= m)%Z.
Proof. exact stride_pad_spec. Qed.
Print Assumptions c04_stride_pad_least_multiple.

(* crops: exactly the requested size [_def: osize of the model step]; the over-crop is
   floor (crop * sqrt 2) >= crop *)
Theorem c04_crop_exact_size : forall c n_in n, osize (crop_axis c n_in n) = n.
Proof. exact crop_size. Qed.
Print Assumptions c04_crop_exact_size.

Theorem c04_overcrop_size : forall c, (0 <= c)%Z ->
  let o := overcrop_size c in
  (o * o <= 2 * c * c < (o + 1) * (o + 1))%Z /\ (c <= o)%Z.
Proof. exact overcrop_spec. Qed.
Print Assumptions c04_overcrop_size.

(* the dataset pipelines: size matcher -> resizer -> stride pad gives the least multiple
   of max_stride >= floor (max * scale); the centred-instance pipeline gives crop_hw
   padded to the stride *)
Theorem c04_pipe_full_size : forall H W mh mw s st p,
  (0 < H)%Z -> (0 < W)%Z -> (0 < dflt H mh)%Z -> (0 < dflt W mw)%Z ->
  pipe_full H W mh mw s st = Some p ->
  osize (px p) = (resizer_size (dflt W mw) s + stride_pad (resizer_size (dflt W mw) s) st)%Z /\
  osize (py p) = (resizer_size (dflt H mh) s + stride_pad (resizer_size (dflt H mh) s) st)%Z.
Proof. exact pipe_full_size. Qed.
Print Assumptions c04_pipe_full_size.

Theorem c04_pipe_centered_size : forall H W mh mw s st ch cw cx cy p,
  pipe_centered H W mh mw s st ch cw cx cy = Some p ->
  osize (px p) = (cw + stride_pad cw st)%Z /\ osize (py p) = (ch + stride_pad ch st)%Z.
Proof. exact pipe_centered_size. Qed.
Print Assumptions c04_pipe_centered_size.

(* ======================================================================== *)
(* (b) padding only at the bottom / right: content and keypoints stay where they are.
   [_def: restates the model of the step (identity maps); the substantive statement for the whole
   chain is c04_pipe_full_padding_bottom_right below, the code is tied by the oracle `valid_rect`] *)
Theorem c04_pad_bottom_right_only : forall n s x,
  ap (cmap (pad_axis n s)) x == x /\ ap (kmap (pad_axis n s)) x == x.
Proof. exact pad_identity. Qed.
Print Assumptions c04_pad_bottom_right_only.

(* ======================================================================== *)
(* (c) registration error, step by step                                      *)

(* resampling n -> new pixels while keypoints are multiplied by k:
     err x = (new - k n)/n * (x + 1/2) + (k - 1)/2
   (size-rounding term, growing towards the far edge) + (half-pixel term) *)
Theorem c04_resize_error_formula : forall n new k x, (0 < n)%Z ->
  err (resample n new k) x == (zq new - k * zq n) / zq n * (x + (1 # 2)) + (k - 1) / 2.
Proof. exact err_resample. Qed.
Print Assumptions c04_resize_error_formula.

Theorem c04_resize_axis_is_resample : forall n s, ~ s == 1 ->
  resize_axis n s = resample n (resizer_size n s) s.
Proof. exact resize_axis_unfold. Qed.
Print Assumptions c04_resize_axis_is_resample.

(* [_def] *)
Theorem c04_pad_registered : forall n s x, err (pad_axis n s) x == 0.
Proof. exact err_pad. Qed.
Print Assumptions c04_pad_registered.

(* crops (with make_centered_bboxes' +-1/2 corner offsets the box spans exactly n-1
   pixel centres, so crop_and_resize does not rescale): content and keypoints both move
   by minus the first corner, the centroid lands on the crop centre *)
Theorem c04_bbox_spans_crop : forall c n, snd (bbox_axis c n) - fst (bbox_axis c n) == zq n - 1.
Proof. exact bbox_width. Qed.
Print Assumptions c04_bbox_spans_crop.

Theorem c04_crop_registered : forall c n_in n x, (1 < n)%Z ->
  ap (cmap (crop_axis c n_in n)) x == x - fst (bbox_axis c n) /\
  ap (kmap (crop_axis c n_in n)) x == x - fst (bbox_axis c n).
Proof. exact crop_maps. Qed.
Print Assumptions c04_crop_registered.

Theorem c04_crop_error_zero : forall c n_in n x, (1 < n)%Z -> err (crop_axis c n_in n) x == 0.
Proof. exact err_crop. Qed.
Print Assumptions c04_crop_error_zero.

Theorem c04_recrop_centred : forall pre c0 crop st, (1 < crop)%Z ->
  ap (kmap (recrop pre c0 crop st)) c0 == (zq crop - 1) / 2.
Proof. exact recrop_centre. Qed.
Print Assumptions c04_recrop_centred.

(* composition: exact, and as a bound *)
Theorem c04_compose_error : forall f g x,
  err (then_ f g) x == err g (ap (cmap f) x) + sl (kmap g) * err f x.
Proof. exact err_then. Qed.
Print Assumptions c04_compose_error.

Theorem c04_compose_error_bound : forall f g x,
  Qabs (err (then_ f g) x) <= Qabs (err g (ap (cmap f) x)) + Qabs (sl (kmap g)) * Qabs (err f x).
Proof. exact err_then_bound. Qed.
Print Assumptions c04_compose_error_bound.

(* any chain of exact steps (exact resamplings by k_i, crops, paddings, in any order and
   number): the error is (K * k_1 * ... * k_m - 1)/2 everywhere — governed by the TOTAL
   factor *)
Theorem c04_exact_chain_error : forall steps ks acc K,
  Forall2 uniform_step steps ks -> (forall x, err acc x == (K - 1) / 2) ->
  forall x, err (fold_left then_ steps acc) x == (K * qprod ks - 1) / 2.
Proof. exact chain_exact. Qed.
Print Assumptions c04_exact_chain_error.

Theorem c04_exact_steps : forall n new k c n_in st, (0 < n)%Z -> zq new == k * zq n -> (1 < new)%Z ->
  uniform_step (resample n new k) k /\ uniform_step (crop_axis c n_in new) 1 /\
  uniform_step (pad_axis n st) 1.
Proof.
  intros. split; [apply uniform_resample; assumption|]. split; [apply uniform_crop; assumption|].
  apply uniform_pad.
Qed.
Print Assumptions c04_exact_steps.

(* single steps: under one output pixel over the whole image extent ...          *)
(* ... exact size: iff the factor is below 3 *)
Theorem c04_exact_step_lt_one_iff : forall n new k x, (0 < n)%Z -> 0 < k -> zq new == k * zq n ->
  (Qabs (err (resample n new k) x) < 1 <-> k < 3).
Proof. exact resample_exact_lt_one_iff. Qed.
Print Assumptions c04_exact_step_lt_one_iff.

(* ... the resizer (floor) for every 1 <= scale < 3, whatever the size *)
Theorem c04_resizer_up_lt_one : forall n s x, (0 < n)%Z -> in_extent n x -> 1 <= s -> s < 3 ->
  Qabs (err (resize_axis n s) x) < 1.
Proof. exact resizer_up_lt_one. Qed.
Print Assumptions c04_resizer_up_lt_one.

(* ... the resizer (floor) shrinking: always under 3/2, and under one pixel exactly
   outside the far-edge band (k n - new) (x + 1/2)/n >= (1 + k)/2  (F11b) *)
Theorem c04_resizer_down_band : forall n new k x, (0 < n)%Z -> in_extent n x ->
  0 < k -> k < 1 -> k * zq n - 1 < zq new -> zq new <= k * zq n ->
  Qabs (err (resample n new k) x) < 3 # 2 /\
  (Qabs (err (resample n new k) x) < 1 <->
   (k * zq n - zq new) * ((x + (1 # 2)) / zq n) < (1 + k) / 2).
Proof. exact resample_floor_down. Qed.
Print Assumptions c04_resizer_down_band.

(* ... the size matcher (nearest) for every fit 0 < eff < 2, on both axes *)
Theorem c04_sizematcher_step_lt_one : forall H W mh mw r x y,
  (0 < H)%Z -> (0 < W)%Z -> (0 < dflt H mh)%Z -> (0 < dflt W mw)%Z ->
  sizematcher H W mh mw = Some r -> sm_eff r < 2 -> in_extent W x -> in_extent H y ->
  Qabs (err (sm_axis W (sm_tw r) (sm_ow r) (sm_eff r)) x) < 1 /\
  Qabs (err (sm_axis H (sm_th r) (sm_oh r) (sm_eff r)) y) < 1.
Proof. exact sizematcher_step_lt_one. Qed.
Print Assumptions c04_sizematcher_step_lt_one.

(* the dataset pipelines with exact sizes: the error is (eff*scale - 1)/2 everywhere *)
Theorem c04_pipe_full_exact_error : forall H W mh mw s st p x y,
  (0 < H)%Z -> (0 < W)%Z -> (0 < dflt H mh)%Z -> (0 < dflt W mw)%Z ->
  pipe_full H W mh mw s st = Some p -> pexact p = true ->
  err (px p) x == (pfactor p - 1) / 2 /\ err (py p) y == (pfactor p - 1) / 2.
Proof. exact pipe_full_exact. Qed.
Print Assumptions c04_pipe_full_exact_error.

Theorem c04_pipe_centered_exact_error : forall H W mh mw s st ch cw cx cy p x y,
  (0 < H)%Z -> (0 < W)%Z -> (0 < dflt H mh)%Z -> (0 < dflt W mw)%Z -> (1 < ch)%Z -> (1 < cw)%Z ->
  pipe_centered H W mh mw s st ch cw cx cy = Some p -> pexact p = true ->
  err (px p) x == (pfactor p - 1) / 2 /\ err (py p) y == (pfactor p - 1) / 2.
Proof. exact pipe_centered_exact. Qed.
Print Assumptions c04_pipe_centered_exact_error.

(* cropping, re-cropping and padding never add error *)
Theorem c04_recrop_adds_no_error : forall pre c0 crop st x, (1 < crop)%Z ->
  err (recrop pre c0 crop st) x == err pre x.
Proof. exact err_recrop. Qed.
Print Assumptions c04_recrop_adds_no_error.

(* CLOSED FORM of the error of the dataset pipelines (round 4): for every position,
     err = d * t + (k - 1)/2,   d = size defect of the axis (pdx / pdy: actual minus nominal side of
   the resized content, from the four sizes), t = (x + 1/2)/n the relative position, k = eff * scale.
   Cropping, re-cropping and padding do not change it. *)
Theorem c04_pipe_full_error_formula : forall H W mh mw s st p,
  (0 < H)%Z -> (0 < W)%Z -> (0 < dflt H mh)%Z -> (0 < dflt W mw)%Z ->
  pipe_full H W mh mw s st = Some p ->
  (forall x, err (px p) x == perr (pdx p) (pfactor p) (pnx p) x) /\
  (forall y, err (py p) y == perr (pdy p) (pfactor p) (pny p) y).
Proof. exact pipe_full_err_formula. Qed.
Print Assumptions c04_pipe_full_error_formula.

Theorem c04_pipe_centered_error_formula : forall H W mh mw s st ch cw cx cy p,
  (0 < H)%Z -> (0 < W)%Z -> (0 < dflt H mh)%Z -> (0 < dflt W mw)%Z -> (1 < ch)%Z -> (1 < cw)%Z ->
  pipe_centered H W mh mw s st ch cw cx cy = Some p ->
  (forall x, err (px p) x == perr (pdx p) (pfactor p) (pnx p) x) /\
  (forall y, err (py p) y == perr (pdy p) (pfactor p) (pny p) y).
Proof. exact pipe_centered_err_formula. Qed.
Print Assumptions c04_pipe_centered_error_formula.

(* what the record fields are: the inputs' sides, and the defect computed from the sizes only *)
Theorem c04_pipe_defect_bound : forall H W mh mw s p,
  (0 < H)%Z -> (0 < W)%Z -> (0 < dflt H mh)%Z -> (0 < dflt W mw)%Z -> 0 < s ->
  pipe_pre H W mh mw s = Some p ->
  (- (s / 2 + (3 # 2)) < pdx p /\ pdx p <= s / 2) /\ (- (s / 2 + (3 # 2)) < pdy p /\ pdy p <= s / 2).
Proof. exact pipe_pre_defect_bound. Qed.
Print Assumptions c04_pipe_defect_bound.

Theorem c04_pipe_exact_no_defect : forall H W mh mw s p,
  (0 < H)%Z -> (0 < W)%Z -> (0 < dflt H mh)%Z -> (0 < dflt W mw)%Z ->
  pipe_pre H W mh mw s = Some p -> pexact p = true -> pdx p == 0 /\ pdy p == 0.
Proof. exact pipe_pre_exact_defect. Qed.
Print Assumptions c04_pipe_exact_no_defect.

(* the band of selector_F11b, [_def] of its meaning: where the closed form reaches one pixel *)
Theorem c04_band_def : forall d k t, band d k t = true <-> 1 <= Qabs (d * t + (k - 1) / 2).
Proof. exact band_iff. Qed.
Print Assumptions c04_band_def.

(* shape of the band (0 < k < 3): never at the near edge t = 0; an interval that, once entered,
   extends to the far edge; empty unless the defect is at least min (3-k, 1+k)/2 px.  It is NOT
   always thin: ex_c04_band_wide (factor 57/20: the band starts at t = 1/8) *)
Theorem c04_band_far_edge_interval : forall d k, 0 < k -> k < 3 ->
  band d k 0 = false /\
  (forall t t', 0 <= t -> t <= t' -> band d k t = true -> band d k t' = true) /\
  (forall t, 0 <= t -> t <= 1 -> band d k t = true ->
     (3 - k) * (1 # 2) <= d \/ d <= - ((1 + k) * (1 # 2))).
Proof. exact band_shape. Qed.
Print Assumptions c04_band_far_edge_interval.

(* THE REGISTRATION STATEMENT without augmentation, partial: for the pipelines of the four datasets
   with apply_aug = False (BottomUp / SingleInstance / Centroid = pipe_full, CenteredInstance =
   pipe_centered) the error is under one output pixel on both axes for every input outside the
   selectors of the known findings F11 (cumulative factor >= 3) and F11b (a rounded size and the
   keypoint in the band d * t >= (3-k)/2 or d * t <= -(1+k)/2 on one axis).  The selectors mention
   only sizes, factor and position; the proof goes through the closed form above.  What is missing
   for the full statement is exactly F11 and F11b (c04_selector_F11b_exact_*: the band is the
   failure set, it cannot be narrowed).  With augmentation: c04_registration_partial_*_aug. *)
Theorem c04_registration_partial_full : forall H W mh mw s st p x y,
  (0 < H)%Z -> (0 < W)%Z -> (0 < dflt H mh)%Z -> (0 < dflt W mw)%Z -> 0 < s ->
  pipe_full H W mh mw s st = Some p ->
  selector_F11 p = false -> selector_F11b p x y = false ->
  Qabs (err (px p) x) < 1 /\ Qabs (err (py p) y) < 1.
Proof. exact pipe_full_partial. Qed.
Print Assumptions c04_registration_partial_full.

Theorem c04_registration_partial_centered : forall H W mh mw s st ch cw cx cy p x y,
  (0 < H)%Z -> (0 < W)%Z -> (0 < dflt H mh)%Z -> (0 < dflt W mw)%Z -> 0 < s ->
  (1 < ch)%Z -> (1 < cw)%Z ->
  pipe_centered H W mh mw s st ch cw cx cy = Some p ->
  selector_F11 p = false -> selector_F11b p x y = false ->
  Qabs (err (px p) x) < 1 /\ Qabs (err (py p) y) < 1.
Proof. exact pipe_centered_partial. Qed.
Print Assumptions c04_registration_partial_centered.

(* exactness of the selector: on the real pipelines it is true EXACTLY where a size was rounded, the
   factor is below 3 and the modelled error reaches one pixel on some axis *)
Theorem c04_selector_F11b_exact_full : forall H W mh mw s st p x y,
  (0 < H)%Z -> (0 < W)%Z -> (0 < dflt H mh)%Z -> (0 < dflt W mw)%Z ->
  pipe_full H W mh mw s st = Some p ->
  (selector_F11b p x y = true <->
   pexact p = false /\ pfactor p < 3 /\ (1 <= Qabs (err (px p) x) \/ 1 <= Qabs (err (py p) y))).
Proof. exact selector_F11b_exact_full. Qed.
Print Assumptions c04_selector_F11b_exact_full.

Theorem c04_selector_F11b_exact_centered : forall H W mh mw s st ch cw cx cy p x y,
  (0 < H)%Z -> (0 < W)%Z -> (0 < dflt H mh)%Z -> (0 < dflt W mw)%Z -> (1 < ch)%Z -> (1 < cw)%Z ->
  pipe_centered H W mh mw s st ch cw cx cy = Some p ->
  (selector_F11b p x y = true <->
   pexact p = false /\ pfactor p < 3 /\ (1 <= Qabs (err (px p) x) \/ 1 <= Qabs (err (py p) y))).
Proof. exact selector_F11b_exact_centered. Qed.
Print Assumptions c04_selector_F11b_exact_centered.

(* non-vacuity of the partial statements, one example per branch: exact sizes (informative through
   c04_pipe_full_exact_error), rounded sizes outside / inside the band, a wide band *)
Example ex_c04_partial_exact_branch :
  exists p, pipe_full 40 40 None None (5 # 2) 1 = Some p /\ pexact p = true /\
    selector_F11 p = false /\ selector_F11b p 10 10 = false /\ err (px p) 10 == 3 # 4.
Proof. exact ex_partial_exact_branch_w. Qed.

Example ex_c04_partial_rounded_branch :
  exists p, pipe_full 50 17 (Some 140%Z) (Some 60%Z) 1 1 = Some p /\ pexact p = false /\
    selector_F11 p = false /\ selector_F11b p 3 25 = false /\ selector_F11b p 16 25 = true /\
    pdx p == 2 # 5 /\ pfactor p == 14 # 5.
Proof. exact ex_partial_rounded_branch_w. Qed.

Example ex_c04_band_wide :
  exists p, pipe_full 100 84 (Some 190%Z) (Some 168%Z) (3 # 2) 1 = Some p /\
    selector_F11 p = false /\ selector_F11b p 9 0 = false /\ selector_F11b p 10 0 = true /\
    err (px p) 10 == 1 /\ relpos (pnx p) 10 == 1 # 8.
Proof. exact ex_band_wide_w. Qed.

Example ex_c04_partial_nonvacuous :
  exists p, pipe_centered 120 160 (Some 128%Z) (Some 192%Z) (1 # 2) 16 32 32 80 60 = Some p /\
    selector_F11 p = false /\ selector_F11b p 80 60 = false /\ osize (px p) = 32%Z.
Proof. exact ex_pipe_nonvacuous_w. Qed.

Example ex_c04_sizematcher :
  exists r, sizematcher 384 384 (Some 200%Z) (Some 300%Z) = Some r /\
    sm_th r = 200%Z /\ sm_tw r = 200%Z /\ sm_oh r = 200%Z /\ sm_ow r = 300%Z /\ sm_eff r == 25 # 48.
Proof. exact ex_sizematcher_w. Qed.

(* the full statement ("under one output pixel for all scales") is FALSE of the code: *)
(* F11: one x4 resize step, error 3/2 px at every keypoint *)
Theorem c04_registration_lt_one_refuted :
  (0 < 20)%Z /\ in_extent 20 10 /\ err (resize_axis 20 4) 10 == 3 # 2 /\
  1 <= Qabs (err (resize_axis 20 4) 10).
Proof. exact registration_lt_one_refuted_w. Qed.
Print Assumptions c04_registration_lt_one_refuted.

Theorem c04_pipe_registration_refuted :
  exists p, pipe_full 20 20 None None 4 16 = Some p /\ selector_F11 p = true /\
    pexact p = true /\ err (px p) 10 == 3 # 2 /\ err (py p) 10 == 3 # 2.
Proof. exact pipe_registration_refuted_w. Qed.
Print Assumptions c04_pipe_registration_refuted.

(* "each step's factor below 3" is not enough: two x2 steps, each 1/2 px, together 3/2 px *)
Theorem c04_two_x2_steps_refuted :
  Qabs (err (resample 20 40 2) 10) < 1 /\ Qabs (err (resample 40 80 2) 20) < 1 /\
  err (then_ (resample 20 40 2) (resample 40 80 2)) 10 == 3 # 2.
Proof. exact two_x2_steps_refuted_w. Qed.
Print Assumptions c04_two_x2_steps_refuted.

(* F11b: 175 px * 1/4 -> int(43.75) = 43 px; the keypoint on the last pixel centre (9/8 px off) *)
Theorem c04_floor_far_edge_refuted :
  in_extent 175 174 /\ resizer_size 175 (1 # 4) = 43%Z /\ 1 <= Qabs (err (resize_axis 175 (1 # 4)) 174).
Proof. exact floor_far_edge_refuted_w. Qed.
Print Assumptions c04_floor_far_edge_refuted.

Theorem c04_round_far_edge_refuted :
  exists p, pipe_full 50 17 (Some 140%Z) (Some 60%Z) 1 1 = Some p /\
    selector_F11 p = false /\ selector_F11b p 16 25 = true /\ in_extent 17 16 /\
    1 <= Qabs (err (px p) 16).
Proof. exact round_far_edge_refuted_w. Qed.
Print Assumptions c04_round_far_edge_refuted.

(* ======================================================================== *)
(* (d), (e) augmentation wrappers                                            *)

(* reshape (n, -1, 2) -> library -> reshape back: if the library applies one matrix m to
   every point it is given (contract, read back and tested on every run), the wrapper
   applies m to every keypoint of every instance, order and grouping preserved *)
Theorem c04_wrapper_same_matrix : forall (f : list kp -> list kp) (m : mat),
  (forall l, f l = map (apply_mat m) l) ->
  forall n insts, Forall (fun r => length r = n) insts ->
  aug_wrapper f n insts = map (map (apply_mat m)) insts.
Proof. exact wrapper_same_matrix. Qed.
Print Assumptions c04_wrapper_same_matrix.

(* intensity-only augmentation never moves keypoints (contract: the library returns the
   points unchanged for intensity operations) *)
Theorem c04_intensity_never_moves_keypoints : forall (f : list kp -> list kp),
  (forall l, f l = l) ->
  forall n insts, Forall (fun r => length r = n) insts -> aug_wrapper f n insts = insts.
Proof. exact intensity_never_moves. Qed.
Print Assumptions c04_intensity_never_moves_keypoints.

(* [_def] *)
Theorem c04_missing_stays_missing : forall sx sy m,
  step_kp sx sy None = None /\ apply_mat m None = None.
Proof. intros. split. apply step_kp_none. apply apply_mat_none. Qed.
Print Assumptions c04_missing_stays_missing.

(* HISTORIC (pinned tree before fix 6a3da1d / c812d23; no code of the current tree takes this path):
   kornia's RandomAffine with its DEFAULT align_corners=False (`warp_content false` = D m D^-1,
   = `warp_mech false` by c04_warp_mech_default).  On SQUARE images content and keypoints differ by
   (displacement of the image centre)/(n-1) everywhere — zero for rotation / scaling about the
   centre, under one pixel whenever the centre moves by less than n-1 px.  Kept: they document F04k /
   F04p and let the check report a regression; the harness measures RandomAffine(align_corners=False)
   directly against `CAugContent false` on every run. *)
Theorem c04_aug_square_error : forall n m x y, (1 < n)%Z ->
  let c := (zq n - 1) / 2 in
  fst (aug_err false n n m x y) == (fst (mat_xy m c c) - c) / (zq n - 1) /\
  snd (aug_err false n n m x y) == (snd (mat_xy m c c) - c) / (zq n - 1).
Proof. exact aug_square_error. Qed.
Print Assumptions c04_aug_square_error.

Theorem c04_aug_square_registered : forall n m x y, (1 < n)%Z ->
  let c := (zq n - 1) / 2 in
  Qabs (fst (mat_xy m c c) - c) < zq n - 1 -> Qabs (snd (mat_xy m c c) - c) < zq n - 1 ->
  Qabs (fst (aug_err false n n m x y)) < 1 /\ Qabs (snd (aug_err false n n m x y)) < 1.
Proof. exact aug_square_lt_one. Qed.
Print Assumptions c04_aug_square_registered.

(* [_def] `warp_content true` is m by definition; the statement about what the CURRENT code runs is
   c04_warp_mech_aligned below *)
Theorem c04_aug_fixed_registered_def : forall H W m x y,
  fst (aug_err true H W m x y) == 0 /\ snd (aug_err true H W m x y) == 0.
Proof. exact aug_fixed_registered. Qed.
Print Assumptions c04_aug_fixed_registered_def.

(* CURRENT tree (align_corners=True in apply_geometric_augmentation and KorniaAugmenter): kornia's
   warp_affine normalises the pixel matrix with the (n-1) convention and samples the grid with the
   same convention, `warp_mech true H W m` = N^-1 (N m N^-1) N — the term `run (CAugContent true ..)`
   evaluates and the harness compares with the measured content.  For every image with both sides
   > 1 px and every matrix the content moves exactly by the keypoint matrix: geometric augmentation
   applies the same transform to image and keypoints.  (A 1-px side is excluded: witness.) *)
Theorem c04_warp_mech_aligned : forall H W m x y, (1 < H)%Z -> (1 < W)%Z ->
  fst (mat_xy (warp_mech true H W m) x y) == fst (mat_xy m x y) /\
  snd (mat_xy (warp_mech true H W m) x y) == snd (mat_xy m x y).
Proof. exact warp_mech_aligned. Qed.
Print Assumptions c04_warp_mech_aligned.

Theorem c04_aug_aligned_registered : forall H W m x y, (1 < H)%Z -> (1 < W)%Z ->
  fst (aug_err_mech true H W m x y) == 0 /\ snd (aug_err_mech true H W m x y) == 0.
Proof. exact aug_err_mech_aligned. Qed.
Print Assumptions c04_aug_aligned_registered.

Theorem c04_warp_mech_one_px_excluded :
  ~ fst (mat_xy (warp_mech true 5 1 ((1, 0, 1), (0, 1, 0))) 0 2) == fst (mat_xy ((1, 0, 1), (0, 1, 0)) 0 2).
Proof. exact warp_mech_one_px_w. Qed.
Print Assumptions c04_warp_mech_one_px_excluded.

(* kornia's default (align_corners=False): the same mechanism gives D m D^-1, the historic map *)
Theorem c04_warp_mech_default : forall H W m x y, (1 < H)%Z -> (1 < W)%Z ->
  fst (mat_xy (warp_mech false H W m) x y) == fst (mat_xy (warp_content false H W m) x y) /\
  snd (mat_xy (warp_mech false H W m) x y) == snd (mat_xy (warp_content false H W m) x y).
Proof. exact warp_mech_default. Qed.
Print Assumptions c04_warp_mech_default.

(* HISTORIC F04k / F04p (fixed by 6a3da1d / c812d23), kornia's default: 17 x 200 image, similarity (scale ~1.49, rotation ~11.6 deg) about the image centre:
   the keypoint (160, 0) and its image content both stay inside the 200 x 17 output and are
   more than 1 px apart *)
Theorem c04_aug_nonsquare_refuted :
  fst (mat_xy sim_17x200 (199 # 2) 8) == 199 # 2 /\ snd (mat_xy sim_17x200 (199 # 2) 8) == 8 /\
  in_frame 17 200 (mat_xy sim_17x200 160 0) /\
  in_frame 17 200 (mat_xy (warp_content false 17 200 sim_17x200) 160 0) /\
  1 <= Qabs (snd (aug_err false 17 200 sim_17x200 160 0)) /\
  selector_F04k 17 200 sim_17x200 160 0 = true.
Proof. exact aug_nonsquare_refuted_w. Qed.
Print Assumptions c04_aug_nonsquare_refuted.

(* ======================================================================== *)
(* find_instance_crop_size                                                   *)

(* computed branch: a multiple of max_stride, the LEAST one that covers the largest
   instance extent (scaled) plus padding, and at least min_crop_size *)
Theorem c04_crop_size_covers : forall insts padding stride scale min_crop,
  (0 < stride)%Z ->
  ~ ((0 < dflt 0 min_crop)%Z /\ (dflt 0 min_crop mod stride = 0)%Z) ->
  let r := find_instance_crop_size insts padding stride scale min_crop in
  let need := crop_ml insts scale (zq (dflt 0 min_crop - padding)) + zq padding in
  (r mod stride = 0)%Z /\ need <= zq r /\ zq r < need + zq stride /\
  (forall i, In i insts -> inst_length scale i + zq padding <= zq r) /\
  (insts <> [] -> (dflt 0 min_crop <= r)%Z).
Proof. exact crop_size_computed. Qed.
Print Assumptions c04_crop_size_covers.

Theorem c04_extent_spans : forall l a b, In a l -> In b l -> a - b <= extent l.
Proof. exact extent_spans. Qed.
Print Assumptions c04_extent_spans.

(* user branch (documented: "min_crop_size: the crop size set by the user"): a positive
   min_crop_size that is already a multiple of max_stride is returned unchanged, whatever
   the instances are *)
Theorem c04_crop_size_user_override : forall insts padding stride scale mc,
  (0 < mc)%Z -> (mc mod stride = 0)%Z ->
  find_instance_crop_size insts padding stride scale (Some mc) = mc.
Proof. exact crop_size_user. Qed.
Print Assumptions c04_crop_size_user_override.

Example ex_c04_crop_size :
  find_instance_crop_size [[Some (10, 20); Some (130, 40)]] 0 16 1 (Some 100%Z) = 128%Z /\
  find_instance_crop_size [[Some (10, 20); Some (130, 40)]] 0 2 1 (Some 100%Z) = 100%Z.
Proof. exact ex_crop_size_w. Qed.

(* ======================================================================== *)
(* round 2: padding position for whole pipelines, zero fill of crops, DataPipe versions,
   augmentation stacks, crop size vs containment                             *)

(* "padding is added only at the bottom and right", for the WHOLE chain size matcher ->
   resizer -> stride pad (BottomUp / SingleInstance / Centroid datasets), both axes: the image
   content starts exactly at the outer edge of the first pixel (content_lo = -1/2: nothing is
   inserted at the top / left), is not mirrored (positive slope), is not empty and ends inside
   the output (content_hi <= osize - 1/2: nothing is cut off) *)
Theorem c04_pipe_full_padding_bottom_right : forall H W mh mw s st p,
  (0 < H)%Z -> (0 < W)%Z -> (0 < dflt H mh)%Z -> (0 < dflt W mw)%Z ->
  pipe_full H W mh mw s st = Some p ->
  (content_lo (px p) == - (1 # 2) /\ - (1 # 2) < content_hi (px p) /\
   content_hi (px p) <= zq (osize (px p)) - (1 # 2) /\ 0 < sl (cmap (px p))) /\
  (content_lo (py p) == - (1 # 2) /\ - (1 # 2) < content_hi (py p) /\
   content_hi (py p) <= zq (osize (py p)) - (1 # 2) /\ 0 < sl (cmap (py p))).
Proof. exact pipe_full_padding. Qed.
Print Assumptions c04_pipe_full_padding_bottom_right.

Theorem c04_step_content_extents : forall n t o e s st, (0 < n)%Z ->
  (content_lo (sm_axis n t o e) == - (1 # 2) /\ content_hi (sm_axis n t o e) == zq t - (1 # 2)) /\
  (content_lo (resize_axis n s) == - (1 # 2) /\
   content_hi (resize_axis n s) == zq (resizer_size n s) - (1 # 2)) /\
  (content_lo (pad_axis n st) == - (1 # 2) /\ content_hi (pad_axis n st) == zq n - (1 # 2) /\
   content_hi (pad_axis n st) <= zq (osize (pad_axis n st)) - (1 # 2)).
Proof.
  intros. split; [apply sm_axis_extent; assumption|]. split; [apply resize_axis_extent; assumption|].
  apply pad_extent.
Qed.
Print Assumptions c04_step_content_extents.

Example ex_c04_pipe_padding :
  exists p, pipe_full 50 17 (Some 140%Z) (Some 60%Z) (1 # 2) 16 = Some p /\
    content_lo (px p) == - (1 # 2) /\ osize (px p) = 32%Z /\ osize (py p) = 80%Z.
Proof. exact ex_pipe_padding_w. Qed.

(* crops near / across the image border (kornia crop_and_resize, zero padding): output pixel j
   shows the source position (first corner + j) — the same shift the keypoints get — so it
   carries image content exactly for j in crop_valid and is pure zero fill beyond
   crop_zero_below / crop_zero_above: out-of-image regions are never wrapped or replicated *)
Theorem c04_crop_zero_fill : forall c n_in n j, (1 < n)%Z -> (0 <= j < n)%Z ->
  let x1 := fst (bbox_axis c n) in
  ap (cmap (crop_axis c n_in n)) (x1 + zq j) == zq j /\
  ap (kmap (crop_axis c n_in n)) (x1 + zq j) == zq j /\
  ((fst (crop_valid x1 n_in n) <= j <= snd (crop_valid x1 n_in n))%Z <->
   0 <= x1 + zq j /\ x1 + zq j <= zq n_in - 1) /\
  ((j <= crop_zero_below x1)%Z <-> x1 + zq j <= - 1) /\
  ((crop_zero_above x1 n_in <= j)%Z <-> zq n_in <= x1 + zq j).
Proof.
  intros c n_in n j Hn Hj x1. split; [apply crop_pixel_source; assumption|].
  split; [destruct (crop_maps c n_in n (x1 + zq j) Hn) as [_ E]; rewrite E; subst x1; ring|].
  apply crop_valid_spec. assumption.
Qed.
Print Assumptions c04_crop_zero_fill.

Example ex_c04_crop_valid :
  crop_valid (- (5 # 2)) 20 8 = (3, 7)%Z /\ crop_zero_below (- (5 # 2)) = 1%Z /\
  crop_valid 16 20 8 = (0, 3)%Z /\ crop_zero_above 16 20 = 4%Z.
Proof. exact ex_crop_valid_w. Qed.

(* SizeMatcher (IterDataPipe; unlike apply_sizematcher it only pads): every yielded example has
   the size (max_height, max_width), a max given as None being fixed by the FIRST image; the
   iteration ends with the exception iff some image is larger than that; padding at the
   bottom / right, keypoints and content untouched *)
Theorem c04_sizematcher_datapipe : forall mh mw H0 W0 t l e,
  smdp_run (mh, mw) ((H0, W0) :: t) = (l, e) ->
  let a := dflt H0 mh in let b := dflt W0 mw in
  Forall (fun o => o = (a, b)) l /\
  (e = false <-> Forall (fits a b) ((H0, W0) :: t)) /\
  (e = false -> length l = S (length t)).
Proof. exact smdp_run_spec. Qed.
Print Assumptions c04_sizematcher_datapipe.

(* [_def: identity maps of the model step] *)
Theorem c04_sizematcher_datapipe_registered : forall n out x,
  err (smdp_axis n out) x == 0 /\ content_lo (smdp_axis n out) == - (1 # 2) /\
  content_hi (smdp_axis n out) == zq n - (1 # 2).
Proof. exact smdp_axis_registered. Qed.
Print Assumptions c04_sizematcher_datapipe_registered.

Example ex_c04_smdp :
  smdp_run (None, Some 40%Z) [(20, 30); (18, 40); (25, 10)]%Z = ([(20, 40); (20, 40)]%Z, true).
Proof. exact ex_smdp_w. Qed.

(* InstanceCropper: one crop per (centroid, instance) pair for the first num_instances pairs,
   in order; each crop registered exactly, the centroid on the crop centre *)
Theorem c04_instance_cropper : forall H W h w num items,
  length (instance_cropper H W h w num items) = Nat.min num (length items) /\
  (forall i it, (i < num)%nat -> nth_error items i = Some it ->
     nth_error (instance_cropper H W h w num items) i = Some (crop_item H W h w it)).
Proof. intros. split; [apply cropper_length | apply cropper_nth]. Qed.
Print Assumptions c04_instance_cropper.

Theorem c04_crop_item_registered : forall H W h w cx cy pts, (1 < h)%Z -> (1 < w)%Z ->
  let sx := crop_axis cx W w in let sy := crop_axis cy H h in
  fst (crop_item H W h w ((cx, cy), pts)) = map (step_kp sx sy) pts /\
  snd (crop_item H W h w ((cx, cy), pts)) = Some (ap (kmap sx) cx, ap (kmap sy) cy) /\
  ap (kmap sx) cx == (zq w - 1) / 2 /\ ap (kmap sy) cy == (zq h - 1) / 2 /\
  (forall x, err sx x == 0) /\ (forall y, err sy y == 0).
Proof. exact crop_item_registered. Qed.
Print Assumptions c04_crop_item_registered.

(* augmentation stacks (apply_geometric_augmentation = [affine; erase; mixup],
   apply_intensity_augmentation = [uniform; gaussian; contrast; brightness], KorniaAugmenter =
   all seven): an operation is present only if its probability is > 0; keypoints are moved by
   the matrices of the APPLIED affine operations and by nothing else — random erasing, mixup,
   noise, contrast, brightness and an affine whose draw was "not applied" return every
   keypoint exactly (Leibniz equality, NaN / missing included) *)
Theorem c04_stack_only_applied_affine_moves : forall entries p,
  stack_kp entries p = fold_left (fun q m => apply_mat m q) (applied_mats entries) p.
Proof. exact stack_kp_mats. Qed.
Print Assumptions c04_stack_only_applied_affine_moves.

Theorem c04_stack_without_applied_affine_is_identity : forall entries p,
  forallb (fun e => negb (moves e)) entries = true -> stack_kp entries p = p.
Proof. exact stack_no_affine. Qed.
Print Assumptions c04_stack_without_applied_affine_is_identity.

Theorem c04_stack_one_affine : forall pre m post p,
  forallb (fun e => negb (moves e)) pre = true -> forallb (fun e => negb (moves e)) post = true ->
  stack_kp (pre ++ (OpAffine m, true) :: post) p = apply_mat m p.
Proof. exact stack_one_affine. Qed.
Print Assumptions c04_stack_one_affine.

Theorem c04_stack_wrapper : forall entries n insts, Forall (fun r => length r = n) insts ->
  aug_wrapper (map (stack_kp entries)) n insts = map (map (stack_kp entries)) insts.
Proof. intros. apply wrapper_pointwise. assumption. Qed.
Print Assumptions c04_stack_wrapper.

Theorem c04_build_stack_positive_p : forall cfg o,
  In o (build_stack cfg) -> exists p, In (o, p) cfg /\ 0 < p.
Proof. exact build_stack_in. Qed.
Print Assumptions c04_build_stack_positive_p.

Example ex_c04_stack :
  stack_kp [(OpAffine ((2, 0, 1), (0, 2, 1)), true); (OpErase, true); (OpMixup, true)] (Some (3, 4)) = Some (2 * 3 + 0 * 4 + 1, 0 * 3 + 2 * 4 + 1) /\
  stack_kp [(OpAffine ((2, 0, 1), (0, 2, 1)), false); (OpErase, true)] (Some (3, 4)) = Some (3, 4) /\
  build_stack [(OpAffine mat_id, 0); (OpErase, 1); (OpMixup, 1 # 2)] = [OpErase; OpMixup].
Proof. exact ex_stack_w. Qed.

(* find_instance_crop_size covers in the sense the crops need: a crop of the computed size
   centred on the bounding-box midpoint of an instance's (scaled) visible keypoints — the
   centroid used when anchor_part is None — contains every visible keypoint of that instance
   on both axes (any instance of the labels, partially labelled ones included) *)
Theorem c04_crop_size_contains_instance : forall insts padding stride scale min_crop n_in inst x y,
  (0 < stride)%Z -> (0 <= padding)%Z ->
  ~ ((0 < dflt 0 min_crop)%Z /\ (dflt 0 min_crop mod stride = 0)%Z) ->
  In inst insts -> In (Some (x, y)) inst ->
  let r := find_instance_crop_size insts padding stride scale min_crop in
  let cx := midpoint (map (Qmult scale) (vis_xs inst)) in
  let cy := midpoint (map (Qmult scale) (vis_ys inst)) in
  (1 < r)%Z ->
  in_extent r (ap (kmap (crop_axis cx n_in r)) (scale * x)) /\
  in_extent r (ap (kmap (crop_axis cy n_in r)) (scale * y)).
Proof. exact crop_size_contains. Qed.
Print Assumptions c04_crop_size_contains_instance.

Example ex_c04_crop_contains :
  find_instance_crop_size [[Some (10, 20); None; Some (130, 40)]] 16 16 1 None = 144%Z.
Proof. exact ex_crop_contains_w. Qed.

(* KorniaAugmenter (IterDataPipe): pinned tree = RandomAffine without align_corners=True (finding F04p,
   content map warp_content false, refuted by c04_aug_nonsquare_refuted); CURRENT tree (fix c812d23) =
   align_corners=True like apply_geometric_augmentation: c04_warp_mech_aligned applies to both. *)

(* ======================================================================== *)
(* round 4: dataset pipeline FOLLOWED BY geometric augmentation, error against the ORIGINAL labels *)

(* BottomUp / SingleInstance / Centroid (size matcher -> resizer -> stride pad -> augmentation) and
   CenteredInstance (size matcher -> resizer -> over-crop -> augmentation -> re-crop -> pad): in the
   final sample, (position of the content of the original point) - (returned keypoint) is the image
   of the pipeline's error under the LINEAR part of the sampled matrix.  For any pipe / any steps. *)
Theorem c04_full_aug_error : forall p m x y, (1 < osize (py p))%Z -> (1 < osize (px p))%Z ->
  fst (full_aug_content true p m x y) - fst (full_aug_kp p m x y)
    == fst (lin_apply m (err (px p) x) (err (py p) y)) /\
  snd (full_aug_content true p m x y) - snd (full_aug_kp p m x y)
    == snd (lin_apply m (err (px p) x) (err (py p) y)).
Proof. exact full_aug_error. Qed.
Print Assumptions c04_full_aug_error.

Theorem c04_centered_aug_error : forall prex prey cx cy ch cw st m x y, (1 < ch)%Z -> (1 < cw)%Z ->
  fst (centered_aug_content true prex prey cx cy ch cw st m x y)
    - fst (centered_aug_kp prex prey cx cy ch cw st m x y)
    == fst (lin_apply m (err prex x) (err prey y)) /\
  snd (centered_aug_content true prex prey cx cy ch cw st m x y)
    - snd (centered_aug_kp prex prey cx cy ch cw st m x y)
    == snd (lin_apply m (err prex x) (err prey y)).
Proof. exact centered_aug_error. Qed.
Print Assumptions c04_centered_aug_error.

(* the two halves of the centred pipeline compose to `recrop`, i.e. to pipe_centered *)
Theorem c04_centered_stages_compose : forall pre c0 crop st x, (1 < crop)%Z ->
  ap (cmap (recrop pre c0 crop st)) x
    == ap (cmap (recrop_stage pre c0 crop st)) (ap (cmap (over_stage pre c0 crop)) x) /\
  ap (kmap (recrop pre c0 crop st)) x
    == ap (kmap (recrop_stage pre c0 crop st)) (ap (kmap (over_stage pre c0 crop)) x).
Proof. exact recrop_split. Qed.
Print Assumptions c04_centered_stages_compose.

(* amplification: at most (|a| + |b|) times the larger pipeline error *)
Theorem c04_aug_amplification_bound : forall a b e1 e2 E, Qabs e1 <= E -> Qabs e2 <= E ->
  Qabs (a * e1 + b * e2) <= (Qabs a + Qabs b) * E.
Proof. exact lin_bound. Qed.
Print Assumptions c04_aug_amplification_bound.

(* exact sizes: the error after the augmentation is ((k-1)/2) (a + b, c + d) at every point *)
Theorem c04_full_aug_exact_error : forall H W mh mw s st p a b tx c d ty x y,
  (0 < H)%Z -> (0 < W)%Z -> (0 < dflt H mh)%Z -> (0 < dflt W mw)%Z ->
  pipe_full H W mh mw s st = Some p -> pexact p = true -> (1 < osize (py p))%Z -> (1 < osize (px p))%Z ->
  let m := ((a, b, tx), (c, d, ty)) in
  fst (full_aug_content true p m x y) - fst (full_aug_kp p m x y) == (pfactor p - 1) / 2 * (a + b) /\
  snd (full_aug_content true p m x y) - snd (full_aug_kp p m x y) == (pfactor p - 1) / 2 * (c + d).
Proof. exact pipe_full_aug_exact. Qed.
Print Assumptions c04_full_aug_exact_error.

(* THE REGISTRATION STATEMENT with geometric augmentation, partial: outside F11, F11b and F11c
   (selector_F11c: the closed-form pipeline error multiplied by the matrix's linear part reaches one
   pixel — sizes, factor, position and matrix entries only) the content of every original point is
   under one output pixel from the returned keypoint on both axes.  Missing for the full statement:
   exactly the three selectors (c04_selector_F11c_exact_full). *)
Theorem c04_registration_partial_full_aug : forall H W mh mw s st p m x y,
  (0 < H)%Z -> (0 < W)%Z -> (0 < dflt H mh)%Z -> (0 < dflt W mw)%Z -> 0 < s ->
  pipe_full H W mh mw s st = Some p -> (1 < osize (py p))%Z -> (1 < osize (px p))%Z ->
  selector_F11 p = false -> selector_F11b p x y = false -> selector_F11c p m x y = false ->
  Qabs (fst (full_aug_content true p m x y) - fst (full_aug_kp p m x y)) < 1 /\
  Qabs (snd (full_aug_content true p m x y) - snd (full_aug_kp p m x y)) < 1.
Proof. exact pipe_full_aug_partial. Qed.
Print Assumptions c04_registration_partial_full_aug.

Theorem c04_registration_partial_centered_aug : forall H W mh mw s st ch cw cx cy q p m x y,
  (0 < H)%Z -> (0 < W)%Z -> (0 < dflt H mh)%Z -> (0 < dflt W mw)%Z -> 0 < s -> (1 < ch)%Z -> (1 < cw)%Z ->
  pipe_pre H W mh mw s = Some q -> pipe_centered H W mh mw s st ch cw cx cy = Some p ->
  selector_F11 p = false -> selector_F11b p x y = false -> selector_F11c p m x y = false ->
  Qabs (fst (centered_aug_content true (px q) (py q) cx cy ch cw st m x y)
        - fst (centered_aug_kp (px q) (py q) cx cy ch cw st m x y)) < 1 /\
  Qabs (snd (centered_aug_content true (px q) (py q) cx cy ch cw st m x y)
        - snd (centered_aug_kp (px q) (py q) cx cy ch cw st m x y)) < 1.
Proof. exact pipe_centered_aug_partial. Qed.
Print Assumptions c04_registration_partial_centered_aug.

Theorem c04_selector_F11c_exact_full : forall H W mh mw s st p m x y,
  (0 < H)%Z -> (0 < W)%Z -> (0 < dflt H mh)%Z -> (0 < dflt W mw)%Z ->
  pipe_full H W mh mw s st = Some p -> (1 < osize (py p))%Z -> (1 < osize (px p))%Z ->
  (selector_F11c p m x y = true <->
   selector_F11 p = false /\ selector_F11b p x y = false /\
   (1 <= Qabs (fst (full_aug_content true p m x y) - fst (full_aug_kp p m x y)) \/
    1 <= Qabs (snd (full_aug_content true p m x y) - snd (full_aug_kp p m x y)))).
Proof. exact selector_F11c_exact_full. Qed.
Print Assumptions c04_selector_F11c_exact_full.

(* F11c, refutation of "under one pixel outside F11 / F11b" once an augmentation follows: 40 x 40,
   scale 5/2 (exact sizes, pipeline error 3/4 px), rotation by atan(4/3) about the output centre *)
Theorem c04_full_aug_refuted :
  exists p, pipe_full 40 40 None None (5 # 2) 1 = Some p /\ pexact p = true /\
    selector_F11 p = false /\ selector_F11b p 20 20 = false /\ selector_F11c p rot_100 20 20 = true /\
    err (px p) 20 == 3 # 4 /\ err (py p) 20 == 3 # 4 /\
    fst (full_aug_kp p rot_100 20 20) == 251 # 5 /\ snd (full_aug_kp p rot_100 20 20) == 247 # 5 /\
    fst (full_aug_content true p rot_100 20 20) - fst (full_aug_kp p rot_100 20 20) == 21 # 20 /\
    1 <= Qabs (fst (full_aug_content true p rot_100 20 20) - fst (full_aug_kp p rot_100 20 20)).
Proof. exact full_aug_refuted_w. Qed.
Print Assumptions c04_full_aug_refuted.

(* Several videos in one label set (round 3).  A sample of CenteredInstanceDataset is cut from
   the image of ITS OWN labelled frame: `cache_lf` (the last decoded frame, re-used for the other
   instances of the same labelled frame) is filed under the labelled-frame POSITION, and positions
   are distinct even when several videos have the same frame index labelled.  Holds for every
   label set, every list of (position, instance) entries in any order and every consistent cache
   state; `c04_frame_cache_distinct_keys` is the general form (any key that separates positions).
   Filing the frame under `lf.frame_idx` instead is refuted by two videos with frame 0 labelled. *)
Theorem c04_frame_cache_own_image : forall idx,
  cache_images (fun p => p) None idx = map fst idx.
Proof. exact cache_images_position. Qed.
Print Assumptions c04_frame_cache_own_image.

Theorem c04_frame_cache_distinct_keys : forall key, (forall p q, key p = key q -> p = q) ->
  forall idx st, cache_ok key st -> cache_images key st idx = map fst idx.
Proof. exact cache_images_own. Qed.
Print Assumptions c04_frame_cache_distinct_keys.

(* the index space of CenteredInstanceDataset: exactly the (position, instance) pairs of the labels *)
Theorem c04_instance_index_spec : forall labels p j,
  In (p, j) (instance_index labels) <->
  exists f, nth_error labels p = Some f /\ (j < lf_ninst f)%nat.
Proof. exact instance_index_spec. Qed.
Print Assumptions c04_instance_index_spec.

Theorem c04_frame_cache_by_frame_idx_refuted : exists labels,
  cache_images (key_frame_idx labels) None (instance_index labels) <> map fst (instance_index labels).
Proof. exact frame_cache_by_frame_idx_refuted. Qed.
Print Assumptions c04_frame_cache_by_frame_idx_refuted.

Example ex_c04_frame_cache :
  run (CFrameCache true [(0, 0, 2); (1, 0, 1); (0, 1, 1)]%nat)
  = Some ([0; 0; 0; 0;  0; 1; 0; 0;  1; 0; 1; 0;  2; 0; 0; 1]%Z, [], []).
Proof. exact ex_frame_cache_w. Qed.
