(* Lemmas4.v (C04, round 5) — the size matcher's effective scale: minimum of the two ratios, the
   TIE hratio = wratio (both sides land exactly on their maxima, no padding, eff = the common ratio),
   eff = 1 only when nothing is resized; proofs only. *)
From Coq Require Import List ZArith QArith Qround Qabs Bool Lia Lra Psatz Setoid Morphisms.
Import ListNotations.
From SV Require Import C04.Geometry C04.Lemmas.
Open Scope Q_scope.

Lemma ratio_mul : forall n m, (0 < n)%Z -> zq n * (zq m / zq n) == zq m.
Proof. intros n m Hn. pose proof (zq_pos _ Hn). field. lra. Qed.

Lemma ratio_one_iff : forall n m, (0 < n)%Z -> (zq m / zq n == 1 <-> n = m).
Proof.
  intros n m Hn. pose proof (zq_pos _ Hn) as P. split.
  - intros E. pose proof (ratio_mul n m Hn) as R. rewrite E in R.
    assert (zq n == zq m) as Q by lra.
    apply Z.le_antisymm; apply zq_le; lra.
  - intros <-. field. lra.
Qed.

(* eff_of is the smaller ratio *)
Lemma eff_of_min : forall H W mh' mw',
  let e := eff_of H W mh' mw' in let hr := zq mh' / zq H in let wr := zq mw' / zq W in
  e <= hr /\ e <= wr /\ (e == hr \/ e == wr).
Proof.
  intros H W mh' mw'. cbv zeta. unfold eff_of.
  destruct (Qlt_le_dec (zq mw' / zq W) (zq mh' / zq H)) as [L|L].
  - repeat split; [lra|lra|right; reflexivity].
  - repeat split; [lra|lra|left; reflexivity].
Qed.

(* the returned effective scale is min(max_h / H, max_w / W) — in BOTH branches of the function
   (the early return has eff = 1 = both ratios) *)
Lemma sizematcher_eff_min : forall H W mh mw r,
  (0 < H)%Z -> (0 < W)%Z -> (0 < dflt H mh)%Z -> (0 < dflt W mw)%Z ->
  sizematcher H W mh mw = Some r ->
  let hr := zq (dflt H mh) / zq H in let wr := zq (dflt W mw) / zq W in
  sm_eff r <= hr /\ sm_eff r <= wr /\ (sm_eff r == hr \/ sm_eff r == wr).
Proof.
  intros H W mh mw r HH HW Hmh Hmw S. cbv zeta. apply sizematcher_unfold in S.
  destruct S as [(E1 & E2 & ->) | (_ & S)].
  - simpl. rewrite <- E1, <- E2.
    assert (zq H / zq H == 1) as -> by (apply ratio_one_iff; [assumption|reflexivity]).
    assert (zq W / zq W == 1) as -> by (apply ratio_one_iff; [assumption|reflexivity]).
    repeat split; try lra.
  - cbv zeta in S. destruct S as (_ & _ & ->). simpl. apply eff_of_min.
Qed.

(* eff = 1 only when nothing is resized: the fitted content keeps the image's own size *)
Lemma sizematcher_eff_one : forall H W mh mw r,
  sizematcher H W mh mw = Some r -> sm_eff r == 1 -> sm_th r = H /\ sm_tw r = W.
Proof.
  intros H W mh mw r S E. apply sizematcher_unfold in S.
  destruct S as [(E1 & E2 & ->) | (_ & S)].
  - simpl. split; reflexivity.
  - cbv zeta in S. destruct S as (_ & _ & ->). simpl in *.
    split; apply py_round_int; rewrite E; ring.
Qed.

(* TIE hratio = wratio: eff is the common ratio, BOTH fitted sides land exactly on their maxima (no
   padding at all), and eff = 1 exactly when the image already has the requested size *)
Lemma sizematcher_tie : forall H W mh mw r,
  (0 < H)%Z -> (0 < W)%Z -> (0 < dflt H mh)%Z -> (0 < dflt W mw)%Z ->
  sizematcher H W mh mw = Some r ->
  zq (dflt H mh) / zq H == zq (dflt W mw) / zq W ->
  sm_eff r == zq (dflt H mh) / zq H /\ sm_eff r == zq (dflt W mw) / zq W /\
  sm_th r = dflt H mh /\ sm_tw r = dflt W mw /\ sm_oh r = dflt H mh /\ sm_ow r = dflt W mw /\
  (sm_eff r == 1 <-> (H = dflt H mh /\ W = dflt W mw)).
Proof.
  intros H W mh mw r HH HW Hmh Hmw S T.
  destruct (sizematcher_eff_min H W mh mw r HH HW Hmh Hmw S) as (_ & _ & M). cbv zeta in M.
  assert (Eh: sm_eff r == zq (dflt H mh) / zq H) by (destruct M as [M|M]; [exact M | rewrite T; exact M]).
  assert (Ew: sm_eff r == zq (dflt W mw) / zq W) by (rewrite <- T; exact Eh).
  assert (One: sm_eff r == 1 <-> (H = dflt H mh /\ W = dflt W mw)).
  { split.
    - intros E. split; apply ratio_one_iff; try assumption; [rewrite <- Eh | rewrite <- Ew]; exact E.
    - intros [A _]. rewrite Eh. apply ratio_one_iff; assumption. }
  apply sizematcher_unfold in S. destruct S as [(E1 & E2 & ->) | (_ & S)].
  - simpl in *. repeat split; try assumption; try (apply One; split; assumption).
  - cbv zeta in S. destruct S as (_ & _ & ->). simpl in *.
    set (e := eff_of H W (dflt H mh) (dflt W mw)) in *.
    assert (Rh: py_round (zq H * e) = dflt H mh).
    { apply py_round_int. rewrite Eh. apply ratio_mul. assumption. }
    assert (Rw: py_round (zq W * e) = dflt W mw).
    { apply py_round_int. rewrite Ew. apply ratio_mul. assumption. }
    rewrite Rh, Rw. repeat split; try assumption; try lia; apply One; assumption.
Qed.

(* registration in the tie: the content map of each axis is the half-pixel map of eff itself (no size
   rounding), so content minus keypoint is exactly (eff - 1) / 2 at EVERY position on both axes *)
Lemma sizematcher_tie_error : forall H W mh mw r x y,
  (0 < H)%Z -> (0 < W)%Z -> (0 < dflt H mh)%Z -> (0 < dflt W mw)%Z ->
  sizematcher H W mh mw = Some r ->
  zq (dflt H mh) / zq H == zq (dflt W mw) / zq W ->
  err (sm_axis W (sm_tw r) (sm_ow r) (sm_eff r)) x == (sm_eff r - 1) / 2 /\
  err (sm_axis H (sm_th r) (sm_oh r) (sm_eff r)) y == (sm_eff r - 1) / 2.
Proof.
  intros H W mh mw r x y HH HW Hmh Hmw S T.
  destruct (sizematcher_tie H W mh mw r HH HW Hmh Hmw S T) as (Eh & Ew & Th & Tw & _).
  unfold err, sm_axis, hp, scl, ap. cbn [cmap kmap sl off]. rewrite Th, Tw, <- Eh, <- Ew.
  split; field.
Qed.

(* a tie that changes the size is NOT reported as scale 1: the keypoints are moved with the image *)
Lemma sizematcher_tie_resized_not_one : forall H W mh mw r,
  (0 < H)%Z -> (0 < W)%Z -> (0 < dflt H mh)%Z -> (0 < dflt W mw)%Z ->
  sizematcher H W mh mw = Some r ->
  zq (dflt H mh) / zq H == zq (dflt W mw) / zq W ->
  (H <> dflt H mh \/ W <> dflt W mw) -> ~ sm_eff r == 1.
Proof.
  intros H W mh mw r HH HW Hmh Hmw S T D E.
  destruct (sizematcher_tie H W mh mw r HH HW Hmh Hmw S T) as (_ & _ & _ & _ & _ & _ & One).
  apply One in E. destruct E, D; contradiction.
Qed.

(* ------------------------------------------------------------------ non-vacuity (both directions) *)
Lemma ex_sizematcher_tie_up_w :
  exists r, sizematcher 48 64 (Some 96%Z) (Some 128%Z) = Some r /\
    zq 96 / zq 48 == zq 128 / zq 64 /\
    sm_th r = 96%Z /\ sm_tw r = 128%Z /\ sm_oh r = 96%Z /\ sm_ow r = 128%Z /\ sm_eff r == 2.
Proof. eexists. split; [vm_compute; reflexivity|]. repeat split; vm_compute; reflexivity. Qed.

Lemma ex_sizematcher_tie_down_w :
  exists r, sizematcher 120 90 (Some 40%Z) (Some 30%Z) = Some r /\
    zq 40 / zq 120 == zq 30 / zq 90 /\
    sm_th r = 40%Z /\ sm_tw r = 30%Z /\ sm_oh r = 40%Z /\ sm_ow r = 30%Z /\ sm_eff r == 1 # 3.
Proof. eexists. split; [vm_compute; reflexivity|]. repeat split; vm_compute; reflexivity. Qed.

(* one px off the tie on either side: the other side binds, the loose side is padded *)
Lemma ex_sizematcher_near_tie_w :
  (exists r, sizematcher 48 64 (Some 96%Z) (Some 127%Z) = Some r /\
     sm_th r = 95%Z /\ sm_tw r = 127%Z /\ sm_oh r = 96%Z /\ sm_eff r == 127 # 64) /\
  (exists r, sizematcher 48 64 (Some 96%Z) (Some 129%Z) = Some r /\
     sm_th r = 96%Z /\ sm_tw r = 128%Z /\ sm_ow r = 129%Z /\ sm_eff r == 2).
Proof. split; eexists; (split; [vm_compute; reflexivity|]); repeat split; vm_compute; reflexivity. Qed.
