(* Lemmas.v (C04) — all proofs about the model in C04/Geometry.v. *)
From Coq Require Import List ZArith QArith Qround Qabs Bool Lia Lra Psatz Setoid Morphisms.
Import ListNotations.
From SV Require Import C04.Geometry.
Open Scope Q_scope.

(* ------------------------------------------------------------------ affine maps *)
Lemma ap_comp : forall g f x, ap (comp g f) x == ap g (ap f x).
Proof. intros. unfold ap, comp. simpl. ring. Qed.

Global Instance ap_Proper (m : aff) : Proper (Qeq ==> Qeq) (ap m).
Proof. intros x y E. unfold ap. rewrite E. reflexivity. Qed.

Lemma ap_aid : forall x, ap aid x == x.
Proof. intros. unfold ap, aid. simpl. ring. Qed.

Lemma hp_comp : forall s t x, ap (comp (hp t) (hp s)) x == ap (hp (t * s)) x.
Proof. intros. unfold ap, comp, hp. simpl. field. Qed.

Lemma zq_pos : forall n, (0 < n)%Z -> 0 < zq n.
Proof. intros. unfold zq. replace 0 with (inject_Z 0) by reflexivity. rewrite <- Zlt_Qlt. assumption. Qed.

Lemma zq_nonzero : forall n, (0 < n)%Z -> ~ zq n == 0.
Proof. intros n H. pose proof (zq_pos n H). lra. Qed.

(* ------------------------------------------------------------------ composition of errors *)
Lemma err_then : forall f g x,
  err (then_ f g) x == err g (ap (cmap f) x) + sl (kmap g) * err f x.
Proof. intros. unfold err, then_, ap, comp. simpl. ring. Qed.

Lemma Qabs_triangle_mul : forall a b c, Qabs (a + b * c) <= Qabs a + Qabs b * Qabs c.
Proof.
  intros. eapply Qle_trans. apply Qabs_triangle. rewrite Qabs_Qmult. apply Qle_refl.
Qed.

Lemma err_then_bound : forall f g x,
  Qabs (err (then_ f g) x) <= Qabs (err g (ap (cmap f) x)) + Qabs (sl (kmap g)) * Qabs (err f x).
Proof. intros. rewrite err_then. apply Qabs_triangle_mul. Qed.

(* ------------------------------------------------------------------ single steps *)
(* resampling n -> new pixels with keypoints * k:
     err x = rho/n * (x + 1/2) + (k - 1)/2,   rho = new - k n  (the size rounding) *)
Lemma err_resample : forall n new k x, (0 < n)%Z ->
  err (resample n new k) x == (zq new - k * zq n) / zq n * (x + (1 # 2)) + (k - 1) / 2.
Proof.
  intros n new k x Hn. pose proof (zq_nonzero n Hn).
  unfold err, resample, ap, hp, scl. simpl. field. assumption.
Qed.

Lemma err_resample_exact : forall n new k x, (0 < n)%Z -> zq new == k * zq n ->
  err (resample n new k) x == (k - 1) / 2.
Proof.
  intros. rewrite err_resample by assumption.
  assert (zq new - k * zq n == 0) as -> by lra.
  pose proof (zq_nonzero n H). field. assumption.
Qed.

Lemma err_pad : forall n s x, err (pad_axis n s) x == 0.
Proof. intros. unfold err, pad_axis. simpl. ring. Qed.

Lemma pad_identity : forall n s x, ap (cmap (pad_axis n s)) x == x /\ ap (kmap (pad_axis n s)) x == x.
Proof. intros. unfold pad_axis. simpl. split; apply ap_aid. Qed.

Lemma bbox_width : forall c n, snd (bbox_axis c n) - fst (bbox_axis c n) == zq n - 1.
Proof. intros. unfold bbox_axis. simpl. field. Qed.

Lemma zq_gt1 : forall n, (1 < n)%Z -> 1 < zq n.
Proof. intros. unfold zq. replace 1 with (inject_Z 1) by reflexivity. rewrite <- Zlt_Qlt. assumption. Qed.

Lemma crop_maps : forall c n_in n x, (1 < n)%Z ->
  ap (cmap (crop_axis c n_in n)) x == x - fst (bbox_axis c n) /\
  ap (kmap (crop_axis c n_in n)) x == x - fst (bbox_axis c n).
Proof.
  intros c n_in n x Hn. pose proof (zq_gt1 n Hn).
  unfold crop_axis, bbox_axis, crop_from_box, ap, shift. simpl. split; field.
  intro. lra.
Qed.

Lemma err_crop : forall c n_in n x, (1 < n)%Z -> err (crop_axis c n_in n) x == 0.
Proof.
  intros. unfold err. destruct (crop_maps c n_in n x H) as [-> ->]. ring.
Qed.

Lemma crop_size : forall c n_in n, osize (crop_axis c n_in n) = n.
Proof. intros. reflexivity. Qed.

(* the centre of the box lands on the centre of the crop *)
Lemma crop_centre : forall c n_in n, (1 < n)%Z ->
  ap (kmap (crop_axis c n_in n)) c == (zq n - 1) / 2.
Proof.
  intros. destruct (crop_maps c n_in n c H) as [_ ->]. unfold bbox_axis. simpl. field.
Qed.

(* ------------------------------------------------------------------ rounding *)
Lemma floor_bounds : forall q, zq (Qfloor q) <= q /\ q < zq (Qfloor q) + 1.
Proof.
  intros. split. apply Qfloor_le.
  pose proof (Qlt_floor q). unfold zq. rewrite inject_Z_plus in H. simpl in H. exact H.
Qed.

Lemma zq_plus1 : forall z, zq (z + 1) == zq z + 1.
Proof. intros. unfold zq. rewrite inject_Z_plus. reflexivity. Qed.

Lemma py_round_bounds : forall q, q - (1 # 2) <= zq (py_round q) /\ zq (py_round q) <= q + (1 # 2).
Proof.
  intros q. destruct (floor_bounds q) as [H1 H2]. unfold py_round.
  destruct (Qcompare (q - zq (Qfloor q)) (1 # 2)) eqn:E.
  - apply Qeq_alt in E. destruct (Z.even (Qfloor q)); rewrite ?zq_plus1; split; lra.
  - apply Qlt_alt in E. split; lra.
  - apply Qgt_alt in E. rewrite zq_plus1. split; lra.
Qed.

Lemma zq_le : forall a b, zq a <= zq b -> (a <= b)%Z.
Proof. intros. unfold zq in H. rewrite <- Zle_Qle in H. assumption. Qed.
Lemma zq_lt : forall a b, zq a < zq b -> (a < b)%Z.
Proof. intros. unfold zq in H. rewrite <- Zlt_Qlt in H. assumption. Qed.
Lemma le_zq : forall a b, (a <= b)%Z -> zq a <= zq b.
Proof. intros. unfold zq. rewrite <- Zle_Qle. assumption. Qed.
Lemma lt_zq : forall a b, (a < b)%Z -> zq a < zq b.
Proof. intros. unfold zq. rewrite <- Zlt_Qlt. assumption. Qed.

(* rounding never crosses an integer: q <= z -> round q <= z, z <= q -> z <= round q *)
Lemma py_round_le : forall q z, q <= zq z -> (py_round q <= z)%Z.
Proof.
  intros q z H. destruct (floor_bounds q) as [H1 H2].
  assert (Qfloor q <= z)%Z as Hf by (apply zq_le; lra).
  unfold py_round. destruct (Qcompare (q - zq (Qfloor q)) (1 # 2)) eqn:E.
  - apply Qeq_alt in E. destruct (Z.even (Qfloor q)); [assumption|].
    assert (Qfloor q < z)%Z by (apply zq_lt; lra). lia.
  - assumption.
  - apply Qgt_alt in E. assert (Qfloor q < z)%Z by (apply zq_lt; lra). lia.
Qed.

Lemma py_round_ge : forall q z, zq z <= q -> (z <= py_round q)%Z.
Proof.
  intros q z H. destruct (floor_bounds q) as [H1 H2].
  assert (z <= Qfloor q)%Z as Hf.
  { assert (z < Qfloor q + 1)%Z; [|lia]. apply zq_lt. rewrite zq_plus1. lra. }
  unfold py_round. destruct (Qcompare (q - zq (Qfloor q)) (1 # 2)); [destruct (Z.even _)| |]; lia.
Qed.

Lemma py_round_int : forall q z, q == zq z -> py_round q = z.
Proof.
  intros. apply Z.le_antisymm; [apply py_round_le | apply py_round_ge]; lra.
Qed.

(* ------------------------------------------------------------------ size matcher *)
Definition eff_of (H W mh' mw' : Z) : Q :=
  if Qlt_le_dec (zq mw' / zq W) (zq mh' / zq H) then zq mw' / zq W else zq mh' / zq H.

Lemma eff_spec : forall H W mh' mw', (0 < H)%Z -> (0 < W)%Z -> (0 < mh')%Z -> (0 < mw')%Z ->
  let e := eff_of H W mh' mw' in
  0 < e /\ zq H * e <= zq mh' /\ zq W * e <= zq mw' /\ (zq H * e == zq mh' \/ zq W * e == zq mw').
Proof.
  intros H W mh' mw' HH HW Hmh Hmw. pose proof (zq_pos _ HH). pose proof (zq_pos _ HW).
  pose proof (zq_pos _ Hmh). pose proof (zq_pos _ Hmw).
  assert (EH: zq H * (zq mh' / zq H) == zq mh') by (field; lra).
  assert (EW: zq W * (zq mw' / zq W) == zq mw') by (field; lra).
  assert (PH: 0 < zq mh' / zq H) by (apply Qlt_shift_div_l; lra).
  assert (PW: 0 < zq mw' / zq W) by (apply Qlt_shift_div_l; lra).
  unfold eff_of. cbv zeta. destruct (Qlt_le_dec (zq mw' / zq W) (zq mh' / zq H)) as [L|L].
  - repeat split; try assumption; [|lra|right; assumption].
    rewrite <- EH. apply Qmult_le_l; lra.
  - repeat split; try assumption; [lra| |left; assumption].
    rewrite <- EW. apply Qmult_le_l; lra.
Qed.

Lemma sizematcher_unfold : forall H W mh mw r, sizematcher H W mh mw = Some r ->
  (H = dflt H mh /\ W = dflt W mw /\ r = mkSm H W H W 1) \/
  (~ (H = dflt H mh /\ W = dflt W mw) /\
   let e := eff_of H W (dflt H mh) (dflt W mw) in
   let th := py_round (zq H * e) in let tw := py_round (zq W * e) in
   (0 < th)%Z /\ (0 < tw)%Z /\
   r = mkSm th tw (th + (dflt H mh - th)) (tw + (dflt W mw - tw)) e).
Proof.
  intros H W mh mw r. unfold sizematcher.
  destruct ((H =? dflt H mh)%Z && (W =? dflt W mw)%Z) eqn:E.
  - intros X. inversion X. apply andb_prop in E. destruct E as [E1 E2].
    apply Z.eqb_eq in E1. apply Z.eqb_eq in E2. left. auto.
  - fold (eff_of H W (dflt H mh) (dflt W mw)).
    destruct ((py_round (zq H * eff_of H W (dflt H mh) (dflt W mw)) <=? 0)%Z ||
              (py_round (zq W * eff_of H W (dflt H mh) (dflt W mw)) <=? 0)%Z) eqn:E2; [discriminate|].
    intros X. inversion X. right. apply orb_false_elim in E2. destruct E2 as [A B].
    apply Z.leb_gt in A. apply Z.leb_gt in B. split.
    + intros [P Q]. rewrite <- P, <- Q, !Z.eqb_refl in E. discriminate.
    + cbv zeta. auto.
Qed.

(* exact requested size, padding non-negative (nothing is cropped), aspect-preserving fit
   tight on one side, both fitted sides within half a pixel of n * eff *)
Lemma sizematcher_spec : forall H W mh mw r,
  (0 < H)%Z -> (0 < W)%Z -> (0 < dflt H mh)%Z -> (0 < dflt W mw)%Z ->
  sizematcher H W mh mw = Some r ->
  sm_oh r = dflt H mh /\ sm_ow r = dflt W mw /\
  (0 < sm_th r <= sm_oh r)%Z /\ (0 < sm_tw r <= sm_ow r)%Z /\
  (sm_th r = sm_oh r \/ sm_tw r = sm_ow r) /\
  0 < sm_eff r /\
  Qabs (zq (sm_th r) - zq H * sm_eff r) <= 1 # 2 /\
  Qabs (zq (sm_tw r) - zq W * sm_eff r) <= 1 # 2.
Proof.
  intros H W mh mw r HH HW Hmh Hmw S. apply sizematcher_unfold in S.
  destruct S as [(E1 & E2 & ->) | (_ & S)].
  - simpl. rewrite <- E1, <- E2.
    assert (Qabs (zq H - zq H * 1) == 0) as -> by (assert (zq H - zq H * 1 == 0) as -> by ring; reflexivity).
    assert (Qabs (zq W - zq W * 1) == 0) as -> by (assert (zq W - zq W * 1 == 0) as -> by ring; reflexivity).
    repeat split; try lia; try lra.
  - cbv zeta in S. destruct S as (Pth & Ptw & ->). simpl.
    destruct (eff_spec H W _ _ HH HW Hmh Hmw) as (Pe & LH & LW & Tight). cbv zeta in *.
    set (e := eff_of H W (dflt H mh) (dflt W mw)) in *.
    pose proof (py_round_le _ _ LH). pose proof (py_round_le _ _ LW).
    pose proof (py_round_bounds (zq H * e)) as [B1 B2]. pose proof (py_round_bounds (zq W * e)) as [B3 B4].
    assert (T: py_round (zq H * e) = (py_round (zq H * e) + (dflt H mh - py_round (zq H * e)))%Z \/
               py_round (zq W * e) = (py_round (zq W * e) + (dflt W mw - py_round (zq W * e)))%Z).
    { destruct Tight as [T|T]; [left|right]; rewrite (py_round_int _ _ T); lia. }
    assert (A1: Qabs (zq (py_round (zq H * e)) - zq H * e) <= 1 # 2) by (apply Qabs_Qle_condition; split; lra).
    assert (A2: Qabs (zq (py_round (zq W * e)) - zq W * e) <= 1 # 2) by (apply Qabs_Qle_condition; split; lra).
    split; [lia|]. split; [lia|]. split; [lia|]. split; [lia|]. split; [exact T|].
    split; [exact Pe|]. split; assumption.
Qed.

(* ------------------------------------------------------------------ resizer *)
Lemma resizer_size_floor : forall n s, ~ s == 1 ->
  resizer_size n s = Qfloor (zq n * s) /\
  zq n * s - 1 < zq (resizer_size n s) /\ zq (resizer_size n s) <= zq n * s.
Proof.
  intros n s Hs. unfold resizer_size.
  destruct (Qeq_bool s 1) eqn:E; [apply Qeq_bool_iff in E; contradiction|].
  destruct (floor_bounds (zq n * s)). repeat split; lra.
Qed.

Lemma resizer_size_one : forall n s, s == 1 -> resizer_size n s = n.
Proof. intros. unfold resizer_size. apply Qeq_bool_iff in H. rewrite H. reflexivity. Qed.

Lemma resize_axis_unfold : forall n s, ~ s == 1 ->
  resize_axis n s = resample n (resizer_size n s) s.
Proof.
  intros. unfold resize_axis. destruct (Qeq_bool s 1) eqn:E; [apply Qeq_bool_iff in E; contradiction|].
  reflexivity.
Qed.

(* ------------------------------------------------------------------ stride padding *)
Lemma stride_pad_spec : forall n s, (0 < s)%Z ->
  let o := (n + stride_pad n s)%Z in
  (0 <= stride_pad n s < s)%Z /\ (o mod s = 0)%Z /\
  forall m, (n <= m)%Z -> (m mod s = 0)%Z -> (o <= m)%Z.
Proof.
  intros n s Hs. cbv zeta. unfold stride_pad. destruct (1 <? s)%Z eqn:E.
  - apply Z.ltb_lt in E.
    pose proof (Z.mod_pos_bound n s Hs). pose proof (Z.mod_pos_bound (s - n mod s) s Hs).
    pose proof (Z.div_mod n s ltac:(lia)) as Dn.
    split; [lia|].
    destruct (Z.eq_dec (n mod s) 0) as [Z0|NZ].
    + rewrite Z0. replace (s - 0)%Z with s by lia. rewrite Z.mod_same by lia.
      split. rewrite Z.add_0_r. assumption. intros; lia.
    + rewrite (Z.mod_small (s - n mod s) s) by lia. split.
      * replace (n + (s - n mod s))%Z with ((n / s + 1) * s)%Z by lia. apply Z.mod_mul. lia.
      * intros m Hm Hd. pose proof (Z.div_mod m s ltac:(lia)) as Dm. rewrite Hd in Dm.
        assert (n / s < m / s)%Z; [|nia].
        apply Z.lt_nge. intro C. assert (s * (m / s) <= s * (n / s))%Z by nia. lia.
  - apply Z.ltb_ge in E. assert (s = 1)%Z by lia. subst. rewrite Z.add_0_r.
    split; [lia|]. split; [apply Z.mod_1_r|]. intros; lia.
Qed.

Lemma pad_axis_size : forall n s, osize (pad_axis n s) = (n + stride_pad n s)%Z.
Proof. reflexivity. Qed.

(* ------------------------------------------------------------------ over-crop *)
Lemma overcrop_spec : forall c, (0 <= c)%Z ->
  let o := overcrop_size c in
  (o * o <= 2 * c * c < (o + 1) * (o + 1))%Z /\ (c <= o)%Z.
Proof.
  intros c Hc. cbv zeta. unfold overcrop_size.
  pose proof (Z.sqrt_spec (2 * c * c) ltac:(nia)) as S. split. unfold Z.succ in S. lia.
  apply Z.sqrt_le_square; nia.
Qed.

(* ------------------------------------------------------------------ single resampling step: bounds *)
Definition in_extent (n : Z) (x : Q) : Prop := - (1 # 2) <= x /\ x <= zq n - (1 # 2).

Lemma err_resample_form : forall n new k x, (0 < n)%Z ->
  err (resample n new k) x == (zq new - k * zq n) * ((x + (1 # 2)) / zq n) + (k - 1) / 2.
Proof.
  intros. rewrite err_resample by assumption. pose proof (zq_nonzero n H). field. assumption.
Qed.

Lemma extent_unit : forall n x, (0 < n)%Z -> in_extent n x ->
  0 <= (x + (1 # 2)) / zq n /\ (x + (1 # 2)) / zq n <= 1.
Proof.
  intros n x Hn [A B]. pose proof (zq_pos n Hn). split.
  - apply Qle_shift_div_l; lra.
  - apply Qle_shift_div_r; lra.
Qed.

(* lra does not know Qdiv *)
Lemma half : forall a, a / 2 == a * (1 # 2).
Proof. intros. field. Qed.

Lemma Qabs_lt : forall a b, - b < a -> a < b -> Qabs a < b.
Proof. intros. apply Qabs_case; intros; lra. Qed.

Lemma Qabs_lt_inv : forall a b, Qabs a < b -> - b < a /\ a < b.
Proof.
  intros a b. apply Qabs_case; intros; split; lra.
Qed.

(* floor-rounded size (-1 < rho <= 0), enlarging by 1 <= k < 3: always under one pixel *)
Lemma resample_floor_up_lt_one : forall n new k x, (0 < n)%Z -> in_extent n x ->
  1 <= k -> k < 3 -> k * zq n - 1 < zq new -> zq new <= k * zq n ->
  Qabs (err (resample n new k) x) < 1.
Proof.
  intros n new k x Hn Hx K1 K3 R1 R2. rewrite err_resample_form by assumption.
  destruct (extent_unit n x Hn Hx) as [U0 U1].
  set (u := (x + (1 # 2)) / zq n) in *. set (rho := zq new - k * zq n).
  assert (rho <= 0) by (unfold rho; lra). assert (-1 < rho) by (unfold rho; lra).
  clearbody rho u. assert (rho * u <= 0) by nra. assert (rho <= rho * u) by nra.
  rewrite half. apply Qabs_lt; lra.
Qed.

(* floor-rounded size, shrinking (0 < k < 1): under 3/2, and under one pixel exactly
   outside the far-edge band  (k n - new) * u >= (1 + k)/2 *)
Lemma resample_floor_down : forall n new k x, (0 < n)%Z -> in_extent n x ->
  0 < k -> k < 1 -> k * zq n - 1 < zq new -> zq new <= k * zq n ->
  Qabs (err (resample n new k) x) < 3 # 2 /\
  (Qabs (err (resample n new k) x) < 1 <->
   (k * zq n - zq new) * ((x + (1 # 2)) / zq n) < (1 + k) / 2).
Proof.
  intros n new k x Hn Hx K0 K1 R1 R2.
  destruct (extent_unit n x Hn Hx) as [U0 U1].
  assert (E := err_resample_form n new k x Hn).
  set (u := (x + (1 # 2)) / zq n) in *. set (rho := zq new - k * zq n) in *.
  assert (rho <= 0) by (unfold rho; lra). assert (-1 < rho) by (unfold rho; lra).
  assert ((k * zq n - zq new) * u == - (rho * u)) as -> by (unfold rho; ring).
  clearbody rho u. assert (rho * u <= 0) by nra. assert (rho <= rho * u) by nra.
  rewrite !half in *.
  split; [|split].
  - rewrite E. apply Qabs_lt; lra.
  - intros L. rewrite E in L. apply Qabs_lt_inv in L. lra.
  - intros L. rewrite E. apply Qabs_lt; lra.
Qed.

(* nearest-rounded size (|rho| <= 1/2) with 0 < k < 2: always under one pixel *)
Lemma resample_round_lt_one : forall n new k x, (0 < n)%Z -> in_extent n x ->
  0 < k -> k < 2 -> Qabs (zq new - k * zq n) <= 1 # 2 ->
  Qabs (err (resample n new k) x) < 1.
Proof.
  intros n new k x Hn Hx K0 K2 R. rewrite err_resample_form by assumption.
  destruct (extent_unit n x Hn Hx) as [U0 U1].
  set (u := (x + (1 # 2)) / zq n) in *. set (rho := zq new - k * zq n) in *.
  apply Qabs_Qle_condition in R. destruct R. clearbody rho u.
  assert (rho * u <= 1 # 2) by nra. assert (- (1 # 2) <= rho * u) by nra.
  rewrite half. apply Qabs_lt; lra.
Qed.

(* exact size: the error is the constant (k-1)/2, under one pixel iff k < 3 *)
Lemma resample_exact_lt_one_iff : forall n new k x, (0 < n)%Z -> 0 < k -> zq new == k * zq n ->
  (Qabs (err (resample n new k) x) < 1 <-> k < 3).
Proof.
  intros n new k x Hn K0 E. rewrite (err_resample_exact n new k x Hn E). rewrite half. split.
  - intros L. apply Qabs_lt_inv in L. lra.
  - intros L. apply Qabs_lt; lra.
Qed.

Lemma err_id_step : forall n x, err (id_step n) x == 0.
Proof. intros. unfold err, id_step. simpl. ring. Qed.

(* the resizer step of the code: 1 <= scale < 3 is always under one pixel *)
Lemma resizer_up_lt_one : forall n s x, (0 < n)%Z -> in_extent n x -> 1 <= s -> s < 3 ->
  Qabs (err (resize_axis n s) x) < 1.
Proof.
  intros n s x Hn Hx S1 S3. unfold resize_axis. destruct (Qeq_bool s 1) eqn:E.
  - rewrite err_id_step. reflexivity.
  - assert (~ s == 1) as Hs by (intro C; apply Qeq_bool_iff in C; congruence).
    destruct (resizer_size_floor n s Hs) as (_ & A & B).
    apply (resample_floor_up_lt_one n (resizer_size n s) s x); try assumption; lra.
Qed.

(* the size-matcher step of the code: a fit by 0 < eff < 2 is always under one pixel *)
Lemma sizematcher_step_lt_one : forall H W mh mw r x y,
  (0 < H)%Z -> (0 < W)%Z -> (0 < dflt H mh)%Z -> (0 < dflt W mw)%Z ->
  sizematcher H W mh mw = Some r -> sm_eff r < 2 -> in_extent W x -> in_extent H y ->
  Qabs (err (sm_axis W (sm_tw r) (sm_ow r) (sm_eff r)) x) < 1 /\
  Qabs (err (sm_axis H (sm_th r) (sm_oh r) (sm_eff r)) y) < 1.
Proof.
  intros H W mh mw r x y HH HW Hmh Hmw S E2 Hx Hy.
  destruct (sizematcher_spec H W mh mw r HH HW Hmh Hmw S) as (_ & _ & _ & _ & _ & Pe & A1 & A2).
  split.
  - change (err (sm_axis W (sm_tw r) (sm_ow r) (sm_eff r)) x) with (err (resample W (sm_tw r) (sm_eff r)) x).
    apply resample_round_lt_one; try assumption.
    assert (zq (sm_tw r) - sm_eff r * zq W == zq (sm_tw r) - zq W * sm_eff r) as -> by ring. assumption.
  - change (err (sm_axis H (sm_th r) (sm_oh r) (sm_eff r)) y) with (err (resample H (sm_th r) (sm_eff r)) y).
    apply resample_round_lt_one; try assumption.
    assert (zq (sm_th r) - sm_eff r * zq H == zq (sm_th r) - zq H * sm_eff r) as -> by ring. assumption.
Qed.

(* ------------------------------------------------------------------ chains of exact steps *)
(* a step whose error is the same everywhere: (k-1)/2 with keypoint factor k *)
Definition uniform_step (s : astep) (k : Q) : Prop :=
  (forall y, err s y == (k - 1) / 2) /\ sl (kmap s) == k.

Fixpoint qprod (l : list Q) : Q := match l with [] => 1 | a :: t => a * qprod t end.

Lemma chain_exact : forall steps ks acc K,
  Forall2 uniform_step steps ks -> (forall x, err acc x == (K - 1) / 2) ->
  forall x, err (fold_left then_ steps acc) x == (K * qprod ks - 1) / 2.
Proof.
  induction steps as [|s steps IH]; intros ks acc K F Hacc x.
  - inversion F. subst. simpl. rewrite Hacc. field.
  - inversion F as [|s' k steps' ks' [Hs Hk] F']. subst. simpl.
    rewrite (IH ks' (then_ acc s) (K * k) F').
    + field.
    + intros z. rewrite err_then, Hs, Hk, Hacc. field.
Qed.

Lemma uniform_pad : forall n s, uniform_step (pad_axis n s) 1.
Proof. intros. split. intros. rewrite err_pad. field. reflexivity. Qed.

Lemma uniform_crop : forall c n_in n, (1 < n)%Z -> uniform_step (crop_axis c n_in n) 1.
Proof.
  intros. split. intros. rewrite err_crop by assumption. field.
  unfold crop_axis, bbox_axis, crop_from_box. reflexivity.
Qed.

Lemma uniform_id : forall n, uniform_step (id_step n) 1.
Proof. intros. split. intros. rewrite err_id_step. field. reflexivity. Qed.

Lemma uniform_resample : forall n new k, (0 < n)%Z -> zq new == k * zq n ->
  uniform_step (resample n new k) k.
Proof. intros. split. intros. apply err_resample_exact; assumption. reflexivity. Qed.

Lemma exactb_true : forall n new k, exactb n new k = true -> zq new == k * zq n.
Proof. intros. unfold exactb in H. apply Qeq_bool_iff in H. rewrite H. ring. Qed.

Lemma uniform_resize_axis : forall n s, (0 < n)%Z -> exactb n (resizer_size n s) s = true ->
  uniform_step (resize_axis n s) s.
Proof.
  intros n s Hn E. unfold resize_axis. destruct (Qeq_bool s 1) eqn:E1.
  - apply Qeq_bool_iff in E1. destruct (uniform_id n) as [A B]. split.
    + intros. rewrite A, E1. reflexivity.
    + rewrite B, E1. reflexivity.
  - apply uniform_resample. assumption. apply exactb_true. assumption.
Qed.

Lemma uniform_sm_axis : forall n t o e, (0 < n)%Z -> exactb n t e = true ->
  uniform_step (sm_axis n t o e) e.
Proof.
  intros. destruct (uniform_resample n t e H (exactb_true _ _ _ H0)) as [A B].
  split; [exact A | exact B].
Qed.

(* two exact resize steps compose to the half-pixel map of the product: the error of the
   composition is governed by the TOTAL factor, not by the factor of each step *)
Lemma two_steps_error : forall n1 new1 k1 new2 k2 x, (0 < n1)%Z -> (0 < new1)%Z ->
  zq new1 == k1 * zq n1 -> zq new2 == k2 * zq new1 ->
  err (then_ (resample n1 new1 k1) (resample new1 new2 k2)) x == (k1 * k2 - 1) / 2.
Proof.
  intros. rewrite err_then. rewrite !err_resample_exact by assumption. simpl. field.
Qed.

(* ------------------------------------------------------------------ the dataset pipelines *)
Lemma pipe_pre_unfold : forall H W mh mw s p, pipe_pre H W mh mw s = Some p ->
  exists r, sizematcher H W mh mw = Some r /\
    (0 < resizer_size (sm_oh r) s)%Z /\ (0 < resizer_size (sm_ow r) s)%Z /\
    p = mkPipe
      (then_ (sm_axis W (sm_tw r) (sm_ow r) (sm_eff r)) (resize_axis (sm_ow r) s))
      (then_ (sm_axis H (sm_th r) (sm_oh r) (sm_eff r)) (resize_axis (sm_oh r) s))
      (exactb W (sm_tw r) (sm_eff r) && exactb H (sm_th r) (sm_eff r) &&
       exactb (sm_ow r) (resizer_size (sm_ow r) s) s && exactb (sm_oh r) (resizer_size (sm_oh r) s) s)
      (sm_eff r * s) W H
      (size_defect W (sm_tw r) (sm_ow r) (resizer_size (sm_ow r) s) (sm_eff r * s))
      (size_defect H (sm_th r) (sm_oh r) (resizer_size (sm_oh r) s) (sm_eff r * s)).
Proof.
  intros H W mh mw s p. unfold pipe_pre. destruct (sizematcher H W mh mw) as [r|]; [|discriminate].
  destruct ((resizer_size (sm_oh r) s <=? 0)%Z || (resizer_size (sm_ow r) s <=? 0)%Z) eqn:E; [discriminate|].
  intros X. inversion X. exists r. apply orb_false_elim in E. destruct E as [A B].
  apply Z.leb_gt in A. apply Z.leb_gt in B. auto.
Qed.

Lemma resize_axis_osize : forall n s, osize (resize_axis n s) = resizer_size n s.
Proof.
  intros. unfold resize_axis, resizer_size. destruct (Qeq_bool s 1); reflexivity.
Qed.

(* sizes before padding / cropping: (floor (max_w * s), floor (max_h * s)) (or max itself when s = 1) *)
Lemma pipe_pre_size : forall H W mh mw s p,
  (0 < H)%Z -> (0 < W)%Z -> (0 < dflt H mh)%Z -> (0 < dflt W mw)%Z ->
  pipe_pre H W mh mw s = Some p ->
  osize (px p) = resizer_size (dflt W mw) s /\ osize (py p) = resizer_size (dflt H mh) s /\
  (0 < osize (px p))%Z /\ (0 < osize (py p))%Z.
Proof.
  intros H W mh mw s p HH HW Hmh Hmw P. apply pipe_pre_unfold in P.
  destruct P as (r & S & Ph & Pw & ->).
  destruct (sizematcher_spec H W mh mw r HH HW Hmh Hmw S) as (A & B & _).
  simpl. rewrite !resize_axis_osize, A, B in *. auto.
Qed.

Lemma pipe_pre_exact_error : forall H W mh mw s p,
  (0 < H)%Z -> (0 < W)%Z -> (0 < dflt H mh)%Z -> (0 < dflt W mw)%Z ->
  pipe_pre H W mh mw s = Some p -> pexact p = true ->
  (forall x, err (px p) x == (pfactor p - 1) / 2) /\ (forall y, err (py p) y == (pfactor p - 1) / 2).
Proof.
  intros H W mh mw s p HH HW Hmh Hmw P. apply pipe_pre_unfold in P.
  destruct P as (r & S & Ph & Pw & ->).
  destruct (sizematcher_spec H W mh mw r HH HW Hmh Hmw S) as (A & B & _).
  simpl. intros E. apply andb_prop in E. destruct E as [E E4]. apply andb_prop in E. destruct E as [E E3].
  apply andb_prop in E. destruct E as [E1 E2].
  assert (0 < sm_ow r)%Z by lia. assert (0 < sm_oh r)%Z by lia.
  split; intros z.
  - pose proof (chain_exact [resize_axis (sm_ow r) s] [s] (sm_axis W (sm_tw r) (sm_ow r) (sm_eff r)) (sm_eff r)) as C.
    simpl in C. rewrite C. field.
    + constructor; [|constructor]. apply uniform_resize_axis; assumption.
    + apply (uniform_sm_axis W (sm_tw r) (sm_ow r) (sm_eff r) HW E1).
  - pose proof (chain_exact [resize_axis (sm_oh r) s] [s] (sm_axis H (sm_th r) (sm_oh r) (sm_eff r)) (sm_eff r)) as C.
    simpl in C. rewrite C. field.
    + constructor; [|constructor]. apply uniform_resize_axis; assumption.
    + apply (uniform_sm_axis H (sm_th r) (sm_oh r) (sm_eff r) HH E2).
Qed.

Lemma pipe_pre_factor_pos : forall H W mh mw s p,
  (0 < H)%Z -> (0 < W)%Z -> (0 < dflt H mh)%Z -> (0 < dflt W mw)%Z -> 0 < s ->
  pipe_pre H W mh mw s = Some p -> 0 < pfactor p.
Proof.
  intros H W mh mw s p HH HW Hmh Hmw Hs P. apply pipe_pre_unfold in P.
  destruct P as (r & S & Ph & Pw & ->).
  destruct (sizematcher_spec H W mh mw r HH HW Hmh Hmw S) as (_ & _ & _ & _ & _ & Pe & _).
  simpl. nra.
Qed.

Lemma pipe_full_unfold : forall H W mh mw s st p, pipe_full H W mh mw s st = Some p ->
  exists q, pipe_pre H W mh mw s = Some q /\
    p = mkPipe (then_ (px q) (pad_axis (osize (px q)) st)) (then_ (py q) (pad_axis (osize (py q)) st))
               (pexact q) (pfactor q) (pnx q) (pny q) (pdx q) (pdy q).
Proof.
  intros. unfold pipe_full in H0. destruct (pipe_pre H W mh mw s) as [q|]; [|discriminate].
  inversion H0. exists q. auto.
Qed.

Lemma pipe_centered_unfold : forall H W mh mw s st ch cw cx cy p,
  pipe_centered H W mh mw s st ch cw cx cy = Some p ->
  exists q, pipe_pre H W mh mw s = Some q /\
    p = mkPipe (recrop (px q) cx cw st) (recrop (py q) cy ch st) (pexact q) (pfactor q)
               (pnx q) (pny q) (pdx q) (pdy q).
Proof.
  intros. unfold pipe_centered in H0. destruct (pipe_pre H W mh mw s) as [q|]; [|discriminate].
  inversion H0. exists q. auto.
Qed.

(* padding / cropping steps pass the error through unchanged *)
Lemma err_then_pad : forall f n st x, err (then_ f (pad_axis n st)) x == err f x.
Proof. intros. rewrite err_then, err_pad. simpl. ring. Qed.

Lemma err_recrop : forall pre c0 crop st x, (1 < crop)%Z ->
  err (recrop pre c0 crop st) x == err pre x.
Proof.
  intros pre c0 crop st x Hc. unfold recrop.
  assert (1 < overcrop_size crop)%Z by (pose proof (overcrop_spec crop ltac:(lia)) as [_ L]; lia).
  rewrite err_then_pad, err_then, err_crop by assumption.
  rewrite err_then, err_crop by assumption.
  unfold crop_axis, bbox_axis, crop_from_box. simpl. ring.
Qed.

Lemma recrop_size : forall pre c0 crop st,
  osize (recrop pre c0 crop st) = (crop + stride_pad crop st)%Z.
Proof. reflexivity. Qed.

(* the full statement for the dataset pipelines, partial: outside the selectors of the
   two known findings the registration error is under one output pixel on both axes *)
Lemma Qle_bool_false : forall a b, Qle_bool a b = false -> b < a.
Proof.
  intros. destruct (Qlt_le_dec b a); [assumption|]. apply Qle_bool_iff in q. congruence.
Qed.

Lemma exact_factor_lt_one : forall f e, 0 < f -> f < 3 -> e == (f - 1) / 2 -> Qabs e < 1.
Proof. intros. rewrite H1, half. apply Qabs_lt; lra. Qed.

(* the band of the selector IS the set where the closed-form error reaches one pixel *)
Lemma Qabs_ge_one : forall a, (1 <= a \/ a <= - (1)) <-> 1 <= Qabs a.
Proof.
  intros a. apply Qabs_case; intros H; (split; [intros [K | K] | intros K]); lra.
Qed.

Lemma band_iff : forall d k t, band d k t = true <-> 1 <= Qabs (d * t + (k - 1) / 2).
Proof.
  intros. unfold band. rewrite orb_true_iff, !Qle_bool_iff, <- Qabs_ge_one, half.
  split; intros [A | A]; [left | right | left | right]; lra.
Qed.

Lemma band_false : forall d k t, band d k t = false -> Qabs (d * t + (k - 1) / 2) < 1.
Proof.
  intros d k t B. destruct (Qlt_le_dec (Qabs (d * t + (k - 1) / 2)) 1) as [L | L]; [assumption|].
  apply band_iff in L. congruence.
Qed.

(* the band is an interval of relative positions that ends at the far edge (t = 1 is its last point
   inside the image) and never holds at the near edge t = 0 *)
Lemma band_far_edge : forall d k t t', 0 < k -> k < 3 -> 0 <= t -> t <= t' ->
  band d k t = true -> band d k t' = true.
Proof.
  intros d k t t' K0 K3 T0 TT. unfold band. rewrite !orb_true_iff, !Qle_bool_iff.
  intros [A | A]; [left | right].
  - assert (0 < d) by nra. nra.
  - assert (d < 0) by nra. nra.
Qed.

Lemma band_near_edge : forall d k, 0 < k -> k < 3 -> band d k 0 = false.
Proof.
  intros d k K0 K3. unfold band. apply orb_false_iff. split.
  - destruct (Qle_bool ((3 - k) * (1 # 2)) (d * 0)) eqn:E; [|reflexivity]. apply Qle_bool_iff in E. lra.
  - destruct (Qle_bool (d * 0) (- ((1 + k) * (1 # 2)))) eqn:E; [|reflexivity]. apply Qle_bool_iff in E. lra.
Qed.

(* the band is empty unless the size defect is at least min (3-k, 1+k)/2 *)
Lemma band_needs_defect : forall d k t, 0 <= t -> t <= 1 -> 0 < k -> k < 3 -> band d k t = true ->
  (3 - k) * (1 # 2) <= d \/ d <= - ((1 + k) * (1 # 2)).
Proof.
  intros d k t T0 T1 K0 K3. unfold band. rewrite orb_true_iff, !Qle_bool_iff.
  intros [A | A]; [left | right].
  - assert (0 < d) by nra. nra.
  - assert (d < 0) by nra. nra.
Qed.

(* CLOSED FORM of the registration error of size matcher -> resizer:  d * t + (k - 1)/2  with
   d = size defect, t = relative position, k = eff * scale *)
Lemma pipe_pre_err_formula : forall H W mh mw s p,
  (0 < H)%Z -> (0 < W)%Z -> (0 < dflt H mh)%Z -> (0 < dflt W mw)%Z ->
  pipe_pre H W mh mw s = Some p ->
  (forall x, err (px p) x == perr (pdx p) (pfactor p) (pnx p) x) /\
  (forall y, err (py p) y == perr (pdy p) (pfactor p) (pny p) y).
Proof.
  intros H W mh mw s p HH HW Hmh Hmw P. apply pipe_pre_unfold in P.
  destruct P as (r & S & Ph & Pw & ->).
  destruct (sizematcher_spec H W mh mw r HH HW Hmh Hmw S) as (A & B & _).
  assert (0 < sm_ow r)%Z as Ow by lia. assert (0 < sm_oh r)%Z as Oh by lia.
  pose proof (zq_nonzero W HW). pose proof (zq_nonzero H HH).
  pose proof (zq_nonzero _ Ow). pose proof (zq_nonzero _ Oh).
  cbn [px py pdx pdy pfactor pnx pny]. unfold perr, relpos, size_defect.
  split; intros z; rewrite err_then; unfold resize_axis, resizer_size; destruct (Qeq_bool s 1) eqn:E.
  - apply Qeq_bool_iff in E. unfold err, sm_axis, id_step, ap, hp, scl, aid; simpl. rewrite E. field. auto.
  - unfold err, sm_axis, ap, hp, scl; simpl. field. auto.
  - apply Qeq_bool_iff in E. unfold err, sm_axis, id_step, ap, hp, scl, aid; simpl. rewrite E. field. auto.
  - unfold err, sm_axis, ap, hp, scl; simpl. field. auto.
Qed.

(* exact sizes: no defect *)
Lemma pipe_pre_exact_defect : forall H W mh mw s p,
  (0 < H)%Z -> (0 < W)%Z -> (0 < dflt H mh)%Z -> (0 < dflt W mw)%Z ->
  pipe_pre H W mh mw s = Some p -> pexact p = true -> pdx p == 0 /\ pdy p == 0.
Proof.
  intros H W mh mw s p HH HW Hmh Hmw P E.
  destruct (pipe_pre_err_formula H W mh mw s p HH HW Hmh Hmw P) as [Fx Fy].
  destruct (pipe_pre_exact_error H W mh mw s p HH HW Hmh Hmw P E) as [Ex Ey].
  apply pipe_pre_unfold in P. destruct P as (r & S & Ph & Pw & ->).
  cbn [px py pdx pdy pfactor pnx pny] in *. unfold perr, relpos in *.
  pose proof (zq_nonzero W HW). pose proof (zq_nonzero H HH).
  split.
  - pose proof (Fx (zq W - (1 # 2))) as F1. rewrite Ex in F1.
    assert ((zq W - (1 # 2) + (1 # 2)) / zq W == 1) as U by (field; assumption). rewrite U in F1. lra.
  - pose proof (Fy (zq H - (1 # 2))) as F1. rewrite Ey in F1.
    assert ((zq H - (1 # 2) + (1 # 2)) / zq H == 1) as U by (field; assumption). rewrite U in F1. lra.
Qed.

(* core of the partial statement: for ANY pipe record whose maps have the closed-form error *)
Lemma pipe_partial_core : forall p x y,
  0 < pfactor p ->
  (pexact p = true -> (forall x, err (px p) x == (pfactor p - 1) / 2) /\
                      (forall y, err (py p) y == (pfactor p - 1) / 2)) ->
  (forall x, err (px p) x == perr (pdx p) (pfactor p) (pnx p) x) ->
  (forall y, err (py p) y == perr (pdy p) (pfactor p) (pny p) y) ->
  selector_F11 p = false -> selector_F11b p x y = false ->
  Qabs (err (px p) x) < 1 /\ Qabs (err (py p) y) < 1.
Proof.
  intros p x y Fp Ex Fx Fy S1 S2. unfold selector_F11 in S1. apply Qle_bool_false in S1.
  unfold selector_F11b in S2. destruct (pexact p) eqn:E.
  - destruct (Ex eq_refl) as [A B]. split; eapply exact_factor_lt_one; eauto.
  - simpl in S2. destruct (Qle_bool 3 (pfactor p)) eqn:E3.
    + apply Qle_bool_iff in E3. lra.
    + simpl in S2. apply orb_false_elim in S2. destruct S2 as [A B].
      apply band_false in A. apply band_false in B. rewrite Fx, Fy. unfold perr. auto.
Qed.

(* the selector is EXACTLY the set where the (modelled) error reaches one pixel with a rounded size
   and a factor below 3: it cannot be made narrower *)
Lemma selector_F11b_exact_core : forall p x y,
  (forall x, err (px p) x == perr (pdx p) (pfactor p) (pnx p) x) ->
  (forall y, err (py p) y == perr (pdy p) (pfactor p) (pny p) y) ->
  (selector_F11b p x y = true <->
   pexact p = false /\ pfactor p < 3 /\ (1 <= Qabs (err (px p) x) \/ 1 <= Qabs (err (py p) y))).
Proof.
  intros p x y Fx Fy. unfold selector_F11b. rewrite !andb_true_iff, orb_true_iff, !negb_true_iff, !band_iff.
  rewrite Fx, Fy. unfold perr. split.
  - intros [[A B] C]. apply Qle_bool_false in B. auto.
  - intros (A & B & C). split; [split; [assumption|]|assumption].
    destruct (Qle_bool 3 (pfactor p)) eqn:E; [|reflexivity]. apply Qle_bool_iff in E. lra.
Qed.

Lemma pipe_full_err_formula : forall H W mh mw s st p,
  (0 < H)%Z -> (0 < W)%Z -> (0 < dflt H mh)%Z -> (0 < dflt W mw)%Z ->
  pipe_full H W mh mw s st = Some p ->
  (forall x, err (px p) x == perr (pdx p) (pfactor p) (pnx p) x) /\
  (forall y, err (py p) y == perr (pdy p) (pfactor p) (pny p) y).
Proof.
  intros H W mh mw s st p HH HW Hmh Hmw P. apply pipe_full_unfold in P.
  destruct P as (q & Pq & ->). cbn [px py pdx pdy pfactor pnx pny].
  destruct (pipe_pre_err_formula H W mh mw s q HH HW Hmh Hmw Pq) as [A B].
  split; intros; rewrite err_then_pad; auto.
Qed.

Lemma pipe_centered_err_formula : forall H W mh mw s st ch cw cx cy p,
  (0 < H)%Z -> (0 < W)%Z -> (0 < dflt H mh)%Z -> (0 < dflt W mw)%Z -> (1 < ch)%Z -> (1 < cw)%Z ->
  pipe_centered H W mh mw s st ch cw cx cy = Some p ->
  (forall x, err (px p) x == perr (pdx p) (pfactor p) (pnx p) x) /\
  (forall y, err (py p) y == perr (pdy p) (pfactor p) (pny p) y).
Proof.
  intros H W mh mw s st ch cw cx cy p HH HW Hmh Hmw Hch Hcw P. apply pipe_centered_unfold in P.
  destruct P as (q & Pq & ->). cbn [px py pdx pdy pfactor pnx pny].
  destruct (pipe_pre_err_formula H W mh mw s q HH HW Hmh Hmw Pq) as [A B].
  split; intros; rewrite err_recrop by assumption; auto.
Qed.

Lemma pipe_full_partial : forall H W mh mw s st p x y,
  (0 < H)%Z -> (0 < W)%Z -> (0 < dflt H mh)%Z -> (0 < dflt W mw)%Z -> 0 < s ->
  pipe_full H W mh mw s st = Some p ->
  selector_F11 p = false -> selector_F11b p x y = false ->
  Qabs (err (px p) x) < 1 /\ Qabs (err (py p) y) < 1.
Proof.
  intros H W mh mw s st p x y HH HW Hmh Hmw Hs P.
  destruct (pipe_full_err_formula H W mh mw s st p HH HW Hmh Hmw P) as [Fx Fy].
  apply pipe_full_unfold in P. destruct P as (q & Pq & ->).
  apply pipe_partial_core; try assumption; simpl.
  - apply (pipe_pre_factor_pos H W mh mw s q HH HW Hmh Hmw Hs Pq).
  - intros E. destruct (pipe_pre_exact_error H W mh mw s q HH HW Hmh Hmw Pq E) as [A B].
    split; intros; rewrite err_then_pad; auto.
Qed.

Lemma pipe_centered_partial : forall H W mh mw s st ch cw cx cy p x y,
  (0 < H)%Z -> (0 < W)%Z -> (0 < dflt H mh)%Z -> (0 < dflt W mw)%Z -> 0 < s ->
  (1 < ch)%Z -> (1 < cw)%Z ->
  pipe_centered H W mh mw s st ch cw cx cy = Some p ->
  selector_F11 p = false -> selector_F11b p x y = false ->
  Qabs (err (px p) x) < 1 /\ Qabs (err (py p) y) < 1.
Proof.
  intros H W mh mw s st ch cw cx cy p x y HH HW Hmh Hmw Hs Hch Hcw P.
  destruct (pipe_centered_err_formula H W mh mw s st ch cw cx cy p HH HW Hmh Hmw Hch Hcw P) as [Fx Fy].
  apply pipe_centered_unfold in P. destruct P as (q & Pq & ->).
  apply pipe_partial_core; try assumption; simpl.
  - apply (pipe_pre_factor_pos H W mh mw s q HH HW Hmh Hmw Hs Pq).
  - intros E. destruct (pipe_pre_exact_error H W mh mw s q HH HW Hmh Hmw Pq E) as [A B].
    split; intros; rewrite err_recrop by assumption; auto.
Qed.

(* exact sizes: the error of the whole pipeline is (eff*scale - 1)/2 everywhere, hence
   under one pixel iff the cumulative factor is below 3 *)
Lemma pipe_full_exact : forall H W mh mw s st p x y,
  (0 < H)%Z -> (0 < W)%Z -> (0 < dflt H mh)%Z -> (0 < dflt W mw)%Z ->
  pipe_full H W mh mw s st = Some p -> pexact p = true ->
  err (px p) x == (pfactor p - 1) / 2 /\ err (py p) y == (pfactor p - 1) / 2.
Proof.
  intros H W mh mw s st p x y HH HW Hmh Hmw P. apply pipe_full_unfold in P.
  destruct P as (q & Pq & ->). simpl. intros E.
  destruct (pipe_pre_exact_error H W mh mw s q HH HW Hmh Hmw Pq E) as [A B].
  rewrite !err_then_pad. auto.
Qed.

Lemma pipe_centered_exact : forall H W mh mw s st ch cw cx cy p x y,
  (0 < H)%Z -> (0 < W)%Z -> (0 < dflt H mh)%Z -> (0 < dflt W mw)%Z -> (1 < ch)%Z -> (1 < cw)%Z ->
  pipe_centered H W mh mw s st ch cw cx cy = Some p -> pexact p = true ->
  err (px p) x == (pfactor p - 1) / 2 /\ err (py p) y == (pfactor p - 1) / 2.
Proof.
  intros H W mh mw s st ch cw cx cy p x y HH HW Hmh Hmw Hch Hcw P.
  apply pipe_centered_unfold in P. destruct P as (q & Pq & ->). simpl. intros E.
  destruct (pipe_pre_exact_error H W mh mw s q HH HW Hmh Hmw Pq E) as [A B].
  rewrite !err_recrop by assumption. auto.
Qed.

(* output sizes of the pipelines *)
Lemma pipe_full_size : forall H W mh mw s st p,
  (0 < H)%Z -> (0 < W)%Z -> (0 < dflt H mh)%Z -> (0 < dflt W mw)%Z ->
  pipe_full H W mh mw s st = Some p ->
  osize (px p) = (resizer_size (dflt W mw) s + stride_pad (resizer_size (dflt W mw) s) st)%Z /\
  osize (py p) = (resizer_size (dflt H mh) s + stride_pad (resizer_size (dflt H mh) s) st)%Z.
Proof.
  intros H W mh mw s st p HH HW Hmh Hmw P. apply pipe_full_unfold in P.
  destruct P as (q & Pq & ->).
  destruct (pipe_pre_size H W mh mw s q HH HW Hmh Hmw Pq) as (A & B & _).
  simpl. rewrite A, B. auto.
Qed.

Lemma pipe_centered_size : forall H W mh mw s st ch cw cx cy p,
  pipe_centered H W mh mw s st ch cw cx cy = Some p ->
  osize (px p) = (cw + stride_pad cw st)%Z /\ osize (py p) = (ch + stride_pad ch st)%Z.
Proof.
  intros. apply pipe_centered_unfold in H0. destruct H0 as (q & _ & ->). auto.
Qed.

Lemma kmap_then : forall f g x, ap (kmap (then_ f g)) x == ap (kmap g) (ap (kmap f) x).
Proof. intros. unfold then_. simpl. apply ap_comp. Qed.

(* the re-crop is centred on the keypoint-image of the centroid: it lands on the crop centre *)
Lemma recrop_centre : forall pre c0 crop st, (1 < crop)%Z ->
  ap (kmap (recrop pre c0 crop st)) c0 == (zq crop - 1) / 2.
Proof.
  intros pre c0 crop st Hc. unfold recrop. cbv zeta.
  rewrite kmap_then.
  match goal with |- ap (kmap (pad_axis ?n ?s)) ?z == _ => destruct (pad_identity n s z) as [_ E]; rewrite E; clear E end.
  rewrite kmap_then, kmap_then.
  apply crop_centre. assumption.
Qed.

(* ------------------------------------------------------------------ keypoints *)
Lemma step_kp_none : forall sx sy, step_kp sx sy None = None.
Proof. reflexivity. Qed.

Lemma step_kp_some : forall sx sy x y,
  step_kp sx sy (Some (x, y)) = Some (ap (kmap sx) x, ap (kmap sy) y).
Proof. reflexivity. Qed.

Lemma apply_mat_none : forall m, apply_mat m None = None.
Proof. intros [[[a b] tx] [[c d] ty]]. reflexivity. Qed.

(* ------------------------------------------------------------------ augmentation wrappers *)
Lemma unflatten_concat : forall {A} n (l : list (list A)),
  Forall (fun r => length r = n) l -> unflatten n (length l) (concat l) = l.
Proof.
  intros A n l F. induction F as [|a l Ha F IH]; [reflexivity|].
  simpl. rewrite firstn_app, skipn_app, Ha, Nat.sub_diag. simpl.
  subst n. rewrite firstn_all, skipn_all. simpl. rewrite app_nil_r, IH. reflexivity.
Qed.

(* reshape -> pointwise map -> reshape back = the same map on every keypoint of every
   instance, order preserved *)
Lemma wrapper_pointwise : forall (g : kp -> kp) n insts,
  Forall (fun r => length r = n) insts ->
  aug_wrapper (map g) n insts = map (map g) insts.
Proof.
  intros g n insts F. unfold aug_wrapper.
  rewrite concat_map. rewrite <- (map_length (map g) insts).
  apply unflatten_concat. apply Forall_map. eapply Forall_impl; [|exact F].
  intros a Ha. simpl. rewrite map_length. assumption.
Qed.

Section KorniaOracle.
  (* the library call: AugmentationSequential(...)(image, keypoints) on the flattened
     (n_instances * n_nodes, 2) keypoints.  Contract read back / tested by the harness on
     every run: it applies ONE matrix to every point (geometric) ... *)
  Variable f : list kp -> list kp.
  Variable m : mat.
  Hypothesis f_pointwise : forall l, f l = map (apply_mat m) l.

  Lemma wrapper_same_matrix : forall n insts,
    Forall (fun r => length r = n) insts ->
    aug_wrapper f n insts = map (map (apply_mat m)) insts.
  Proof.
    intros. unfold aug_wrapper. rewrite f_pointwise. apply (wrapper_pointwise (apply_mat m)). assumption.
  Qed.

  Lemma wrapper_kp_at : forall n insts i j p,
    Forall (fun r => length r = n) insts ->
    nth_error insts i = Some p ->
    nth_error (aug_wrapper f n insts) i = Some (map (apply_mat m) p) /\
    nth_error (map (apply_mat m) p) j = option_map (apply_mat m) (nth_error p j).
  Proof.
    intros. rewrite wrapper_same_matrix by assumption. split.
    - rewrite nth_error_map, H0. reflexivity.
    - apply nth_error_map.
  Qed.
End KorniaOracle.

Section IntensityOracle.
  (* ... and intensity-only operations return the keypoints they were given *)
  Variable f : list kp -> list kp.
  Hypothesis f_identity : forall l, f l = l.

  Lemma intensity_never_moves : forall n insts,
    Forall (fun r => length r = n) insts -> aug_wrapper f n insts = insts.
  Proof.
    intros. unfold aug_wrapper. rewrite f_identity. apply unflatten_concat. assumption.
  Qed.
End IntensityOracle.

Lemma apply_mat_id : forall p, match apply_mat mat_id p, p with
  | Some (a, b), Some (x, y) => a == x /\ b == y
  | None, None => True
  | _, _ => False end.
Proof. intros [[x y]|]; simpl; [split; ring | exact I]. Qed.

(* ------------------------------------------------------------------ kornia's affine warp *)
Lemma aug_fixed_registered : forall H W m x y,
  fst (aug_err true H W m x y) == 0 /\ snd (aug_err true H W m x y) == 0.
Proof.
  intros H W [[[a b] tx] [[c d] ty]] x y. unfold aug_err, warp_content, mat_xy. simpl. split; ring.
Qed.

(* square images: content and keypoints differ by the displacement of the image centre
   divided by (n - 1), everywhere; zero for rotations / scalings about the centre *)
Lemma aug_square_error : forall n m x y, (1 < n)%Z ->
  let c := (zq n - 1) / 2 in
  fst (aug_err false n n m x y) == (fst (mat_xy m c c) - c) / (zq n - 1) /\
  snd (aug_err false n n m x y) == (snd (mat_xy m c c) - c) / (zq n - 1).
Proof.
  intros n [[[a b] tx] [[c d] ty]] x y Hn. pose proof (zq_gt1 n Hn).
  unfold aug_err, warp_content, mat_comp, kornia_D, kornia_Dinv, mat_xy. simpl.
  split; field; split; lra.
Qed.

Lemma aug_square_lt_one : forall n m x y, (1 < n)%Z ->
  let c := (zq n - 1) / 2 in
  Qabs (fst (mat_xy m c c) - c) < zq n - 1 -> Qabs (snd (mat_xy m c c) - c) < zq n - 1 ->
  Qabs (fst (aug_err false n n m x y)) < 1 /\ Qabs (snd (aug_err false n n m x y)) < 1.
Proof.
  intros n m x y Hn c A B. pose proof (zq_gt1 n Hn).
  destruct (aug_square_error n m x y Hn) as [E1 E2]. fold c in E1, E2. rewrite E1, E2.
  apply Qabs_lt_inv in A. apply Qabs_lt_inv in B.
  split; apply Qabs_lt.
  - apply Qlt_shift_div_l; lra.
  - apply Qlt_shift_div_r; lra.
  - apply Qlt_shift_div_l; lra.
  - apply Qlt_shift_div_r; lra.
Qed.

(* ------------------------------------------------------------------ find_instance_crop_size *)
Lemma Qmax_l : forall a b, a <= Qmax a b.
Proof. intros. unfold Qmax. destruct (Qle_bool a b) eqn:E. apply Qle_bool_iff; assumption. apply Qle_refl. Qed.
Lemma Qmax_r : forall a b, b <= Qmax a b.
Proof.
  intros. unfold Qmax. destruct (Qle_bool a b) eqn:E. apply Qle_refl.
  apply Qle_bool_false in E. lra.
Qed.
Lemma Qmin_l : forall a b, Qmin a b <= a.
Proof.
  intros. unfold Qmin. destruct (Qle_bool a b) eqn:E. apply Qle_refl.
  apply Qle_bool_false in E. lra.
Qed.
Lemma Qmin_r : forall a b, Qmin a b <= b.
Proof. intros. unfold Qmin. destruct (Qle_bool a b) eqn:E. apply Qle_bool_iff; assumption. apply Qle_refl. Qed.

Lemma fold_max_ge : forall l a, a <= fold_left Qmax l a /\ forall b, In b l -> b <= fold_left Qmax l a.
Proof.
  induction l as [|c l IH]; intros a; simpl.
  - split. apply Qle_refl. intros b [].
  - destruct (IH (Qmax a c)) as [A B]. split.
    + eapply Qle_trans; [apply Qmax_l | exact A].
    + intros b [<-|Hb]; [eapply Qle_trans; [apply Qmax_r | exact A] | auto].
Qed.

Lemma fold_min_le : forall l a, fold_left Qmin l a <= a /\ forall b, In b l -> fold_left Qmin l a <= b.
Proof.
  induction l as [|c l IH]; intros a; simpl.
  - split. apply Qle_refl. intros b [].
  - destruct (IH (Qmin a c)) as [A B]. split.
    + eapply Qle_trans; [exact A | apply Qmin_l].
    + intros b [<-|Hb]; [eapply Qle_trans; [exact A | apply Qmin_r] | auto].
Qed.

(* extent = nanmax - nanmin: it spans any two of the listed values *)
Lemma extent_spans : forall l a b, In a l -> In b l -> a - b <= extent l.
Proof.
  intros [|h t] a b Ha Hb; [destruct Ha|]. unfold extent.
  destruct (fold_max_ge t h) as [M1 M2]. destruct (fold_min_le t h) as [N1 N2].
  assert (a <= fold_left Qmax t h) by (destruct Ha as [<-|Ha]; auto).
  assert (fold_left Qmin t h <= b) by (destruct Hb as [<-|Hb]; auto).
  lra.
Qed.

Lemma Qceil_bounds : forall q, q <= zq (Qceil q) /\ zq (Qceil q) < q + 1.
Proof.
  intros. unfold Qceil. destruct (floor_bounds (- q)) as [A B].
  unfold zq in *. rewrite inject_Z_opp. split; lra.
Qed.

Definition crop_ml (insts : list (list kp)) (scale nopad : Q) : Q :=
  fold_left (fun acc inst => Qmax (Qmax acc (inst_length scale inst)) nopad) insts 0.

Lemma crop_ml_ge : forall insts scale nopad acc,
  let r := fold_left (fun acc inst => Qmax (Qmax acc (inst_length scale inst)) nopad) insts acc in
  acc <= r /\ (forall i, In i insts -> inst_length scale i <= r) /\ (insts <> [] -> nopad <= r).
Proof.
  induction insts as [|a l IH]; intros scale nopad acc; simpl.
  - split. apply Qle_refl. split. intros i []. intros C; congruence.
  - destruct (IH scale nopad (Qmax (Qmax acc (inst_length scale a)) nopad)) as (A & B & C).
    pose proof (Qmax_l (Qmax acc (inst_length scale a)) nopad).
    pose proof (Qmax_r (Qmax acc (inst_length scale a)) nopad).
    pose proof (Qmax_l acc (inst_length scale a)). pose proof (Qmax_r acc (inst_length scale a)).
    split; [lra|]. split.
    + intros i [<-|Hi]; [lra | auto].
    + intros _. lra.
Qed.

Lemma crop_size_user : forall insts padding stride scale mc,
  (0 < mc)%Z -> (mc mod stride = 0)%Z ->
  find_instance_crop_size insts padding stride scale (Some mc) = mc.
Proof.
  intros. unfold find_instance_crop_size. simpl.
  apply Z.ltb_lt in H. apply Z.eqb_eq in H0. rewrite H, H0. reflexivity.
Qed.

Lemma crop_size_computed : forall insts padding stride scale min_crop,
  (0 < stride)%Z ->
  ~ ((0 < dflt 0 min_crop)%Z /\ (dflt 0 min_crop mod stride = 0)%Z) ->
  let r := find_instance_crop_size insts padding stride scale min_crop in
  let need := crop_ml insts scale (zq (dflt 0 min_crop - padding)) + zq padding in
  (r mod stride = 0)%Z /\ need <= zq r /\ zq r < need + zq stride /\
  (forall i, In i insts -> inst_length scale i + zq padding <= zq r) /\
  (insts <> [] -> (dflt 0 min_crop <= r)%Z).
Proof.
  intros insts padding stride scale min_crop Hs Hn. cbv zeta.
  unfold find_instance_crop_size.
  destruct ((0 <? dflt 0 min_crop)%Z && (dflt 0 min_crop mod stride =? 0)%Z) eqn:E.
  - apply andb_prop in E. destruct E as [A B]. apply Z.ltb_lt in A. apply Z.eqb_eq in B. tauto.
  - fold (crop_ml insts scale (zq (dflt 0 min_crop - padding))).
    set (ml := crop_ml insts scale (zq (dflt 0 min_crop - padding))).
    pose proof (zq_pos stride Hs) as Ps.
    destruct (Qceil_bounds ((ml + zq padding) / zq stride)) as [C1 C2].
    set (k := Qceil ((ml + zq padding) / zq stride)) in *.
    assert (Ek: zq (k * stride) == zq k * zq stride) by (unfold zq; rewrite inject_Z_mult; reflexivity).
    assert (M: (ml + zq padding) / zq stride * zq stride == ml + zq padding) by (field; lra).
    assert (L1: ml + zq padding <= zq (k * stride)).
    { rewrite Ek, <- M. apply Qmult_le_compat_r; lra. }
    assert (L2: zq (k * stride) < ml + zq padding + zq stride).
    { rewrite Ek. assert (zq k * zq stride < ((ml + zq padding) / zq stride + 1) * zq stride).
      apply Qmult_lt_compat_r; lra. lra. }
    destruct (crop_ml_ge insts scale (zq (dflt 0 min_crop - padding)) 0) as (_ & G1 & G2).
    fold (crop_ml insts scale (zq (dflt 0 min_crop - padding))) in G1, G2. fold ml in G1, G2.
    split; [apply Z.mod_mul; lia|]. split; [exact L1|]. split; [exact L2|]. split.
    + intros i Hi. specialize (G1 i Hi). lra.
    + intros Hne. specialize (G2 Hne). apply zq_le.
      assert (zq (dflt 0 min_crop - padding) == zq (dflt 0 min_crop) - zq padding).
      { unfold zq. unfold Z.sub. rewrite inject_Z_plus, inject_Z_opp. ring. }
      lra.
Qed.

(* ------------------------------------------------------------------ refutations (closed witnesses) *)
Ltac qle := apply Qle_bool_iff; vm_compute; reflexivity.

(* F11: one resize step by 4 — every keypoint is 3/2 output px from its content *)
Lemma registration_lt_one_refuted_w :
  (0 < 20)%Z /\ in_extent 20 10 /\ err (resize_axis 20 4) 10 == 3 # 2 /\
  1 <= Qabs (err (resize_axis 20 4) 10).
Proof. split; [lia|]. split; [split; qle|]. split; [vm_compute; reflexivity | qle]. Qed.

(* each step below 3, product 4: still 3/2 px *)
Lemma two_x2_steps_refuted_w :
  Qabs (err (resample 20 40 2) 10) < 1 /\ Qabs (err (resample 40 80 2) 20) < 1 /\
  err (then_ (resample 20 40 2) (resample 40 80 2)) 10 == 3 # 2.
Proof. split; [vm_compute; reflexivity|]. split; vm_compute; reflexivity. Qed.

(* F11b: 175 px * 1/4 = 43.75 -> 43 px; the keypoint on the last pixel centre (9/8 px off) *)
Lemma floor_far_edge_refuted_w :
  in_extent 175 174 /\ resizer_size 175 (1 # 4) = 43%Z /\ 1 <= Qabs (err (resize_axis 175 (1 # 4)) 174).
Proof. split; [split; qle|]. split; [vm_compute; reflexivity | qle]. Qed.

(* F11b through the size matcher: 50 x 17 fitted into 140 x 60 (eff = 14/5, 47.6 -> 48 px) *)
Lemma round_far_edge_refuted_w :
  exists p, pipe_full 50 17 (Some 140%Z) (Some 60%Z) 1 1 = Some p /\
    selector_F11 p = false /\ selector_F11b p 16 25 = true /\ in_extent 17 16 /\
    1 <= Qabs (err (px p) 16).
Proof.
  eexists. split; [vm_compute; reflexivity|]. split; [vm_compute; reflexivity|].
  split; [vm_compute; reflexivity|]. split; [split; qle | qle].
Qed.

(* the full statement for the pipelines is false: a x4 dataset pipeline *)
Lemma pipe_registration_refuted_w :
  exists p, pipe_full 20 20 None None 4 16 = Some p /\ selector_F11 p = true /\
    pexact p = true /\ err (px p) 10 == 3 # 2 /\ err (py p) 10 == 3 # 2.
Proof.
  eexists. split; [vm_compute; reflexivity|]. repeat split; vm_compute; reflexivity.
Qed.

(* F04k: 17 x 200 image, similarity (scale ~1.49, rotation ~11.6 degrees) about the image
   centre (99.5, 8).  The keypoint (160, 0) goes to (190.23, 14.47); its image content to
   (190.2.., 15.5..): both inside the 200 x 17 output, more than 1 px apart vertically. *)
Definition sim_17x200 : mat := ((73 # 50, - (3 # 10), - (4337 # 100)), (3 # 10, 73 # 50, - (3353 # 100))).
Definition in_frame (H W : Z) (q : Q * Q) : Prop :=
  - (1 # 2) <= fst q /\ fst q <= zq W - (1 # 2) /\ - (1 # 2) <= snd q /\ snd q <= zq H - (1 # 2).
Lemma aug_nonsquare_refuted_w :
  fst (mat_xy sim_17x200 (199 # 2) 8) == 199 # 2 /\ snd (mat_xy sim_17x200 (199 # 2) 8) == 8 /\
  in_frame 17 200 (mat_xy sim_17x200 160 0) /\
  in_frame 17 200 (mat_xy (warp_content false 17 200 sim_17x200) 160 0) /\
  1 <= Qabs (snd (aug_err false 17 200 sim_17x200 160 0)) /\
  selector_F04k 17 200 sim_17x200 160 0 = true.
Proof.
  split; [vm_compute; reflexivity|]. split; [vm_compute; reflexivity|].
  split; [repeat split; qle|]. split; [repeat split; qle|]. split; [qle | vm_compute; reflexivity].
Qed.

(* ------------------------------------------------------------------ non-vacuity *)
Lemma ex_pipe_nonvacuous_w :
  exists p, pipe_centered 120 160 (Some 128%Z) (Some 192%Z) (1 # 2) 16 32 32 80 60 = Some p /\
    selector_F11 p = false /\ selector_F11b p 80 60 = false /\ osize (px p) = 32%Z.
Proof. eexists. split; [vm_compute; reflexivity|]. repeat split; vm_compute; reflexivity. Qed.

Lemma ex_sizematcher_w :
  exists r, sizematcher 384 384 (Some 200%Z) (Some 300%Z) = Some r /\
    sm_th r = 200%Z /\ sm_tw r = 200%Z /\ sm_oh r = 200%Z /\ sm_ow r = 300%Z /\ sm_eff r == 25 # 48.
Proof. eexists. split; [vm_compute; reflexivity|]. repeat split; vm_compute; reflexivity. Qed.

Lemma ex_py_round_w : py_round (5 # 2) = 2%Z /\ py_round (7 # 2) = 4%Z /\ py_round (-(1 # 2)) = 0%Z.
Proof. repeat split; vm_compute; reflexivity. Qed.

Lemma ex_crop_size_w :
  find_instance_crop_size [[Some (10, 20); Some (130, 40)]] 0 16 1 (Some 100%Z) = 128%Z /\
  find_instance_crop_size [[Some (10, 20); Some (130, 40)]] 0 2 1 (Some 100%Z) = 100%Z.
Proof. split; vm_compute; reflexivity. Qed.
