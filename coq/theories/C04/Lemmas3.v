(* Lemmas3.v (C04, round 4) — pipeline followed by geometric augmentation, kornia's warp mechanism,
   finding F11c; proofs only. *)
From Coq Require Import List ZArith QArith Qround Qabs Bool Lia Lqa.
Import ListNotations.
From SV Require Import C04.Geometry C04.Lemmas.
Open Scope Q_scope.

(* ------------------------------------------------------------------ kornia's warp mechanism *)
Lemma zq_m1_nonzero : forall n, (1 < n)%Z -> ~ zq n - 1 == 0.
Proof. intros n Hn. pose proof (zq_gt1 n Hn). lra. Qed.

(* align_corners=True (the current tree): normalisation and sampling use the same convention and
   cancel — the content moves by the keypoint matrix itself, whatever the image shape *)
Lemma warp_mech_aligned : forall H W m x y, (1 < H)%Z -> (1 < W)%Z ->
  fst (mat_xy (warp_mech true H W m) x y) == fst (mat_xy m x y) /\
  snd (mat_xy (warp_mech true H W m) x y) == snd (mat_xy m x y).
Proof.
  intros H W [[[a b] tx] [[c d] ty]] x y HH HW.
  pose proof (zq_m1_nonzero H HH). pose proof (zq_m1_nonzero W HW).
  unfold warp_mech, samp_inv, samp_mat, norm_mat, norm_inv, mat_comp, mat_xy. cbn [fst snd].
  split; field; auto.
Qed.

(* align_corners=False (kornia's default; the pinned tree before 6a3da1d / c812d23): the content
   moves by D m D^-1, D x = n/(n-1) x - 1/2 per axis — the map `warp_content false` of F04k / F04p *)
Lemma warp_mech_default : forall H W m x y, (1 < H)%Z -> (1 < W)%Z ->
  fst (mat_xy (warp_mech false H W m) x y) == fst (mat_xy (warp_content false H W m) x y) /\
  snd (mat_xy (warp_mech false H W m) x y) == snd (mat_xy (warp_content false H W m) x y).
Proof.
  intros H W [[[a b] tx] [[c d] ty]] x y HH HW.
  pose proof (zq_m1_nonzero H HH). pose proof (zq_m1_nonzero W HW).
  assert (~ zq H == 0) by (apply zq_nonzero; lia). assert (~ zq W == 0) by (apply zq_nonzero; lia).
  unfold warp_mech, warp_content, kornia_D, kornia_Dinv, samp_inv, samp_mat, norm_mat, norm_inv, mat_comp, mat_xy.
  cbn [fst snd]. split; field; auto.
Qed.

Lemma aug_err_mech_aligned : forall H W m x y, (1 < H)%Z -> (1 < W)%Z ->
  fst (aug_err_mech true H W m x y) == 0 /\ snd (aug_err_mech true H W m x y) == 0.
Proof.
  intros H W m x y HH HW. destruct (warp_mech_aligned H W m x y HH HW) as [A B].
  unfold aug_err_mech. destruct (mat_xy (warp_mech true H W m) x y) as [cx cy].
  destruct (mat_xy m x y) as [kx ky]. cbn [fst snd] in *. rewrite A, B. split; ring.
Qed.

(* a 1-px side is outside the mechanism: the normalisation 2/(n-1) is not defined (in Q: 2/0 = 0);
   witness: a translation by one pixel on a 1-px-wide image *)
Lemma warp_mech_one_px_w :
  ~ fst (mat_xy (warp_mech true 5 1 ((1, 0, 1), (0, 1, 0))) 0 2) == fst (mat_xy ((1, 0, 1), (0, 1, 0)) 0 2).
Proof. intro C. vm_compute in C. discriminate. Qed.

(* ------------------------------------------------------------------ pipeline, then augmentation *)
Lemma cmap_then : forall f g x, ap (cmap (then_ f g)) x == ap (cmap g) (ap (cmap f) x).
Proof. intros. unfold then_. simpl. apply ap_comp. Qed.

(* BottomUp / SingleInstance / Centroid: the error against the ORIGINAL labels after the augmentation
   is the image of the pipeline's error under the LINEAR part of the sampled matrix *)
Lemma full_aug_error : forall p m x y, (1 < osize (py p))%Z -> (1 < osize (px p))%Z ->
  fst (full_aug_content true p m x y) - fst (full_aug_kp p m x y)
    == fst (lin_apply m (err (px p) x) (err (py p) y)) /\
  snd (full_aug_content true p m x y) - snd (full_aug_kp p m x y)
    == snd (lin_apply m (err (px p) x) (err (py p) y)).
Proof.
  intros p m x y Hy Hx. unfold full_aug_content, full_aug_kp.
  destruct (warp_mech_aligned (osize (py p)) (osize (px p)) m (ap (cmap (px p)) x) (ap (cmap (py p)) y) Hy Hx) as [A B].
  rewrite A, B. destruct m as [[[a b] tx] [[c d] ty]]. unfold mat_xy, lin_apply, err. cbn [fst snd].
  split; ring.
Qed.

Lemma over_stage_maps : forall pre c0 crop x, (1 < crop)%Z ->
  let b := fst (bbox_axis (ap (kmap pre) c0) (overcrop_size crop)) in
  ap (cmap (over_stage pre c0 crop)) x == ap (cmap pre) x - b /\
  ap (kmap (over_stage pre c0 crop)) x == ap (kmap pre) x - b.
Proof.
  intros pre c0 crop x Hc b. unfold over_stage.
  assert (1 < overcrop_size crop)%Z as Ho by (pose proof (overcrop_spec crop ltac:(lia)) as [_ L]; lia).
  rewrite cmap_then, kmap_then.
  destruct (crop_maps (ap (kmap pre) c0) (osize pre) (overcrop_size crop) (ap (cmap pre) x) Ho) as [A _].
  destruct (crop_maps (ap (kmap pre) c0) (osize pre) (overcrop_size crop) (ap (kmap pre) x) Ho) as [_ B].
  rewrite A, B. subst b. split; reflexivity.
Qed.

Lemma recrop_stage_maps : forall pre c0 crop st z, (1 < crop)%Z ->
  let r := fst (bbox_axis (ap (kmap (over_stage pre c0 crop)) c0) crop) in
  ap (cmap (recrop_stage pre c0 crop st)) z == z - r /\ ap (kmap (recrop_stage pre c0 crop st)) z == z - r.
Proof.
  intros pre c0 crop st z Hc r. unfold recrop_stage. cbv zeta. rewrite cmap_then, kmap_then.
  match goal with |- ap (cmap (pad_axis ?n ?s)) ?u == _ /\ ap (kmap (pad_axis ?n' ?s')) ?v == _ =>
    destruct (pad_identity n s u) as [E1 _]; destruct (pad_identity n' s' v) as [_ E2]; rewrite E1, E2 end.
  destruct (crop_maps (ap (kmap (over_stage pre c0 crop)) c0) (overcrop_size crop) crop z Hc) as [A B].
  rewrite A, B. subst r. split; reflexivity.
Qed.

(* the two halves compose to `recrop` (so the model with the identity matrix is the no-augmentation
   pipeline pipe_centered) *)
Lemma recrop_split : forall pre c0 crop st x, (1 < crop)%Z ->
  ap (cmap (recrop pre c0 crop st)) x
    == ap (cmap (recrop_stage pre c0 crop st)) (ap (cmap (over_stage pre c0 crop)) x) /\
  ap (kmap (recrop pre c0 crop st)) x
    == ap (kmap (recrop_stage pre c0 crop st)) (ap (kmap (over_stage pre c0 crop)) x).
Proof.
  intros pre c0 crop st x Hc.
  assert (1 < overcrop_size crop)%Z as Ho by (pose proof (overcrop_spec crop ltac:(lia)) as [_ L]; lia).
  destruct (recrop_stage_maps pre c0 crop st (ap (cmap (over_stage pre c0 crop)) x) Hc) as [A _].
  destruct (recrop_stage_maps pre c0 crop st (ap (kmap (over_stage pre c0 crop)) x) Hc) as [_ B].
  rewrite A, B. clear A B.
  destruct (over_stage_maps pre c0 crop x Hc) as [A B]. rewrite A, B.
  destruct (over_stage_maps pre c0 crop c0 Hc) as [_ C].
  unfold recrop. cbv zeta. rewrite !cmap_then, !kmap_then.
  match goal with |- ap (cmap (pad_axis ?n ?s)) ?u == _ /\ ap (kmap (pad_axis ?n' ?s')) ?v == _ =>
    destruct (pad_identity n s u) as [E1 _]; destruct (pad_identity n' s' v) as [_ E2]; rewrite E1, E2 end.
  clear E1 E2.
  match goal with |- ap (cmap (crop_axis ?c ?ni ?n)) ?u == _ /\ ap (kmap (crop_axis ?c' ?ni' ?n')) ?v == _ =>
    destruct (crop_maps c ni n u Hc) as [E1 _]; destruct (crop_maps c' ni' n' v Hc) as [_ E2]; rewrite E1, E2 end.
  clear E1 E2.
  match goal with |- ap (cmap (crop_axis ?c ?ni ?n)) ?u - _ == _ /\ ap (kmap (crop_axis ?c' ?ni' ?n')) ?v - _ == _ =>
    destruct (crop_maps c ni n u Ho) as [E1 _]; destruct (crop_maps c' ni' n' v Ho) as [_ E2]; rewrite E1, E2 end.
  clear E1 E2.
  match goal with |- context [ap (kmap (crop_axis ?c ?ni ?n)) ?v] =>
    destruct (crop_maps c ni n v Ho) as [_ E3] end.
  unfold bbox_axis in *. cbn [fst] in *. rewrite E3, C. split; ring.
Qed.

(* CenteredInstance: same law — over-crop, re-crop and padding are translations *)
Lemma centered_aug_error : forall prex prey cx cy ch cw st m x y, (1 < ch)%Z -> (1 < cw)%Z ->
  fst (centered_aug_content true prex prey cx cy ch cw st m x y)
    - fst (centered_aug_kp prex prey cx cy ch cw st m x y)
    == fst (lin_apply m (err prex x) (err prey y)) /\
  snd (centered_aug_content true prex prey cx cy ch cw st m x y)
    - snd (centered_aug_kp prex prey cx cy ch cw st m x y)
    == snd (lin_apply m (err prex x) (err prey y)).
Proof.
  intros prex prey cx cy ch cw st m x y Hch Hcw.
  assert (1 < overcrop_size ch)%Z as Hoh by (pose proof (overcrop_spec ch ltac:(lia)) as [_ L]; lia).
  assert (1 < overcrop_size cw)%Z as How by (pose proof (overcrop_spec cw ltac:(lia)) as [_ L]; lia).
  unfold centered_aug_content, centered_aug_kp. cbv zeta. cbn [fst snd].
  set (X := ap (cmap (over_stage prex cx cw)) x). set (Y := ap (cmap (over_stage prey cy ch)) y).
  set (KX := ap (kmap (over_stage prex cx cw)) x). set (KY := ap (kmap (over_stage prey cy ch)) y).
  destruct (warp_mech_aligned (overcrop_size ch) (overcrop_size cw) m X Y Hoh How) as [A B].
  destruct (recrop_stage_maps prex cx cw st (fst (mat_xy (warp_mech true (overcrop_size ch) (overcrop_size cw) m) X Y)) Hcw) as [R1 _].
  destruct (recrop_stage_maps prey cy ch st (snd (mat_xy (warp_mech true (overcrop_size ch) (overcrop_size cw) m) X Y)) Hch) as [R2 _].
  destruct (recrop_stage_maps prex cx cw st (fst (mat_xy m KX KY)) Hcw) as [_ R3].
  destruct (recrop_stage_maps prey cy ch st (snd (mat_xy m KX KY)) Hch) as [_ R4].
  rewrite R1, R2, R3, R4, A, B. clear R1 R2 R3 R4 A B.
  destruct (over_stage_maps prex cx cw x Hcw) as [A1 A2]. destruct (over_stage_maps prey cy ch y Hch) as [B1 B2].
  fold X in A1. fold KX in A2. fold Y in B1. fold KY in B2.
  destruct m as [[[a b] tx] [[c d] ty]]. unfold mat_xy, lin_apply, err. cbn [fst snd].
  rewrite A1, A2, B1, B2. split; ring.
Qed.

(* how much the linear part can amplify *)
Lemma lin_bound : forall a b e1 e2 E, Qabs e1 <= E -> Qabs e2 <= E ->
  Qabs (a * e1 + b * e2) <= (Qabs a + Qabs b) * E.
Proof.
  intros a b e1 e2 E H1 H2.
  eapply Qle_trans; [apply Qabs_triangle|]. rewrite !Qabs_Qmult.
  pose proof (Qabs_nonneg a). pose proof (Qabs_nonneg b). pose proof (Qabs_nonneg e1). pose proof (Qabs_nonneg e2).
  nra.
Qed.

Lemma lin_apply_ext : forall m e1 e2 f1 f2, e1 == f1 -> e2 == f2 ->
  fst (lin_apply m e1 e2) == fst (lin_apply m f1 f2) /\ snd (lin_apply m e1 e2) == snd (lin_apply m f1 f2).
Proof.
  intros [[[a b] tx] [[c d] ty]] e1 e2 f1 f2 E1 E2. unfold lin_apply. cbn [fst snd]. rewrite E1, E2.
  split; reflexivity.
Qed.

(* outside the three selectors the augmented sample is registered against the original labels *)
Lemma aug_partial_core : forall p m x y dx dy,
  (forall x, err (px p) x == perr (pdx p) (pfactor p) (pnx p) x) ->
  (forall y, err (py p) y == perr (pdy p) (pfactor p) (pny p) y) ->
  dx == fst (lin_apply m (err (px p) x) (err (py p) y)) ->
  dy == snd (lin_apply m (err (px p) x) (err (py p) y)) ->
  selector_F11 p = false -> selector_F11b p x y = false -> selector_F11c p m x y = false ->
  Qabs dx < 1 /\ Qabs dy < 1.
Proof.
  intros p m x y dx dy Fx Fy Dx Dy S1 S2 S3. unfold selector_F11c in S3. rewrite S1, S2 in S3. cbn [negb andb] in S3.
  destruct (lin_apply_ext m _ _ _ _ (Fx x) (Fy y)) as [A B].
  rewrite Dx, Dy, A, B.
  destruct (lin_apply m (perr (pdx p) (pfactor p) (pnx p) x) (perr (pdy p) (pfactor p) (pny p) y)) as [ex ey].
  cbn [fst snd]. apply orb_false_elim in S3. destruct S3 as [U V].
  apply Qle_bool_false in U. apply Qle_bool_false in V. auto.
Qed.

Lemma selector_F11c_exact_core : forall p m x y,
  (forall x, err (px p) x == perr (pdx p) (pfactor p) (pnx p) x) ->
  (forall y, err (py p) y == perr (pdy p) (pfactor p) (pny p) y) ->
  (selector_F11c p m x y = true <->
   selector_F11 p = false /\ selector_F11b p x y = false /\
   (1 <= Qabs (fst (lin_apply m (err (px p) x) (err (py p) y))) \/
    1 <= Qabs (snd (lin_apply m (err (px p) x) (err (py p) y))))).
Proof.
  intros p m x y Fx Fy. unfold selector_F11c.
  destruct (lin_apply_ext m _ _ _ _ (Fx x) (Fy y)) as [A B]. rewrite A, B.
  destruct (lin_apply m (perr (pdx p) (pfactor p) (pnx p) x) (perr (pdy p) (pfactor p) (pny p) y)) as [ex ey].
  cbn [fst snd]. rewrite !andb_true_iff, orb_true_iff, !negb_true_iff, !Qle_bool_iff. tauto.
Qed.

Lemma pipe_full_aug_partial : forall H W mh mw s st p m x y,
  (0 < H)%Z -> (0 < W)%Z -> (0 < dflt H mh)%Z -> (0 < dflt W mw)%Z -> 0 < s ->
  pipe_full H W mh mw s st = Some p -> (1 < osize (py p))%Z -> (1 < osize (px p))%Z ->
  selector_F11 p = false -> selector_F11b p x y = false -> selector_F11c p m x y = false ->
  Qabs (fst (full_aug_content true p m x y) - fst (full_aug_kp p m x y)) < 1 /\
  Qabs (snd (full_aug_content true p m x y) - snd (full_aug_kp p m x y)) < 1.
Proof.
  intros H W mh mw s st p m x y HH HW Hmh Hmw Hs P Oy Ox S1 S2 S3.
  destruct (pipe_full_err_formula H W mh mw s st p HH HW Hmh Hmw P) as [Fx Fy].
  destruct (full_aug_error p m x y Oy Ox) as [A B].
  apply (aug_partial_core p m x y); assumption.
Qed.

Lemma pipe_centered_aug_partial : forall H W mh mw s st ch cw cx cy q p m x y,
  (0 < H)%Z -> (0 < W)%Z -> (0 < dflt H mh)%Z -> (0 < dflt W mw)%Z -> 0 < s -> (1 < ch)%Z -> (1 < cw)%Z ->
  pipe_pre H W mh mw s = Some q -> pipe_centered H W mh mw s st ch cw cx cy = Some p ->
  selector_F11 p = false -> selector_F11b p x y = false -> selector_F11c p m x y = false ->
  Qabs (fst (centered_aug_content true (px q) (py q) cx cy ch cw st m x y)
        - fst (centered_aug_kp (px q) (py q) cx cy ch cw st m x y)) < 1 /\
  Qabs (snd (centered_aug_content true (px q) (py q) cx cy ch cw st m x y)
        - snd (centered_aug_kp (px q) (py q) cx cy ch cw st m x y)) < 1.
Proof.
  intros H W mh mw s st ch cw cx cy q p m x y HH HW Hmh Hmw Hs Hch Hcw Q P S1 S2 S3.
  destruct (pipe_centered_err_formula H W mh mw s st ch cw cx cy p HH HW Hmh Hmw Hch Hcw P) as [Fx Fy].
  destruct (centered_aug_error (px q) (py q) cx cy ch cw st m x y Hch Hcw) as [A B].
  apply pipe_centered_unfold in P. destruct P as (q' & Q' & Hp). rewrite Q in Q'. inversion Q'. subst q'.
  assert (px p = recrop (px q) cx cw st) as Px by (rewrite Hp; reflexivity).
  assert (py p = recrop (py q) cy ch st) as Py by (rewrite Hp; reflexivity).
  assert (forall z, err (recrop (px q) cx cw st) z == err (px q) z) as Rx by (intros; apply err_recrop; assumption).
  assert (forall z, err (recrop (py q) cy ch st) z == err (py q) z) as Ry by (intros; apply err_recrop; assumption).
  apply (aug_partial_core p m x y); try assumption; rewrite Px, Py.
  - rewrite A. destruct (lin_apply_ext m _ _ _ _ (Rx x) (Ry y)) as [U _]. rewrite U. reflexivity.
  - rewrite B. destruct (lin_apply_ext m _ _ _ _ (Rx x) (Ry y)) as [_ U]. rewrite U. reflexivity.
Qed.

(* exact sizes: after the augmentation the error is ((k-1)/2) * (a + b, c + d) everywhere *)
Lemma pipe_full_aug_exact : forall H W mh mw s st p a b tx c d ty x y,
  (0 < H)%Z -> (0 < W)%Z -> (0 < dflt H mh)%Z -> (0 < dflt W mw)%Z ->
  pipe_full H W mh mw s st = Some p -> pexact p = true -> (1 < osize (py p))%Z -> (1 < osize (px p))%Z ->
  let m := ((a, b, tx), (c, d, ty)) in
  fst (full_aug_content true p m x y) - fst (full_aug_kp p m x y) == (pfactor p - 1) / 2 * (a + b) /\
  snd (full_aug_content true p m x y) - snd (full_aug_kp p m x y) == (pfactor p - 1) / 2 * (c + d).
Proof.
  intros H W mh mw s st p a b tx c d ty x y HH HW Hmh Hmw P E Oy Ox m.
  destruct (full_aug_error p m x y Oy Ox) as [A B]. rewrite A, B.
  destruct (pipe_full_exact H W mh mw s st p x y HH HW Hmh Hmw P E) as [Ex Ey].
  subst m. unfold lin_apply. cbn [fst snd]. rewrite Ex, Ey. split; field.
Qed.

(* ------------------------------------------------------------------ witnesses *)
Ltac qle := apply Qle_bool_iff; vm_compute; reflexivity.

(* rotation by atan(4/3) about the centre (49.5, 49.5) of the 100 x 100 output *)
Definition rot_100 : mat := ((3 # 5, 4 # 5, - (99 # 5)), (- (4 # 5), 3 # 5, 297 # 5)).

(* F11c: 40 x 40 image, scale 5/2 (all sizes exact, factor 5/2 < 3, pipeline error 3/4 px), then a
   rotation about the output centre: the content of the keypoint (20, 20) is 21/20 px from the keypoint *)
Lemma full_aug_refuted_w :
  exists p, pipe_full 40 40 None None (5 # 2) 1 = Some p /\ pexact p = true /\
    selector_F11 p = false /\ selector_F11b p 20 20 = false /\ selector_F11c p rot_100 20 20 = true /\
    err (px p) 20 == 3 # 4 /\ err (py p) 20 == 3 # 4 /\
    fst (full_aug_kp p rot_100 20 20) == 251 # 5 /\ snd (full_aug_kp p rot_100 20 20) == 247 # 5 /\
    fst (full_aug_content true p rot_100 20 20) - fst (full_aug_kp p rot_100 20 20) == 21 # 20 /\
    1 <= Qabs (fst (full_aug_content true p rot_100 20 20) - fst (full_aug_kp p rot_100 20 20)).
Proof.
  eexists. split; [vm_compute; reflexivity|]. split; [vm_compute; reflexivity|].
  split; [vm_compute; reflexivity|]. split; [vm_compute; reflexivity|]. split; [vm_compute; reflexivity|].
  split; [vm_compute; reflexivity|]. split; [vm_compute; reflexivity|]. split; [vm_compute; reflexivity|].
  split; [vm_compute; reflexivity|]. split; [vm_compute; reflexivity | qle].
Qed.

(* informative branch of the partial statement: exact sizes, factor 5/2, error 3/4 *)
Lemma ex_partial_exact_branch_w :
  exists p, pipe_full 40 40 None None (5 # 2) 1 = Some p /\ pexact p = true /\
    selector_F11 p = false /\ selector_F11b p 10 10 = false /\ err (px p) 10 == 3 # 4.
Proof. eexists. split; [vm_compute; reflexivity|]. repeat split; vm_compute; reflexivity. Qed.

(* informative branch, rounded sizes: 50 x 17 fitted into 140 x 60 (eff 14/5, 47.6 -> 48 px, defect 2/5):
   outside the band at x = 3, inside it at x = 16 *)
Lemma ex_partial_rounded_branch_w :
  exists p, pipe_full 50 17 (Some 140%Z) (Some 60%Z) 1 1 = Some p /\ pexact p = false /\
    selector_F11 p = false /\ selector_F11b p 3 25 = false /\ selector_F11b p 16 25 = true /\
    pdx p == 2 # 5 /\ pfactor p == 14 # 5.
Proof. eexists. split; [vm_compute; reflexivity|]. repeat split; vm_compute; reflexivity. Qed.

(* the band is NOT always a thin strip at the far edge: 100 x 84 fitted into 190 x 168 (eff 19/10,
   159.6 -> 160 px) then * 3/2 (factor 57/20 < 3): the band starts at x = 10 of 84 (t = 1/8) *)
Lemma ex_band_wide_w :
  exists p, pipe_full 100 84 (Some 190%Z) (Some 168%Z) (3 # 2) 1 = Some p /\
    selector_F11 p = false /\ selector_F11b p 9 0 = false /\ selector_F11b p 10 0 = true /\
    err (px p) 10 == 1 /\ relpos (pnx p) 10 == 1 # 8.
Proof. eexists. split; [vm_compute; reflexivity|]. repeat split; vm_compute; reflexivity. Qed.

(* ------------------------------------------------------------------ the selectors are exact *)
Lemma selector_F11b_exact_full : forall H W mh mw s st p x y,
  (0 < H)%Z -> (0 < W)%Z -> (0 < dflt H mh)%Z -> (0 < dflt W mw)%Z ->
  pipe_full H W mh mw s st = Some p ->
  (selector_F11b p x y = true <->
   pexact p = false /\ pfactor p < 3 /\ (1 <= Qabs (err (px p) x) \/ 1 <= Qabs (err (py p) y))).
Proof.
  intros H W mh mw s st p x y HH HW Hmh Hmw P.
  destruct (pipe_full_err_formula H W mh mw s st p HH HW Hmh Hmw P) as [Fx Fy].
  apply selector_F11b_exact_core; assumption.
Qed.

Lemma selector_F11b_exact_centered : forall H W mh mw s st ch cw cx cy p x y,
  (0 < H)%Z -> (0 < W)%Z -> (0 < dflt H mh)%Z -> (0 < dflt W mw)%Z -> (1 < ch)%Z -> (1 < cw)%Z ->
  pipe_centered H W mh mw s st ch cw cx cy = Some p ->
  (selector_F11b p x y = true <->
   pexact p = false /\ pfactor p < 3 /\ (1 <= Qabs (err (px p) x) \/ 1 <= Qabs (err (py p) y))).
Proof.
  intros H W mh mw s st ch cw cx cy p x y HH HW Hmh Hmw Hch Hcw P.
  destruct (pipe_centered_err_formula H W mh mw s st ch cw cx cy p HH HW Hmh Hmw Hch Hcw P) as [Fx Fy].
  apply selector_F11b_exact_core; assumption.
Qed.

Lemma selector_F11c_exact_full : forall H W mh mw s st p m x y,
  (0 < H)%Z -> (0 < W)%Z -> (0 < dflt H mh)%Z -> (0 < dflt W mw)%Z ->
  pipe_full H W mh mw s st = Some p -> (1 < osize (py p))%Z -> (1 < osize (px p))%Z ->
  (selector_F11c p m x y = true <->
   selector_F11 p = false /\ selector_F11b p x y = false /\
   (1 <= Qabs (fst (full_aug_content true p m x y) - fst (full_aug_kp p m x y)) \/
    1 <= Qabs (snd (full_aug_content true p m x y) - snd (full_aug_kp p m x y)))).
Proof.
  intros H W mh mw s st p m x y HH HW Hmh Hmw P Oy Ox.
  destruct (pipe_full_err_formula H W mh mw s st p HH HW Hmh Hmw P) as [Fx Fy].
  destruct (full_aug_error p m x y Oy Ox) as [A B]. rewrite A, B.
  apply selector_F11c_exact_core; assumption.
Qed.

(* the band, gathered: an interval of relative positions ending at the far edge, never at the near
   edge, empty unless the defect is at least min (3-k, 1+k)/2 *)
Lemma band_shape : forall d k, 0 < k -> k < 3 ->
  band d k 0 = false /\
  (forall t t', 0 <= t -> t <= t' -> band d k t = true -> band d k t' = true) /\
  (forall t, 0 <= t -> t <= 1 -> band d k t = true ->
     (3 - k) * (1 # 2) <= d \/ d <= - ((1 + k) * (1 # 2))).
Proof.
  intros d k K0 K3. split; [apply band_near_edge; assumption|]. split.
  - intros. eapply band_far_edge; eauto.
  - intros. eapply band_needs_defect; eauto.
Qed.

(* size of the defect of the dataset pipelines: the resized content is at most scale/2 px wider and
   less than scale/2 + 3/2 px narrower than nominal *)
Lemma pipe_pre_defect_bound : forall H W mh mw s p,
  (0 < H)%Z -> (0 < W)%Z -> (0 < dflt H mh)%Z -> (0 < dflt W mw)%Z -> 0 < s ->
  pipe_pre H W mh mw s = Some p ->
  (- (s / 2 + (3 # 2)) < pdx p /\ pdx p <= s / 2) /\ (- (s / 2 + (3 # 2)) < pdy p /\ pdy p <= s / 2).
Proof.
  intros H W mh mw s p HH HW Hmh Hmw Hs P. apply pipe_pre_unfold in P.
  destruct P as (r & S & Ph & Pw & ->).
  destruct (sizematcher_spec H W mh mw r HH HW Hmh Hmw S) as (A & B & Th & Tw & _ & Pe & A1 & A2).
  cbn [pdx pdy]. unfold size_defect.
  assert (forall n t o, (0 < n)%Z -> (0 < t <= o)%Z -> (0 < resizer_size o s)%Z ->
            Qabs (zq t - zq n * sm_eff r) <= 1 # 2 ->
            - (s / 2 + (3 # 2)) < zq t * zq (resizer_size o s) / zq o - zq n * (sm_eff r * s) /\
            zq t * zq (resizer_size o s) / zq o - zq n * (sm_eff r * s) <= s / 2) as Core.
  { intros n t o Hn Ht Hr Ha. assert (0 < o)%Z as Ho by lia.
    pose proof (zq_pos o Ho) as Po. pose proof (zq_pos t ltac:(lia)) as Pt.
    pose proof (le_zq t o ltac:(lia)) as Lto. pose proof (zq_pos (resizer_size o s) Hr) as Pr.
    apply Qabs_Qle_condition in Ha. destruct Ha as [Ha1 Ha2].
    set (rr := zq (resizer_size o s) / zq o).
    assert (zq t * zq (resizer_size o s) / zq o == zq t * rr) as -> by (unfold rr; field; lra).
    assert (0 < rr) as R0 by (unfold rr; apply Qlt_shift_div_l; [assumption | lra]).
    assert (rr <= s /\ s - 1 / zq o < rr) as [R1 R2].
    { unfold resizer_size in *. destruct (Qeq_bool s 1) eqn:E.
      - apply Qeq_bool_iff in E. unfold rr. split.
        + rewrite E. apply Qle_shift_div_r; [assumption | lra].
        + rewrite E. assert (0 < 1 / zq o) by (apply Qlt_shift_div_l; [assumption | lra]).
          assert (zq o / zq o == 1) as -> by (field; lra). lra.
      - destruct (floor_bounds (zq o * s)) as [F1 F2]. unfold rr. split.
        + apply Qle_shift_div_r; [assumption | lra].
        + apply Qlt_shift_div_l; [assumption|].
          assert ((s - 1 / zq o) * zq o == s * zq o - 1) as -> by (field; lra). lra. }
    assert (0 < 1 / zq o) as Io by (apply Qlt_shift_div_l; [assumption | lra]).
    assert (zq t * (1 / zq o) <= 1) as T1.
    { assert (zq t * (1 / zq o) == zq t / zq o) as -> by (field; lra). apply Qle_shift_div_r; [assumption | lra]. }
    assert (1 / zq o <= 1) as O1.
    { apply Qle_shift_div_r; [assumption|]. assert (1 <= zq o) by (change 1 with (zq 1); apply le_zq; lia). lra. }
    rewrite !half. set (e := sm_eff r) in *. set (io := 1 / zq o) in *. clearbody rr e io.
    set (a := zq t - zq n * e) in *.
    assert (zq t * rr - zq n * (e * s) == a * rr + (zq t - a) * (rr - s)) as -> by (unfold a; ring).
    assert (- (1 # 2) <= a) by (first [lra | unfold a; lra]). assert (a <= 1 # 2) by (first [lra | unfold a; lra]). clearbody a.
    split; nra. }
  split.
  - apply Core; try assumption; lia.
  - apply Core; try assumption; lia.
Qed.
