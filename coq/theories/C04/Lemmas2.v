(* Lemmas2.v (C04) — proofs for the round-2 widening of the model: content extents
   (padding only at the bottom/right for whole pipelines), zero fill of crops near the
   border, the DataPipe versions (SizeMatcher / InstanceCropper), augmentation stacks
   (erase / mixup / intensity operations and un-applied draws never move keypoints) and
   crop size vs crop containment. *)
From Coq Require Import List ZArith QArith Qround Qabs Bool Lia Lra Psatz Setoid Morphisms.
Import ListNotations.
From SV Require Import C04.Geometry C04.Lemmas.
Open Scope Q_scope.

(* ------------------------------------------------------------------ content extents *)
Lemma hp_anchored : forall a, ap (hp a) (- (1 # 2)) == - (1 # 2).
Proof. intros. unfold ap, hp. simpl. field. Qed.

Lemma content_lo_then : forall f g, content_lo (then_ f g) == ap (cmap g) (content_lo f).
Proof. intros. unfold content_lo, then_. simpl. apply ap_comp. Qed.

Lemma content_hi_then : forall f g, content_hi (then_ f g) == ap (cmap g) (content_hi f).
Proof. intros. unfold content_hi, then_. simpl. apply ap_comp. Qed.

Lemma stride_pad_nonneg : forall n s, (0 <= stride_pad n s)%Z.
Proof.
  intros. unfold stride_pad. destruct (1 <? s)%Z eqn:E; [|lia].
  apply Z.ltb_lt in E. apply Z.mod_pos_bound. lia.
Qed.

Lemma pad_extent : forall n s,
  content_lo (pad_axis n s) == - (1 # 2) /\ content_hi (pad_axis n s) == zq n - (1 # 2) /\
  content_hi (pad_axis n s) <= zq (osize (pad_axis n s)) - (1 # 2).
Proof.
  intros. unfold content_lo, content_hi, pad_axis. simpl. rewrite !ap_aid.
  split; [reflexivity|]. split; [reflexivity|].
  pose proof (stride_pad_nonneg n s). pose proof (le_zq n (n + stride_pad n s) ltac:(lia)). lra.
Qed.

Lemma sm_axis_extent : forall n t o e, (0 < n)%Z ->
  content_lo (sm_axis n t o e) == - (1 # 2) /\ content_hi (sm_axis n t o e) == zq t - (1 # 2).
Proof.
  intros n t o e Hn. pose proof (zq_pos n Hn). unfold content_lo, content_hi, sm_axis. simpl.
  split; [apply hp_anchored|]. unfold ap, hp. simpl. field. lra.
Qed.

Lemma resize_axis_extent : forall n s, (0 < n)%Z ->
  content_lo (resize_axis n s) == - (1 # 2) /\
  content_hi (resize_axis n s) == zq (resizer_size n s) - (1 # 2).
Proof.
  intros n s Hn. pose proof (zq_pos n Hn). unfold content_lo, content_hi, resize_axis, resizer_size.
  destruct (Qeq_bool s 1); simpl.
  - rewrite !ap_aid. split; reflexivity.
  - split; [apply hp_anchored|]. unfold ap, hp. simpl. field. lra.
Qed.

Lemma resize_axis_isize : forall n s, isize (resize_axis n s) = n.
Proof. intros. unfold resize_axis. destruct (Qeq_bool s 1); reflexivity. Qed.

(* a resizing step applied to an image whose content only fills [-1/2, t - 1/2] of the n
   pixels (t <= n: padded before): the content still starts at -1/2 and ends inside *)
Lemma resize_axis_partial_content : forall n s t, (0 < n)%Z -> (0 < t <= n)%Z -> (0 < resizer_size n s)%Z ->
  ap (cmap (resize_axis n s)) (- (1 # 2)) == - (1 # 2) /\
  - (1 # 2) < ap (cmap (resize_axis n s)) (zq t - (1 # 2)) /\
  ap (cmap (resize_axis n s)) (zq t - (1 # 2)) <= zq (resizer_size n s) - (1 # 2) /\
  0 < sl (cmap (resize_axis n s)).
Proof.
  intros n s t Hn Ht Hr. pose proof (zq_pos n Hn). pose proof (zq_pos t ltac:(lia)).
  pose proof (le_zq t n ltac:(lia)).
  unfold resize_axis, resizer_size in *. destruct (Qeq_bool s 1); cbn [cmap id_step sl aid].
  - rewrite !ap_aid. repeat split; try reflexivity; try lra.
  - pose proof (zq_pos _ Hr) as Pr. set (m := Qfloor (zq n * s)) in *.
    assert (E: ap (hp (zq m / zq n)) (zq t - (1 # 2)) == zq m * (zq t / zq n) - (1 # 2)).
    { unfold ap, hp. cbn [sl off]. field. lra. }
    split; [apply hp_anchored|]. rewrite E.
    assert (0 < zq t / zq n) by (apply Qlt_shift_div_l; lra).
    assert (zq t / zq n <= 1) by (apply Qle_shift_div_r; lra).
    split; [nra|]. split; [nra|]. unfold hp. cbn [sl]. apply Qlt_shift_div_l; lra.
Qed.

(* the pipelines size matcher -> resizer -> stride pad of the BottomUp / SingleInstance /
   Centroid datasets: on both axes the image content starts exactly at the first pixel's
   outer edge (nothing is ever inserted at the top / left), is not mirrored, is not empty
   and ends inside the output (nothing is cut off): all padding is at the bottom / right *)
Lemma pipe_full_padding : forall H W mh mw s st p,
  (0 < H)%Z -> (0 < W)%Z -> (0 < dflt H mh)%Z -> (0 < dflt W mw)%Z ->
  pipe_full H W mh mw s st = Some p ->
  (content_lo (px p) == - (1 # 2) /\ - (1 # 2) < content_hi (px p) /\
   content_hi (px p) <= zq (osize (px p)) - (1 # 2) /\ 0 < sl (cmap (px p))) /\
  (content_lo (py p) == - (1 # 2) /\ - (1 # 2) < content_hi (py p) /\
   content_hi (py p) <= zq (osize (py p)) - (1 # 2) /\ 0 < sl (cmap (py p))).
Proof.
  intros H W mh mw s st p HH HW Hmh Hmw P. apply pipe_full_unfold in P.
  destruct P as (q & Pq & ->). apply pipe_pre_unfold in Pq.
  destruct Pq as (r & S & Ph & Pw & ->).
  destruct (sizematcher_spec H W mh mw r HH HW Hmh Hmw S) as (A & B & Th & Tw & _).
  assert (Oh: (0 < sm_oh r)%Z) by lia. assert (Ow: (0 < sm_ow r)%Z) by lia.
  cbn [px py].
  assert (G: forall n t o e, (0 < n)%Z -> (0 < o)%Z -> (0 < t <= o)%Z -> (0 < resizer_size o s)%Z ->
     let f := then_ (then_ (sm_axis n t o e) (resize_axis o s))
                    (pad_axis (osize (then_ (sm_axis n t o e) (resize_axis o s))) st) in
     content_lo f == - (1 # 2) /\ - (1 # 2) < content_hi f /\
     content_hi f <= zq (osize f) - (1 # 2) /\ 0 < sl (cmap f)).
  { intros n t o e Hn Ho Ht Hr f. subst f.
    destruct (sm_axis_extent n t o e Hn) as [L1 H1].
    destruct (resize_axis_partial_content o s t Ho Ht Hr) as (R1 & R2 & R3 & R4).
    pose proof (stride_pad_nonneg (resizer_size o s) st) as SP.
    rewrite content_lo_then, content_hi_then, content_lo_then, content_hi_then, L1, H1.
    cbn [cmap pad_axis then_ osize]. rewrite !ap_aid, resize_axis_osize.
    pose proof (le_zq (resizer_size o s) (resizer_size o s + stride_pad (resizer_size o s) st) ltac:(lia)).
    pose proof (zq_pos n Hn). pose proof (zq_pos t ltac:(lia)).
    split; [exact R1|]. split; [exact R2|]. split; [lra|].
    unfold comp, aid. cbn [sl sm_axis cmap hp].
    assert (0 < zq t / zq n) by (apply Qlt_shift_div_l; lra). nra. }
  split; [apply G; lia | apply G; lia].
Qed.

(* ------------------------------------------------------------------ zero fill of crops *)
Lemma zq_plus : forall a b, zq (a + b) == zq a + zq b.
Proof. intros. unfold zq. rewrite inject_Z_plus. reflexivity. Qed.

Lemma Qfloor_le_iff : forall q z, (z <= Qfloor q)%Z <-> zq z <= q.
Proof.
  intros. destruct (floor_bounds q) as [A B]. split; intros L.
  - pose proof (le_zq _ _ L). lra.
  - assert (zq z < zq (Qfloor q + 1)) by (rewrite zq_plus1; lra). apply zq_lt in H. lia.
Qed.

Lemma Qceil_le_iff : forall q z, (Qceil q <= z)%Z <-> q <= zq z.
Proof.
  intros. destruct (Qceil_bounds q) as [A B]. split; intros L.
  - pose proof (le_zq _ _ L). lra.
  - assert (zq (Qceil q - 1) < zq z).
    { assert (zq (Qceil q - 1) == zq (Qceil q) - 1) by (unfold zq, Z.sub; rewrite inject_Z_plus; reflexivity). lra. }
    apply zq_lt in H. lia.
Qed.

(* pixel j of the crop shows source position x1 + j; it has image content iff j is in
   crop_valid, it is pure zero fill iff j is beyond crop_zero_below / crop_zero_above *)
Lemma crop_valid_spec : forall x1 n_in n j, (0 <= j < n)%Z ->
  ((fst (crop_valid x1 n_in n) <= j <= snd (crop_valid x1 n_in n))%Z <->
   0 <= x1 + zq j /\ x1 + zq j <= zq n_in - 1) /\
  ((j <= crop_zero_below x1)%Z <-> x1 + zq j <= - 1) /\
  ((crop_zero_above x1 n_in <= j)%Z <-> zq n_in <= x1 + zq j).
Proof.
  intros x1 n_in n j Hj. unfold crop_valid, crop_zero_below, crop_zero_above. cbn [fst snd].
  pose proof (Qceil_le_iff (- x1) j) as C. pose proof (Qfloor_le_iff (zq n_in - 1 - x1) j) as F.
  pose proof (Qfloor_le_iff (- 1 - x1) j) as F2. pose proof (Qceil_le_iff (zq n_in - x1) j) as C2.
  split; [|split].
  - split.
    + intros [A B]. split.
      * assert (Qceil (- x1) <= j)%Z by lia. apply C in H. lra.
      * assert (j <= Qfloor (zq n_in - 1 - x1))%Z by lia. apply F in H. lra.
    + intros [A B]. split.
      * assert (Qceil (- x1) <= j)%Z by (apply C; lra). lia.
      * assert (j <= Qfloor (zq n_in - 1 - x1))%Z by (apply F; lra). lia.
  - rewrite F2. split; intros; lra.
  - rewrite C2. split; intros; lra.
Qed.

Lemma crop_pixel_source : forall c n_in n j, (1 < n)%Z ->
  ap (cmap (crop_axis c n_in n)) (fst (bbox_axis c n) + zq j) == zq j.
Proof. intros. destruct (crop_maps c n_in n (fst (bbox_axis c n) + zq j) H) as [E _]. rewrite E. ring. Qed.

(* ------------------------------------------------------------------ SizeMatcher DataPipe *)
Definition fits (a b : Z) (hw : Z * Z) : Prop := (fst hw <= a)%Z /\ (snd hw <= b)%Z.

Lemma smdp_run_fixed : forall imgs a b l e, smdp_run (Some a, Some b) imgs = (l, e) ->
  Forall (fun o => o = (a, b)) l /\ (length l <= length imgs)%nat /\
  (e = false <-> Forall (fits a b) imgs) /\ (e = false -> length l = length imgs).
Proof.
  induction imgs as [|[H W] t IH]; intros a b l e R; simpl in R.
  - inversion R. repeat split; auto.
  - unfold smdp_step in R. cbn [fst snd dflt] in R.
    destruct ((a <? H)%Z || (b <? W)%Z) eqn:E.
    + inversion R. subst. split; [constructor|]. split; [simpl; lia|]. split.
      * split; [discriminate|]. intros F. inversion F as [|? ? [F1 F2] _]. simpl in F1, F2.
        apply orb_prop in E. destruct E as [E|E]; apply Z.ltb_lt in E; lia.
      * discriminate.
    + destruct (smdp_run (Some a, Some b) t) as [l' e'] eqn:R'. inversion R. subst.
      destruct (IH a b l' e R') as (A & B & C & D).
      apply orb_false_elim in E. destruct E as [E1 E2]. apply Z.ltb_ge in E1. apply Z.ltb_ge in E2.
      split; [constructor; auto|]. split; [simpl; lia|]. split.
      * rewrite C. split; intros F.
        -- constructor; [split; simpl; lia | exact F].
        -- inversion F; assumption.
      * intros X. simpl. rewrite (D X). reflexivity.
Qed.

(* every example the SizeMatcher DataPipe yields has the same size: (max_height, max_width),
   a missing max being taken from the FIRST image; nothing is yielded smaller than its input;
   it ends with the exception iff some image does not fit *)
Lemma smdp_run_spec : forall mh mw H0 W0 t l e,
  smdp_run (mh, mw) ((H0, W0) :: t) = (l, e) ->
  let a := dflt H0 mh in let b := dflt W0 mw in
  Forall (fun o => o = (a, b)) l /\
  (e = false <-> Forall (fits a b) ((H0, W0) :: t)) /\
  (e = false -> length l = S (length t)).
Proof.
  intros mh mw H0 W0 t l e R a b.
  change (smdp_run (mh, mw) ((H0, W0) :: t)) with
    (match smdp_step (mh, mw) H0 W0 with
     | (st', Some o) => let '(l, e) := smdp_run st' t in (o :: l, e)
     | (_, None) => ([], true) end) in R.
  unfold smdp_step in R. cbn [fst snd] in R. fold a b in R.
  destruct ((a <? H0)%Z || (b <? W0)%Z) eqn:E.
  - inversion R. subst. split; [constructor|]. split.
    + split; [discriminate|]. intros F. inversion F as [|? ? [F1 F2] _]. simpl in F1, F2.
      apply orb_prop in E. destruct E as [E|E]; apply Z.ltb_lt in E; lia.
    + discriminate.
  - destruct (smdp_run (Some a, Some b) t) as [l' e'] eqn:R'. inversion R. subst.
    destruct (smdp_run_fixed t a b l' e R') as (A & B & C & D).
    apply orb_false_elim in E. destruct E as [E1 E2]. apply Z.ltb_ge in E1. apply Z.ltb_ge in E2.
    split; [constructor; auto|]. split.
    + rewrite C. split; intros F.
      * constructor; [split; simpl; lia | exact F].
      * inversion F; assumption.
    + intros X. simpl. rewrite (D X). reflexivity.
Qed.

Lemma smdp_axis_registered : forall n out x,
  err (smdp_axis n out) x == 0 /\ content_lo (smdp_axis n out) == - (1 # 2) /\
  content_hi (smdp_axis n out) == zq n - (1 # 2).
Proof.
  intros. unfold err, content_lo, content_hi, smdp_axis. simpl. rewrite !ap_aid.
  split; [ring|]. split; reflexivity.
Qed.

(* ------------------------------------------------------------------ InstanceCropper *)
Lemma cropper_length : forall H W h w num items,
  length (instance_cropper H W h w num items) = Nat.min num (length items).
Proof. intros. unfold instance_cropper. rewrite map_length, firstn_length. reflexivity. Qed.

Lemma cropper_nth : forall H W h w num items i it,
  (i < num)%nat -> nth_error items i = Some it ->
  nth_error (instance_cropper H W h w num items) i = Some (crop_item H W h w it).
Proof.
  intros H W h w num items i it Hi Hn. unfold instance_cropper.
  rewrite nth_error_map.
  assert (nth_error (firstn num items) i = Some it).
  { revert items i Hi Hn. induction num as [|k IH]; intros items i Hi Hn; [lia|].
    destruct items as [|a l]; [destruct i; discriminate|]. destruct i as [|i]; simpl in *; [assumption|].
    apply IH; [lia | assumption]. }
  rewrite H0. reflexivity.
Qed.

(* each crop: keypoints and image content both move by minus the box's first corner, the
   centroid lands on the crop centre *)
Lemma crop_item_registered : forall H W h w cx cy pts, (1 < h)%Z -> (1 < w)%Z ->
  let sx := crop_axis cx W w in let sy := crop_axis cy H h in
  fst (crop_item H W h w ((cx, cy), pts)) = map (step_kp sx sy) pts /\
  snd (crop_item H W h w ((cx, cy), pts)) = Some (ap (kmap sx) cx, ap (kmap sy) cy) /\
  ap (kmap sx) cx == (zq w - 1) / 2 /\ ap (kmap sy) cy == (zq h - 1) / 2 /\
  (forall x, err sx x == 0) /\ (forall y, err sy y == 0).
Proof.
  intros H W h w cx cy pts Hh Hw sx sy. subst sx sy. unfold crop_item.
  split; [reflexivity|]. split; [reflexivity|].
  split; [apply crop_centre; assumption|]. split; [apply crop_centre; assumption|].
  split; intros; apply err_crop; assumption.
Qed.

(* ------------------------------------------------------------------ augmentation stacks *)
Lemma stack_kp_mats : forall entries p,
  stack_kp entries p = fold_left (fun q m => apply_mat m q) (applied_mats entries) p.
Proof.
  unfold stack_kp, applied_mats. induction entries as [|[o a] t IH]; intros p; [reflexivity|].
  cbn [fold_left flat_map]. rewrite IH.
  destruct o; destruct a; cbn [op_kp app fold_left]; try reflexivity.
Qed.

Definition moves (e : aug_op * bool) : bool :=
  match e with (OpAffine _, true) => true | _ => false end.

Lemma applied_mats_none : forall entries, forallb (fun e => negb (moves e)) entries = true ->
  applied_mats entries = [].
Proof.
  induction entries as [|[o a] t IH]; intros F; [reflexivity|].
  simpl in F. apply andb_prop in F. destruct F as [F1 F2]. unfold applied_mats in *. cbn [flat_map].
  rewrite (IH F2). destruct o; destruct a; try reflexivity. discriminate.
Qed.

(* no applied affine operation in the stack (intensity-only stacks; erase / mixup; an affine
   whose draw said "not applied"): every keypoint is returned as it was given *)
Lemma stack_no_affine : forall entries p,
  forallb (fun e => negb (moves e)) entries = true -> stack_kp entries p = p.
Proof. intros. rewrite stack_kp_mats, applied_mats_none by assumption. reflexivity. Qed.

(* exactly one applied affine (the code's stacks hold at most one RandomAffine): the keypoints
   get its matrix, whatever else is in the stack before or after it *)
Lemma stack_one_affine : forall pre m post p,
  forallb (fun e => negb (moves e)) pre = true -> forallb (fun e => negb (moves e)) post = true ->
  stack_kp (pre ++ (OpAffine m, true) :: post) p = apply_mat m p.
Proof.
  intros. rewrite stack_kp_mats. unfold applied_mats. rewrite flat_map_app. cbn [flat_map].
  fold (applied_mats pre). fold (applied_mats post).
  rewrite (applied_mats_none pre), (applied_mats_none post) by assumption. reflexivity.
Qed.

Lemma build_stack_in : forall cfg o, In o (build_stack cfg) -> exists p, In (o, p) cfg /\ 0 < p.
Proof.
  intros cfg o Hin. unfold build_stack in Hin. apply in_map_iff in Hin.
  destruct Hin as ([o' p] & E & F). simpl in E. subst o'. apply filter_In in F. destruct F as [F1 F2].
  exists p. split; [assumption|]. simpl in F2. apply negb_true_iff in F2. apply Qle_bool_false in F2. exact F2.
Qed.

(* ------------------------------------------------------------------ crop size covers the crop *)
Lemma midpoint_dist : forall l a, In a l ->
  Qabs (a - midpoint l) <= extent l / 2.
Proof.
  intros [|h t] a Ha; [destruct Ha|]. unfold midpoint, extent.
  destruct (fold_max_ge t h) as [M1 M2]. destruct (fold_min_le t h) as [N1 N2].
  assert (a <= fold_left Qmax t h) by (destruct Ha as [<-|Ha]; auto).
  assert (fold_left Qmin t h <= a) by (destruct Ha as [<-|Ha]; auto).
  set (M := fold_left Qmax t h) in *. set (m := fold_left Qmin t h) in *.
  assert (E1: (M + m) / 2 == (M + m) * (1 # 2)) by field.
  assert (E2: (M - m) / 2 == (M - m) * (1 # 2)) by field.
  rewrite E1, E2. apply Qabs_case; intros _; lra.
Qed.

Lemma vis_xs_in : forall inst x y, In (Some (x, y)) inst -> In x (vis_xs inst) /\ In y (vis_ys inst).
Proof.
  intros inst x y Hin. unfold vis_xs, vis_ys. split; apply in_flat_map; exists (Some (x, y)); simpl; auto.
Qed.

(* find_instance_crop_size (computed branch, padding >= 0) really covers: a crop of that size
   centred on the bounding-box midpoint of the (scaled) visible keypoints — the centroid the
   datasets use when anchor_part is None — contains every visible keypoint of every instance,
   on both axes *)
Lemma crop_size_contains : forall insts padding stride scale min_crop n_in inst x y,
  (0 < stride)%Z -> (0 <= padding)%Z ->
  ~ ((0 < dflt 0 min_crop)%Z /\ (dflt 0 min_crop mod stride = 0)%Z) ->
  In inst insts -> In (Some (x, y)) inst ->
  let r := find_instance_crop_size insts padding stride scale min_crop in
  let cx := midpoint (map (Qmult scale) (vis_xs inst)) in
  let cy := midpoint (map (Qmult scale) (vis_ys inst)) in
  (1 < r)%Z ->
  in_extent r (ap (kmap (crop_axis cx n_in r)) (scale * x)) /\
  in_extent r (ap (kmap (crop_axis cy n_in r)) (scale * y)).
Proof.
  intros insts padding stride scale min_crop n_in inst x y Hs Hp Hn Hi Hk r cx cy Hr.
  destruct (crop_size_computed insts padding stride scale min_crop Hs Hn) as (_ & _ & _ & Cov & _).
  specialize (Cov inst Hi). fold r in Cov.
  destruct (vis_xs_in inst x y Hk) as [Ix Iy].
  assert (Dx: Qabs (scale * x - cx) <= extent (map (Qmult scale) (vis_xs inst)) / 2).
  { apply midpoint_dist. apply in_map_iff. exists x. split; [reflexivity | assumption]. }
  assert (Dy: Qabs (scale * y - cy) <= extent (map (Qmult scale) (vis_ys inst)) / 2).
  { apply midpoint_dist. apply in_map_iff. exists y. split; [reflexivity | assumption]. }
  unfold inst_length in Cov.
  pose proof (Qmax_l (extent (map (Qmult scale) (vis_xs inst))) (extent (map (Qmult scale) (vis_ys inst)))).
  pose proof (Qmax_r (extent (map (Qmult scale) (vis_xs inst))) (extent (map (Qmult scale) (vis_ys inst)))).
  pose proof (le_zq 0 padding Hp). change (zq 0) with 0 in H1.
  set (ex := extent (map (Qmult scale) (vis_xs inst))) in *.
  set (ey := extent (map (Qmult scale) (vis_ys inst))) in *.
  assert (Hx2: ex / 2 == ex * (1 # 2)) by field. assert (Hy2: ey / 2 == ey * (1 # 2)) by field.
  rewrite Hx2 in Dx. rewrite Hy2 in Dy.
  assert (Ax: - (zq r * (1 # 2)) <= scale * x - cx /\ scale * x - cx <= zq r * (1 # 2)).
  { revert Dx. apply Qabs_case; intros; lra. }
  assert (Ay: - (zq r * (1 # 2)) <= scale * y - cy /\ scale * y - cy <= zq r * (1 # 2)).
  { revert Dy. apply Qabs_case; intros; lra. }
  unfold in_extent.
  destruct (crop_maps cx n_in r (scale * x) Hr) as [_ Kx]. destruct (crop_maps cy n_in r (scale * y) Hr) as [_ Ky].
  rewrite Kx, Ky. unfold bbox_axis. cbn [fst].
  assert (zq r / 2 == zq r * (1 # 2)) by field. rewrite H2. split; split; lra.
Qed.

(* ------------------------------------------------------------------ witnesses *)
Lemma ex_smdp_w :
  smdp_run (None, Some 40%Z) [(20, 30); (18, 40); (25, 10)]%Z = ([(20, 40); (20, 40)]%Z, true).
Proof. vm_compute. reflexivity. Qed.

Lemma ex_crop_valid_w :
  crop_valid (- (5 # 2)) 20 8 = (3, 7)%Z /\ crop_zero_below (- (5 # 2)) = 1%Z /\
  crop_valid 16 20 8 = (0, 3)%Z /\ crop_zero_above 16 20 = 4%Z.
Proof. vm_compute. auto. Qed.

Lemma ex_stack_w :
  stack_kp [(OpAffine ((2, 0, 1), (0, 2, 1)), true); (OpErase, true); (OpMixup, true)] (Some (3, 4)) = Some (2 * 3 + 0 * 4 + 1, 0 * 3 + 2 * 4 + 1) /\
  stack_kp [(OpAffine ((2, 0, 1), (0, 2, 1)), false); (OpErase, true)] (Some (3, 4)) = Some (3, 4) /\
  build_stack [(OpAffine mat_id, 0); (OpErase, 1); (OpMixup, 1 # 2)] = [OpErase; OpMixup].
Proof. vm_compute. auto. Qed.

Lemma ex_crop_contains_w :
  find_instance_crop_size [[Some (10, 20); None; Some (130, 40)]] 16 16 1 None = 144%Z.
Proof. vm_compute. reflexivity. Qed.

Lemma ex_pipe_padding_w :
  exists p, pipe_full 50 17 (Some 140%Z) (Some 60%Z) (1 # 2) 16 = Some p /\
    content_lo (px p) == - (1 # 2) /\ osize (px p) = 32%Z /\ osize (py p) = 80%Z.
Proof. eexists. split; [vm_compute; reflexivity|]. split; [vm_compute; reflexivity|]. split; vm_compute; reflexivity. Qed.

(* ------------------------------------------------------------------ frame cache (several videos) *)
(* whatever key the decoded frame is filed under: as long as different labelled-frame positions
   get different keys, every sample is cut from the image of its OWN labelled frame, from any
   consistent cache state, for any order of (position, instance) entries *)
Lemma cache_images_own : forall key, (forall p q, key p = key q -> p = q) ->
  forall idx st, cache_ok key st -> cache_images key st idx = map fst idx.
Proof.
  intros key Hinj. induction idx as [|[p j] t IH]; intros st Hok; [reflexivity|].
  cbn [cache_images map fst]. unfold cache_read. destruct st as [[k img]|].
  - destruct (Nat.eqb (key p) k) eqn:E.
    + apply Nat.eqb_eq in E. simpl in Hok. subst k. apply Hinj in E. subst img.
      f_equal. apply IH. simpl. reflexivity.
    + f_equal. apply IH. simpl. reflexivity.
  - f_equal. apply IH. simpl. reflexivity.
Qed.

Lemma cache_images_position : forall idx,
  cache_images (fun p => p) None idx = map fst idx.
Proof. intros. apply cache_images_own; [auto|exact I]. Qed.

Lemma instance_index_gen : forall l a p j,
  In (p, j) (flat_map (fun pf => map (pair (fst pf)) (seq 0 (lf_ninst (snd pf))))
                      (combine (seq a (length l)) l)) <->
  (a <= p)%nat /\ exists f, nth_error l (p - a) = Some f /\ (j < lf_ninst f)%nat.
Proof.
  induction l as [|f t IH]; intros a p j.
  - simpl. split; [tauto|]. intros [_ [f [H _]]]. destruct (p - a)%nat; discriminate.
  - cbn [length seq combine flat_map]. rewrite in_app_iff, IH. cbn [fst snd]. split.
    + intros [H|[Hle [g [Hn Hj]]]].
      * apply in_map_iff in H. destruct H as [j' [E Hin]]. inversion E; subst.
        apply in_seq in Hin. split; [lia|]. exists f. rewrite Nat.sub_diag. simpl. split; [reflexivity|lia].
      * split; [lia|]. exists g. replace (p - a)%nat with (S (p - S a)) by lia. simpl. auto.
    + intros [Hle [g [Hn Hj]]]. destruct (Nat.eq_dec p a) as [->|Hne].
      * left. rewrite Nat.sub_diag in Hn. simpl in Hn. inversion Hn; subst.
        apply in_map. apply in_seq. lia.
      * right. split; [lia|]. exists g. replace (p - a)%nat with (S (p - S a)) in Hn by lia. simpl in Hn. auto.
Qed.

Lemma instance_index_spec : forall labels p j,
  In (p, j) (instance_index labels) <->
  exists f, nth_error labels p = Some f /\ (j < lf_ninst f)%nat.
Proof.
  intros. unfold instance_index. rewrite instance_index_gen. rewrite Nat.sub_0_r. split.
  - intros [_ H]. exact H.
  - intros H. split; [lia|exact H].
Qed.

Lemma frame_cache_by_frame_idx_w :
  let labels := [(0, 0, 1); (1, 0, 2)]%nat in
  cache_images (key_frame_idx labels) None (instance_index labels) = [0; 0; 0]%nat /\
  map fst (instance_index labels) = [0; 1; 1]%nat.
Proof. vm_compute. auto. Qed.

Lemma frame_cache_by_frame_idx_refuted : exists labels,
  cache_images (key_frame_idx labels) None (instance_index labels) <> map fst (instance_index labels).
Proof.
  exists [(0, 0, 1); (1, 0, 2)]%nat. destruct frame_cache_by_frame_idx_w as [A B].
  cbv zeta in A, B. rewrite A, B. discriminate.
Qed.

Lemma ex_frame_cache_w :
  run (CFrameCache true [(0, 0, 2); (1, 0, 1); (0, 1, 1)]%nat)
  = Some ([0; 0; 0; 0;  0; 1; 0; 0;  1; 0; 1; 0;  2; 0; 0; 1]%Z, [], []).
Proof. vm_compute. reflexivity. Qed.
