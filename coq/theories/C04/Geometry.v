(* Geometry.v (C04) — executable model of the geometric preprocessing of
   sleap_nn/data/{resizing,instance_cropping,augmentation,custom_datasets}.py
   (no proofs in this file).

   Conventions.  Pixel (row i, column j) has its CENTRE at (x,y) = (j,i); an
   image of n pixels along an axis covers the extent [-1/2, n-1/2].  All
   steps except the kornia augmentation act on the two axes separately, so a
   step is modelled per axis as

        astep = (content map A, keypoint map K, input size, output size)

   with A, K affine maps Q -> Q:  A says where the *image content* that was
   at input position x is found in the output (what the interpolation kernel
   does), K says what the code does to a keypoint coordinate.  Registration
   error of a step at x:  err x = A x - K x   (output pixels).

   What each piece of code does (determined by reading + ramp-image
   measurements, see harness/props/c04.py):
     * torchvision.transforms.v2.functional.resize(size=[h,w]) (bilinear,
       antialias, align_corners=False): half-pixel-centre convention with the
       ACTUAL size ratio  a = new/old:   A x = a (x + 1/2) - 1/2 = a x + (a-1)/2
     * apply_resizer:     new = int(n * scale) (floor),  K x = scale * x
     * apply_sizematcher: eff = min(max_h/H, max_w/W) (hratio > wratio picks
       wratio), target = int(round(n * eff)) — Python round = half-to-even —
       on BOTH axes, zero pad at the bottom/right up to (max_h, max_w);
       the callers do  instances * eff
     * apply_pad_to_stride: pad = (s - n mod s) mod s at the bottom/right
       when max_stride > 1; keypoints untouched
     * make_centered_bboxes / generate_crops: corners  c -/+ n/2 +/- 1/2,
       kornia crop_and_resize maps the corner x1 to output 0 and x2 to n-1
       (align_corners=True), keypoints minus the top-left corner
     * CenteredInstanceDataset: crop of int(crop * sqrt 2) about the centroid,
       (augmentation), re-crop of crop_hw about the (un-augmented) centre,
       stride padding
   NaN / missing keypoints are `None`. *)
From Coq Require Import List ZArith QArith Qround Qabs Bool.
Import ListNotations.
Open Scope Q_scope.

Definition kp := option (Q * Q).
Definition zq (z : Z) : Q := inject_Z z.

(* ---------------------------------------------------------------- affine maps *)
Record aff := mkAff { sl : Q; off : Q }.
Definition ap (m : aff) (x : Q) : Q := sl m * x + off m.
Definition comp (g f : aff) : aff := mkAff (sl g * sl f) (sl g * off f + off g).   (* g after f *)
Definition aid : aff := mkAff 1 0.
Definition hp (s : Q) : aff := mkAff s ((s - 1) / 2).     (* half-pixel-centre resampling *)
Definition scl (k : Q) : aff := mkAff k 0.
Definition shift (t : Q) : aff := mkAff 1 (- t).

Record astep := mkStep { cmap : aff; kmap : aff; isize : Z; osize : Z }.
Definition then_ (f g : astep) : astep :=
  mkStep (comp (cmap g) (cmap f)) (comp (kmap g) (kmap f)) (isize f) (osize g).
Definition id_step (n : Z) : astep := mkStep aid aid n n.
Definition err (s : astep) (x : Q) : Q := ap (cmap s) x - ap (kmap s) x.

(* ---------------------------------------------------------------- rounding *)
(* Python 3 round(): nearest integer, ties to even *)
Definition py_round (q : Q) : Z :=
  let f := Qfloor q in
  match Qcompare (q - zq f) (1 # 2) with
  | Lt => f
  | Gt => (f + 1)%Z
  | Eq => if Z.even f then f else (f + 1)%Z
  end.

(* ---------------------------------------------------------------- size matcher *)
Record sm_result := mkSm { sm_th : Z; sm_tw : Z; sm_oh : Z; sm_ow : Z; sm_eff : Q }.

Definition dflt (n : Z) (o : option Z) : Z := match o with Some m => m | None => n end.

(* None = tvf.resize raises (a fitted side rounds to 0 px) *)
Definition sizematcher (H W : Z) (mh mw : option Z) : option sm_result :=
  let mh' := dflt H mh in
  let mw' := dflt W mw in
  if (H =? mh')%Z && (W =? mw')%Z then Some (mkSm H W H W 1)
  else
    let hr := zq mh' / zq H in
    let wr := zq mw' / zq W in
    let eff := if Qlt_le_dec wr hr then wr else hr in
    let th := py_round (zq H * eff) in
    let tw := py_round (zq W * eff) in
    if (th <=? 0)%Z || (tw <=? 0)%Z then None
    else Some (mkSm th tw (th + (mh' - th)) (tw + (mw' - tw)) eff).

(* one axis of the size matcher: resample n -> target, keypoints * eff, pad to out *)
Definition sm_axis (n target out : Z) (eff : Q) : astep :=
  mkStep (hp (zq target / zq n)) (scl eff) n out.

(* ---------------------------------------------------------------- resizer *)
Definition resizer_size (n : Z) (s : Q) : Z :=
  if Qeq_bool s 1 then n else Qfloor (zq n * s).

Definition resize_axis (n : Z) (s : Q) : astep :=
  if Qeq_bool s 1 then id_step n
  else mkStep (hp (zq (resizer_size n s) / zq n)) (scl s) n (resizer_size n s).

(* the generic resampling step used in the theorems: n -> new pixels, keypoints * k *)
Definition resample (n new : Z) (k : Q) : astep := mkStep (hp (zq new / zq n)) (scl k) n new.

(* ---------------------------------------------------------------- stride padding *)
Definition stride_pad (n s : Z) : Z := if (1 <? s)%Z then ((s - n mod s) mod s)%Z else 0%Z.
Definition pad_axis (n s : Z) : astep := mkStep aid aid n (n + stride_pad n s).

(* ---------------------------------------------------------------- crops *)
(* make_centered_bboxes, one axis: (first corner, last corner) *)
Definition bbox_axis (c : Q) (n : Z) : Q * Q :=
  (c - zq n / 2 + (1 # 2), c + zq n / 2 - (1 # 2)).

(* crop_and_resize(box -> n pixels), align_corners=True: x1 -> 0, x2 -> n-1;
   keypoints minus the first corner *)
Definition crop_from_box (x1 x2 : Q) (n_in n : Z) : astep :=
  let a := (zq n - 1) / (x2 - x1) in
  mkStep (mkAff a (- (a * x1))) (shift x1) n_in n.

Definition crop_axis (c : Q) (n_in n : Z) : astep :=
  let '(x1, x2) := bbox_axis c n in crop_from_box x1 x2 n_in n.

(* int(crop * sqrt 2) = floor (sqrt (2 crop^2)) *)
Definition overcrop_size (c : Z) : Z := Z.sqrt (2 * c * c).

(* ---------------------------------------------------------------- keypoints *)
Definition map_kp (fx fy : Q -> Q) (p : kp) : kp :=
  match p with None => None | Some (x, y) => Some (fx x, fy y) end.
Definition step_kp (sx sy : astep) : kp -> kp := map_kp (ap (kmap sx)) (ap (kmap sy)).

(* ---------------------------------------------------------------- pipelines *)
(* BottomUp / SingleInstance / Centroid datasets: size matcher, resizer, stride pad.
   Result: (x-axis step, y-axis step, all sizes exact?) *)
Definition exactb (n new : Z) (k : Q) : bool := Qeq_bool (zq new) (zq n * k).

(* pnx, pny : the ORIGINAL image sides (W, H); pdx, pdy : the SIZE DEFECT of each axis in output
   pixels = (actual side of the resized content, target * new / padded) - (original side * nominal
   factor eff*scale): what the rounding of the two sizes (nearest for the size matcher, floor for the
   resizer) adds or removes; 0 when every size is exact *)
Record pipe := mkPipe { px : astep; py : astep; pexact : bool; pfactor : Q;
                        pnx : Z; pny : Z; pdx : Q; pdy : Q }.
Definition size_defect (n target out new : Z) (k : Q) : Q := zq target * zq new / zq out - zq n * k.

Definition pipe_pre (H W : Z) (mh mw : option Z) (s : Q) : option pipe :=
  match sizematcher H W mh mw with
  | None => None
  | Some r =>
      let nh := resizer_size (sm_oh r) s in
      let nw := resizer_size (sm_ow r) s in
      if (nh <=? 0)%Z || (nw <=? 0)%Z then None
      else Some (mkPipe
        (then_ (sm_axis W (sm_tw r) (sm_ow r) (sm_eff r)) (resize_axis (sm_ow r) s))
        (then_ (sm_axis H (sm_th r) (sm_oh r) (sm_eff r)) (resize_axis (sm_oh r) s))
        (exactb W (sm_tw r) (sm_eff r) && exactb H (sm_th r) (sm_eff r) &&
         exactb (sm_ow r) nw s && exactb (sm_oh r) nh s)
        (sm_eff r * s) W H
        (size_defect W (sm_tw r) (sm_ow r) nw (sm_eff r * s))
        (size_defect H (sm_th r) (sm_oh r) nh (sm_eff r * s)))
  end.

Definition pipe_full (H W : Z) (mh mw : option Z) (s : Q) (stride : Z) : option pipe :=
  match pipe_pre H W mh mw s with
  | None => None
  | Some p => Some (mkPipe (then_ (px p) (pad_axis (osize (px p)) stride))
                           (then_ (py p) (pad_axis (osize (py p)) stride))
                           (pexact p) (pfactor p) (pnx p) (pny p) (pdx p) (pdy p))
  end.

(* CenteredInstanceDataset without augmentation; (cx,cy) = centroid in ORIGINAL
   image coordinates (anchor keypoint / bbox midpoint: both commute with the
   keypoint maps), crop_hw = (ch, cw) *)
Definition recrop (pre : astep) (c0 : Q) (crop stride : Z) : astep :=
  let c1 := ap (kmap pre) c0 in
  let over := crop_axis c1 (osize pre) (overcrop_size crop) in
  let c2 := ap (kmap over) c1 in
  then_ (then_ (then_ pre over) (crop_axis c2 (overcrop_size crop) crop)) (pad_axis crop stride).

Definition pipe_centered (H W : Z) (mh mw : option Z) (s : Q) (stride : Z)
  (ch cw : Z) (cx cy : Q) : option pipe :=
  match pipe_pre H W mh mw s with
  | None => None
  | Some p => Some (mkPipe (recrop (px p) cx cw stride) (recrop (py p) cy ch stride)
                           (pexact p) (pfactor p) (pnx p) (pny p) (pdx p) (pdy p))
  end.

(* selectors of the known findings (see Props.v / notes), stated in terms of SIZES and POSITION only
   (no reference to the error of the modelled maps: that they bound the error is the theorem
   c04_registration_partial_*, that they are exactly the failure set is c04_selector_F11b_exact):
     F11  : the cumulative keypoint factor k = eff_scale * scale is >= 3
     F11b : some output size was rounded, k < 3, and on one axis the keypoint lies in the BAND
              d * t >= (3 - k)/2   or   d * t <= -(1 + k)/2
            d = size defect of the axis (pdx / pdy), t = (x + 1/2)/n in [0,1] = relative position of the
            keypoint along the original side.  The band is an interval of t that ends at the far edge
            t = 1 and never contains the near edge t = 0 (c04_band_far_edge_interval); it is empty unless
            |d| >= min (3-k, 1+k)/2. *)
Definition relpos (n : Z) (x : Q) : Q := (x + (1 # 2)) / zq n.
Definition band (d k t : Q) : bool :=
  Qle_bool ((3 - k) * (1 # 2)) (d * t) || Qle_bool (d * t) (- ((1 + k) * (1 # 2))).
(* closed form of the pipeline's registration error (theorem c04_pipe_*_error_formula) *)
Definition perr (d k : Q) (n : Z) (x : Q) : Q := d * relpos n x + (k - 1) / 2.
Definition selector_F11 (p : pipe) : bool := Qle_bool 3 (pfactor p).
Definition selector_F11b (p : pipe) (x y : Q) : bool :=
  negb (pexact p) && negb (Qle_bool 3 (pfactor p)) &&
  (band (pdx p) (pfactor p) (relpos (pnx p) x) || band (pdy p) (pfactor p) (relpos (pny p) y)).

(* ---------------------------------------------------------------- augmentation wrapper *)
(* instances.reshape(n, -1, 2) -> kornia -> reshape back to inst_shape: list model *)
Fixpoint unflatten {A} (n k : nat) (l : list A) : list (list A) :=
  match k with
  | O => []
  | S k' => firstn n l :: unflatten n k' (skipn n l)
  end.

Definition aug_wrapper (f : list kp -> list kp) (n_nodes : nat) (insts : list (list kp))
  : list (list kp) := unflatten n_nodes (length insts) (f (concat insts)).

(* a 2x3 affine matrix ((a,b,tx),(c,d,ty)) applied to a keypoint *)
Definition mat := ((Q * Q * Q) * (Q * Q * Q))%type.
Definition apply_mat (m : mat) (p : kp) : kp :=
  let '((a, b, tx), (c, d, ty)) := m in
  match p with None => None | Some (x, y) => Some (a * x + b * y + tx, c * x + d * y + ty) end.
Definition mat_id : mat := ((1, 0, 0), (0, 1, 0)).

Definition mat_comp (g f : mat) : mat :=
  let '((a, b, tx), (c, d, ty)) := g in
  let '((a', b', tx'), (c', d', ty')) := f in
  ((a * a' + b * c', a * b' + b * d', a * tx' + b * ty' + tx),
   (c * a' + d * c', c * b' + d * d', c * tx' + d * ty' + ty)).

(* Where kornia's RandomAffine puts the image CONTENT when the sampled matrix (the one
   applied to the keypoints, read back by the harness) is m and the image is H x W.
   RandomAffine's default align_corners=False makes warp_affine normalise the matrix
   with the (n-1) convention but sample with the n convention: the image is warped by
   D m D^-1 with D x = n/(n-1) x - 1/2 per axis (measured on ramps; exact for square
   images up to the centre displacement / (n-1), off by |sin|*|W-H|/(2(min-1)) px at
   the corners of a rotated non-square image: finding F04k).  With the proposed fix
   (align_corners=True) the image is warped by m itself: fixed_F04k = true. *)
Definition kornia_D (H W : Z) : mat :=
  ((zq W / (zq W - 1), 0, - (1 # 2)), (0, zq H / (zq H - 1), - (1 # 2))).
Definition kornia_Dinv (H W : Z) : mat :=
  (((zq W - 1) / zq W, 0, (zq W - 1) / (2 * zq W)),
   (0, (zq H - 1) / zq H, (zq H - 1) / (2 * zq H))).
Definition warp_content (fixed_F04k : bool) (H W : Z) (m : mat) : mat :=
  if fixed_F04k then m else mat_comp (kornia_D H W) (mat_comp m (kornia_Dinv H W)).

Definition mat_xy (m : mat) (x y : Q) : Q * Q :=
  let '((a, b, tx), (c, d, ty)) := m in (a * x + b * y + tx, c * x + d * y + ty).
(* content position minus keypoint position, per axis *)
Definition aug_err (fixed_F04k : bool) (H W : Z) (m : mat) (x y : Q) : Q * Q :=
  let '(cx, cy) := mat_xy (warp_content fixed_F04k H W m) x y in
  let '(kx, ky) := mat_xy m x y in (cx - kx, cy - ky).
Definition selector_F04k (H W : Z) (m : mat) (x y : Q) : bool :=
  let '(ex, ey) := aug_err false H W m x y in
  Qle_bool (9 # 10) (Qabs ex) || Qle_bool (9 # 10) (Qabs ey).

(* kornia's warp_affine MECHANISM (what RandomAffine.apply_transform runs): the pixel matrix m is
   normalised with the (n-1) convention (normalize_homography: N x = 2x/(n-1) - 1 per axis), inverted,
   turned into a sampling grid by F.affine_grid(align_corners) and read by F.grid_sample(align_corners);
   output pixel j has grid coordinate S j with  S j = 2j/(n-1) - 1 (align_corners=True, = N)  or
   S j = (2j+1)/n - 1 (False).  The image content therefore moves by  S^-1 (N m N^-1) S.
   align = true is what /repo calls (both apply_geometric_augmentation and KorniaAugmenter since the
   fixes 6a3da1d / c812d23); align = false is kornia's default (the pinned tree: findings F04k / F04p).
   warp_mech is what `run (CAugContent ...)` evaluates; c04_warp_mech_aligned / _default relate it to
   m and to D m D^-1 (warp_content false).  Sides of 1 px are excluded (2/(n-1) is not defined). *)
Definition norm_mat (H W : Z) : mat := ((2 / (zq W - 1), 0, - (1)), (0, 2 / (zq H - 1), - (1))).
Definition norm_inv (H W : Z) : mat :=
  (((zq W - 1) / 2, 0, (zq W - 1) / 2), (0, (zq H - 1) / 2, (zq H - 1) / 2)).
Definition samp_mat (align : bool) (H W : Z) : mat :=
  if align then norm_mat H W
  else ((2 / zq W, 0, 1 / zq W - 1), (0, 2 / zq H, 1 / zq H - 1)).
Definition samp_inv (align : bool) (H W : Z) : mat :=
  if align then norm_inv H W
  else ((zq W / 2, 0, (zq W - 1) / 2), (0, zq H / 2, (zq H - 1) / 2)).
Definition warp_mech (align : bool) (H W : Z) (m : mat) : mat :=
  mat_comp (samp_inv align H W)
           (mat_comp (mat_comp (norm_mat H W) (mat_comp m (norm_inv H W))) (samp_mat align H W)).
Definition aug_err_mech (align : bool) (H W : Z) (m : mat) (x y : Q) : Q * Q :=
  let '(cx, cy) := mat_xy (warp_mech align H W m) x y in
  let '(kx, ky) := mat_xy m x y in (cx - kx, cy - ky).

(* ---------------------------------------------------------------- pipeline followed by geometric augmentation *)
(* Dataset.__getitem__ with apply_aug: the geometric augmentation acts on the image the pipeline has
   produced so far and on the keypoints the pipeline has produced so far:
     BottomUp / SingleInstance / Centroid : size matcher -> resizer -> stride pad -> AUGMENTATION
     CenteredInstance : size matcher -> resizer -> over-crop -> AUGMENTATION -> re-crop about the
                        (un-augmented) centroid -> stride pad
   m is the sampled matrix (in the pixel coordinates of the image it acts on); `align` as above.
   Results are positions in the FINAL sample for a point (x, y) of the ORIGINAL frame. *)
Definition lin_apply (m : mat) (ex ey : Q) : Q * Q :=
  let '((a, b, _), (c, d, _)) := m in (a * ex + b * ey, c * ex + d * ey).
Definition full_aug_content (align : bool) (p : pipe) (m : mat) (x y : Q) : Q * Q :=
  mat_xy (warp_mech align (osize (py p)) (osize (px p)) m) (ap (cmap (px p)) x) (ap (cmap (py p)) y).
Definition full_aug_kp (p : pipe) (m : mat) (x y : Q) : Q * Q :=
  mat_xy m (ap (kmap (px p)) x) (ap (kmap (py p)) y).

(* the two halves of `recrop`: up to the over-crop (where the augmentation acts), and from there on *)
Definition over_stage (pre : astep) (c0 : Q) (crop : Z) : astep :=
  then_ pre (crop_axis (ap (kmap pre) c0) (osize pre) (overcrop_size crop)).
Definition recrop_stage (pre : astep) (c0 : Q) (crop stride : Z) : astep :=
  let c2 := ap (kmap (over_stage pre c0 crop)) c0 in
  then_ (crop_axis c2 (overcrop_size crop) crop) (pad_axis crop stride).
Definition centered_aug_content (align : bool) (prex prey : astep) (cx cy : Q) (ch cw stride : Z)
  (m : mat) (x y : Q) : Q * Q :=
  let q := mat_xy (warp_mech align (overcrop_size ch) (overcrop_size cw) m)
                  (ap (cmap (over_stage prex cx cw)) x) (ap (cmap (over_stage prey cy ch)) y) in
  (ap (cmap (recrop_stage prex cx cw stride)) (fst q), ap (cmap (recrop_stage prey cy ch stride)) (snd q)).
Definition centered_aug_kp (prex prey : astep) (cx cy : Q) (ch cw stride : Z) (m : mat) (x y : Q) : Q * Q :=
  let q := mat_xy m (ap (kmap (over_stage prex cx cw)) x) (ap (kmap (over_stage prey cy ch)) y) in
  (ap (kmap (recrop_stage prex cx cw stride)) (fst q), ap (kmap (recrop_stage prey cy ch stride)) (snd q)).

(* finding F11c: the pipeline's offset (under one pixel: outside F11 and F11b) is multiplied by the
   linear part of the augmentation matrix and reaches one pixel on some axis.  Stated through the
   closed form `perr` of the pipeline error (sizes, factor, position) and the matrix entries only. *)
Definition selector_F11c (p : pipe) (m : mat) (x y : Q) : bool :=
  negb (selector_F11 p) && negb (selector_F11b p x y) &&
  (let '(ex, ey) := lin_apply m (perr (pdx p) (pfactor p) (pnx p) x) (perr (pdy p) (pfactor p) (pny p) y) in
   Qle_bool 1 (Qabs ex) || Qle_bool 1 (Qabs ey)).

(* ---------------------------------------------------------------- find_instance_crop_size *)
Definition Qmax (a b : Q) : Q := if Qle_bool a b then b else a.
Definition Qmin (a b : Q) : Q := if Qle_bool a b then a else b.
Definition Qceil (q : Q) : Z := (- Qfloor (- q))%Z.

Definition vis_xs (inst : list kp) : list Q :=
  flat_map (fun p => match p with Some (x, _) => [x] | None => [] end) inst.
Definition vis_ys (inst : list kp) : list Q :=
  flat_map (fun p => match p with Some (_, y) => [y] | None => [] end) inst.

(* nanmax - nanmin, 0 when everything is NaN *)
Definition extent (l : list Q) : Q :=
  match l with
  | [] => 0
  | a :: t => fold_left Qmax t a - fold_left Qmin t a
  end.

Definition inst_length (scale : Q) (inst : list kp) : Q :=
  Qmax (extent (map (Qmult scale) (vis_xs inst))) (extent (map (Qmult scale) (vis_ys inst))).

Definition find_instance_crop_size (insts : list (list kp)) (padding stride : Z) (scale : Q)
  (min_crop : option Z) : Z :=
  let mc := dflt 0 min_crop in
  if (0 <? mc)%Z && (mc mod stride =? 0)%Z then mc
  else
    let nopad := zq (mc - padding) in
    let ml := fold_left (fun acc inst => Qmax (Qmax acc (inst_length scale inst)) nopad) insts 0 in
    (Qceil ((ml + zq padding) / zq stride) * stride)%Z.

(* ---------------------------------------------------------------- content extent / zero fill *)
(* where the input image's extent [-1/2, n-1/2] lands in the output of a step: everything
   outside [content_lo, content_hi] is padding.  "Padding only at the bottom / right" =
   content_lo = -1/2 (nothing inserted before the first pixel) and content_hi <= osize - 1/2
   (nothing cut off) *)
Definition content_lo (s : astep) : Q := ap (cmap s) (- (1 # 2)).
Definition content_hi (s : astep) : Q := ap (cmap s) (zq (isize s) - (1 # 2)).

(* kornia crop_and_resize samples bilinearly with ZERO padding: output pixel j of a crop whose
   first corner is x1 shows the source position x1 + j.  It carries image content iff
   0 <= x1 + j <= n_in - 1 (inclusive range crop_valid; empty when hi < lo) and is exactly
   zero when x1 + j <= -1 or x1 + j >= n_in (pixels j <= crop_zero_below, j >= crop_zero_above);
   between the two it fades out linearly *)
Definition crop_valid (x1 : Q) (n_in n : Z) : Z * Z :=
  (Z.max 0 (Qceil (- x1)), Z.min (n - 1) (Qfloor (zq n_in - 1 - x1))).
Definition crop_zero_below (x1 : Q) : Z := Qfloor (- 1 - x1).
Definition crop_zero_above (x1 : Q) (n_in : Z) : Z := Qceil (zq n_in - x1).

(* ---------------------------------------------------------------- DataPipe versions *)
(* Resizer = resize_axis, PadToStride = pad_axis (same helper functions).
   SizeMatcher (IterDataPipe) is NOT apply_sizematcher: it only pads at the bottom / right up to
   (max_height, max_width), raises when an image is larger, and a max that is None is set from
   the FIRST image and kept for all later ones (state = the two maxima) *)
Definition smdp_state := (option Z * option Z)%type.
Definition smdp_step (st : smdp_state) (H W : Z) : smdp_state * option (Z * Z) :=
  let mh := dflt H (fst st) in
  let mw := dflt W (snd st) in
  ((Some mh, Some mw), if (mh <? H)%Z || (mw <? W)%Z then None else Some (mh, mw)).
(* yielded sizes, and whether the iteration ended with the exception *)
Fixpoint smdp_run (st : smdp_state) (imgs : list (Z * Z)) : list (Z * Z) * bool :=
  match imgs with
  | [] => ([], false)
  | (H, W) :: t =>
      match smdp_step st H W with
      | (st', Some o) => let '(l, e) := smdp_run st' t in (o :: l, e)
      | (_, None) => ([], true)
      end
  end.
Definition smdp_axis (n out : Z) : astep := mkStep aid aid n out.

(* InstanceCropper: one crop per (centroid, instance) pair, the first num_instances pairs only *)
Definition crop_item (H W h w : Z) (it : (Q * Q) * list kp) : list kp * kp :=
  let '((cx, cy), pts) := it in
  let sx := crop_axis cx W w in
  let sy := crop_axis cy H h in
  (map (step_kp sx sy) pts, step_kp sx sy (Some (cx, cy))).
Definition instance_cropper (H W h w : Z) (num : nat) (items : list ((Q * Q) * list kp))
  : list (list kp * kp) := map (crop_item H W h w) (firstn num items).

(* ---------------------------------------------------------------- augmentation stacks *)
(* AugmentationSequential over aug_stack: an operation is in the stack iff its probability is > 0;
   on each call every operation draws whether it is applied (same_on_batch: one draw).  Only an
   APPLIED RandomAffine moves keypoints (by its sampled matrix); erasing, mixup, noise, contrast
   and brightness leave them where they are.
     apply_geometric_augmentation : [affine; erase; mixup]
     apply_intensity_augmentation : [uniform noise; gaussian noise; contrast; brightness]
     KorniaAugmenter              : [affine; uniform; gaussian; contrast; brightness; erase; mixup] *)
Inductive aug_op :=
| OpAffine (m : mat) | OpErase | OpMixup | OpUniformNoise | OpGaussianNoise | OpContrast | OpBrightness.

Definition build_stack (cfg : list (aug_op * Q)) : list aug_op :=
  map fst (filter (fun e => negb (Qle_bool (snd e) 0)) cfg).

Definition op_kp (e : aug_op * bool) (p : kp) : kp :=
  match e with
  | (OpAffine m, true) => apply_mat m p
  | _ => p
  end.
Definition stack_kp (entries : list (aug_op * bool)) (p : kp) : kp :=
  fold_left (fun q e => op_kp e q) entries p.
Definition applied_mats (entries : list (aug_op * bool)) : list mat :=
  flat_map (fun e => match e with (OpAffine m, true) => [m] | _ => [] end) entries.

(* bounding-box midpoint centroid of the visible keypoints (generate_centroids, anchor None) *)
Definition midpoint (l : list Q) : Q :=
  match l with
  | [] => 0
  | a :: t => (fold_left Qmax t a + fold_left Qmin t a) / 2
  end.

(* ---------------------------------------------------------------- datasets over several videos *)
(* Labels = the list of labelled frames, each (video, frame index INSIDE that video, number of
   non-empty instances); several videos may have the same frame index labelled (frame 0 of every
   video).  Index space: BottomUp / Centroid / SingleInstance one sample per labelled-frame
   position; CenteredInstance one sample per (position, instance).
   CenteredInstanceDataset._fill_cache keeps the last decoded frame, `cache_lf = [key, image]`:
   the frame is decoded once for all the instances of a labelled frame.  `key p` is what the
   entry is filed under for the labelled frame at position p (the code: p itself); an image is
   named by the position of the labelled frame it was decoded from. *)
Definition lframe := (nat * nat * nat)%type.
Definition lf_video (f : lframe) : nat := fst (fst f).
Definition lf_frame (f : lframe) : nat := snd (fst f).
Definition lf_ninst (f : lframe) : nat := snd f.
Definition instance_index (labels : list lframe) : list (nat * nat) :=
  flat_map (fun pf => map (pair (fst pf)) (seq 0 (lf_ninst (snd pf))))
           (combine (seq 0 (length labels)) labels).
Definition frame_index (labels : list lframe) : list (nat * nat) :=
  map (fun p => (p, 0%nat)) (seq 0 (length labels)).
Definition cache_state := option (nat * nat).
Definition cache_read (key : nat -> nat) (st : cache_state) (p : nat) : cache_state * nat :=
  match st with
  | Some (k, img) => if Nat.eqb (key p) k then (st, img) else (Some (key p, p), p)
  | None => (Some (key p, p), p)
  end.
Fixpoint cache_images (key : nat -> nat) (st : cache_state) (idx : list (nat * nat)) : list nat :=
  match idx with
  | [] => []
  | (p, _) :: t => let '(st', img) := cache_read key st p in img :: cache_images key st' t
  end.
Definition cache_ok (key : nat -> nat) (st : cache_state) : Prop :=
  match st with Some (k, img) => k = key img | None => True end.
(* the variant that files the decoded frame under the frame index inside the video *)
Definition key_frame_idx (labels : list lframe) (p : nat) : nat :=
  lf_frame (nth p labels (0, 0, 0)%nat).

(* ---------------------------------------------------------------- harness entry point *)
Inductive case :=
| CSizeMatch (H W : Z) (mh mw : option Z)
| CResize (H W : Z) (s : Q) (pts : list kp)
| CPad (H W stride : Z)
| CBBox (cx cy : Q) (h w : Z)
| CCrop (cx cy : Q) (H W h w : Z) (pts : list kp)
| CFull (H W : Z) (mh mw : option Z) (s : Q) (stride : Z) (pts : list kp)
| CCentered (H W : Z) (mh mw : option Z) (s : Q) (stride ch cw : Z) (cx cy : Q) (pts : list kp)
| CCropSize (insts : list (list kp)) (padding stride : Z) (scale : Q) (min_crop : option Z)
| CAug (m : mat) (n_nodes : nat) (insts : list (list kp))
| CAugContent (fixed_F04k : bool) (H W : Z) (m : mat) (pts : list kp)
| CSizeMatchDP (mh mw : option Z) (imgs : list (Z * Z))
| CCropper (H W h w : Z) (num : nat) (items : list ((Q * Q) * list kp))
| CAugStack (entries : list (aug_op * bool)) (n_nodes : nat) (insts : list (list kp))
| CFrameCache (centered : bool) (labels : list lframe)
| CFullAug (align : bool) (H W : Z) (mh mw : option Z) (s : Q) (stride : Z) (m : mat) (pts : list kp)
| CCenteredAug (align : bool) (H W : Z) (mh mw : option Z) (s : Q) (stride ch cw : Z) (cx cy : Q) (m : mat)
               (pts : list kp).

(* result: integers (sizes), rationals (scales / map coefficients), keypoints *)
Definition result := option (list Z * list Q * list (list kp)).

Definition affq (m : aff) : list Q := [sl m; off m].
Definition bq (b : bool) : Z := if b then 1%Z else 0%Z.

Definition pipe_result (p : pipe) (pts : list kp) : result :=
  let sel := existsb (fun q => match q with
                               | Some (x, y) => selector_F11b p x y
                               | None => false end) pts in
  Some ([osize (px p); osize (py p); bq (pexact p); bq (selector_F11 p); bq sel]
        ++ map (fun q => match q with Some (x, y) => bq (selector_F11b p x y) | None => 0%Z end) pts,
        affq (cmap (px p)) ++ affq (cmap (py p)) ++ affq (kmap (px p)) ++ affq (kmap (py p))
        ++ [pfactor p; pdx p; pdy p],
        [map (step_kp (px p) (py p)) pts]).

(* pipeline + augmentation: per point the bits (F11b, F11c), then content and keypoint positions *)
Definition aug_result (p : pipe) (m : mat) (content kpos : Q -> Q -> Q * Q) (pts : list kp) : result :=
  Some (bq (selector_F11 p) ::
        flat_map (fun q => match q with
                           | Some (x, y) => [bq (selector_F11b p x y); bq (selector_F11c p m x y)]
                           | None => [0%Z; 0%Z] end) pts,
        [pfactor p],
        [map (fun q => match q with Some (x, y) => Some (content x y) | None => None end) pts;
         map (fun q => match q with Some (x, y) => Some (kpos x y) | None => None end) pts]).

Definition run (c : case) : result :=
  match c with
  | CSizeMatch H W mh mw =>
      match sizematcher H W mh mw with
      | None => None
      | Some r => Some ([sm_th r; sm_tw r; sm_oh r; sm_ow r], [sm_eff r], [])
      end
  | CResize H W s pts =>
      let sx := resize_axis W s in
      let sy := resize_axis H s in
      if (osize sx <=? 0)%Z || (osize sy <=? 0)%Z then None
      else Some ([osize sy; osize sx],
                 affq (cmap sx) ++ affq (cmap sy), [map (step_kp sx sy) pts])
  | CPad H W stride =>
      Some ([stride_pad H stride; stride_pad W stride;
             osize (pad_axis H stride); osize (pad_axis W stride)], [], [])
  | CBBox cx cy h w =>
      let '(x1, x2) := bbox_axis cx w in
      let '(y1, y2) := bbox_axis cy h in
      Some ([], [], [[Some (x1, y1); Some (x2, y1); Some (x2, y2); Some (x1, y2)]])
  | CCrop cx cy H W h w pts =>
      let sx := crop_axis cx W w in
      let sy := crop_axis cy H h in
      let x1 := fst (bbox_axis cx w) in
      let y1 := fst (bbox_axis cy h) in
      Some ([osize sy; osize sx;
             fst (crop_valid x1 W w); snd (crop_valid x1 W w); crop_zero_below x1; crop_zero_above x1 W;
             fst (crop_valid y1 H h); snd (crop_valid y1 H h); crop_zero_below y1; crop_zero_above y1 H],
            affq (cmap sx) ++ affq (cmap sy),
            [map (step_kp sx sy) pts; [step_kp sx sy (Some (cx, cy))]])
  | CFull H W mh mw s stride pts =>
      match pipe_full H W mh mw s stride with
      | None => None
      | Some p => pipe_result p pts
      end
  | CCentered H W mh mw s stride ch cw cx cy pts =>
      match pipe_centered H W mh mw s stride ch cw cx cy with
      | None => None
      | Some p => pipe_result p pts
      end
  | CCropSize insts padding stride scale mc =>
      Some ([find_instance_crop_size insts padding stride scale mc], [], [])
  | CAug m n insts =>
      Some ([], [], aug_wrapper (map (apply_mat m)) n insts)
  | CAugContent fx H W m pts =>
      Some (map (fun p => match p with
                          | Some (x, y) => bq (selector_F04k H W m x y)
                          | None => 0%Z end) pts, [],
            [map (apply_mat (warp_mech fx H W m)) pts; map (apply_mat m) pts])
  | CSizeMatchDP mh mw imgs =>
      let '(l, e) := smdp_run (mh, mw) imgs in
      Some (bq e :: flat_map (fun o => [fst o; snd o]) l, [], [])
  | CCropper H W h w num items =>
      Some ([], [], map (fun r => fst r ++ [snd r]) (instance_cropper H W h w num items))
  | CAugStack entries n insts =>
      Some ([], [], aug_wrapper (map (stack_kp entries)) n insts)
  | CFrameCache centered labels =>
      (* per dataset index: labelled-frame position, instance, and the (video, frame index) of the
         frame whose image the sample is cut from *)
      let idx := if centered then instance_index labels else frame_index labels in
      let imgs := if centered then cache_images (fun p => p) None idx else map fst idx in
      Some (flat_map (fun e => let '((p, j), img) := e in
                               let f := nth img labels (0, 0, 0)%nat in
                               [Z.of_nat p; Z.of_nat j; Z.of_nat (lf_video f); Z.of_nat (lf_frame f)])
                     (combine idx imgs), [], [])
  | CFullAug align H W mh mw s stride m pts =>
      match pipe_full H W mh mw s stride with
      | None => None
      | Some p => aug_result p m (full_aug_content align p m) (full_aug_kp p m) pts
      end
  | CCenteredAug align H W mh mw s stride ch cw cx cy m pts =>
      match pipe_pre H W mh mw s, pipe_centered H W mh mw s stride ch cw cx cy with
      | Some q, Some p =>
          aug_result p m (centered_aug_content align (px q) (py q) cx cy ch cw stride m)
                     (centered_aug_kp (px q) (py q) cx cy ch cw stride m) pts
      | _, _ => None
      end
  end.
