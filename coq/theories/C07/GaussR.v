(* GaussR.v (C07) — the integral-regression formula over the reals, and the
   direction of the refinement on a radially decreasing bump (in particular a
   Gaussian) whose true centre is displaced from the grid cell by a sub-pixel
   amount.  Proofs; statements are collected in Props.v.

   Floating-point Gaussian values are irrational, so the exact-rational model of
   C06/Peaks.v cannot hold them; the link is `offset_Q2R`: on rational patches the
   model's offsets, read as reals, are exactly the real formula below. *)
From Coq Require Import List ZArith QArith Qreals Reals Lra Lia Psatz FunctionalExtensionality.
From SV Require Import C06.Peaks C06.Lemmas C07.Global C07.Lemmas.
Import ListNotations.
Local Open Scope R_scope.

Definition rsum (l : list R) : R := fold_right Rplus 0 l.

(* window function f i j, i = row offset, j = column offset, both in [-r, r] *)
Definition row_mass (f : Z -> Z -> R) (r : nat) (i : Z) : R := rsum (map (fun j => f i j) (zrange r)).
Definition mass_R (f : Z -> Z -> R) (r : nat) : R := rsum (map (row_mass f r) (zrange r)).
Definition numx_R (f : Z -> Z -> R) (r : nat) : R :=
  rsum (map (fun i => rsum (map (fun j => IZR j * f i j) (zrange r))) (zrange r)).
Definition numy_R (f : Z -> Z -> R) (r : nat) : R :=
  rsum (map (fun i => IZR i * row_mass f r i) (zrange r)).
Definition offx_R f r := numx_R f r / mass_R f r.
Definition offy_R f r := numy_R f r / mass_R f r.

(* ---- link with the rational model ---- *)

Lemma Q2R_0' : Q2R 0 = 0.
Proof. unfold Q2R. simpl. lra. Qed.

Lemma Q2R_inject_Z : forall z, Q2R (inject_Z z) = IZR z.
Proof. intro z. unfold Q2R, inject_Z. simpl. lra. Qed.

Lemma Q2R_qsum : forall l, Q2R (qsum l) = rsum (map Q2R l).
Proof. induction l as [|a l IH]; simpl; [apply Q2R_0'|]. now rewrite Q2R_plus, IH. Qed.

Lemma dot_gv_row : forall (c : Z -> Q) zs,
  dot (map inject_Z zs) (map c zs) = qsum (map (fun z => (inject_Z z * c z)%Q) zs).
Proof. intros. unfold dot. now rewrite combine_map_same, map_map. Qed.

Section Bridge.
  Variables (m : cmap) (y x r : nat).
  Let c (i j : Z) : Q := cell0 m (Z.of_nat y + i) (Z.of_nat x + j).
  Let f (i j : Z) : R := Q2R (c i j).

  Lemma patch_as_fun : patch m y x r = map (fun i => map (fun j => c i j) (zrange r)) (zrange r).
  Proof. reflexivity. Qed.

  Lemma mass_Q2R : Q2R (qsum (map qsum (patch m y x r))) = mass_R f r.
  Proof.
    rewrite patch_as_fun, Q2R_qsum, !map_map. unfold mass_R. f_equal.
    apply map_ext. intro i. unfold row_mass. now rewrite Q2R_qsum, map_map.
  Qed.

  Lemma numx_Q2R : Q2R (qsum (map (dot (gv r)) (patch m y x r))) = numx_R f r.
  Proof.
    rewrite patch_as_fun, Q2R_qsum, !map_map. unfold numx_R. f_equal.
    apply map_ext. intro i. unfold gv. rewrite dot_gv_row, Q2R_qsum, map_map. f_equal.
    apply map_ext. intro j. now rewrite Q2R_mult, Q2R_inject_Z.
  Qed.

  Lemma numy_Q2R : Q2R (dot (gv r) (map qsum (patch m y x r))) = numy_R f r.
  Proof.
    rewrite patch_as_fun, map_map. unfold gv.
    rewrite (dot_gv_row (fun i => qsum (map (fun j => c i j) (zrange r)))).
    rewrite Q2R_qsum, map_map. unfold numy_R. f_equal. apply map_ext. intro i.
    rewrite Q2R_mult, Q2R_inject_Z. unfold row_mass. now rewrite Q2R_qsum, map_map.
  Qed.

  Lemma offset_Q2R : forall dx dy,
    integral_offset (gv r) (gv r) (patch m y x r) = Some (dx, dy) ->
    Q2R dx = offx_R f r /\ Q2R dy = offy_R f r.
  Proof.
    intros dx dy Ho. unfold integral_offset in Ho.
    destruct (Qeq_bool (qsum (map qsum (patch m y x r))) 0) eqn:E; [discriminate|].
    apply Qeq_bool_false_neq in E. inversion Ho; subst. clear Ho.
    unfold offx_R, offy_R. rewrite <- mass_Q2R, <- numx_Q2R, <- numy_Q2R.
    split; apply Q2R_div; auto.
  Qed.
End Bridge.

(* ---- pairing j with -j ---- *)

Fixpoint psum (h : Z -> R) (r : nat) : R :=
  match r with
  | O => h 0%Z
  | S r' => psum h r' + (h (Z.of_nat (S r')) + h (- Z.of_nat (S r'))%Z)
  end.

Lemma zrange_S : forall r,
  zrange (S r) = (- Z.of_nat (S r))%Z :: zrange r ++ [Z.of_nat (S r)].
Proof.
  intro r. unfold zrange. replace (2 * S r + 1)%nat with (S (S (2 * r + 1))) by lia.
  set (n := (2 * r + 1)%nat).
  rewrite seq_S. change (seq 0 (S n)) with (0%nat :: seq 1 n). rewrite map_app. cbn [map app].
  replace (Z.of_nat 0 - Z.of_nat (S r))%Z with (- Z.of_nat (S r))%Z by lia.
  replace (Z.of_nat (0 + S n) - Z.of_nat (S r))%Z with (Z.of_nat (S r)) by (unfold n; lia).
  rewrite <- seq_shift, map_map.
  rewrite (map_ext (fun x : nat => (Z.of_nat (S x) - Z.of_nat (S r))%Z)
                   (fun k : nat => (Z.of_nat k - Z.of_nat r)%Z)) by (intro k; lia).
  reflexivity.
Qed.

Lemma rsum_app : forall a b, rsum (a ++ b) = rsum a + rsum b.
Proof. induction a as [|x a IH]; intros b; simpl; [lra|]. rewrite IH. lra. Qed.

Lemma rsum_zrange : forall h r, rsum (map h (zrange r)) = psum h r.
Proof.
  intros h. induction r as [|r IH].
  - simpl. lra.
  - rewrite zrange_S. simpl map. rewrite map_app. simpl rsum. rewrite rsum_app, IH.
    simpl. lra.
Qed.

Lemma psum_sign : forall h r, h 0%Z = 0 ->
  (forall k, (1 <= k <= r)%nat -> 0 < h (Z.of_nat k) + h (- Z.of_nat k)%Z) ->
  0 <= psum h r /\ ((1 <= r)%nat -> 0 < psum h r).
Proof.
  intros h r H0. induction r as [|r IH]; intros Hk.
  - simpl. split; [lra|lia].
  - destruct IH as [A _]; [intros; apply Hk; lia|].
    pose proof (Hk (S r) ltac:(lia)). cbn [psum]. split; [|intros _]; lra.
Qed.

Lemma psum_zero : forall h r, h 0%Z = 0 ->
  (forall k, (1 <= k <= r)%nat -> h (Z.of_nat k) + h (- Z.of_nat k)%Z = 0) -> psum h r = 0.
Proof.
  intros h r H0. induction r as [|r IH]; intros Hk; cbn [psum]; auto.
  rewrite IH by (intros; apply Hk; lia). pose proof (Hk (S r) ltac:(lia)). lra.
Qed.

Lemma rsum_pos {A} : forall (g : A -> R) l, l <> [] -> (forall a, In a l -> 0 < g a) ->
  0 < rsum (map g l).
Proof.
  intros g l. induction l as [|a l IH]; intros Hne Hp; [congruence|]. simpl.
  pose proof (Hp a (or_introl eq_refl)). destruct l as [|b l].
  - simpl. lra.
  - assert (0 < rsum (map g (b :: l))) by (apply IH; [discriminate | intros; apply Hp; simpl; auto]).
    lra.
Qed.

Lemma rsum_zero {A} : forall (g : A -> R) l, (forall a, In a l -> g a = 0) -> rsum (map g l) = 0.
Proof.
  intros g l. induction l as [|a l IH]; intros Hp; simpl; auto.
  rewrite IH by (intros; apply Hp; simpl; auto). rewrite (Hp a) by (simpl; auto). lra.
Qed.

Lemma rsum_lt {A} : forall (g1 g2 : A -> R) l, l <> [] -> (forall a, In a l -> g1 a < g2 a) ->
  rsum (map g1 l) < rsum (map g2 l).
Proof.
  intros g1 g2 l. induction l as [|a l IH]; intros Hne Hp; [congruence|]. simpl.
  pose proof (Hp a (or_introl eq_refl)). destruct l as [|b l].
  - simpl. lra.
  - assert (rsum (map g1 (b :: l)) < rsum (map g2 (b :: l)))
      by (apply IH; [discriminate | intros; apply Hp; simpl; auto]).
    lra.
Qed.

Lemma zrange_nonempty : forall r, zrange r <> [].
Proof. intro r. pose proof (zrange_zero r) as H. intro E. rewrite E in H. contradiction. Qed.

(* ---- a bump that decreases strictly with the distance to (ax, ay) ---- *)
Section Bump.
  Variable phi : R -> R.
  Hypothesis phi_pos : forall t, 0 < phi t.
  Hypothesis phi_dec : forall s t, 0 <= s -> s < t -> phi t < phi s.
  Variables ax ay : R.      (* true centre minus grid cell: the sub-pixel displacement *)

  Definition bump (i j : Z) : R := phi ((IZR j - ax) * (IZR j - ax) + (IZR i - ay) * (IZR i - ay)).

  Lemma mass_pos : forall r, 0 < mass_R bump r.
  Proof.
    intro r. unfold mass_R. apply rsum_pos; [apply zrange_nonempty|]. intros i _.
    unfold row_mass. apply rsum_pos; [apply zrange_nonempty|]. intros j _. apply phi_pos.
  Qed.

  Lemma IZR_k_ge_1 : forall k, (1 <= k)%nat -> 1 <= IZR (Z.of_nat k).
  Proof. intros k Hk. apply IZR_le. lia. Qed.

  (* nearer column has the larger value *)
  Lemma bump_col_lt : forall i k, (1 <= k)%nat -> 0 < ax ->
    bump i (- Z.of_nat k) < bump i (Z.of_nat k).
  Proof.
    intros i k Hk Ha. unfold bump. rewrite opp_IZR. pose proof (IZR_k_ge_1 k Hk).
    set (K := IZR (Z.of_nat k)) in *. apply phi_dec.
    - pose proof (Rle_0_sqr (K - ax)). pose proof (Rle_0_sqr (IZR i - ay)). unfold Rsqr in *. lra.
    - nra.
  Qed.

  Lemma bump_row_lt : forall j k, (1 <= k)%nat -> 0 < ay ->
    bump (- Z.of_nat k) j < bump (Z.of_nat k) j.
  Proof.
    intros j k Hk Ha. unfold bump. rewrite opp_IZR. pose proof (IZR_k_ge_1 k Hk).
    set (K := IZR (Z.of_nat k)) in *. apply phi_dec.
    - pose proof (Rle_0_sqr (K - ay)). pose proof (Rle_0_sqr (IZR j - ax)). unfold Rsqr in *. lra.
    - nra.
  Qed.

  Lemma numx_pos : forall r, (1 <= r)%nat -> 0 < ax -> 0 < numx_R bump r.
  Proof.
    intros r Hr Ha. unfold numx_R. apply rsum_pos; [apply zrange_nonempty|]. intros i _.
    rewrite (rsum_zrange (fun j => IZR j * bump i j)).
    apply psum_sign; auto; [lra|]. intros k Hk.
    rewrite opp_IZR. pose proof (bump_col_lt i k ltac:(lia) Ha). pose proof (IZR_k_ge_1 k ltac:(lia)).
    nra.
  Qed.

  Lemma numy_pos : forall r, (1 <= r)%nat -> 0 < ay -> 0 < numy_R bump r.
  Proof.
    intros r Hr Ha. unfold numy_R.
    rewrite (rsum_zrange (fun i => IZR i * row_mass bump r i)).
    apply psum_sign; auto; [lra|]. intros k Hk. rewrite opp_IZR.
    assert (row_mass bump r (- Z.of_nat k) < row_mass bump r (Z.of_nat k)).
    { unfold row_mass. apply rsum_lt; [apply zrange_nonempty|]. intros j _.
      apply bump_row_lt; auto. lia. }
    pose proof (IZR_k_ge_1 k ltac:(lia)). nra.
  Qed.

  Lemma offx_pos : forall r, (1 <= r)%nat -> 0 < ax -> 0 < offx_R bump r.
  Proof. intros. unfold offx_R. apply Rdiv_lt_0_compat; [apply numx_pos | apply mass_pos]; auto. Qed.

  Lemma offy_pos : forall r, (1 <= r)%nat -> 0 < ay -> 0 < offy_R bump r.
  Proof. intros. unfold offy_R. apply Rdiv_lt_0_compat; [apply numy_pos | apply mass_pos]; auto. Qed.

  (* centred on the cell along an axis: no movement along that axis *)
  Lemma offx_zero : forall r, ax = 0 -> offx_R bump r = 0.
  Proof.
    intros r Ha. unfold offx_R. replace (numx_R bump r) with 0; [unfold Rdiv; lra|].
    symmetry. unfold numx_R. apply rsum_zero. intros i _.
    rewrite (rsum_zrange (fun j => IZR j * bump i j)). apply psum_zero; [lra|].
    intros k _. rewrite opp_IZR. unfold bump. rewrite opp_IZR, Ha.
    replace ((- IZR (Z.of_nat k) - 0) * (- IZR (Z.of_nat k) - 0))
      with ((IZR (Z.of_nat k) - 0) * (IZR (Z.of_nat k) - 0)) by ring. ring.
  Qed.

  Lemma offy_zero : forall r, ay = 0 -> offy_R bump r = 0.
  Proof.
    intros r Ha. unfold offy_R. replace (numy_R bump r) with 0; [unfold Rdiv; lra|].
    symmetry. unfold numy_R. rewrite (rsum_zrange (fun i => IZR i * row_mass bump r i)).
    apply psum_zero; [lra|]. intros k _. rewrite opp_IZR.
    replace (row_mass bump r (- Z.of_nat k)) with (row_mass bump r (Z.of_nat k)); [ring|].
    unfold row_mass. f_equal. apply map_ext. intro j. unfold bump. rewrite opp_IZR, Ha.
    f_equal. ring.
  Qed.
End Bump.

(* mirror images: a bump displaced by -a is the mirrored window *)
Lemma psum_mirror : forall (g : Z -> R) r,
  psum (fun j => IZR j * g (- j)%Z) r = - psum (fun j => IZR j * g j) r.
Proof.
  intros g. induction r as [|r IH]; cbn [psum].
  - change (- 0)%Z with 0%Z. lra.
  - rewrite IH, !opp_IZR, Z.opp_involutive. lra.
Qed.

Lemma rsum_map_opp {A} : forall (g1 g2 : A -> R) l, (forall a, g1 a = - g2 a) ->
  rsum (map g1 l) = - rsum (map g2 l).
Proof.
  intros g1 g2 l H. induction l as [|a l IH]; simpl; [lra|]. rewrite IH, H. lra.
Qed.

Lemma numx_mirror : forall (f : Z -> Z -> R) r,
  numx_R (fun i j => f i (- j)%Z) r = - numx_R f r.
Proof.
  intros f r. unfold numx_R. apply rsum_map_opp. intro i.
  rewrite (rsum_zrange (fun j => IZR j * f i (- j)%Z)), (rsum_zrange (fun j => IZR j * f i j)).
  apply (psum_mirror (f i)).
Qed.

Lemma rsum_zrange_mirror : forall (g : Z -> R) r,
  rsum (map (fun j => g (- j)%Z) (zrange r)) = rsum (map g (zrange r)).
Proof.
  intros g r. rewrite !rsum_zrange. induction r as [|r IH]; cbn [psum].
  - change (- 0)%Z with 0%Z. reflexivity.
  - rewrite IH, Z.opp_involutive. lra.
Qed.

Lemma mass_mirror_x : forall (f : Z -> Z -> R) r,
  mass_R (fun i j => f i (- j)%Z) r = mass_R f r.
Proof.
  intros f r. unfold mass_R. f_equal. apply map_ext. intro i. unfold row_mass.
  apply (rsum_zrange_mirror (f i)).
Qed.

Lemma mass_mirror_y : forall (f : Z -> Z -> R) r,
  mass_R (fun i j => f (- i)%Z j) r = mass_R f r.
Proof.
  intros f r. unfold mass_R.
  apply (rsum_zrange_mirror (fun i => row_mass f r i)).
Qed.

Lemma numy_mirror : forall (f : Z -> Z -> R) r,
  numy_R (fun i j => f (- i)%Z j) r = - numy_R f r.
Proof.
  intros f r. unfold numy_R.
  rewrite (rsum_zrange (fun i => IZR i * row_mass (fun i0 j => f (- i0)%Z j) r i)),
          (rsum_zrange (fun i => IZR i * row_mass f r i)).
  apply (psum_mirror (fun i => row_mass f r i)).
Qed.

Lemma bump_mirror_x : forall phi ax ay i j, bump phi ax ay i j = bump phi (- ax) ay i (- j)%Z.
Proof. intros. unfold bump. rewrite opp_IZR. f_equal. ring. Qed.

Lemma bump_mirror_y : forall phi ax ay i j, bump phi ax ay i j = bump phi ax (- ay) (- i)%Z j.
Proof. intros. unfold bump. rewrite opp_IZR. f_equal. ring. Qed.

Section BumpNeg.
  Variable phi : R -> R.
  Hypothesis phi_pos : forall t, 0 < phi t.
  Hypothesis phi_dec : forall s t, 0 <= s -> s < t -> phi t < phi s.

  Lemma offx_neg : forall ax ay r, (1 <= r)%nat -> ax < 0 -> offx_R (bump phi ax ay) r < 0.
  Proof.
    intros ax ay r Hr Ha. unfold offx_R.
    assert (E : bump phi ax ay = fun i j => bump phi (- ax) ay i (- j)%Z).
    { apply functional_extensionality. intro i. apply functional_extensionality. intro j.
      apply bump_mirror_x. }
    rewrite E, numx_mirror, mass_mirror_x.
    pose proof (offx_pos phi phi_pos phi_dec (- ax) ay r Hr ltac:(lra)) as P.
    unfold offx_R in P. unfold Rdiv in *. lra.
  Qed.

  Lemma offy_neg : forall ax ay r, (1 <= r)%nat -> ay < 0 -> offy_R (bump phi ax ay) r < 0.
  Proof.
    intros ax ay r Hr Ha. unfold offy_R.
    assert (E : bump phi ax ay = fun i j => bump phi ax (- ay) (- i)%Z j).
    { apply functional_extensionality. intro i. apply functional_extensionality. intro j.
      apply bump_mirror_y. }
    rewrite E, numy_mirror, mass_mirror_y.
    pose proof (offy_pos phi phi_pos phi_dec ax (- ay) r Hr ltac:(lra)) as P.
    unfold offy_R in P. unfold Rdiv in *. lra.
  Qed.
End BumpNeg.

(* ---- the Gaussian ---- *)
Definition gauss (sigma ax ay : R) (i j : Z) : R :=
  exp (- ((IZR j - ax) * (IZR j - ax) + (IZR i - ay) * (IZR i - ay)) / (2 * sigma * sigma)).

Lemma gauss_is_bump : forall sigma ax ay,
  gauss sigma ax ay = bump (fun t => exp (- t / (2 * sigma * sigma))) ax ay.
Proof. reflexivity. Qed.

Lemma gauss_profile_dec : forall sigma, sigma <> 0 -> forall s t, 0 <= s -> s < t ->
  exp (- t / (2 * sigma * sigma)) < exp (- s / (2 * sigma * sigma)).
Proof.
  intros sigma Hs s t _ Hst. apply exp_increasing.
  assert (0 < 2 * sigma * sigma) by (pose proof (Rsqr_pos_lt sigma Hs); unfold Rsqr in *; lra).
  unfold Rdiv. apply Rmult_lt_compat_r; [apply Rinv_0_lt_compat; auto | lra].
Qed.

Lemma gauss_offx_pos : forall sigma ax ay r, sigma <> 0 -> (1 <= r)%nat -> 0 < ax ->
  0 < offx_R (gauss sigma ax ay) r.
Proof.
  intros. rewrite gauss_is_bump. apply offx_pos; auto.
  - intro t. apply exp_pos.
  - apply gauss_profile_dec; auto.
Qed.

Lemma gauss_offy_pos : forall sigma ax ay r, sigma <> 0 -> (1 <= r)%nat -> 0 < ay ->
  0 < offy_R (gauss sigma ax ay) r.
Proof.
  intros. rewrite gauss_is_bump. apply offy_pos; auto.
  - intro t. apply exp_pos.
  - apply gauss_profile_dec; auto.
Qed.

Lemma gauss_offx_zero : forall sigma ay r, offx_R (gauss sigma 0 ay) r = 0.
Proof. intros. rewrite gauss_is_bump. apply offx_zero. reflexivity. Qed.

Lemma gauss_offy_zero : forall sigma ax r, offy_R (gauss sigma ax 0) r = 0.
Proof. intros. rewrite gauss_is_bump. apply offy_zero. reflexivity. Qed.

Lemma gauss_offx_neg : forall sigma ax ay r, sigma <> 0 -> (1 <= r)%nat -> ax < 0 ->
  offx_R (gauss sigma ax ay) r < 0.
Proof.
  intros. rewrite gauss_is_bump. apply offx_neg; auto.
  - intro t. apply exp_pos.
  - apply gauss_profile_dec; auto.
Qed.

Lemma gauss_offy_neg : forall sigma ax ay r, sigma <> 0 -> (1 <= r)%nat -> ay < 0 ->
  offy_R (gauss sigma ax ay) r < 0.
Proof.
  intros. rewrite gauss_is_bump. apply offy_neg; auto.
  - intro t. apply exp_pos.
  - apply gauss_profile_dec; auto.
Qed.

Lemma bump_direction :
  forall phi : R -> R, (forall t, 0 < phi t) -> (forall s t, 0 <= s -> s < t -> phi t < phi s) ->
  forall ax ay r, (1 <= r)%nat ->
  (0 < ax -> 0 < offx_R (bump phi ax ay) r) /\ (ax < 0 -> offx_R (bump phi ax ay) r < 0) /\
  (ax = 0 -> offx_R (bump phi ax ay) r = 0) /\
  (0 < ay -> 0 < offy_R (bump phi ax ay) r) /\ (ay < 0 -> offy_R (bump phi ax ay) r < 0) /\
  (ay = 0 -> offy_R (bump phi ax ay) r = 0).
Proof.
  intros phi Hp Hd ax ay r Hr. repeat split; intros.
  - apply offx_pos; auto.
  - apply offx_neg; auto.
  - apply offx_zero; auto.
  - apply offy_pos; auto.
  - apply offy_neg; auto.
  - apply offy_zero; auto.
Qed.

Lemma gauss_direction : forall sigma ax ay r, sigma <> 0 -> (1 <= r)%nat ->
  (0 < ax -> 0 < offx_R (gauss sigma ax ay) r) /\ (ax < 0 -> offx_R (gauss sigma ax ay) r < 0) /\
  (0 < ay -> 0 < offy_R (gauss sigma ax ay) r) /\ (ay < 0 -> offy_R (gauss sigma ax ay) r < 0).
Proof.
  intros. repeat split; intros.
  - apply gauss_offx_pos; auto.
  - apply gauss_offx_neg; auto.
  - apply gauss_offy_pos; auto.
  - apply gauss_offy_neg; auto.
Qed.
