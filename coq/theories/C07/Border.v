(* Border.v (C07) — round 4 (review finding 1, 4): clauses (f) "a symmetric bump centred on a
   cell stays unmoved" and (g) "on a Gaussian bump the estimate moves toward the true
   centre" hold when the refinement patch lies INSIDE the map and are FALSE when it sticks
   out (finding F25: crop_bboxes / kornia pad the patch with zeros).  Proofs only; the
   selector `selector_F25` / `patch_inside` is in C07/Global.v. *)
From Coq Require Import List ZArith QArith Qabs Qreals Reals Bool Arith Lia Lra Psatz.
From SV Require Import C06.Peaks C06.Lemmas C06.PatchP C07.Global C07.Lemmas C07.PatchP C07.GaussR C07.GaussE.
Import ListNotations.

(* ------------------------------------------------------------------ *)
(* rationals                                                           *)
Section Inside.
Local Open Scope Q_scope.

Lemma patch_inside_bounds : forall H W m y x p, rect_map H W m -> patch_inside m y x p = true ->
  (p / 2 <= y)%nat /\ (p / 2 <= x)%nat /\ (y + p / 2 < H)%nat /\ (x + p / 2 < W)%nat.
Proof.
  intros H W m y x p HR Hi. unfold patch_inside in Hi.
  apply andb_true_iff in Hi. destruct Hi as [Hi H4].
  apply andb_true_iff in Hi. destruct Hi as [Hi H3].
  apply andb_true_iff in Hi. destruct Hi as [H1 H2].
  apply Nat.leb_le in H1. apply Nat.leb_le in H2. apply Nat.ltb_lt in H3. apply Nat.ltb_lt in H4.
  pose proof HR as [HL _]. rewrite HL in H3.
  rewrite (width_rect H W m HR) in H4 by lia. lia.
Qed.

(* every cell a p-patch reads (radius p/2 around the peak) is a cell of the map *)
Lemma inside_cell : forall H W m y x p i j, rect_map H W m -> patch_inside m y x p = true ->
  (- Z.of_nat (p / 2) <= i <= Z.of_nat (p / 2))%Z -> (- Z.of_nat (p / 2) <= j <= Z.of_nat (p / 2))%Z ->
  exists q, getZ m (Z.of_nat y + i) (Z.of_nat x + j) = Some q.
Proof.
  intros H W m y x p i j HR Hi Hy Hx.
  destruct (patch_inside_bounds _ _ _ _ _ _ HR Hi) as (A & B & C & D).
  unfold getZ.
  replace (Z.of_nat y + i <? 0)%Z with false by (symmetry; apply Z.ltb_ge; lia).
  replace (Z.of_nat x + j <? 0)%Z with false by (symmetry; apply Z.ltb_ge; lia).
  simpl. apply (get_some_rect H W); auto; lia.
Qed.

(* the bump is symmetric about its cell as far as the MAP goes: two cells of the map that are
   mirror images of each other about (y, x) within radius r hold the same value.  (The
   theorems of round 2 used `window_symmetric`, which reads cells outside the map as 0 and so
   silently excludes every bump cut by an edge.) *)
Definition in_map_symmetric (m : cmap) (y x r : nat) : Prop :=
  forall dy dx a b, In dy (zrange r) -> In dx (zrange r) ->
  getZ m (Z.of_nat y + - dy) (Z.of_nat x + - dx) = Some a ->
  getZ m (Z.of_nat y + dy) (Z.of_nat x + dx) = Some b -> a = b.

Lemma inside_window_symmetric : forall H W m y x p, rect_map H W m -> patch_inside m y x p = true ->
  in_map_symmetric m y x (p / 2) -> window_symmetric m y x (p / 2).
Proof.
  intros H W m y x p HR Hi Hs dy dx Hy Hx.
  pose proof (proj1 (In_zrange _ _) Hy) as Hy'. pose proof (proj1 (In_zrange _ _) Hx) as Hx'.
  destruct (inside_cell H W m y x p (- dy) (- dx) HR Hi) as [a Ea]; [lia|lia|].
  destruct (inside_cell H W m y x p dy dx HR Hi) as [b Eb]; [lia|lia|].
  unfold cell0. rewrite Ea, Eb. apply (Hs dy dx a b); auto.
Qed.

(* (f), PARTIAL (outside F25 and F9): a bump symmetric about the reported cell whose patch lies
   inside the map is refined to exactly that cell — stated about the function the harness
   evaluates (global_single_p), with the interior premise explicit *)
Lemma symmetric_unmoved_inside : forall H W m fixed thr p x y v, rect_map H W m -> (1 <= p)%nat ->
  global_rough fixed m thr = (Some (x, y), v) ->
  selector_F25 m y x p = false -> selector_F9_p m y x p = false ->
  in_map_symmetric m y x (p / 2) ->
  exists px py, global_single_p fixed thr (Some p) m = (Some (px, py), v) /\
    px == inject_Z (Z.of_nat x) /\ py == inject_Z (Z.of_nat y).
Proof.
  intros H W m fixed thr p x y v HR Hp Hg H25 H9 Hs.
  destruct (global_refine_bound_p fixed thr p m x y v Hp Hg H9) as [px [py [E _]]].
  exists px, py. split; auto.
  unfold global_single_p in E. rewrite Hg in E. inversion E as [E'].
  apply (refine_symmetric_unmoved_p m x y p px py); auto.
  apply (inside_window_symmetric H W); auto.
  unfold selector_F25 in H25. now apply negb_false_iff in H25.
Qed.

(* the same for the refinement of ONE point (shared with the multi-peak path of C06) *)
Lemma refine_symmetric_unmoved_inside : forall H W m p x y, rect_map H W m -> (1 <= p)%nat ->
  selector_F25 m y x p = false -> selector_F9_p m y x p = false ->
  in_map_symmetric m y x (p / 2) ->
  exists px py, refine_at_p m x y p = Some (px, py) /\
    px == inject_Z (Z.of_nat x) /\ py == inject_Z (Z.of_nat y).
Proof.
  intros H W m p x y HR Hp H25 H9 Hs.
  destruct (refine_bound_p _ _ _ _ Hp H9) as [px [py [E _]]].
  exists px, py. split; auto.
  apply (refine_symmetric_unmoved_p m x y p px py); auto.
  apply (inside_window_symmetric H W); auto.
  unfold selector_F25 in H25. now apply negb_false_iff in H25.
Qed.

(* ---- (f) is FALSE at a border (finding F25) ---- *)

(* "a symmetric bump centred on cell (y, x)": the cells of the map are the samples of a
   function of the offset that is invariant under the point reflection about the cell *)
Definition symmetric_bump (m : cmap) (y x : nat) : Prop :=
  exists g : Z -> Z -> Q, (forall a b, g (- a)%Z (- b)%Z = g a b) /\
    forall i j v, get m i j = Some v ->
      v = g (Z.of_nat i - Z.of_nat y)%Z (Z.of_nat j - Z.of_nat x)%Z.

(* the pyramid max(0, 4 - 3(|dy| + |dx|)) centred on the corner cell (0,0) of a 3x3 map *)
Definition corner_bump : cmap := [[4;1;0];[1;0;0];[0;0;0]].

Lemma corner_bump_symmetric : symmetric_bump corner_bump 0 0.
Proof.
  exists (fun a b => let d := (Z.abs a + Z.abs b)%Z in
                     if (d =? 0)%Z then 4 else if (d =? 1)%Z then 1 else 0).
  split.
  - intros a b. now rewrite !Z.abs_opp.
  - intros i j v.
    destruct i as [|[|[|[|i]]]]; destruct j as [|[|[|[|j]]]]; simpl; intro E;
      try discriminate; inversion E; reflexivity.
Qed.

Lemma symmetric_unmoved_border_refuted :
  exists m H W thr p x y v px py,
    rect_map H W m /\ global_rough true m thr = (Some (x, y), v) /\
    symmetric_bump m y x /\ in_map_symmetric m y x (p / 2) /\
    selector_F9_p m y x p = false /\ selector_F25 m y x p = true /\
    global_single_p true thr (Some p) m = (Some (px, py), v) /\
    inject_Z (Z.of_nat x) < px /\ inject_Z (Z.of_nat y) < py.
Proof.
  exists corner_bump, 3%nat, 3%nat, (1#2), 3%nat, 0%nat, 0%nat. eexists. eexists. eexists.
  split; [repeat constructor|]. split; [vm_compute; reflexivity|].
  split; [exact corner_bump_symmetric|]. split.
  - intros dy dx a b Hy Hx. change (zrange (3 / 2)) with [-1; 0; 1]%Z in *. simpl in Hy, Hx.
    destruct Hy as [<-|[<-|[<-|[]]]]; destruct Hx as [<-|[<-|[<-|[]]]]; vm_compute; congruence.
  - split; [vm_compute; reflexivity|]. split; [vm_compute; reflexivity|].
    split; [vm_compute; reflexivity|]. split; vm_compute; reflexivity.
Qed.

(* ---- (g) is FALSE at a border: a positive, strictly radially decreasing bump
        phi(d^2) = 1 / (1 + d^2) whose true centre is EXACTLY the corner cell (displacement
        0) is moved away from it (the exact Gaussian needs exp; the float code is measured on
        Gaussians by the harness, which finds the same) ---- *)
Definition corner_hill : cmap := [[1; 1#2; 1#5]; [1#2; 1#3; 1#6]; [1#5; 1#6; 1#9]].

Lemma centred_bump_border_refuted :
  exists m thr p x y v px py,
    (forall i j w, get m i j = Some w ->
       w == 1 / (1 + inject_Z ((Z.of_nat i - Z.of_nat y) * (Z.of_nat i - Z.of_nat y) +
                               (Z.of_nat j - Z.of_nat x) * (Z.of_nat j - Z.of_nat x)))) /\
    global_rough true m thr = (Some (x, y), v) /\
    selector_F9_p m y x p = false /\ selector_F25 m y x p = true /\
    global_single_p true thr (Some p) m = (Some (px, py), v) /\
    inject_Z (Z.of_nat x) < px /\ inject_Z (Z.of_nat y) < py.
Proof.
  exists corner_hill, (1#2), 3%nat, 0%nat, 0%nat. eexists. eexists. eexists.
  split.
  - intros i j w.
    destruct i as [|[|[|[|i]]]]; destruct j as [|[|[|[|j]]]]; simpl; intro E;
      try discriminate; inversion E; vm_compute; reflexivity.
  - split; [vm_compute; reflexivity|]. split; [vm_compute; reflexivity|].
    split; [vm_compute; reflexivity|]. split; [vm_compute; reflexivity|].
    split; vm_compute; reflexivity.
Qed.
End Inside.

(* ------------------------------------------------------------------ *)
(* reals: the (g) direction theorems composed with the model function   *)
Section BumpInside.
Local Open Scope R_scope.

Lemma numx_R_ext : forall f g r,
  (forall i j, In i (zrange r) -> In j (zrange r) -> f i j = g i j) -> numx_R f r = numx_R g r.
Proof.
  intros f g r E. unfold numx_R. f_equal. apply map_ext_in. intros i Hi. f_equal.
  apply map_ext_in. intros j Hj. now rewrite E.
Qed.

Lemma row_mass_ext : forall f g r i,
  (forall j, In j (zrange r) -> f i j = g i j) -> row_mass f r i = row_mass g r i.
Proof. intros f g r i E. unfold row_mass. f_equal. apply map_ext_in. intros j Hj. now apply E. Qed.

Lemma mass_R_ext : forall f g r,
  (forall i j, In i (zrange r) -> In j (zrange r) -> f i j = g i j) -> mass_R f r = mass_R g r.
Proof.
  intros f g r E. unfold mass_R. f_equal. apply map_ext_in. intros i Hi.
  apply row_mass_ext. intros j Hj. now apply E.
Qed.

Lemma numy_R_ext : forall f g r,
  (forall i j, In i (zrange r) -> In j (zrange r) -> f i j = g i j) -> numy_R f r = numy_R g r.
Proof.
  intros f g r E. unfold numy_R. f_equal. apply map_ext_in. intros i Hi. f_equal.
  apply row_mass_ext. intros j Hj. now apply E.
Qed.

Definition agree (f g : Z -> Z -> R) (r : nat) : Prop :=
  forall i j, (- Z.of_nat r <= i <= Z.of_nat r)%Z -> (- Z.of_nat r <= j <= Z.of_nat r)%Z -> f i j = g i j.

Lemma samp_R_ext : forall f g h i j, agree f g h -> In i (ezrange h) -> In j (ezrange h) ->
  samp_R f i j = samp_R g i j.
Proof.
  intros f g h i j E Hi Hj. apply In_ezrange in Hi. apply In_ezrange in Hj. unfold samp_R.
  rewrite (E (i - 1)%Z (j - 1)%Z), (E (i - 1)%Z j), (E i (j - 1)%Z), (E i j) by lia. reflexivity.
Qed.

Lemma erow_mass_ext : forall f g h i, agree f g h -> In i (ezrange h) ->
  erow_mass f h i = erow_mass g h i.
Proof.
  intros f g h i E Hi. unfold erow_mass. f_equal. apply map_ext_in. intros j Hj.
  now apply (samp_R_ext f g h).
Qed.

Lemma emass_R_ext : forall f g h, agree f g h -> emass_R f h = emass_R g h.
Proof.
  intros f g h E. unfold emass_R. f_equal. apply map_ext_in. intros i Hi. now apply erow_mass_ext.
Qed.

Lemma enumx_R_ext : forall f g h, agree f g h -> enumx_R f h = enumx_R g h.
Proof.
  intros f g h E. unfold enumx_R. f_equal. apply map_ext_in. intros i Hi. f_equal.
  apply map_ext_in. intros j Hj. f_equal. now apply (samp_R_ext f g h).
Qed.

Lemma enumy_R_ext : forall f g h, agree f g h -> enumy_R f h = enumy_R g h.
Proof.
  intros f g h E. unfold enumy_R. f_equal. apply map_ext_in. intros i Hi. f_equal.
  now apply erow_mass_ext.
Qed.

Lemma agree_zrange : forall f g r, agree f g r ->
  forall i j, In i (zrange r) -> In j (zrange r) -> f i j = g i j.
Proof. intros f g r E i j Hi Hj. apply In_zrange in Hi. apply In_zrange in Hj. now apply E. Qed.

(* the offsets of a p-patch depend on the window function only on the cells it reads *)
Lemma off_P_ext : forall f g p, agree f g (p / 2) ->
  offx_P f p = offx_P g p /\ offy_P f p = offy_P g p.
Proof.
  intros f g p E. unfold offx_P, offy_P. destruct (Nat.even p).
  - unfold offx_E, offy_E. now rewrite (enumx_R_ext f g), (enumy_R_ext f g), (emass_R_ext f g).
  - pose proof (agree_zrange _ _ _ E) as E'. unfold offx_R, offy_R.
    now rewrite (numx_R_ext f g), (numy_R_ext f g), (mass_R_ext f g).
Qed.

Section OneBump.
  Variable phi : R -> R.
  Hypothesis phi_pos : forall t, 0 < phi t.
  Hypothesis phi_dec : forall s t, 0 <= s -> s < t -> phi t < phi s.
  Variables (H W : nat) (m : cmap) (y x p : nat) (ax ay : R).
  Hypothesis HR : rect_map H W m.
  Hypothesis Hp : (2 <= p)%nat.
  Hypothesis Hin : selector_F25 m y x p = false.
  (* every cell of the map within radius p/2 of (y, x) holds the bump's value there *)
  Hypothesis Hval : forall i j q,
    (- Z.of_nat (p / 2) <= i <= Z.of_nat (p / 2))%Z -> (- Z.of_nat (p / 2) <= j <= Z.of_nat (p / 2))%Z ->
    getZ m (Z.of_nat y + i) (Z.of_nat x + j) = Some q -> Q2R q = bump phi ax ay i j.

  Let f (i j : Z) : R := Q2R (cell0 m (Z.of_nat y + i) (Z.of_nat x + j)).

  Lemma f_agrees : agree f (bump phi ax ay) (p / 2).
  Proof.
    intros i j Hi Hj. unfold f.
    assert (Hi' : patch_inside m y x p = true)
      by (unfold selector_F25 in Hin; now apply negb_false_iff in Hin).
    destruct (inside_cell H W m y x p i j HR Hi' Hi Hj) as [q Eq].
    unfold cell0. rewrite Eq. now apply Hval.
  Qed.

  Lemma patch_mass_nonzero : ~ (qsum (map qsum (patch_p m y x p)) == 0)%Q.
  Proof.
    intro E. apply Qeq_eqR in E. rewrite Q2R_0' in E.
    pose proof f_agrees as A.
    destruct (parity_cases p) as [[r Er]|[h Eh]].
    - rewrite Er in E, A. rewrite half_odd_p in A. rewrite patch_p_odd in E.
      rewrite (mass_Q2R m y x r) in E. fold f in E.
      rewrite (mass_R_ext f (bump phi ax ay) r (agree_zrange _ _ _ A)) in E.
      pose proof (mass_pos phi phi_pos ax ay r). lra.
    - rewrite Eh in E, A. rewrite half_even_p in A. rewrite patch_p_even in E.
      rewrite (emass_Q2R m y x h) in E. fold f in E.
      rewrite (emass_R_ext f (bump phi ax ay) h A) in E.
      assert (Hh : (1 <= h)%nat) by lia.
      pose proof (emass_pos (bump phi ax ay) h Hh (fun i j => phi_pos _)). lra.
  Qed.

  (* (g) direction, PARTIAL (outside F25): the model function `refine_at_p` itself — defined
     (positive mass) and moving toward the true centre (ax, ay) on each axis *)
  Lemma refine_bump_inside :
    exists px py, refine_at_p m x y p = Some (px, py) /\
      (0 < ax -> IZR (Z.of_nat x) < Q2R px) /\ (ax < 0 -> Q2R px < IZR (Z.of_nat x)) /\
      (ax = 0 -> Q2R px = IZR (Z.of_nat x)) /\
      (0 < ay -> IZR (Z.of_nat y) < Q2R py) /\ (ay < 0 -> Q2R py < IZR (Z.of_nat y)) /\
      (ay = 0 -> Q2R py = IZR (Z.of_nat y)).
  Proof.
    unfold refine_at_p.
    destruct (integral_offset (gv_p p) (gv_p p) (patch_p m y x p)) as [[dx dy]|] eqn:E.
    - exists (inject_Z (Z.of_nat x) + dx)%Q, (inject_Z (Z.of_nat y) + dy)%Q. split; auto.
      destruct (offset_Q2R_p m y x p dx dy E) as [Ex Ey]. fold f in Ex, Ey.
      destruct (off_P_ext f (bump phi ax ay) p f_agrees) as [Fx Fy]. rewrite Fx in Ex. rewrite Fy in Ey.
      destruct (bump_direction_p phi phi_pos phi_dec ax ay p Hp) as (A1 & A2 & A3 & A4 & A5 & A6).
      rewrite !Q2R_plus, !Q2R_inject_Z, Ex, Ey.
      repeat split; intro Ha.
      + specialize (A1 Ha). lra.
      + specialize (A2 Ha). lra.
      + specialize (A3 Ha). lra.
      + specialize (A4 Ha). lra.
      + specialize (A5 Ha). lra.
      + specialize (A6 Ha). lra.
    - exfalso. unfold integral_offset in E.
      destruct (Qeq_bool (qsum (map qsum (patch_p m y x p))) 0) eqn:Z0; [|discriminate].
      apply Qeq_bool_iff in Z0. exact (patch_mass_nonzero Z0).
  Qed.
End OneBump.
End BumpInside.
