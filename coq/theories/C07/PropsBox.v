(* PropsBox.v (C07) — statement proved with the Interval tactic (C07/GaussBox.v).
   Kept apart from Props.v because, besides the four axioms of the classical reals,
   Interval's verified interval arithmetic computes with Bignums over Coq's primitive
   63-bit integers, whose specifications (the Uint63 and PrimInt63 modules) the standard
   library declares as axioms.  The harness lists them under the trusted base. *)
From Coq Require Import ZArith Reals.
From SV Require Import C07.GaussR C07.GaussBox.
Local Open Scope R_scope.

(* "helps": the error after refinement is at most the error before.  Proved for patch
   sizes 3, 5, 7, displacement 0 < a <= 1/2 and sigma anywhere in [1/2, 4] (continuous
   box, interval arithmetic + an analytic argument near a = 0).  PARTIAL: sigma outside
   [1/2, 4], other patch sizes and negative displacements (mirror image) are not
   covered by this statement; the harness measures them. *)
Theorem c07_gaussian_error_does_not_grow_partial : forall sigma ax ay r,
  (1 <= r <= 3)%nat -> 1/2 <= sigma <= 4 ->
  (0 < ax <= 1/2 -> 0 < offx_R (gauss sigma ax ay) r <= 2 * ax /\
                    Rabs (offx_R (gauss sigma ax ay) r - ax) <= ax) /\
  (0 < ay <= 1/2 -> 0 < offy_R (gauss sigma ax ay) r <= 2 * ay /\
                    Rabs (offy_R (gauss sigma ax ay) r - ay) <= ay).
Proof. exact gauss_error_does_not_grow. Qed.
Print Assumptions c07_gaussian_error_does_not_grow_partial.
