(* PropsBox.v (C07) — statement proved with the Interval tactic (C07/GaussBox.v).
   Kept apart from Props.v because, besides the four axioms of the classical reals,
   Interval's verified interval arithmetic computes with Bignums over Coq's primitive
   63-bit integers, whose specifications (the Uint63 and PrimInt63 modules) the standard
   library declares as axioms.  The harness lists them under the trusted base. *)
From Coq Require Import ZArith Reals.
From SV Require Import C07.GaussR C07.GaussBox C07.GaussWide C07.GaussNeg.
Local Open Scope R_scope.

(* "helps": the error after refinement is at most the error before.  Proved for patch
   sizes 3, 5, 7, displacement 0 < a <= 1/2 and sigma anywhere in [1/2, 4] (continuous
   box, interval arithmetic + an analytic argument near a = 0).  PARTIAL: sigma outside
   [1/2, 4] and other patch sizes are not covered by this statement (the harness measures
   them); negative displacements: c07_gaussian_error_does_not_grow_negative_partial below.
   All statements of this file are about the formula on an UNCLIPPED window, i.e. a peak
   whose patch lies inside the map (outside finding F25, see Props.v). *)
Theorem c07_gaussian_error_does_not_grow_partial : forall sigma ax ay r,
  (1 <= r <= 3)%nat -> 1/2 <= sigma <= 4 ->
  (0 < ax <= 1/2 -> 0 < offx_R (gauss sigma ax ay) r <= 2 * ax /\
                    Rabs (offx_R (gauss sigma ax ay) r - ax) <= ax) /\
  (0 < ay <= 1/2 -> 0 < offy_R (gauss sigma ax ay) r <= 2 * ay /\
                    Rabs (offy_R (gauss sigma ax ay) r - ay) <= ay).
Proof. exact gauss_error_does_not_grow. Qed.
Print Assumptions c07_gaussian_error_does_not_grow_partial.

(* EVERY odd patch size 2r+1, sigma large relative to the patch: an analytic proof (no
   interval arithmetic; only the axioms of the classical reals):
       sigma^2 >= r(r+1)/6 + (2r+1)^2/8   (r = 1: sigma >= 1.21, r = 2: 2.04, r = 3: 2.86)
   numerator <= 2 a r(r+1)(2r+1) / (6 sigma^2)  (1 - e^-t <= t, values <= 1),
   mass >= (2r+1) (1 - (r+1/2)^2 / (2 sigma^2)). *)
Theorem c07_gaussian_error_does_not_grow_large_sigma_partial : forall sigma ax ay r, (1 <= r)%nat ->
  IZR (Z.of_nat r) * (IZR (Z.of_nat r) + 1) / 6 +
    (2 * IZR (Z.of_nat r) + 1) * (2 * IZR (Z.of_nat r) + 1) / 8 <= sigma * sigma ->
  (0 < ax <= 1/2 -> 0 < offx_R (gauss sigma ax ay) r <= 2 * ax /\
                    Rabs (offx_R (gauss sigma ax ay) r - ax) <= ax) /\
  (0 < ay <= 1/2 -> 0 < offy_R (gauss sigma ax ay) r <= 2 * ay /\
                    Rabs (offy_R (gauss sigma ax ay) r - ay) <= ay).
Proof. exact gauss_no_overshoot_wide. Qed.
Print Assumptions c07_gaussian_error_does_not_grow_large_sigma_partial.

(* patch sizes 3, 5, 7 and ALL sigma >= 1/2: the box above up to sigma = 4, the analytic
   bound beyond.  PARTIAL: sigma < 1/2, and patch sizes > 7 with sigma below the bound of
   the previous theorem, and even patch sizes, are not covered (measured by the harness). *)
Theorem c07_gaussian_error_does_not_grow_all_sigma_partial : forall sigma ax ay r,
  (1 <= r <= 3)%nat -> 1/2 <= sigma ->
  (0 < ax <= 1/2 -> 0 < offx_R (gauss sigma ax ay) r <= 2 * ax /\
                    Rabs (offx_R (gauss sigma ax ay) r - ax) <= ax) /\
  (0 < ay <= 1/2 -> 0 < offy_R (gauss sigma ax ay) r <= 2 * ay /\
                    Rabs (offy_R (gauss sigma ax ay) r - ay) <= ay).
Proof. exact gauss_error_does_not_grow_all_sigma. Qed.
Print Assumptions c07_gaussian_error_does_not_grow_all_sigma_partial.

(* NEGATIVE displacement -1/2 <= a < 0 (round 4): the Gaussian displaced by -a is the mirror
   image of the one displaced by a (bump_mirror_x, numx_mirror, mass_mirror_x of GaussR.v), so
   the offset changes sign: it is negative, not beyond 2a, and the error does not grow.
   Patch sizes 3, 5, 7 and all sigma >= 1/2; PARTIAL as above otherwise. *)
Theorem c07_gaussian_error_does_not_grow_negative_partial : forall sigma ax ay r,
  (1 <= r <= 3)%nat -> 1/2 <= sigma ->
  (- (1/2) <= ax < 0 -> 2 * ax <= offx_R (gauss sigma ax ay) r < 0 /\
                        Rabs (offx_R (gauss sigma ax ay) r - ax) <= - ax) /\
  (- (1/2) <= ay < 0 -> 2 * ay <= offy_R (gauss sigma ax ay) r < 0 /\
                        Rabs (offy_R (gauss sigma ax ay) r - ay) <= - ay).
Proof. exact gauss_error_does_not_grow_negative. Qed.
Print Assumptions c07_gaussian_error_does_not_grow_negative_partial.

(* ... and every odd size with sigma large relative to the patch (analytic bound) *)
Theorem c07_gaussian_error_does_not_grow_large_sigma_negative_partial : forall sigma ax ay r, (1 <= r)%nat ->
  IZR (Z.of_nat r) * (IZR (Z.of_nat r) + 1) / 6 +
    (2 * IZR (Z.of_nat r) + 1) * (2 * IZR (Z.of_nat r) + 1) / 8 <= sigma * sigma ->
  (- (1/2) <= ax < 0 -> 2 * ax <= offx_R (gauss sigma ax ay) r < 0 /\
                        Rabs (offx_R (gauss sigma ax ay) r - ax) <= - ax) /\
  (- (1/2) <= ay < 0 -> 2 * ay <= offy_R (gauss sigma ax ay) r < 0 /\
                        Rabs (offy_R (gauss sigma ax ay) r - ay) <= - ay).
Proof. exact gauss_no_overshoot_wide_negative. Qed.
Print Assumptions c07_gaussian_error_does_not_grow_large_sigma_negative_partial.

Example ex_c07_large_sigma_hypothesis :
  IZR (Z.of_nat 2) * (IZR (Z.of_nat 2) + 1) / 6 + (2 * IZR (Z.of_nat 2) + 1) * (2 * IZR (Z.of_nat 2) + 1) / 8 <= 3 * 3.
Proof. exact ex_large_sigma_hypothesis. Qed.
