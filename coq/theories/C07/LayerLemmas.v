(* LayerLemmas.v (C07) — proofs about the public wrappers of global peak finding
   (Layer.layer_peaks = FindInstancePeaks.forward / SingleInstanceInferenceModel.forward):
   the layer's answer for every (sample, channel) is the global-peak answer of that
   channel's map at the CONFIGURED threshold / refinement / patch size — whatever their
   values, 0 included — with the coordinates multiplied by
   output_stride / input_scale / eff_scale[sample]. *)
From Coq Require Import List ZArith QArith Qabs Bool Arith Lia Lra Psatz.
From SV Require Import C06.Peaks C06.Lemmas C06.PatchP C07.Global C07.Lemmas C07.PatchP C07.Layer.
Import ListNotations.
Open Scope Q_scope.

(* entry (s, c) of a (samples x channels) table *)
Definition at2 {A} (ll : list (list A)) (s c : nat) : option A :=
  match nth_error ll s with
  | Some l => nth_error l c
  | None => None
  end.

Lemma at2_map_at : forall cms s c, at2 cms s c = map_at cms s c.
Proof. reflexivity. Qed.

(* ------------------------------------------------------------------ *)
(* the keyword call resolves to the configured options                  *)

Lemma layer_kwargs_resolve : forall d fixed cms o,
  find_global_peaks_kw d fixed cms (layer_kwargs o) =
  global_peaks_p fixed cms (threshold_of o) (refine_of o).
Proof. reflexivity. Qed.

Lemma layer_is_rescaled_global_peaks : forall d fixed o effs cms,
  layer_peaks d fixed o effs cms =
  map (fun re : list gpoint * Q => map (rescale_gp o (snd re)) (fst re))
      (combine (global_peaks_p fixed cms (threshold_of o) (refine_of o)) effs).
Proof. reflexivity. Qed.

Lemma combine_map_l {A B C} (f : A -> B) : forall (l : list A) (l' : list C),
  combine (map f l) l' = map (fun p => (f (fst p), snd p)) (combine l l').
Proof.
  induction l as [|a l IH]; intros [|b l']; simpl; try reflexivity. now rewrite IH.
Qed.

Lemma nth_error_combine {A B} : forall (l : list A) (l' : list B) k a b,
  nth_error l k = Some a -> nth_error l' k = Some b -> nth_error (combine l l') k = Some (a, b).
Proof.
  induction l as [|x l IH]; intros [|y l'] [|k] a b Ha Hb; simpl in *; try discriminate.
  - congruence.
  - eauto.
Qed.

(* channel (and sample) independence at the layer level *)
Lemma layer_peaks_pointwise : forall d fixed o effs cms,
  Forall (fun chans => length chans = length (hd [] cms)) cms ->
  layer_peaks d fixed o effs cms =
  map (fun me : list cmap * Q => map (layer_single fixed o (snd me)) (fst me)) (combine cms effs).
Proof.
  intros d fixed o effs cms HC. rewrite layer_is_rescaled_global_peaks.
  rewrite global_peaks_p_pointwise by assumption.
  rewrite combine_map_l, map_map. apply map_ext. intros [chans eff]. simpl.
  rewrite map_map. reflexivity.
Qed.

Lemma layer_peaks_at : forall d fixed o effs cms s c m eff,
  Forall (fun chans => length chans = length (hd [] cms)) cms ->
  map_at cms s c = Some m -> nth_error effs s = Some eff ->
  at2 (layer_peaks d fixed o effs cms) s c = Some (layer_single fixed o eff m).
Proof.
  intros d fixed o effs cms s c m eff HC Hm He.
  rewrite layer_peaks_pointwise by assumption. unfold at2, map_at in *.
  destruct (nth_error cms s) as [chans|] eqn:Ec; [|discriminate].
  rewrite nth_error_map, (nth_error_combine _ _ _ _ _ Ec He). simpl.
  rewrite nth_error_map, Hm. reflexivity.
Qed.

(* ------------------------------------------------------------------ *)
(* the coordinate rescaling is one linear factor                        *)

Definition layer_factor (o : layer_opts) (eff : Q) : Q := lo_stride o / lo_scale o / eff.

Lemma rescale_linear : forall o eff c, rescale o eff c == c * layer_factor o eff.
Proof.
  intros o eff c. unfold rescale, layer_factor.
  destruct (Qeq_bool (lo_scale o) 1) eqn:E.
  - apply Qeq_bool_iff in E.
    assert (Hi : / lo_scale o == 1) by (rewrite E; reflexivity).
    unfold Qdiv. rewrite Hi. ring.
  - unfold Qdiv. ring.
Qed.

Lemma rescale_diff : forall o eff a b,
  rescale o eff a - rescale o eff b == (a - b) * layer_factor o eff.
Proof. intros. rewrite !rescale_linear. ring. Qed.

(* nothing is rescaled when stride = input_scale = eff_scale = 1 *)
Lemma rescale_unit : forall o c, lo_stride o == 1 -> lo_scale o == 1 -> rescale o 1 c == c.
Proof.
  intros o c Hs Hi. rewrite rescale_linear. unfold layer_factor. rewrite Hs, Hi. field.
Qed.

(* ------------------------------------------------------------------ *)
(* the property's clauses at the layer, with the configured threshold   *)

Section OneMap.
  Variables (H W : nat) (m : cmap).
  Hypothesis HR : rect_map H W m.
  Hypothesis HH : (0 < H)%nat.
  Hypothesis HW : (0 < W)%nat.

  (* maximum below the configured threshold: NaN and 0, for every refinement option *)
  Lemma layer_below_threshold : forall fixed o eff mx, is_max m mx ->
    mx < threshold_of o -> layer_single fixed o eff m = (None, 0).
  Proof.
    intros fixed o eff mx Hmx Hlt.
    destruct (rough_threshold_decides H W m HR HH HW fixed (threshold_of o) mx Hmx) as [Hb _].
    specialize (Hb Hlt). unfold layer_single.
    rewrite global_single_p_none by (rewrite Hb; reflexivity). rewrite Hb. reflexivity.
  Qed.

  (* maximum at or above the configured threshold (whatever it is: 0, negative, equal to
     the maximum): the value is the maximum; without refinement the point is the rescaled
     cell (x, y), a cell of the map, which (code as it is now, fixed = true) attains it *)
  Lemma layer_at_or_above_threshold : forall fixed o eff mx, is_max m mx ->
    threshold_of o <= mx ->
    exists x y v, global_rough fixed m (threshold_of o) = (Some (x, y), v) /\ v == mx /\
      (x < W)%nat /\ (y < H)%nat /\
      snd (layer_single fixed o eff m) = v /\
      (refine_of o = None ->
         layer_single fixed o eff m =
         (Some (rescale o eff (inject_Z (Z.of_nat x)), rescale o eff (inject_Z (Z.of_nat y))), v)) /\
      (fixed = true -> attains m y x v).
  Proof.
    intros fixed o eff mx Hmx Hle.
    destruct (rough_threshold_decides H W m HR HH HW fixed (threshold_of o) mx Hmx) as [_ Ha].
    destruct (Ha Hle) as [x [y [v [Hg Ev]]]].
    destruct (rough_value_is_max H W m HR HH HW _ _ _ _ _ Hg) as [_ [_ [Hx Hy]]].
    exists x, y, v. repeat split; auto.
    - unfold layer_single, global_single_p. rewrite Hg.
      destruct (refine_of o); reflexivity.
    - intro Hn. unfold layer_single. rewrite Hn, global_single_p_plain, Hg. reflexivity.
    - intro Hf. subst fixed. eapply rough_fixed_cell_is_max; eauto.
  Qed.

  (* the decision is exactly "maximum < configured threshold" *)
  Lemma layer_valid_iff : forall fixed o eff mx, is_max m mx ->
    (snd (layer_single fixed o eff m) == mx /\ threshold_of o <= mx) \/
    (layer_single fixed o eff m = (None, 0) /\ mx < threshold_of o).
  Proof.
    intros fixed o eff mx Hmx.
    destruct (Qlt_le_dec mx (threshold_of o)) as [Hlt|Hle].
    - right. split; auto. eapply layer_below_threshold; eauto.
    - left. destruct (layer_at_or_above_threshold fixed o eff mx Hmx Hle)
        as [x [y [v [_ [Ev [_ [_ [Hs _]]]]]]]].
      rewrite Hs. auto.
  Qed.
End OneMap.

(* refinement bound in image units: at most (p-1)/2 < p/2 map cells times the factor *)
Lemma layer_refine_bound : forall fixed o eff m x y v,
  lo_refinement o = RefIntegral -> (1 <= lo_patch o)%nat ->
  global_rough fixed m (threshold_of o) = (Some (x, y), v) ->
  selector_F9_p m y x (lo_patch o) = false ->
  exists X Y, layer_single fixed o eff m = (Some (X, Y), v) /\
    Qabs (X - rescale o eff (inject_Z (Z.of_nat x))) <= half_reach (lo_patch o) * Qabs (layer_factor o eff) /\
    Qabs (Y - rescale o eff (inject_Z (Z.of_nat y))) <= half_reach (lo_patch o) * Qabs (layer_factor o eff) /\
    half_reach (lo_patch o) < inject_Z (Z.of_nat (lo_patch o)) / 2.
Proof.
  intros fixed o eff m x y v Hrf Hp Hg Hsel.
  destruct (global_refine_bound_p fixed (threshold_of o) (lo_patch o) m x y v Hp Hg Hsel)
    as [px [py [E [Bx [By Bh]]]]].
  exists (rescale o eff px), (rescale o eff py). split; [|split; [|split]]; auto.
  - unfold layer_single, refine_of. rewrite Hrf. simpl. rewrite E. reflexivity.
  - rewrite rescale_diff, Qabs_Qmult. apply Qmult_le_compat_r; auto. apply Qabs_nonneg.
  - rewrite rescale_diff, Qabs_Qmult. apply Qmult_le_compat_r; auto. apply Qabs_nonneg.
Qed.

(* forwarding only the "truthy" options is a different function: with the layer's
   default peak_threshold = 0 the callee's 0.2 takes over and a channel whose maximum is
   1/8 is lost *)
Definition default_opts : layer_opts := mk_opts 0 RefIntegral 5 1 1.

Lemma truthy_forwarding_differs :
  exists o effs cms,
    layer_with callee_defaults (truthy_kwargs o) true o effs cms <> layer_peaks callee_defaults true o effs cms /\
    at2 (layer_with callee_defaults (truthy_kwargs o) true o effs cms) 0 0 = Some (None, 0) /\
    exists pt, at2 (layer_peaks callee_defaults true o effs cms) 0 0 = Some (Some pt, 1 # 8).
Proof.
  exists (mk_opts 0 RefNone 5 1 1), [1], [[ [[0; 1 # 8]; [0; 0]] ]].
  split; [|split].
  - vm_compute. discriminate.
  - vm_compute. reflexivity.
  - eexists. vm_compute. reflexivity.
Qed.
