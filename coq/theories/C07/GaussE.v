(* GaussE.v (C07) — the integral-regression formula over the reals for an EVEN
   integral_patch_size p = 2h (samples at half-pixel positions = means of 2x2 cells), the
   bridge with the rational model (Peaks.epatch / egv), and the direction of the
   refinement on a radially decreasing bump.  Together with GaussR.v (odd p) this gives
   the statements for every p >= 2.  Proofs; statements are collected in Props.v. *)
From Coq Require Import List ZArith QArith Qreals Reals Lra Lia Psatz.
From SV Require Import C06.Peaks C06.Lemmas C06.PatchP C07.Global C07.Lemmas C07.GaussR.
Import ListNotations.
Local Open Scope R_scope.

(* window function f i j (cell offsets); sample (i, j), i, j in -h+1 .. h, sits at
   (i - 1/2, j - 1/2) and is the mean of cells (i-1 | i) x (j-1 | j) *)
Definition samp_R (f : Z -> Z -> R) (i j : Z) : R :=
  (f (i - 1)%Z (j - 1)%Z + f (i - 1)%Z j + f i (j - 1)%Z + f i j) / 4.

Definition erow_mass (f : Z -> Z -> R) (h : nat) (i : Z) : R :=
  rsum (map (fun j => samp_R f i j) (ezrange h)).
Definition emass_R (f : Z -> Z -> R) (h : nat) : R := rsum (map (erow_mass f h) (ezrange h)).
Definition enumx_R (f : Z -> Z -> R) (h : nat) : R :=
  rsum (map (fun i => rsum (map (fun j => (IZR j - 1 / 2) * samp_R f i j) (ezrange h))) (ezrange h)).
Definition enumy_R (f : Z -> Z -> R) (h : nat) : R :=
  rsum (map (fun i => (IZR i - 1 / 2) * erow_mass f h i) (ezrange h)).
Definition offx_E f h := enumx_R f h / emass_R f h.
Definition offy_E f h := enumy_R f h / emass_R f h.

(* the formula for a patch of size p: odd p = 2r+1 -> offx_R . r, even p = 2h -> offx_E . h *)
Definition offx_P (f : Z -> Z -> R) (p : nat) : R :=
  if Nat.even p then offx_E f (p / 2) else offx_R f (p / 2).
Definition offy_P (f : Z -> Z -> R) (p : nat) : R :=
  if Nat.even p then offy_E f (p / 2) else offy_R f (p / 2).

(* ---- link with the rational model ---- *)

Lemma dot_map_row {A} : forall (g c : A -> Q) zs,
  dot (map g zs) (map c zs) = qsum (map (fun z => (g z * c z)%Q) zs).
Proof. intros. unfold dot. now rewrite combine_map_same, map_map. Qed.

Lemma Q2R_half : Q2R (1 # 2) = 1 / 2.
Proof. unfold Q2R. simpl. lra. Qed.

Lemma Q2R_four : Q2R 4 = 4.
Proof. unfold Q2R. simpl. lra. Qed.

Section BridgeE.
  Variables (m : cmap) (y x h : nat).
  Let c (i j : Z) : Q := cell0 m (Z.of_nat y + i) (Z.of_nat x + j).
  Let f (i j : Z) : R := Q2R (c i j).
  Let s (i j : Z) : Q := samp4 m (Z.of_nat y + i) (Z.of_nat x + j).

  Lemma samp_Q2R : forall i j, Q2R (s i j) = samp_R f i j.
  Proof.
    intros i j. unfold s, samp4, samp_R, f, c.
    replace (Z.of_nat y + i - 1)%Z with (Z.of_nat y + (i - 1))%Z by lia.
    replace (Z.of_nat x + j - 1)%Z with (Z.of_nat x + (j - 1))%Z by lia.
    rewrite Q2R_div by (intro E; discriminate E). rewrite !Q2R_plus, Q2R_four. reflexivity.
  Qed.

  Lemma epatch_as_fun : epatch m y x h = map (fun i => map (fun j => s i j) (ezrange h)) (ezrange h).
  Proof. reflexivity. Qed.

  Lemma emass_Q2R : Q2R (qsum (map qsum (epatch m y x h))) = emass_R f h.
  Proof.
    rewrite epatch_as_fun, Q2R_qsum, !map_map. unfold emass_R. f_equal.
    apply map_ext. intro i. unfold erow_mass. rewrite Q2R_qsum, map_map. f_equal.
    apply map_ext. intro j. apply samp_Q2R.
  Qed.

  Lemma enumx_Q2R : Q2R (qsum (map (dot (egv h)) (epatch m y x h))) = enumx_R f h.
  Proof.
    rewrite epatch_as_fun, Q2R_qsum, !map_map. unfold enumx_R. f_equal.
    apply map_ext. intro i. unfold egv. rewrite dot_map_row, Q2R_qsum, map_map. f_equal.
    apply map_ext. intro j. rewrite Q2R_mult, Q2R_minus, Q2R_inject_Z, Q2R_half, samp_Q2R. reflexivity.
  Qed.

  Lemma enumy_Q2R : Q2R (dot (egv h) (map qsum (epatch m y x h))) = enumy_R f h.
  Proof.
    rewrite epatch_as_fun, map_map. unfold egv.
    rewrite (dot_map_row (fun k => (inject_Z k - (1 # 2))%Q)
                         (fun i => qsum (map (fun j => s i j) (ezrange h)))).
    rewrite Q2R_qsum, map_map. unfold enumy_R. f_equal. apply map_ext. intro i.
    rewrite Q2R_mult, Q2R_minus, Q2R_inject_Z, Q2R_half. unfold erow_mass.
    rewrite Q2R_qsum, map_map. f_equal. f_equal. apply map_ext. intro j. apply samp_Q2R.
  Qed.

  Lemma offset_Q2R_even : forall dx dy,
    integral_offset (egv h) (egv h) (epatch m y x h) = Some (dx, dy) ->
    Q2R dx = offx_E f h /\ Q2R dy = offy_E f h.
  Proof.
    intros dx dy Ho. unfold integral_offset in Ho.
    destruct (Qeq_bool (qsum (map qsum (epatch m y x h))) 0) eqn:E; [discriminate|].
    apply Qeq_bool_false_neq in E. inversion Ho; subst. clear Ho.
    unfold offx_E, offy_E. rewrite <- emass_Q2R, <- enumx_Q2R, <- enumy_Q2R.
    split; apply Q2R_div; auto.
  Qed.
End BridgeE.

(* the model's offsets for any patch size, read in R *)
Lemma offset_Q2R_p : forall m y x p dx dy,
  integral_offset (gv_p p) (gv_p p) (patch_p m y x p) = Some (dx, dy) ->
  Q2R dx = offx_P (fun i j => Q2R (cell0 m (Z.of_nat y + i) (Z.of_nat x + j))) p /\
  Q2R dy = offy_P (fun i j => Q2R (cell0 m (Z.of_nat y + i) (Z.of_nat x + j))) p.
Proof.
  intros m y x p dx dy Ho. unfold offx_P, offy_P. unfold gv_p, patch_p in Ho.
  destruct (Nat.even p).
  - now apply offset_Q2R_even.
  - now apply offset_Q2R.
Qed.

(* ---- pairing sample j with sample 1 - j ---- *)

Fixpoint epsum (H : Z -> R) (h : nat) : R :=
  match h with
  | O => 0
  | S h' => epsum H h' + (H (Z.of_nat (S h')) + H (1 - Z.of_nat (S h'))%Z)
  end.

Lemma ezrange_S : forall h,
  ezrange (S h) = (1 - Z.of_nat (S h))%Z :: ezrange h ++ [Z.of_nat (S h)].
Proof.
  intro h. unfold ezrange. replace (2 * S h)%nat with (S (S (2 * h))) by lia.
  set (n := (2 * h)%nat).
  rewrite seq_S. change (seq 0 (S n)) with (0%nat :: seq 1 n). rewrite map_app. cbn [map app].
  replace (Z.of_nat 0 - Z.of_nat (S h) + 1)%Z with (1 - Z.of_nat (S h))%Z by lia.
  replace (Z.of_nat (0 + S n) - Z.of_nat (S h) + 1)%Z with (Z.of_nat (S h)) by (unfold n; lia).
  rewrite <- seq_shift, map_map.
  rewrite (map_ext (fun x : nat => (Z.of_nat (S x) - Z.of_nat (S h) + 1)%Z)
                   (fun k : nat => (Z.of_nat k - Z.of_nat h + 1)%Z)) by (intro k; lia).
  reflexivity.
Qed.

Lemma rsum_ezrange : forall H h, rsum (map H (ezrange h)) = epsum H h.
Proof.
  intros H. induction h as [|h IH].
  - reflexivity.
  - rewrite ezrange_S. simpl map. rewrite map_app. simpl rsum. rewrite rsum_app, IH.
    simpl. lra.
Qed.

Lemma epsum_pos : forall H h,
  (forall k, (1 <= k <= h)%nat -> 0 < H (Z.of_nat k) + H (1 - Z.of_nat k)%Z) ->
  0 <= epsum H h /\ ((1 <= h)%nat -> 0 < epsum H h).
Proof.
  intros H h. induction h as [|h IH]; intros Hk.
  - simpl. split; [lra|lia].
  - destruct IH as [A _]; [intros; apply Hk; lia|].
    pose proof (Hk (S h) ltac:(lia)). cbn [epsum]. split; [|intros _]; lra.
Qed.

Lemma epsum_opp : forall H h, epsum (fun k => - H k) h = - epsum H h.
Proof. intros H h. induction h as [|h IH]; cbn [epsum]; [lra|]. rewrite IH. lra. Qed.

Lemma epsum_zero : forall H h,
  (forall k, (1 <= k <= h)%nat -> H (Z.of_nat k) + H (1 - Z.of_nat k)%Z = 0) -> epsum H h = 0.
Proof.
  intros H h. induction h as [|h IH]; intros Hk; cbn [epsum]; auto.
  rewrite IH by (intros; apply Hk; lia). pose proof (Hk (S h) ltac:(lia)). lra.
Qed.

Lemma ezrange_nonempty : forall h, (1 <= h)%nat -> ezrange h <> [].
Proof.
  intros h Hh E. assert (In 0%Z (ezrange h)) by (apply In_ezrange; lia). rewrite E in H. contradiction.
Qed.

Lemma rsum_neg {A} : forall (g : A -> R) l, l <> [] -> (forall a, In a l -> g a < 0) ->
  rsum (map g l) < 0.
Proof.
  intros g l Hne Hn. pose proof (rsum_lt g (fun _ => 0) l Hne Hn) as H.
  rewrite (rsum_zero (fun _ : A => 0) l) in H by auto. exact H.
Qed.

(* ---- sample differences in terms of cell differences ---- *)

Lemma samp_col_diff : forall (f : Z -> Z -> R) i k,
  samp_R f i (Z.of_nat (S k)) - samp_R f i (1 - Z.of_nat (S k))%Z =
  ((f (i - 1)%Z (Z.of_nat (S k)) - f (i - 1)%Z (- Z.of_nat (S k))%Z) +
   (f i (Z.of_nat (S k)) - f i (- Z.of_nat (S k))%Z) +
   (f (i - 1)%Z (Z.of_nat k) - f (i - 1)%Z (- Z.of_nat k)%Z) +
   (f i (Z.of_nat k) - f i (- Z.of_nat k)%Z)) / 4.
Proof.
  intros f i k. unfold samp_R.
  replace (Z.of_nat (S k) - 1)%Z with (Z.of_nat k) by lia.
  replace (1 - Z.of_nat (S k) - 1)%Z with (- Z.of_nat (S k))%Z by lia.
  replace (1 - Z.of_nat (S k))%Z with (- Z.of_nat k)%Z by lia. lra.
Qed.

Lemma samp_row_diff : forall (f : Z -> Z -> R) j k,
  samp_R f (Z.of_nat (S k)) j - samp_R f (1 - Z.of_nat (S k))%Z j =
  ((f (Z.of_nat (S k)) (j - 1)%Z - f (- Z.of_nat (S k))%Z (j - 1)%Z) +
   (f (Z.of_nat (S k)) j - f (- Z.of_nat (S k))%Z j) +
   (f (Z.of_nat k) (j - 1)%Z - f (- Z.of_nat k)%Z (j - 1)%Z) +
   (f (Z.of_nat k) j - f (- Z.of_nat k)%Z j)) / 4.
Proof.
  intros f j k. unfold samp_R.
  replace (Z.of_nat (S k) - 1)%Z with (Z.of_nat k) by lia.
  replace (1 - Z.of_nat (S k) - 1)%Z with (- Z.of_nat (S k))%Z by lia.
  replace (1 - Z.of_nat (S k))%Z with (- Z.of_nat k)%Z by lia. lra.
Qed.

Lemma half_weight_pos : forall k, (1 <= k)%nat -> 0 < IZR (Z.of_nat k) - 1 / 2.
Proof. intros k Hk. assert (1 <= IZR (Z.of_nat k)) by (apply IZR_le; lia). lra. Qed.

Lemma pair_weight : forall k, IZR (1 - Z.of_nat k) - 1 / 2 = - (IZR (Z.of_nat k) - 1 / 2).
Proof. intro k. rewrite minus_IZR. lra. Qed.

(* ---- sign of the numerators from the sign of the left/right (up/down) cell differences ---- *)

Section SignX.
  Variables (f : Z -> Z -> R) (h : nat).
  Hypothesis Hh : (1 <= h)%nat.

  (* D i k = cell difference f i k - f i (-k) *)
  Lemma enumx_pos :
    (forall i k, 0 <= f i (Z.of_nat k) - f i (- Z.of_nat k)%Z) ->
    (forall i k, (1 <= k)%nat -> 0 < f i (Z.of_nat k) - f i (- Z.of_nat k)%Z) ->
    0 < enumx_R f h.
  Proof.
    intros Hle Hlt. unfold enumx_R. apply rsum_pos; [now apply ezrange_nonempty|]. intros i _.
    rewrite (rsum_ezrange (fun j => (IZR j - 1 / 2) * samp_R f i j)).
    apply epsum_pos; auto. intros k Hk. rewrite pair_weight.
    destruct k as [|k]; [lia|]. pose proof (samp_col_diff f i k) as D.
    pose proof (half_weight_pos (S k) ltac:(lia)).
    pose proof (Hlt (i - 1)%Z (S k) ltac:(lia)). pose proof (Hlt i (S k) ltac:(lia)).
    pose proof (Hle (i - 1)%Z k). pose proof (Hle i k). nra.
  Qed.

  Lemma enumx_neg :
    (forall i k, f i (Z.of_nat k) - f i (- Z.of_nat k)%Z <= 0) ->
    (forall i k, (1 <= k)%nat -> f i (Z.of_nat k) - f i (- Z.of_nat k)%Z < 0) ->
    enumx_R f h < 0.
  Proof.
    intros Hle Hlt. unfold enumx_R. apply rsum_neg; [now apply ezrange_nonempty|]. intros i _.
    rewrite (rsum_ezrange (fun j => (IZR j - 1 / 2) * samp_R f i j)).
    assert (0 < epsum (fun j => - ((IZR j - 1 / 2) * samp_R f i j)) h); [|rewrite epsum_opp in *; lra].
    apply epsum_pos; auto. intros k Hk. rewrite pair_weight.
    destruct k as [|k]; [lia|]. pose proof (samp_col_diff f i k) as D.
    pose proof (half_weight_pos (S k) ltac:(lia)).
    pose proof (Hlt (i - 1)%Z (S k) ltac:(lia)). pose proof (Hlt i (S k) ltac:(lia)).
    pose proof (Hle (i - 1)%Z k). pose proof (Hle i k). nra.
  Qed.

  Lemma enumx_zero :
    (forall i k, f i (Z.of_nat k) - f i (- Z.of_nat k)%Z = 0) -> enumx_R f h = 0.
  Proof.
    intros Hz. unfold enumx_R. apply rsum_zero. intros i _.
    rewrite (rsum_ezrange (fun j => (IZR j - 1 / 2) * samp_R f i j)).
    apply epsum_zero. intros k Hk. rewrite pair_weight.
    destruct k as [|k]; [lia|]. pose proof (samp_col_diff f i k) as D.
    rewrite (Hz (i - 1)%Z (S k)), (Hz i (S k)), (Hz (i - 1)%Z k), (Hz i k) in D. nra.
  Qed.

  Lemma erow_diff_pos :
    (forall j k, 0 <= f (Z.of_nat k) j - f (- Z.of_nat k)%Z j) ->
    (forall j k, (1 <= k)%nat -> 0 < f (Z.of_nat k) j - f (- Z.of_nat k)%Z j) ->
    forall k, erow_mass f h (1 - Z.of_nat (S k))%Z < erow_mass f h (Z.of_nat (S k)).
  Proof.
    intros Hle Hlt k. unfold erow_mass. apply rsum_lt; [now apply ezrange_nonempty|]. intros j _.
    pose proof (samp_row_diff f j k) as D.
    pose proof (Hlt (j - 1)%Z (S k) ltac:(lia)). pose proof (Hlt j (S k) ltac:(lia)).
    pose proof (Hle (j - 1)%Z k). pose proof (Hle j k). lra.
  Qed.

  Lemma enumy_pos :
    (forall j k, 0 <= f (Z.of_nat k) j - f (- Z.of_nat k)%Z j) ->
    (forall j k, (1 <= k)%nat -> 0 < f (Z.of_nat k) j - f (- Z.of_nat k)%Z j) ->
    0 < enumy_R f h.
  Proof.
    intros Hle Hlt. unfold enumy_R.
    rewrite (rsum_ezrange (fun i => (IZR i - 1 / 2) * erow_mass f h i)).
    apply epsum_pos; auto. intros k Hk. rewrite pair_weight.
    destruct k as [|k]; [lia|]. pose proof (erow_diff_pos Hle Hlt k).
    pose proof (half_weight_pos (S k) ltac:(lia)). nra.
  Qed.

  Lemma erow_diff_neg :
    (forall j k, f (Z.of_nat k) j - f (- Z.of_nat k)%Z j <= 0) ->
    (forall j k, (1 <= k)%nat -> f (Z.of_nat k) j - f (- Z.of_nat k)%Z j < 0) ->
    forall k, erow_mass f h (Z.of_nat (S k)) < erow_mass f h (1 - Z.of_nat (S k))%Z.
  Proof.
    intros Hle Hlt k. unfold erow_mass. apply rsum_lt; [now apply ezrange_nonempty|]. intros j _.
    pose proof (samp_row_diff f j k) as D.
    pose proof (Hlt (j - 1)%Z (S k) ltac:(lia)). pose proof (Hlt j (S k) ltac:(lia)).
    pose proof (Hle (j - 1)%Z k). pose proof (Hle j k). lra.
  Qed.

  Lemma enumy_neg :
    (forall j k, f (Z.of_nat k) j - f (- Z.of_nat k)%Z j <= 0) ->
    (forall j k, (1 <= k)%nat -> f (Z.of_nat k) j - f (- Z.of_nat k)%Z j < 0) ->
    enumy_R f h < 0.
  Proof.
    intros Hle Hlt. unfold enumy_R.
    rewrite (rsum_ezrange (fun i => (IZR i - 1 / 2) * erow_mass f h i)).
    assert (0 < epsum (fun i => - ((IZR i - 1 / 2) * erow_mass f h i)) h); [|rewrite epsum_opp in *; lra].
    apply epsum_pos; auto. intros k Hk. rewrite pair_weight.
    destruct k as [|k]; [lia|]. pose proof (erow_diff_neg Hle Hlt k).
    pose proof (half_weight_pos (S k) ltac:(lia)). nra.
  Qed.

  Lemma enumy_zero :
    (forall j k, f (Z.of_nat k) j - f (- Z.of_nat k)%Z j = 0) -> enumy_R f h = 0.
  Proof.
    intros Hz. unfold enumy_R.
    rewrite (rsum_ezrange (fun i => (IZR i - 1 / 2) * erow_mass f h i)).
    apply epsum_zero. intros k Hk. rewrite pair_weight.
    destruct k as [|k]; [lia|].
    assert (E : erow_mass f h (1 - Z.of_nat (S k))%Z = erow_mass f h (Z.of_nat (S k))).
    { unfold erow_mass. f_equal. apply map_ext. intro j. pose proof (samp_row_diff f j k) as D.
      rewrite (Hz (j - 1)%Z (S k)), (Hz j (S k)), (Hz (j - 1)%Z k), (Hz j k) in D. lra. }
    rewrite E. lra.
  Qed.

  Lemma emass_pos : (forall i j, 0 < f i j) -> 0 < emass_R f h.
  Proof.
    intro Hp. unfold emass_R. apply rsum_pos; [now apply ezrange_nonempty|]. intros i _.
    unfold erow_mass. apply rsum_pos; [now apply ezrange_nonempty|]. intros j _. unfold samp_R.
    pose proof (Hp (i - 1)%Z (j - 1)%Z). pose proof (Hp (i - 1)%Z j). pose proof (Hp i (j - 1)%Z).
    pose proof (Hp i j). lra.
  Qed.
End SignX.

(* ---- the bump ---- *)
Section BumpE.
  Variable phi : R -> R.
  Hypothesis phi_pos : forall t, 0 < phi t.
  Hypothesis phi_dec : forall s t, 0 <= s -> s < t -> phi t < phi s.
  Variables ax ay : R.
  Variable h : nat.
  Hypothesis Hh : (1 <= h)%nat.
  Let B := bump phi ax ay.

  Lemma bump_zero_col : forall i, B i (Z.of_nat 0) - B i (- Z.of_nat 0)%Z = 0.
  Proof. intro i. change (- Z.of_nat 0)%Z with (Z.of_nat 0). lra. Qed.

  Lemma bump_zero_row : forall j, B (Z.of_nat 0) j - B (- Z.of_nat 0)%Z j = 0.
  Proof. intro j. change (- Z.of_nat 0)%Z with (Z.of_nat 0). lra. Qed.

  Lemma bump_col_gt : forall i k, (1 <= k)%nat -> ax < 0 -> B i (Z.of_nat k) < B i (- Z.of_nat k)%Z.
  Proof.
    intros i k Hk Ha. unfold B. rewrite (bump_mirror_x phi ax ay i (Z.of_nat k)).
    rewrite (bump_mirror_x phi ax ay i (- Z.of_nat k)%Z), Z.opp_involutive.
    apply bump_col_lt; auto. lra.
  Qed.

  Lemma bump_row_gt : forall j k, (1 <= k)%nat -> ay < 0 -> B (Z.of_nat k) j < B (- Z.of_nat k)%Z j.
  Proof.
    intros j k Hk Ha. unfold B. rewrite (bump_mirror_y phi ax ay (Z.of_nat k) j).
    rewrite (bump_mirror_y phi ax ay (- Z.of_nat k)%Z j), Z.opp_involutive.
    apply bump_row_lt; auto. lra.
  Qed.

  Lemma eoffx_pos : 0 < ax -> 0 < offx_E B h.
  Proof.
    intro Ha. unfold offx_E. apply Rdiv_lt_0_compat; [|apply emass_pos; auto; intros; apply phi_pos].
    apply enumx_pos; auto.
    - intros i [|k]; [rewrite bump_zero_col; lra|].
      pose proof (bump_col_lt phi phi_dec ax ay i (S k) ltac:(lia) Ha). unfold B. lra.
    - intros i k Hk. pose proof (bump_col_lt phi phi_dec ax ay i k Hk Ha). unfold B. lra.
  Qed.

  Lemma eoffx_neg : ax < 0 -> offx_E B h < 0.
  Proof.
    intro Ha. unfold offx_E.
    assert (N : enumx_R B h < 0).
    { apply enumx_neg; auto.
      - intros i [|k]; [rewrite bump_zero_col; lra|]. pose proof (bump_col_gt i (S k) ltac:(lia) Ha). lra.
      - intros i k Hk. pose proof (bump_col_gt i k Hk Ha). lra. }
    assert (M : 0 < emass_R B h) by (apply emass_pos; auto; intros; apply phi_pos).
    assert (0 < - enumx_R B h / emass_R B h) by (apply Rdiv_lt_0_compat; lra).
    unfold Rdiv in *. lra.
  Qed.

  Lemma eoffx_zero : ax = 0 -> offx_E B h = 0.
  Proof.
    intro Ha. unfold offx_E. replace (enumx_R B h) with 0; [unfold Rdiv; lra|].
    symmetry. apply enumx_zero; auto. intros i k. unfold B, bump. rewrite opp_IZR, Ha.
    replace ((- IZR (Z.of_nat k) - 0) * (- IZR (Z.of_nat k) - 0))
      with ((IZR (Z.of_nat k) - 0) * (IZR (Z.of_nat k) - 0)) by ring. ring.
  Qed.

  Lemma eoffy_pos : 0 < ay -> 0 < offy_E B h.
  Proof.
    intro Ha. unfold offy_E. apply Rdiv_lt_0_compat; [|apply emass_pos; auto; intros; apply phi_pos].
    apply enumy_pos; auto.
    - intros j [|k]; [rewrite bump_zero_row; lra|].
      pose proof (bump_row_lt phi phi_dec ax ay j (S k) ltac:(lia) Ha). unfold B. lra.
    - intros j k Hk. pose proof (bump_row_lt phi phi_dec ax ay j k Hk Ha). unfold B. lra.
  Qed.

  Lemma eoffy_neg : ay < 0 -> offy_E B h < 0.
  Proof.
    intro Ha. unfold offy_E.
    assert (N : enumy_R B h < 0).
    { apply enumy_neg; auto.
      - intros j [|k]; [rewrite bump_zero_row; lra|]. pose proof (bump_row_gt j (S k) ltac:(lia) Ha). lra.
      - intros j k Hk. pose proof (bump_row_gt j k Hk Ha). lra. }
    assert (M : 0 < emass_R B h) by (apply emass_pos; auto; intros; apply phi_pos).
    assert (0 < - enumy_R B h / emass_R B h) by (apply Rdiv_lt_0_compat; lra).
    unfold Rdiv in *. lra.
  Qed.

  Lemma eoffy_zero : ay = 0 -> offy_E B h = 0.
  Proof.
    intro Ha. unfold offy_E. replace (enumy_R B h) with 0; [unfold Rdiv; lra|].
    symmetry. apply enumy_zero; auto. intros j k. unfold B, bump. rewrite opp_IZR, Ha.
    replace ((- IZR (Z.of_nat k) - 0) * (- IZR (Z.of_nat k) - 0))
      with ((IZR (Z.of_nat k) - 0) * (IZR (Z.of_nat k) - 0)) by ring. ring.
  Qed.
End BumpE.

(* ---- every patch size p >= 2 ---- *)
Lemma bump_direction_p :
  forall phi : R -> R, (forall t, 0 < phi t) -> (forall s t, 0 <= s -> s < t -> phi t < phi s) ->
  forall ax ay p, (2 <= p)%nat ->
  (0 < ax -> 0 < offx_P (bump phi ax ay) p) /\ (ax < 0 -> offx_P (bump phi ax ay) p < 0) /\
  (ax = 0 -> offx_P (bump phi ax ay) p = 0) /\
  (0 < ay -> 0 < offy_P (bump phi ax ay) p) /\ (ay < 0 -> offy_P (bump phi ax ay) p < 0) /\
  (ay = 0 -> offy_P (bump phi ax ay) p = 0).
Proof.
  intros phi Hp Hd ax ay p Hp2. unfold offx_P, offy_P.
  destruct (parity_cases p) as [[r ->]|[h ->]].
  - rewrite even_odd_p, half_odd_p. apply bump_direction; auto. lia.
  - rewrite even_even_p, half_even_p. assert (Hh : (1 <= h)%nat) by lia.
    repeat split; intros.
    + apply eoffx_pos; auto.
    + apply eoffx_neg; auto.
    + apply eoffx_zero; auto.
    + apply eoffy_pos; auto.
    + apply eoffy_neg; auto.
    + apply eoffy_zero; auto.
Qed.

Lemma gauss_direction_p : forall sigma ax ay p, sigma <> 0 -> (2 <= p)%nat ->
  (0 < ax -> 0 < offx_P (gauss sigma ax ay) p) /\ (ax < 0 -> offx_P (gauss sigma ax ay) p < 0) /\
  (ax = 0 -> offx_P (gauss sigma ax ay) p = 0) /\
  (0 < ay -> 0 < offy_P (gauss sigma ax ay) p) /\ (ay < 0 -> offy_P (gauss sigma ax ay) p < 0) /\
  (ay = 0 -> offy_P (gauss sigma ax ay) p = 0).
Proof.
  intros sigma ax ay p Hs Hp. rewrite gauss_is_bump. apply bump_direction_p; auto.
  - intro t. apply exp_pos.
  - apply gauss_profile_dec; auto.
Qed.
