(* GaussBox.v (C07) — on a Gaussian bump the refinement does not overshoot: the
   offset lies between 0 and twice the true sub-pixel displacement, so the error
   after refinement is at most the error before.  Proved for patch sizes 3, 5, 7
   (r = 1, 2, 3), every displacement 0 < a <= 1/2 and every sigma in the box
   [1/2, 4] (interval arithmetic over the continuous box — not a sample; the
   sliver a < 1/16 is handled analytically through 1 - exp(-t) <= t). *)
From Coq Require Import List ZArith Reals Lra Lia Psatz.
From Interval Require Import Tactic.
From SV Require Import C06.Peaks C07.GaussR.
Import ListNotations.
Local Open Scope R_scope.

Definition g1 (sigma a : R) (j : Z) : R :=
  exp (- ((IZR j - a) * (IZR j - a)) / (2 * sigma * sigma)).

Definition off1 (sigma a : R) (r : nat) : R :=
  rsum (map (fun j => IZR j * g1 sigma a j) (zrange r)) / rsum (map (g1 sigma a) (zrange r)).

Lemma gauss_sep : forall sigma ax ay i j, gauss sigma ax ay i j = g1 sigma ay i * g1 sigma ax j.
Proof.
  intros. unfold gauss, g1. rewrite <- exp_plus. f_equal. unfold Rdiv. ring.
Qed.

Lemma rsum_scal {A} : forall (c : R) (g : A -> R) l, rsum (map (fun a => c * g a) l) = c * rsum (map g l).
Proof. intros c g l. induction l as [|a l IH]; simpl; [lra|]. rewrite IH. lra. Qed.

Lemma rsum_scal_r {A} : forall (c : R) (g : A -> R) l, rsum (map (fun a => g a * c) l) = rsum (map g l) * c.
Proof. intros c g l. induction l as [|a l IH]; simpl; [lra|]. rewrite IH. lra. Qed.

Lemma g1_pos : forall sigma a j, 0 < g1 sigma a j.
Proof. intros. apply exp_pos. Qed.

Lemma g1_mass_pos : forall sigma a r, 0 < rsum (map (g1 sigma a) (zrange r)).
Proof. intros. apply rsum_pos; [apply zrange_nonempty|]. intros. apply g1_pos. Qed.

Lemma mass_sep : forall sigma ax ay r,
  mass_R (gauss sigma ax ay) r = rsum (map (g1 sigma ay) (zrange r)) * rsum (map (g1 sigma ax) (zrange r)).
Proof.
  intros. unfold mass_R, row_mass.
  rewrite (map_ext _ (fun i => g1 sigma ay i * rsum (map (g1 sigma ax) (zrange r)))).
  - apply rsum_scal_r.
  - intro i. rewrite <- rsum_scal. f_equal. apply map_ext. intro j. apply gauss_sep.
Qed.

Lemma offx_sep : forall sigma ax ay r, offx_R (gauss sigma ax ay) r = off1 sigma ax r.
Proof.
  intros. unfold offx_R, off1. rewrite mass_sep. unfold numx_R.
  rewrite (map_ext _ (fun i => g1 sigma ay i * rsum (map (fun j => IZR j * g1 sigma ax j) (zrange r)))).
  - rewrite rsum_scal_r. pose proof (g1_mass_pos sigma ay r). pose proof (g1_mass_pos sigma ax r).
    field. lra.
  - intro i. rewrite <- rsum_scal. f_equal. apply map_ext. intro j. rewrite gauss_sep. ring.
Qed.

Lemma offy_sep : forall sigma ax ay r, offy_R (gauss sigma ax ay) r = off1 sigma ay r.
Proof.
  intros. unfold offy_R, off1. rewrite mass_sep. unfold numy_R, row_mass.
  rewrite (map_ext _ (fun i => (IZR i * g1 sigma ay i) * rsum (map (g1 sigma ax) (zrange r)))).
  - rewrite rsum_scal_r. pose proof (g1_mass_pos sigma ay r). pose proof (g1_mass_pos sigma ax r).
    field. lra.
  - intro i. rewrite Rmult_assoc. f_equal. rewrite <- rsum_scal. f_equal. apply map_ext.
    intro j. apply gauss_sep.
Qed.

Lemma div_le : forall n m b, 0 < m -> n <= b * m -> n / m <= b.
Proof.
  intros n m b Hm H. unfold Rdiv. apply Rmult_le_reg_r with m; auto.
  rewrite Rmult_assoc, Rinv_l by lra. lra.
Qed.

(* g1(-k) = g1(k) * exp(-2ka/sigma^2), hence g1(k) - g1(-k) <= (2ka/sigma^2) g1(k) *)
Lemma g1_pair : forall sigma a k, sigma <> 0 ->
  g1 sigma a k - g1 sigma a (- k)%Z <= (2 * IZR k * a / (sigma * sigma)) * g1 sigma a k.
Proof.
  intros sigma a k Hs.
  assert (E : g1 sigma a (- k)%Z = g1 sigma a k * exp (- (2 * IZR k * a / (sigma * sigma)))).
  { unfold g1. rewrite <- exp_plus, opp_IZR. f_equal. field. auto. }
  rewrite E. pose proof (exp_ineq1_le (- (2 * IZR k * a / (sigma * sigma)))).
  pose proof (g1_pos sigma a k). nra.
Qed.

Section Box.
  Variables sigma a : R.
  Hypothesis Hs : 1/2 <= sigma <= 4.
  Hypothesis Ha : 0 < a <= 1/2.

  Let s_ne : sigma <> 0. Proof. lra. Qed.

  (* r = 1 *)
  Lemma box1_hi : 1/16 <= a ->
    -1 * g1 sigma a (-1) + 0 * g1 sigma a 0 + 1 * g1 sigma a 1 <=
    2 * a * (g1 sigma a (-1) + g1 sigma a 0 + g1 sigma a 1).
  Proof.
    intro H. match goal with |- ?l <= ?r => cut (0 <= r - l); [lra|] end.
    unfold g1. interval with (i_bisect a, i_bisect sigma, i_depth 24, i_prec 40).
  Qed.

  Lemma box1_lo : a <= 1/16 ->
    1 / (sigma * sigma) * g1 sigma a 1 <= g1 sigma a (-1) + g1 sigma a 0 + g1 sigma a 1.
  Proof.
    intro H. match goal with |- ?l <= ?r => cut (0 <= r - l); [lra|] end.
    unfold g1. interval with (i_bisect a, i_bisect sigma, i_depth 24, i_prec 40).
  Qed.

  Lemma box1 :
    -1 * g1 sigma a (-1) + 0 * g1 sigma a 0 + 1 * g1 sigma a 1 <=
    2 * a * (g1 sigma a (-1) + g1 sigma a 0 + g1 sigma a 1).
  Proof.
    destruct (Rle_dec (1/16) a) as [H|H]; [apply box1_hi; auto|].
    pose proof (box1_lo ltac:(lra)) as L.
    pose proof (g1_pair sigma a 1 s_ne) as P1. change (Z.opp 1%Z) with (Zneg 1%positive) in P1.
    set (bm1 := g1 sigma a (-1)) in *. set (b0 := g1 sigma a 0) in *. set (b1 := g1 sigma a 1) in *.
    assert (Hi : 0 < / (sigma * sigma)) by (apply Rinv_0_lt_compat; nra).
    unfold Rdiv in *. set (q := / (sigma * sigma)) in *.
    assert (X : 2 * a * (1 * q * b1) <= 2 * a * (bm1 + b0 + b1)) by (apply Rmult_le_compat_l; lra).
    nra.
  Qed.

  (* r = 2 *)
  Lemma box2_hi : 1/16 <= a ->
    -2 * g1 sigma a (-2) + -1 * g1 sigma a (-1) + 0 * g1 sigma a 0 + 1 * g1 sigma a 1 + 2 * g1 sigma a 2 <=
    2 * a * (g1 sigma a (-2) + g1 sigma a (-1) + g1 sigma a 0 + g1 sigma a 1 + g1 sigma a 2).
  Proof.
    intro H. match goal with |- ?l <= ?r => cut (0 <= r - l); [lra|] end.
    unfold g1. interval with (i_bisect a, i_bisect sigma, i_depth 24, i_prec 40).
  Qed.

  Lemma box2_lo : a <= 1/16 ->
    1 / (sigma * sigma) * (g1 sigma a 1 + 4 * g1 sigma a 2) <=
    g1 sigma a (-2) + g1 sigma a (-1) + g1 sigma a 0 + g1 sigma a 1 + g1 sigma a 2.
  Proof.
    intro H. match goal with |- ?l <= ?r => cut (0 <= r - l); [lra|] end.
    unfold g1. interval with (i_bisect a, i_bisect sigma, i_depth 24, i_prec 40).
  Qed.

  Lemma box2 :
    -2 * g1 sigma a (-2) + -1 * g1 sigma a (-1) + 0 * g1 sigma a 0 + 1 * g1 sigma a 1 + 2 * g1 sigma a 2 <=
    2 * a * (g1 sigma a (-2) + g1 sigma a (-1) + g1 sigma a 0 + g1 sigma a 1 + g1 sigma a 2).
  Proof.
    destruct (Rle_dec (1/16) a) as [H|H]; [apply box2_hi; auto|].
    pose proof (box2_lo ltac:(lra)) as L.
    pose proof (g1_pair sigma a 1 s_ne) as P1. change (Z.opp 1%Z) with (Zneg 1%positive) in P1.
    pose proof (g1_pair sigma a 2 s_ne) as P2. change (Z.opp 2%Z) with (Zneg 2%positive) in P2.
    set (bm2 := g1 sigma a (-2)) in *. set (bm1 := g1 sigma a (-1)) in *. set (b0 := g1 sigma a 0) in *.
    set (b1 := g1 sigma a 1) in *. set (b2 := g1 sigma a 2) in *.
    assert (Hi : 0 < / (sigma * sigma)) by (apply Rinv_0_lt_compat; nra).
    unfold Rdiv in *. set (q := / (sigma * sigma)) in *.
    assert (X : 2 * a * (1 * q * (b1 + 4 * b2)) <= 2 * a * (bm2 + bm1 + b0 + b1 + b2))
      by (apply Rmult_le_compat_l; lra).
    nra.
  Qed.

  (* r = 3 *)
  Lemma box3_hi : 1/16 <= a ->
    -3 * g1 sigma a (-3) + -2 * g1 sigma a (-2) + -1 * g1 sigma a (-1) + 0 * g1 sigma a 0
      + 1 * g1 sigma a 1 + 2 * g1 sigma a 2 + 3 * g1 sigma a 3 <=
    2 * a * (g1 sigma a (-3) + g1 sigma a (-2) + g1 sigma a (-1) + g1 sigma a 0
             + g1 sigma a 1 + g1 sigma a 2 + g1 sigma a 3).
  Proof.
    intro H. match goal with |- ?l <= ?r => cut (0 <= r - l); [lra|] end.
    unfold g1. interval with (i_bisect a, i_bisect sigma, i_depth 24, i_prec 40).
  Qed.

  Lemma box3_lo : a <= 1/16 ->
    1 / (sigma * sigma) * (g1 sigma a 1 + 4 * g1 sigma a 2 + 9 * g1 sigma a 3) <=
    g1 sigma a (-3) + g1 sigma a (-2) + g1 sigma a (-1) + g1 sigma a 0
      + g1 sigma a 1 + g1 sigma a 2 + g1 sigma a 3.
  Proof.
    intro H. match goal with |- ?l <= ?r => cut (0 <= r - l); [lra|] end.
    unfold g1. interval with (i_bisect a, i_bisect sigma, i_depth 24, i_prec 40).
  Qed.

  Lemma box3 :
    -3 * g1 sigma a (-3) + -2 * g1 sigma a (-2) + -1 * g1 sigma a (-1) + 0 * g1 sigma a 0
      + 1 * g1 sigma a 1 + 2 * g1 sigma a 2 + 3 * g1 sigma a 3 <=
    2 * a * (g1 sigma a (-3) + g1 sigma a (-2) + g1 sigma a (-1) + g1 sigma a 0
             + g1 sigma a 1 + g1 sigma a 2 + g1 sigma a 3).
  Proof.
    destruct (Rle_dec (1/16) a) as [H|H]; [apply box3_hi; auto|].
    pose proof (box3_lo ltac:(lra)) as L.
    pose proof (g1_pair sigma a 1 s_ne) as P1. change (Z.opp 1%Z) with (Zneg 1%positive) in P1.
    pose proof (g1_pair sigma a 2 s_ne) as P2. change (Z.opp 2%Z) with (Zneg 2%positive) in P2.
    pose proof (g1_pair sigma a 3 s_ne) as P3. change (Z.opp 3%Z) with (Zneg 3%positive) in P3.
    set (bm3 := g1 sigma a (-3)) in *. set (bm2 := g1 sigma a (-2)) in *.
    set (bm1 := g1 sigma a (-1)) in *. set (b0 := g1 sigma a 0) in *.
    set (b1 := g1 sigma a 1) in *. set (b2 := g1 sigma a 2) in *. set (b3 := g1 sigma a 3) in *.
    assert (Hi : 0 < / (sigma * sigma)) by (apply Rinv_0_lt_compat; nra).
    unfold Rdiv in *. set (q := / (sigma * sigma)) in *.
    assert (X : 2 * a * (1 * q * (b1 + 4 * b2 + 9 * b3)) <= 2 * a * (bm3 + bm2 + bm1 + b0 + b1 + b2 + b3))
      by (apply Rmult_le_compat_l; lra).
    nra.
  Qed.

  Lemma off1_box : forall r, (1 <= r <= 3)%nat -> off1 sigma a r <= 2 * a.
  Proof.
    intros r Hr. assert (Hc : (r = 1 \/ r = 2 \/ r = 3)%nat) by lia.
    destruct Hc as [ -> | [ -> | -> ] ]; unfold off1; apply div_le; try apply g1_mass_pos.
    - change (zrange 1) with [-1; 0; 1]%Z. cbn [map rsum fold_right]. pose proof box1. lra.
    - change (zrange 2) with [-2; -1; 0; 1; 2]%Z. cbn [map rsum fold_right]. pose proof box2. lra.
    - change (zrange 3) with [-3; -2; -1; 0; 1; 2; 3]%Z. cbn [map rsum fold_right]. pose proof box3. lra.
  Qed.
End Box.

Lemma gauss_no_overshoot_x : forall sigma ax ay r,
  (1 <= r <= 3)%nat -> 1/2 <= sigma <= 4 -> 0 < ax <= 1/2 ->
  0 < offx_R (gauss sigma ax ay) r <= 2 * ax /\ Rabs (offx_R (gauss sigma ax ay) r - ax) <= ax.
Proof.
  intros sigma ax ay r Hr Hs Ha.
  assert (P : 0 < offx_R (gauss sigma ax ay) r) by (apply gauss_offx_pos; try lra; lia).
  assert (U : offx_R (gauss sigma ax ay) r <= 2 * ax) by (rewrite offx_sep; apply off1_box; auto).
  split; [lra|]. apply Rabs_le. lra.
Qed.

Lemma gauss_no_overshoot_y : forall sigma ax ay r,
  (1 <= r <= 3)%nat -> 1/2 <= sigma <= 4 -> 0 < ay <= 1/2 ->
  0 < offy_R (gauss sigma ax ay) r <= 2 * ay /\ Rabs (offy_R (gauss sigma ax ay) r - ay) <= ay.
Proof.
  intros sigma ax ay r Hr Hs Ha.
  assert (P : 0 < offy_R (gauss sigma ax ay) r) by (apply gauss_offy_pos; try lra; lia).
  assert (U : offy_R (gauss sigma ax ay) r <= 2 * ay) by (rewrite offy_sep; apply off1_box; auto).
  split; [lra|]. apply Rabs_le. lra.
Qed.

Lemma gauss_error_does_not_grow : forall sigma ax ay r,
  (1 <= r <= 3)%nat -> 1/2 <= sigma <= 4 ->
  (0 < ax <= 1/2 -> 0 < offx_R (gauss sigma ax ay) r <= 2 * ax /\
                    Rabs (offx_R (gauss sigma ax ay) r - ax) <= ax) /\
  (0 < ay <= 1/2 -> 0 < offy_R (gauss sigma ax ay) r <= 2 * ay /\
                    Rabs (offy_R (gauss sigma ax ay) r - ay) <= ay).
Proof.
  intros. split; intro.
  - apply gauss_no_overshoot_x; auto.
  - apply gauss_no_overshoot_y; auto.
Qed.
