(* GaussWide.v (C07) — "does not overshoot" on a Gaussian bump for EVERY odd patch size
   2r+1 and every sigma that is large relative to the patch, by an analytic argument (no
   interval arithmetic):

       sigma^2 >= r(r+1)/6 + (2r+1)^2/8   ==>   0 < offset <= 2 * displacement.

   With s = 1/sigma^2 and g(j) = exp(-(j-a)^2 s/2):
     numerator  sum_k k (g(k) - g(-k)),  g(k) - g(-k) <= 2kas g(k) <= 2kas  (1 - e^-t <= t, g <= 1)
                <= 2as * r(r+1)(2r+1)/6
     mass       sum_j g(j) >= (2r+1) exp(-(r+1/2)^2 s/2) >= (2r+1) (1 - (r+1/2)^2 s/2)
   Together with the interval-arithmetic box of GaussBox.v (sigma in [1/2,4], r <= 3) this
   gives r <= 3 (patch sizes 3, 5, 7) for ALL sigma >= 1/2 (16 >= 2 + 49/8). *)
From Coq Require Import List ZArith Reals Lra Lia Psatz.
From SV Require Import C06.Peaks C07.GaussR C07.GaussBox.
Import ListNotations.
Local Open Scope R_scope.

Lemma IZR_succ_nat : forall r, IZR (Z.of_nat (S r)) = IZR (Z.of_nat r) + 1.
Proof. intro r. rewrite Nat2Z.inj_succ, succ_IZR. reflexivity. Qed.

Lemma IZR_nat_nonneg : forall r, 0 <= IZR (Z.of_nat r).
Proof. intro r. apply IZR_le. lia. Qed.

Lemma g1_le_1 : forall sigma a j, sigma <> 0 -> g1 sigma a j <= 1.
Proof.
  intros sigma a j Hs. unfold g1. rewrite <- exp_0.
  assert (0 < 2 * sigma * sigma) by (pose proof (Rsqr_pos_lt sigma Hs); unfold Rsqr in *; lra).
  assert (H0 : - ((IZR j - a) * (IZR j - a)) / (2 * sigma * sigma) <= 0).
  { unfold Rdiv. pose proof (Rinv_0_lt_compat _ H). pose proof (Rle_0_sqr (IZR j - a)). unfold Rsqr in *. nra. }
  destruct H0 as [H0|H0]; [left; now apply exp_increasing | rewrite H0; right; reflexivity].
Qed.

Section Wide.
  Variables sigma a : R.
  Hypothesis Hs : sigma <> 0.
  Hypothesis Ha : 0 < a <= 1/2.
  Let s := / (sigma * sigma).

  Lemma s_pos : 0 < s.
  Proof. unfold s. apply Rinv_0_lt_compat. pose proof (Rsqr_pos_lt sigma Hs). unfold Rsqr in *. lra. Qed.

  (* numerator: sum_{k<=r} k (g(k) - g(-k)) <= 2 a s r(r+1)(2r+1)/6 *)
  Lemma num_bound : forall r,
    psum (fun j => IZR j * g1 sigma a j) r <=
    2 * a * s * (IZR (Z.of_nat r) * (IZR (Z.of_nat r) + 1) * (2 * IZR (Z.of_nat r) + 1) / 6).
  Proof.
    pose proof s_pos as Sp. induction r as [|r IH].
    - cbn [psum]. change (Z.of_nat 0) with 0%Z. right. field.
    - cbn [psum]. rewrite opp_IZR. rewrite IZR_succ_nat. pose proof (IZR_nat_nonneg r) as R0.
      set (R := IZR (Z.of_nat r)) in *.
      pose proof (g1_pair sigma a (Z.of_nat (S r)) Hs) as P. rewrite IZR_succ_nat in P. fold R in P.
      unfold Rdiv in P. fold s in P.
      pose proof (g1_le_1 sigma a (Z.of_nat (S r)) Hs) as L1.
      pose proof (g1_pos sigma a (Z.of_nat (S r))) as G0.
      set (gp := g1 sigma a (Z.of_nat (S r))) in *. set (gm := g1 sigma a (- Z.of_nat (S r))) in *.
      assert (D : gp - gm <= 2 * (R + 1) * a * s).
      { assert (2 * (R + 1) * a * s * gp <= 2 * (R + 1) * a * s * 1).
        { apply Rmult_le_compat_l; [|lra]. destruct Ha as [Ha0 _].
          assert (0 <= a * s) by (apply Rmult_le_pos; lra).
          assert (0 <= (R + 1) * (a * s)) by (apply Rmult_le_pos; lra). lra. }
        lra. }
      assert (K : (R + 1) * (gp - gm) <= (R + 1) * (2 * (R + 1) * a * s)) by (apply Rmult_le_compat_l; lra).
      nra.
  Qed.

  (* every window value is at least m0 = exp(-(r+1/2)^2 s/2) *)
  Lemma g1_lower : forall r j, (- Z.of_nat r <= j <= Z.of_nat r)%Z ->
    exp (- ((IZR (Z.of_nat r) + 1/2) * (IZR (Z.of_nat r) + 1/2)) * s / 2) <= g1 sigma a j.
  Proof.
    intros r j Hj. unfold g1. pose proof s_pos as Sp.
    assert (E : - ((IZR j - a) * (IZR j - a)) / (2 * sigma * sigma) = - ((IZR j - a) * (IZR j - a)) * s / 2).
    { unfold s. field. auto. }
    rewrite E. clear E.
    assert (Hlo : - IZR (Z.of_nat r) <= IZR j) by (rewrite <- opp_IZR; apply IZR_le; lia).
    assert (Hhi : IZR j <= IZR (Z.of_nat r)) by (apply IZR_le; lia).
    set (R := IZR (Z.of_nat r)) in *. set (J := IZR j) in *.
    assert (Q : (J - a) * (J - a) <= (R + 1/2) * (R + 1/2)) by (destruct Ha; nra).
    assert (X : - ((R + 1/2) * (R + 1/2)) * s / 2 <= - ((J - a) * (J - a)) * s / 2) by nra.
    destruct X as [X|X]; [left; now apply exp_increasing | rewrite X; right; reflexivity].
  Qed.

  Lemma mass_bound : forall r0 r, (r <= r0)%nat ->
    (2 * IZR (Z.of_nat r) + 1) *
      exp (- ((IZR (Z.of_nat r0) + 1/2) * (IZR (Z.of_nat r0) + 1/2)) * s / 2) <= psum (g1 sigma a) r.
  Proof.
    intros r0. induction r as [|r IH]; intro Hr.
    - cbn [psum]. simpl. pose proof (g1_lower r0 0%Z ltac:(lia)). lra.
    - cbn [psum]. rewrite IZR_succ_nat. specialize (IH ltac:(lia)).
      pose proof (g1_lower r0 (Z.of_nat (S r)) ltac:(lia)). pose proof (g1_lower r0 (- Z.of_nat (S r))%Z ltac:(lia)).
      lra.
  Qed.

  Lemma off1_wide : forall r,
    IZR (Z.of_nat r) * (IZR (Z.of_nat r) + 1) / 6 +
      (2 * IZR (Z.of_nat r) + 1) * (2 * IZR (Z.of_nat r) + 1) / 8 <= sigma * sigma ->
    off1 sigma a r <= 2 * a.
  Proof.
    intros r HC. unfold off1. apply div_le; [apply g1_mass_pos|].
    rewrite (rsum_zrange (fun j => IZR j * g1 sigma a j)), (rsum_zrange (g1 sigma a)).
    pose proof (num_bound r) as N. pose proof (mass_bound r r (le_n r)) as M.
    pose proof s_pos as Sp. pose proof (IZR_nat_nonneg r) as R0. set (R := IZR (Z.of_nat r)) in *.
    pose proof (exp_ineq1_le (- ((R + 1/2) * (R + 1/2)) * s / 2)) as E.
    set (m0 := exp (- ((R + 1/2) * (R + 1/2)) * s / 2)) in *.
    (* s * C <= 1 *)
    assert (SC : s * (R * (R + 1) / 6 + (2 * R + 1) * (2 * R + 1) / 8) <= 1).
    { assert (s * (sigma * sigma) = 1).
      { unfold s. field. auto. }
      assert (s * (R * (R + 1) / 6 + (2 * R + 1) * (2 * R + 1) / 8) <= s * (sigma * sigma))
        by (apply Rmult_le_compat_l; lra).
      lra. }
    assert (T : s * (R * (R + 1) / 6) <= m0) by nra.
    assert (U : 2 * a * (2 * R + 1) * (s * (R * (R + 1) / 6)) <= 2 * a * (2 * R + 1) * m0).
    { apply Rmult_le_compat_l; [destruct Ha; nra | exact T]. }
    assert (V : 2 * a * ((2 * R + 1) * m0) <= 2 * a * psum (g1 sigma a) r).
    { apply Rmult_le_compat_l; [lra | exact M]. }
    nra.
  Qed.
End Wide.

(* every odd patch size, sigma large relative to the patch: analytic *)
Lemma gauss_no_overshoot_wide : forall sigma ax ay r, (1 <= r)%nat ->
  IZR (Z.of_nat r) * (IZR (Z.of_nat r) + 1) / 6 +
    (2 * IZR (Z.of_nat r) + 1) * (2 * IZR (Z.of_nat r) + 1) / 8 <= sigma * sigma ->
  (0 < ax <= 1/2 -> 0 < offx_R (gauss sigma ax ay) r <= 2 * ax /\
                    Rabs (offx_R (gauss sigma ax ay) r - ax) <= ax) /\
  (0 < ay <= 1/2 -> 0 < offy_R (gauss sigma ax ay) r <= 2 * ay /\
                    Rabs (offy_R (gauss sigma ax ay) r - ay) <= ay).
Proof.
  intros sigma ax ay r Hr HC.
  assert (Hs : sigma <> 0).
  { intro E. rewrite E in HC. pose proof (IZR_nat_nonneg r). assert (1 <= IZR (Z.of_nat r)) by (apply IZR_le; lia). nra. }
  split; intro Ha.
  - assert (P : 0 < offx_R (gauss sigma ax ay) r) by (apply gauss_offx_pos; auto; lra).
    assert (U : offx_R (gauss sigma ax ay) r <= 2 * ax) by (rewrite offx_sep; apply off1_wide; auto).
    split; [lra|]. apply Rabs_le. lra.
  - assert (P : 0 < offy_R (gauss sigma ax ay) r) by (apply gauss_offy_pos; auto; lra).
    assert (U : offy_R (gauss sigma ax ay) r <= 2 * ay) by (rewrite offy_sep; apply off1_wide; auto).
    split; [lra|]. apply Rabs_le. lra.
Qed.

(* patch sizes 3, 5, 7: ALL sigma >= 1/2 (interval box up to 4, analytic beyond) *)
Lemma gauss_error_does_not_grow_all_sigma : forall sigma ax ay r,
  (1 <= r <= 3)%nat -> 1/2 <= sigma ->
  (0 < ax <= 1/2 -> 0 < offx_R (gauss sigma ax ay) r <= 2 * ax /\
                    Rabs (offx_R (gauss sigma ax ay) r - ax) <= ax) /\
  (0 < ay <= 1/2 -> 0 < offy_R (gauss sigma ax ay) r <= 2 * ay /\
                    Rabs (offy_R (gauss sigma ax ay) r - ay) <= ay).
Proof.
  intros sigma ax ay r Hr Hs. destruct (Rle_dec sigma 4) as [H4|H4].
  - apply gauss_error_does_not_grow; auto.
  - apply gauss_no_overshoot_wide; [lia|].
    assert (16 <= sigma * sigma) by nra.
    assert (IZR (Z.of_nat r) <= 3) by (apply (IZR_le _ 3); lia).
    assert (0 <= IZR (Z.of_nat r)) by apply IZR_nat_nonneg.
    nra.
Qed.

Lemma ex_large_sigma_hypothesis :
  IZR (Z.of_nat 2) * (IZR (Z.of_nat 2) + 1) / 6 + (2 * IZR (Z.of_nat 2) + 1) * (2 * IZR (Z.of_nat 2) + 1) / 8 <= 3 * 3.
Proof. simpl. lra. Qed.
