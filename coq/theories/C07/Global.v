(* Global.v (C07) — executable model of find_global_peaks_rough / find_global_peaks
   of sleap_nn/inference/peak_finding.py (no proofs in this file).  Uses the map
   type, patch and integral_offset of C06/Peaks.v.

     find_global_peaks_rough(cms, threshold)
        colmax, _   = torch.max(cms, dim=2)        -- per column: max over rows
        vmax, x     = torch.max(colmax, dim=3)     -- first column holding the maximum
        rowmax, _   = torch.max(cms, dim=3)        -- per row: max over columns
        _, y        = torch.max(rowmax, dim=2)     -- first row holding the maximum
        points = (x, y);  vmax < threshold  =>  points = NaN, value = 0
     find_global_peaks(cms, threshold, "integral", p)
        rough.view(B*C, 2); valid_idx = where(~isnan(rough[:,0]))
        crops   = crop_bboxes(cms.reshape(B*C,1,H,W), make_centered_bboxes(rough[valid_idx]), valid_idx)
        offsets = integral_regression(crops, gv, gv)
        refined = rough.clone(); refined[valid_idx] += offsets; reshape(B, C, 2)

   In the PINNED tree (before fix 4dd71e5) x and y were computed independently (finding
   F2): that is `fixed = false`, kept as the record of the historic defect.  The CURRENT
   tree (/repo HEAD, fix 4dd71e5 = proposed_fixes/C07_F2.diff applied) takes y as the first
   row attaining the maximum *within the chosen column*
   (torch.gather(max_indices_y, 3, max_indices_x)): `fixed = true`.  The harness detects
   which variant the code has by replaying the F2 witness.  torch.max(dim) returns the
   first index among ties (relied upon; re-checked by the harness on every run).

   `thr` is the threshold AS THE CODE COMPARES IT (`max_values < threshold` is evaluated in
   the tensor's dtype): the caller's Python float rounded to the map's dtype — see the end
   of C06/Peaks.v; the harness passes that exact rational. *)
From Coq Require Import String Ascii List ZArith QArith Bool Arith.
From SV Require Import Base.Render C06.Peaks.
Import ListNotations.
Open Scope Q_scope.

Definition lmax (l : list Q) : Q := fold_left qmax (tl l) (hd 0 l).

Fixpoint argmax_from (l : list Q) (i bi : nat) (bv : Q) : nat * Q :=
  match l with
  | [] => (bi, bv)
  | a :: t => if Qltb bv a then argmax_from t (S i) i a else argmax_from t (S i) bi bv
  end.

(* index of the first maximal element, and that element *)
Definition argmax_first (l : list Q) : nat * Q := argmax_from (tl l) 1 0 (hd 0 l).

Definition col (m : cmap) (j : nat) : list Q := map (fun row => nth j row 0) m.
Definition width (m : cmap) : nat := length (hd [] m).

Definition colmaxs (m : cmap) : list Q := map (fun j => lmax (col m j)) (seq 0 (width m)).
Definition rowmaxs (m : cmap) : list Q := map lmax m.

(* rough global peak of one map: (Some (x, y) | None = NaN, value) *)
Definition global_rough (fixed : bool) (m : cmap) (thr : Q) : option (nat * nat) * Q :=
  let '(x, vx) := argmax_first (colmaxs m) in
  let '(y, _) := argmax_first (rowmaxs m) in
  let y' := if fixed then fst (argmax_first (col m x)) else y in
  if Qltb vx thr then (None, 0) else (Some (x, y'), vx).

Definition gpoint := (option (Q * Q) * Q)%type.

Definition to_q (p : option (nat * nat)) : option (Q * Q) :=
  match p with
  | Some (x, y) => Some (inject_Z (Z.of_nat x), inject_Z (Z.of_nat y))
  | None => None
  end.

Definition add_off (o : option (Q * Q)) (p : option (Q * Q)) : option (Q * Q) :=
  match p, o with
  | Some (x, y), Some (dx, dy) => Some (x + dx, y + dy)
  | _, _ => None
  end.

Fixpoint update {A} (l : list A) (k : nat) (f : A -> A) : list A :=
  match l, k with
  | [], _ => []
  | a :: t, O => f a :: t
  | a :: t, S k' => a :: update t k' f
  end.

(* refined[valid_idx] += offsets *)
Definition scatter (l : list (option (Q * Q))) (upds : list (nat * option (Q * Q)))
  : list (option (Q * Q)) :=
  fold_left (fun acc u => update acc (fst u) (add_off (snd u))) upds l.

(* reshape(B, C, .) *)
Fixpoint chunks {A} (B C : nat) (l : list A) : list (list A) :=
  match B with
  | O => []
  | S b => firstn C l :: chunks b C (skipn C l)
  end.

Definition is_none {A} (o : option A) : bool := match o with None => true | Some _ => false end.

Definition global_peaks (fixed : bool) (cms : list (list cmap)) (thr : Q) (refine : option nat)
  : list (list gpoint) :=
  let rough := map (map (fun m => global_rough fixed m thr)) cms in
  let plain := map (map (fun pv : option (nat * nat) * Q => (to_q (fst pv), snd pv))) rough in
  match refine with
  | None => plain
  | Some r =>
      let flat_r := concat rough in
      if forallb (fun pv => is_none (fst pv)) flat_r then plain
      else
        let B := length cms in
        let C := length (hd [] cms) in
        let flat_m := concat cms in
        (* valid_idx paired with valid_peaks = rough[valid_idx] *)
        let valid := flat_map (fun k => match nth_error flat_r k with
                                        | Some (Some xy, _) => [(k, xy)]
                                        | _ => []
                                        end) (seq 0 (length flat_r)) in
        let crops := map (fun v : nat * (nat * nat) =>
                            match nth_error flat_m (fst v) with
                            | Some m => patch m (snd (snd v)) (fst (snd v)) r
                            | None => []
                            end) valid in
        let offsets := map (integral_offset (gv r) (gv r)) crops in
        let refined := scatter (map (fun pv => to_q (fst pv)) flat_r)
                               (combine (map fst valid) offsets) in
        chunks B C (combine refined (map snd flat_r))
  end.

(* what one channel's answer should be, as a function of that channel's map alone *)
Definition global_single (fixed : bool) (thr : Q) (refine : option nat) (m : cmap) : gpoint :=
  let '(p, v) := global_rough fixed m thr in
  (match refine, p with
   | Some r, Some (x, y) => refine_at m x y r
   | None, _ => to_q p
   | _, None => None
   end, v).

(* ---- any integral_patch_size p >= 1 (Peaks.patch_p / gv_p: even p = half-pixel samples) ----
   the same function with the patch taken by its size p instead of the radius r *)
Definition global_peaks_p (fixed : bool) (cms : list (list cmap)) (thr : Q) (refine : option nat)
  : list (list gpoint) :=
  let rough := map (map (fun m => global_rough fixed m thr)) cms in
  let plain := map (map (fun pv : option (nat * nat) * Q => (to_q (fst pv), snd pv))) rough in
  match refine with
  | None => plain
  | Some p =>
      let flat_r := concat rough in
      if forallb (fun pv => is_none (fst pv)) flat_r then plain
      else
        let B := length cms in
        let C := length (hd [] cms) in
        let flat_m := concat cms in
        let valid := flat_map (fun k => match nth_error flat_r k with
                                        | Some (Some xy, _) => [(k, xy)]
                                        | _ => []
                                        end) (seq 0 (length flat_r)) in
        let crops := map (fun v : nat * (nat * nat) =>
                            match nth_error flat_m (fst v) with
                            | Some m => patch_p m (snd (snd v)) (fst (snd v)) p
                            | None => []
                            end) valid in
        let offsets := map (integral_offset (gv_p p) (gv_p p)) crops in
        let refined := scatter (map (fun pv => to_q (fst pv)) flat_r)
                               (combine (map fst valid) offsets) in
        chunks B C (combine refined (map snd flat_r))
  end.

Definition global_single_p (fixed : bool) (thr : Q) (refine : option nat) (m : cmap) : gpoint :=
  let '(pt, v) := global_rough fixed m thr in
  (match refine, pt with
   | Some p, Some (x, y) => refine_at_p m x y p
   | None, _ => to_q pt
   | _, None => None
   end, v).

(* ---- selector of finding F2, written as a brute-force scan independent of
        global_rough: the first row and the first column that contain a maximal
        cell do not meet in a maximal cell ---- *)
Definition max_all (m : cmap) : Q := lmax (concat m).
Definition row_has (mx : Q) (row : list Q) : bool := existsb (fun w => Qeq_bool w mx) row.
Definition col_has (m : cmap) (mx : Q) (j : nat) : bool :=
  existsb (fun row => match nth_error row j with Some w => Qeq_bool w mx | None => false end) m.
Definition first_max_row (m : cmap) : option nat :=
  find (fun i => match nth_error m i with Some row => row_has (max_all m) row | None => false end)
       (seq 0 (length m)).
Definition first_max_col (m : cmap) : option nat :=
  find (col_has m (max_all m)) (seq 0 (width m)).
Definition selector_F2 (m : cmap) : bool :=
  match first_max_row m, first_max_col m with
  | Some y, Some x =>
      match get m y x with
      | Some w => negb (Qeq_bool w (max_all m))
      | None => false
      end
  | _, _ => false
  end.

(* ---- selector of finding F25 (round 4): the p x p refinement patch around the rough peak
        (x, y) sticks out of the map, i.e. some cell within radius p/2 of it (the cells a
        p-patch reads, both parities) does not exist.  crop_bboxes / kornia fill such cells
        with 0, which is not what a symmetric or Gaussian bump continues with: clauses
        (f) and (g) of the property fail there.  Inside (selector false) they are theorems. *)
Definition patch_inside (m : cmap) (y x p : nat) : bool :=
  let r := (p / 2)%nat in
  (r <=? y)%nat && (r <=? x)%nat && (y + r <? length m)%nat && (x + r <? width m)%nat.
Definition selector_F25 (m : cmap) (y x p : nat) : bool := negb (patch_inside m y x p).

(* ---- harness interface ---- *)
Inductive case :=
| GPeaks (fixed : bool) (cms : list (list cmap)) (thr : Q) (refine : option nat)
| GSelF2 (ms : list cmap)
| GPeaksP (fixed : bool) (cms : list (list cmap)) (thr : Q) (refine : option nat)
  (* the selectors that are premises of the (e), (f), (g) theorems, at given cells (m, y, x, p) *)
| GSelF9 (qs : list (cmap * (nat * nat * nat)))
| GSelF25 (qs : list (cmap * (nat * nat * nat))).

Inductive result :=
| RPeaks (l : list (list gpoint))
| RBools (l : list bool).

Definition run (c : case) : result :=
  match c with
  | GPeaks f cms thr rf => RPeaks (global_peaks f cms thr rf)
  | GSelF2 ms => RBools (map selector_F2 ms)
  | GPeaksP f cms thr rf => RPeaks (global_peaks_p f cms thr rf)
  | GSelF9 qs => RBools (map (fun q => let '(m, (y, x, p)) := q in selector_F9_p m y x p) qs)
  | GSelF25 qs => RBools (map (fun q => let '(m, (y, x, p)) := q in selector_F25 m y x p) qs)
  end.

Definition rresult (r : result) : rdr :=
  match r with
  | RPeaks l => rlist (rlist (rpair (ropt (rpair rQ rQ)) rQ)) l
  | RBools l => rlist rbool l
  end.
