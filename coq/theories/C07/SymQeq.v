(* SymQeq.v (C07) — round 6.  Clause (f) "a symmetric bump centred on a cell stays unmoved"
   with the symmetry of the cells stated up to `==` (Qeq) instead of Leibniz `=`: the
   theorems of Lemmas.v / PatchP.v / Border.v ask `cell0 .. = cell0 ..`, which a map holding
   2#2 at one cell and 1 at its mirror image does NOT satisfy, although the two are the same
   number.  Here the hypotheses are `==`, so the statements apply to any representation of
   the rationals (non-reduced fractions included); the old theorems follow as corollaries.
   Also: which maximal cell the current tree reports, as a lexicographic-first statement.
   Proofs only; no definition of an existing file is changed. *)
From Coq Require Import List ZArith QArith Qabs Bool Arith Lia.
From SV Require Import C06.Peaks C06.Lemmas C06.PatchP C07.Global C07.Lemmas C07.PatchP C07.Border.
Import ListNotations.
Local Open Scope Q_scope.

(* the map is symmetric about (y,x) on the window (0 outside the map), values compared as numbers *)
Definition window_symmetric_eq (m : cmap) (y x r : nat) : Prop :=
  forall dy dx, In dy (zrange r) -> In dx (zrange r) ->
  cell0 m (Z.of_nat y + - dy) (Z.of_nat x + - dx) == cell0 m (Z.of_nat y + dy) (Z.of_nat x + dx).

(* symmetric as far as the map goes, values compared as numbers *)
Definition in_map_symmetric_eq (m : cmap) (y x r : nat) : Prop :=
  forall dy dx a b, In dy (zrange r) -> In dx (zrange r) ->
  getZ m (Z.of_nat y + - dy) (Z.of_nat x + - dx) = Some a ->
  getZ m (Z.of_nat y + dy) (Z.of_nat x + dx) = Some b -> a == b.

Lemma window_symmetric_is_eq : forall m y x r, window_symmetric m y x r -> window_symmetric_eq m y x r.
Proof. intros m y x r Hs dy dx Hy Hx. rewrite (Hs dy dx Hy Hx). reflexivity. Qed.

Lemma in_map_symmetric_is_eq : forall m y x r, in_map_symmetric m y x r -> in_map_symmetric_eq m y x r.
Proof. intros m y x r Hs dy dx a b Hy Hx Ea Eb. rewrite (Hs dy dx a b Hy Hx Ea Eb). reflexivity. Qed.

(* odd size: the (2r+1)^2 patch is point-symmetric up to == *)
Lemma patch_symmetric_eq : forall m y x r, window_symmetric_eq m y x r ->
  point_symmetric_eq (patch m y x r).
Proof.
  intros m y x r Hs. unfold point_symmetric_eq, patch.
  rewrite <- map_rev, zrange_rev, !map_map. apply Forall2_map_same. intros dy Hdy.
  rewrite <- map_rev, zrange_rev, map_map. apply Forall2_map_same. intros dx Hdx. auto.
Qed.

(* even size 2h: the half-pixel samples (means of 2x2 cells) are point-symmetric up to == *)
Lemma epatch_symmetric_eq : forall m y x h, window_symmetric_eq m y x h ->
  point_symmetric_eq (epatch m y x h).
Proof.
  intros m y x h Hs. unfold point_symmetric_eq, epatch.
  rewrite <- map_rev, ezrange_rev, !map_map. apply Forall2_map_same. intros dy Hdy.
  rewrite <- map_rev, ezrange_rev, map_map. apply Forall2_map_same. intros dx Hdx.
  apply In_ezrange in Hdy. apply In_ezrange in Hdx. unfold samp4.
  assert (S : forall a b, (- Z.of_nat h <= a <= Z.of_nat h)%Z -> (- Z.of_nat h <= b <= Z.of_nat h)%Z ->
              cell0 m (Z.of_nat y + - a) (Z.of_nat x + - b) == cell0 m (Z.of_nat y + a) (Z.of_nat x + b)).
  { intros a b Ha Hb. apply Hs; apply In_zrange; auto. }
  replace (Z.of_nat y + (1 - dy) - 1)%Z with (Z.of_nat y + - dy)%Z by lia.
  replace (Z.of_nat x + (1 - dx) - 1)%Z with (Z.of_nat x + - dx)%Z by lia.
  replace (Z.of_nat y + (1 - dy))%Z with (Z.of_nat y + - (dy - 1))%Z by lia.
  replace (Z.of_nat x + (1 - dx))%Z with (Z.of_nat x + - (dx - 1))%Z by lia.
  rewrite (S dy dx), (S dy (dx - 1)%Z), (S (dy - 1)%Z dx), (S (dy - 1)%Z (dx - 1)%Z) by lia.
  replace (Z.of_nat y + dy - 1)%Z with (Z.of_nat y + (dy - 1))%Z by lia.
  replace (Z.of_nat x + dx - 1)%Z with (Z.of_nat x + (dx - 1))%Z by lia.
  field.
Qed.

(* (f) for every patch size: a zero-padded window symmetric up to == is exactly unmoved *)
Lemma refine_symmetric_unmoved_p_eq : forall m x y p px py,
  window_symmetric_eq m y x (p / 2) -> refine_at_p m x y p = Some (px, py) ->
  px == inject_Z (Z.of_nat x) /\ py == inject_Z (Z.of_nat y).
Proof.
  intros m x y p px py Hs Hr. unfold refine_at_p in Hr.
  destruct (integral_offset (gv_p p) (gv_p p) (patch_p m y x p)) as [[dx dy]|] eqn:E; [|discriminate].
  inversion Hr; subst. clear Hr.
  assert (Z0 : dx == 0 /\ dy == 0).
  { destruct (parity_cases p) as [[r ->]|[h ->]].
    - rewrite half_odd_p in Hs. rewrite gv_p_odd, patch_p_odd in E.
      destruct (patch_shape m y x r) as [Hl HF].
      exact (offset_symmetric_eq _ _ _ _ (gv_antisym r) Hl HF (patch_symmetric_eq _ _ _ _ Hs) E).
    - rewrite half_even_p in Hs. rewrite gv_p_even, patch_p_even in E.
      destruct (epatch_shape m y x h) as [Hl HF].
      exact (offset_symmetric_eq _ _ _ _ (egv_antisym h) Hl HF (epatch_symmetric_eq _ _ _ _ Hs) E). }
  destruct Z0 as [-> ->]. split; ring.
Qed.

(* the radius model (odd sizes, shared with C06) *)
Lemma refine_symmetric_unmoved_eq : forall m x y r px py,
  window_symmetric_eq m y x r -> refine_at m x y r = Some (px, py) ->
  px == inject_Z (Z.of_nat x) /\ py == inject_Z (Z.of_nat y).
Proof.
  intros m x y r px py Hs Hr. rewrite <- refine_at_p_odd in Hr.
  apply (refine_symmetric_unmoved_p_eq m x y (2 * r + 1) px py); auto.
  now rewrite half_odd_p.
Qed.

(* the old Leibniz statements are special cases *)
Corollary refine_symmetric_unmoved_p_from_eq : forall m x y p px py,
  window_symmetric m y x (p / 2) -> refine_at_p m x y p = Some (px, py) ->
  px == inject_Z (Z.of_nat x) /\ py == inject_Z (Z.of_nat y).
Proof.
  intros m x y p px py Hs. apply refine_symmetric_unmoved_p_eq. now apply window_symmetric_is_eq.
Qed.

Lemma inside_window_symmetric_eq : forall H W m y x p, rect_map H W m -> patch_inside m y x p = true ->
  in_map_symmetric_eq m y x (p / 2) -> window_symmetric_eq m y x (p / 2).
Proof.
  intros H W m y x p HR Hi Hs dy dx Hy Hx.
  pose proof (proj1 (In_zrange _ _) Hy) as Hy'. pose proof (proj1 (In_zrange _ _) Hx) as Hx'.
  destruct (inside_cell H W m y x p (- dy) (- dx) HR Hi) as [a Ea]; [lia|lia|].
  destruct (inside_cell H W m y x p dy dx HR Hi) as [b Eb]; [lia|lia|].
  unfold cell0. rewrite Ea, Eb. apply (Hs dy dx a b); auto.
Qed.

(* (f), PARTIAL (outside F25 and F9), about the function the harness evaluates *)
Lemma symmetric_unmoved_inside_eq : forall H W m fixed thr p x y v, rect_map H W m -> (1 <= p)%nat ->
  global_rough fixed m thr = (Some (x, y), v) ->
  selector_F25 m y x p = false -> selector_F9_p m y x p = false ->
  in_map_symmetric_eq m y x (p / 2) ->
  exists px py, global_single_p fixed thr (Some p) m = (Some (px, py), v) /\
    px == inject_Z (Z.of_nat x) /\ py == inject_Z (Z.of_nat y).
Proof.
  intros H W m fixed thr p x y v HR Hp Hg H25 H9 Hs.
  destruct (global_refine_bound_p fixed thr p m x y v Hp Hg H9) as [px [py [E _]]].
  exists px, py. split; auto.
  unfold global_single_p in E. rewrite Hg in E. inversion E as [E'].
  apply (refine_symmetric_unmoved_p_eq m x y p px py); auto.
  apply (inside_window_symmetric_eq H W); auto.
  unfold selector_F25 in H25. now apply negb_false_iff in H25.
Qed.

Lemma refine_symmetric_unmoved_inside_eq : forall H W m p x y, rect_map H W m -> (1 <= p)%nat ->
  selector_F25 m y x p = false -> selector_F9_p m y x p = false ->
  in_map_symmetric_eq m y x (p / 2) ->
  exists px py, refine_at_p m x y p = Some (px, py) /\
    px == inject_Z (Z.of_nat x) /\ py == inject_Z (Z.of_nat y).
Proof.
  intros H W m p x y HR Hp H25 H9 Hs.
  destruct (refine_bound_p _ _ _ _ Hp H9) as [px [py [E _]]].
  exists px, py. split; auto.
  apply (refine_symmetric_unmoved_p_eq m x y p px py); auto.
  apply (inside_window_symmetric_eq H W); auto.
  unfold selector_F25 in H25. now apply negb_false_iff in H25.
Qed.

Corollary symmetric_unmoved_inside_from_eq : forall H W m fixed thr p x y v, rect_map H W m -> (1 <= p)%nat ->
  global_rough fixed m thr = (Some (x, y), v) ->
  selector_F25 m y x p = false -> selector_F9_p m y x p = false ->
  in_map_symmetric m y x (p / 2) ->
  exists px py, global_single_p fixed thr (Some p) m = (Some (px, py), v) /\
    px == inject_Z (Z.of_nat x) /\ py == inject_Z (Z.of_nat y).
Proof.
  intros H W m fixed thr p x y v HR Hp Hg H25 H9 Hs.
  apply (symmetric_unmoved_inside_eq H W); auto. now apply in_map_symmetric_is_eq.
Qed.

(* ---- a map written with non-reduced fractions: 2#2, 4#4, 3#3 are the number 1 ---- *)
Definition unreduced_bump : cmap := [[0; 2#2; 0]; [1; 8#2; 4#4]; [0; 3#3; 0]].

Lemma unreduced_not_leibniz : ~ window_symmetric unreduced_bump 1 1 1.
Proof.
  intro Hs. specialize (Hs 1%Z 0%Z). change (zrange 1) with [-1; 0; 1]%Z in Hs.
  assert (E : cell0 unreduced_bump (1 + - 1) (1 + - 0) = cell0 unreduced_bump (1 + 1) (1 + 0))
    by (apply Hs; simpl; auto).
  vm_compute in E. discriminate E.
Qed.

Lemma unreduced_not_in_map_leibniz : ~ in_map_symmetric unreduced_bump 1 1 1.
Proof.
  intro Hs. specialize (Hs 1%Z 0%Z (2#2) (3#3)). change (zrange 1) with [-1; 0; 1]%Z in Hs.
  assert (E : (2#2) = (3#3)) by (apply Hs; simpl; auto).
  discriminate E.
Qed.

Lemma unreduced_symmetric_eq : window_symmetric_eq unreduced_bump 1 1 1.
Proof.
  intros dy dx Hy Hx. change (zrange 1) with [-1; 0; 1]%Z in *. simpl in Hy, Hx.
  destruct Hy as [<-|[<-|[<-|[]]]]; destruct Hx as [<-|[<-|[<-|[]]]]; vm_compute; reflexivity.
Qed.

Lemma unreduced_in_map_symmetric_eq : in_map_symmetric_eq unreduced_bump 1 1 1.
Proof.
  intros dy dx a b Hy Hx. change (zrange 1) with [-1; 0; 1]%Z in *. simpl in Hy, Hx.
  destruct Hy as [<-|[<-|[<-|[]]]]; destruct Hx as [<-|[<-|[<-|[]]]]; vm_compute;
    intros Ea Eb; inversion Ea; inversion Eb; reflexivity.
Qed.

(* the == theorem applies to it (sizes 3 and 2), the refined point is the cell (1, 1) *)
Lemma unreduced_unmoved : forall p px py, (p = 2 \/ p = 3)%nat ->
  refine_at_p unreduced_bump 1 1 p = Some (px, py) -> px == 1 /\ py == 1.
Proof.
  intros p px py Hp Hr.
  apply (refine_symmetric_unmoved_p_eq unreduced_bump 1 1 p px py); auto.
  destruct Hp as [-> | ->]; exact unreduced_symmetric_eq.
Qed.

Lemma unreduced_defined :
  (exists px py, refine_at_p unreduced_bump 1 1 3 = Some (px, py)) /\
  (exists px py, refine_at_p unreduced_bump 1 1 2 = Some (px, py)).
Proof. split; eexists; eexists; vm_compute; reflexivity. Qed.

(* ------------------------------------------------------------------ *)
(* (b) which maximal cell: the current tree reports the FIRST cell attaining the maximum in
   column-major order (smallest x, then smallest y) — a single order statement derived
   from `rough_fixed_col_then_row` *)
Lemma rough_fixed_first_colmajor : forall H W m, rect_map H W m -> (0 < H)%nat -> (0 < W)%nat ->
  forall thr x y v, global_rough true m thr = (Some (x, y), v) ->
  attains m y x v /\
  forall i j, attains m i j v -> (x < j)%nat \/ (x = j /\ (y <= i)%nat).
Proof.
  intros H W m HR HH HW thr x y v Hg.
  destruct (rough_fixed_col_then_row H W m HR HH HW thr x y v Hg) as [[_ Hc] [Ha Hrow]].
  split; auto. intros i j [w [Ew Hw]].
  destruct (Nat.lt_trichotomy x j) as [L|[E|G]]; [left; auto| |].
  - right. split; auto. subst j.
    destruct (Nat.le_gt_cases y i) as [L|G]; auto.
    pose proof (Hrow i w G Ew) as C. rewrite Hw in C. exfalso. exact (Qlt_irrefl _ C).
  - pose proof (Hc j i w G Ew) as C. rewrite Hw in C. exfalso. exact (Qlt_irrefl _ C).
Qed.

(* consequence: two maximal cells => the reported one is the column-major smaller; with
   `rough_value_is_max` the reported value is the maximum, so this pins the answer down *)
Lemma rough_fixed_determined : forall H W m, rect_map H W m -> (0 < H)%nat -> (0 < W)%nat ->
  forall thr x y v x' y', global_rough true m thr = (Some (x, y), v) ->
  attains m y' x' v -> (forall i j, attains m i j v -> (x' < j)%nat \/ (x' = j /\ (y' <= i)%nat)) ->
  x = x' /\ y = y'.
Proof.
  intros H W m HR HH HW thr x y v x' y' Hg Ha' Hmin.
  destruct (rough_fixed_first_colmajor H W m HR HH HW thr x y v Hg) as [Ha Hf].
  specialize (Hf y' x' Ha'). specialize (Hmin y x Ha). lia.
Qed.
