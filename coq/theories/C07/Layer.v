(* Layer.v (C07) — executable model of the PUBLIC entry points that wrap global peak
   finding (no proofs in this file):

     sleap_nn/inference/topdown.py          FindInstancePeaks.forward
     sleap_nn/inference/single_instance.py  SingleInstanceInferenceModel.forward

   Both do, on the maps `cms` returned by their network,

        peak_points, peak_vals = find_global_peaks(cms.detach(),
                                     threshold           = self.peak_threshold,
                                     refinement          = self.refinement,
                                     integral_patch_size = self.integral_patch_size)
        peak_points = peak_points * self.output_stride
        if self.input_scale != 1.0: peak_points = peak_points / self.input_scale
        peak_points = peak_points / eff_scale[sample]           (one factor per sample)

   and report (peak_points, peak_vals).  (FindInstancePeaks additionally pads the input
   image to max_stride before the network and rescales "instance_bbox"; neither touches
   the peaks.)

   The keyword call is modelled as such: `find_global_peaks_kw` takes each option as an
   `option` and falls back to the CALLEE's own default `d` when it is absent (declared now:
   find_global_peaks(threshold = 0.2, refinement = None, integral_patch_size = 5) =
   `callee_defaults`; the harness reads them from the signature on every run), and the
   layer's call site is `layer_kwargs` (every option present, whatever its value — 0,
   None, ... included).  `refinement` is None / "integral" / any other string (the
   last is returned grid-aligned, like None).  NaN = None. *)
From Coq Require Import String Ascii List ZArith QArith Bool Arith.
From SV Require Import Base.Render C06.Peaks C07.Global.
Import ListNotations.
Open Scope Q_scope.

Inductive refinement := RefNone | RefIntegral | RefOther.

(* ---- find_global_peaks as a function of keyword arguments ---- *)
Record kwargs := mk_kw {
  kw_threshold : option Q;
  kw_refinement : option refinement;
  kw_patch : option nat }.

(* the callee's declared defaults *)
Record defaults := mk_defaults { d_threshold : Q; d_refinement : refinement; d_patch : nat }.
(* threshold: float = 0.2, refinement = None, integral_patch_size: int = 5 *)
Definition callee_defaults : defaults := mk_defaults (1 # 5) RefNone 5.

Definition or_default {A} (o : option A) (d : A) : A := match o with Some a => a | None => d end.

Definition refine_arg (rf : refinement) (p : nat) : option nat :=
  match rf with RefIntegral => Some p | _ => None end.

Definition find_global_peaks_kw (d : defaults) (fixed : bool) (cms : list (list cmap)) (kw : kwargs)
  : list (list gpoint) :=
  global_peaks_p fixed cms (or_default (kw_threshold kw) (d_threshold d))
    (refine_arg (or_default (kw_refinement kw) (d_refinement d))
                (or_default (kw_patch kw) (d_patch d))).

(* ---- the layer ---- *)
Record layer_opts := mk_opts {
  lo_threshold : Q;              (* peak_threshold *)
  lo_refinement : refinement;    (* refinement *)
  lo_patch : nat;                (* integral_patch_size *)
  lo_stride : Q;                 (* output_stride *)
  lo_scale : Q }.                (* input_scale *)

Definition threshold_of (o : layer_opts) : Q := lo_threshold o.
Definition refine_of (o : layer_opts) : option nat := refine_arg (lo_refinement o) (lo_patch o).

(* the call site: every option is forwarded *)
Definition layer_kwargs (o : layer_opts) : kwargs :=
  mk_kw (Some (lo_threshold o)) (Some (lo_refinement o)) (Some (lo_patch o)).

(* one coordinate: * output_stride, / input_scale (only if != 1), / eff_scale *)
Definition rescale (o : layer_opts) (eff c : Q) : Q :=
  let p := c * lo_stride o in
  let p := if Qeq_bool (lo_scale o) 1 then p else p / lo_scale o in
  p / eff.

Definition rescale_pt (o : layer_opts) (eff : Q) (pt : option (Q * Q)) : option (Q * Q) :=
  match pt with
  | Some (x, y) => Some (rescale o eff x, rescale o eff y)
  | None => None
  end.

Definition rescale_gp (o : layer_opts) (eff : Q) (pv : gpoint) : gpoint :=
  (rescale_pt o eff (fst pv), snd pv).

Definition layer_with (d : defaults) (kw : kwargs) (fixed : bool) (o : layer_opts) (effs : list Q)
  (cms : list (list cmap)) : list (list gpoint) :=
  map (fun re : list gpoint * Q => map (rescale_gp o (snd re)) (fst re))
      (combine (find_global_peaks_kw d fixed cms kw) effs).

Definition layer_peaks (d : defaults) (fixed : bool) (o : layer_opts) (effs : list Q)
  (cms : list (list cmap)) : list (list gpoint) := layer_with d (layer_kwargs o) fixed o effs cms.

(* what the layer's answer for one (sample, channel) should be, as a function of that
   channel's map, that sample's eff_scale and the CONFIGURED options alone *)
Definition layer_single (fixed : bool) (o : layer_opts) (eff : Q) (m : cmap) : gpoint :=
  rescale_gp o eff (global_single_p fixed (threshold_of o) (refine_of o) m).

(* ---- a call site that is NOT the layer's: options forwarded only when "truthy"
        (`{k: v for k, v in kwargs.items() if v}`): 0.0, None and 0 are dropped and the
        callee's defaults take over.  Only used for the refutation in Props.v. ---- *)
Definition truthy_kwargs (o : layer_opts) : kwargs :=
  mk_kw (if Qeq_bool (lo_threshold o) 0 then None else Some (lo_threshold o))
        (match lo_refinement o with RefNone => None | r => Some r end)
        (match lo_patch o with O => None | p => Some p end).

(* ---- harness interface ---- *)
Inductive case :=
| LPeaks (d : defaults) (fixed : bool) (o : layer_opts) (effs : list Q) (cms : list (list cmap))
| LKw (d : defaults) (fixed : bool) (kw : kwargs) (cms : list (list cmap)).

Definition run (c : case) : list (list gpoint) :=
  match c with
  | LPeaks d f o effs cms => layer_peaks d f o effs cms
  | LKw d f kw cms => find_global_peaks_kw d f cms kw
  end.

Definition rresult (r : list (list gpoint)) : rdr :=
  rlist (rlist (rpair (ropt (rpair rQ rQ)) rQ)) r.
