(* GaussP3.v (C07) — round 6, clause (g2) "the error does not grow" on an exact Gaussian:
   patch size 3 (r = 1) and EVERY sigma <> 0 (in particular sigma < 1/2, which the interval
   box of GaussBox.v and the large-sigma bound of GaussWide.v do not reach).  Analytic, no
   interval arithmetic: with T = 1/(2 sigma^2), t = 2 a T <= T,
       g(1) - g(-1) = g(0) e^{-T} (e^t - e^{-t}),
       T (e^t - e^{-t}) <= t (e^T - e^{-T})      (chord of the convex function 2 sinh on [0,T];
                                                  two applications of the mean value theorem
                                                  and monotonicity of e^u + e^{-u} on u >= 0),
       e^{-T} (e^T - e^{-T}) = 1 - e^{-2T} <= 1,
   hence g(1) - g(-1) <= 2 a g(0) <= 2 a (g(-1) + g(0) + g(1)).
   Uses only the definitions g1 / off1 and the separation lemmas offx_sep / offy_sep of
   GaussBox.v (none of its interval statements). *)
From Coq Require Import List ZArith Reals Lra Lia Psatz.
From SV Require Import C06.Peaks C06.PatchP C07.GaussR C07.GaussE C07.Border C07.GaussBox C07.GaussNeg.
Import ListNotations.
Local Open Scope R_scope.

Definition dsh (u : R) : R := exp u - exp (- u).   (* 2 sinh u *)
Definition dch (u : R) : R := exp u + exp (- u).   (* 2 cosh u *)

Lemma dsh_deriv : forall c, derivable_pt_lim dsh c (dch c).
Proof.
  intro c.
  assert (D2 : derivable_pt_lim (comp exp (- id)%F) c (exp (- c) * - 1)).
  { apply derivable_pt_lim_comp.
    - apply derivable_pt_lim_opp. apply derivable_pt_lim_id.
    - apply derivable_pt_lim_exp. }
  pose proof (derivable_pt_lim_minus _ _ _ _ _ (derivable_pt_lim_exp c) D2) as D.
  unfold dch. replace (exp c + exp (- c)) with (exp c - exp (- c) * - 1) by ring.
  exact D.
Qed.

Lemma exp_inv_prod : forall u, exp u * exp (- u) = 1.
Proof. intro u. rewrite <- exp_plus. replace (u + - u) with 0 by ring. apply exp_0. Qed.

Lemma exp_ge_1 : forall u, 0 <= u -> 1 <= exp u.
Proof. intros u Hu. pose proof (exp_ineq1_le u). lra. Qed.

Lemma dch_mono : forall a b, 0 <= a -> a <= b -> dch a <= dch b.
Proof.
  intros a b Ha Hab. unfold dch.
  set (d := b - a). assert (Hd : 0 <= d) by (unfold d; lra).
  replace b with (a + d) by (unfold d; ring).
  rewrite Ropp_plus_distr, !exp_plus.
  pose proof (exp_pos (- a)) as PA. pose proof (exp_pos (- d)) as PD.
  pose proof (exp_inv_prod a) as IA. pose proof (exp_inv_prod d) as ID.
  pose proof (exp_ge_1 a Ha) as GA. pose proof (exp_ge_1 d Hd) as GD.
  set (A := exp a) in *. set (iA := exp (- a)) in *. set (D := exp d) in *. set (iD := exp (- d)) in *.
  assert (LA : iA <= 1) by nra. assert (LD : iD <= 1) by nra.
  assert (K : 0 <= (D - 1) * (A - iA * iD)) by (apply Rmult_le_pos; nra).
  assert (E : A * D + iA * iD - (A + iA) = (D - 1) * (A - iA * iD)).
  { replace ((D - 1) * (A - iA * iD)) with (A * D - A - iA * (D * iD) + iA * iD) by ring.
    rewrite ID. ring. }
  lra.
Qed.

(* chord of 2 sinh through the origin *)
Lemma dsh_chord : forall t T, 0 < t -> t <= T -> T * dsh t <= t * dsh T.
Proof.
  intros t T Ht HtT.
  destruct (MVT_cor2 dsh dch 0 t Ht (fun c _ => dsh_deriv c)) as [c1 [E1 [H1 H1']]].
  assert (Z0 : dsh 0 = 0) by (unfold dsh; rewrite Ropp_0; lra).
  destruct (Req_dec t T) as [->|Hne]; [lra|].
  assert (HtT' : t < T) by lra.
  destruct (MVT_cor2 dsh dch t T HtT' (fun c _ => dsh_deriv c)) as [c2 [E2 [H2 H2']]].
  assert (M : dch c1 <= dch c2) by (apply dch_mono; lra).
  assert (Et : dsh t = dch c1 * t) by lra.
  assert (ET : dsh T = dch c1 * t + dch c2 * (T - t)) by lra.
  rewrite Et, ET.
  assert (K : 0 <= t * (T - t) * (dch c2 - dch c1)).
  { apply Rmult_le_pos; [apply Rmult_le_pos|]; lra. }
  lra.
Qed.

(* g(1) - g(-1) <= 2 a g(0): every sigma <> 0, 0 < a <= 1/2 *)
Lemma g1_diff_chord : forall sigma a, sigma <> 0 -> 0 < a <= 1/2 ->
  g1 sigma a 1 - g1 sigma a (-1) <= 2 * a * g1 sigma a 0.
Proof.
  intros sigma a Hs Ha.
  set (T := 1 / (2 * sigma * sigma)).
  assert (Hss : 0 < sigma * sigma) by nra.
  assert (HT : 0 < T) by (unfold T; apply Rdiv_lt_0_compat; lra).
  set (t := 2 * a * T).
  assert (Ht : 0 < t) by (unfold t; nra). assert (HtT : t <= T) by (unfold t; nra).
  assert (E1 : g1 sigma a 1 = g1 sigma a 0 * (exp (- T) * exp t)).
  { unfold g1. rewrite <- !exp_plus. f_equal. unfold t, T. field. auto. }
  assert (Em : g1 sigma a (-1) = g1 sigma a 0 * (exp (- T) * exp (- t))).
  { unfold g1. rewrite <- !exp_plus. f_equal. unfold t, T. field. auto. }
  pose proof (g1_pos sigma a 0) as P0.
  pose proof (dsh_chord t T Ht HtT) as C.
  assert (B : exp (- T) * dsh T <= 1).
  { unfold dsh. pose proof (exp_inv_prod T). pose proof (exp_pos (- T)).
    replace (exp (- T) * (exp T - exp (- T))) with (exp T * exp (- T) - exp (- T) * exp (- T)) by ring. nra. }
  assert (X : exp (- T) * dsh t <= 2 * a).
  { pose proof (exp_pos (- T)) as PT.
    assert (S1 : T * (exp (- T) * dsh t) <= t * (exp (- T) * dsh T)).
    { replace (T * (exp (- T) * dsh t)) with (exp (- T) * (T * dsh t)) by ring.
      replace (t * (exp (- T) * dsh T)) with (exp (- T) * (t * dsh T)) by ring.
      apply Rmult_le_compat_l; lra. }
    assert (S2 : t * (exp (- T) * dsh T) <= t * 1) by (apply Rmult_le_compat_l; lra).
    assert (S3 : T * (exp (- T) * dsh t) <= T * (2 * a)) by (unfold t in *; lra).
    apply Rmult_le_reg_l with T; auto. }
  assert (Ediff : g1 sigma a 1 - g1 sigma a (-1) = g1 sigma a 0 * (exp (- T) * dsh t)).
  { rewrite E1, Em. unfold dsh. ring. }
  rewrite Ediff. rewrite (Rmult_comm (2 * a)). apply Rmult_le_compat_l; lra.
Qed.

(* the 1-D statement: size 3, every sigma <> 0 *)
Lemma off1_r1_all_sigma : forall sigma a, sigma <> 0 -> 0 < a <= 1/2 -> off1 sigma a 1 <= 2 * a.
Proof.
  intros sigma a Hs Ha. unfold off1. apply div_le; [apply g1_mass_pos|].
  change (zrange 1) with [-1; 0; 1]%Z. cbn [map rsum fold_right].
  pose proof (g1_pos sigma a 0) as P0. pose proof (g1_pos sigma a 1) as P1.
  pose proof (g1_pos sigma a (-1)) as Pm.
  pose proof (g1_diff_chord sigma a Hs Ha) as Y.
  assert (0 <= a * g1 sigma a 1) by (apply Rmult_le_pos; lra).
  assert (0 <= a * g1 sigma a (-1)) by (apply Rmult_le_pos; lra).
  lra.
Qed.

(* (g2) for patch size 3 and every sigma <> 0, both signs of the displacement *)
Lemma gauss_no_overshoot_p3 : forall sigma ax ay, sigma <> 0 ->
  (0 < ax <= 1/2 -> 0 < offx_R (gauss sigma ax ay) 1 <= 2 * ax /\
                    Rabs (offx_R (gauss sigma ax ay) 1 - ax) <= ax) /\
  (0 < ay <= 1/2 -> 0 < offy_R (gauss sigma ax ay) 1 <= 2 * ay /\
                    Rabs (offy_R (gauss sigma ax ay) 1 - ay) <= ay).
Proof.
  intros sigma ax ay Hs. split; intro Ha.
  - assert (P : 0 < offx_R (gauss sigma ax ay) 1) by (apply gauss_offx_pos; auto; lra).
    assert (U : offx_R (gauss sigma ax ay) 1 <= 2 * ax) by (rewrite offx_sep; apply off1_r1_all_sigma; auto).
    split; [lra|]. apply Rabs_le. lra.
  - assert (P : 0 < offy_R (gauss sigma ax ay) 1) by (apply gauss_offy_pos; auto; lra).
    assert (U : offy_R (gauss sigma ax ay) 1 <= 2 * ay) by (rewrite offy_sep; apply off1_r1_all_sigma; auto).
    split; [lra|]. apply Rabs_le. lra.
Qed.

Lemma gauss_no_overshoot_p3_negative : forall sigma ax ay, sigma <> 0 ->
  (- (1/2) <= ax < 0 -> 2 * ax <= offx_R (gauss sigma ax ay) 1 < 0 /\
                        Rabs (offx_R (gauss sigma ax ay) 1 - ax) <= - ax) /\
  (- (1/2) <= ay < 0 -> 2 * ay <= offy_R (gauss sigma ax ay) 1 < 0 /\
                        Rabs (offy_R (gauss sigma ax ay) 1 - ay) <= - ay).
Proof.
  intros sigma ax ay Hs. split; intro Ha.
  - destruct (gauss_no_overshoot_p3 sigma (- ax) ay Hs) as [P _].
    destruct (P ltac:(lra)) as [[P1 P2] P3]. rewrite offx_gauss_mirror.
    set (o := offx_R (gauss sigma (- ax) ay) 1) in *. split; [lra|].
    replace (- o - ax) with (- (o - - ax)) by ring. now rewrite Rabs_Ropp.
  - destruct (gauss_no_overshoot_p3 sigma ax (- ay) Hs) as [_ P].
    destruct (P ltac:(lra)) as [[P1 P2] P3]. rewrite offy_gauss_mirror.
    set (o := offy_R (gauss sigma ax (- ay)) 1) in *. split; [lra|].
    replace (- o - ay) with (- (o - - ay)) by ring. now rewrite Rabs_Ropp.
Qed.

(* ------------------------------------------------------------------ *)
(* patch size 2 (h = 1: four half-pixel samples, each the mean of 2x2 cells, grid -1/2, +1/2)
   and every sigma <> 0.  For a separable window f i j = gy i * gx j:
     numerator_x = (1/8) Sy (gx 1 - gx (-1)),  mass = (1/4) Sy Sx,  S = g(-1) + 2 g(0) + g(1),
   so offset_x = (gx 1 - gx (-1)) / (2 Sx) <= 2 a gx(0) / (2 Sx) <= a / 2: the 2x2 refinement
   recovers at most HALF of the displacement (hence never overshoots). *)
Section Even2.
  Variables gy gx : Z -> R.
  Let f (i j : Z) : R := gy i * gx j.
  Let Sy := gy (-1)%Z + 2 * gy 0%Z + gy 1%Z.
  Let Sx := gx (-1)%Z + 2 * gx 0%Z + gx 1%Z.

  Lemma even2_numx : enumx_R f 1 = 1 / 8 * Sy * (gx 1%Z - gx (-1)%Z).
  Proof.
    unfold enumx_R, samp_R, f, Sy. change (ezrange 1) with [0; 1]%Z. cbn [map rsum fold_right].
    change (0 - 1)%Z with (-1)%Z. change (1 - 1)%Z with 0%Z. field.
  Qed.

  Lemma even2_numy : enumy_R f 1 = 1 / 8 * Sx * (gy 1%Z - gy (-1)%Z).
  Proof.
    unfold enumy_R, erow_mass, samp_R, f, Sx. change (ezrange 1) with [0; 1]%Z. cbn [map rsum fold_right].
    change (0 - 1)%Z with (-1)%Z. change (1 - 1)%Z with 0%Z. field.
  Qed.

  Lemma even2_mass : emass_R f 1 = 1 / 4 * Sy * Sx.
  Proof.
    unfold emass_R, erow_mass, samp_R, f, Sy, Sx. change (ezrange 1) with [0; 1]%Z. cbn [map rsum fold_right].
    change (0 - 1)%Z with (-1)%Z. change (1 - 1)%Z with 0%Z. field.
  Qed.
End Even2.

Lemma g1_mirror : forall sigma a j, g1 sigma a j = g1 sigma (- a) (- j)%Z.
Proof. intros. unfold g1. f_equal. rewrite opp_IZR. unfold Rdiv. ring. Qed.

Lemma g1_diff_chord_neg : forall sigma a, sigma <> 0 -> - (1/2) <= a < 0 ->
  2 * a * g1 sigma a 0 <= g1 sigma a 1 - g1 sigma a (-1).
Proof.
  intros sigma a Hs Ha. pose proof (g1_diff_chord sigma (- a) Hs ltac:(lra)) as Y.
  rewrite (g1_mirror sigma a 1), (g1_mirror sigma a (-1)), (g1_mirror sigma a 0).
  cbn [Z.opp] in *. lra.
Qed.

Lemma gauss_agree_sep : forall sigma ax ay h,
  agree (gauss sigma ax ay) (fun i j => g1 sigma ay i * g1 sigma ax j) h.
Proof. intros sigma ax ay h i j _ _. apply gauss_sep. Qed.

Lemma gauss_emass_pos : forall sigma ax ay, 0 < emass_R (gauss sigma ax ay) 1.
Proof. intros. apply emass_pos; [lia|]. intros i j. unfold gauss. apply exp_pos. Qed.

Section P2.
  Variables sigma ax ay : R.
  Hypothesis Hs : sigma <> 0.
  Let G := gauss sigma ax ay.

  Lemma p2_x_hi : 0 < ax <= 1/2 -> offx_E G 1 <= ax / 2.
  Proof.
    intro Ha. unfold offx_E. apply div_le; [apply gauss_emass_pos|]. unfold G.
    rewrite (enumx_R_ext _ _ _ (gauss_agree_sep sigma ax ay 1)), (emass_R_ext _ _ _ (gauss_agree_sep sigma ax ay 1)).
    rewrite even2_numx, even2_mass.
    pose proof (g1_diff_chord sigma ax Hs Ha) as Y.
    pose proof (g1_pos sigma ax 0). pose proof (g1_pos sigma ax 1). pose proof (g1_pos sigma ax (-1)).
    pose proof (g1_pos sigma ay 0). pose proof (g1_pos sigma ay 1). pose proof (g1_pos sigma ay (-1)).
    set (Sy := g1 sigma ay (-1) + 2 * g1 sigma ay 0 + g1 sigma ay 1).
    set (Sx := g1 sigma ax (-1) + 2 * g1 sigma ax 0 + g1 sigma ax 1).
    assert (0 <= ax * g1 sigma ax 1) by (apply Rmult_le_pos; lra).
    assert (0 <= ax * g1 sigma ax (-1)) by (apply Rmult_le_pos; lra).
    assert (K : g1 sigma ax 1 - g1 sigma ax (-1) <= ax * Sx) by (unfold Sx; lra).
    assert (PS : 0 <= Sy) by (unfold Sy; lra).
    pose proof (Rmult_le_compat_l Sy _ _ PS K). lra.
  Qed.

  Lemma p2_x_lo : - (1/2) <= ax < 0 -> ax / 2 <= offx_E G 1.
  Proof.
    intro Ha. unfold offx_E.
    pose proof (gauss_emass_pos sigma ax ay) as PM. fold G in PM.
    apply Rmult_le_reg_r with (emass_R G 1); auto.
    unfold Rdiv at 2. rewrite Rmult_assoc, Rinv_l by lra. rewrite Rmult_1_r. unfold G.
    rewrite (enumx_R_ext _ _ _ (gauss_agree_sep sigma ax ay 1)), (emass_R_ext _ _ _ (gauss_agree_sep sigma ax ay 1)).
    rewrite even2_numx, even2_mass.
    pose proof (g1_diff_chord_neg sigma ax Hs Ha) as Y.
    pose proof (g1_pos sigma ax 0). pose proof (g1_pos sigma ax 1). pose proof (g1_pos sigma ax (-1)).
    pose proof (g1_pos sigma ay 0). pose proof (g1_pos sigma ay 1). pose proof (g1_pos sigma ay (-1)).
    set (Sy := g1 sigma ay (-1) + 2 * g1 sigma ay 0 + g1 sigma ay 1).
    set (Sx := g1 sigma ax (-1) + 2 * g1 sigma ax 0 + g1 sigma ax 1).
    assert (0 <= (- ax) * g1 sigma ax 1) by (apply Rmult_le_pos; lra).
    assert (0 <= (- ax) * g1 sigma ax (-1)) by (apply Rmult_le_pos; lra).
    assert (K : ax * Sx <= g1 sigma ax 1 - g1 sigma ax (-1)) by (unfold Sx; lra).
    assert (PS : 0 <= Sy) by (unfold Sy; lra).
    pose proof (Rmult_le_compat_l Sy _ _ PS K). lra.
  Qed.

  Lemma p2_y_hi : 0 < ay <= 1/2 -> offy_E G 1 <= ay / 2.
  Proof.
    intro Ha. unfold offy_E. apply div_le; [apply gauss_emass_pos|]. unfold G.
    rewrite (enumy_R_ext _ _ _ (gauss_agree_sep sigma ax ay 1)), (emass_R_ext _ _ _ (gauss_agree_sep sigma ax ay 1)).
    rewrite even2_numy, even2_mass.
    pose proof (g1_diff_chord sigma ay Hs Ha) as Y.
    pose proof (g1_pos sigma ax 0). pose proof (g1_pos sigma ax 1). pose proof (g1_pos sigma ax (-1)).
    pose proof (g1_pos sigma ay 0). pose proof (g1_pos sigma ay 1). pose proof (g1_pos sigma ay (-1)).
    set (Sy := g1 sigma ay (-1) + 2 * g1 sigma ay 0 + g1 sigma ay 1).
    set (Sx := g1 sigma ax (-1) + 2 * g1 sigma ax 0 + g1 sigma ax 1).
    assert (0 <= ay * g1 sigma ay 1) by (apply Rmult_le_pos; lra).
    assert (0 <= ay * g1 sigma ay (-1)) by (apply Rmult_le_pos; lra).
    assert (K : g1 sigma ay 1 - g1 sigma ay (-1) <= ay * Sy) by (unfold Sy; lra).
    assert (PS : 0 <= Sx) by (unfold Sx; lra).
    pose proof (Rmult_le_compat_l Sx _ _ PS K). lra.
  Qed.

  Lemma p2_y_lo : - (1/2) <= ay < 0 -> ay / 2 <= offy_E G 1.
  Proof.
    intro Ha. unfold offy_E.
    pose proof (gauss_emass_pos sigma ax ay) as PM. fold G in PM.
    apply Rmult_le_reg_r with (emass_R G 1); auto.
    unfold Rdiv at 2. rewrite Rmult_assoc, Rinv_l by lra. rewrite Rmult_1_r. unfold G.
    rewrite (enumy_R_ext _ _ _ (gauss_agree_sep sigma ax ay 1)), (emass_R_ext _ _ _ (gauss_agree_sep sigma ax ay 1)).
    rewrite even2_numy, even2_mass.
    pose proof (g1_diff_chord_neg sigma ay Hs Ha) as Y.
    pose proof (g1_pos sigma ax 0). pose proof (g1_pos sigma ax 1). pose proof (g1_pos sigma ax (-1)).
    pose proof (g1_pos sigma ay 0). pose proof (g1_pos sigma ay 1). pose proof (g1_pos sigma ay (-1)).
    set (Sy := g1 sigma ay (-1) + 2 * g1 sigma ay 0 + g1 sigma ay 1).
    set (Sx := g1 sigma ax (-1) + 2 * g1 sigma ax 0 + g1 sigma ax 1).
    assert (0 <= (- ay) * g1 sigma ay 1) by (apply Rmult_le_pos; lra).
    assert (0 <= (- ay) * g1 sigma ay (-1)) by (apply Rmult_le_pos; lra).
    assert (K : ay * Sy <= g1 sigma ay 1 - g1 sigma ay (-1)) by (unfold Sy; lra).
    assert (PS : 0 <= Sx) by (unfold Sx; lra).
    pose proof (Rmult_le_compat_l Sx _ _ PS K). lra.
  Qed.
End P2.

(* (g2) for patch size 2 and every sigma <> 0, both signs: the offset has the sign of the
   displacement, is at most HALF of it in absolute value, and the error does not grow *)
Lemma gauss_no_overshoot_p2 : forall sigma ax ay, sigma <> 0 ->
  (0 < ax <= 1/2 -> 0 < offx_P (gauss sigma ax ay) 2 <= ax / 2 /\
                    Rabs (offx_P (gauss sigma ax ay) 2 - ax) <= ax) /\
  (- (1/2) <= ax < 0 -> ax / 2 <= offx_P (gauss sigma ax ay) 2 < 0 /\
                    Rabs (offx_P (gauss sigma ax ay) 2 - ax) <= - ax) /\
  (0 < ay <= 1/2 -> 0 < offy_P (gauss sigma ax ay) 2 <= ay / 2 /\
                    Rabs (offy_P (gauss sigma ax ay) 2 - ay) <= ay) /\
  (- (1/2) <= ay < 0 -> ay / 2 <= offy_P (gauss sigma ax ay) 2 < 0 /\
                    Rabs (offy_P (gauss sigma ax ay) 2 - ay) <= - ay).
Proof.
  intros sigma ax ay Hs.
  destruct (gauss_direction_p sigma ax ay 2 Hs ltac:(lia)) as (D1 & D2 & _ & D4 & D5 & _).
  change (offx_P (gauss sigma ax ay) 2) with (offx_E (gauss sigma ax ay) 1) in *.
  change (offy_P (gauss sigma ax ay) 2) with (offy_E (gauss sigma ax ay) 1) in *.
  repeat split; try (apply Rabs_le; split).
  all: try (pose proof (p2_x_hi sigma ax ay Hs H)); try (pose proof (p2_x_lo sigma ax ay Hs H));
       try (pose proof (p2_y_hi sigma ax ay Hs H)); try (pose proof (p2_y_lo sigma ax ay Hs H)).
  all: try (specialize (D1 ltac:(lra))); try (specialize (D2 ltac:(lra)));
       try (specialize (D4 ltac:(lra))); try (specialize (D5 ltac:(lra))); lra.
Qed.
