(* Lemmas.v (C07) — proofs about the model in Global.v (and the shared refinement
   model of C06/Peaks.v). *)
From Coq Require Import List ZArith QArith Qabs Bool Arith Lia Lra Psatz.
From SV Require Import C06.Peaks C06.Lemmas C07.Global.
Import ListNotations.
Open Scope Q_scope.

(* ------------------------------------------------------------------ *)
(* maxima of lists                                                     *)

Lemma qmax_ge_l : forall a b, a <= qmax a b.
Proof. intros. destruct (qmax_cases a b) as [[-> H]|[-> H]]; lra. Qed.
Lemma qmax_ge_r : forall a b, b <= qmax a b.
Proof. intros. destruct (qmax_cases a b) as [[-> H]|[-> H]]; lra. Qed.

Lemma fold_qmax_spec : forall l a,
  (fold_left qmax l a = a \/ In (fold_left qmax l a) l) /\
  a <= fold_left qmax l a /\ Forall (fun w => w <= fold_left qmax l a) l.
Proof.
  induction l as [|b l IH]; intros a; simpl.
  - split; [auto|]. split; [lra|constructor].
  - destruct (IH (qmax a b)) as [Hin [Hge Hall]]. split; [|split].
    + destruct Hin as [E|Hin]; [|auto]. rewrite E.
      destruct (qmax_cases a b) as [[-> _]|[-> _]]; auto.
    + pose proof (qmax_ge_l a b). lra.
    + constructor; auto. pose proof (qmax_ge_r a b). lra.
Qed.

Lemma lmax_spec : forall l, l <> [] -> In (lmax l) l /\ Forall (fun w => w <= lmax l) l.
Proof.
  intros [|a l] Hne; [congruence|]. unfold lmax. simpl.
  destruct (fold_qmax_spec l a) as [Hin [Hge Hall]]. split.
  - destruct Hin as [->|Hin]; auto.
  - constructor; auto.
Qed.

Lemma argmax_from_spec : forall l pre bi bv k v,
  (bi < length pre)%nat -> nth_error pre bi = Some bv ->
  Forall (fun w => w <= bv) pre ->
  (forall j w, (j < bi)%nat -> nth_error pre j = Some w -> w < bv) ->
  argmax_from l (length pre) bi bv = (k, v) ->
  nth_error (pre ++ l) k = Some v /\ Forall (fun w => w <= v) (pre ++ l) /\
  (forall j w, (j < k)%nat -> nth_error (pre ++ l) j = Some w -> w < v).
Proof.
  induction l as [|a t IH]; intros pre bi bv k v Hbi Hnth Hall Hbefore Hr; simpl in Hr.
  - inversion Hr; subst. rewrite app_nil_r. auto.
  - replace (pre ++ a :: t) with ((pre ++ [a]) ++ t) by (rewrite <- app_assoc; reflexivity).
    replace (S (length pre)) with (length (pre ++ [a])) in Hr by (rewrite app_length; simpl; lia).
    destruct (Qltb bv a) eqn:E.
    + apply Qltb_lt in E. eapply IH; [| | | |exact Hr].
      * rewrite app_length. simpl. lia.
      * rewrite nth_error_app2 by lia. now rewrite Nat.sub_diag.
      * apply Forall_app. split; [|constructor; [lra|constructor]].
        eapply Forall_impl; [|exact Hall]. simpl. intros. lra.
      * intros j w Hj Hw. rewrite nth_error_app1 in Hw by lia.
        rewrite Forall_forall in Hall. pose proof (Hall w (nth_error_In _ _ Hw)). lra.
    + apply Qltb_false in E. eapply IH; [| | | |exact Hr].
      * rewrite app_length. simpl. lia.
      * rewrite nth_error_app1 by lia. auto.
      * apply Forall_app. split; auto.
      * intros j w Hj Hw. rewrite nth_error_app1 in Hw by lia. eauto.
Qed.

Lemma argmax_first_spec : forall l k v, l <> [] -> argmax_first l = (k, v) ->
  nth_error l k = Some v /\ Forall (fun w => w <= v) l /\
  (forall j w, (j < k)%nat -> nth_error l j = Some w -> w < v).
Proof.
  intros [|a t] k v Hne Hr; [congruence|]. unfold argmax_first in Hr. simpl in Hr.
  apply (argmax_from_spec t [a] 0 a k v); simpl; auto.
  - constructor; [lra|constructor].
  - intros. lia.
Qed.

(* ------------------------------------------------------------------ *)
(* the rough global peak of one map                                    *)

Definition is_max (m : cmap) (v : Q) : Prop :=
  (exists i j, get m i j = Some v) /\ forall i j w, get m i j = Some w -> w <= v.

Definition attains (m : cmap) (i j : nat) (v : Q) : Prop :=
  exists w, get m i j = Some w /\ w == v.

(* x is the first column containing a cell equal to v; y the first such row *)
Definition first_col (m : cmap) (v : Q) (x : nat) : Prop :=
  (exists i, attains m i x v) /\ forall j i w, (j < x)%nat -> get m i j = Some w -> w < v.
Definition first_row (m : cmap) (v : Q) (y : nat) : Prop :=
  (exists j, attains m y j v) /\ forall i j w, (i < y)%nat -> get m i j = Some w -> w < v.

Lemma is_max_unique : forall m a b, is_max m a -> is_max m b -> a == b.
Proof.
  intros m a b [[i [j Ha]] HA] [[i' [j' Hb]] HB].
  apply Qle_antisym; eauto.
Qed.

Lemma col_nth : forall H W m i j, rect_map H W m -> (j < W)%nat ->
  nth_error (col m j) i = get m i j.
Proof.
  intros H W m i j [HH HF] Hj. unfold col, get. rewrite nth_error_map.
  destruct (nth_error m i) as [row|] eqn:E; simpl; auto.
  rewrite Forall_forall in HF. pose proof (HF row (nth_error_In _ _ E)) as Hl.
  symmetry. apply nth_error_nth'. lia.
Qed.

Lemma width_rect : forall H W m, rect_map H W m -> (0 < H)%nat -> width m = W.
Proof.
  intros H W m [HH HF] Hpos. unfold width. destruct m as [|r m]; simpl in *; [lia|].
  inversion HF; auto.
Qed.

Lemma col_nonempty : forall H W m j, rect_map H W m -> (0 < H)%nat -> col m j <> [].
Proof.
  intros H W m j [HH _] Hpos. unfold col. destruct m; simpl in *; [lia|discriminate].
Qed.

Lemma colmax_spec : forall H W m j, rect_map H W m -> (0 < H)%nat -> (j < W)%nat ->
  (exists i, get m i j = Some (lmax (col m j))) /\
  (forall i w, get m i j = Some w -> w <= lmax (col m j)).
Proof.
  intros H W m j HR Hpos Hj.
  destruct (lmax_spec (col m j) (col_nonempty _ _ _ j HR Hpos)) as [Hin Hall]. split.
  - apply In_nth_error in Hin. destruct Hin as [i Hi]. exists i.
    now rewrite <- (col_nth _ _ _ _ _ HR Hj).
  - intros i w Hg. rewrite <- (col_nth _ _ _ _ _ HR Hj) in Hg.
    rewrite Forall_forall in Hall. apply Hall. eapply nth_error_In; eauto.
Qed.

Lemma row_nonempty : forall H W m i row, rect_map H W m -> (0 < W)%nat ->
  nth_error m i = Some row -> row <> [].
Proof.
  intros H W m i row [_ HF] Hpos E. rewrite Forall_forall in HF.
  pose proof (HF row (nth_error_In _ _ E)). destruct row; simpl in *; [lia|discriminate].
Qed.

Section Rough.
  Variables (H W : nat) (m : cmap).
  Hypothesis HR : rect_map H W m.
  Hypothesis HH : (0 < H)%nat.
  Hypothesis HW : (0 < W)%nat.

  Lemma colmaxs_nth : forall j, (j < W)%nat -> nth_error (colmaxs m) j = Some (lmax (col m j)).
  Proof.
    intros j Hj. unfold colmaxs. rewrite (width_rect _ _ _ HR HH), nth_error_map.
    rewrite nth_error_nth' with (d := 0%nat) by (rewrite seq_length; lia).
    now rewrite seq_nth by lia.
  Qed.

  Lemma colmaxs_length : length (colmaxs m) = W.
  Proof. unfold colmaxs. now rewrite map_length, seq_length, (width_rect _ _ _ HR HH). Qed.

  Lemma colmaxs_nonempty : colmaxs m <> [].
  Proof. intro E. pose proof colmaxs_length as L. rewrite E in L. simpl in L. lia. Qed.

  Lemma rowmaxs_nonempty : rowmaxs m <> [].
  Proof.
    unfold rowmaxs. destruct HR as [HL _]. destruct m; simpl in *; [lia|discriminate].
  Qed.

  (* the column path: value, first column *)
  Lemma col_path : forall x vx, argmax_first (colmaxs m) = (x, vx) ->
    (x < W)%nat /\ is_max m vx /\ first_col m vx x /\ vx = lmax (col m x).
  Proof.
    intros x vx Ha.
    destruct (argmax_first_spec _ _ _ colmaxs_nonempty Ha) as [Hn [Hall Hbef]].
    assert (Hx : (x < W)%nat).
    { rewrite <- colmaxs_length. apply nth_error_Some. congruence. }
    rewrite (colmaxs_nth x Hx) in Hn. assert (Hv : lmax (col m x) = vx) by congruence. clear Hn.
    subst vx.
    destruct (colmax_spec _ _ _ x HR HH Hx) as [[i Hi] Hcol].
    assert (Hmax : forall i j w, get m i j = Some w -> w <= lmax (col m x)).
    { intros i' j w Hg. destruct (get_rect _ _ _ _ _ _ HR Hg) as [_ Hj].
      destruct (colmax_spec _ _ _ j HR HH Hj) as [_ Hc]. specialize (Hc _ _ Hg).
      rewrite Forall_forall in Hall.
      pose proof (Hall _ (nth_error_In _ _ (colmaxs_nth j Hj))). lra. }
    split; auto. split; [|split; auto].
    - split; [exists i, x; exact Hi | exact Hmax].
    - split.
      + exists i, (lmax (col m x)). split; auto. reflexivity.
      + intros j i' w Hj Hg. assert (Hj' : (j < W)%nat) by lia.
        destruct (colmax_spec _ _ _ j HR HH Hj') as [_ Hc]. specialize (Hc _ _ Hg).
        pose proof (Hbef j _ Hj (colmaxs_nth j Hj')). lra.
  Qed.

  (* the row path: first row *)
  Lemma row_path : forall y vy, argmax_first (rowmaxs m) = (y, vy) ->
    (y < H)%nat /\ is_max m vy /\ first_row m vy y.
  Proof.
    intros y vy Ha.
    destruct (argmax_first_spec _ _ _ rowmaxs_nonempty Ha) as [Hn [Hall Hbef]].
    unfold rowmaxs in Hn. rewrite nth_error_map in Hn.
    destruct (nth_error m y) as [row|] eqn:Ey; [|discriminate]. simpl in Hn.
    assert (Hv : lmax row = vy) by congruence. clear Hn.
    assert (Hy : (y < H)%nat).
    { destruct HR as [HL _]. rewrite <- HL. apply nth_error_Some. congruence. }
    destruct (lmax_spec row (row_nonempty _ _ _ _ _ HR HW Ey)) as [Hin Hrow].
    apply In_nth_error in Hin. destruct Hin as [j Hj]. rewrite Hv in Hj, Hrow.
    assert (Hrowmax : forall i r, nth_error m i = Some r -> nth_error (rowmaxs m) i = Some (lmax r)).
    { intros i r E. unfold rowmaxs. now rewrite nth_error_map, E. }
    assert (Hcell : forall i j w, get m i j = Some w -> exists r, nth_error m i = Some r /\ w <= lmax r).
    { intros i j' w Hg. unfold get in Hg. destruct (nth_error m i) as [r|] eqn:E; [|discriminate].
      exists r. split; auto.
      destruct (lmax_spec r (row_nonempty _ _ _ _ _ HR HW E)) as [_ Hr].
      rewrite Forall_forall in Hr. apply Hr. eapply nth_error_In; eauto. }
    assert (Hget : get m y j = Some vy) by (unfold get; now rewrite Ey).
    split; auto. split; [|split].
    - split; [exists y, j; exact Hget|]. intros i j' w Hg. destruct (Hcell _ _ _ Hg) as [r [E Hle]].
      rewrite Forall_forall in Hall. pose proof (Hall _ (nth_error_In _ _ (Hrowmax _ _ E))). lra.
    - exists j, vy. split; auto. reflexivity.
    - intros i j' w Hi Hg. destruct (Hcell _ _ _ Hg) as [r [E Hle]].
      pose proof (Hbef i _ Hi (Hrowmax _ _ E)). lra.
  Qed.

  (* the repaired y: first row of column x attaining the column's maximum *)
  Lemma col_argmax : forall x y' v', (x < W)%nat -> argmax_first (col m x) = (y', v') ->
    get m y' x = Some v' /\ lmax (col m x) <= v' /\
    forall i w, (i < y')%nat -> get m i x = Some w -> w < v'.
  Proof.
    intros x y' v' Hx Ha.
    destruct (argmax_first_spec _ _ _ (col_nonempty _ _ _ x HR HH) Ha) as [Hn [Hall Hbef]].
    rewrite (col_nth _ _ _ _ _ HR Hx) in Hn. split; auto. split.
    - destruct (lmax_spec _ (col_nonempty _ _ _ x HR HH)) as [Hin _].
      rewrite Forall_forall in Hall. auto.
    - intros i w Hi Hg. rewrite <- (col_nth _ _ _ _ _ HR Hx) in Hg. eauto.
  Qed.

  (* complete description of global_rough *)
  Lemma global_rough_spec : forall fixed thr res v,
    global_rough fixed m thr = (res, v) ->
    (res = None /\ v = 0 /\ exists mx, is_max m mx /\ mx < thr) \/
    (exists x y, res = Some (x, y) /\ (x < W)%nat /\ (y < H)%nat /\ is_max m v /\ thr <= v /\
                 first_col m v x /\
                 (if fixed then attains m y x v /\ forall i w, (i < y)%nat -> get m i x = Some w -> w < v
                  else first_row m v y)).
  Proof.
    intros fixed thr res v Hg. unfold global_rough in Hg.
    destruct (argmax_first (colmaxs m)) as [x vx] eqn:Ec.
    destruct (argmax_first (rowmaxs m)) as [y vy] eqn:Er.
    destruct (col_path _ _ Ec) as [Hx [Hmx [Hfc Hvx]]].
    destruct (row_path _ _ Er) as [Hy [Hmy Hfr]].
    destruct (Qltb vx thr) eqn:Et.
    - apply Qltb_lt in Et. inversion Hg; subst res v. left. repeat split; auto. exists vx. auto.
    - apply Qltb_false in Et. inversion Hg; subst res v. right.
      pose proof (is_max_unique _ _ _ Hmx Hmy) as Heq.
      destruct fixed.
      + destruct (argmax_first (col m x)) as [y' v'] eqn:Ea. simpl.
        destruct (col_argmax _ _ _ Hx Ea) as [Hget [Hge Hbef]].
        exists x, y'. destruct (get_rect _ _ _ _ _ _ HR Hget) as [Hy' _].
        assert (Hv' : v' == vx).
        { apply Qle_antisym; [|rewrite Hvx; auto]. destruct Hmx as [_ Hm]. eauto. }
        repeat split; auto; try apply Hmx; try apply Hfc.
        * exists v'. auto.
        * intros i w Hi Hgi. pose proof (Hbef i w Hi Hgi). lra.
      + exists x, y. repeat split; auto; try apply Hmx; try apply Hfc.
        * destruct Hfr as [[j [w [Hgw Hw]]] _]. exists j, w. split; auto. lra.
        * destruct Hfr as [_ Hb]. intros i j w Hi Hgi. pose proof (Hb i j w Hi Hgi). lra.
  Qed.
End Rough.

(* ------------------------------------------------------------------ *)
(* consequences                                                        *)

Lemma get_some_rect : forall H W m y x, rect_map H W m -> (y < H)%nat -> (x < W)%nat ->
  exists w, get m y x = Some w.
Proof.
  intros H W m y x [HL HF] Hy Hx. unfold get.
  destruct (nth_error m y) as [row|] eqn:E.
  - rewrite Forall_forall in HF. pose proof (HF row (nth_error_In _ _ E)) as Hl.
    destruct (nth_error row x) as [w|] eqn:E2; eauto.
    apply nth_error_None in E2. lia.
  - apply nth_error_None in E. lia.
Qed.

Section Derived.
  Variables (H W : nat) (m : cmap).
  Hypothesis HR : rect_map H W m.
  Hypothesis HH : (0 < H)%nat.
  Hypothesis HW : (0 < W)%nat.

  Lemma rough_value_is_max : forall fixed thr x y v,
    global_rough fixed m thr = (Some (x, y), v) ->
    is_max m v /\ thr <= v /\ (x < W)%nat /\ (y < H)%nat.
  Proof.
    intros fixed thr x y v Hg.
    destruct (global_rough_spec H W m HR HH HW _ _ _ _ Hg) as [[E _]|[x' [y' [E [Hx [Hy [Hm [Ht _]]]]]]]].
    - discriminate.
    - inversion E; subst. auto.
  Qed.

  Lemma rough_below_threshold : forall fixed thr v,
    global_rough fixed m thr = (None, v) -> v = 0 /\ exists mx, is_max m mx /\ mx < thr.
  Proof.
    intros fixed thr v Hg.
    destruct (global_rough_spec H W m HR HH HW _ _ _ _ Hg) as [[_ [E Hm]]|[x' [y' [E _]]]].
    - auto.
    - discriminate.
  Qed.

  Lemma rough_threshold_decides : forall fixed thr mx, is_max m mx ->
    (mx < thr -> global_rough fixed m thr = (None, 0)) /\
    (thr <= mx -> exists x y v, global_rough fixed m thr = (Some (x, y), v) /\ v == mx).
  Proof.
    intros fixed thr mx Hmx.
    destruct (global_rough fixed m thr) as [res v] eqn:Hg.
    destruct (global_rough_spec H W m HR HH HW _ _ _ _ Hg)
      as [[E [Ev [mx' [Hm' Hlt]]]]|[x' [y' [E [Hx [Hy [Hm [Ht _]]]]]]]]; subst.
    - pose proof (is_max_unique _ _ _ Hmx Hm') as Heq. split; [reflexivity|].
      intro Hge. exfalso. lra.
    - pose proof (is_max_unique _ _ _ Hmx Hm) as Heq. split.
      + intro Hlt. exfalso. lra.
      + intros _. exists x', y', v. split; auto. symmetry. exact Heq.
  Qed.

  (* the cell reported by the PINNED tree (fixed = false, before fix 4dd71e5): first maximal column, first maximal row *)
  Lemma rough_first_col_row : forall thr x y v,
    global_rough false m thr = (Some (x, y), v) -> first_col m v x /\ first_row m v y.
  Proof.
    intros thr x y v Hg.
    destruct (global_rough_spec H W m HR HH HW _ _ _ _ Hg) as [[E _]|[x' [y' [E [_ [_ [_ [_ [Hc Hr]]]]]]]]].
    - discriminate.
    - inversion E; subst. auto.
  Qed.

  Lemma rough_unique_max : forall fixed thr x y v i0 j0,
    global_rough fixed m thr = (Some (x, y), v) ->
    (forall i j, attains m i j v -> i = i0 /\ j = j0) ->
    x = j0 /\ y = i0.
  Proof.
    intros fixed thr x y v i0 j0 Hg Hu.
    destruct (global_rough_spec H W m HR HH HW _ _ _ _ Hg) as [[E _]|[x' [y' [E [_ [_ [_ [_ [Hc Hr]]]]]]]]].
    - discriminate.
    - inversion E; subst x' y'. destruct Hc as [[i Hi] _]. destruct (Hu _ _ Hi) as [_ ->].
      split; auto. destruct fixed.
      + destruct Hr as [Ha _]. destruct (Hu _ _ Ha). auto.
      + destruct Hr as [[j Hj] _]. destruct (Hu _ _ Hj). auto.
  Qed.

  (* the current tree (fix 4dd71e5, fixed = true): the reported cell always holds the maximum *)
  Lemma rough_fixed_cell_is_max : forall thr x y v,
    global_rough true m thr = (Some (x, y), v) -> attains m y x v.
  Proof.
    intros thr x y v Hg.
    destruct (global_rough_spec H W m HR HH HW _ _ _ _ Hg) as [[E _]|[x' [y' [E [_ [_ [_ [_ [_ [Ha _]]]]]]]]]].
    - discriminate.
    - inversion E; subst. auto.
  Qed.

  (* ... and WHICH maximal cell (current tree): the first column holding the maximum, and the
     first row of that column holding it *)
  Lemma rough_fixed_col_then_row : forall thr x y v,
    global_rough true m thr = (Some (x, y), v) ->
    first_col m v x /\ attains m y x v /\ forall i w, (i < y)%nat -> get m i x = Some w -> w < v.
  Proof.
    intros thr x y v Hg.
    destruct (global_rough_spec H W m HR HH HW _ _ _ _ Hg) as [[E _]|[x' [y' [E [_ [_ [_ [_ [Hc Hr]]]]]]]]].
    - discriminate.
    - inversion E; subst. tauto.
  Qed.

  (* ---- the selector of F2 ---- *)

  Lemma concat_get : forall w, In w (concat m) <-> exists i j, get m i j = Some w.
  Proof.
    intro w. rewrite in_concat. split.
    - intros [row [Hr Hw]]. apply In_nth_error in Hr. apply In_nth_error in Hw.
      destruct Hr as [i Hi]. destruct Hw as [j Hj]. exists i, j. unfold get. now rewrite Hi.
    - intros [i [j Hg]]. unfold get in Hg. destruct (nth_error m i) as [row|] eqn:E; [|discriminate].
      exists row. split; eapply nth_error_In; eauto.
  Qed.

  Lemma max_all_is_max : is_max m (max_all m).
  Proof.
    assert (Hne : concat m <> []).
    { destruct (get_some_rect _ _ _ 0 0 HR HH HW) as [w Hw].
      intro E. assert (In w (concat m)) by (apply concat_get; eauto). rewrite E in H0. contradiction. }
    destruct (lmax_spec _ Hne) as [Hin Hall]. unfold max_all. split.
    - now apply concat_get.
    - intros i j w Hg. rewrite Forall_forall in Hall. apply Hall. apply concat_get. eauto.
  Qed.

  Lemma find_seq_first : forall (f : nat -> bool) n a x,
    (a <= x < a + n)%nat -> f x = true -> (forall j, (a <= j < x)%nat -> f j = false) ->
    find f (seq a n) = Some x.
  Proof.
    intros f. induction n as [|n IH]; intros a x Hx Hfx Hbef; [lia|]. simpl.
    destruct (Nat.eq_dec a x) as [->|Hne].
    - now rewrite Hfx.
    - rewrite Hbef by lia. apply IH; auto; try lia. intros j Hj. apply Hbef. lia.
  Qed.

  Lemma col_has_iff : forall mx j,
    col_has m mx j = true <-> exists i, attains m i j mx.
  Proof.
    intros mx j. unfold col_has. rewrite existsb_exists. split.
    - intros [row [Hr Hw]]. apply In_nth_error in Hr. destruct Hr as [i Hi].
      destruct (nth_error row j) as [w|] eqn:E; [|discriminate].
      exists i, w. split; [unfold get; now rewrite Hi | now apply Qeq_bool_iff].
    - intros [i [w [Hg Hw]]]. unfold get in Hg.
      destruct (nth_error m i) as [row|] eqn:E; [|discriminate].
      exists row. split; [eapply nth_error_In; eauto|]. rewrite Hg. now apply Qeq_bool_iff.
  Qed.

  Lemma row_has_iff : forall mx i,
    match nth_error m i with Some row => row_has mx row | None => false end = true <->
    exists j, attains m i j mx.
  Proof.
    intros mx i. unfold attains, get. destruct (nth_error m i) as [row|]; split.
    - unfold row_has. rewrite existsb_exists. intros [w [Hw Hq]].
      apply In_nth_error in Hw. destruct Hw as [j Hj]. exists j, w. split; auto.
      now apply Qeq_bool_iff.
    - intros [j [w [Hg Hw]]]. unfold row_has. apply existsb_exists. exists w.
      split; [eapply nth_error_In; eauto | now apply Qeq_bool_iff].
    - discriminate.
    - intros [j [w [Hg _]]]. discriminate.
  Qed.

  Lemma attains_eq : forall i j a b, a == b -> attains m i j a -> attains m i j b.
  Proof. intros i j a b E [w [Hg Hw]]. exists w. split; auto. now rewrite Hw. Qed.

  Lemma first_col_find : forall v x, v == max_all m -> (x < W)%nat -> first_col m v x ->
    first_max_col m = Some x.
  Proof.
    intros v x Ev Hx [[i Hi] Hbef]. unfold first_max_col. rewrite (width_rect _ _ _ HR HH).
    apply find_seq_first; [lia| |].
    - apply col_has_iff. exists i. eapply attains_eq; eauto.
    - intros j Hj. destruct (col_has m (max_all m) j) eqn:E; auto.
      apply col_has_iff in E. destruct E as [i' [w [Hg Hw]]].
      assert (w < v) by (eapply Hbef; eauto; lia). exfalso. lra.
  Qed.

  Lemma first_row_find : forall v y, v == max_all m -> (y < H)%nat -> first_row m v y ->
    first_max_row m = Some y.
  Proof.
    intros v y Ev Hy [[j Hj] Hbef]. unfold first_max_row. destruct HR as [HL _]. rewrite HL.
    apply find_seq_first; [lia| |].
    - apply row_has_iff. exists j. eapply attains_eq; eauto.
    - intros i Hi.
      destruct (match nth_error m i with Some row => row_has (max_all m) row | None => false end) eqn:E; auto.
      apply row_has_iff in E. destruct E as [j' [w [Hg Hw]]].
      assert (w < v) by (eapply Hbef; eauto; lia). exfalso. lra.
  Qed.

  (* exactness of the selector: the reported cell holds the maximum iff the map is
     outside the selector *)
  Lemma selector_F2_exact : forall thr x y v,
    global_rough false m thr = (Some (x, y), v) ->
    (selector_F2 m = false <-> attains m y x v).
  Proof.
    intros thr x y v Hg.
    destruct (rough_value_is_max _ _ _ _ _ Hg) as [Hm [_ [Hx Hy]]].
    destruct (rough_first_col_row _ _ _ _ Hg) as [Hc Hr].
    pose proof (is_max_unique _ _ _ Hm max_all_is_max) as Ev.
    unfold selector_F2.
    rewrite (first_row_find _ _ Ev Hy Hr), (first_col_find _ _ Ev Hx Hc).
    destruct (get_some_rect _ _ _ _ _ HR Hy Hx) as [w Hw]. rewrite Hw. split.
    - intro E. apply negb_false_iff, Qeq_bool_iff in E. exists w. split; auto. lra.
    - intros [w' [Hg' Hw']]. rewrite Hw in Hg'. inversion Hg'; subst w'.
      apply negb_false_iff, Qeq_bool_iff. lra.
  Qed.
End Derived.

(* finding F2: two maximal cells in different rows and columns *)
Lemma cell_is_max_refuted :
  exists m thr x y v w, global_rough false m thr = (Some (x, y), v) /\
                        get m y x = Some w /\ w < v.
Proof.
  exists [[0;1];[1;0]], (1#2), 0%nat, 0%nat, 1, 0. vm_compute. auto.
Qed.

(* ------------------------------------------------------------------ *)
(* channel independence through the valid_idx gather / scatter          *)

Lemma update_nth_same {A} : forall (l : list A) k f,
  nth_error (update l k f) k = option_map f (nth_error l k).
Proof. induction l as [|a l IH]; intros [|k] f; simpl; auto. Qed.

Lemma update_nth_other {A} : forall (l : list A) k j f, j <> k ->
  nth_error (update l k f) j = nth_error l j.
Proof.
  induction l as [|a l IH]; intros [|k] [|j] f Hne; simpl; auto; try congruence.
Qed.

Lemma scatter_notin : forall upds l k, ~ In k (map fst upds) ->
  nth_error (scatter l upds) k = nth_error l k.
Proof.
  unfold scatter. induction upds as [|u t IH]; intros l k Hn; simpl; auto.
  simpl in Hn. rewrite IH by tauto. apply update_nth_other. intro E. apply Hn. auto.
Qed.

Lemma scatter_in : forall upds l k o, NoDup (map fst upds) -> In (k, o) upds ->
  nth_error (scatter l upds) k = option_map (add_off o) (nth_error l k).
Proof.
  induction upds as [|u t IH]; intros l k o Hnd Hin; [contradiction|].
  simpl in Hnd. inversion Hnd as [|? ? Hnotin Hnd']; subst.
  change (scatter l (u :: t)) with (scatter (update l (fst u) (add_off (snd u))) t).
  destruct Hin as [->|Hin].
  - simpl in *. rewrite scatter_notin by auto. apply update_nth_same.
  - rewrite (IH _ _ _ Hnd' Hin). f_equal. apply update_nth_other.
    intro E. apply Hnotin. rewrite <- E. change k with (fst (k, o)). now apply in_map.
Qed.

Lemma nth_error_ext' {A} : forall (l1 l2 : list A),
  (forall k, nth_error l1 k = nth_error l2 k) -> l1 = l2.
Proof.
  induction l1 as [|a l1 IH]; intros [|b l2] Hk; auto.
  - specialize (Hk 0%nat). discriminate.
  - specialize (Hk 0%nat). discriminate.
  - pose proof (Hk 0%nat) as H0. simpl in H0. inversion H0; subst. f_equal.
    apply IH. intro k. apply (Hk (S k)).
Qed.

Lemma combine_map_same {A B C} : forall (f : A -> B) (g : A -> C) l,
  combine (map f l) (map g l) = map (fun a => (f a, g a)) l.
Proof. induction l; simpl; auto. now rewrite IHl. Qed.

Lemma chunks_concat {A} : forall (ll : list (list A)) C,
  Forall (fun l => length l = C) ll -> chunks (length ll) C (concat ll) = ll.
Proof.
  induction ll as [|l ll IH]; intros C HF; simpl; auto. inversion HF; subst.
  rewrite firstn_app, Nat.sub_diag, firstn_all. simpl. rewrite app_nil_r.
  rewrite skipn_app, Nat.sub_diag, skipn_all. simpl. f_equal. auto.
Qed.

Lemma global_single_plain : forall fixed thr m,
  global_single fixed thr None m =
  (to_q (fst (global_rough fixed m thr)), snd (global_rough fixed m thr)).
Proof. intros. unfold global_single. destruct (global_rough fixed m thr). reflexivity. Qed.

Lemma global_single_none : forall fixed thr rf m, fst (global_rough fixed m thr) = None ->
  global_single fixed thr rf m =
  (to_q (fst (global_rough fixed m thr)), snd (global_rough fixed m thr)).
Proof.
  intros. unfold global_single. destruct (global_rough fixed m thr) as [p v]. simpl in *. subst p.
  destruct rf; reflexivity.
Qed.

Section Plumbing.
  Variables (fixed : bool) (thr : Q) (r : nat) (flat_m : list cmap).
  Let G := fun m => global_rough fixed m thr.
  Let flat_r := map G flat_m.
  Let h := fun k : nat => match nth_error flat_r k with
                          | Some (Some xy, _) => [(k, xy)]
                          | _ => []
                          end.
  Let valid := flat_map h (seq 0 (length flat_r)).
  Let F := fun v : nat * (nat * nat) =>
             integral_offset (gv r) (gv r)
               match nth_error flat_m (fst v) with
               | Some m => patch m (snd (snd v)) (fst (snd v)) r
               | None => []
               end.
  Let crops := map (fun v : nat * (nat * nat) =>
                      match nth_error flat_m (fst v) with
                      | Some m => patch m (snd (snd v)) (fst (snd v)) r
                      | None => []
                      end) valid.
  Let offsets := map (integral_offset (gv r) (gv r)) crops.
  Let upds := combine (map fst valid) offsets.
  Let base := map (fun pv : option (nat * nat) * Q => to_q (fst pv)) flat_r.

  Lemma in_valid : forall k xy, In (k, xy) valid <-> exists v, nth_error flat_r k = Some (Some xy, v).
  Proof.
    intros k xy. unfold valid. rewrite in_flat_map. split.
    - intros [k' [_ Hin]]. unfold h in Hin.
      destruct (nth_error flat_r k') as [[[xy'|] v]|] eqn:E; try contradiction.
      destruct Hin as [Hin|[]]. inversion Hin; subst. eauto.
    - intros [v E]. exists k. split.
      + apply in_seq. split; [lia|]. simpl. apply nth_error_Some. congruence.
      + unfold h. rewrite E. left. reflexivity.
  Qed.

  Lemma valid_nodup : NoDup (map fst valid).
  Proof.
    unfold valid. rewrite map_flat_map'. apply (NoDup_flat_map_seq _ (fun k => k)).
    - intros i a Ha. unfold h in Ha. destruct (nth_error flat_r i) as [[[xy|] v]|]; simpl in Ha;
        try contradiction. destruct Ha as [<-|[]]. reflexivity.
    - intro i. unfold h. destruct (nth_error flat_r i) as [[[xy|] v]|]; simpl; repeat constructor.
      intros [].
  Qed.

  Lemma upds_eq : upds = map (fun v => (fst v, F v)) valid.
  Proof. unfold upds, offsets, crops. rewrite map_map. apply combine_map_same. Qed.

  Lemma upds_fst : map fst upds = map fst valid.
  Proof. rewrite upds_eq, map_map. reflexivity. Qed.

  Lemma refined_nth : forall k,
    nth_error (scatter base upds) k =
    option_map (fun m => fst (global_single fixed thr (Some r) m)) (nth_error flat_m k).
  Proof.
    intro k.
    assert (Hr : nth_error flat_r k = option_map G (nth_error flat_m k)) by (apply nth_error_map).
    assert (Hb : nth_error base k = option_map (fun m => to_q (fst (G m))) (nth_error flat_m k)).
    { unfold base, flat_r. rewrite map_map. apply nth_error_map. }
    destruct (nth_error flat_m k) as [m|] eqn:Em; simpl in *.
    - unfold global_single. fold (G m). destruct (G m) as [[[x y]|] v] eqn:EG.
      + assert (Hin : In (k, F (k, (x, y))) upds).
        { rewrite upds_eq. apply (in_map (fun v => (fst v, F v)) valid (k, (x, y))).
          apply in_valid. eauto. }
        rewrite (scatter_in _ _ _ _ (eq_ind_r (@NoDup nat) valid_nodup upds_fst) Hin), Hb.
        simpl. unfold F. simpl. rewrite Em. unfold refine_at.
        destruct (integral_offset (gv r) (gv r) (patch m y x r)) as [[dx dy]|]; reflexivity.
      + rewrite scatter_notin; [rewrite Hb; reflexivity|].
        rewrite upds_fst. intro Hin. apply in_map_iff in Hin. destruct Hin as [[k' xy] [E Hin]].
        simpl in E. subst k'. apply in_valid in Hin. destruct Hin as [v' Hv]. congruence.
    - rewrite scatter_notin; auto.
      rewrite upds_fst. intro Hin. apply in_map_iff in Hin. destruct Hin as [[k' xy] [E Hin]].
      simpl in E. subst k'. apply in_valid in Hin. destruct Hin as [v' Hv]. congruence.
  Qed.

  Lemma refined_eq :
    combine (scatter base upds) (map snd flat_r) = map (global_single fixed thr (Some r)) flat_m.
  Proof.
    assert (E : scatter base upds = map (fun m => fst (global_single fixed thr (Some r) m)) flat_m).
    { apply nth_error_ext'. intro k. rewrite refined_nth. symmetry. apply nth_error_map. }
    rewrite E. unfold flat_r. rewrite map_map.
    rewrite (map_ext (fun x => snd (G x)) (fun m => snd (global_single fixed thr (Some r) m))).
    - rewrite combine_map_same. apply map_ext. intro m.
      destruct (global_single fixed thr (Some r) m); reflexivity.
    - intro m. unfold global_single. fold (G m). destruct (G m) as [p v]. reflexivity.
  Qed.
End Plumbing.

Lemma global_peaks_pointwise : forall fixed cms thr refine,
  Forall (fun chans => length chans = length (hd [] cms)) cms ->
  global_peaks fixed cms thr refine = map (map (global_single fixed thr refine)) cms.
Proof.
  intros fixed cms thr refine HC. unfold global_peaks.
  assert (Hplain : map (map (fun pv : option (nat * nat) * Q => (to_q (fst pv), snd pv)))
                       (map (map (fun m => global_rough fixed m thr)) cms)
                   = map (map (fun m => (to_q (fst (global_rough fixed m thr)),
                                         snd (global_rough fixed m thr)))) cms).
  { rewrite map_map. apply map_ext. intro chans. rewrite map_map. reflexivity. }
  destruct refine as [r|].
  - rewrite <- concat_map.
    destruct (forallb _ (map (fun m => global_rough fixed m thr) (concat cms))) eqn:Eall.
    + rewrite Hplain. apply map_ext_in. intros chans Hch. apply map_ext_in. intros m Hm.
      symmetry. apply global_single_none.
      rewrite forallb_forall in Eall.
      assert (Hin : In (global_rough fixed m thr) (map (fun m => global_rough fixed m thr) (concat cms))).
      { apply (in_map (fun m => global_rough fixed m thr)). apply in_concat. eauto. }
      specialize (Eall _ Hin). destruct (fst (global_rough fixed m thr)); [discriminate|reflexivity].
    + match goal with |- chunks _ _ ?X = _ =>
        replace X with (map (global_single fixed thr (Some r)) (concat cms))
          by (symmetry; apply refined_eq) end.
      rewrite concat_map. rewrite <- (map_length (map (global_single fixed thr (Some r))) cms).
      apply chunks_concat. rewrite Forall_map. eapply Forall_impl; [|exact HC].
      simpl. intros a Ha. now rewrite map_length.
  - rewrite Hplain. apply map_ext. intro chans. apply map_ext. intro m.
    symmetry. apply global_single_plain.
Qed.

(* ------------------------------------------------------------------ *)
(* a patch symmetric about its centre gives offset exactly 0           *)

Definition point_symmetric (P : list (list Q)) : Prop := map (@rev Q) (rev P) = P.

Lemma qsum_app : forall a b, qsum (a ++ b) == qsum a + qsum b.
Proof. induction a as [|x a IH]; intros b; simpl; [ring|]. rewrite IH. ring. Qed.

Lemma qsum_rev : forall l, qsum (rev l) == qsum l.
Proof. induction l as [|x l IH]; simpl; [reflexivity|]. rewrite qsum_app, IH. simpl. ring. Qed.

Lemma combine_app' {A B} : forall (a1 a2 : list A) (b1 b2 : list B), length a1 = length b1 ->
  combine (a1 ++ a2) (b1 ++ b2) = combine a1 b1 ++ combine a2 b2.
Proof.
  induction a1 as [|x a1 IH]; intros a2 [|y b1] b2 Hl; simpl in *; try discriminate; auto.
  f_equal. apply IH. lia.
Qed.

Lemma combine_rev {A B} : forall (a : list A) (b : list B), length a = length b ->
  combine (rev a) (rev b) = rev (combine a b).
Proof.
  induction a as [|x a IH]; intros [|y b] Hl; simpl in *; auto; try discriminate.
  rewrite <- IH by lia. rewrite combine_app' by (rewrite !rev_length; lia). reflexivity.
Qed.

Lemma dot_rev : forall a b, length a = length b -> dot (rev a) (rev b) == dot a b.
Proof.
  intros a b Hl. unfold dot. rewrite combine_rev by auto. rewrite map_rev. apply qsum_rev.
Qed.

Lemma dot_opp : forall a b, dot (map Qopp a) b == - dot a b.
Proof.
  induction a as [|x a IH]; intros [|y b]; unfold dot in *; simpl; try ring.
  rewrite IH. ring.
Qed.

Lemma dot_congr : forall g l1 l2, Forall2 Qeq l1 l2 -> dot g l1 == dot g l2.
Proof.
  induction g as [|x g IH]; intros l1 l2 HF; [reflexivity|].
  destruct HF as [|a b l1 l2 Hab HF]; [reflexivity|].
  rewrite !dot_cons. rewrite (IH _ _ HF), Hab. reflexivity.
Qed.

Definition antisym (g : list Q) : Prop := rev g = map Qopp g.

Lemma dot_rev_r : forall g row, antisym g -> length g = length row ->
  dot g (rev row) == - dot g row.
Proof.
  intros g row Ha Hl. rewrite <- (rev_involutive g) at 1.
  rewrite dot_rev by (rewrite rev_length; auto). rewrite Ha. apply dot_opp.
Qed.

Lemma qsum_map_opp {A} : forall (f g : A -> Q) l, (forall a, In a l -> f a == - g a) ->
  qsum (map f l) == - qsum (map g l).
Proof.
  induction l as [|a l IH]; intros H; simpl; [ring|].
  rewrite IH by (intros; apply H; simpl; auto). rewrite (H a) by (simpl; auto). ring.
Qed.

Lemma numx_symmetric : forall g P, antisym g -> Forall (fun row => length row = length g) P ->
  qsum (map (dot g) (map (@rev Q) (rev P))) == - qsum (map (dot g) P).
Proof.
  intros g P Ha HF. rewrite map_map.
  rewrite (qsum_map_opp _ (dot g)).
  - rewrite map_rev, qsum_rev. reflexivity.
  - intros row Hr. apply dot_rev_r; auto. rewrite Forall_forall in HF. symmetry. apply HF.
    now apply in_rev.
Qed.

Lemma numy_symmetric : forall g P, antisym g -> length P = length g ->
  dot g (map qsum (map (@rev Q) (rev P))) == - dot g (map qsum P).
Proof.
  intros g P Ha Hl. rewrite map_map.
  rewrite (dot_congr g _ (rev (map qsum P))).
  - apply dot_rev_r; auto. now rewrite map_length.
  - rewrite <- map_rev. induction (rev P) as [|row l IH]; simpl; constructor; auto.
    apply qsum_rev.
Qed.

Lemma self_opp_zero : forall a, a == - a -> a == 0.
Proof. intros a H. lra. Qed.

Lemma offset_symmetric : forall g P dx dy, antisym g ->
  length P = length g -> Forall (fun row => length row = length g) P ->
  point_symmetric P -> integral_offset g g P = Some (dx, dy) -> dx == 0 /\ dy == 0.
Proof.
  intros g P dx dy Ha Hl HF Hs Ho. unfold integral_offset in Ho.
  destruct (Qeq_bool (qsum (map qsum P)) 0); [discriminate|]. inversion Ho; subst. clear Ho.
  pose proof (numx_symmetric g P Ha HF) as Hx. pose proof (numy_symmetric g P Ha Hl) as Hy.
  unfold point_symmetric in Hs. rewrite Hs in Hx, Hy.
  apply self_opp_zero in Hx. apply self_opp_zero in Hy.
  split; unfold Qdiv; [rewrite Hx | rewrite Hy]; ring.
Qed.

Lemma rev_seq : forall n, rev (seq 0 n) = map (fun k => (n - 1 - k)%nat) (seq 0 n).
Proof.
  induction n as [|n IH]; [reflexivity|].
  rewrite seq_S at 1. rewrite rev_app_distr. simpl rev. simpl app.
  rewrite IH. simpl seq. simpl map. rewrite <- seq_shift, map_map. f_equal; [lia|].
  apply map_ext. intro k. lia.
Qed.

Lemma zrange_rev : forall r, rev (zrange r) = map Z.opp (zrange r).
Proof.
  intro r. unfold zrange. rewrite <- map_rev, rev_seq, !map_map.
  apply map_ext_in. intros k Hk. apply in_seq in Hk. lia.
Qed.

Lemma zrange_length : forall r, length (zrange r) = (2 * r + 1)%nat.
Proof. intro r. unfold zrange. now rewrite map_length, seq_length. Qed.

Lemma gv_antisym : forall r, antisym (gv r).
Proof.
  intro r. unfold antisym, gv. rewrite <- map_rev, zrange_rev, !map_map.
  apply map_ext. intro z. apply inject_Z_opp.
Qed.

Lemma patch_shape : forall m y x r,
  length (patch m y x r) = length (gv r) /\
  Forall (fun row => length row = length (gv r)) (patch m y x r).
Proof.
  intros. unfold patch, gv. rewrite !map_length. split; auto.
  rewrite Forall_map. apply Forall_forall. intros dy _. now rewrite !map_length.
Qed.

(* the map is symmetric about (y,x) on the window (0 outside the map) *)
Definition window_symmetric (m : cmap) (y x r : nat) : Prop :=
  forall dy dx, In dy (zrange r) -> In dx (zrange r) ->
  cell0 m (Z.of_nat y + - dy) (Z.of_nat x + - dx) = cell0 m (Z.of_nat y + dy) (Z.of_nat x + dx).

Lemma patch_symmetric : forall m y x r, window_symmetric m y x r ->
  point_symmetric (patch m y x r).
Proof.
  intros m y x r Hs. unfold point_symmetric, patch.
  rewrite <- map_rev, zrange_rev, !map_map. apply map_ext_in. intros dy Hdy.
  rewrite <- map_rev, zrange_rev, map_map. apply map_ext_in. intros dx Hdx. auto.
Qed.

Lemma refine_symmetric_unmoved : forall m x y r px py,
  window_symmetric m y x r -> refine_at m x y r = Some (px, py) ->
  px == inject_Z (Z.of_nat x) /\ py == inject_Z (Z.of_nat y).
Proof.
  intros m x y r px py Hs Hr. unfold refine_at in Hr.
  destruct (integral_offset (gv r) (gv r) (patch m y x r)) as [[dx dy]|] eqn:E; [|discriminate].
  inversion Hr; subst. clear Hr. destruct (patch_shape m y x r) as [Hl HF].
  destruct (offset_symmetric _ _ _ _ (gv_antisym r) Hl HF (patch_symmetric _ _ _ _ Hs) E) as [-> ->].
  split; ring.
Qed.

(* ------------------------------------------------------------------ *)
(* refinement bound for the global path (F9 shared with C06)            *)

Lemma global_refine_bound : forall fixed thr r m x y v,
  global_rough fixed m thr = (Some (x, y), v) -> selector_F9 m y x r = false ->
  exists px py, global_single fixed thr (Some r) m = (Some (px, py), v) /\
    Qabs (px - inject_Z (Z.of_nat x)) <= inject_Z (Z.of_nat r) /\
    Qabs (py - inject_Z (Z.of_nat y)) <= inject_Z (Z.of_nat r) /\
    inject_Z (Z.of_nat r) < inject_Z (Z.of_nat (2 * r + 1)) / 2.
Proof.
  intros fixed thr r m x y v Hg Hsel.
  destruct (refine_bound_outside_F9 _ _ _ _ Hsel) as [px [py [E B]]].
  exists px, py. split; auto. unfold global_single. rewrite Hg. now rewrite E.
Qed.

Lemma global_refine_bound_refuted :
  exists m thr r x y v px py,
    global_rough false m thr = (Some (x, y), v) /\
    global_single false thr (Some r) m = (Some (px, py), v) /\
    inject_Z (Z.of_nat (2 * r + 1)) / 2 < Qabs (px - inject_Z (Z.of_nat x)).
Proof.
  exists f9_witness, (1#2), 2%nat. do 5 eexists.
  split; [vm_compute; reflexivity|]. split; [vm_compute; reflexivity|]. vm_compute. reflexivity.
Qed.

Lemma ex_window_symmetric : window_symmetric [[0;1;0];[1;4;1];[0;1;0]] 1 1 1.
Proof.
  intros dy dx Hy Hx. change (zrange 1) with [-1; 0; 1]%Z in *. simpl in Hy, Hx.
  destruct Hy as [<-|[<-|[<-|[]]]]; destruct Hx as [<-|[<-|[<-|[]]]]; reflexivity.
Qed.
