(* PatchP.v (C07) — proofs about find_global_peaks with ANY integral_patch_size p >= 1
   (Global.global_peaks_p / global_single_p over Peaks.patch_p / gv_p): channel
   independence through the valid_idx gather / scatter path, the half-patch bound outside
   F9, and "a symmetric window leaves the peak unmoved" — for odd and even p alike. *)
From Coq Require Import List ZArith QArith Qabs Bool Arith Lia Lra Psatz.
From SV Require Import C06.Peaks C06.Lemmas C06.PatchP C07.Global C07.Lemmas.
Import ListNotations.
Open Scope Q_scope.

(* ------------------------------------------------------------------ *)
(* channel independence (copy of Lemmas.Plumbing with the patch taken by size) *)

Lemma global_single_p_plain : forall fixed thr m,
  global_single_p fixed thr None m =
  (to_q (fst (global_rough fixed m thr)), snd (global_rough fixed m thr)).
Proof. intros. unfold global_single_p. destruct (global_rough fixed m thr). reflexivity. Qed.

Lemma global_single_p_none : forall fixed thr rf m, fst (global_rough fixed m thr) = None ->
  global_single_p fixed thr rf m =
  (to_q (fst (global_rough fixed m thr)), snd (global_rough fixed m thr)).
Proof.
  intros. unfold global_single_p. destruct (global_rough fixed m thr) as [p v]. simpl in *. subst p.
  destruct rf; reflexivity.
Qed.

Section PlumbingP.
  Variables (fixed : bool) (thr : Q) (p : nat) (flat_m : list cmap).
  Let G := fun m => global_rough fixed m thr.
  Let flat_r := map G flat_m.
  Let h := fun k : nat => match nth_error flat_r k with
                          | Some (Some xy, _) => [(k, xy)]
                          | _ => []
                          end.
  Let valid := flat_map h (seq 0 (length flat_r)).
  Let F := fun v : nat * (nat * nat) =>
             integral_offset (gv_p p) (gv_p p)
               match nth_error flat_m (fst v) with
               | Some m => patch_p m (snd (snd v)) (fst (snd v)) p
               | None => []
               end.
  Let crops := map (fun v : nat * (nat * nat) =>
                      match nth_error flat_m (fst v) with
                      | Some m => patch_p m (snd (snd v)) (fst (snd v)) p
                      | None => []
                      end) valid.
  Let offsets := map (integral_offset (gv_p p) (gv_p p)) crops.
  Let upds := combine (map fst valid) offsets.
  Let base := map (fun pv : option (nat * nat) * Q => to_q (fst pv)) flat_r.

  Lemma in_valid_p : forall k xy, In (k, xy) valid <-> exists v, nth_error flat_r k = Some (Some xy, v).
  Proof.
    intros k xy. unfold valid. rewrite in_flat_map. split.
    - intros [k' [_ Hin]]. unfold h in Hin.
      destruct (nth_error flat_r k') as [[[xy'|] v]|] eqn:E; try contradiction.
      destruct Hin as [Hin|[]]. inversion Hin; subst. eauto.
    - intros [v E]. exists k. split.
      + apply in_seq. split; [lia|]. simpl. apply nth_error_Some. congruence.
      + unfold h. rewrite E. left. reflexivity.
  Qed.

  Lemma valid_nodup_p : NoDup (map fst valid).
  Proof.
    unfold valid. rewrite map_flat_map'. apply (NoDup_flat_map_seq _ (fun k => k)).
    - intros i a Ha. unfold h in Ha. destruct (nth_error flat_r i) as [[[xy|] v]|]; simpl in Ha;
        try contradiction. destruct Ha as [<-|[]]. reflexivity.
    - intro i. unfold h. destruct (nth_error flat_r i) as [[[xy|] v]|]; simpl; repeat constructor.
      intros [].
  Qed.

  Lemma upds_eq_p : upds = map (fun v => (fst v, F v)) valid.
  Proof. unfold upds, offsets, crops. rewrite map_map. apply combine_map_same. Qed.

  Lemma upds_fst_p : map fst upds = map fst valid.
  Proof. rewrite upds_eq_p, map_map. reflexivity. Qed.

  Lemma refined_nth_p : forall k,
    nth_error (scatter base upds) k =
    option_map (fun m => fst (global_single_p fixed thr (Some p) m)) (nth_error flat_m k).
  Proof.
    intro k.
    assert (Hr : nth_error flat_r k = option_map G (nth_error flat_m k)) by (apply nth_error_map).
    assert (Hb : nth_error base k = option_map (fun m => to_q (fst (G m))) (nth_error flat_m k)).
    { unfold base, flat_r. rewrite map_map. apply nth_error_map. }
    destruct (nth_error flat_m k) as [m|] eqn:Em; simpl in *.
    - unfold global_single_p. fold (G m). destruct (G m) as [[[x y]|] v] eqn:EG.
      + assert (Hin : In (k, F (k, (x, y))) upds).
        { rewrite upds_eq_p. apply (in_map (fun v => (fst v, F v)) valid (k, (x, y))).
          apply in_valid_p. eauto. }
        rewrite (scatter_in _ _ _ _ (eq_ind_r (@NoDup nat) valid_nodup_p upds_fst_p) Hin), Hb.
        simpl. unfold F. simpl. rewrite Em. unfold refine_at_p.
        destruct (integral_offset (gv_p p) (gv_p p) (patch_p m y x p)) as [[dx dy]|]; reflexivity.
      + rewrite scatter_notin; [rewrite Hb; reflexivity|].
        rewrite upds_fst_p. intro Hin. apply in_map_iff in Hin. destruct Hin as [[k' xy] [E Hin]].
        simpl in E. subst k'. apply in_valid_p in Hin. destruct Hin as [v' Hv]. congruence.
    - rewrite scatter_notin; auto.
      rewrite upds_fst_p. intro Hin. apply in_map_iff in Hin. destruct Hin as [[k' xy] [E Hin]].
      simpl in E. subst k'. apply in_valid_p in Hin. destruct Hin as [v' Hv]. congruence.
  Qed.

  Lemma refined_eq_p :
    combine (scatter base upds) (map snd flat_r) = map (global_single_p fixed thr (Some p)) flat_m.
  Proof.
    assert (E : scatter base upds = map (fun m => fst (global_single_p fixed thr (Some p) m)) flat_m).
    { apply nth_error_ext'. intro k. rewrite refined_nth_p. symmetry. apply nth_error_map. }
    rewrite E. unfold flat_r. rewrite map_map.
    rewrite (map_ext (fun x => snd (G x)) (fun m => snd (global_single_p fixed thr (Some p) m))).
    - rewrite combine_map_same. apply map_ext. intro m.
      destruct (global_single_p fixed thr (Some p) m); reflexivity.
    - intro m. unfold global_single_p. fold (G m). destruct (G m) as [pt v]. reflexivity.
  Qed.
End PlumbingP.

Lemma global_peaks_p_pointwise : forall fixed cms thr refine,
  Forall (fun chans => length chans = length (hd [] cms)) cms ->
  global_peaks_p fixed cms thr refine = map (map (global_single_p fixed thr refine)) cms.
Proof.
  intros fixed cms thr refine HC. unfold global_peaks_p.
  assert (Hplain : map (map (fun pv : option (nat * nat) * Q => (to_q (fst pv), snd pv)))
                       (map (map (fun m => global_rough fixed m thr)) cms)
                   = map (map (fun m => (to_q (fst (global_rough fixed m thr)),
                                         snd (global_rough fixed m thr)))) cms).
  { rewrite map_map. apply map_ext. intro chans. rewrite map_map. reflexivity. }
  destruct refine as [p|].
  - rewrite <- concat_map.
    destruct (forallb _ (map (fun m => global_rough fixed m thr) (concat cms))) eqn:Eall.
    + rewrite Hplain. apply map_ext_in. intros chans Hch. apply map_ext_in. intros m Hm.
      symmetry. apply global_single_p_none.
      rewrite forallb_forall in Eall.
      assert (Hin : In (global_rough fixed m thr) (map (fun m => global_rough fixed m thr) (concat cms))).
      { apply (in_map (fun m => global_rough fixed m thr)). apply in_concat. eauto. }
      specialize (Eall _ Hin). destruct (fst (global_rough fixed m thr)); [discriminate|reflexivity].
    + match goal with |- chunks _ _ ?X = _ =>
        replace X with (map (global_single_p fixed thr (Some p)) (concat cms))
          by (symmetry; apply refined_eq_p) end.
      rewrite concat_map. rewrite <- (map_length (map (global_single_p fixed thr (Some p))) cms).
      apply chunks_concat. rewrite Forall_map. eapply Forall_impl; [|exact HC].
      simpl. intros a Ha. now rewrite map_length.
  - rewrite Hplain. apply map_ext. intro chans. apply map_ext. intro m.
    symmetry. apply global_single_p_plain.
Qed.

(* odd p = 2r+1 is the radius model of Global.global_peaks *)
Lemma global_single_p_odd : forall fixed thr r m,
  global_single_p fixed thr (Some (2 * r + 1)%nat) m = global_single fixed thr (Some r) m.
Proof.
  intros. unfold global_single_p, global_single. destruct (global_rough fixed m thr) as [[[x y]|] v]; auto.
  now rewrite refine_at_p_odd.
Qed.

Lemma global_peaks_p_odd : forall fixed cms thr r,
  Forall (fun chans => length chans = length (hd [] cms)) cms ->
  global_peaks_p fixed cms thr (Some (2 * r + 1)%nat) = global_peaks fixed cms thr (Some r).
Proof.
  intros fixed cms thr r HC. rewrite global_peaks_p_pointwise, global_peaks_pointwise by auto.
  apply map_ext. intro chans. apply map_ext. intro m. apply global_single_p_odd.
Qed.

(* ------------------------------------------------------------------ *)
(* the half-patch bound for the global path, any p >= 1                 *)

Lemma global_refine_bound_p : forall fixed thr p m x y v, (1 <= p)%nat ->
  global_rough fixed m thr = (Some (x, y), v) -> selector_F9_p m y x p = false ->
  exists px py, global_single_p fixed thr (Some p) m = (Some (px, py), v) /\
    Qabs (px - inject_Z (Z.of_nat x)) <= half_reach p /\
    Qabs (py - inject_Z (Z.of_nat y)) <= half_reach p /\
    half_reach p < inject_Z (Z.of_nat p) / 2.
Proof.
  intros fixed thr p m x y v Hp Hg Hsel.
  destruct (refine_bound_p _ _ _ _ Hp Hsel) as [px [py [E B]]].
  exists px, py. split; auto. unfold global_single_p. rewrite Hg. now rewrite E.
Qed.

Lemma global_refine_bound_refuted_even :
  exists m thr p x y v px py, Nat.even p = true /\
    global_rough true m thr = (Some (x, y), v) /\
    global_single_p true thr (Some p) m = (Some (px, py), v) /\
    inject_Z (Z.of_nat p) / 2 < Qabs (px - inject_Z (Z.of_nat x)).
Proof.
  exists f9_witness, (1#2), 4%nat. do 5 eexists. split; [reflexivity|].
  split; [vm_compute; reflexivity|]. split; [vm_compute; reflexivity|]. vm_compute. reflexivity.
Qed.

(* ------------------------------------------------------------------ *)
(* symmetric window => offset exactly 0, with the patch symmetric up to == *)

Definition point_symmetric_eq (P : list (list Q)) : Prop :=
  Forall2 (Forall2 Qeq) (map (@rev Q) (rev P)) P.

Lemma qsum_congr : forall l1 l2, Forall2 Qeq l1 l2 -> qsum l1 == qsum l2.
Proof. induction 1; simpl; [reflexivity|]. rewrite H, IHForall2. reflexivity. Qed.

Lemma numx_congr : forall g P1 P2, Forall2 (Forall2 Qeq) P1 P2 ->
  qsum (map (dot g) P1) == qsum (map (dot g) P2).
Proof.
  intros g P1 P2 HF. apply qsum_congr. induction HF; simpl; constructor; auto.
  now apply dot_congr.
Qed.

Lemma rowsum_congr : forall P1 P2, Forall2 (Forall2 Qeq) P1 P2 ->
  Forall2 Qeq (map qsum P1) (map qsum P2).
Proof. intros P1 P2 HF. induction HF; simpl; constructor; auto. now apply qsum_congr. Qed.

Lemma offset_symmetric_eq : forall g P dx dy, antisym g ->
  length P = length g -> Forall (fun row => length row = length g) P ->
  point_symmetric_eq P -> integral_offset g g P = Some (dx, dy) -> dx == 0 /\ dy == 0.
Proof.
  intros g P dx dy Ha Hl HF Hs Ho. unfold integral_offset in Ho.
  destruct (Qeq_bool (qsum (map qsum P)) 0); [discriminate|]. inversion Ho; subst. clear Ho.
  pose proof (numx_symmetric g P Ha HF) as Hx. pose proof (numy_symmetric g P Ha Hl) as Hy.
  unfold point_symmetric_eq in Hs.
  rewrite (numx_congr g _ _ Hs) in Hx. rewrite (dot_congr g _ _ (rowsum_congr _ _ Hs)) in Hy.
  apply self_opp_zero in Hx. apply self_opp_zero in Hy.
  split; unfold Qdiv; [rewrite Hx | rewrite Hy]; ring.
Qed.

Lemma point_symmetric_is_eq : forall P, point_symmetric P -> point_symmetric_eq P.
Proof.
  intros P H. unfold point_symmetric_eq. rewrite H. clear H.
  induction P as [|row P IH]; constructor; auto.
  induction row; constructor; auto. reflexivity.
Qed.

Lemma ezrange_rev : forall h, rev (ezrange h) = map (fun k => (1 - k)%Z) (ezrange h).
Proof.
  intro h. unfold ezrange. rewrite <- map_rev, rev_seq, !map_map.
  apply map_ext_in. intros k Hk. apply in_seq in Hk. lia.
Qed.

Lemma ezrange_length : forall h, length (ezrange h) = (2 * h)%nat.
Proof. intro h. unfold ezrange. now rewrite map_length, seq_length. Qed.

Lemma egv_antisym : forall h, antisym (egv h).
Proof.
  intro h. unfold antisym, egv. rewrite <- map_rev, ezrange_rev, !map_map.
  apply map_ext. intro z.
  (* syntactic equality of rationals is needed here: same numerator and denominator *)
  unfold Qopp, Qminus, Qplus, Qopp, inject_Z. cbn [Qnum Qden]. f_equal. lia.
Qed.

Lemma epatch_shape : forall m y x h,
  length (epatch m y x h) = length (egv h) /\
  Forall (fun row => length row = length (egv h)) (epatch m y x h).
Proof.
  intros. unfold epatch, egv. rewrite !map_length. split; auto.
  rewrite Forall_map. apply Forall_forall. intros dy _. now rewrite !map_length.
Qed.

Lemma Forall2_map_same {A B} (R : B -> B -> Prop) : forall (f g : A -> B) l,
  (forall a, In a l -> R (f a) (g a)) -> Forall2 R (map f l) (map g l).
Proof.
  intros f g l. induction l as [|a l IH]; intros H; simpl; constructor.
  - apply H. simpl. auto.
  - apply IH. intros. apply H. simpl. auto.
Qed.

(* window_symmetric m y x h speaks about the cells within radius h of (y,x): exactly
   the cells a 2h x 2h half-pixel patch reads *)
Lemma epatch_symmetric : forall m y x h, window_symmetric m y x h ->
  point_symmetric_eq (epatch m y x h).
Proof.
  intros m y x h Hs. unfold point_symmetric_eq, epatch.
  rewrite <- map_rev, ezrange_rev, !map_map. apply Forall2_map_same. intros dy Hdy.
  rewrite <- map_rev, ezrange_rev, map_map. apply Forall2_map_same. intros dx Hdx.
  apply In_ezrange in Hdy. apply In_ezrange in Hdx. unfold samp4.
  assert (S : forall a b, (- Z.of_nat h <= a <= Z.of_nat h)%Z -> (- Z.of_nat h <= b <= Z.of_nat h)%Z ->
              cell0 m (Z.of_nat y + - a) (Z.of_nat x + - b) = cell0 m (Z.of_nat y + a) (Z.of_nat x + b)).
  { intros a b Ha Hb. apply Hs; apply In_zrange; auto. }
  replace (Z.of_nat y + (1 - dy) - 1)%Z with (Z.of_nat y + - dy)%Z by lia.
  replace (Z.of_nat x + (1 - dx) - 1)%Z with (Z.of_nat x + - dx)%Z by lia.
  replace (Z.of_nat y + (1 - dy))%Z with (Z.of_nat y + - (dy - 1))%Z by lia.
  replace (Z.of_nat x + (1 - dx))%Z with (Z.of_nat x + - (dx - 1))%Z by lia.
  rewrite (S dy dx), (S dy (dx - 1)%Z), (S (dy - 1)%Z dx), (S (dy - 1)%Z (dx - 1)%Z) by lia.
  replace (Z.of_nat y + dy - 1)%Z with (Z.of_nat y + (dy - 1))%Z by lia.
  replace (Z.of_nat x + dx - 1)%Z with (Z.of_nat x + (dx - 1))%Z by lia.
  field.
Qed.

(* any patch size: a window (radius p/2) symmetric about the cell leaves it unmoved *)
Lemma refine_symmetric_unmoved_p : forall m x y p px py,
  window_symmetric m y x (p / 2) -> refine_at_p m x y p = Some (px, py) ->
  px == inject_Z (Z.of_nat x) /\ py == inject_Z (Z.of_nat y).
Proof.
  intros m x y p px py Hs Hr. unfold refine_at_p in Hr.
  destruct (integral_offset (gv_p p) (gv_p p) (patch_p m y x p)) as [[dx dy]|] eqn:E; [|discriminate].
  inversion Hr; subst. clear Hr.
  assert (Z0 : dx == 0 /\ dy == 0).
  { destruct (parity_cases p) as [[r ->]|[h ->]].
    - rewrite half_odd_p in Hs. rewrite gv_p_odd, patch_p_odd in E.
      destruct (patch_shape m y x r) as [Hl HF].
      exact (offset_symmetric _ _ _ _ (gv_antisym r) Hl HF (patch_symmetric _ _ _ _ Hs) E).
    - rewrite half_even_p in Hs. rewrite gv_p_even, patch_p_even in E.
      destruct (epatch_shape m y x h) as [Hl HF].
      exact (offset_symmetric_eq _ _ _ _ (egv_antisym h) Hl HF (epatch_symmetric _ _ _ _ Hs) E). }
  destruct Z0 as [-> ->]. split; ring.
Qed.

Lemma ex_symmetric_even :
  exists px py, refine_at_p [[0;1;0];[1;4;1];[0;1;0]] 1 1 2 = Some (px, py) /\ px == 1 /\ py == 1.
Proof. eexists. eexists. split; [vm_compute; reflexivity|]. split; reflexivity. Qed.
