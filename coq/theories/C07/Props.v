(* Props.v (C07) — statements only.  Proofs: C07/Lemmas.v (rationals, no axioms),
   C07/GaussR.v (reals).  The no-overshoot statement proved with interval
   arithmetic is in C07/PropsBox.v (it depends on the standard library's axiomatised
   primitive integers, so it is kept apart).

   Reading.  `global_rough fixed m thr` is the rough global peak of one map:
   (Some (x, y) | None = NaN coordinates, value).  `fixed = false` is the PINNED tree
   (before fix 4dd71e5: x = first maximal column, y = first maximal row, computed
   independently — finding F2, historic); `fixed = true` is the CURRENT tree (/repo HEAD
   contains fix 4dd71e5 = proposed_fixes/C07_F2.diff: y = first maximal row within column
   x).  The harness detects the variant by replaying the F2 witness (currently `true`).
   `thr` is the threshold as the code compares it: the caller's Python float rounded to the
   map's dtype (end of C06/Peaks.v); the harness passes that exact rational, so (a), (c)
   speak about `max < dtype(threshold)`.
   `rect_map H W m` = m has H rows of W values.
   `is_max m v` = some cell holds v and no cell exceeds v.  `attains m i j v` = cell
   (row i, column j) holds a value equal to v.  `global_peaks` is the batch function
   with the valid_idx gather/scatter of the refinement path; `global_single` is what
   one channel's answer should be as a function of that channel's map alone. *)
From Coq Require Import List ZArith QArith Qabs Qreals Reals Bool Arith.
Import ListNotations.
From SV Require Import C06.Peaks C06.Lemmas C06.PatchP C07.Global C07.Lemmas C07.PatchP C07.GaussR C07.GaussE C07.Border C07.Layer C07.LayerLemmas C07.SymQeq C07.GaussP3.

Section Rationals.
Local Open Scope Q_scope.

(* (a) the reported value is the maximum of that map (and passes the threshold) *)
Theorem c07_value_is_max : forall H W m, rect_map H W m -> (0 < H)%nat -> (0 < W)%nat ->
  forall fixed thr x y v, global_rough fixed m thr = (Some (x, y), v) ->
  is_max m v /\ thr <= v /\ (x < W)%nat /\ (y < H)%nat.
Proof. exact rough_value_is_max. Qed.

(* (c) below threshold => NaN coordinates and value 0, and the decision is exactly
       "maximum of this map < threshold" *)
Theorem c07_below_threshold : forall H W m, rect_map H W m -> (0 < H)%nat -> (0 < W)%nat ->
  forall fixed thr v, global_rough fixed m thr = (None, v) ->
  v = 0 /\ exists mx, is_max m mx /\ mx < thr.
Proof. exact rough_below_threshold. Qed.

Theorem c07_threshold_decides : forall H W m, rect_map H W m -> (0 < H)%nat -> (0 < W)%nat ->
  forall fixed thr mx, is_max m mx ->
  (mx < thr -> global_rough fixed m thr = (None, 0)) /\
  (thr <= mx -> exists x y v, global_rough fixed m thr = (Some (x, y), v) /\ v == mx).
Proof. exact rough_threshold_decides. Qed.

(* (b) which cell was reported by the PINNED tree (before fix 4dd71e5; no code implements
       this variant any more — kept as the record of F2 and so that a regression is
       recognised): the first column and the first row that contain a maximal cell — chosen
       independently *)
Theorem c07_reported_column_and_row : forall H W m, rect_map H W m -> (0 < H)%nat -> (0 < W)%nat ->
  forall thr x y v, global_rough false m thr = (Some (x, y), v) ->
  first_col m v x /\ first_row m v y.
Proof. exact rough_first_col_row. Qed.

(* if the maximum is attained in exactly one cell, that cell is reported *)
Theorem c07_unique_max_cell : forall H W m, rect_map H W m -> (0 < H)%nat -> (0 < W)%nat ->
  forall fixed thr x y v i0 j0, global_rough fixed m thr = (Some (x, y), v) ->
  (forall i j, attains m i j v -> i = i0 /\ j = j0) ->
  x = j0 /\ y = i0.
Proof. exact rough_unique_max. Qed.

(* "the reported cell is a cell where the map attains its maximum": FALSE for the pinned
   tree (finding F2, fixed in /repo by 4dd71e5) *)
Theorem c07_cell_is_max_refuted :
  exists m thr x y v w, global_rough false m thr = (Some (x, y), v) /\
                        get m y x = Some w /\ w < v.
Proof. exact cell_is_max_refuted. Qed.

(* ... TRUE exactly outside the selector of F2 (the first maximal row and the first
   maximal column meet in a maximal cell); selector_F2 is a brute-force scan that does
   not mention global_rough *)
Theorem c07_cell_is_max_partial : forall H W m, rect_map H W m -> (0 < H)%nat -> (0 < W)%nat ->
  forall thr x y v, global_rough false m thr = (Some (x, y), v) ->
  (selector_F2 m = false <-> attains m y x v).
Proof. exact selector_F2_exact. Qed.

(* ... and TRUE without exception for the CURRENT tree (fix 4dd71e5) *)
Theorem c07_cell_is_max_fixed : forall H W m, rect_map H W m -> (0 < H)%nat -> (0 < W)%nat ->
  forall thr x y v, global_rough true m thr = (Some (x, y), v) -> attains m y x v.
Proof. exact rough_fixed_cell_is_max. Qed.

(* ... and which maximal cell the CURRENT tree reports: the first column that holds the
   maximum and, within it, the first row that holds it (counterpart of
   c07_reported_column_and_row for fixed = true) *)
Theorem c07_reported_cell_current_tree : forall H W m, rect_map H W m -> (0 < H)%nat -> (0 < W)%nat ->
  forall thr x y v, global_rough true m thr = (Some (x, y), v) ->
  first_col m v x /\ attains m y x v /\ forall i w, (i < y)%nat -> get m i x = Some w -> w < v.
Proof. exact rough_fixed_col_then_row. Qed.

(* (d) one channel's result does not depend on the others — also through the
       refinement path (valid_idx selection, crop index, offsets added to valid peaks
       only, reshape): the batch function is the per-map function applied pointwise *)
Theorem c07_channel_independence : forall fixed cms thr refine,
  Forall (fun chans => length chans = length (hd [] cms)) cms ->
  global_peaks fixed cms thr refine = map (map (global_single fixed thr refine)) cms.
Proof. exact global_peaks_pointwise. Qed.

(* (e) refinement bound: FALSE in general (finding F9, shared with C06; witness stated for
       the pinned variant, the even-size one below for the current variant) ... *)
Theorem c07_refine_bound_refuted :
  exists m thr r x y v px py,
    global_rough false m thr = (Some (x, y), v) /\
    global_single false thr (Some r) m = (Some (px, py), v) /\
    inject_Z (Z.of_nat (2 * r + 1)) / 2 < Qabs (px - inject_Z (Z.of_nat x)).
Proof. exact global_refine_bound_refuted. Qed.

(* ... TRUE outside the selector of F9: within r = (p-1)/2 < p/2 of the grid cell *)
Theorem c07_refine_bound_partial : forall fixed thr r m x y v,
  global_rough fixed m thr = (Some (x, y), v) -> selector_F9 m y x r = false ->
  exists px py, global_single fixed thr (Some r) m = (Some (px, py), v) /\
    Qabs (px - inject_Z (Z.of_nat x)) <= inject_Z (Z.of_nat r) /\
    Qabs (py - inject_Z (Z.of_nat y)) <= inject_Z (Z.of_nat r) /\
    inject_Z (Z.of_nat r) < inject_Z (Z.of_nat (2 * r + 1)) / 2.
Proof. exact global_refine_bound. Qed.

(* (f) a ZERO-PADDED window symmetric about the grid cell leaves the peak exactly unmoved.
       `window_symmetric` reads the cells outside the map as 0, so this covers a bump whose
       patch lies inside the map (and one whose cut-off part is 0 anyway) — NOT a bump cut by
       an edge: see c07_symmetric_unmoved_refuted / _partial below (round 4; these two were
       called c07_symmetric_unmoved[_any_patch] before and read as the full clause) *)
Theorem c07_zero_padded_symmetric_unmoved : forall m x y r px py,
  window_symmetric m y x r -> refine_at m x y r = Some (px, py) ->
  px == inject_Z (Z.of_nat x) /\ py == inject_Z (Z.of_nat y).
Proof. exact refine_symmetric_unmoved. Qed.

Theorem c07_symmetric_patch_zero_offset : forall g P dx dy, antisym g ->
  length P = length g -> Forall (fun row => length row = length g) P ->
  point_symmetric P -> integral_offset g g P = Some (dx, dy) -> dx == 0 /\ dy == 0.
Proof. exact offset_symmetric. Qed.
(* ------------------------------------------------------------------------------------
   EVERY integral_patch_size p >= 1, odd or even (proofs: C07/PatchP.v, C06/PatchP.v).
   `global_peaks_p` / `global_single_p` take the patch by its size p: Peaks.patch_p / gv_p
   are the integer-centred window for odd p and, for even p = 2h, the samples at
   half-pixel positions (mean of the 2x2 cells around each, 0 outside the map). *)

(* for odd p = 2r+1 the size-indexed model IS the radius-indexed model above *)
Theorem c07_patch_model_odd : forall fixed cms thr r,
  Forall (fun chans => length chans = length (hd [] cms)) cms ->
  global_peaks_p fixed cms thr (Some (2 * r + 1)%nat) = global_peaks fixed cms thr (Some r).
Proof. exact global_peaks_p_odd. Qed.

(* (d) channel independence through the refinement path, for every p *)
Theorem c07_channel_independence_any_patch : forall fixed cms thr refine,
  Forall (fun chans => length chans = length (hd [] cms)) cms ->
  global_peaks_p fixed cms thr refine = map (map (global_single_p fixed thr refine)) cms.
Proof. exact global_peaks_p_pointwise. Qed.

(* (e) half-patch bound for every p >= 1 outside the selector of F9 *)
Theorem c07_refine_bound_any_patch_partial : forall fixed thr p m x y v, (1 <= p)%nat ->
  global_rough fixed m thr = (Some (x, y), v) -> selector_F9_p m y x p = false ->
  exists px py, global_single_p fixed thr (Some p) m = (Some (px, py), v) /\
    Qabs (px - inject_Z (Z.of_nat x)) <= (inject_Z (Z.of_nat p) - 1) / 2 /\
    Qabs (py - inject_Z (Z.of_nat y)) <= (inject_Z (Z.of_nat p) - 1) / 2 /\
    (inject_Z (Z.of_nat p) - 1) / 2 < inject_Z (Z.of_nat p) / 2.
Proof. exact global_refine_bound_p. Qed.

Theorem c07_refine_bound_refuted_even :
  exists m thr p x y v px py, Nat.even p = true /\
    global_rough true m thr = (Some (x, y), v) /\
    global_single_p true thr (Some p) m = (Some (px, py), v) /\
    inject_Z (Z.of_nat p) / 2 < Qabs (px - inject_Z (Z.of_nat x)).
Proof. exact global_refine_bound_refuted_even. Qed.

(* (f) a window (cells within radius p/2) point-symmetric about the grid cell leaves the
       peak exactly unmoved, for every p *)
Theorem c07_zero_padded_symmetric_unmoved_any_patch : forall m x y p px py,
  window_symmetric m y x (p / 2) -> refine_at_p m x y p = Some (px, py) ->
  px == inject_Z (Z.of_nat x) /\ py == inject_Z (Z.of_nat y).
Proof. exact refine_symmetric_unmoved_p. Qed.

(* ------------------------------------------------------------------------------------
   Round 4 — finding F25: the refinement patch STICKS OUT OF THE MAP (proofs: C07/Border.v).
   `selector_F25 m y x p` = some cell within radius p/2 of the rough peak (the cells a
   p-patch reads) does not exist; crop_bboxes / kornia fill it with 0.

   (f) "leaves a symmetric bump centred on a cell unmoved": FALSE there.  Witness: the
   pyramid max(0, 4 - 3(|dy|+|dx|)) centred on the corner cell of a 3x3 map
   ([[4,1,0],[1,0,0],[0,0,0]], p = 3): a `symmetric_bump` (samples of a function invariant
   under the reflection about the cell), no negative value (outside F9), reported cell
   (0,0) — refined to (1/6, 1/6).  /repo gives 0.16667. *)
Theorem c07_symmetric_unmoved_refuted :
  exists m H W thr p x y v px py,
    rect_map H W m /\ global_rough true m thr = (Some (x, y), v) /\
    symmetric_bump m y x /\ in_map_symmetric m y x (p / 2) /\
    selector_F9_p m y x p = false /\ selector_F25 m y x p = true /\
    global_single_p true thr (Some p) m = (Some (px, py), v) /\
    inject_Z (Z.of_nat x) < px /\ inject_Z (Z.of_nat y) < py.
Proof. exact symmetric_unmoved_border_refuted. Qed.

(* ... TRUE outside F25 (patch inside the map) and F9 (defined: positive mass), for every
   variant, threshold and patch size p >= 1, about the function the harness evaluates:
   symmetry is asked of the cells of the map only (`in_map_symmetric`), the refined point
   exists and IS the cell.  (Stated for p >= 1; the tie covers p in 2..7 — for p = 1 the
   code raises inside kornia, so that instance is about the model only.) *)
Theorem c07_symmetric_unmoved_partial : forall H W m fixed thr p x y v,
  rect_map H W m -> (1 <= p)%nat -> global_rough fixed m thr = (Some (x, y), v) ->
  selector_F25 m y x p = false -> selector_F9_p m y x p = false ->
  in_map_symmetric m y x (p / 2) ->
  exists px py, global_single_p fixed thr (Some p) m = (Some (px, py), v) /\
    px == inject_Z (Z.of_nat x) /\ py == inject_Z (Z.of_nat y).
Proof. exact symmetric_unmoved_inside. Qed.

(* the same for the refinement of one point, `refine_at_p` (shared with C06's multi-peak path) *)
Theorem c07_refine_at_symmetric_unmoved_partial : forall H W m p x y,
  rect_map H W m -> (1 <= p)%nat ->
  selector_F25 m y x p = false -> selector_F9_p m y x p = false ->
  in_map_symmetric m y x (p / 2) ->
  exists px py, refine_at_p m x y p = Some (px, py) /\
    px == inject_Z (Z.of_nat x) /\ py == inject_Z (Z.of_nat y).
Proof. exact refine_symmetric_unmoved_inside. Qed.

(* (g) "moves the estimate toward the true centre": FALSE under F25 as well.  A positive,
   strictly radially decreasing bump 1 / (1 + d^2) whose true centre IS the corner cell
   (displacement 0, so nothing should move and the error is 0) is refined to (5/14, 5/14):
   the estimate moves AWAY from the true centre.  (The exact Gaussian needs exp and is not
   computable in Q; the harness measures float32 Gaussians at 0..p/2 cells from the edges and
   finds the same, e.g. sigma 1.5 centred on border cell (0,5): y = 0.445 for p = 3.) *)
Theorem c07_centred_bump_border_refuted :
  exists m thr p x y v px py,
    (forall i j w, get m i j = Some w ->
       w == 1 / (1 + inject_Z ((Z.of_nat i - Z.of_nat y) * (Z.of_nat i - Z.of_nat y) +
                               (Z.of_nat j - Z.of_nat x) * (Z.of_nat j - Z.of_nat x)))) /\
    global_rough true m thr = (Some (x, y), v) /\
    selector_F9_p m y x p = false /\ selector_F25 m y x p = true /\
    global_single_p true thr (Some p) m = (Some (px, py), v) /\
    inject_Z (Z.of_nat x) < px /\ inject_Z (Z.of_nat y) < py.
Proof. exact centred_bump_border_refuted. Qed.
End Rationals.

Print Assumptions c07_value_is_max.
Print Assumptions c07_below_threshold.
Print Assumptions c07_threshold_decides.
Print Assumptions c07_reported_column_and_row.
Print Assumptions c07_unique_max_cell.
Print Assumptions c07_cell_is_max_refuted.
Print Assumptions c07_cell_is_max_partial.
Print Assumptions c07_cell_is_max_fixed.
Print Assumptions c07_reported_cell_current_tree.
Print Assumptions c07_channel_independence.
Print Assumptions c07_refine_bound_refuted.
Print Assumptions c07_refine_bound_partial.
Print Assumptions c07_zero_padded_symmetric_unmoved.
Print Assumptions c07_symmetric_patch_zero_offset.
Print Assumptions c07_patch_model_odd.
Print Assumptions c07_channel_independence_any_patch.
Print Assumptions c07_refine_bound_any_patch_partial.
Print Assumptions c07_refine_bound_refuted_even.
Print Assumptions c07_zero_padded_symmetric_unmoved_any_patch.
Print Assumptions c07_symmetric_unmoved_refuted.
Print Assumptions c07_symmetric_unmoved_partial.
Print Assumptions c07_refine_at_symmetric_unmoved_partial.
Print Assumptions c07_centred_bump_border_refuted.

(* ------------------------------------------------------------------------------------
   The PUBLIC entry points that wrap global peak finding (C07/Layer.v, proofs C07/LayerLemmas.v):
   FindInstancePeaks.forward (topdown.py) and SingleInstanceInferenceModel.forward
   (single_instance.py).  `layer_peaks fixed o effs cms` = the keyword call
   find_global_peaks(cms, threshold=o.peak_threshold, refinement=o.refinement,
   integral_patch_size=o.integral_patch_size) — modelled WITH the callee's own defaults `d`
   (declared now: 0.2 / None / 5 = callee_defaults) for absent keywords — followed by * output_stride, / input_scale
   (if != 1), / eff_scale[sample].  `layer_single fixed o eff m` is what one (sample,
   channel) should get from its own map, its sample's eff_scale and the configured options. *)
Section Layer.
Local Open Scope Q_scope.

(* `_def` in spirit (proof: reflexivity — `layer_kwargs` is DEFINED with three `Some`, `d` is
   dead in `layer_peaks`): the model of the layer's call site resolves to the CONFIGURED
   threshold / refinement / patch size for every option value (0, None, ... included).  That
   the CODE's call site forwards every option is carried by the `LPeaks` correspondence run
   (and c07_layer_truthy_forwarding_refuted shows a call site that does not is another
   function). *)
Theorem c07_layer_uses_configured_options : forall d fixed o effs cms,
  layer_peaks d fixed o effs cms =
  map (fun re : list gpoint * Q => map (rescale_gp o (snd re)) (fst re))
      (combine (global_peaks_p fixed cms (threshold_of o) (refine_of o)) effs).
Proof. exact layer_is_rescaled_global_peaks. Qed.

(* (d) at the layer: entry (s, c) depends on map (s, c), eff_scale[s] and the options only *)
Theorem c07_layer_channel_independence : forall d fixed o effs cms s c m eff,
  Forall (fun chans => length chans = length (hd [] cms)) cms ->
  map_at cms s c = Some m -> nth_error effs s = Some eff ->
  at2 (layer_peaks d fixed o effs cms) s c = Some (layer_single fixed o eff m).
Proof. exact layer_peaks_at. Qed.

(* (c) at the layer: maximum below the configured threshold => NaN and 0 *)
Theorem c07_layer_below_threshold : forall H W m, rect_map H W m -> (0 < H)%nat -> (0 < W)%nat ->
  forall fixed o eff mx, is_max m mx -> mx < threshold_of o ->
  layer_single fixed o eff m = (None, 0).
Proof. exact layer_below_threshold. Qed.

(* (a, b) at the layer: maximum at or above the configured threshold — whatever that is,
   0 and "equal to the maximum" included — the value is the maximum; without refinement the
   point is the rescaled cell (x, y), which attains the maximum (current tree: fixed = true) *)
Theorem c07_layer_at_or_above_threshold : forall H W m, rect_map H W m -> (0 < H)%nat -> (0 < W)%nat ->
  forall fixed o eff mx, is_max m mx -> threshold_of o <= mx ->
  exists x y v, global_rough fixed m (threshold_of o) = (Some (x, y), v) /\ v == mx /\
    (x < W)%nat /\ (y < H)%nat /\
    snd (layer_single fixed o eff m) = v /\
    (refine_of o = None ->
       layer_single fixed o eff m =
       (Some (rescale o eff (inject_Z (Z.of_nat x)), rescale o eff (inject_Z (Z.of_nat y))), v)) /\
    (fixed = true -> attains m y x v).
Proof. exact layer_at_or_above_threshold. Qed.

(* the decision is exactly "maximum < configured threshold" *)
Theorem c07_layer_threshold_decides : forall H W m, rect_map H W m -> (0 < H)%nat -> (0 < W)%nat ->
  forall fixed o eff mx, is_max m mx ->
  (snd (layer_single fixed o eff m) == mx /\ threshold_of o <= mx) \/
  (layer_single fixed o eff m = (None, 0) /\ mx < threshold_of o).
Proof. exact layer_valid_iff. Qed.

(* the coordinate adjustment is one linear factor output_stride / input_scale / eff_scale
   (the `if input_scale != 1` branch is immaterial) *)
Theorem c07_layer_rescale_is_linear : forall o eff c, ~ eff == 0 -> ~ lo_scale o == 0 ->
  rescale o eff c == c * (lo_stride o / lo_scale o / eff).
Proof. intros o eff c _ _. apply rescale_linear. Qed.

(* (e) at the layer, outside F9: the refined point is within (p-1)/2 < p/2 map cells, i.e.
   that many times the factor in image units, of the rescaled grid cell.  (Q's division is
   total, x / 0 = 0, the code gives inf / NaN: eff_scale and input_scale are non-zero on the
   code's domain and the statements say so.) *)
Theorem c07_layer_refine_bound_partial : forall fixed o eff m x y v, ~ eff == 0 -> ~ lo_scale o == 0 ->
  lo_refinement o = RefIntegral -> (1 <= lo_patch o)%nat ->
  global_rough fixed m (threshold_of o) = (Some (x, y), v) ->
  selector_F9_p m y x (lo_patch o) = false ->
  exists X Y, layer_single fixed o eff m = (Some (X, Y), v) /\
    Qabs (X - rescale o eff (inject_Z (Z.of_nat x))) <= half_reach (lo_patch o) * Qabs (layer_factor o eff) /\
    Qabs (Y - rescale o eff (inject_Z (Z.of_nat y))) <= half_reach (lo_patch o) * Qabs (layer_factor o eff) /\
    half_reach (lo_patch o) < inject_Z (Z.of_nat (lo_patch o)) / 2.
Proof. intros fixed o eff m x y v _ _. apply layer_refine_bound. Qed.

(* a call site that forwards only the "truthy" options is NOT this function: with
   peak_threshold = 0 the callee's 0.2 applies and a channel with maximum 1/8 is lost *)
Theorem c07_layer_truthy_forwarding_refuted :
  exists o effs cms,
    layer_with callee_defaults (truthy_kwargs o) true o effs cms <> layer_peaks callee_defaults true o effs cms /\
    at2 (layer_with callee_defaults (truthy_kwargs o) true o effs cms) 0 0 = Some (None, 0) /\
    exists pt, at2 (layer_peaks callee_defaults true o effs cms) 0 0 = Some (Some pt, 1 # 8).
Proof. exact truthy_forwarding_differs. Qed.
End Layer.

Print Assumptions c07_layer_uses_configured_options.
Print Assumptions c07_layer_channel_independence.
Print Assumptions c07_layer_below_threshold.
Print Assumptions c07_layer_at_or_above_threshold.
Print Assumptions c07_layer_threshold_decides.
Print Assumptions c07_layer_rescale_is_linear.
Print Assumptions c07_layer_refine_bound_partial.
Print Assumptions c07_layer_truthy_forwarding_refuted.

Section RealsPart.
Local Open Scope R_scope.

(* the model's offsets on any (rational) window are the real formula offx_R / offy_R *)
Theorem c07_offset_formula_over_R : forall m y x r dx dy,
  integral_offset (gv r) (gv r) (patch m y x r) = Some (dx, dy) ->
  Q2R dx = offx_R (fun i j => Q2R (cell0 m (Z.of_nat y + i) (Z.of_nat x + j))) r /\
  Q2R dy = offy_R (fun i j => Q2R (cell0 m (Z.of_nat y + i) (Z.of_nat x + j))) r.
Proof. exact offset_Q2R. Qed.

(* (g) direction, for the formula on an UNCLIPPED window (`bump` lives on the infinite grid:
       this is the patch of a peak whose patch lies inside the map — see
       c07_bump_moves_toward_centre_inside_partial for the model function and
       c07_centred_bump_border_refuted for what happens at a border): for ANY bump that is
       positive and strictly decreasing in the distance to its true centre (ax, ay)
       (relative to the grid cell), patch size >= 3, the offset has the sign of the
       displacement on each axis *)
Theorem c07_bump_moves_toward_centre :
  forall phi : R -> R, (forall t, 0 < phi t) -> (forall s t, 0 <= s -> s < t -> phi t < phi s) ->
  forall ax ay r, (1 <= r)%nat ->
  (0 < ax -> 0 < offx_R (bump phi ax ay) r) /\ (ax < 0 -> offx_R (bump phi ax ay) r < 0) /\
  (ax = 0 -> offx_R (bump phi ax ay) r = 0) /\
  (0 < ay -> 0 < offy_R (bump phi ax ay) r) /\ (ay < 0 -> offy_R (bump phi ax ay) r < 0) /\
  (ay = 0 -> offy_R (bump phi ax ay) r = 0).
Proof. exact bump_direction. Qed.

(* ... in particular for the Gaussian exp(-d^2 / 2 sigma^2) *)
Theorem c07_gaussian_moves_toward_centre : forall sigma ax ay r, sigma <> 0 -> (1 <= r)%nat ->
  (0 < ax -> 0 < offx_R (gauss sigma ax ay) r) /\ (ax < 0 -> offx_R (gauss sigma ax ay) r < 0) /\
  (0 < ay -> 0 < offy_R (gauss sigma ax ay) r) /\ (ay < 0 -> offy_R (gauss sigma ax ay) r < 0).
Proof. exact gauss_direction. Qed.

(* every patch size: `offx_P f p` is offx_R f r for p = 2r+1 and, for p = 2h, the same
   expectation over the 2h x 2h half-pixel samples (samp_R = mean of 2x2 cells, grid
   k - 1/2); the model's offsets on any rational window, read in R, are offx_P / offy_P *)
Theorem c07_offset_formula_over_R_any_patch : forall m y x p dx dy,
  integral_offset (gv_p p) (gv_p p) (patch_p m y x p) = Some (dx, dy) ->
  Q2R dx = offx_P (fun i j => Q2R (cell0 m (Z.of_nat y + i) (Z.of_nat x + j))) p /\
  Q2R dy = offy_P (fun i j => Q2R (cell0 m (Z.of_nat y + i) (Z.of_nat x + j))) p.
Proof. exact offset_Q2R_p. Qed.

(* (g) direction for EVERY patch size p >= 2 (even sizes: pairing sample j with 1 - j) *)
Theorem c07_bump_moves_toward_centre_any_patch :
  forall phi : R -> R, (forall t, 0 < phi t) -> (forall s t, 0 <= s -> s < t -> phi t < phi s) ->
  forall ax ay p, (2 <= p)%nat ->
  (0 < ax -> 0 < offx_P (bump phi ax ay) p) /\ (ax < 0 -> offx_P (bump phi ax ay) p < 0) /\
  (ax = 0 -> offx_P (bump phi ax ay) p = 0) /\
  (0 < ay -> 0 < offy_P (bump phi ax ay) p) /\ (ay < 0 -> offy_P (bump phi ax ay) p < 0) /\
  (ay = 0 -> offy_P (bump phi ax ay) p = 0).
Proof. exact bump_direction_p. Qed.

Theorem c07_gaussian_moves_toward_centre_any_patch : forall sigma ax ay p, sigma <> 0 -> (2 <= p)%nat ->
  (0 < ax -> 0 < offx_P (gauss sigma ax ay) p) /\ (ax < 0 -> offx_P (gauss sigma ax ay) p < 0) /\
  (ax = 0 -> offx_P (gauss sigma ax ay) p = 0) /\
  (0 < ay -> 0 < offy_P (gauss sigma ax ay) p) /\ (ay < 0 -> offy_P (gauss sigma ax ay) p < 0) /\
  (ay = 0 -> offy_P (gauss sigma ax ay) p = 0).
Proof. exact gauss_direction_p. Qed.

(* (g) composed with the MODEL FUNCTION, PARTIAL (outside F25): if the patch of size p >= 2
   around cell (x, y) lies inside the map and every cell it reads holds the value of a
   positive, strictly radially decreasing bump with true centre (x + ax, y + ay), then
   `refine_at_p` is defined and moves the estimate toward the true centre on each axis
   (and not at all along an axis on which the bump is centred).  Covers every rational
   sample of such a bump; for the Gaussian the premise is met by the real-valued map only
   (exp is irrational), the float code is measured. *)
Theorem c07_bump_moves_toward_centre_inside_partial :
  forall phi : R -> R, (forall t, 0 < phi t) -> (forall s t, 0 <= s -> s < t -> phi t < phi s) ->
  forall H W m y x p ax ay, rect_map H W m -> (2 <= p)%nat -> selector_F25 m y x p = false ->
  (forall i j q, (- Z.of_nat (p / 2) <= i <= Z.of_nat (p / 2))%Z ->
                 (- Z.of_nat (p / 2) <= j <= Z.of_nat (p / 2))%Z ->
                 getZ m (Z.of_nat y + i) (Z.of_nat x + j) = Some q -> Q2R q = bump phi ax ay i j) ->
  exists px py, refine_at_p m x y p = Some (px, py) /\
    (0 < ax -> IZR (Z.of_nat x) < Q2R px) /\ (ax < 0 -> Q2R px < IZR (Z.of_nat x)) /\
    (ax = 0 -> Q2R px = IZR (Z.of_nat x)) /\
    (0 < ay -> IZR (Z.of_nat y) < Q2R py) /\ (ay < 0 -> Q2R py < IZR (Z.of_nat y)) /\
    (ay = 0 -> Q2R py = IZR (Z.of_nat y)).
Proof. exact refine_bump_inside. Qed.

End RealsPart.

Print Assumptions c07_offset_formula_over_R.
Print Assumptions c07_bump_moves_toward_centre.
Print Assumptions c07_gaussian_moves_toward_centre.
Print Assumptions c07_offset_formula_over_R_any_patch.
Print Assumptions c07_bump_moves_toward_centre_any_patch.
Print Assumptions c07_gaussian_moves_toward_centre_any_patch.
Print Assumptions c07_bump_moves_toward_centre_inside_partial.

(* non-vacuity *)
Example ex_c07_rough :
  global_rough false [[0;1;0];[0;3;2];[0;0;0]]%Q (1#2) = (Some (1, 1)%nat, 3%Q).
Proof. vm_compute. reflexivity. Qed.

Example ex_c07_tie_class : selector_F2 [[0;1];[1;0]]%Q = true /\ selector_F2 [[0;1;0];[0;3;3];[0;0;0]]%Q = false.
Proof. vm_compute. auto. Qed.

Example ex_c07_mixed_channels :
  global_peaks false [[ [[0;1;0];[0;3;2];[0;0;0]] ; [[0;0;0];[0;0;0];[0;0;0]] ]]%Q (1#2) (Some 1%nat)
  = [[ (Some ((8#6), (5#6)), 3) ; (None, 0) ]]%Q.
Proof. vm_compute. reflexivity. Qed.

Example ex_c07_symmetric : window_symmetric [[0;1;0];[1;4;1];[0;1;0]]%Q 1 1 1.
Proof. exact ex_window_symmetric. Qed.

(* F25: selector false in the middle of a 3x3 map for p = 3, true at its corner and for p = 5;
   the hypotheses of c07_symmetric_unmoved_partial are met by the centred cross *)
Example ex_c07_patch_inside :
  selector_F25 [[0;1;0];[1;4;1];[0;1;0]]%Q 1 1 3 = false /\
  selector_F25 [[0;1;0];[1;4;1];[0;1;0]]%Q 0 0 3 = true /\
  selector_F25 [[0;1;0];[1;4;1];[0;1;0]]%Q 1 1 5 = true /\
  selector_F9_p [[0;1;0];[1;4;1];[0;1;0]]%Q 1 1 3 = false /\
  global_rough true [[0;1;0];[1;4;1];[0;1;0]]%Q (1#2) = (Some (1, 1)%nat, 4%Q).
Proof. vm_compute. auto. Qed.

(* even patch sizes: symmetric window unmoved (p = 2), mixed valid / invalid channels (p = 4) *)
Example ex_c07_symmetric_even :
  window_symmetric [[0;1;0];[1;4;1];[0;1;0]]%Q 1 1 (2 / 2) /\
  exists px py, refine_at_p [[0;1;0];[1;4;1];[0;1;0]]%Q 1 1 2 = Some (px, py) /\ (px == 1)%Q /\ (py == 1)%Q.
Proof. split; [exact ex_window_symmetric|]. exact ex_symmetric_even. Qed.

Example ex_c07_mixed_channels_even :
  match global_peaks_p true [[ [[0;1;0];[0;3;2];[0;0;0]] ; [[0;0;0];[0;0;0];[0;0;0]] ]]%Q (1#2) (Some 4%nat) with
  | [[ (Some (px, py), v) ; (None, w) ]] =>
      Qeq_bool px (4 # 3) && Qeq_bool py (5 # 6) && Qeq_bool v 3 && Qeq_bool w 0
  | _ => false
  end = true.
Proof. vm_compute. reflexivity. Qed.

(* the layer with its default peak_threshold = 0, stride 4, input_scale 1/2, eff_scale 1 and 1/2:
   a channel whose maximum 1/8 lies below the CALLEE's default 0.2 is reported (cell (1,0) ->
   x = 1 * 4 / (1/2) / 1 = 8); a map whose maximum is exactly 0 = the threshold is valid with
   value 0 (cell (1,1) -> 1 * 4 / (1/2) / (1/2) = 16) *)
Example ex_c07_layer_default_threshold :
  match layer_peaks callee_defaults true (mk_opts 0 RefNone 5 4 (1 # 2)) [1; 1 # 2]
                    [[ [[0; 1 # 8]; [0; 0]] ]; [ [[-1; -1]; [-1; 0]] ]]%Q with
  | [[ (Some (x, y), v) ]; [ (Some (x', y'), v') ]] =>
      Qeq_bool x 8 && Qeq_bool y 0 && Qeq_bool v (1 # 8) && Qeq_bool x' 16 && Qeq_bool y' 16 && Qeq_bool v' 0
  | _ => false
  end = true.
Proof. vm_compute. reflexivity. Qed.

(* threshold exactly equal to a channel's maximum keeps it (1/8 >= 1/8); a smaller maximum is dropped *)
Example ex_c07_layer_threshold_equal_max_and_above :
  match layer_peaks callee_defaults true (mk_opts (1 # 8) RefIntegral 3 1 1) [1] [[ [[0; 1 # 8]; [0; 0]] ; [[0; 1 # 16]; [0; 0]] ]]%Q with
  | [[ (Some (x, y), v) ; (None, w) ]] => Qeq_bool x 1 && Qeq_bool y 0 && Qeq_bool v (1 # 8) && Qeq_bool w 0
  | _ => false
  end = true.
Proof. vm_compute. reflexivity. Qed.

(* ------------------------------------------------------------------ *)
(* Round 6 (proofs: C07/SymQeq.v): clause (f) with the symmetry of the cells stated as
   equality of NUMBERS (`==`), not of representations (`=`): `window_symmetric_eq` /
   `in_map_symmetric_eq` are `window_symmetric` / `in_map_symmetric` with `==` for `=`.
   The Leibniz versions above are special cases (`c07_symmetry_leibniz_implies_eq`); the
   converse fails for a map written with non-reduced fractions. *)
Section SymmetricUpToQeq.
Local Open Scope Q_scope.

Theorem c07_symmetry_leibniz_implies_eq : forall m y x r,
  (window_symmetric m y x r -> window_symmetric_eq m y x r) /\
  (in_map_symmetric m y x r -> in_map_symmetric_eq m y x r).
Proof. intros. split; [apply window_symmetric_is_eq | apply in_map_symmetric_is_eq]. Qed.

(* zero-padded window (radius p/2) point-symmetric up to == => exactly unmoved, every p *)
Theorem c07_zero_padded_symmetric_unmoved_any_patch_qeq : forall m x y p px py,
  window_symmetric_eq m y x (p / 2) -> refine_at_p m x y p = Some (px, py) ->
  px == inject_Z (Z.of_nat x) /\ py == inject_Z (Z.of_nat y).
Proof. exact refine_symmetric_unmoved_p_eq. Qed.

(* the radius model (odd sizes) *)
Theorem c07_zero_padded_symmetric_unmoved_qeq : forall m x y r px py,
  window_symmetric_eq m y x r -> refine_at m x y r = Some (px, py) ->
  px == inject_Z (Z.of_nat x) /\ py == inject_Z (Z.of_nat y).
Proof. exact refine_symmetric_unmoved_eq. Qed.

(* (f) PARTIAL (outside F25 and F9) about `global_single_p` / `refine_at_p`, symmetry asked
   of the map's cells only and up to == *)
Theorem c07_symmetric_unmoved_qeq_partial : forall H W m fixed thr p x y v,
  rect_map H W m -> (1 <= p)%nat -> global_rough fixed m thr = (Some (x, y), v) ->
  selector_F25 m y x p = false -> selector_F9_p m y x p = false ->
  in_map_symmetric_eq m y x (p / 2) ->
  exists px py, global_single_p fixed thr (Some p) m = (Some (px, py), v) /\
    px == inject_Z (Z.of_nat x) /\ py == inject_Z (Z.of_nat y).
Proof. exact symmetric_unmoved_inside_eq. Qed.

Theorem c07_refine_at_symmetric_unmoved_qeq_partial : forall H W m p x y,
  rect_map H W m -> (1 <= p)%nat ->
  selector_F25 m y x p = false -> selector_F9_p m y x p = false ->
  in_map_symmetric_eq m y x (p / 2) ->
  exists px py, refine_at_p m x y p = Some (px, py) /\
    px == inject_Z (Z.of_nat x) /\ py == inject_Z (Z.of_nat y).
Proof. exact refine_symmetric_unmoved_inside_eq. Qed.

(* the cross [[0,1,0],[1,4,1],[0,1,0]] written as [[0,2/2,0],[1,8/2,4/4],[0,3/3,0]]: NOT
   symmetric in the Leibniz sense (so the earlier theorems say nothing about it), symmetric
   up to ==, refinement defined for p = 3 and p = 2 and exactly unmoved *)
Example ex_c07_unreduced_fractions :
  ~ window_symmetric unreduced_bump 1 1 1 /\ ~ in_map_symmetric unreduced_bump 1 1 1 /\
  window_symmetric_eq unreduced_bump 1 1 1 /\ in_map_symmetric_eq unreduced_bump 1 1 1 /\
  (exists px py, refine_at_p unreduced_bump 1 1 3 = Some (px, py) /\ px == 1 /\ py == 1) /\
  (exists px py, refine_at_p unreduced_bump 1 1 2 = Some (px, py) /\ px == 1 /\ py == 1).
Proof.
  split; [exact unreduced_not_leibniz|]. split; [exact unreduced_not_in_map_leibniz|].
  split; [exact unreduced_symmetric_eq|]. split; [exact unreduced_in_map_symmetric_eq|].
  destruct unreduced_defined as [[px [py E3]] [px' [py' E2]]]. split.
  - exists px, py. split; auto. apply (unreduced_unmoved 3 px py); auto.
  - exists px', py'. split; auto. apply (unreduced_unmoved 2 px' py'); auto.
Qed.

(* (b) which maximal cell, as ONE order statement (current tree): the reported cell attains
   the maximum and is the first such cell in column-major order (smallest x, then smallest
   y); hence the answer is determined by the map *)
Theorem c07_reported_cell_first_column_major : forall H W m,
  rect_map H W m -> (0 < H)%nat -> (0 < W)%nat ->
  forall thr x y v, global_rough true m thr = (Some (x, y), v) ->
  attains m y x v /\
  forall i j, attains m i j v -> (x < j)%nat \/ (x = j /\ (y <= i)%nat).
Proof. exact rough_fixed_first_colmajor. Qed.

Theorem c07_reported_cell_determined : forall H W m,
  rect_map H W m -> (0 < H)%nat -> (0 < W)%nat ->
  forall thr x y v x' y', global_rough true m thr = (Some (x, y), v) ->
  attains m y' x' v ->
  (forall i j, attains m i j v -> (x' < j)%nat \/ (x' = j /\ (y' <= i)%nat)) ->
  x = x' /\ y = y'.
Proof. exact rough_fixed_determined. Qed.
End SymmetricUpToQeq.

Print Assumptions c07_symmetry_leibniz_implies_eq.
Print Assumptions c07_zero_padded_symmetric_unmoved_any_patch_qeq.
Print Assumptions c07_zero_padded_symmetric_unmoved_qeq.
Print Assumptions c07_symmetric_unmoved_qeq_partial.
Print Assumptions c07_refine_at_symmetric_unmoved_qeq_partial.
Print Assumptions ex_c07_unreduced_fractions.
Print Assumptions c07_reported_cell_first_column_major.
Print Assumptions c07_reported_cell_determined.

(* ------------------------------------------------------------------ *)
(* Round 6 (proofs: C07/GaussP3.v, analytic: mean value theorem, no interval arithmetic; only
   the axioms of the classical reals): clause (g2) "the error does not grow" on an exact
   Gaussian for patch size 3 and patch size 2 and EVERY sigma <> 0 (sigma < 1/2 included),
   both signs of the displacement.  Interior peaks (formula on an unclipped window).
   Still PARTIAL: sizes 5, 7 with sigma < 1/2, sizes > 7 below the large-sigma bound, even
   sizes >= 4. *)
Section GaussSmallPatches.
Local Open Scope R_scope.

Theorem c07_gaussian_error_does_not_grow_p3_all_sigma : forall sigma ax ay, sigma <> 0 ->
  (0 < ax <= 1/2 -> 0 < offx_R (gauss sigma ax ay) 1 <= 2 * ax /\
                    Rabs (offx_R (gauss sigma ax ay) 1 - ax) <= ax) /\
  (0 < ay <= 1/2 -> 0 < offy_R (gauss sigma ax ay) 1 <= 2 * ay /\
                    Rabs (offy_R (gauss sigma ax ay) 1 - ay) <= ay).
Proof. exact gauss_no_overshoot_p3. Qed.

Theorem c07_gaussian_error_does_not_grow_p3_all_sigma_negative : forall sigma ax ay, sigma <> 0 ->
  (- (1/2) <= ax < 0 -> 2 * ax <= offx_R (gauss sigma ax ay) 1 < 0 /\
                        Rabs (offx_R (gauss sigma ax ay) 1 - ax) <= - ax) /\
  (- (1/2) <= ay < 0 -> 2 * ay <= offy_R (gauss sigma ax ay) 1 < 0 /\
                        Rabs (offy_R (gauss sigma ax ay) 1 - ay) <= - ay).
Proof. exact gauss_no_overshoot_p3_negative. Qed.

(* size 2 (four half-pixel samples): the offset has the sign of the displacement and is at
   most HALF of it, so the error shrinks but never below half the displacement *)
Theorem c07_gaussian_error_does_not_grow_p2_all_sigma : forall sigma ax ay, sigma <> 0 ->
  (0 < ax <= 1/2 -> 0 < offx_P (gauss sigma ax ay) 2 <= ax / 2 /\
                    Rabs (offx_P (gauss sigma ax ay) 2 - ax) <= ax) /\
  (- (1/2) <= ax < 0 -> ax / 2 <= offx_P (gauss sigma ax ay) 2 < 0 /\
                    Rabs (offx_P (gauss sigma ax ay) 2 - ax) <= - ax) /\
  (0 < ay <= 1/2 -> 0 < offy_P (gauss sigma ax ay) 2 <= ay / 2 /\
                    Rabs (offy_P (gauss sigma ax ay) 2 - ay) <= ay) /\
  (- (1/2) <= ay < 0 -> ay / 2 <= offy_P (gauss sigma ax ay) 2 < 0 /\
                    Rabs (offy_P (gauss sigma ax ay) 2 - ay) <= - ay).
Proof. exact gauss_no_overshoot_p2. Qed.
End GaussSmallPatches.

Print Assumptions c07_gaussian_error_does_not_grow_p3_all_sigma.
Print Assumptions c07_gaussian_error_does_not_grow_p3_all_sigma_negative.
Print Assumptions c07_gaussian_error_does_not_grow_p2_all_sigma.
