(* GaussNeg.v (C07) — round 4 (review finding 4): the no-overshoot statements of GaussBox.v /
   GaussWide.v are proved for a POSITIVE displacement 0 < a <= 1/2; a Gaussian displaced by
   -a is the mirror image of the one displaced by a (bump_mirror_x / numx_mirror /
   mass_mirror_x of GaussR.v), so the offset changes sign and the statement for
   -1/2 <= a < 0 follows. *)
From Coq Require Import List ZArith Reals Lra Lia Psatz FunctionalExtensionality.
From SV Require Import C06.Peaks C07.GaussR C07.GaussBox C07.GaussWide.
Import ListNotations.
Local Open Scope R_scope.

Lemma offx_bump_mirror : forall phi ax ay r,
  offx_R (bump phi ax ay) r = - offx_R (bump phi (- ax) ay) r.
Proof.
  intros phi ax ay r. unfold offx_R.
  assert (E : bump phi ax ay = fun i j => bump phi (- ax) ay i (- j)%Z).
  { apply functional_extensionality. intro i. apply functional_extensionality. intro j.
    apply bump_mirror_x. }
  rewrite E, numx_mirror, mass_mirror_x. unfold Rdiv. ring.
Qed.

Lemma offy_bump_mirror : forall phi ax ay r,
  offy_R (bump phi ax ay) r = - offy_R (bump phi ax (- ay)) r.
Proof.
  intros phi ax ay r. unfold offy_R.
  assert (E : bump phi ax ay = fun i j => bump phi ax (- ay) (- i)%Z j).
  { apply functional_extensionality. intro i. apply functional_extensionality. intro j.
    apply bump_mirror_y. }
  rewrite E, numy_mirror, mass_mirror_y. unfold Rdiv. ring.
Qed.

Lemma offx_gauss_mirror : forall sigma ax ay r,
  offx_R (gauss sigma ax ay) r = - offx_R (gauss sigma (- ax) ay) r.
Proof. intros. rewrite !gauss_is_bump. apply offx_bump_mirror. Qed.

Lemma offy_gauss_mirror : forall sigma ax ay r,
  offy_R (gauss sigma ax ay) r = - offy_R (gauss sigma ax (- ay)) r.
Proof. intros. rewrite !gauss_is_bump. apply offy_bump_mirror. Qed.

(* patch sizes 3, 5, 7, all sigma >= 1/2, NEGATIVE displacement -1/2 <= a < 0: the offset is
   negative, not beyond 2a, and the error does not grow *)
Lemma gauss_error_does_not_grow_negative : forall sigma ax ay r,
  (1 <= r <= 3)%nat -> 1/2 <= sigma ->
  (- (1/2) <= ax < 0 -> 2 * ax <= offx_R (gauss sigma ax ay) r < 0 /\
                        Rabs (offx_R (gauss sigma ax ay) r - ax) <= - ax) /\
  (- (1/2) <= ay < 0 -> 2 * ay <= offy_R (gauss sigma ax ay) r < 0 /\
                        Rabs (offy_R (gauss sigma ax ay) r - ay) <= - ay).
Proof.
  intros sigma ax ay r Hr Hs. split; intro Ha.
  - destruct (gauss_error_does_not_grow_all_sigma sigma (- ax) ay r Hr Hs) as [P _].
    destruct (P ltac:(lra)) as [[P1 P2] P3]. rewrite offx_gauss_mirror.
    set (o := offx_R (gauss sigma (- ax) ay) r) in *. split; [lra|].
    replace (- o - ax) with (- (o - - ax)) by ring. now rewrite Rabs_Ropp.
  - destruct (gauss_error_does_not_grow_all_sigma sigma ax (- ay) r Hr Hs) as [_ P].
    destruct (P ltac:(lra)) as [[P1 P2] P3]. rewrite offy_gauss_mirror.
    set (o := offy_R (gauss sigma ax (- ay)) r) in *. split; [lra|].
    replace (- o - ay) with (- (o - - ay)) by ring. now rewrite Rabs_Ropp.
Qed.

(* every odd size, sigma large relative to the patch (the analytic bound), negative displacement *)
Lemma gauss_no_overshoot_wide_negative : forall sigma ax ay r, (1 <= r)%nat ->
  IZR (Z.of_nat r) * (IZR (Z.of_nat r) + 1) / 6 +
    (2 * IZR (Z.of_nat r) + 1) * (2 * IZR (Z.of_nat r) + 1) / 8 <= sigma * sigma ->
  (- (1/2) <= ax < 0 -> 2 * ax <= offx_R (gauss sigma ax ay) r < 0 /\
                        Rabs (offx_R (gauss sigma ax ay) r - ax) <= - ax) /\
  (- (1/2) <= ay < 0 -> 2 * ay <= offy_R (gauss sigma ax ay) r < 0 /\
                        Rabs (offy_R (gauss sigma ax ay) r - ay) <= - ay).
Proof.
  intros sigma ax ay r Hr Hs. split; intro Ha.
  - destruct (gauss_no_overshoot_wide sigma (- ax) ay r Hr Hs) as [P _].
    destruct (P ltac:(lra)) as [[P1 P2] P3]. rewrite offx_gauss_mirror.
    set (o := offx_R (gauss sigma (- ax) ay) r) in *. split; [lra|].
    replace (- o - ax) with (- (o - - ax)) by ring. now rewrite Rabs_Ropp.
  - destruct (gauss_no_overshoot_wide sigma ax (- ay) r Hr Hs) as [_ P].
    destruct (P ltac:(lra)) as [[P1 P2] P3]. rewrite offy_gauss_mirror.
    set (o := offy_R (gauss sigma ax (- ay)) r) in *. split; [lra|].
    replace (- o - ay) with (- (o - - ay)) by ring. now rewrite Rabs_Ropp.
Qed.
