(* Lemmas.v (C09) — proofs about the tracker model (C09/Tracker.v). *)
From Coq Require Import List Arith Bool ZArith QArith Lia Permutation.
Import ListNotations.
From SV Require Import C09.Tracker.
Close Scope Q_scope.
Open Scope nat_scope.

(* ====================================================================== *)
(* list helpers *)

Lemma memb_In : forall x l, memb x l = true <-> In x l.
Proof.
  induction l as [|y t IH]; simpl; [split; [discriminate|tauto]|].
  rewrite orb_true_iff, Nat.eqb_eq, IH. split; intros [H|H]; auto.
Qed.

Lemma memb_false : forall x l, memb x l = false <-> ~ In x l.
Proof.
  intros. rewrite <- memb_In. destruct (memb x l); split; congruence.
Qed.

Lemma nodupb_NoDup : forall l, nodupb l = true <-> NoDup l.
Proof.
  induction l as [|x t IH]; simpl.
  - split; auto using NoDup_nil.
  - rewrite andb_true_iff, negb_true_iff, memb_false, IH.
    split; [intros [A B]; constructor; auto | intros H; inversion H; auto].
Qed.

Lemma list_max_seq : forall k a, list_max (seq a (S k)) = a + k.
Proof.
  induction k as [|k IH]; intros a.
  - simpl. lia.
  - change (seq a (S (S k))) with (a :: seq (S a) (S k)).
    change (list_max (a :: seq (S a) (S k))) with (Nat.max a (list_max (seq (S a) (S k)))).
    rewrite IH. lia.
Qed.

Lemma new_id_seq : forall n, new_id (seq 0 n) = n.
Proof.
  destruct n as [|n]; [reflexivity|].
  unfold new_id. change (seq 0 (S n)) with (0 :: seq 1 n) at 1.
  rewrite list_max_seq. lia.
Qed.

Lemma seq_snoc : forall n, seq 0 n ++ [n] = seq 0 (S n).
Proof. intros. rewrite seq_S. reflexivity. Qed.

Lemma length_repeat_none : forall n, length (repeat (@None nat) n) = n.
Proof. intros; apply repeat_length. Qed.

Lemma somes_repeat_none : forall n, somes (repeat None n) = [].
Proof. induction n; simpl; auto. Qed.

Lemma nth_error_repeat_none : forall n i, i < n -> nth_error (repeat (@None nat) n) i = Some None.
Proof.
  induction n; intros i H; [lia|]. destruct i; simpl; auto. apply IHn; lia.
Qed.

Lemma set_nth_length : forall A (l : list A) i x, length (set_nth i x l) = length l.
Proof. induction l; destruct i; simpl; auto. Qed.

Lemma in_somes : forall l x, In x (somes l) <-> In (Some x) l.
Proof.
  induction l as [|[t|] r IH]; intros x; simpl.
  - tauto.
  - rewrite IH. split; (intros [H|H]; [left; congruence | right; exact H]).
  - rewrite IH. split; [auto | intros [H|H]; [discriminate|auto]].
Qed.

Lemma in_somes_nth : forall l x, In x (somes l) <-> exists i, nth_error l i = Some (Some x).
Proof.
  intros. rewrite in_somes. split.
  - apply In_nth_error.
  - intros [i H]. eapply nth_error_In; eauto.
Qed.

Lemma in_somes_set_nth : forall tids r c x,
  In x (somes (set_nth r (Some c) tids)) -> x = c \/ In x (somes tids).
Proof.
  induction tids as [|t ts IH]; intros r c x H; simpl in *; [tauto|].
  destruct r as [|j]; simpl in H.
  - destruct H as [H|H]; [left; auto|]. right. destruct t; simpl; auto.
  - destruct t as [y|]; simpl in *.
    + destruct H as [H|H]; [right; left; auto|].
      destruct (IH _ _ _ H); auto.
    + apply IH in H. tauto.
Qed.

Lemma nodup_somes_tail : forall t ts, NoDup (somes (t :: ts)) -> NoDup (somes ts).
Proof. intros [y|] ts H; simpl in H; [inversion H|]; auto. Qed.

Lemma nodup_somes_set_nth : forall tids r c,
  NoDup (somes tids) -> ~ In c (somes tids) -> NoDup (somes (set_nth r (Some c) tids)).
Proof.
  induction tids as [|t ts IH]; intros r c ND NI; simpl; [constructor|].
  destruct r as [|j]; simpl.
  - constructor.
    + destruct t; simpl in NI; tauto.
    + eapply nodup_somes_tail; eauto.
  - destruct t as [y|]; simpl in *.
    + inversion ND; subst. constructor.
      * intro H. apply in_somes_set_nth in H. destruct H; [subst; tauto | tauto].
      * apply IH; auto.
    + apply IH; auto.
Qed.

(* ---------------------------------------------------------------------- *)
(* assign *)

Lemma assign_length : forall p tids, length (assign p tids) = length tids.
Proof.
  induction p as [|[r c] p IH]; intros; simpl; auto. rewrite IH, set_nth_length. auto.
Qed.

Lemma in_somes_assign : forall p tids x,
  In x (somes (assign p tids)) -> In x (somes tids) \/ In x (map snd p).
Proof.
  induction p as [|[r c] p IH]; intros tids x H; simpl in *; auto.
  apply IH in H. destruct H as [H|H]; auto.
  apply in_somes_set_nth in H. destruct H; auto.
Qed.

Lemma nodup_somes_assign : forall p tids,
  NoDup (somes tids) -> NoDup (map snd p) ->
  (forall x, In x (somes tids) -> ~ In x (map snd p)) ->
  NoDup (somes (assign p tids)).
Proof.
  induction p as [|[r c] p IH]; intros tids ND NP DJ; simpl in *; auto.
  inversion NP; subst. apply IH; auto.
  - apply nodup_somes_set_nth; auto. intro H. apply (DJ c H). auto.
  - intros x H. apply in_somes_set_nth in H. destruct H as [H|H].
    + subst. auto.
    + intro K. apply (DJ x H). auto.
Qed.

Definition some_at (tids : list (option nat)) (i : nat) : Prop :=
  exists c, nth_error tids i = Some (Some c).

Lemma some_at_set_nth_same : forall tids r c, r < length tids -> some_at (set_nth r (Some c) tids) r.
Proof.
  induction tids as [|t ts IH]; intros r c H; simpl in *; [lia|].
  destruct r; simpl.
  - exists c; reflexivity.
  - apply IH. lia.
Qed.

Lemma some_at_set_nth_keep : forall tids r c i, some_at tids i -> some_at (set_nth r (Some c) tids) i.
Proof.
  induction tids as [|t ts IH]; intros r c i [x H]; destruct i; simpl in *; try discriminate.
  - destruct r; simpl; [exists c | exists x]; auto.
  - destruct r; simpl; [exists x; auto|]. apply IH. exists x; auto.
Qed.

Lemma assign_some_keep : forall p tids i, some_at tids i -> some_at (assign p tids) i.
Proof.
  induction p as [|[r c] p IH]; intros; simpl; auto.
  apply IH. apply some_at_set_nth_keep; auto.
Qed.

Lemma assign_some_row : forall p tids r,
  In r (map fst p) -> r < length tids -> some_at (assign p tids) r.
Proof.
  induction p as [|[r0 c] p IH]; intros tids r H L; simpl in *; [tauto|].
  destruct H as [H|H].
  - subst. apply assign_some_keep. apply some_at_set_nth_same; auto.
  - apply IH; auto. rewrite set_nth_length; auto.
Qed.

Lemma nth_error_set_nth_other : forall A (l : list A) r x i, i <> r ->
  nth_error (set_nth r x l) i = nth_error l i.
Proof.
  induction l as [|y t IH]; intros r x i H; simpl; [destruct r; auto|].
  destruct r, i; simpl; auto; try congruence.
Qed.

Lemma assign_not_row : forall p tids i, ~ In i (map fst p) ->
  nth_error (assign p tids) i = nth_error tids i.
Proof.
  induction p as [|[r c] p IH]; intros tids i H; simpl in *; auto.
  rewrite IH by tauto. apply nth_error_set_nth_other. intro; subst; tauto.
Qed.

(* ---------------------------------------------------------------------- *)
(* add_new in closed form when current_tracks = [0..n) *)

Fixpoint fill (want : list bool) (tids : list (option nat)) (n : nat) : list (option nat) :=
  match want, tids with
  | w :: want', t :: tids' =>
      if w then Some n :: fill want' tids' (S n) else t :: fill want' tids' n
  | _, _ => tids
  end.

Fixpoint cnt (want : list bool) (tids : list (option nat)) : nat :=
  match want, tids with
  | w :: want', _ :: tids' => (if w then 1 else 0) + cnt want' tids'
  | _, _ => 0
  end.

Lemma add_new_fill : forall want tids n,
  add_new want tids (seq 0 n) = (fill want tids n, seq 0 (n + cnt want tids)).
Proof.
  induction want as [|w want IH]; intros tids n.
  - simpl. rewrite Nat.add_0_r. reflexivity.
  - destruct tids as [|t tids]; [simpl; rewrite Nat.add_0_r; reflexivity|].
    destruct w.
    + assert (E : n + cnt (true :: want) (t :: tids) = S n + cnt want tids) by (simpl; lia).
      rewrite E. simpl add_new. simpl fill.
      rewrite new_id_seq, seq_snoc, IH. reflexivity.
    + assert (E : n + cnt (false :: want) (t :: tids) = n + cnt want tids) by (simpl; lia).
      rewrite E. simpl add_new. simpl fill. rewrite IH. reflexivity.
Qed.

Lemma fill_length : forall want tids n, length (fill want tids n) = length tids.
Proof.
  induction want as [|w want IH]; intros [|t tids] n; simpl; auto.
  destruct w; simpl; rewrite IH; auto.
Qed.

Lemma in_somes_fill : forall want tids n x,
  In x (somes (fill want tids n)) -> In x (somes tids) \/ (n <= x < n + cnt want tids).
Proof.
  induction want as [|w want IH]; intros [|t tids] n x H; simpl in *; auto.
  destruct w; simpl in *.
  - destruct H as [H|H]; [right; lia|].
    apply IH in H. destruct H as [H|H]; [left; destruct t; simpl; auto | right; lia].
  - destruct t as [y|]; simpl in *.
    + destruct H as [H|H]; auto. apply IH in H. destruct H; auto.
    + apply IH in H. auto.
Qed.

Lemma nodup_somes_fill : forall want tids n,
  NoDup (somes tids) -> (forall x, In x (somes tids) -> x < n) ->
  NoDup (somes (fill want tids n)).
Proof.
  induction want as [|w want IH]; intros [|t tids] n ND B; simpl in *; auto.
  destruct w; simpl.
  - constructor.
    + intro H. apply in_somes_fill in H. destruct H as [H|H]; [|lia].
      assert (n < n); [|lia]. apply B. destruct t; simpl; auto.
    + apply IH; [eapply nodup_somes_tail; eauto|].
      intros x H. assert (x < n); [|lia]. apply B. destruct t; simpl; auto.
  - destruct t as [y|]; simpl in *.
    + inversion ND; subst. constructor.
      * intro H. apply in_somes_fill in H. destruct H as [H|H]; [tauto|].
        assert (y < n) by (apply B; auto). lia.
      * apply IH; auto.
    + apply IH; auto.
Qed.

Lemma fill_some_keep : forall want tids n i, some_at tids i -> some_at (fill want tids n) i.
Proof.
  induction want as [|w want IH]; intros [|t tids] n i [c H]; simpl; try (exists c; exact H).
  destruct i; simpl in *.
  - destruct w; [exists n | exists c]; auto.
  - destruct w; simpl; apply IH; exists c; auto.
Qed.

Lemma fill_want : forall want tids n i,
  nth_error want i = Some true -> i < length tids -> some_at (fill want tids n) i.
Proof.
  induction want as [|w want IH]; intros [|t tids] n i H L; simpl in *; try lia;
    destruct i; simpl in *; try discriminate.
  - inversion H; subst. exists n; auto.
  - destruct w; simpl; apply IH; auto; lia.
Qed.

Lemma fill_not_want : forall want tids n i,
  nth_error want i = Some false -> nth_error (fill want tids n) i = nth_error tids i.
Proof.
  induction want as [|w want IH]; intros [|t tids] n i H; simpl in *; auto;
    destruct i; simpl in *; try discriminate.
  - inversion H; subst. reflexivity.
  - destruct w; simpl; apply IH; auto.
Qed.

(* ---------------------------------------------------------------------- *)
(* combine / output *)

Lemma incl_map_fst_combine : forall A B (a : list A) (b : list B), incl (map fst (combine a b)) a.
Proof.
  induction a as [|x a IH]; intros b e H; destruct b as [|y b]; simpl in H; try contradiction.
  destruct H as [H|H]; [left; auto | right; eapply IH; eauto].
Qed.

Lemma nodup_map_fst_combine : forall A B (a : list A) (b : list B),
  NoDup a -> NoDup (map fst (combine a b)).
Proof.
  induction a as [|x a IH]; intros [|y b] H; simpl; try constructor.
  - inversion H; subst. intro K. apply incl_map_fst_combine in K. tauto.
  - inversion H; auto.
Qed.

Lemma incl_map_filter : forall A B (g : A -> B) f (l : list A), incl (map g (filter f l)) (map g l).
Proof.
  induction l as [|x l IH]; simpl; intros e H; [contradiction|].
  destruct (f x); simpl in *.
  - destruct H; [left; auto | right; apply IH; auto].
  - right; apply IH; auto.
Qed.

Lemma nodup_map_filter : forall A B (g : A -> B) f (l : list A),
  NoDup (map g l) -> NoDup (map g (filter f l)).
Proof.
  induction l as [|x l IH]; simpl; intros H; [constructor|].
  inversion H; subst. destruct (f x); simpl; auto.
  constructor; auto. intro K. apply incl_map_filter in K. tauto.
Qed.

Lemma map_snd_combine : forall A B (a : list A) (b : list B),
  length a = length b -> map snd (combine a b) = b.
Proof.
  induction a as [|x a IH]; intros [|y b] H; simpl in *; try discriminate; auto.
  f_equal. apply IH. lia.
Qed.

Lemma somes_map_snd_filter : forall (l : list (nat * option nat)),
  somes (map snd (filter (fun x => is_some (snd x)) l)) = somes (map snd l).
Proof.
  induction l as [|[u [t|]] l IH]; simpl; auto. f_equal; auto.
Qed.

Lemma nth_error_combine : forall A B (a : list A) (b : list B) i x y,
  nth_error a i = Some x -> nth_error b i = Some y -> nth_error (combine a b) i = Some (x, y).
Proof.
  induction a as [|x0 a IH]; intros [|y0 b] i x y Ha Hb; destruct i; simpl in *; try discriminate.
  - congruence.
  - eapply IH; eauto.
Qed.

Definition uids_of (out : list (nat * option nat)) : list nat := map fst out.
Definition tracks_of (out : list (nat * option nat)) : list nat := somes (map snd out).

Lemma uids_length : forall ds, length (uids ds) = length ds.
Proof. intros; apply map_length. Qed.

Lemma output_uids_incl : forall cfg ds tids, incl (uids_of (output cfg ds tids)) (uids ds).
Proof.
  intros. unfold output, uids_of. destruct (lq cfg).
  - apply incl_map_fst_combine.
  - eapply incl_tran; [apply incl_map_filter | apply incl_map_fst_combine].
Qed.

Lemma output_uids_nodup : forall cfg ds tids,
  NoDup (uids ds) -> NoDup (uids_of (output cfg ds tids)).
Proof.
  intros. unfold output, uids_of. destruct (lq cfg).
  - apply nodup_map_fst_combine; auto.
  - apply nodup_map_filter. apply nodup_map_fst_combine; auto.
Qed.

Lemma output_tracks : forall cfg ds tids, length tids = length ds ->
  tracks_of (output cfg ds tids) = somes tids.
Proof.
  intros. unfold output, tracks_of. destruct (lq cfg).
  - rewrite map_snd_combine; auto. rewrite uids_length; auto.
  - rewrite somes_map_snd_filter, map_snd_combine; auto. rewrite uids_length; auto.
Qed.

Lemma output_complete_at : forall cfg ds tids i u t,
  nth_error ds i = Some (u, true) -> nth_error tids i = Some (Some t) ->
  In (u, Some t) (output cfg ds tids).
Proof.
  intros cfg ds tids i u t Hd Ht.
  assert (In (u, Some t) (combine (uids ds) tids)).
  { eapply nth_error_In. apply nth_error_combine; eauto.
    unfold uids. erewrite map_nth_error; eauto. reflexivity. }
  unfold output. destruct (lq cfg); auto.
  apply filter_In. split; auto.
Qed.

(* ====================================================================== *)
(* one step *)

Lemma validb_spec : forall n m p, validb n m p = true ->
  NoDup (map fst p) /\ NoDup (map snd p) /\
  (forall r, In r (map fst p) -> r < n) /\ (forall c, In c (map snd p) -> c < m) /\
  (p = [] -> n = 0 \/ m = 0).
Proof.
  intros n m p H. unfold validb in H.
  repeat rewrite andb_true_iff in H. destruct H as [[[[A B] C] D] E].
  apply nodupb_NoDup in A. apply nodupb_NoDup in B.
  rewrite forallb_forall in C, D.
  repeat split; auto.
  - intros r Hr. apply C in Hr. apply Nat.ltb_lt; auto.
  - intros c Hc. apply D in Hc. apply Nat.ltb_lt; auto.
  - intros ->. apply orb_true_iff in E. rewrite !Nat.eqb_eq in E. auto.
Qed.

Lemma guard_nonempty : forall cfg p, guard cfg p = true -> p <> [].
Proof.
  intros cfg p H ->. unfold guard in H. destruct (fix_i cfg); simpl in H; discriminate.
Qed.

(* invariant of the state: current_tracks = [0, 1, ..., n-1], and the queue is
   only consulted once a track exists *)
Definition Inv (cfg : config) (st : state) : Prop :=
  cur st = seq 0 (length (cur st)) /\ (is_init cfg st = false -> cur st <> []).

Definition answer_used (cfg : config) (st : state) (f : frame) : bool :=
  negb (is_init cfg st) && negb (scores_raise cfg st (length (f_dets f))).

(* a one-to-one partial assignment inside an n x m matrix *)
Definition matching (n m : nat) (p : pairs) : Prop :=
  NoDup (map fst p) /\ NoDup (map snd p) /\
  (forall r, In r (map fst p) -> r < n) /\ (forall c, In c (map snd p) -> c < m).

Definition ans_matching (n m : nat) (a : answer) : Prop :=
  match a with AFail => True | APairs p => matching n m p end.

(* the matcher's answer is a one-to-one assignment inside the matrix
   (detections x current tracks) ... *)
Definition valid_step (cfg : config) (st : state) (f : frame) : Prop :=
  answer_used cfg st f = true ->
  ans_matching (length (f_dets f)) (length (cur st)) (f_answer f).

(* ... non-empty unless the matrix is empty *)
Definition nonempty_step (cfg : config) (st : state) (f : frame) : Prop :=
  answer_used cfg st f = true ->
  forall p, f_answer f = APairs p -> p = [] -> length (f_dets f) = 0 \/ length (cur st) = 0.

(* what a step returns and how it leaves current_tracks *)
Definition step_post (cfg : config) (st : state) (f : frame) (st' : state) (o : outcome) : Prop :=
  Inv cfg st' /\ (exists k, cur st' = seq 0 (length (cur st) + k)) /\
  match o with
  | Raise _ => True
  | Ok out => exists tids, out = output cfg (f_dets f) tids /\ length tids = length (f_dets f) /\
                NoDup (somes tids) /\ (forall x, In x (somes tids) -> x < length (cur st'))
  end.

Lemma lq_init_cur : forall cfg st, lq cfg = true -> is_init cfg st = false -> cur st <> [].
Proof.
  intros cfg st El H. unfold is_init in H. rewrite El in H. destruct (cur st); congruence.
Qed.

Lemma seq_nonempty : forall m, 0 < m -> seq 0 m <> [].
Proof. intros [|m] H; [lia | discriminate]. Qed.

Lemma step_spec_m : forall cfg fq lqs m f,
  let st := mkState fq lqs (seq 0 m) in
  (is_init cfg st = false -> 0 < m) ->
  valid_step cfg st f ->
  step_post cfg st f (fst (step cfg st f)) (snd (step cfg st f)).
Proof.
  intros cfg fq lqs m [[ds M] ans] st Hi Hv.
  assert (Lc : length (cur st) = m) by (subst st; simpl; apply seq_length).
  unfold valid_step, answer_used, f_dets, f_answer in Hv. simpl fst in Hv. simpl snd in Hv.
  unfold step_post. rewrite Lc. unfold f_dets. simpl fst at 3 5.
  unfold step.
  set (n := length ds) in *. set (none := repeat (@None nat) n).
  assert (Ln : length none = n) by (subst none; apply repeat_length).
  assert (Sn : somes none = []) by (subst none; apply somes_repeat_none).
  destruct (is_init cfg st) eqn:Ei.
  - (* first frame(s): add_new_tracks on everything *)
    clear Hv. subst st. simpl cur. rewrite add_new_fill.
    set (want := if lq cfg then map snd ds else want_fw ds none).
    cbv beta iota.
    assert (Post : exists tids : list (option nat),
               output cfg ds (fill want none m) = output cfg ds tids /\ length tids = n /\
               NoDup (somes tids) /\ (forall x, In x (somes tids) -> x < m + cnt want none)).
    { exists (fill want none m). split; [reflexivity|]. split; [rewrite fill_length; auto|]. split.
      - apply nodup_somes_fill; rewrite Sn; [constructor | intros x []].
      - intros x H. apply in_somes_fill in H. rewrite Sn in H. destruct H as [[]|H]. lia. }
    destruct (lq cfg) eqn:El; simpl fst; simpl snd.
    + split; [|split].
      * split; simpl cur; [rewrite seq_length; reflexivity|].
        intro H. eapply lq_init_cur in H; eauto.
      * exists (cnt want none). reflexivity.
      * simpl cur. rewrite seq_length. exact Post.
    + split; [|split].
      * split; simpl cur; [rewrite seq_length; reflexivity|].
        unfold is_init. rewrite El. simpl fwq. rewrite !seq_length.
        unfold is_init in Ei. rewrite El in Ei. simpl fwq in Ei.
        destruct fq; [|discriminate].
        destruct (m <? m + cnt want none) eqn:Eg.
        -- intros _. apply Nat.ltb_lt in Eg. apply seq_nonempty. lia.
        -- discriminate.
      * exists (cnt want none). reflexivity.
      * simpl cur. rewrite seq_length. exact Post.
  - assert (Hm : 0 < m) by (apply Hi; reflexivity).
    assert (InvSame : Inv cfg st).
    { split; [subst st; simpl; rewrite seq_length; reflexivity|].
      intros _. subst st. simpl. apply seq_nonempty; auto. }
    assert (Same : exists k, cur st = seq 0 (m + k)) by (exists 0; rewrite Nat.add_0_r; reflexivity).
    destruct (scores_raise cfg st n) eqn:Er; [simpl; auto|].
    simpl in Hv. specialize (Hv eq_refl).
    destruct ans as [|p]; [simpl; auto|].
    simpl in Hv. rewrite ?Lc, ?seq_length in Hv.
    destruct Hv as (NDr & NDc & Rr & Rc).
    destruct (guard cfg p) eqn:Eg.
    2:{ simpl. split; [auto|]. split; [auto|].
        exists none. rewrite Sn. repeat split; auto; [constructor | intros x []]. }
    set (tids0 := assign p none).
    assert (L0 : length tids0 = n) by (subst tids0; rewrite assign_length; auto).
    assert (ND0 : NoDup (somes tids0)).
    { subst tids0. apply nodup_somes_assign; auto; rewrite Sn; [constructor | intros x []]. }
    assert (B0 : forall x, In x (somes tids0) -> x < m).
    { subst tids0. intros x H. apply in_somes_assign in H. rewrite Sn in H.
      destruct H as [[]|H]. auto. }
    destruct (lq cfg) eqn:El.
    + destruct (fix_ii cfg) eqn:E2.
      * subst st. simpl cur. rewrite add_new_fill. cbv beta iota. simpl fst; simpl snd.
        set (want := want_lq ds (map fst p)).
        split; [|split].
        -- split; simpl cur; [rewrite seq_length; reflexivity|].
           intro H. eapply lq_init_cur in H; eauto.
        -- exists (cnt want tids0). reflexivity.
        -- simpl cur. rewrite seq_length. exists (fill want tids0 m).
           split; [reflexivity|]. split; [rewrite fill_length; auto|]. split.
           ++ apply nodup_somes_fill; auto.
           ++ intros x H. apply in_somes_fill in H. destruct H as [H|H]; [apply B0 in H|]; lia.
      * assert (InvQ : forall q, Inv cfg (mkState (fwq st) q (cur st))).
        { intros q. split; [subst st; simpl; rewrite seq_length; reflexivity|].
          intro H. eapply lq_init_cur in H; eauto. }
        destruct (unmatched n p) eqn:Eu; simpl fst; simpl snd.
        -- split; [apply InvQ|]. split; [exact Same|].
           simpl cur. rewrite ?Lc, ?seq_length. exists tids0. repeat split; auto.
        -- split; [apply InvQ|]. split; [exact Same|]. exact I.
    + assert (Hinit : forall q c, c <> [] -> is_init cfg (mkState q lqs c) = false -> c <> []) by auto.
      destruct (unmatched n p) eqn:Eu.
      * cbv beta iota. simpl fst; simpl snd.
        split; [|split].
        -- split; [subst st; simpl; rewrite seq_length; reflexivity|].
           intros _. subst st. simpl. apply seq_nonempty; auto.
        -- exact Same.
        -- simpl cur. rewrite ?Lc, ?seq_length. exists tids0. repeat split; auto.
      * subst st. simpl cur. rewrite add_new_fill. cbv beta iota. simpl fst; simpl snd.
        set (want := want_fw ds tids0).
        split; [|split].
        -- split; simpl cur; [rewrite seq_length; reflexivity|].
           intros _. apply seq_nonempty. lia.
        -- exists (cnt want tids0). reflexivity.
        -- simpl cur. rewrite seq_length. exists (fill want tids0 m).
           split; [reflexivity|]. split; [rewrite fill_length; auto|]. split.
           ++ apply nodup_somes_fill; auto.
           ++ intros x H. apply in_somes_fill in H. destruct H as [H|H]; [apply B0 in H|]; lia.
Qed.

(* ---------------------------------------------------------------------- *)
(* completeness and absence of exceptions on steps where no F4 defect fires *)

Definition quirk_free (cfg : config) (st : state) (f : frame) : Prop :=
  is_init cfg st = false ->
  scores_raise cfg st (length (f_dets f)) = false /\
  exists p, f_answer f = APairs p /\
    (fix_i cfg = true \/ sel_F4i p = false) /\
    (fix_ii cfg = true \/ sel_F4ii cfg (length (f_dets f)) p = false).

Definition complete (ds : list det) (out : list (nat * option nat)) : Prop :=
  forall u, In (u, true) ds -> exists t, In (u, Some t) out.

Lemma want_fw_nth : forall ds tids i u a t,
  nth_error ds i = Some (u, a) -> nth_error tids i = Some t ->
  nth_error (want_fw ds tids) i = Some (a && is_none t).
Proof.
  intros. unfold want_fw.
  erewrite map_nth_error; [|apply nth_error_combine; eauto]. reflexivity.
Qed.

Lemma nth_error_seq0 : forall n i, i < n -> nth_error (seq 0 n) i = Some i.
Proof.
  intros n i H. rewrite (nth_error_nth' (seq 0 n) 0) by (rewrite seq_length; auto).
  rewrite seq_nth; auto.
Qed.

Lemma want_lq_nth : forall ds rows i u a,
  nth_error ds i = Some (u, a) ->
  nth_error (want_lq ds rows) i = Some (a && negb (memb i rows)).
Proof.
  intros ds rows i u a H. unfold want_lq.
  assert (i < length ds) by (apply nth_error_Some; congruence).
  erewrite map_nth_error; [|apply nth_error_combine; [apply nth_error_seq0; auto | eauto]].
  reflexivity.
Qed.

Lemma unmatched_nil : forall n p i, unmatched n p = [] -> i < n -> In i (map fst p).
Proof.
  intros n p i H L. destruct (memb i (map fst p)) eqn:E; [apply memb_In; auto|].
  assert (K : In i (unmatched n p)).
  { unfold unmatched. apply filter_In. split; [apply in_seq; lia | rewrite E; reflexivity]. }
  rewrite H in K. destruct K.
Qed.

Lemma unmatched_0 : forall p, unmatched 0 p = [].
Proof. reflexivity. Qed.

Lemma complete_from_some_at : forall cfg ds tids,
  (forall i u, nth_error ds i = Some (u, true) -> some_at tids i) ->
  complete ds (output cfg ds tids).
Proof.
  intros cfg ds tids H u Hu. apply In_nth_error in Hu. destruct Hu as [i Hi].
  destruct (H _ _ Hi) as [t Ht]. exists t. eapply output_complete_at; eauto.
Qed.

Lemma step_complete_m : forall cfg fq lqs m f,
  let st := mkState fq lqs (seq 0 m) in
  (is_init cfg st = false -> 0 < m) ->
  valid_step cfg st f -> nonempty_step cfg st f -> quirk_free cfg st f ->
  exists out, snd (step cfg st f) = Ok out /\ complete (f_dets f) out.
Proof.
  intros cfg fq lqs m [[ds M] ans] st Hi Hv Hne Hq.
  unfold valid_step, nonempty_step, quirk_free, answer_used, f_dets, f_answer in *.
  simpl fst in *. simpl snd in *.
  unfold step.
  set (n := length ds) in *. set (none := repeat (@None nat) n).
  assert (Ln : length none = n) by (subst none; apply repeat_length).
  assert (Nn : forall i, i < n -> nth_error none i = Some None)
    by (intros; subst none; apply nth_error_repeat_none; auto).
  assert (Lt : forall i u a, nth_error ds i = Some (u, a) -> i < n).
  { intros i u a H. apply nth_error_Some. congruence. }
  destruct (is_init cfg st) eqn:Ei.
  - clear Hv Hq Hne. subst st. simpl cur. rewrite add_new_fill. cbv beta iota.
    destruct (lq cfg) eqn:El; simpl snd; (eexists; split; [reflexivity|]);
      apply complete_from_some_at; intros i u H; (apply fill_want; [|rewrite Ln; eauto]).
    + erewrite map_nth_error; eauto. reflexivity.
    + erewrite want_fw_nth; eauto. reflexivity.
  - assert (Hm : 0 < m) by (apply Hi; reflexivity).
    destruct (Hq eq_refl) as (Er & p & -> & F1 & F2). clear Hq.
    rewrite Er in *. simpl in Hv, Hne. specialize (Hv eq_refl). rewrite seq_length in Hv, Hne.
    destruct Hv as (NDr & NDc & Rr & Rc).
    assert (Ne : p = [] -> n = 0 \/ m = 0) by (intros E; eapply (Hne eq_refl); eauto).
    assert (G : 0 < n -> guard cfg p = true).
    { intros Hn. assert (Pn : p <> []) by (intro E; apply Ne in E; lia).
      assert (Lp : (0 <? length p) = true) by (destruct p; [congruence | reflexivity]).
      unfold guard. destruct (fix_i cfg); auto.
      destruct F1 as [F1|F1]; [discriminate|].
      unfold sel_F4i in F1. rewrite Lp in F1. simpl in F1.
      apply negb_false_iff in F1. exact F1. }
    destruct (guard cfg p) eqn:Eg.
    2:{ eexists. split; [reflexivity|]. intros u Hu.
        destruct ds as [|d ds']; [destruct Hu|].
        assert (Hn : 0 < n) by (subst n; simpl; lia). apply G in Hn. discriminate. }
    set (tids0 := assign p none).
    assert (L0 : length tids0 = n) by (subst tids0; rewrite assign_length; auto).
    assert (Row : forall i, In i (map fst p) -> i < n -> some_at tids0 i).
    { intros i H L. subst tids0. apply assign_some_row; auto. rewrite Ln; auto. }
    destruct (lq cfg) eqn:El.
    + destruct (fix_ii cfg) eqn:E2.
      * subst st. simpl cur. rewrite add_new_fill. cbv beta iota. simpl snd.
        eexists. split; [reflexivity|].
        apply complete_from_some_at. intros i u H.
        destruct (memb i (map fst p)) eqn:Em.
        -- apply fill_some_keep. apply Row; eauto. apply memb_In; auto.
        -- apply fill_want; [|rewrite L0; eauto].
           erewrite want_lq_nth; eauto. rewrite Em. reflexivity.
      * destruct F2 as [F2|F2]; [discriminate|].
        unfold sel_F4ii in F2. rewrite El, Eg in F2. simpl in F2.
        destruct (unmatched n p) eqn:Eu; [|discriminate].
        simpl snd. eexists. split; [reflexivity|].
        apply complete_from_some_at. intros i u H.
        apply Row; eauto. eapply unmatched_nil; eauto.
    + destruct (unmatched n p) eqn:Eu.
      * cbv beta iota. simpl snd. eexists. split; [reflexivity|].
        apply complete_from_some_at. intros i u H.
        apply Row; eauto. eapply unmatched_nil; eauto.
      * subst st. simpl cur. rewrite add_new_fill. cbv beta iota. simpl snd.
        eexists. split; [reflexivity|].
        apply complete_from_some_at. intros i u H.
        assert (Li : i < length tids0) by (rewrite L0; eauto).
        apply nth_error_Some in Li.
        destruct (nth_error tids0 i) as [[t|]|] eqn:Et; [| |congruence].
        -- apply fill_some_keep. exists t; auto.
        -- apply fill_want; [|rewrite L0; eauto].
           erewrite want_fw_nth; eauto. reflexivity.
Qed.

(* ====================================================================== *)
(* contracts of the matching functions *)

Definition finite_on (M : matrix) (p : pairs) : Prop :=
  forall r c, In (r, c) p -> cell M r c <> None.

Definition cellQ (M : matrix) (rc : nat * nat) : Q :=
  match cell M (fst rc) (snd rc) with Some x => x | None => 0%Q end.

Definition qsum (l : list Q) : Q := fold_right Qplus 0%Q l.

(* total score of an assignment; the cost of the code is its negation, so a
   minimal total cost is a maximal total score *)
Definition tot (M : matrix) (p : pairs) : Q := qsum (map (cellQ M) p).

(* scipy.optimize.linear_sum_assignment on cost = -score, NaN -> inf
   (fix3 = false), resp. the repaired hungarian_matching (fix3 = true):
   a one-to-one assignment using finite cells only, of size min(n,m) — resp.
   of the largest size any finite assignment has —, of minimal total cost among
   those; the unrepaired function fails exactly when no finite assignment of
   size min(n,m) exists, the repaired one never fails. *)
Definition hungarian_contract (fix3 : bool) (M : matrix) (n m : nat) (a : answer) : Prop :=
  match a with
  | APairs p =>
      matching n m p /\ finite_on M p /\
      (if fix3 then forall q, matching n m q -> finite_on M q -> length q <= length p
       else length p = Nat.min n m) /\
      (forall q, matching n m q -> finite_on M q -> length q = length p ->
                 (tot M q <= tot M p)%Q)
  | AFail => fix3 = false /\
             forall q, matching n m q -> finite_on M q -> length q <> Nat.min n m
  end.

Definition greedy_contract (M : matrix) (n m : nat) (a : answer) : Prop :=
  exists p, a = APairs p /\ greedy_runb M n m [] [] p = true.

Definition matcher_contract (cfg : config) (M : matrix) (n m : nat) (a : answer) : Prop :=
  if greedy cfg then greedy_contract M n m a
  else hungarian_contract (fix_iii cfg) M n m a.

(* some cell of the (non-empty) matrix is finite: not every current track is
   without candidate *)
Definition some_finite (M : matrix) (n m : nat) : Prop :=
  0 < n -> 0 < m -> exists r c, r < n /\ c < m /\ cell M r c <> None.

Lemma validb_intro : forall n m p, matching n m p -> (p = [] -> n = 0 \/ m = 0) ->
  validb n m p = true.
Proof.
  intros n m p (A & B & C & D) E. unfold validb.
  repeat (apply andb_true_iff; split).
  - apply nodupb_NoDup; auto.
  - apply nodupb_NoDup; auto.
  - apply forallb_forall. intros r Hr. apply Nat.ltb_lt; auto.
  - apply forallb_forall. intros c Hc. apply Nat.ltb_lt; auto.
  - destruct p; auto. apply orb_true_iff. rewrite !Nat.eqb_eq. auto.
Qed.

Lemma matching_single : forall n m r c, r < n -> c < m -> matching n m [(r, c)].
Proof.
  intros. repeat split; simpl; try (constructor; [intros []|constructor]);
    intros x [<-|[]]; auto.
Qed.

Lemma hungarian_matching_ok : forall fix3 M n m a,
  hungarian_contract fix3 M n m a -> ans_matching n m a.
Proof. intros fix3 M n m [|p] H; simpl; auto. destruct H; auto. Qed.

Lemma hungarian_nonempty : forall fix3 M n m p,
  hungarian_contract fix3 M n m (APairs p) -> (fix3 = true -> some_finite M n m) ->
  p = [] -> n = 0 \/ m = 0.
Proof.
  intros fix3 M n m p (Mt & Fin & Sz & _) SF ->. destruct fix3.
  - destruct n as [|n]; auto. destruct m as [|m]; auto.
    destruct (SF eq_refl) as (r & c & Hr & Hc & Hf); try lia.
    assert (L : length [(r, c)] <= length (@nil (nat * nat))).
    { apply Sz; [apply matching_single; auto|]. intros r' c' [E|[]]. inversion E; subst; auto. }
    simpl in L. lia.
  - simpl in Sz. lia.
Qed.

Lemma greedy_runb_spec : forall M n m p ur uc,
  greedy_runb M n m ur uc p = true ->
  NoDup (map fst p) /\ NoDup (map snd p) /\
  (forall r, In r (map fst p) -> r < n /\ ~ In r ur) /\
  (forall c, In c (map snd p) -> c < m /\ ~ In c uc).
Proof.
  induction p as [|[r c] p IH]; intros ur uc H; simpl in *.
  - split; [constructor|]. split; [constructor|]. split; intros ? [].
  - repeat rewrite andb_true_iff in H. destruct H as [[[[[A B] C] D] E] F].
    apply Nat.ltb_lt in A. apply Nat.ltb_lt in B.
    apply negb_true_iff in C. apply negb_true_iff in D.
    apply memb_false in C. apply memb_false in D.
    apply IH in F. destruct F as (F1 & F2 & F3 & F4).
    repeat split.
    + constructor; auto. intro K. apply F3 in K. simpl in K. tauto.
    + constructor; auto. intro K. apply F4 in K. simpl in K. tauto.
    + destruct H; [subst; auto | apply F3; auto].
    + destruct H; [subst; auto | apply F3 in H; simpl in H; tauto].
    + destruct H; [subst; auto | apply F4; auto].
    + destruct H; [subst; auto | apply F4 in H; simpl in H; tauto].
Qed.

Lemma greedy_matching_ok : forall M n m a, greedy_contract M n m a -> ans_matching n m a.
Proof.
  intros M n m a (p & -> & H). simpl.
  pose proof (greedy_runb_spec _ _ _ _ _ _ H) as (A & B & C & D).
  repeat split; auto; intros x Hx; [apply C in Hx | apply D in Hx]; tauto.
Qed.

Lemma greedy_nonempty : forall M n m p,
  greedy_contract M n m (APairs p) -> p = [] -> n = 0 \/ m = 0.
Proof.
  intros M n m p (p' & E & H) ->. inversion E; subst p'. simpl in H.
  destruct n as [|n]; auto. destruct m as [|m]; auto. simpl in H. discriminate.
Qed.

Lemma matcher_matching_ok : forall cfg M n m a,
  matcher_contract cfg M n m a -> ans_matching n m a.
Proof.
  intros cfg M n m a H. unfold matcher_contract in H. destruct (greedy cfg).
  - eapply greedy_matching_ok; eauto.
  - eapply hungarian_matching_ok; eauto.
Qed.

Lemma matcher_nonempty : forall cfg M n m p,
  matcher_contract cfg M n m (APairs p) ->
  (greedy cfg = false -> fix_iii cfg = true -> some_finite M n m) ->
  p = [] -> n = 0 \/ m = 0.
Proof.
  intros cfg M n m p H SF. unfold matcher_contract in H. destruct (greedy cfg).
  - eapply greedy_nonempty; eauto.
  - eapply hungarian_nonempty; eauto.
Qed.

Lemma matcher_no_fail : forall cfg M n m a,
  matcher_contract cfg M n m a -> greedy cfg = true \/ fix_iii cfg = true -> a <> AFail.
Proof.
  intros cfg M n m a H G. unfold matcher_contract in H. destruct (greedy cfg).
  - destruct H as (p & -> & _). discriminate.
  - destruct G as [G|G]; [discriminate|]. rewrite G in H. destruct a; [destruct H; discriminate | discriminate].
Qed.

(* the unrepaired Hungarian matcher does not fail when a finite assignment of
   full size exists (no column without candidate is needed) *)
Lemma hungarian_no_fail_feasible : forall M n m a q,
  hungarian_contract false M n m a ->
  matching n m q -> finite_on M q -> length q = Nat.min n m -> a <> AFail.
Proof.
  intros M n m a q H Mq Fq Lq ->. destruct H as [_ H]. eapply H; eauto.
Qed.

(* ====================================================================== *)
(* histories *)

Lemma step_spec : forall cfg st f, Inv cfg st -> valid_step cfg st f ->
  step_post cfg st f (fst (step cfg st f)) (snd (step cfg st f)).
Proof.
  intros cfg [fq lqs c] f [Hc Hi] Hv. simpl in Hc.
  remember (length c) as m eqn:Em. subst c.
  apply step_spec_m; auto.
  intros H. specialize (Hi H). simpl in Hi. destruct m; [simpl in Hi; congruence | lia].
Qed.

Lemma step_complete : forall cfg st f, Inv cfg st ->
  valid_step cfg st f -> nonempty_step cfg st f -> quirk_free cfg st f ->
  exists out, snd (step cfg st f) = Ok out /\ complete (f_dets f) out.
Proof.
  intros cfg [fq lqs c] f [Hc Hi] Hv Hn Hq. simpl in Hc.
  remember (length c) as m eqn:Em. subst c.
  apply step_complete_m; auto.
  intros H. specialize (Hi H). simpl in Hi. destruct m; [simpl in Hi; congruence | lia].
Qed.

Lemma Inv_init : forall cfg, Inv cfg init.
Proof.
  intros cfg. split; [reflexivity|]. unfold is_init, init; simpl. destruct (lq cfg); discriminate.
Qed.

Lemma trace_In_step : forall cfg h st x, In x (trace cfg st h) ->
  t_out x = snd (step cfg (t_state x) (t_frame x)).
Proof.
  induction h as [|f r IH]; intros st x H; simpl in H; [destruct H|].
  destruct H as [H|H]; [subst x; reflexivity|].
  destruct (snd (step cfg st f)); [eapply IH; eauto | destruct H].
Qed.

(* induction over the executed steps with a state invariant *)
Lemma trace_induct : forall cfg (I : state -> Prop) (P Q : state * frame * outcome -> Prop),
  (forall st f, I st -> P (st, f, snd (step cfg st f)) ->
                Q (st, f, snd (step cfg st f)) /\ I (fst (step cfg st f))) ->
  forall h st, I st -> Forall P (trace cfg st h) -> Forall Q (trace cfg st h).
Proof.
  intros cfg I P Q HS. induction h as [|f r IH]; intros st Hi HP; simpl in *; [constructor|].
  inversion HP as [|? ? P0 PR]; subst.
  destruct (HS st f Hi P0) as [Q0 I1].
  constructor; auto.
  destruct (snd (step cfg st f)); [apply IH; auto | constructor].
Qed.

Lemma run_trace : forall cfg h st, run_from cfg st h = map t_out (trace cfg st h).
Proof.
  induction h as [|f r IH]; intros st; simpl; auto.
  destruct (step cfg st f) as [st' o] eqn:E. simpl. unfold t_out at 1. simpl.
  f_equal. destruct o; auto.
Qed.

Lemma trace_all_ok_length : forall cfg h st,
  Forall (fun x => exists out, t_out x = Ok out) (trace cfg st h) ->
  length (trace cfg st h) = length h.
Proof.
  induction h as [|f r IH]; intros st H; simpl in *; auto.
  inversion H as [|? ? [out Ho] HR]; subst. unfold t_out in Ho; simpl in Ho.
  rewrite Ho in *. f_equal. apply IH; auto.
Qed.

(* --- (a) never invented, never duplicated: no hypothesis at all --- *)

Lemma step_shape : forall cfg st f out, snd (step cfg st f) = Ok out ->
  exists tids, out = output cfg (f_dets f) tids.
Proof.
  intros cfg st [[ds M] ans] out. unfold step, f_dets. simpl fst.
  destruct (is_init cfg st).
  - destruct (add_new _ _ _) as [tids c']. simpl. intros H; inversion H. eauto.
  - destruct (scores_raise _ _ _); [simpl; discriminate|].
    destruct ans as [|p]; [simpl; discriminate|].
    destruct (guard cfg p); [|simpl; intros H; inversion H; eauto].
    destruct (lq cfg).
    + destruct (fix_ii cfg).
      * destruct (add_new _ _ _) as [tids c']. simpl. intros H; inversion H. eauto.
      * destruct (unmatched _ _); simpl; [intros H; inversion H; eauto | discriminate].
    + destruct (unmatched _ _).
      * simpl. intros H; inversion H. eauto.
      * destruct (add_new _ _ _) as [tids c']. simpl. intros H; inversion H. eauto.
Qed.

Theorem outputs_subset_nodup : forall cfg h x out,
  In x (trace cfg init h) -> t_out x = Ok out ->
  incl (uids_of out) (uids (f_dets (t_frame x))) /\
  (NoDup (uids (f_dets (t_frame x))) -> NoDup (uids_of out)).
Proof.
  intros cfg h x out Hx Ho.
  rewrite (trace_In_step _ _ _ _ Hx) in Ho.
  apply step_shape in Ho. destruct Ho as [tids ->].
  split; [apply output_uids_incl | apply output_uids_nodup].
Qed.

(* --- hypotheses on the oracle answers along a run --- *)

Definition contract_step (cfg : config) (x : state * frame * outcome) : Prop :=
  answer_used cfg (t_state x) (t_frame x) = true ->
  matcher_contract cfg (f_matrix (t_frame x)) (length (f_dets (t_frame x)))
                   (length (cur (t_state x))) (f_answer (t_frame x)).

(* only used for the REPAIRED Hungarian matcher: some cell of the matrix is finite *)
Definition finite_step (cfg : config) (x : state * frame * outcome) : Prop :=
  answer_used cfg (t_state x) (t_frame x) = true -> greedy cfg = false -> fix_iii cfg = true ->
  some_finite (f_matrix (t_frame x)) (length (f_dets (t_frame x))) (length (cur (t_state x))).

Lemma contract_valid : forall cfg st f o, contract_step cfg (st, f, o) -> valid_step cfg st f.
Proof.
  intros cfg st f o H U. eapply matcher_matching_ok. apply H. exact U.
Qed.

Lemma contract_nonempty : forall cfg st f o,
  contract_step cfg (st, f, o) -> finite_step cfg (st, f, o) -> nonempty_step cfg st f.
Proof.
  intros cfg st f o H SF U p E. eapply matcher_nonempty.
  - specialize (H U). unfold t_frame, t_state in H; simpl in H. rewrite E in H. exact H.
  - intros G F3. apply SF; auto.
Qed.

(* --- (b) distinct tracks within a frame, ids never reused --- *)

Definition tracks_ok (cfg : config) (x : state * frame * outcome) : Prop :=
  let st := t_state x in
  let st' := fst (step cfg st (t_frame x)) in
  cur st = seq 0 (length (cur st)) /\
  (exists k, cur st' = cur st ++ seq (length (cur st)) k) /\
  NoDup (cur st') /\
  forall out, t_out x = Ok out -> NoDup (tracks_of out) /\ incl (tracks_of out) (cur st').

Theorem distinct_tracks_fresh_ids : forall cfg h,
  Forall (contract_step cfg) (trace cfg init h) -> Forall (tracks_ok cfg) (trace cfg init h).
Proof.
  intros cfg h. apply (trace_induct cfg (Inv cfg)); [|apply Inv_init].
  intros st f Hi HP.
  pose proof (step_spec cfg st f Hi (contract_valid _ _ _ _ HP)) as (I1 & [k Hk] & Post).
  split; auto.
  unfold tracks_ok, t_state, t_frame, t_out. simpl fst. simpl snd.
  destruct Hi as [Hc _].
  split; [exact Hc|]. split; [|split].
  - exists k. rewrite Hk. rewrite Hc at 2. rewrite seq_app. reflexivity.
  - rewrite Hk. apply seq_NoDup.
  - intros out Ho. rewrite Ho in Post. destruct Post as (tids & -> & L & ND & B).
    rewrite output_tracks by auto. split; auto.
    intros t Ht. apply B in Ht. destruct I1 as [Hc' _]. rewrite Hc'. apply in_seq. lia.
Qed.

(* --- (c), (d): completeness and no exception where no F4 defect fires --- *)

Definition no_defect_fires (cfg : config) (x : state * frame * outcome) : Prop :=
  quirk_free cfg (t_state x) (t_frame x).

Definition ok_complete (x : state * frame * outcome) : Prop :=
  exists out, t_out x = Ok out /\ complete (f_dets (t_frame x)) out.

Lemma Forall_and3 : forall A (P Q R : A -> Prop) l,
  Forall P l -> Forall Q l -> Forall R l -> Forall (fun x => P x /\ Q x /\ R x) l.
Proof.
  induction l; intros HP HQ HR; constructor; inversion HP; inversion HQ; inversion HR; subst; auto.
Qed.

Theorem complete_no_raise_general : forall cfg h,
  Forall (contract_step cfg) (trace cfg init h) ->
  Forall (finite_step cfg) (trace cfg init h) ->
  Forall (no_defect_fires cfg) (trace cfg init h) ->
  Forall ok_complete (trace cfg init h) /\ length (run cfg h) = length h.
Proof.
  intros cfg h H1 H2 H3.
  assert (F : Forall ok_complete (trace cfg init h)).
  { apply (trace_induct cfg (Inv cfg)
             (fun x => contract_step cfg x /\ finite_step cfg x /\ no_defect_fires cfg x));
      [|apply Inv_init|apply Forall_and3; auto].
    intros st f Hi (C & Fi & Q).
    pose proof (step_spec cfg st f Hi (contract_valid _ _ _ _ C)) as (I1 & _).
    split; auto.
    destruct (step_complete cfg st f Hi (contract_valid _ _ _ _ C)
                (contract_nonempty _ _ _ _ C Fi) Q) as (out & Ho & Hc).
    exists out. split; auto. }
  split; auto.
  unfold run. rewrite run_trace, map_length. apply trace_all_ok_length.
  eapply Forall_impl; [|exact F]. intros x (out & Ho & _). eauto.
Qed.

(* --- the repaired tree: fix_i, fix_ii, fix_iii --- *)

Definition repaired (cfg : config) : Prop :=
  fix_i cfg = true /\ fix_ii cfg = true /\ fix_iii cfg = true.

Lemma repaired_no_defect : forall cfg x, repaired cfg -> contract_step cfg x -> no_defect_fires cfg x.
Proof.
  intros cfg [[st f] o] (F1 & F2 & F3) C Hinit.
  unfold contract_step, answer_used, t_state, t_frame in C. simpl fst in C. simpl snd in C.
  assert (Er : scores_raise cfg st (length (f_dets f)) = false).
  { unfold scores_raise. rewrite F3. destruct (red_max cfg); reflexivity. }
  change (is_init cfg st = false) in Hinit.
  change (scores_raise cfg st (length (f_dets f)) = false /\
          exists p, f_answer f = APairs p /\ (fix_i cfg = true \/ sel_F4i p = false) /\
            (fix_ii cfg = true \/ sel_F4ii cfg (length (f_dets f)) p = false)).
  rewrite Hinit, Er in C. specialize (C eq_refl).
  split; [exact Er|].
  destruct (f_answer f) as [|p] eqn:Ea.
  - exfalso. eapply matcher_no_fail; eauto.
  - exists p. repeat split; auto.
Qed.

Theorem complete_no_raise_repaired : forall cfg h, repaired cfg ->
  Forall (contract_step cfg) (trace cfg init h) ->
  Forall (finite_step cfg) (trace cfg init h) ->
  Forall ok_complete (trace cfg init h) /\ length (run cfg h) = length h.
Proof.
  intros cfg h R H1 H2. apply complete_no_raise_general; auto.
  eapply Forall_impl; [|exact H1]. intros x. apply repaired_no_defect; auto.
Qed.

(* with fix_i and fix_ii only, what remains is F4(iii): the step must not raise
   ValueError (nanmax of an empty candidate list / infeasible assignment) *)
Definition no_value_error (cfg : config) (x : state * frame * outcome) : Prop :=
  is_init cfg (t_state x) = false ->
  scores_raise cfg (t_state x) (length (f_dets (t_frame x))) = false /\
  f_answer (t_frame x) <> AFail.

Theorem complete_no_raise_fix_i_ii : forall cfg h, fix_i cfg = true -> fix_ii cfg = true ->
  Forall (contract_step cfg) (trace cfg init h) ->
  Forall (finite_step cfg) (trace cfg init h) ->
  Forall (no_value_error cfg) (trace cfg init h) ->
  Forall ok_complete (trace cfg init h) /\ length (run cfg h) = length h.
Proof.
  intros cfg h F1 F2 H1 H2 H3. apply complete_no_raise_general; auto.
  eapply Forall_impl; [|exact H3]. intros x NV Hinit.
  destruct (NV Hinit) as [Er Na]. split; auto.
  destruct (f_answer (t_frame x)) as [|p]; [congruence|]. exists p. auto.
Qed.

(* ====================================================================== *)
(* the PINNED tree (historic: no fix; before 0429c9b / 7f6adbc / 141de51): refutations by minimal histories *)

Definition cfg_now (l g : bool) (w : nat) (rmax : bool) : config :=
  mkConfig l g w rmax false false false.

Definition Q1 : score := Some 1%Q.
Definition Q0 : score := Some 0%Q.

(* one animal, three frames; frames 1 and 2 match row 0 <-> track 0 *)
Definition wit_one_animal : list frame :=
  [ ([(10, true)], [], AFail);
    ([(20, true)], [[Q1]], APairs [(0, 0)]);
    ([(30, true)], [[Q1]], APairs [(0, 0)]) ].

(* two animals, then a third one appears (3 detections x 2 tracks) *)
Definition wit_third_appears : list frame :=
  [ ([(10, true); (11, true)], [], AFail);
    ([(20, true); (21, true); (22, true)], [[Q1; Q0]; [Q0; Q1]; [Q0; Q0]], APairs [(0, 0); (1, 1)]) ].

(* three animals, window 1; the first is away for one frame, so its track has
   no candidate left (NaN column); then all three are back *)
Definition wit_stale_track : list frame :=
  [ ([(10, true); (11, true); (12, true)], [], AFail);
    ([(21, true); (22, true)], [[Q0; Q1; Q0]; [Q0; Q0; Q1]], APairs [(0, 1); (1, 2)]);
    ([(30, true); (31, true); (32, true)],
     [[None; Q0; Q0]; [None; Q1; Q0]; [None; Q0; Q1]], AFail) ].

Lemma wit_one_animal_fw : run (cfg_now false false 3 false) wit_one_animal
  = [Ok [(10, Some 0)]; Ok []; Ok []].
Proof. vm_compute. reflexivity. Qed.

Lemma wit_one_animal_lq : run (cfg_now true false 3 false) wit_one_animal
  = [Ok [(10, Some 0)]; Ok [(20, None)]; Ok [(30, None)]].
Proof. vm_compute. reflexivity. Qed.

Lemma wit_third_appears_lq : run (cfg_now true false 3 false) wit_third_appears
  = [Ok [(10, Some 0); (11, Some 1)]; Raise TypeErr].
Proof. vm_compute. reflexivity. Qed.

Lemma wit_stale_track_fw : run (cfg_now false false 1 false) wit_stale_track
  = [Ok [(10, Some 0); (11, Some 1); (12, Some 2)]; Ok [(21, Some 1); (22, Some 2)]; Raise ValueErr].
Proof. vm_compute. reflexivity. Qed.

(* scoring_reduction = max: get_scores itself raises (greedy matcher, so not the assignment) *)
Lemma wit_stale_track_max : run (cfg_now false true 1 true) (firstn 2 wit_stale_track ++
    [([(30, true); (31, true); (32, true)], [], AFail)])
  = [Ok [(10, Some 0); (11, Some 1); (12, Some 2)]; Ok [(21, Some 1); (22, Some 2)]; Raise ValueErr].
Proof. vm_compute. reflexivity. Qed.

(* with the three repairs the same histories are tracked completely *)
Lemma wit_one_animal_repaired : forall l,
  run (mkConfig l false 3 false true true true) wit_one_animal
  = [Ok [(10, Some 0)]; Ok [(20, Some 0)]; Ok [(30, Some 0)]].
Proof. destruct l; vm_compute; reflexivity. Qed.

Lemma wit_third_appears_repaired : run (mkConfig true false 3 false true true true) wit_third_appears
  = [Ok [(10, Some 0); (11, Some 1)]; Ok [(20, Some 0); (21, Some 1); (22, Some 2)]].
Proof. vm_compute. reflexivity. Qed.

(* --- the witnesses' answers satisfy the (unrepaired) Hungarian contract --- *)

Lemma qsum_le_bound : forall (l : list Q) (b : Q),
  Forall (fun x => (x <= b)%Q) l -> (qsum l <= inject_Z (Z.of_nat (length l)) * b)%Q.
Proof.
  induction l as [|x l IH]; intros b H.
  - simpl. unfold Qle; simpl; lia.
  - inversion H; subst. specialize (IH b H3).
    change (qsum (x :: l)) with (x + qsum l)%Q.
    replace (Z.of_nat (length (x :: l))) with (1 + Z.of_nat (length l))%Z by (simpl length; lia).
    rewrite inject_Z_plus. 
    setoid_replace ((inject_Z 1 + inject_Z (Z.of_nat (length l))) * b)%Q
      with (b + inject_Z (Z.of_nat (length l)) * b)%Q by ring.
    apply Qplus_le_compat; auto.
Qed.

Lemma tot_le_bound : forall M p b, (forall r c, (cellQ M (r, c) <= b)%Q) ->
  (tot M p <= inject_Z (Z.of_nat (length p)) * b)%Q.
Proof.
  intros M p b H. unfold tot.
  replace (length p) with (length (map (cellQ M) p)) by apply map_length.
  apply qsum_le_bound. apply Forall_forall. intros x Hx.
  apply in_map_iff in Hx. destruct Hx as [[r c] [<- _]]. apply H.
Qed.

Lemma nth_nil : forall A (d : A) n, nth n [] d = d.
Proof. destruct n; reflexivity. Qed.

Lemma contract_1x1 : forall s, hungarian_contract false [[Some s]] 1 1 (APairs [(0, 0)]).
Proof.
  intros s. split; [apply matching_single; lia|]. split; [|split; [reflexivity|]].
  - intros r c [E|[]]. inversion E; subst. discriminate.
  - intros q (_ & _ & Rr & Rc) _ L.
    destruct q as [|[r c] [|? ?]]; simpl in L; try discriminate.
    assert (r = 0) by (specialize (Rr r (or_introl eq_refl)); lia).
    assert (c = 0) by (specialize (Rc c (or_introl eq_refl)); lia).
    subst. apply Qle_refl.
Qed.

Lemma contract_third : 
  hungarian_contract false [[Q1; Q0]; [Q0; Q1]; [Q0; Q0]] 3 2 (APairs [(0, 0); (1, 1)]).
Proof.
  split; [|split; [|split; [reflexivity|]]].
  - repeat split; simpl; try (repeat constructor; simpl; intuition lia); intros x H; intuition lia.
  - intros r c [E|[E|[]]]; inversion E; subst; discriminate.
  - intros q _ _ L. simpl in L.
    eapply Qle_trans; [apply (tot_le_bound _ q 1%Q)|].
    + intros r c. unfold cellQ, cell, Q1, Q0. simpl fst; simpl snd.
      destruct r as [|[|[|r]]]; destruct c as [|[|c]]; simpl;
        repeat match goal with |- context [match ?x with O => _ | S _ => _ end] => destruct x end;
        unfold Qle; simpl; lia.
    + rewrite L. vm_compute. discriminate.
Qed.

Lemma contract_stale_1 :
  hungarian_contract false [[Q0; Q1; Q0]; [Q0; Q0; Q1]] 2 3 (APairs [(0, 1); (1, 2)]).
Proof.
  split; [|split; [|split; [reflexivity|]]].
  - repeat split; simpl; try (repeat constructor; simpl; intuition lia); intros x H; intuition lia.
  - intros r c [E|[E|[]]]; inversion E; subst; discriminate.
  - intros q _ _ L. simpl in L.
    eapply Qle_trans; [apply (tot_le_bound _ q 1%Q)|].
    + intros r c. unfold cellQ, cell, Q1, Q0. simpl fst; simpl snd.
      destruct r as [|[|r]]; destruct c as [|[|[|c]]]; simpl;
        repeat match goal with |- context [match ?x with O => _ | S _ => _ end] => destruct x end;
        unfold Qle; simpl; lia.
    + rewrite L. vm_compute. discriminate.
Qed.

(* a column that is NaN for every detection makes a square matrix infeasible *)
Lemma contract_stale_2 :
  hungarian_contract false [[None; Q0; Q0]; [None; Q1; Q0]; [None; Q0; Q1]] 3 3 AFail.
Proof.
  split; [reflexivity|]. intros q (NDr & NDc & Rr & Rc) Fin L. simpl in L.
  assert (I0 : In 0 (map snd q)).
  { apply (NoDup_length_incl NDc (l' := seq 0 3)).
    - rewrite map_length, L. simpl. lia.
    - intros c Hc. apply in_seq. specialize (Rc c Hc). lia.
    - simpl. auto. }
  apply in_map_iff in I0. destruct I0 as [[r c] [E Hq]]. simpl in E. subst c.
  specialize (Fin r 0 Hq). specialize (Rr r (in_map fst _ _ Hq)). simpl in Rr.
  apply Fin. unfold cell.
  destruct r as [|[|[|r]]]; simpl; auto; lia.
Qed.

Ltac trace_contract_loop :=
  first [ apply Forall_nil
        | apply Forall_cons;
          [ unfold contract_step, answer_used, matcher_contract; simpl;
            let U := fresh "U" in intros U; try discriminate U
          | trace_contract_loop ] ].

Ltac trace_contract :=
  match goal with
  | |- Forall _ ?t => let t' := eval vm_compute in t in change t with t'
  end;
  trace_contract_loop.

Lemma wit_one_animal_contract : forall l,
  Forall (contract_step (cfg_now l false 3 false)) (trace (cfg_now l false 3 false) init wit_one_animal).
Proof.
  destruct l; trace_contract; apply contract_1x1.
Qed.

Lemma wit_third_appears_contract :
  Forall (contract_step (cfg_now true false 3 false))
         (trace (cfg_now true false 3 false) init wit_third_appears).
Proof. trace_contract. apply contract_third. Qed.

Lemma wit_stale_track_contract :
  Forall (contract_step (cfg_now false false 1 false))
         (trace (cfg_now false false 1 false) init wit_stale_track).
Proof. trace_contract; [apply contract_stale_1 | apply contract_stale_2]. Qed.

(* --- refutations on the pinned (historic) tree --- *)

Lemma completeness_refuted_now : forall l,
  let cfg := cfg_now l false 3 false in
  Forall (contract_step cfg) (trace cfg init wit_one_animal) /\
  ~ Forall ok_complete (trace cfg init wit_one_animal).
Proof.
  intros l cfg. split; [apply wit_one_animal_contract|].
  intros H. subst cfg.
  assert (K : exists x, In x (trace (cfg_now l false 3 false) init wit_one_animal) /\
                        f_dets (t_frame x) = [(20, true)] /\
                        (t_out x = Ok [] \/ t_out x = Ok [(20, None)])).
  { destruct l; vm_compute; eexists; (split; [right; left; reflexivity|]); split; auto. }
  destruct K as (x & Hx & Hd & Ho).
  rewrite Forall_forall in H. destruct (H x Hx) as (out & Eo & Hc).
  rewrite Hd in Hc. destruct (Hc 20 (or_introl eq_refl)) as [t Ht].
  destruct Ho as [Ho|Ho]; rewrite Ho in Eo; inversion Eo; subst out; simpl in Ht.
  - destruct Ht.
  - destruct Ht as [E|[]]. discriminate.
Qed.

Lemma type_error_refuted_now :
  let cfg := cfg_now true false 3 false in
  Forall (contract_step cfg) (trace cfg init wit_third_appears) /\
  In (Raise TypeErr) (run cfg wit_third_appears).
Proof.
  split; [apply wit_third_appears_contract|]. rewrite wit_third_appears_lq. simpl; auto.
Qed.

Lemma value_error_refuted_now :
  let cfg := cfg_now false false 1 false in
  Forall (contract_step cfg) (trace cfg init wit_stale_track) /\
  In (Raise ValueErr) (run cfg wit_stale_track).
Proof.
  split; [apply wit_stale_track_contract|]. rewrite wit_stale_track_fw. simpl; auto.
Qed.

(* unfolding lemmas used to restate the definitions in Props.v *)
Lemma complete_unfold : forall ds out,
  complete ds out = (forall u, In (u, true) ds -> exists t, In (u, Some t) out).
Proof. reflexivity. Qed.

(* ====================================================================== *)
(* F4(iii) as a selector: without a track lacking candidates no ValueError
   can occur (the matrix is all finite, so an assignment of full size exists) *)

Definition nan_step (cfg : config) (x : state * frame * outcome) : Prop :=
  answer_used cfg (t_state x) (t_frame x) = true ->
  nan_consistent cfg (t_state x) (length (f_dets (t_frame x))) (f_matrix (t_frame x)) = true.

Definition diag (k : nat) : pairs := map (fun i => (i, i)) (seq 0 k).

Lemma diag_fst : forall k, map fst (diag k) = seq 0 k.
Proof. intros. unfold diag. rewrite map_map. simpl. apply map_id. Qed.

Lemma diag_snd : forall k, map snd (diag k) = seq 0 k.
Proof. intros. unfold diag. rewrite map_map. simpl. apply map_id. Qed.

Lemma diag_matching : forall n m, matching n m (diag (Nat.min n m)).
Proof.
  intros n m. unfold matching. rewrite diag_fst, diag_snd.
  repeat split; try apply seq_NoDup; intros x Hx; apply in_seq in Hx; lia.
Qed.

Lemma no_stale_all_finite : forall cfg st n M,
  cur st = seq 0 (length (cur st)) ->
  sel_F4iii cfg st = false -> nan_consistent cfg st n M = true ->
  forall r c, r < n -> c < length (cur st) -> cell M r c <> None.
Proof.
  intros cfg st n M Hc S N r c Hr Hcm.
  unfold sel_F4iii in S. apply negb_false_iff in S. rewrite forallb_forall in S.
  unfold nan_consistent in N. rewrite forallb_forall in N.
  assert (Ic : In c (cur st)) by (rewrite Hc; apply in_seq; lia).
  assert (K := N r (proj2 (in_seq _ _ _) (conj (Nat.le_0_l r) Hr))).
  rewrite forallb_forall in K. specialize (K c Ic). rewrite (S c Ic) in K. simpl in K.
  destruct (cell M r c); [discriminate | discriminate K].
Qed.

Lemma no_stale_no_defect : forall cfg st f o,
  Inv cfg st -> contract_step cfg (st, f, o) -> nan_step cfg (st, f, o) ->
  (fix_iii cfg = true \/ sel_F4iii cfg st = false) ->
  (is_init cfg st = false ->
   exists p, (scores_raise cfg st (length (f_dets f)) = false -> f_answer f = APairs p) /\
     (fix_i cfg = true \/ sel_F4i p = false) /\
     (fix_ii cfg = true \/ sel_F4ii cfg (length (f_dets f)) p = false)) ->
  (fix_iii cfg = false -> finite_step cfg (st, f, o)) /\ no_defect_fires cfg (st, f, o).
Proof.
  intros cfg st f o [Hc _] C N S3 S12.
  unfold contract_step, nan_step, finite_step, no_defect_fires, quirk_free, t_state, t_frame in *.
  simpl fst in *. simpl snd in *.
  split.
  - intros F3 _ _ F3'. congruence.
  - intros Ei. destruct (S12 Ei) as (p & Ea & S1 & S2).
    assert (Er : scores_raise cfg st (length (f_dets f)) = false).
    { unfold scores_raise. destruct S3 as [F3|S3].
      - rewrite F3. destruct (red_max cfg); reflexivity.
      - unfold sel_F4iii in S3. apply negb_false_iff in S3. rewrite S3.
        rewrite !andb_false_r. reflexivity. }
    split; auto. exists p. split; auto.
Qed.

(* the Hungarian matcher cannot fail when no track lacks candidates *)
Lemma no_stale_hungarian_answers : forall cfg st n M a,
  cur st = seq 0 (length (cur st)) ->
  sel_F4iii cfg st = false -> nan_consistent cfg st n M = true ->
  hungarian_contract false M n (length (cur st)) a -> a <> AFail.
Proof.
  intros cfg st n M a Hc S N H ->. destruct H as [_ H].
  apply (H (diag (Nat.min n (length (cur st))))).
  - apply diag_matching.
  - intros r c K. unfold diag in K. apply in_map_iff in K. destruct K as [i [E Hi]].
    inversion E; subst. apply in_seq in Hi.
    eapply no_stale_all_finite; eauto; lia.
  - unfold diag. rewrite map_length, seq_length. reflexivity.
Qed.

Lemma no_stale_some_finite : forall cfg st n M,
  cur st = seq 0 (length (cur st)) ->
  sel_F4iii cfg st = false -> nan_consistent cfg st n M = true ->
  some_finite M n (length (cur st)).
Proof.
  intros cfg st n M Hc S N Hn Hm. exists 0, 0. repeat split; auto.
  eapply no_stale_all_finite; eauto.
Qed.

(* the three selectors, exactly *)
Definition selectors_silent (cfg : config) (x : state * frame * outcome) : Prop :=
  is_init cfg (t_state x) = false ->
  (fix_iii cfg = true \/ sel_F4iii cfg (t_state x) = false) /\
  forall p, f_answer (t_frame x) = APairs p ->
    (fix_i cfg = true \/ sel_F4i p = false) /\
    (fix_ii cfg = true \/ sel_F4ii cfg (length (f_dets (t_frame x))) p = false).

Lemma Forall_and4 : forall A (P Q R S : A -> Prop) l,
  Forall P l -> Forall Q l -> Forall R l -> Forall S l -> Forall (fun x => P x /\ Q x /\ R x /\ S x) l.
Proof.
  induction l; intros HP HQ HR HS; constructor;
    inversion HP; inversion HQ; inversion HR; inversion HS; subst; auto.
Qed.

Theorem complete_no_raise_selectors : forall cfg h,
  Forall (contract_step cfg) (trace cfg init h) ->
  Forall (nan_step cfg) (trace cfg init h) ->
  Forall (finite_step cfg) (trace cfg init h) ->
  Forall (selectors_silent cfg) (trace cfg init h) ->
  Forall ok_complete (trace cfg init h) /\ length (run cfg h) = length h.
Proof.
  intros cfg h H1 H2 H3 H4.
  assert (F : Forall ok_complete (trace cfg init h)).
  { apply (trace_induct cfg (Inv cfg)
             (fun x => contract_step cfg x /\ nan_step cfg x /\ finite_step cfg x /\ selectors_silent cfg x));
      [|apply Inv_init|apply Forall_and4; auto].
    intros st f Hi (C & N & Fi & Sel).
    pose proof (step_spec cfg st f Hi (contract_valid _ _ _ _ C)) as (I1 & _).
    split; auto.
    assert (Q : quirk_free cfg st f).
    { intros Ei. destruct (Sel Ei) as [S3 S12].
      unfold t_state, t_frame in *. simpl fst in *. simpl snd in *.
      assert (Er : scores_raise cfg st (length (f_dets f)) = false).
      { unfold scores_raise. destruct S3 as [F3|S3].
        - rewrite F3. destruct (red_max cfg); reflexivity.
        - unfold sel_F4iii in S3. apply negb_false_iff in S3. rewrite S3.
          rewrite !andb_false_r. reflexivity. }
      split; auto.
      assert (U : answer_used cfg st f = true) by (unfold answer_used; rewrite Ei, Er; reflexivity).
      specialize (C U). specialize (N U). unfold t_state, t_frame in C, N. simpl fst in C, N. simpl snd in C, N.
      destruct (f_answer f) as [|p] eqn:Ea.
      - exfalso. unfold matcher_contract in C. destruct (greedy cfg) eqn:G.
        + destruct C as (p & E & _). discriminate.
        + destruct S3 as [F3|S3].
          * rewrite F3 in C. destruct C; discriminate.
          * destruct (fix_iii cfg) eqn:F3; [destruct C; discriminate|].
            destruct Hi as [Hc _].
            eapply no_stale_hungarian_answers; eauto.
      - exists p. split; auto. }
    destruct (step_complete cfg st f Hi (contract_valid _ _ _ _ C)
                (contract_nonempty _ _ _ _ C Fi) Q) as (out & Ho & Hc).
    exists out. split; auto. }
  split; auto.
  unfold run. rewrite run_trace, map_length. apply trace_all_ok_length.
  eapply Forall_impl; [|exact F]. intros x (out & Ho & _). eauto.
Qed.
