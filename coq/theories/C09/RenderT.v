(* RenderT.v (C09/C10) — JSON renderers for the tracker model's results
   (used only by the correspondence harness; nothing is proved about them). *)
From Coq Require Import List String ZArith QArith.
From SV Require Import Base.Render C09.Tracker.
Import ListNotations.
Open Scope string_scope.

Definition rerrk (k : errkind) : rdr :=
  rquoted (match k with TypeErr => "TypeError" | ValueErr => "ValueError" | ExcErr => "Exception" end).

Definition routcome (o : outcome) : rdr :=
  match o with
  | Ok out => rpair rquoted (rlist (rpair rnat (ropt rnat))) ("ok", out)
  | Raise k => rpair rquoted rerrk ("raise", k)
  end.

Definition rpairs (p : pairs) : rdr := rlist (rpair rnat rnat) p.

Definition ranswer (a : answer) : rdr :=
  match a with AFail => rstr "null" | APairs p => rpairs p end.

Definition rresult (r : result) : rdr :=
  match r with
  | RRun l n => rpair (rlist (rtriple routcome (rlist rbool) (rlist (rlist rnat)))) rnat (l, n)
  | RMatch h t g ok iok => rpair (rpair ranswer (ropt rQ)) (rtriple rpairs rbool rbool) ((h, t), (g, ok, iok))
  end.
