(* HungarianAll.v (C09) — the brute-force Hungarian reference for ALL matrices.

   Tracker.v specifies utils.hungarian_matching by a contract (Lemmas.v,
   `hungarian_contract`) and carries an executable brute-force reference
   `hungarian_ref` (all injections of the smaller side into the larger one, the
   all-finite one of the largest total score, or failure).  Until now "the
   reference meets the contract" was only sampled by the harness
   (check_matchers compares scipy's answers with it).  Here, for EVERY matrix M
   (any shape, ragged rows, NaN cells = None) and every n, m:
     hungarian_contract false M n m (hungarian_ref M n m)
   i.e. an answer is one-to-one, inside the matrix, uses no NaN (= +inf cost)
   cell, has size min(n,m) and a total score no assignment of that kind beats —
   compared with ALL assignments, not only the enumerated ones; and the
   reference fails exactly when no all-finite assignment of size min(n,m)
   exists.  Whenever it answers, the answer also meets the repaired contract
   (`hungarian_contract true`) and `valid_ans`.
   Closed under the global context. *)
From Coq Require Import List Arith Bool ZArith QArith Lia Permutation.
Import ListNotations.
From SV Require Import C09.Tracker C09.Lemmas C09.TrackerX C09.LemmasX C09.LemmasR C09.GreedyAll.
Close Scope Q_scope.
Open Scope nat_scope.

(* ---------------------------------------------------------------------- *)
(* injections k l = exactly the duplicate-free lists of length k over 0..l-1 *)

Lemma in_injections : forall k l t,
  In t (injections k l) <-> length t = k /\ NoDup t /\ (forall x, In x t -> x < l).
Proof.
  induction k as [|k IH]; intros l t.
  - simpl. split.
    + intros [<-|[]]. split; [reflexivity|]. split; [constructor|]. intros x [].
    + intros (L & _ & _). destruct t; [left; reflexivity | discriminate].
  - cbn [injections]. rewrite in_flat_map. split.
    + intros (t' & Ht' & Hin). apply in_map_iff in Hin. destruct Hin as (x & <- & Hx).
      apply filter_In in Hx. destruct Hx as [Hx Hn]. apply in_seq in Hx.
      apply negb_true_iff in Hn. apply memb_false in Hn.
      apply IH in Ht'. destruct Ht' as (L & ND & B).
      split; [simpl; congruence|]. split; [constructor; auto|].
      intros y [<-|Hy]; [lia | auto].
    + intros (L & ND & B). destruct t as [|x t']; [discriminate|].
      exists t'. inversion ND; subst. split.
      * apply IH. split; [simpl in L; lia|]. split; auto. intros y Hy. apply B. right; auto.
      * apply in_map_iff. exists x. split; auto. apply filter_In. split.
        -- apply in_seq. specialize (B x (or_introl eq_refl)). lia.
        -- apply negb_true_iff. apply memb_false. auto.
Qed.

(* ---------------------------------------------------------------------- *)
(* combine / swap / lookup *)

Lemma map_fst_combine : forall (A B : Type) (a : list A) (b : list B),
  length a = length b -> map fst (combine a b) = a.
Proof.
  induction a as [|x a IH]; intros [|y b] L; simpl in *; try reflexivity; try discriminate.
  f_equal. apply IH. lia.
Qed.

Lemma map_snd_combine : forall (A B : Type) (a : list A) (b : list B),
  length a = length b -> map snd (combine a b) = b.
Proof.
  induction a as [|x a IH]; intros [|y b] L; simpl in *; try reflexivity; try discriminate.
  f_equal. apply IH. lia.
Qed.

Lemma combine_map_self : forall (A B : Type) (f : A -> B) (l : list A),
  combine l (map f l) = map (fun x => (x, f x)) l.
Proof. induction l as [|x l IH]; simpl; [reflexivity | rewrite IH; reflexivity]. Qed.

Definition swp (rc : nat * nat) : nat * nat := (snd rc, fst rc).

Lemma combine_swp : forall (a b : list nat), map swp (combine a b) = combine b a.
Proof.
  induction a as [|x a IH]; intros [|y b]; simpl; try reflexivity.
  unfold swp at 1. simpl. rewrite IH. reflexivity.
Qed.

Lemma swp_swp : forall q, map swp (map swp q) = q.
Proof.
  intros q. rewrite map_map. rewrite <- (map_id q) at 2. apply map_ext. intros [r c]. reflexivity.
Qed.

Lemma map_fst_swp : forall q, map fst (map swp q) = map snd q.
Proof. intros q. rewrite map_map. apply map_ext. intros [r c]. reflexivity. Qed.

Lemma map_snd_swp : forall q, map snd (map swp q) = map fst q.
Proof. intros q. rewrite map_map. apply map_ext. intros [r c]. reflexivity. Qed.

Fixpoint lk (q : pairs) (r : nat) : nat :=
  match q with
  | [] => 0
  | (r', c) :: q' => if r' =? r then c else lk q' r
  end.

Lemma lk_in : forall q r, In r (map fst q) -> In (r, lk q r) q.
Proof.
  induction q as [|[r' c] q IH]; intros r H; simpl in *; [contradiction|].
  destruct (Nat.eqb_spec r' r) as [E|E]; [subst; left; reflexivity|].
  destruct H as [H|H]; [contradiction|]. right. apply IH. exact H.
Qed.

(* a one-to-one assignment that uses all k rows is, up to order, the assignment
   "row i -> t_i" of an injection t of 0..k-1 into 0..l-1 *)
Lemma full_rows_perm : forall k l (q : pairs),
  NoDup (map fst q) -> NoDup (map snd q) ->
  (forall r, In r (map fst q) -> r < k) -> (forall c, In c (map snd q) -> c < l) ->
  length q = k ->
  exists t, In t (injections k l) /\ Permutation (combine (seq 0 k) t) q.
Proof.
  intros k l q NDr NDc Rr Rc L.
  set (t := map (lk q) (seq 0 k)). exists t.
  assert (Lt : length (seq 0 k) = length t) by (unfold t; rewrite map_length; reflexivity).
  assert (P : Permutation (combine (seq 0 k) t) q).
  { unfold t. rewrite combine_map_self.
    apply NoDup_Permutation_bis.
    - apply (NoDup_map_inv fst). rewrite map_map. cbn [fst]. rewrite map_id. apply seq_NoDup.
    - rewrite map_length, seq_length. lia.
    - intros [r c] H. apply in_map_iff in H. destruct H as (x & E & Hx).
      injection E as E1 E2. subst r c. apply lk_in. apply in_seq in Hx.
      apply (all_rows_used k (map fst q)); auto; [rewrite map_length; lia | lia]. }
  split; [|exact P].
  pose proof (map_snd_combine _ _ (seq 0 k) t Lt) as E.
  apply in_injections. split; [unfold t; rewrite map_length, seq_length; reflexivity|]. split.
  - rewrite <- E. eapply Permutation_NoDup; [|exact NDc].
    apply Permutation_map. apply Permutation_sym. exact P.
  - intros x Hx. rewrite <- E in Hx. apply Rc.
    eapply Permutation_in; [apply (Permutation_map snd P) | exact Hx].
Qed.

(* ---------------------------------------------------------------------- *)
(* full_matchings n m = exactly (up to the order of the pairs) the one-to-one
   assignments of size min(n,m) inside the n x m matrix *)

Lemma full_matchings_sound : forall n m p,
  In p (full_matchings n m) -> matching n m p /\ length p = Nat.min n m.
Proof.
  intros n m p. unfold full_matchings. destruct (n <=? m) eqn:E.
  - apply Nat.leb_le in E. intros H. apply in_map_iff in H. destruct H as (cols & <- & Hc).
    apply in_injections in Hc. destruct Hc as (L & ND & B).
    assert (LL : length (seq 0 n) = length cols) by (rewrite seq_length; auto).
    unfold matching. rewrite (map_fst_combine _ _ _ _ LL), (map_snd_combine _ _ _ _ LL).
    split; [split; [apply seq_NoDup|]; split; [exact ND|]; split;
            [intros r Hr; apply in_seq in Hr; lia | exact B]|].
    rewrite combine_length, seq_length, L. lia.
  - apply Nat.leb_gt in E. intros H. apply in_map_iff in H. destruct H as (rows & <- & Hc).
    apply in_injections in Hc. destruct Hc as (L & ND & B).
    assert (LL : length rows = length (seq 0 m)) by (rewrite seq_length; auto).
    unfold matching. rewrite (map_fst_combine _ _ _ _ LL), (map_snd_combine _ _ _ _ LL).
    split; [split; [exact ND|]; split; [apply seq_NoDup|]; split;
            [exact B | intros r Hr; apply in_seq in Hr; lia]|].
    rewrite combine_length, seq_length, L. lia.
Qed.

Lemma full_matchings_complete : forall n m q,
  matching n m q -> length q = Nat.min n m ->
  exists p, In p (full_matchings n m) /\ Permutation p q.
Proof.
  intros n m q (NDr & NDc & Rr & Rc) L. unfold full_matchings. destruct (n <=? m) eqn:E.
  - apply Nat.leb_le in E. rewrite Nat.min_l in L by exact E.
    destruct (full_rows_perm n m q NDr NDc Rr Rc L) as (t & Ht & P).
    exists (combine (seq 0 n) t). split; [|exact P].
    apply in_map_iff. exists t. split; auto.
  - apply Nat.leb_gt in E. rewrite Nat.min_r in L by lia.
    destruct (full_rows_perm m n (map swp q)) as (t & Ht & P).
    + rewrite map_fst_swp. exact NDc.
    + rewrite map_snd_swp. exact NDr.
    + rewrite map_fst_swp. exact Rc.
    + rewrite map_snd_swp. exact Rr.
    + rewrite map_length. exact L.
    + exists (combine t (seq 0 m)). split.
      * apply in_map_iff. exists t. split; auto.
      * rewrite <- combine_swp. rewrite <- (swp_swp q). apply Permutation_map. exact P.
Qed.

Lemma matching_length_le : forall n m q, matching n m q -> length q <= Nat.min n m.
Proof.
  intros n m q (NDr & NDc & Rr & Rc).
  assert (A : length (map fst q) <= length (seq 0 n)).
  { apply NoDup_incl_length; auto. intros x Hx. apply in_seq. specialize (Rr x Hx). lia. }
  assert (B : length (map snd q) <= length (seq 0 m)).
  { apply NoDup_incl_length; auto. intros x Hx. apply in_seq. specialize (Rc x Hx). lia. }
  rewrite map_length, seq_length in A, B. lia.
Qed.

(* ---------------------------------------------------------------------- *)
(* `total` (executable, None = a NaN cell) vs `tot` / `finite_on` (contract) *)

Lemma tot_cons : forall M r c p x, cell M r c = Some x -> tot M ((r, c) :: p) = (x + tot M p)%Q.
Proof.
  intros M r c p x E. unfold tot, qsum. cbn [map fold_right]. unfold cellQ at 1. cbn [fst snd].
  rewrite E. reflexivity.
Qed.

Lemma total_spec : forall M p t, total M p = Some t -> finite_on M p /\ t = tot M p.
Proof.
  intros M. induction p as [|[r c] p IH]; intros t H.
  - simpl in H. inversion H. split; [intros ? ? [] | reflexivity].
  - cbn [total] in H. revert H.
    destruct (cell M r c) as [x|] eqn:Ec; [|discriminate].
    destruct (total M p) as [y|] eqn:Et; [|discriminate]. intros H. inversion H; subst.
    destruct (IH y eq_refl) as [F ->]. split.
    + intros r' c' [E|Hin]; [inversion E; subst; congruence | apply F; auto].
    + symmetry. apply tot_cons. exact Ec.
Qed.

Lemma total_finite : forall M p, finite_on M p -> total M p = Some (tot M p).
Proof.
  intros M. induction p as [|[r c] p IH]; intros F; [reflexivity|].
  cbn [total]. destruct (cell M r c) as [x|] eqn:Ec.
  - rewrite IH by (intros r' c' H; apply F; right; exact H).
    rewrite (tot_cons M r c p x Ec). reflexivity.
  - exfalso. apply (F r c); [left; reflexivity | exact Ec].
Qed.

Lemma tot_perm : forall M p q, Permutation p q -> (tot M p == tot M q)%Q.
Proof.
  intros M p q P. unfold tot, qsum. induction P; cbn [map fold_right].
  - reflexivity.
  - rewrite IHP. reflexivity.
  - ring.
  - rewrite IHP1. exact IHP2.
Qed.

Lemma finite_on_perm : forall M p q, Permutation p q -> finite_on M p -> finite_on M q.
Proof.
  intros M p q P F r c H. apply F. eapply Permutation_in; [apply Permutation_sym; exact P | exact H].
Qed.

(* ---------------------------------------------------------------------- *)
(* the selection loop of hungarian_ref *)

Definition hstep (M : matrix) (acc : option (Q * pairs)) (p : pairs) : option (Q * pairs) :=
  match total M p, acc with
  | None, _ => acc
  | Some t, None => Some (t, p)
  | Some t, Some (tb, pb) => if Qle_bool t tb then acc else Some (t, p)
  end.

Lemma hungarian_ref_fold : forall M n m,
  hungarian_ref M n m =
  match fold_left (hstep M) (full_matchings n m) None with
  | None => AFail
  | Some (_, p) => APairs p
  end.
Proof. reflexivity. Qed.

Lemma hstep_some : forall M t0 p0 x,
  hstep M (Some (t0, p0)) x =
  match total M x with
  | None => Some (t0, p0)
  | Some tx => if Qle_bool tx t0 then Some (t0, p0) else Some (tx, x)
  end.
Proof. intros. unfold hstep. destruct (total M x); reflexivity. Qed.

Lemma hstep_none : forall M x,
  hstep M None x = match total M x with None => None | Some tx => Some (tx, x) end.
Proof. intros. unfold hstep. destruct (total M x); reflexivity. Qed.

Lemma hfold_some : forall M L t0 p0,
  exists t p, fold_left (hstep M) L (Some (t0, p0)) = Some (t, p) /\
    ((t, p) = (t0, p0) \/ (In p L /\ total M p = Some t)) /\
    (t0 <= t)%Q /\
    forall q tq, In q L -> total M q = Some tq -> (tq <= t)%Q.
Proof.
  intros M. induction L as [|x L IH]; intros t0 p0.
  - exists t0, p0. split; [reflexivity|]. split; [left; reflexivity|]. split; [apply Qle_refl|].
    intros q tq [].
  - cbn [fold_left]. rewrite hstep_some. destruct (total M x) as [tx|] eqn:Ex.
    + destruct (Qle_bool tx t0) eqn:El.
      * apply Qle_bool_iff in El.
        destruct (IH t0 p0) as (t & p & Ef & Hor & Hle & Hall). exists t, p.
        split; [exact Ef|]. split.
        { destruct Hor as [Hor|[Hin Ht]]; [left; exact Hor | right; split; [right; exact Hin | exact Ht]]. }
        split; [exact Hle|].
        intros q tq [<-|Hq] Hq2.
        { rewrite Ex in Hq2. inversion Hq2; subst. eapply Qle_trans; eauto. }
        { eapply Hall; eauto. }
      * assert (Hlt : (t0 < tx)%Q).
        { apply Qnot_le_lt. intro K. apply Qle_bool_iff in K. congruence. }
        destruct (IH tx x) as (t & p & Ef & Hor & Hle & Hall). exists t, p.
        split; [exact Ef|]. split.
        { right. destruct Hor as [Hor|[Hin Ht]].
          - inversion Hor; subst. split; [left; reflexivity | exact Ex].
          - split; [right; exact Hin | exact Ht]. }
        split; [eapply Qle_trans; [apply Qlt_le_weak; exact Hlt | exact Hle]|].
        intros q tq [<-|Hq] Hq2.
        { rewrite Ex in Hq2. inversion Hq2; subst. exact Hle. }
        { eapply Hall; eauto. }
    + destruct (IH t0 p0) as (t & p & Ef & Hor & Hle & Hall). exists t, p.
      split; [exact Ef|]. split.
      { destruct Hor as [Hor|[Hin Ht]]; [left; exact Hor | right; split; [right; exact Hin | exact Ht]]. }
      split; [exact Hle|].
      intros q tq [<-|Hq] Hq2; [congruence | eapply Hall; eauto].
Qed.

Lemma hfold_spec : forall M L,
  match fold_left (hstep M) L None with
  | None => forall q, In q L -> total M q = None
  | Some (t, p) => In p L /\ total M p = Some t /\
                   forall q tq, In q L -> total M q = Some tq -> (tq <= t)%Q
  end.
Proof.
  intros M. induction L as [|x L IH].
  - simpl. intros q [].
  - cbn [fold_left]. rewrite hstep_none. destruct (total M x) as [tx|] eqn:Ex.
    + destruct (hfold_some M L tx x) as (t & p & -> & Hor & Hle & Hall).
      split; [|split].
      * destruct Hor as [Hor|[Hin _]]; [inversion Hor; left; reflexivity | right; exact Hin].
      * destruct Hor as [Hor|[_ Ht]]; [inversion Hor; subst; exact Ex | exact Ht].
      * intros q tq [<-|Hq] Hq2.
        { rewrite Ex in Hq2. inversion Hq2; subst. exact Hle. }
        { eapply Hall; eauto. }
    + revert IH. destruct (fold_left (hstep M) L None) as [[t p]|]; intros IH.
      * destruct IH as (Hin & Ht & Hall). split; [right; exact Hin|]. split; [exact Ht|].
        intros q tq [<-|Hq] Hq2; [congruence | eapply Hall; eauto].
      * intros q [<-|Hq]; [exact Ex | apply IH; exact Hq].
Qed.

(* ---------------------------------------------------------------------- *)
(* THE REFERENCE MEETS THE HUNGARIAN CONTRACT, for every matrix *)

Theorem hungarian_ref_answer : forall M n m p,
  hungarian_ref M n m = APairs p ->
  In p (full_matchings n m) /\ matching n m p /\ finite_on M p /\ length p = Nat.min n m /\
  forall q, matching n m q -> finite_on M q -> length q = length p -> (tot M q <= tot M p)%Q.
Proof.
  intros M n m p H. rewrite hungarian_ref_fold in H.
  pose proof (hfold_spec M (full_matchings n m)) as S.
  destruct (fold_left (hstep M) (full_matchings n m) None) as [[t p']|]; [|discriminate].
  inversion H; subst p'. destruct S as (Hin & Ht & Hall).
  destruct (full_matchings_sound n m p Hin) as [Mp Lp].
  destruct (total_spec M p t Ht) as [Fp ->].
  split; [exact Hin|]. split; [exact Mp|]. split; [exact Fp|]. split; [exact Lp|].
  intros q Mq Fq Lq. rewrite Lp in Lq.
  destruct (full_matchings_complete n m q Mq Lq) as (p' & Hp' & P).
  assert (Fp' : finite_on M p') by (eapply finite_on_perm; [apply Permutation_sym; exact P | exact Fq]).
  rewrite <- (tot_perm M p' q P).
  apply (Hall p' (tot M p') Hp'). apply total_finite. exact Fp'.
Qed.

Theorem hungarian_ref_fail : forall M n m,
  hungarian_ref M n m = AFail ->
  forall q, matching n m q -> finite_on M q -> length q <> Nat.min n m.
Proof.
  intros M n m H q Mq Fq Lq. rewrite hungarian_ref_fold in H.
  pose proof (hfold_spec M (full_matchings n m)) as S.
  destruct (fold_left (hstep M) (full_matchings n m) None) as [[t p']|]; [discriminate|].
  destruct (full_matchings_complete n m q Mq Lq) as (p' & Hp' & P).
  assert (Fp' : finite_on M p') by (eapply finite_on_perm; [apply Permutation_sym; exact P | exact Fq]).
  specialize (S p' Hp'). rewrite (total_finite M p' Fp') in S. discriminate.
Qed.

(* scipy.optimize.linear_sum_assignment on cost = -score with NaN -> inf (the
   contract the harness checks scipy's answers against) *)
Theorem hungarian_ref_contract : forall M n m,
  hungarian_contract false M n m (hungarian_ref M n m).
Proof.
  intros M n m. destruct (hungarian_ref M n m) as [|p] eqn:E.
  - split; [reflexivity|]. apply hungarian_ref_fail. exact E.
  - destruct (hungarian_ref_answer M n m p E) as (_ & Mp & Fp & Lp & Opt).
    split; [exact Mp|]. split; [exact Fp|]. split; [exact Lp | exact Opt].
Qed.

(* whenever the reference answers, the answer also meets the contract of the
   REPAIRED hungarian_matching (largest all-finite assignment, optimal) *)
Theorem hungarian_ref_contract_repaired : forall M n m p,
  hungarian_ref M n m = APairs p -> hungarian_contract true M n m (APairs p).
Proof.
  intros M n m p E. destruct (hungarian_ref_answer M n m p E) as (_ & Mp & Fp & Lp & Opt).
  split; [exact Mp|]. split; [exact Fp|]. split; [|exact Opt].
  intros q Mq _. rewrite Lp. apply matching_length_le. exact Mq.
Qed.

(* the reference fails EXACTLY when no all-finite assignment of size min(n,m) exists *)
Theorem hungarian_ref_fails_iff : forall M n m,
  hungarian_ref M n m = AFail <->
  ~ exists q, matching n m q /\ finite_on M q /\ length q = Nat.min n m.
Proof.
  intros M n m. split.
  - intros H (q & Mq & Fq & Lq). exact (hungarian_ref_fail M n m H q Mq Fq Lq).
  - intros H. destruct (hungarian_ref M n m) as [|p] eqn:E; [reflexivity|]. exfalso. apply H.
    destruct (hungarian_ref_answer M n m p E) as (_ & Mp & Fp & Lp & _). exists p. auto.
Qed.

(* no NaN cell inside the n x m block: the reference answers *)
Theorem hungarian_ref_defined : forall M n m,
  (forall r c, r < n -> c < m -> cell M r c <> None) -> hungarian_ref M n m <> AFail.
Proof.
  intros M n m F H. apply (hungarian_ref_fail M n m H (diag (Nat.min n m))).
  - apply diag_matching.
  - intros r c K. unfold diag in K. apply in_map_iff in K. destruct K as (i & E & Hi).
    inversion E; subst. apply in_seq in Hi. apply F; lia.
  - unfold diag. rewrite map_length, seq_length. reflexivity.
Qed.

(* the booleans the harness evaluates on answers *)
Theorem hungarian_ref_valid : forall M n m p,
  hungarian_ref M n m = APairs p ->
  matching n m p /\ (p = [] -> n = 0 \/ m = 0) /\ validb n m p = true /\ matchb n m p = true.
Proof.
  intros M n m p E. destruct (hungarian_ref_answer M n m p E) as (_ & Mp & _ & Lp & _).
  assert (B : p = [] -> n = 0 \/ m = 0) by (intros ->; simpl in Lp; lia).
  split; [exact Mp|]. split; [exact B|]. split; [apply validb_intro; auto | apply matchb_matching; exact Mp].
Qed.

(* a call answered by the reference meets the answer contract `valid_ans`
   (premise of c09x_repaired_full_any_matcher), for every state, detections, matrix *)
Theorem hungarian_ref_answer_valid_ans : forall X st ds M o p,
  hungarian_ref M (length ds) (length (cur st)) = APairs p ->
  valid_ans X (st, (ds, M, APairs p), o) /\ valid_ansb X st (ds, M, APairs p) = true.
Proof.
  intros X st ds M o p E.
  assert (V : valid_ans X (st, (ds, M, APairs p), o)).
  { intros _. exists p. split; [reflexivity|].
    unfold t_frame, t_state, f_dets. cbn [fst snd].
    apply (hungarian_ref_valid M _ _ p E). }
  split; [exact V | apply (valid_ansb_spec X st _ o); exact V].
Qed.
