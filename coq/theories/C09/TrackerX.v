(* TrackerX.v (C09, round 2) — the tracker model of C09/Tracker.v WIDENED by the
   options and branches the first model left outside:

     * `max_tracks` of LocalQueueCandidates (get_new_track_id raises
       Exception("Exceeding max tracks") when the id it would hand out is
       > max_tracks; the fixed-window candidates ignore the option),
     * the name checks of Tracker.get_features / get_scores / assign_tracks
       (`features`, `scoring_method`, `scoring_reduction`,
       `track_matching_method` not a key of the tracker's tables -> ValueError
       at a definite point of the call; e.g. the documented but unimplemented
       `features="image"` and `scoring_reduction="weighted"`),
     * FlowShiftTracker: only `update_candidates` differs (the candidates'
       features are recomputed from optical-flow-shifted keypoints); the score
       matrix is an input of the model, so the same state machine covers it.
       What changes is which matrices are REACHABLE: with flow every cell can
       be NaN although every track has a candidate (finding F4iv).

   Two further switches, in the style of fix_i/ii/iii of Tracker.v:

     fix_cap = false : PINNED tree (before fix 6da44fb) — `new id > max_tracks`
                       raises Exception in the middle of add_new_tracks (and
                       max_tracks + 1 tracks can exist: ids 0..max_tracks);
               true  : CURRENT tree (/repo since 6da44fb = proposed_fixes/
                       C09_F4cap.diff) — a new track is created only while
                       `new id < max_tracks`; the detection is otherwise returned
                       without a track.
     fix_iv  = false : PINNED tree (before fix afd312c) — update_tracks does
                       nothing when the matcher returned no pair (every score
                       NaN): detections are dropped (fixed window) / returned
                       without track (local queues), no new track is created;
               true  : CURRENT tree (/repo since afd312c = proposed_fixes/
                       C09_F4iv.diff) — the frame is then treated like a first
                       frame (`else: add_new_tracks(current_instances)`).
   The harness detects which variant the code under test has by replaying the
   corpus witnesses and evaluates `xstep` with those switches; on /repo HEAD all
   five F4 switches are true.  The `false` branches document the historic
   defects and let the check report a regression.

   Definitions only.  `xstep` repeats the structure of `Tracker.step` line by
   line; C09/LemmasX.v proves that it IS `Tracker.step` whenever none of the
   new features is in play (fix_iv = false), and C09/LemmasR.v (`xstep_room`)
   that for ANY fix_cap / fix_iv it is `Tracker.step` on every call that has
   room under the cap and does not take the branch added by afd312c
   (`iv_branch`), so every theorem about `step` carries over to the current
   configuration on those calls. *)
From Coq Require Import List Arith Bool ZArith QArith.
Import ListNotations.
From SV Require Import C09.Tracker.

Record xconfig := mkX {
  base     : config;
  max_tr   : option nat;   (* max_tracks (None = unlimited) *)
  fix_cap  : bool;
  fix_iv   : bool;
  feat_ok  : bool;         (* self.features in self._feature_methods *)
  score_ok : bool;         (* self.scoring_method in self._scoring_functions *)
  red_ok   : bool;         (* self.scoring_reduction in self._scoring_reduction_methods *)
  match_ok : bool }.       (* self.track_matching_method in self._track_matching_methods *)

(* all names valid, no cap, no repair switched on: the configuration space of Tracker.v *)
Definition xplain (cfg : config) : xconfig := mkX cfg None false false true true true true.

Definition names_ok (X : xconfig) : bool := feat_ok X && score_ok X && red_ok X && match_ok X.

(* the cap is read by LocalQueueCandidates only *)
Definition cap_of (X : xconfig) : option nat := if lq (base X) then max_tr X else None.

(* LocalQueueCandidates.get_new_track_id: None = raise Exception("Exceeding max tracks").
   The check sits in the `else` branch: the very first id (0) is never checked. *)
Definition new_id_x (X : xconfig) (c : list nat) : option nat :=
  let id := new_id c in
  match c, cap_of X with
  | _ :: _, Some k => if negb (fix_cap X) && (k <? id) then None else Some id
  | _, _ => Some id
  end.

(* repaired add_new_tracks: `if self.max_tracks is None or new_track_id < self.max_tracks` *)
Definition cap_allows (X : xconfig) (id : nat) : bool :=
  match cap_of X with
  | Some k => negb (fix_cap X) || (id <? k)
  | None => true
  end.

(* add_new_tracks; None = the exception of get_new_track_id escaped *)
Fixpoint add_new_x (X : xconfig) (want : list bool) (tids : list (option nat)) (c : list nat)
  : option (list (option nat) * list nat) :=
  match want, tids with
  | w :: want', t :: tids' =>
      if w then
        match new_id_x X c with
        | None => None
        | Some id =>
            if cap_allows X id then
              match add_new_x X want' tids' (c ++ [id]) with
              | Some (r, c') => Some (Some id :: r, c')
              | None => None
              end
            else
              match add_new_x X want' tids' c with
              | Some (r, c') => Some (t :: r, c')
              | None => None
              end
        end
      else
        match add_new_x X want' tids' c with
        | Some (r, c') => Some (t :: r, c')
        | None => None
        end
  | _, _ => Some (tids, c)
  end.

(* one call of Tracker.track / FlowShiftTracker.track *)
Definition xstep (X : xconfig) (st : state) (f : frame) : state * outcome :=
  let cfg := base X in
  let '(ds, M, ans) := f in
  let n := length ds in
  let none := repeat (@None nat) n in
  let w := window cfg in
  (* self.candidate.add_new_tracks(current_instances) on the untouched frame *)
  let fresh :=
    match add_new_x X (if lq cfg then map snd ds else want_fw ds none) none (cur st) with
    | None => (st, Raise ExcErr)
    | Some (tids, c') =>
        let ut := combine (uids ds) tids in
        let st' :=
          if lq cfg then mkState (fwq st) (lq_append w (lqq st) ut) c'
          else mkState (if length (cur st) <? length c' then push w (fwq st) ut else fwq st) (lqq st) c' in
        (st', Ok (output cfg ds tids))
    end in
  if negb (feat_ok X) then (st, Raise ValueErr)                        (* get_features *)
  else if is_init cfg st then fresh
  else if negb (score_ok X && red_ok X) then (st, Raise ValueErr)      (* get_scores, first lines *)
  else if scores_raise cfg st n then (st, Raise ValueErr)
  else if negb (match_ok X) then (st, Raise ValueErr)                  (* assign_tracks, first lines *)
  else match ans with
  | AFail => (st, Raise ValueErr)
  | APairs p =>
      if guard cfg p then
        let tids0 := assign p none in
        let um := unmatched n p in
        if lq cfg then
          let q1 := lq_append w (lqq st) (combine (uids ds) tids0) in
          if fix_ii cfg then
            match add_new_x X (want_lq ds (map fst p)) tids0 (cur st) with
            | None => (st, Raise ExcErr)
            | Some (tids, c') =>
                let newut := map (fun x : nat * bool * option nat =>
                                   (fst (fst x), if snd (fst x) then snd x else @None nat))
                                 (combine (combine (uids ds) (want_lq ds (map fst p))) tids) in
                (mkState (fwq st) (lq_append w q1 newut) c', Ok (output cfg ds tids))
            end
          else
            match um with
            | [] => (mkState (fwq st) q1 (cur st), Ok (output cfg ds tids0))
            | _ :: _ => (mkState (fwq st) q1 (cur st), Raise TypeErr)
            end
        else
          match (match um with
                 | [] => Some (tids0, cur st)
                 | _ :: _ => add_new_x X (want_fw ds tids0) tids0 (cur st)
                 end) with
          | None => (st, Raise ExcErr)
          | Some (tids, c') =>
              (mkState (push w (fwq st) (combine (uids ds) tids)) (lqq st) c', Ok (output cfg ds tids))
          end
      else if fix_iv X then fresh
      else (st, Ok (output cfg ds none))
  end.

Fixpoint xrun_from (X : xconfig) (st : state) (h : list frame) : list outcome :=
  match h with
  | [] => []
  | f :: r =>
      let '(st', o) := xstep X st f in
      o :: match o with Ok _ => xrun_from X st' r | Raise _ => [] end
  end.

Definition xrun (X : xconfig) (h : list frame) : list outcome := xrun_from X init h.

Fixpoint xtrace (X : xconfig) (st : state) (h : list frame) : list (state * frame * outcome) :=
  match h with
  | [] => []
  | f :: r =>
      let so := xstep X st f in
      (st, f, snd so) :: match snd so with Ok _ => xtrace X (fst so) r | Raise _ => [] end
  end.

(* ---------------------------------------------------------------------- *)
(* selectors of the two new findings (decidable, on a call) *)

Definition count_true (l : list bool) : nat := length (filter (fun b => b) l).

(* number of new tracks the call asks for *)
Definition need (X : xconfig) (st : state) (f : frame) : nat :=
  let cfg := base X in
  let '(ds, M, ans) := f in
  let n := length ds in
  let none := repeat (@None nat) n in
  if is_init cfg st then count_true (if lq cfg then map snd ds else want_fw ds none)
  else match ans with
       | AFail => 0
       | APairs p =>
           if guard cfg p then
             if lq cfg then count_true (want_lq ds (map fst p))
             else count_true (want_fw ds (assign p none))
           else if fix_iv X then count_true (if lq cfg then map snd ds else want_fw ds none) else 0
       end.

(* F4cap: the call needs a track id beyond max_tracks *)
Definition sel_cap (X : xconfig) (st : state) (f : frame) : bool :=
  negb (fix_cap X) &&
  match cap_of X with
  | Some k => (0 <? need X st f) && (k + 1 <? length (cur st) + need X st f)
  | None => false
  end.

(* F4iv: the matcher was consulted on a non-empty matrix and returned no pair
   (Hungarian: every cell NaN) although a detection is above the threshold *)
Definition sel_iv (X : xconfig) (st : state) (f : frame) : bool :=
  let cfg := base X in
  negb (fix_iv X) && negb (is_init cfg st) && negb (scores_raise cfg st (length (f_dets f))) &&
  match f_answer f with
  | APairs [] => existsb snd (f_dets f)
  | _ => false
  end.

(* every cell of the (non-empty) matrix is NaN *)
Definition all_nan (M : matrix) (n m : nat) : bool :=
  forallb (fun r => forallb (fun c => is_none (cell M r c)) (seq 0 m)) (seq 0 n).

(* a one-to-one assignment inside the matrix; empty only if the matrix is empty
   or holds no number at all (the repaired Hungarian matcher then has no pair) *)
Definition matchb (n m : nat) (p : pairs) : bool :=
  nodupb (map fst p) && nodupb (map snd p) &&
  forallb (fun r => r <? n) (map fst p) && forallb (fun c => c <? m) (map snd p).

Definition ans_validx (M : matrix) (n m : nat) (a : answer) : bool :=
  match a with
  | AFail => true
  | APairs p => matchb n m p && (match p with [] => (n =? 0) || (m =? 0) || all_nan M n m | _ => true end)
  end.

(* the premise of C09's operative theorem (`c09x_repaired_full_any_matcher`) at a
   call, as a boolean the harness evaluates inside Coq on every recorded call:
   if the matcher was consulted it returned an answer, and the answer is a
   one-to-one assignment inside the (detections x current tracks) matrix *)
Definition valid_ansb (X : xconfig) (st : state) (f : frame) : bool :=
  is_init (base X) st ||
  match f_answer f with
  | APairs p => matchb (length (f_dets f)) (length (cur st)) p
  | AFail => false
  end.

(* the call takes the branch afd312c added to update_tracks (no pair matched
   although a detection is above the threshold: treat the frame like a first
   frame).  It is the only place where `xstep` with fix_iv = true differs from
   `Tracker.step` (C09/LemmasR.v, xstep_room). *)
Definition iv_branch (X : xconfig) (st : state) (f : frame) : bool :=
  fix_iv X && negb (is_init (base X) st) &&
  negb (scores_raise (base X) st (length (f_dets f))) &&
  match f_answer f with
  | APairs p => negb (guard (base X) p) && existsb snd (f_dets f)
  | AFail => false
  end.

(* room under the cap at a call: the tracks that exist plus the new tracks the
   call asks for do not exceed max_tracks (premise of the conservativity lemma
   `xstep_room` and of C10's identity theorem for the widened tracker) *)
Definition cap_roomb (X : xconfig) (st : state) (f : frame) : bool :=
  match cap_of X with
  | Some k => length (cur st) + need X st f <=? k
  | None => true
  end.

(* ---------------------------------------------------------------------- *)
(* evaluation for the harness: like Tracker.run_checked_from, with the checks
   [scoring; nan pattern; answer valid; greedy run; F4i; F4ii; F4iii; F4cap; F4iv; all_nan;
    valid_ansb; iv_branch; cap_roomb] *)

Definition xscoring (X : xconfig) (st : state) : bool :=
  feat_ok X && negb (is_init (base X) st) && score_ok X && red_ok X.

Definition xstep_checks (X : xconfig) (st : state) (f : frame) : list bool :=
  let cfg := base X in
  let '(ds, M, ans) := f in
  let n := length ds in
  let m := length (cur st) in
  let scoring := xscoring X st in
  let matched := scoring && negb (scores_raise cfg st n) && match_ok X in
  let p := match ans with APairs p => p | AFail => [] end in
  [ scoring;
    negb scoring || scores_raise cfg st n || nan_consistent cfg st n M;
    negb matched || ans_validx M n m ans;
    negb matched || negb (greedy cfg) ||
      match ans with AFail => false | APairs q => greedy_runb M n m [] [] q end;
    matched && sel_F4i p;
    matched && sel_F4ii cfg n p;
    scoring && sel_F4iii cfg st;
    feat_ok X && (negb scoring || matched) && sel_cap X st f;
    matched && sel_iv X st f;
    matched && (0 <? n) && (0 <? m) && all_nan M n m;
    valid_ansb X st f;
    matched && iv_branch X st f;
    cap_roomb X st f ].

Fixpoint xrun_checked_from (X : xconfig) (st : state) (h : list frame)
  : list (outcome * list bool * list (list nat)) :=
  match h with
  | [] => []
  | f :: r =>
      let '(st', o) := xstep X st f in
      (o, xstep_checks X st f, map (cands (base X) st) (cur st))
        :: match o with Ok _ => xrun_checked_from X st' r | Raise _ => [] end
  end.

Fixpoint xfinal_state (X : xconfig) (st : state) (h : list frame) : state :=
  match h with
  | [] => st
  | f :: r => let '(st', o) := xstep X st f in
              match o with Ok _ => xfinal_state X st' r | Raise _ => st' end
  end.

Definition xrun_case (X : xconfig) (h : list frame) : result :=
  RRun (xrun_checked_from X init h) (length (cur (xfinal_state X init h))).
