(* GreedyAll.v (C09) — the greedy matcher for ALL matrices.

   Tracker.v models utils.greedy_matching twice: the recogniser `greedy_runb`
   (exactly the runs the code can return, ties free) and the executable
   reference `greedy_ref` (row-major among equal costs).  Until now "the
   reference is an admissible run" was only sampled by the harness
   (check_matchers).  Here, for EVERY matrix M (any shape, ragged, NaN cells) and
   every n, m:
     greedy_runb M n m [] [] (greedy_ref M n m) = true,
   hence the greedy contract is satisfiable for every matrix, the reference
   answer is a one-to-one assignment inside the matrix (`matching`, `validb`,
   `matchb`), non-empty whenever the matrix is, and a frame answered by it
   meets `valid_ans` — the premise of c09x_repaired_full_any_matcher.
   Closed under the global context. *)
From Coq Require Import List Arith Bool ZArith QArith Lia.
Import ListNotations.
From SV Require Import C09.Tracker C09.Lemmas C09.TrackerX C09.LemmasX C09.LemmasR.
Close Scope Q_scope.
Open Scope nat_scope.

(* cost order on scores: a total preorder *)
Lemma cost_le_refl : forall a, cost_le a a = true.
Proof. intros [x|]; simpl; auto. apply Qle_bool_iff. apply Qle_refl. Qed.

Lemma cost_le_trans : forall a b c, cost_le a b = true -> cost_le b c = true -> cost_le a c = true.
Proof.
  intros [x|] [y|] [z|] H1 H2; simpl in *; auto; try discriminate.
  apply Qle_bool_iff in H1. apply Qle_bool_iff in H2. apply Qle_bool_iff. eapply Qle_trans; eauto.
Qed.

Lemma cost_le_total : forall a b, cost_le a b = false -> cost_le b a = true.
Proof.
  intros [x|] [y|] H; simpl in *; auto; try discriminate.
  apply Qle_bool_iff. destruct (Qlt_le_dec x y) as [L|L].
  - apply Qlt_le_weak. exact L.
  - apply Qle_bool_iff in L. congruence.
Qed.

Definition cle (M : matrix) (b x : nat * nat) : Prop :=
  cost_le (cell M (fst b) (snd b)) (cell M (fst x) (snd x)) = true.

Definition bstep (M : matrix) (acc : option (nat * nat)) (rc : nat * nat) : option (nat * nat) :=
  match acc with
  | None => Some rc
  | Some b => if cost_lt (cell M (fst rc) (snd rc)) (cell M (fst b) (snd b)) then Some rc else Some b
  end.

Lemma best_cell_fold : forall M cs, best_cell M cs = fold_left (bstep M) cs None.
Proof. reflexivity. Qed.

Lemma fold_best_some : forall M cs b0,
  exists b, fold_left (bstep M) cs (Some b0) = Some b /\ (b = b0 \/ In b cs) /\
            cle M b b0 /\ forall x, In x cs -> cle M b x.
Proof.
  intros M. induction cs as [|x cs IH]; intros b0.
  - exists b0. split; [reflexivity|]. split; [left; reflexivity|]. split; [apply cost_le_refl|]. intros ? [].
  - cbn [fold_left bstep].
    destruct (cost_lt (cell M (fst x) (snd x)) (cell M (fst b0) (snd b0))) eqn:E.
    + destruct (IH x) as (b & Eb & Hin & Hbx & Hall). exists b. split; [exact Eb|].
      split; [destruct Hin as [->|Hin]; right; [left; reflexivity | right; exact Hin]|].
      assert (Hx0 : cle M x b0).
      { unfold cle. unfold cost_lt in E. apply negb_true_iff in E. apply cost_le_total. exact E. }
      split; [eapply cost_le_trans; [exact Hbx | exact Hx0]|].
      intros y [<-|Hy]; [exact Hbx | apply Hall; exact Hy].
    + destruct (IH b0) as (b & Eb & Hin & Hb0 & Hall). exists b. split; [exact Eb|].
      split; [destruct Hin as [->|Hin]; [left; reflexivity | right; right; exact Hin]|].
      split; [exact Hb0|].
      assert (H0x : cle M b0 x).
      { unfold cle. unfold cost_lt in E. apply negb_false_iff in E. exact E. }
      intros y [<-|Hy]; [eapply cost_le_trans; [exact Hb0 | exact H0x] | apply Hall; exact Hy].
Qed.

(* best_cell: a cheapest cell of the list; None only on the empty list *)
Lemma best_cell_spec : forall M cs,
  match best_cell M cs with
  | None => cs = []
  | Some b => In b cs /\ forall x, In x cs -> cle M b x
  end.
Proof.
  intros M [|x cs]; [reflexivity|].
  rewrite best_cell_fold. cbn [fold_left bstep].
  destruct (fold_best_some M cs x) as (b & -> & Hin & Hbx & Hall).
  split; [destruct Hin as [->|Hin]; [left; reflexivity | right; exact Hin]|].
  intros y [<-|Hy]; [exact Hbx | apply Hall; exact Hy].
Qed.

Lemma in_cells : forall n m r c, In (r, c) (cells n m) <-> r < n /\ c < m.
Proof.
  intros n m r c. unfold cells. rewrite in_flat_map. split.
  - intros (r' & Hr & Hc). apply in_map_iff in Hc. destruct Hc as (c' & E & Hc). inversion E; subst.
    apply in_seq in Hr. apply in_seq in Hc. lia.
  - intros [Hr Hc]. exists r. split; [apply in_seq; lia|]. apply in_map_iff. exists c. split; auto. apply in_seq. lia.
Qed.

(* cs = the cells whose row and column are still free *)
Definition free_cells (n m : nat) (ur uc : list nat) (cs : list (nat * nat)) : Prop :=
  forall r c, In (r, c) cs <-> r < n /\ c < m /\ ~ In r ur /\ ~ In c uc.

Lemma all_rows_used : forall n ur, NoDup ur -> (forall r, In r ur -> r < n) -> n <= length ur ->
  forall r, r < n -> In r ur.
Proof.
  intros n ur ND Hlt Hlen r Hr.
  apply (NoDup_length_incl ND (l' := seq 0 n)).
  - rewrite seq_length. exact Hlen.
  - intros x Hx. apply in_seq. specialize (Hlt x Hx). lia.
  - apply in_seq. lia.
Qed.

Lemma greedy_ref_from_run : forall M n m fuel ur uc cs,
  free_cells n m ur uc cs -> NoDup ur -> (forall r, In r ur -> r < n) -> n <= fuel + length ur ->
  greedy_runb M n m ur uc (greedy_ref_from fuel M cs) = true.
Proof.
  intros M n m. induction fuel as [|f IH]; intros ur uc cs FC ND Hlt Hlen.
  - cbn [greedy_ref_from greedy_runb]. apply forallb_forall. intros r Hr. apply in_seq in Hr.
    apply forallb_forall. intros c _. apply orb_true_iff. left. apply memb_In.
    apply (all_rows_used n ur ND Hlt); lia.
  - cbn [greedy_ref_from]. pose proof (best_cell_spec M cs) as B.
    destruct (best_cell M cs) as [[r c]|].
    + destruct B as [Hin Hmin]. destruct (proj1 (FC r c) Hin) as (Hr & Hc & Nr & Nc).
      cbn [greedy_runb]. repeat rewrite andb_true_iff. repeat split.
      * apply Nat.ltb_lt. exact Hr.
      * apply Nat.ltb_lt. exact Hc.
      * apply negb_true_iff. apply memb_false. exact Nr.
      * apply negb_true_iff. apply memb_false. exact Nc.
      * apply forallb_forall. intros r' Hr'. apply in_seq in Hr'.
        apply forallb_forall. intros c' Hc'. apply in_seq in Hc'.
        destruct (memb r' ur) eqn:E1; [reflexivity|]. destruct (memb c' uc) eqn:E2; [reflexivity|]. cbn [orb].
        apply memb_false in E1. apply memb_false in E2.
        apply (Hmin (r', c')). apply FC. repeat split; auto; lia.
      * apply IH.
        -- intros r' c'. split.
           ++ intros H. apply filter_In in H. destruct H as [H1 H2]. cbn [fst snd] in H2.
              apply andb_true_iff in H2. destruct H2 as [H2 H3].
              apply negb_true_iff in H2. apply negb_true_iff in H3.
              apply Nat.eqb_neq in H2. apply Nat.eqb_neq in H3.
              destruct (proj1 (FC r' c') H1) as (A1 & A2 & A3 & A4).
              repeat split; auto; simpl; intuition congruence.
           ++ intros (A1 & A2 & A3 & A4). apply filter_In. split.
              ** apply FC. repeat split; auto; intro K; [apply A3 | apply A4]; right; exact K.
              ** cbn [fst snd]. apply andb_true_iff.
                 split; apply negb_true_iff; apply Nat.eqb_neq; intro K; subst;
                   [apply A3 | apply A4]; left; reflexivity.
        -- constructor; auto.
        -- intros x [<-|Hx]; auto.
        -- simpl length. lia.
    + subst cs. cbn [greedy_runb]. apply forallb_forall. intros r Hr. apply in_seq in Hr.
      apply forallb_forall. intros c Hc. apply in_seq in Hc.
      destruct (memb r ur) eqn:E1; [reflexivity|]. destruct (memb c uc) eqn:E2; [reflexivity|]. exfalso.
      apply memb_false in E1. apply memb_false in E2.
      apply (proj2 (FC r c)). repeat split; auto; lia.
Qed.

(* THE REFERENCE IS AN ADMISSIBLE GREEDY RUN, for every matrix *)
Theorem greedy_ref_is_run : forall M n m, greedy_runb M n m [] [] (greedy_ref M n m) = true.
Proof.
  intros M n m. unfold greedy_ref. apply greedy_ref_from_run.
  - intros r c. rewrite in_cells. simpl. tauto.
  - constructor.
  - intros r [].
  - simpl. lia.
Qed.

Theorem greedy_contract_satisfiable : forall M n m, greedy_contract M n m (APairs (greedy_ref M n m)).
Proof. intros M n m. exists (greedy_ref M n m). split; [reflexivity | apply greedy_ref_is_run]. Qed.

Theorem greedy_ref_matching : forall M n m,
  matching n m (greedy_ref M n m) /\
  (greedy_ref M n m = [] -> n = 0 \/ m = 0) /\
  validb n m (greedy_ref M n m) = true /\ matchb n m (greedy_ref M n m) = true.
Proof.
  intros M n m.
  pose proof (greedy_matching_ok M n m _ (greedy_contract_satisfiable M n m)) as A. simpl in A.
  pose proof (greedy_nonempty M n m _ (greedy_contract_satisfiable M n m)) as B.
  split; [exact A|]. split; [exact B|]. split; [apply validb_intro; auto | apply matchb_matching; exact A].
Qed.

(* every admissible greedy run (whatever the tie order numpy chose) is a valid answer *)
Theorem greedy_run_valid : forall M n m p, greedy_runb M n m [] [] p = true ->
  matching n m p /\ (p = [] -> n = 0 \/ m = 0) /\ validb n m p = true /\ matchb n m p = true.
Proof.
  intros M n m p H.
  assert (C : greedy_contract M n m (APairs p)) by (exists p; split; [reflexivity | exact H]).
  pose proof (greedy_matching_ok M n m _ C) as A. simpl in A.
  pose proof (greedy_nonempty M n m _ C) as B.
  split; [exact A|]. split; [exact B|]. split; [apply validb_intro; auto | apply matchb_matching; exact A].
Qed.

(* a call answered by the greedy model meets the answer contract `valid_ans`
   (premise of c09x_repaired_full_any_matcher), for every state, detections, matrix *)
Theorem greedy_answer_valid_ans : forall X st ds M o p,
  greedy_runb M (length ds) (length (cur st)) [] [] p = true ->
  valid_ans X (st, (ds, M, APairs p), o).
Proof.
  intros X st ds M o p H _. exists p. split; [reflexivity|].
  unfold t_frame, t_state, f_dets. cbn [fst snd].
  apply (greedy_run_valid M _ _ p H).
Qed.

Theorem greedy_ref_answer_valid_ans : forall X st ds M o,
  valid_ans X (st, (ds, M, APairs (greedy_ref M (length ds) (length (cur st)))), o) /\
  valid_ansb X st (ds, M, APairs (greedy_ref M (length ds) (length (cur st)))) = true.
Proof.
  intros X st ds M o.
  assert (V : valid_ans X (st, (ds, M, APairs (greedy_ref M (length ds) (length (cur st)))), o))
    by (apply greedy_answer_valid_ans; apply greedy_ref_is_run).
  split; [exact V | apply (valid_ansb_spec X st _ o); exact V].
Qed.
