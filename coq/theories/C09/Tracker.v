(* Tracker.v (C09, also imported by C10) — executable model of
   sleap_nn/tracking/tracker.py (Tracker.track, assign_tracks, scores_to_cost_matrix),
   candidates/fixed_window.py and candidates/local_queues.py
   (add_new_tracks, get_new_track_id, update_tracks, the queues) and
   utils.py (greedy_matching modelled, hungarian_matching = oracle).

   Definitions only, no proofs.  The model is faithful to the PINNED tree,
   including three defects (finding F4), each behind a boolean switch; the
   CURRENT tree (/repo HEAD) has all three repaired (fix commits 0429c9b,
   7f6adbc, 141de51: switches true; detected by the harness on the corpus
   witnesses).  NOTE: the last branch of `step` (the matcher returned no pair:
   nothing happens) is the behaviour BEFORE afd312c; the current code calls
   add_new_tracks there — modelled by TrackerX.xstep with fix_iv = true.
   C09/LemmasR.v (`xstep_room`) proves the two agree on every call that does not
   take that branch with a detection above the threshold (`iv_branch`).

     fix_i   = false : (pinned tree) the guard of update_tracks is
                       `np.any(row_inds) and np.any(col_inds)`  (true iff some
                       matched row index AND some matched column index is
                       non-zero), so a match  row 0 <-> track 0  alone is ignored;
               true  : the guard is `len(row_inds) > 0 and len(col_inds) > 0`.
     fix_ii  = false : local queues call `add_new_tracks(current_instances[ind])`
                       with a non-list: TypeError as soon as a detection is left
                       unmatched;
               true  : `add_new_tracks([current_instances[ind]])`.
     fix_iii = false : a track with no candidate in the window gives
                       `nanmax([])` = ValueError (scoring_reduction = max) or a
                       NaN column -> inf cost -> scipy raises
                       "cost matrix is infeasible" (ValueError);
               true  : the reduction of an empty list is NaN and the Hungarian
                       matcher never fails (it returns a maximum-cardinality
                       finite matching) — see proposed_fixes/C09_F4iii.diff.

   What enters a step from outside (recorded from the implementation by the
   harness and replayed exactly):
     * the detections of the frame: (uid, instance_score > threshold),
     * the SCORE MATRIX returned by Tracker.get_scores (detections x
       current_tracks; None = NaN),
     * the ANSWER of the matching function (row_inds, col_inds) or its failure.
   So every feature/score/reduction combination is covered by the same model;
   the matchers are specified by contracts (below), the Hungarian one is an
   oracle, the greedy one is characterised exactly up to the order in which
   numpy's (unstable) argsort lists equal costs. *)
From Coq Require Import List Arith Bool ZArith QArith.
Import ListNotations.

(* ---------------------------------------------------------------------- *)
(* data *)

Definition det    := (nat * bool)%type.          (* (uid, instance_score > threshold) *)
Definition score  := option Q.                   (* None = NaN *)
Definition matrix := list (list score).          (* rows: detections, columns: track ids *)
Definition pairs  := list (nat * nat).           (* (row, col) in the order returned *)

Inductive answer := AFail | APairs (p : pairs).  (* ValueError | (row_inds, col_inds) *)

Definition frame := (list det * matrix * answer)%type.

Record config := mkConfig {
  lq      : bool;      (* candidates_method = local_queues (else fixed_window) *)
  greedy  : bool;      (* track_matching_method = greedy (else hungarian) *)
  window  : nat;       (* window_size *)
  red_max : bool;      (* scoring_reduction = max (else mean) *)
  fix_i   : bool;
  fix_ii  : bool;
  fix_iii : bool }.

Inductive errkind := TypeErr | ValueErr | ExcErr.   (* TypeError | ValueError | Exception (max_tracks, see TrackerX.v) *)
Inductive outcome := Ok (out : list (nat * option nat)) | Raise (k : errkind).

(* tracker state.  fwq: the deque(maxlen=window) of the fixed-window method,
   oldest first; a remembered frame is the list (uid, track id or None) of its
   instances (the deque holds the TrackInstances object itself, so it sees the
   track ids assigned after it was appended).  lqq: the dict of per-track
   deques of the local-queue method (track id, uids oldest first).
   cur: current_tracks. *)
Record state := mkState {
  fwq : list (list (nat * option nat));
  lqq : list (nat * list nat);
  cur : list nat }.

Definition init : state := mkState [] [] [].

(* ---------------------------------------------------------------------- *)
(* small list helpers *)

Definition uids (ds : list det) : list nat := map fst ds.

Fixpoint memb (x : nat) (l : list nat) : bool :=
  match l with [] => false | y :: t => (x =? y) || memb x t end.

Definition is_none {A} (o : option A) : bool := match o with None => true | Some _ => false end.
Definition is_some {A} (o : option A) : bool := negb (is_none o).

Fixpoint set_nth {A} (i : nat) (x : A) (l : list A) {struct l} : list A :=
  match l, i with
  | [], _ => []
  | _ :: t, O => x :: t
  | y :: t, S j => y :: set_nth j x t
  end.

(* deque(maxlen = w).append: keep the last w elements *)
Definition lastn {A} (w : nat) (l : list A) : list A := skipn (length l - w) l.
Definition push {A} (w : nat) (q : list A) (x : A) : list A := lastn w (q ++ [x]).

(* np.any on an index array: some element is non-zero *)
Definition np_any (l : list nat) : bool := existsb (fun x => negb (x =? 0)) l.

(* get_new_track_id: 0 if current_tracks is empty, else max + 1 *)
Definition new_id (c : list nat) : nat :=
  match c with [] => 0 | _ => S (list_max c) end.

(* the Some-values of a track-id list *)
Fixpoint somes (l : list (option nat)) : list nat :=
  match l with [] => [] | Some t :: r => t :: somes r | None :: r => somes r end.

(* ---------------------------------------------------------------------- *)
(* add_new_tracks: walk the instances in order; where `want` holds, take a new
   id (appended to current_tracks).  want is
     fixed window : score > threshold and track id is None,
     local queues : score > threshold (first frame: all instances; later:
                    the unmatched ones, one call per instance).            *)
Fixpoint add_new (want : list bool) (tids : list (option nat)) (c : list nat)
  : list (option nat) * list nat :=
  match want, tids with
  | w :: want', t :: tids' =>
      if w then
        let id := new_id c in
        let '(r, c') := add_new want' tids' (c ++ [id]) in (Some id :: r, c')
      else
        let '(r, c') := add_new want' tids' c in (t :: r, c')
  | _, _ => (tids, c)
  end.

Definition want_fw (ds : list det) (tids : list (option nat)) : list bool :=
  map (fun dt => snd (fst dt) && is_none (snd dt)) (combine ds tids).

Definition want_lq (ds : list det) (rows : list nat) : list bool :=
  map (fun id => snd (snd id) && negb (memb (fst id) rows)) (combine (seq 0 (length ds)) ds).

(* update_tracks: `track_ids[row] = col` for the matched pairs, in order *)
Fixpoint assign (p : pairs) (tids : list (option nat)) : list (option nat) :=
  match p with
  | [] => tids
  | (r, c) :: p' => assign p' (set_nth r (Some c) tids)
  end.

Definition unmatched (n : nat) (p : pairs) : list nat :=
  filter (fun i => negb (memb i (map fst p))) (seq 0 n).

(* the guard of update_tracks *)
Definition guard (cfg : config) (p : pairs) : bool :=
  if fix_i cfg then (0 <? length p)
  else np_any (map fst p) && np_any (map snd p).

(* ---------------------------------------------------------------------- *)
(* candidates of a track (get_features_from_track_id is non-empty) *)

Definition fw_has (q : list (list (nat * option nat))) (t : nat) : bool :=
  existsb (fun fr => memb t (somes (map snd fr))) q.

Fixpoint lq_get (q : list (nat * list nat)) (t : nat) : list nat :=
  match q with [] => [] | (k, l) :: r => if k =? t then l else lq_get r t end.

Fixpoint lq_set (q : list (nat * list nat)) (t : nat) (l : list nat) : list (nat * list nat) :=
  match q with
  | [] => [(t, l)]
  | (k, l0) :: r => if k =? t then (k, l) :: r else (k, l0) :: lq_set r t l
  end.

Definition has_cand (cfg : config) (st : state) (t : nat) : bool :=
  if lq cfg then negb (match lq_get (lqq st) t with [] => true | _ => false end)
  else fw_has (fwq st) t.

(* the candidates get_features_from_track_id returns for a track, as uids,
   oldest first (fixed window: per remembered frame the first instance carrying
   the track id; local queues: the track's deque) *)
Definition fw_cands (q : list (list (nat * option nat))) (t : nat) : list nat :=
  flat_map (fun fr =>
              match find (fun ut => match snd ut with Some t' => t' =? t | None => false end) fr with
              | Some ut => [fst ut]
              | None => []
              end) q.

Definition cands (cfg : config) (st : state) (t : nat) : list nat :=
  if lq cfg then lq_get (lqq st) t else fw_cands (fwq st) t.

(* Tracker.get_scores raises (np.nanmax of an empty list) *)
Definition scores_raise (cfg : config) (st : state) (n : nat) : bool :=
  red_max cfg && negb (fix_iii cfg) && (0 <? n) && negb (forallb (has_cand cfg st) (cur st)).

(* local queues: every instance that now has a track is appended to its
   track's deque (an instance with a NEW track: get_new_track_id installs a
   fresh deque, add_new_tracks appends) *)
Fixpoint lq_append (w : nat) (q : list (nat * list nat)) (ut : list (nat * option nat))
  : list (nat * list nat) :=
  match ut with
  | [] => q
  | (u, Some t) :: r => lq_append w (lq_set q t (push w (lq_get q t) u)) r
  | (_, None) :: r => lq_append w q r
  end.

(* `if candidates_list:` — deque non-empty / dict has a key *)
Definition is_init (cfg : config) (st : state) : bool :=
  if lq cfg then match cur st with [] => true | _ => false end
  else match fwq st with [] => true | _ => false end.

(* what Tracker.track returns: the fixed-window branch skips instances whose
   track id is None, the local-queue branch returns them with track None *)
Definition output (cfg : config) (ds : list det) (tids : list (option nat)) : list (nat * option nat) :=
  if lq cfg then combine (uids ds) tids
  else filter (fun x => is_some (snd x)) (combine (uids ds) tids).

(* ---------------------------------------------------------------------- *)
(* one call of Tracker.track *)

Definition step (cfg : config) (st : state) (f : frame) : state * outcome :=
  let '(ds, M, ans) := f in
  let n := length ds in
  let none := repeat (@None nat) n in
  let w := window cfg in
  if is_init cfg st then
    (* self.candidate.add_new_tracks(current_instances) *)
    let '(tids, c') := add_new (if lq cfg then map snd ds else want_fw ds none) none (cur st) in
    let ut := combine (uids ds) tids in
    let st' :=
      if lq cfg then mkState (fwq st) (lq_append w (lqq st) ut) c'
      else mkState (if length (cur st) <? length c' then push w (fwq st) ut else fwq st) (lqq st) c' in
    (st', Ok (output cfg ds tids))
  else if scores_raise cfg st n then (st, Raise ValueErr)
  else match ans with
  | AFail => (st, Raise ValueErr)
  | APairs p =>
      if guard cfg p then
        let tids0 := assign p none in
        let um := unmatched n p in
        if lq cfg then
          let q1 := lq_append w (lqq st) (combine (uids ds) tids0) in
          if fix_ii cfg then
            let '(tids, c') := add_new (want_lq ds (map fst p)) tids0 (cur st) in
            let newut := map (fun x : nat * bool * option nat =>
                               (fst (fst x), if snd (fst x) then snd x else @None nat))
                             (combine (combine (uids ds) (want_lq ds (map fst p))) tids) in
            (mkState (fwq st) (lq_append w q1 newut) c', Ok (output cfg ds tids))
          else
            match um with
            | [] => (mkState (fwq st) q1 (cur st), Ok (output cfg ds tids0))
            | _ :: _ => (mkState (fwq st) q1 (cur st), Raise TypeErr)
            end
        else
          let '(tids, c') :=
            match um with
            | [] => (tids0, cur st)
            | _ :: _ => add_new (want_fw ds tids0) tids0 (cur st)
            end in
          (mkState (push w (fwq st) (combine (uids ds) tids)) (lqq st) c', Ok (output cfg ds tids))
      else (st, Ok (output cfg ds none))
  end.

(* a history; Tracker.track is not called again after it raised *)
Fixpoint run_from (cfg : config) (st : state) (h : list frame) : list outcome :=
  match h with
  | [] => []
  | f :: r =>
      let '(st', o) := step cfg st f in
      o :: match o with Ok _ => run_from cfg st' r | Raise _ => [] end
  end.

Definition run (cfg : config) (h : list frame) : list outcome := run_from cfg init h.

(* the executed steps of a history: (state before the call, frame, outcome) *)
Fixpoint trace (cfg : config) (st : state) (h : list frame) : list (state * frame * outcome) :=
  match h with
  | [] => []
  | f :: r =>
      let so := step cfg st f in
      (st, f, snd so) :: match snd so with Ok _ => trace cfg (fst so) r | Raise _ => [] end
  end.

Definition t_state (x : state * frame * outcome) : state := fst (fst x).
Definition t_frame (x : state * frame * outcome) : frame := snd (fst x).
Definition t_out (x : state * frame * outcome) : outcome := snd x.
Definition f_dets (f : frame) : list det := fst (fst f).
Definition f_matrix (f : frame) : matrix := snd (fst f).
Definition f_answer (f : frame) : answer := snd f.

(* ---------------------------------------------------------------------- *)
(* score matrix access, cost = -score, NaN -> +inf *)

Definition cell (M : matrix) (r c : nat) : score := nth c (nth r M []) None.

(* cost comparison on scores: cost a <= cost b, i.e. score a >= score b, with
   None = +inf cost (the largest) *)
Definition cost_le (a b : score) : bool :=
  match a, b with
  | _, None => true
  | None, Some _ => false
  | Some x, Some y => Qle_bool y x
  end.

Definition cost_lt (a b : score) : bool := negb (cost_le b a).

(* ---------------------------------------------------------------------- *)
(* contracts of the matching functions, as boolean recognisers *)

Fixpoint nodupb (l : list nat) : bool :=
  match l with [] => true | x :: t => negb (memb x t) && nodupb t end.

(* what both matchers guarantee and C09 needs: a one-to-one partial assignment
   inside the matrix, non-empty when the matrix is *)
Definition validb (n m : nat) (p : pairs) : bool :=
  nodupb (map fst p) && nodupb (map snd p) &&
  forallb (fun r => r <? n) (map fst p) && forallb (fun c => c <? m) (map snd p) &&
  (match p with [] => (n =? 0) || (m =? 0) | _ => true end).

Definition ans_validb (n m : nat) (a : answer) : bool :=
  match a with AFail => true | APairs p => validb n m p end.

(* greedy_matching: cells sorted by cost (ties in an order numpy does not
   fix); repeatedly take the first remaining cell and delete its row and
   column.  Exactly the runs accepted here can be returned: every chosen cell
   is a cheapest one among the cells whose row and column are still free, and
   the run stops only when no free cell is left. *)
Fixpoint greedy_runb (M : matrix) (n m : nat) (ur uc : list nat) (p : pairs) : bool :=
  match p with
  | [] => forallb (fun r => forallb (fun c => memb r ur || memb c uc) (seq 0 m)) (seq 0 n)
  | (r, c) :: p' =>
      (r <? n) && (c <? m) && negb (memb r ur) && negb (memb c uc) &&
      forallb (fun r' => forallb (fun c' =>
                 memb r' ur || memb c' uc || cost_le (cell M r c) (cell M r' c'))
               (seq 0 m)) (seq 0 n) &&
      greedy_runb M n m (r :: ur) (c :: uc) p'
  end.

(* reference greedy matcher (stable order: row-major among equal costs) —
   used for stand-alone execution of the model and as a witness that the
   contract is satisfiable; fuel = number of rows *)
Definition cells (n m : nat) : list (nat * nat) :=
  flat_map (fun r => map (fun c => (r, c)) (seq 0 m)) (seq 0 n).

Definition best_cell (M : matrix) (cs : list (nat * nat)) : option (nat * nat) :=
  fold_left (fun acc rc =>
    match acc with
    | None => Some rc
    | Some b => if cost_lt (cell M (fst rc) (snd rc)) (cell M (fst b) (snd b)) then Some rc else Some b
    end) cs None.

Fixpoint greedy_ref_from (fuel : nat) (M : matrix) (cs : list (nat * nat)) : pairs :=
  match fuel with
  | O => []
  | S f =>
      match best_cell M cs with
      | None => []
      | Some (r, c) =>
          (r, c) :: greedy_ref_from f M
                      (filter (fun rc => negb (fst rc =? r) && negb (snd rc =? c)) cs)
      end
  end.

Definition greedy_ref (M : matrix) (n m : nat) : pairs := greedy_ref_from n M (cells n m).

(* reference Hungarian matcher by brute force: all injections of the smaller
   side into the larger one; the cheapest all-finite one, or failure *)
Fixpoint injections (k : nat) (l : nat) : list (list nat) :=
  match k with
  | O => [[]]
  | S k' => flat_map (fun t => map (fun x => x :: t)
                                   (filter (fun x => negb (memb x t)) (seq 0 l)))
                     (injections k' l)
  end.

Definition full_matchings (n m : nat) : list pairs :=
  if n <=? m then map (fun cols => combine (seq 0 n) cols) (injections n m)
  else map (fun rows => combine rows (seq 0 m)) (injections m n).

Fixpoint total (M : matrix) (p : pairs) : option Q :=     (* total SCORE; None = some cell is NaN *)
  match p with
  | [] => Some 0%Q
  | (r, c) :: p' =>
      match cell M r c, total M p' with
      | Some x, Some y => Some (x + y)%Q
      | _, _ => None
      end
  end.

Definition hungarian_ref (M : matrix) (n m : nat) : answer :=
  match fold_left (fun acc p =>
           match total M p, acc with
           | None, _ => acc
           | Some t, None => Some (t, p)
           | Some t, Some (tb, pb) => if Qle_bool t tb then acc else Some (t, p)
           end) (full_matchings n m) None with
  | None => AFail
  | Some (_, p) => APairs p
  end.

Definition ref_total (M : matrix) (n m : nat) : option Q :=
  match hungarian_ref M n m with AFail => None | APairs p => total M p end.

(* ---------------------------------------------------------------------- *)
(* selectors of finding F4 (decidable predicates on a step) *)

(* F4(i): there is a match, but all matched rows are 0 or all matched columns are 0 *)
Definition sel_F4i (p : pairs) : bool :=
  (0 <? length p) && negb (np_any (map fst p) && np_any (map snd p)).

(* F4(ii): local queues, the guard lets the update through and a detection is unmatched *)
Definition sel_F4ii (cfg : config) (n : nat) (p : pairs) : bool :=
  lq cfg && guard cfg p && negb (match unmatched n p with [] => true | _ => false end).

(* F4(iii): a current track without candidate (its column is NaN) *)
Definition sel_F4iii (cfg : config) (st : state) : bool :=
  negb (forallb (has_cand cfg st) (cur st)).

(* the NaN pattern of a recorded score matrix is the one the queues predict:
   a column is NaN exactly when the track has no candidate (finite features) *)
Definition nan_consistent (cfg : config) (st : state) (n : nat) (M : matrix) : bool :=
  forallb (fun r => forallb (fun t => Bool.eqb (is_none (cell M r t)) (negb (has_cand cfg st t)))
                            (cur st)) (seq 0 n).

(* ---------------------------------------------------------------------- *)
(* evaluation for the harness: outcomes plus per-step checks
   [scoring path taken; nan pattern consistent; answer valid; greedy run ok;
    selector F4i; selector F4ii; selector F4iii] *)

Definition step_checks (cfg : config) (st : state) (f : frame) : list bool :=
  let '(ds, M, ans) := f in
  let n := length ds in
  let m := length (cur st) in
  let scoring := negb (is_init cfg st) in
  let p := match ans with APairs p => p | AFail => [] end in
  [ scoring;
    negb scoring || scores_raise cfg st n || nan_consistent cfg st n M;
    negb scoring || scores_raise cfg st n || ans_validb n m ans;
    negb scoring || scores_raise cfg st n || negb (greedy cfg) ||
      match ans with AFail => false | APairs q => greedy_runb M n m [] [] q end;
    scoring && negb (scores_raise cfg st n) && sel_F4i p;
    scoring && negb (scores_raise cfg st n) && sel_F4ii cfg n p;
    scoring && sel_F4iii cfg st ].

Fixpoint run_checked_from (cfg : config) (st : state) (h : list frame)
  : list (outcome * list bool * list (list nat)) :=
  match h with
  | [] => []
  | f :: r =>
      let '(st', o) := step cfg st f in
      (o, step_checks cfg st f, map (cands cfg st) (cur st))
        :: match o with Ok _ => run_checked_from cfg st' r | Raise _ => [] end
  end.

Inductive case :=
| CaseRun (cfg : config) (h : list frame)                 (* replay a recorded history *)
| CaseMatch (M : matrix) (n m : nat) (impl_greedy : pairs). (* reference matchers on a matrix; the
                                                              implementation's greedy answer is checked
                                                              against the greedy contract *)

Inductive result :=
| RRun (l : list (outcome * list bool * list (list nat))) (final_tracks : nat)
| RMatch (hung : answer) (hung_total : option Q) (gr : pairs) (gr_ok : bool) (impl_gr_ok : bool).

Fixpoint final_state (cfg : config) (st : state) (h : list frame) : state :=
  match h with
  | [] => st
  | f :: r => let '(st', o) := step cfg st f in
              match o with Ok _ => final_state cfg st' r | Raise _ => st' end
  end.

Definition run_case (c : case) : result :=
  match c with
  | CaseRun cfg h => RRun (run_checked_from cfg init h) (length (cur (final_state cfg init h)))
  | CaseMatch M n m ig =>
      let g := greedy_ref M n m in
      RMatch (hungarian_ref M n m) (ref_total M n m) g (greedy_runb M n m [] [] g && validb n m g)
             (greedy_runb M n m [] [] ig && validb n m ig)
  end.
