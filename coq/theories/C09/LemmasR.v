(* LemmasR.v (C09, round 4: repairs after the outside review, notes/review/C09.md
   and notes/review/C10.md) — proofs.

   1. The operative theorem of C09 for the CURRENT tree (all five F4 repairs in
      /repo) over the hypothesis the proof really needs and the harness
      validates exactly inside Coq: the matcher's answer is a one-to-one
      assignment inside the matrix (`valid_ans`; boolean `TrackerX.valid_ansb`).
      The theorem under the matcher CONTRACT (optimality ...) is a corollary.
   2. Conservativity for ANY fix_cap / fix_iv: `xstep X = step (base X)` on every
      call that has room under the cap (`cap_room`) and does not take the branch
      added by afd312c (`iv_branch`); hence round 1's theorems about
      `Tracker.step` speak about the current configuration on such histories
      (in particular under round 1's own hypothesis `finite_step`). *)
From Coq Require Import List Arith Bool ZArith QArith Lia.
Import ListNotations.
From SV Require Import C09.Tracker C09.Lemmas C09.TrackerX C09.LemmasX.
Close Scope Q_scope.
Open Scope nat_scope.

(* ====================================================================== *)
(* 1. the weaker hypothesis *)

Definition valid_ans (X : xconfig) (x : state * frame * outcome) : Prop :=
  is_init (base X) (t_state x) = false ->
  exists p, f_answer (t_frame x) = APairs p /\
            matching (length (f_dets (t_frame x))) (length (cur (t_state x))) p.

Lemma matchb_matching : forall n m p, matchb n m p = true <-> matching n m p.
Proof.
  intros n m p. unfold matchb, matching. repeat rewrite andb_true_iff.
  rewrite !nodupb_NoDup, !forallb_forall. split.
  - intros [[[A B] C] D]. repeat split; auto.
    + intros r Hr. apply Nat.ltb_lt. auto.
    + intros c Hc. apply Nat.ltb_lt. auto.
  - intros (A & B & C & D). repeat split; auto.
    + intros r Hr. apply Nat.ltb_lt. auto.
    + intros c Hc. apply Nat.ltb_lt. auto.
Qed.

(* the boolean the harness evaluates (xstep_checks, index 10) IS the hypothesis *)
Lemma valid_ansb_spec : forall X st f o,
  valid_ansb X st f = true <-> valid_ans X (st, f, o).
Proof.
  intros X st f o. unfold valid_ansb, valid_ans, t_state, t_frame. simpl fst. simpl snd.
  destruct (is_init (base X) st); simpl.
  - split; [intros _ H; discriminate | reflexivity].
  - destruct (f_answer f) as [|p].
    + split; [discriminate|]. intros H. destruct (H eq_refl) as (p & E & _). discriminate.
    + rewrite matchb_matching. split.
      * intros H _. exists p. auto.
      * intros H. destruct (H eq_refl) as (q & E & Mq). inversion E; subst. exact Mq.
Qed.

(* the matcher contract (either matcher, repaired Hungarian) implies it *)
Lemma contract_valid_ans : forall X x, xrepaired X ->
  contract_step (base X) x -> valid_ans X x.
Proof.
  intros X [[st f] o] (_ & (F1 & F2 & F3) & _) C Ei.
  unfold contract_step, answer_used, t_state, t_frame in *. simpl fst in *. simpl snd in *.
  assert (Er : scores_raise (base X) st (length (f_dets f)) = false).
  { unfold scores_raise. rewrite F3. destruct (red_max (base X)); reflexivity. }
  rewrite Ei, Er in C. specialize (C eq_refl).
  destruct (f_answer f) as [|p] eqn:Ea.
  - exfalso. eapply matcher_no_fail; eauto.
  - exists p. split; auto. apply matcher_matching_ok in C. exact C.
Qed.

Lemma xstep_rep_any : forall X st f, xrepaired X ->
  Inv (base X) st -> cap_inv X (length (cur st)) ->
  valid_ans X (st, f, snd (xstep X st f)) ->
  xpost X (length (cur st)) (f_dets f) (xstep X st f).
Proof.
  intros X [fq lqs c] f R [Hc Hi] Hcap C. simpl in Hc, Hcap.
  remember (length c) as m eqn:Em. subst c.
  change (length (cur (mkState fq lqs (seq 0 m)))) with (length (seq 0 m)). rewrite seq_length.
  apply xstep_rep_m; auto.
  - intros H. specialize (Hi H). simpl in Hi. destruct m; [simpl in Hi; congruence | lia].
  - intros Ei. unfold valid_ans, t_state, t_frame in C. simpl fst in C. simpl snd in C.
    specialize (C Ei). simpl cur in C. rewrite seq_length in C. exact C.
Qed.

(* the full statement for the current tree, for ANY matcher whose answers are
   one-to-one assignments inside the matrix (no optimality, no greediness) *)
Theorem xrepaired_full_any_matcher : forall X h, xrepaired X ->
  Forall (valid_ans X) (xtrace X init h) ->
  Forall (xok X) (xtrace X init h) /\ length (xrun X h) = length h.
Proof.
  intros X h R HC.
  assert (F : Forall (xok X) (xtrace X init h)).
  { apply (xtrace_induct X (fun st => Inv (base X) st /\ cap_inv X (length (cur st)))
             (valid_ans X)); auto.
    2:{ split; [apply Inv_init|]. intros K _. simpl. lia. }
    intros st f [Hi Hcap] C.
    destruct (xstep_rep_any X st f R Hi Hcap C) as
        (tids & m' & Eo & Ec & Lm & Cm & Hi' & Lt & ND & B & Cp).
    destruct Hi as [Hc Hi0].
    split.
    - unfold xok, t_state, t_frame, t_out. simpl fst. simpl snd.
      split; [exact Hc|]. split; [|split].
      + exists (m' - length (cur st)). rewrite Ec.
        remember (length (cur st)) as m0 eqn:Em0. rewrite Hc.
        replace m' with (m0 + (m' - m0)) at 1 by lia. rewrite seq_app. reflexivity.
      + rewrite Ec, seq_length. exact Cm.
      + exists (output (base X) (f_dets f) tids). split; [exact Eo|].
        rewrite output_tracks by auto. split; [exact ND|]. split.
        * intros t Ht. apply B in Ht. rewrite Ec. apply in_seq. lia.
        * intros u Hu. apply In_nth_error in Hu. destruct Hu as [i Hd].
          rewrite Ec, seq_length.
          destruct (Cp i u Hd) as [[t Ht]|Full].
          -- left. exists t. eapply output_complete_at; eauto.
          -- right. split; [exact Full|].
             assert (Li : i < length tids).
             { rewrite Lt. apply nth_error_Some. intro Hx.
               pose proof (eq_trans (eq_sym Hd) Hx) as Hy. discriminate Hy. }
             apply nth_error_Some in Li.
             destruct (nth_error tids i) as [o|] eqn:Et; [|congruence].
             exists o. unfold output. rewrite (cap_full_lq _ _ Full).
             eapply nth_error_In. apply nth_error_combine; eauto.
             unfold uids. erewrite map_nth_error; eauto. reflexivity.
    - split.
      + split; [rewrite Ec, seq_length; reflexivity|].
        intros H. specialize (Hi' H). rewrite Ec. destruct m'; [lia | discriminate].
      + rewrite Ec, seq_length. exact Cm. }
  split; auto.
  unfold xrun. rewrite xrun_trace, map_length. apply xtrace_all_ok_length.
  eapply Forall_impl; [|exact F]. intros x (_ & _ & _ & out & Ho & _). eauto.
Qed.

(* ... and under the matcher contract, as a corollary *)
Corollary xrepaired_full_contract : forall X h, xrepaired X ->
  Forall (contract_step (base X)) (xtrace X init h) ->
  Forall (xok X) (xtrace X init h) /\ length (xrun X h) = length h.
Proof.
  intros X h R HC. apply xrepaired_full_any_matcher; auto.
  eapply Forall_impl; [|exact HC]. intros x. apply contract_valid_ans; auto.
Qed.

Corollary xrepaired_full_any_matcher_nocap : forall X h, xrepaired X -> cap_of X = None ->
  Forall (valid_ans X) (xtrace X init h) ->
  Forall ok_complete (xtrace X init h) /\ length (xrun X h) = length h.
Proof.
  intros X h R Hc HC. destruct (xrepaired_full_any_matcher X h R HC) as [F L]. split; auto.
  eapply Forall_impl; [|exact F].
  intros x (_ & _ & _ & out & Ho & _ & _ & Cp). exists out. split; auto.
  intros u Hu. destruct (Cp u Hu) as [H|[(K & HK & _) _]]; auto. congruence.
Qed.

(* "exactly once": every detection above the threshold occurs in the result
   exactly once (given distinct uids in the frame); clauses (a) and (c) in one *)
Lemma count_occ_nodup_in : forall (l : list nat) u, NoDup l -> In u l -> count_occ Nat.eq_dec l u = 1.
Proof.
  intros l u ND Hin. exact (proj1 (NoDup_count_occ' Nat.eq_dec l) ND u Hin).
Qed.

Theorem xrepaired_exactly_once : forall X h x, xrepaired X ->
  Forall (valid_ans X) (xtrace X init h) -> In x (xtrace X init h) ->
  NoDup (uids (f_dets (t_frame x))) ->
  exists out, t_out x = Ok out /\
    forall u, In (u, true) (f_dets (t_frame x)) -> count_occ Nat.eq_dec (uids_of out) u = 1.
Proof.
  intros X h x R HC Hx ND.
  destruct (xrepaired_full_any_matcher X h R HC) as [F _].
  rewrite Forall_forall in F. destruct (F x Hx) as (_ & _ & _ & out & Ho & _ & _ & Cp).
  exists out. split; auto. intros u Hu.
  destruct (xoutputs_subset_nodup X h x out Hx Ho) as [_ NDo].
  apply count_occ_nodup_in; [apply NDo; exact ND|].
  destruct (Cp u Hu) as [[t Ht]|[_ [o Ho']]].
  - apply (in_map fst) in Ht. exact Ht.
  - apply (in_map fst) in Ho'. exact Ho'.
Qed.

(* non-vacuity of the hypotheses on steps where the matcher does return pairs *)
Definition Xg_cap : xconfig := x_rep (cfg_rep true true 3 false) (Some 2).

Lemma ex_greedy_cap_run :
  xrun Xg_cap wit_third_appears
  = [Ok [(10, Some 0); (11, Some 1)]; Ok [(20, Some 0); (21, Some 1); (22, None)]].
Proof. reflexivity. Qed.

Lemma ex_greedy_cap_contract :
  Forall (contract_step (base Xg_cap)) (xtrace Xg_cap init wit_third_appears).
Proof.
  apply Forall_forall. intros x Hx. vm_compute in Hx. destruct Hx as [<-|[<-|[]]].
  - intro H. vm_compute in H. discriminate.
  - intro H. unfold matcher_contract. simpl greedy. cbv iota.
    eexists. split; [reflexivity|]. vm_compute. reflexivity.
Qed.

Lemma ex_greedy_cap_valid :
  Forall (valid_ans Xg_cap) (xtrace Xg_cap init wit_third_appears).
Proof.
  eapply Forall_impl; [|exact ex_greedy_cap_contract].
  intros x. apply contract_valid_ans. repeat split; reflexivity.
Qed.

Lemma contract_1x1_repaired : hungarian_contract true [[Some 1%Q]] 1 1 (APairs [(0, 0)]).
Proof.
  split; [apply matching_single; lia|]. split.
  - intros r c [E|[]]. inversion E; subst. vm_compute. discriminate.
  - split.
    + intros q (ND & _ & Hr & _) _. destruct q as [|[r c] [|[r' c'] q]]; simpl; try lia.
      exfalso. inversion ND as [|? ? H1 H2]; subst. simpl in *.
      assert (r < 1) by (apply Hr; auto). assert (r' < 1) by (apply Hr; auto). apply H1. left. lia.
    + intros q (ND & _ & Hr & Hc) Fq L. destruct q as [|[r c] [|x q]]; simpl in L; try discriminate.
      assert (r < 1) by (apply Hr; simpl; auto). assert (c < 1) by (apply Hc; simpl; auto).
      assert (r = 0) by lia. assert (c = 0) by lia. subst. vm_compute. discriminate.
Qed.

(* one animal seen three times, repaired Hungarian matcher, both candidate methods *)
Lemma ex_hungarian_rep_contract : forall l,
  let X := x_rep (cfg_rep l false 3 false) None in
  xrun X wit_one_animal = [Ok [(10, Some 0)]; Ok [(20, Some 0)]; Ok [(30, Some 0)]] /\
  Forall (contract_step (base X)) (xtrace X init wit_one_animal).
Proof.
  intros l X. subst X. split; [destruct l; reflexivity|].
  apply Forall_forall. intros x Hx.
  destruct l; vm_compute in Hx; destruct Hx as [<-|[<-|[<-|[]]]];
    intro H; try (vm_compute in H; discriminate);
    unfold matcher_contract; simpl greedy; cbv iota; simpl fix_iii; apply contract_1x1_repaired.
Qed.

(* ====================================================================== *)
(* 2. conservativity for any fix_cap / fix_iv *)

Lemma add_new_x_room : forall X want tids m,
  (forall K, cap_of X = Some K -> m + count_true want <= K) ->
  add_new_x X want tids (seq 0 m) = Some (add_new want tids (seq 0 m)).
Proof.
  intros X. induction want as [|w want IH]; intros tids m Hr; [reflexivity|].
  destruct tids as [|t tids]; [reflexivity|].
  cbn [add_new_x add_new]. destruct w.
  - assert (Hid : new_id_x X (seq 0 m) = Some m /\ cap_allows X m = true).
    { unfold new_id_x, cap_allows. rewrite new_id_seq. destruct (cap_of X) as [K|] eqn:EK.
      - specialize (Hr K eq_refl). unfold count_true in Hr. simpl in Hr.
        assert (E1 : (K <? m) = false) by (apply Nat.ltb_ge; lia).
        assert (E2 : (m <? K) = true) by (apply Nat.ltb_lt; lia).
        rewrite E1, E2, andb_false_r, orb_true_r. destruct (seq 0 m); auto.
      - destruct (seq 0 m); auto. }
    destruct Hid as [E1 E2]. rewrite E1, E2, new_id_seq, seq_snoc, IH.
    + destruct (add_new want tids (seq 0 (S m))). reflexivity.
    + intros K HK. specialize (Hr K HK). unfold count_true in *. simpl in Hr. lia.
  - rewrite IH.
    + destruct (add_new want tids (seq 0 m)). reflexivity.
    + intros K HK. specialize (Hr K HK). unfold count_true in *. simpl in Hr. lia.
Qed.

Lemma add_new_x_all_false : forall X want tids c,
  (forall b, In b want -> b = false) -> add_new_x X want tids c = Some (tids, c).
Proof.
  intros X. induction want as [|w want IH]; intros tids c H; [reflexivity|].
  destruct tids as [|t tids]; [reflexivity|].
  cbn [add_new_x]. rewrite (H w (or_introl eq_refl)).
  rewrite IH; [reflexivity|]. intros b Hb. apply H. right. exact Hb.
Qed.

Lemma lq_append_none : forall w (us : list nat) n q,
  lq_append w q (combine us (repeat (@None nat) n)) = q.
Proof.
  induction us as [|u us IH]; intros [|n] q; simpl; auto.
Qed.

Lemma no_above_first_wants : forall (l : bool) (ds : list det) none,
  existsb snd ds = false ->
  forall b, In b (if l then map snd ds else want_fw ds none) -> b = false.
Proof.
  intros l ds none H b Hb.
  assert (A : forall d, In d ds -> snd d = false).
  { intros d Hd. destruct (snd d) eqn:E; auto.
    assert (K : existsb snd ds = true) by (apply existsb_exists; exists d; auto). congruence. }
  destruct l.
  - apply in_map_iff in Hb. destruct Hb as [d [<- Hd]]. auto.
  - unfold want_fw in Hb. apply in_map_iff in Hb. destruct Hb as [[d o] [<- Hd]].
    apply in_combine_l in Hd. simpl. rewrite (A d Hd). reflexivity.
Qed.

(* room under the cap at a call *)
Definition cap_room (X : xconfig) (x : state * frame * outcome) : Prop :=
  forall K, cap_of X = Some K ->
    length (cur (t_state x)) + need X (t_state x) (t_frame x) <= K.

(* the boolean the harness evaluates (xstep_checks, index 12) IS the hypothesis *)
Lemma cap_roomb_spec : forall X st f o, cap_roomb X st f = true <-> cap_room X (st, f, o).
Proof.
  intros X st f o. unfold cap_roomb, cap_room, t_state, t_frame. simpl fst. simpl snd.
  destruct (cap_of X) as [k|].
  - rewrite Nat.leb_le. split; [intros H K HK; inversion HK; subst; exact H | intros H; apply H; reflexivity].
  - split; [intros _ K HK; discriminate | reflexivity].
Qed.

Definition iv_inert (X : xconfig) (x : state * frame * outcome) : Prop :=
  iv_branch X (t_state x) (t_frame x) = false.

Lemma xstep_room : forall X st f m,
  names_ok X = true -> cur st = seq 0 m ->
  (forall K, cap_of X = Some K -> m + need X st f <= K) ->
  iv_branch X st f = false ->
  xstep X st f = step (base X) st f.
Proof.
  intros X st [[ds M] ans] m Hn Hc Hroom Hinert.
  destruct (names_ok_split X Hn) as (N1 & N2 & N3 & N4).
  unfold iv_branch, f_dets, f_answer in Hinert. simpl fst in Hinert. simpl snd in Hinert.
  unfold need in Hroom. cbv zeta in Hroom.
  unfold xstep, step. cbv zeta. rewrite N1, N2, N3, N4. cbn [negb andb].
  set (n := length ds) in *. set (none := repeat (@None nat) n) in *.
  destruct (is_init (base X) st) eqn:Ei.
  - rewrite Hc. rewrite add_new_x_room by exact Hroom.
    destruct (add_new _ none (seq 0 m)) as [tids c']. reflexivity.
  - destruct (scores_raise (base X) st n) eqn:Er; [reflexivity|].
    destruct ans as [|p]; [reflexivity|].
    destruct (guard (base X) p) eqn:Eg.
    + destruct (lq (base X)) eqn:El.
      * destruct (fix_ii (base X)); [|reflexivity].
        rewrite Hc. rewrite add_new_x_room by exact Hroom.
        destruct (add_new _ _ (seq 0 m)) as [tids c']. reflexivity.
      * destruct (unmatched n p) eqn:Eu; [reflexivity|].
        rewrite Hc. rewrite add_new_x_room by exact Hroom.
        destruct (add_new _ _ (seq 0 m)) as [tids c']. reflexivity.
    + destruct (fix_iv X) eqn:Hiv; [|reflexivity].
      cbn [negb andb] in Hinert.
      rewrite (add_new_x_all_false X _ none (cur st)
                 (no_above_first_wants (lq (base X)) ds none Hinert)).
      destruct st as [fq lqs c]. simpl fwq. simpl lqq. simpl cur.
      rewrite Nat.ltb_irrefl. unfold none. rewrite lq_append_none.
      destruct (lq (base X)); reflexivity.
Qed.

(* over histories: hypotheses stated on Tracker.v's own trace *)
Theorem xtrace_conservative : forall X, names_ok X = true ->
  forall h st, Inv (base X) st ->
  Forall (contract_step (base X)) (trace (base X) st h) ->
  Forall (cap_room X) (trace (base X) st h) ->
  Forall (iv_inert X) (trace (base X) st h) ->
  xtrace X st h = trace (base X) st h.
Proof.
  intros X Hn. induction h as [|f r IH]; intros st Hi HC HR HV; simpl in *; auto.
  inversion HC as [|? ? C0 CR]; subst. inversion HR as [|? ? R0 RR]; subst.
  inversion HV as [|? ? V0 VR]; subst.
  assert (E : xstep X st f = step (base X) st f).
  { destruct Hi as [Hc _]. apply (xstep_room X st f (length (cur st))); auto;
      try (intros K HK; exact (R0 K HK)). }
  rewrite E. f_equal.
  destruct (snd (step (base X) st f)) eqn:Eo; auto.
  apply IH; auto.
  pose proof (step_spec (base X) st f Hi (contract_valid _ _ _ _ C0)) as (I1 & _). exact I1.
Qed.

(* round 1's hypothesis `finite_step` (with the contract) excludes afd312c's branch *)
Lemma finite_iv_inert : forall X st f o, Inv (base X) st -> fix_i (base X) = true ->
  contract_step (base X) (st, f, o) -> finite_step (base X) (st, f, o) -> iv_inert X (st, f, o).
Proof.
  intros X st f o [_ Hi] F1 C Fi.
  pose proof (contract_nonempty _ _ _ _ C Fi) as NE.
  unfold iv_inert, iv_branch, t_state, t_frame. simpl fst. simpl snd.
  unfold nonempty_step, answer_used in NE.
  destruct (fix_iv X); [|reflexivity].
  destruct (is_init (base X) st) eqn:Ei; [reflexivity|].
  destruct (scores_raise (base X) st (length (f_dets f))) eqn:Er; [reflexivity|].
  cbn [negb andb] in *.
  destruct (f_answer f) as [|p] eqn:Ea; [reflexivity|].
  rewrite (guard_fix_i _ _ F1).
  destruct p as [|rc p']; [|reflexivity].
  destruct (NE eq_refl [] eq_refl eq_refl) as [N0|M0].
  - destruct (f_dets f); [reflexivity | discriminate].
  - exfalso. apply (Hi eq_refl). destruct (cur st); [reflexivity | discriminate].
Qed.

(* Round 1's theorems were proved for `Tracker.step`, whose no-pair branch is the
   one of the tree BEFORE afd312c.  Under their own hypotheses (contract +
   `finite_step`) and room under the cap they speak about the widened model in
   ANY configuration with valid names — in particular the current one, `x_rep`. *)
Theorem round1_carries_over : forall X h, names_ok X = true -> fix_i (base X) = true ->
  Forall (contract_step (base X)) (trace (base X) init h) ->
  Forall (finite_step (base X)) (trace (base X) init h) ->
  Forall (cap_room X) (trace (base X) init h) ->
  xtrace X init h = trace (base X) init h /\ xrun X h = run (base X) h.
Proof.
  intros X h Hn F1 HC HF HR.
  assert (HV : Forall (iv_inert X) (trace (base X) init h)).
  { assert (G : forall h st, Inv (base X) st ->
               Forall (contract_step (base X)) (trace (base X) st h) ->
               Forall (finite_step (base X)) (trace (base X) st h) ->
               Forall (iv_inert X) (trace (base X) st h)).
    { clear - F1. induction h as [|f r IH]; intros st Hi HC HF; simpl in *; [constructor|].
      inversion HC as [|? ? C0 CR]; subst. inversion HF as [|? ? F0 FR]; subst.
      constructor; [eapply finite_iv_inert; eauto|].
      destruct (snd (step (base X) st f)) eqn:Eo; [|constructor].
      apply IH; auto.
      pose proof (step_spec (base X) st f Hi (contract_valid _ _ _ _ C0)) as (I1 & _). exact I1. }
    apply G; auto. apply Inv_init. }
  pose proof (xtrace_conservative X Hn h init (Inv_init _) HC HR HV) as E.
  split; [exact E|]. unfold xrun, run. rewrite xrun_trace, run_trace, E. reflexivity.
Qed.

Lemma cap_room_nocap : forall X x, cap_of X = None -> cap_room X x.
Proof. intros X x H K HK. congruence. Qed.

(* round 1's completeness theorem, carried to the CURRENT configuration (fixed
   window or no max_tracks): the hypotheses are round 1's *)
Corollary round1_complete_current : forall cfg mt h, repaired cfg -> cap_of (x_rep cfg mt) = None ->
  Forall (contract_step cfg) (trace cfg init h) ->
  Forall (finite_step cfg) (trace cfg init h) ->
  xrun (x_rep cfg mt) h = run cfg h /\
  Forall ok_complete (xtrace (x_rep cfg mt) init h) /\ length (xrun (x_rep cfg mt) h) = length h.
Proof.
  intros cfg mt h R Hc HC HF.
  destruct (round1_carries_over (x_rep cfg mt) h eq_refl (proj1 R) HC HF) as [E1 E2].
  { apply Forall_forall. intros x _. apply cap_room_nocap; auto. }
  destruct (complete_no_raise_repaired cfg h R HC HF) as [A B].
  split; [exact E2|]. rewrite E1, E2. auto.
Qed.

(* the branch of afd312c IS taken on the all-NaN witness: there the two models differ *)
Lemma ex_iv_branch_taken : forall l r,
  let X := x_rep (cfg_rep l false 3 r) None in
  exists x, In x (xtrace X init wit_all_nan) /\ iv_branch X (t_state x) (t_frame x) = true /\
            xrun X wit_all_nan <> run (base X) wit_all_nan.
Proof.
  intros l r X. subst X.
  destruct l, r; (eexists; split; [right; left; reflexivity|]; split; [reflexivity|]);
    vm_compute; intro H; discriminate H.
Qed.
