(* Props.v (C09) — statements only; proofs live in C09/Lemmas.v.

   Property C09: "tracking does not raise, returns every input detection whose
   score exceeds the new-track threshold exactly once and with a track, never
   returns a detection twice or one it was not given, and never gives two
   detections of the same frame the same track — for both candidate methods,
   both matching algorithms and every feature/score combination".

   The model (C09/Tracker.v) is a state machine `step cfg st frame` for both
   candidate methods; a frame carries the detections (uid, score > threshold),
   the score matrix returned by get_scores and the matcher's answer.  All
   theorems quantify over EVERY configuration (method, matcher, window size,
   reduction), EVERY history (no bound on frames, detections, tracks) and
   EVERY sequence of score matrices and matcher answers; where an answer is
   constrained it is only by the matcher's contract (`contract_step`).
   `trace cfg init h` lists the executed calls (state before, frame, outcome);
   `run cfg h = map t_out (trace cfg init h)`.

   The three switches fix_i/fix_ii/fix_iii select the code as it is (false)
   or repaired (true) for the three defects of finding F4.  On the CURRENT
   tree completeness and absence of exceptions are refuted (three minimal
   histories, replayed on the implementation by harness/props/c09.py); the
   general theorem `complete_no_raise_partial` has as its only extra
   hypothesis that no F4 selector fires, and becomes the full statement
   `complete_no_raise_repaired` when the repairs are applied. *)
From Coq Require Import List Arith Bool ZArith QArith.
Import ListNotations.
From SV Require Import C09.Tracker C09.Lemmas.
Close Scope Q_scope.
Open Scope nat_scope.

(* --- smoke examples: the model on the witness histories ------------------ *)

Example ex_one_animal_fixed_window :
  run (cfg_now false false 3 false) wit_one_animal = [Ok [(10, Some 0)]; Ok []; Ok []].
Proof. exact wit_one_animal_fw. Qed.

Example ex_one_animal_local_queues :
  run (cfg_now true false 3 false) wit_one_animal
  = [Ok [(10, Some 0)]; Ok [(20, None)]; Ok [(30, None)]].
Proof. exact wit_one_animal_lq. Qed.

Example ex_one_animal_repaired : forall l,
  run (mkConfig l false 3 false true true true) wit_one_animal
  = [Ok [(10, Some 0)]; Ok [(20, Some 0)]; Ok [(30, Some 0)]].
Proof. exact wit_one_animal_repaired. Qed.

Example ex_third_appears_repaired :
  run (mkConfig true false 3 false true true true) wit_third_appears
  = [Ok [(10, Some 0); (11, Some 1)]; Ok [(20, Some 0); (21, Some 1); (22, Some 2)]].
Proof. exact wit_third_appears_repaired. Qed.

Example ex_stale_track_max_raises :
  run (cfg_now false true 1 true)
      (firstn 2 wit_stale_track ++ [([(30, true); (31, true); (32, true)], [], AFail)])
  = [Ok [(10, Some 0); (11, Some 1); (12, Some 2)]; Ok [(21, Some 1); (22, Some 2)]; Raise ValueErr].
Proof. exact wit_stale_track_max. Qed.

(* --- the definitions used below, restated -------------------------------- *)

(* one-to-one partial assignment inside an n x m matrix *)
Lemma matching_def : forall n m p,
  matching n m p =
  (NoDup (map fst p) /\ NoDup (map snd p) /\
   (forall r, In r (map fst p) -> r < n) /\ (forall c, In c (map snd p) -> c < m)).
Proof. reflexivity. Qed.
Print Assumptions matching_def.

(* contract of hungarian_matching (scipy linear_sum_assignment on cost = -score,
   NaN -> inf): optimal finite assignment of size min(n,m), failure iff none
   exists; the repaired function (fix3) never fails and returns a finite
   assignment of maximal size *)
Lemma hungarian_contract_def : forall fix3 M n m a,
  hungarian_contract fix3 M n m a =
  match a with
  | APairs p =>
      matching n m p /\ finite_on M p /\
      (if fix3 then forall q, matching n m q -> finite_on M q -> length q <= length p
       else length p = Nat.min n m) /\
      (forall q, matching n m q -> finite_on M q -> length q = length p ->
                 (tot M q <= tot M p)%Q)
  | AFail => fix3 = false /\
             forall q, matching n m q -> finite_on M q -> length q <> Nat.min n m
  end.
Proof. reflexivity. Qed.
Print Assumptions hungarian_contract_def.

(* contract of greedy_matching: an admissible greedy run (Tracker.greedy_runb) *)
Lemma matcher_contract_def : forall cfg M n m a,
  matcher_contract cfg M n m a =
  if greedy cfg then exists p, a = APairs p /\ greedy_runb M n m [] [] p = true
  else hungarian_contract (fix_iii cfg) M n m a.
Proof. reflexivity. Qed.
Print Assumptions matcher_contract_def.

(* hypothesis on an executed call: if the matcher was called, its answer
   satisfies the contract for the recorded matrix (detections x current tracks) *)
Lemma contract_step_def : forall cfg x,
  contract_step cfg x =
  (negb (is_init cfg (t_state x)) &&
   negb (scores_raise cfg (t_state x) (length (f_dets (t_frame x)))) = true ->
   matcher_contract cfg (f_matrix (t_frame x)) (length (f_dets (t_frame x)))
                    (length (cur (t_state x))) (f_answer (t_frame x))).
Proof. reflexivity. Qed.
Print Assumptions contract_step_def.

(* the call returns, and every detection above the threshold is in the result with a track *)
Lemma ok_complete_def : forall x,
  ok_complete x =
  (exists out, t_out x = Ok out /\
     forall u, In (u, true) (f_dets (t_frame x)) -> exists t, In (u, Some t) out).
Proof. reflexivity. Qed.
Print Assumptions ok_complete_def.

(* no F4 defect fires at this call: get_scores does not raise, the matcher
   answers, and (unless repaired) the answer is not "only index 0" [F4 i] and
   leaves no detection unmatched under local queues [F4 ii] *)
Lemma no_defect_fires_def : forall cfg x,
  no_defect_fires cfg x =
  (is_init cfg (t_state x) = false ->
   scores_raise cfg (t_state x) (length (f_dets (t_frame x))) = false /\
   exists p, f_answer (t_frame x) = APairs p /\
     (fix_i cfg = true \/ sel_F4i p = false) /\
     (fix_ii cfg = true \/ sel_F4ii cfg (length (f_dets (t_frame x))) p = false)).
Proof. reflexivity. Qed.
Print Assumptions no_defect_fires_def.

(* only for the repaired Hungarian matcher: some cell of a non-empty matrix is finite *)
Lemma finite_step_def : forall cfg x,
  finite_step cfg x =
  (answer_used cfg (t_state x) (t_frame x) = true -> greedy cfg = false -> fix_iii cfg = true ->
   let M := f_matrix (t_frame x) in
   let n := length (f_dets (t_frame x)) in let m := length (cur (t_state x)) in
   0 < n -> 0 < m -> exists r c, r < n /\ c < m /\ cell M r c <> None).
Proof. reflexivity. Qed.
Print Assumptions finite_step_def.

Lemma tracks_ok_def : forall cfg x,
  tracks_ok cfg x =
  (let st := t_state x in
   let st' := fst (step cfg st (t_frame x)) in
   cur st = seq 0 (length (cur st)) /\
   (exists k, cur st' = cur st ++ seq (length (cur st)) k) /\
   NoDup (cur st') /\
   forall out, t_out x = Ok out -> NoDup (tracks_of out) /\ incl (tracks_of out) (cur st')).
Proof. reflexivity. Qed.
Print Assumptions tracks_ok_def.

Lemma run_is_trace : forall cfg h, run cfg h = map t_out (trace cfg init h).
Proof. intros; apply run_trace. Qed.
Print Assumptions run_is_trace.

(* --- (a) never invented, never duplicated -------------------------------- *)

(* For every configuration, every history and ANY matrices and answers
   whatsoever: what a call returns is a sub-list of the detections it was
   given, without repetition. *)
Theorem c09_outputs_subset_nodup : forall cfg h x out,
  In x (trace cfg init h) -> t_out x = Ok out ->
  incl (uids_of out) (uids (f_dets (t_frame x))) /\
  (NoDup (uids (f_dets (t_frame x))) -> NoDup (uids_of out)).
Proof. exact outputs_subset_nodup. Qed.
Print Assumptions c09_outputs_subset_nodup.

(* --- (b) no two detections of a frame share a track; ids are fresh ------- *)

(* For every configuration and history whose matcher answers satisfy the
   contract: current_tracks is always [0..n), only grows by appending ids it
   does not contain (ids are never reused), the tracks returned for one frame
   are pairwise distinct and are current tracks.  Proved by induction over the
   history with the invariant `Inv`. *)
Theorem c09_distinct_tracks_fresh_ids : forall cfg h,
  Forall (contract_step cfg) (trace cfg init h) -> Forall (tracks_ok cfg) (trace cfg init h).
Proof. exact distinct_tracks_fresh_ids. Qed.
Print Assumptions c09_distinct_tracks_fresh_ids.

(* --- (c) completeness and (d) no exception ------------------------------- *)

(* CURRENT tree (fix_i = fix_ii = fix_iii = false): refuted.  A lone animal
   loses its track from the second frame on (dropped by the fixed window,
   returned without track by local queues); both candidate methods. *)
Theorem c09_completeness_refuted : forall l,
  let cfg := cfg_now l false 3 false in
  Forall (contract_step cfg) (trace cfg init wit_one_animal) /\
  ~ Forall ok_complete (trace cfg init wit_one_animal).
Proof. exact completeness_refuted_now. Qed.
Print Assumptions c09_completeness_refuted.

(* local queues: a third animal appears -> TypeError *)
Theorem c09_no_exception_refuted_type_error :
  let cfg := cfg_now true false 3 false in
  Forall (contract_step cfg) (trace cfg init wit_third_appears) /\
  In (Raise TypeErr) (run cfg wit_third_appears).
Proof. exact type_error_refuted_now. Qed.
Print Assumptions c09_no_exception_refuted_type_error.

(* fixed window + Hungarian: a track without candidate -> infeasible -> ValueError *)
Theorem c09_no_exception_refuted_value_error :
  let cfg := cfg_now false false 1 false in
  Forall (contract_step cfg) (trace cfg init wit_stale_track) /\
  In (Raise ValueErr) (run cfg wit_stale_track).
Proof. exact value_error_refuted_now. Qed.
Print Assumptions c09_no_exception_refuted_value_error.

(* ANY setting of the switches: if no F4 selector fires along the run, every
   call returns and is complete, and the run has the length of the history
   (no exception).  The hypothesis is exactly the complement of the selectors
   the harness uses. *)
Theorem c09_complete_no_raise_partial : forall cfg h,
  Forall (contract_step cfg) (trace cfg init h) ->
  Forall (finite_step cfg) (trace cfg init h) ->
  Forall (no_defect_fires cfg) (trace cfg init h) ->
  Forall ok_complete (trace cfg init h) /\ length (run cfg h) = length h.
Proof. exact complete_no_raise_general. Qed.
Print Assumptions c09_complete_no_raise_partial.

(* fix_i and fix_ii applied: the only remaining hypothesis is that no
   ValueError of F4(iii) occurs *)
Theorem c09_complete_no_raise_fix_i_ii : forall cfg h, fix_i cfg = true -> fix_ii cfg = true ->
  Forall (contract_step cfg) (trace cfg init h) ->
  Forall (finite_step cfg) (trace cfg init h) ->
  Forall (no_value_error cfg) (trace cfg init h) ->
  Forall ok_complete (trace cfg init h) /\ length (run cfg h) = length h.
Proof. exact complete_no_raise_fix_i_ii. Qed.
Print Assumptions c09_complete_no_raise_fix_i_ii.

(* REPAIRED tree (all three switches): the full statement — every call of
   every history returns, complete.  (`finite_step` only constrains the
   repaired Hungarian matcher's input: not every track is without candidate.) *)
Theorem c09_complete_no_raise_repaired : forall cfg h, repaired cfg ->
  Forall (contract_step cfg) (trace cfg init h) ->
  Forall (finite_step cfg) (trace cfg init h) ->
  Forall ok_complete (trace cfg init h) /\ length (run cfg h) = length h.
Proof. exact complete_no_raise_repaired. Qed.
Print Assumptions c09_complete_no_raise_repaired.
